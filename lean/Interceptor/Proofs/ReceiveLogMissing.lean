/-
C03: `add` preserves `R` for every arrival (all branches together) and
`missingSeqNumbers` returns exactly the specification's missing set.
-/
import Interceptor.Proofs.ReceiveLogFwd
set_option linter.unusedVariables false
namespace Interceptor.ReceiveLog
open Interceptor

/-- ★ the invariant is preserved by `add` for EVERY 16-bit sequence number. -/
theorem R_add {size : Nat} (hs : SizeOK size) {l : Log} {a : NackSpec.Stream} {lcU : Int}
    (h : R size l a lcU) (q : Nat) (hq : q < 65536) :
    ∃ (a' : NackSpec.Stream) (lcU' : Int),
      NackSpec.arrive size (some a) q = some a' ∧ R size (add l q) a' lcU' := by
  obtain ⟨hx1, hx2, hx3⟩ := unwrapAt_spec a.hi q hq
  have hp := hs.pos
  unfold NackSpec.arrive
  simp only []
  generalize NackSpec.unwrapAt a.hi q = x at *
  subst hx1
  by_cases c1 : a.hi < x
  · obtain ⟨lcU', hR⟩ := R_add_fwd hs h x c1 hx3
    refine ⟨_, lcU', ?_, hR⟩
    have : x - (size : Int) < x := by omega
    simp [c1, this]
  · by_cases c2 : x = a.hi
    · subst c2
      refine ⟨_, lcU, ?_, R_add_dup hs h⟩
      have : a.hi - (size : Int) < a.hi := by omega
      simp [this]
    · have c3 : x < a.hi := by omega
      by_cases c4 : a.hi - size < x
      · obtain ⟨lcU', hR⟩ := R_add_late hs h x c3 c4
        refine ⟨_, lcU', ?_, hR⟩
        simp [c1, c4]
      · refine ⟨a, lcU, ?_, ?_⟩
        · simp [c1, c4]
        · rw [R_add_old hs h x c3 hx2 (by omega)]; exact h

theorem filter_map_range (m : Nat) (f : Nat → Int) (P : Nat → Bool) (Q : Int → Bool)
    (h : ∀ j, j < m → P (sq (f j)) = Q (f j)) :
    ((List.range m).map (fun j => sq (f j))).filter P = (((List.range m).map f).filter Q).map sq := by
  induction m with
  | zero => rfl
  | succ m ih =>
    have ih' := ih (fun j hj => h j (by omega))
    have hm := h m (by omega)
    rw [List.range_succ]
    simp only [List.map_append, List.filter_append, List.map_cons, List.map_nil, ih']
    congr 1
    simp only [List.filter_cons, List.filter_nil, hm]
    split <;> rfl

/-- ★ on related states the bitmap scan returns exactly the specification's missing list. -/
theorem missing_R {size : Nat} (hs : SizeOK size) {l : Log} {a : NackSpec.Stream} {lcU : Int}
    (h : R size l a lcU) (skip : Nat) :
    missing l skip = NackSpec.missing size (some a) skip := by
  have hp := hs.pos
  have hle := hs.le
  have hlo := h.hlo
  have hlcle := h.hle
  have hfirst := h.hfirst
  have hD : sub16 l.end_ l.lc = (a.hi - lcU).toNat := by
    rw [h.hend, h.hlc, sub16_sq]; exact sq_small _ (by omega) (by omega)
  unfold missing NackSpec.missing NackSpec.missingU
  simp only []
  -- the lower end of the specification's range
  generalize hlo' : (if a.first < a.hi - ↑size then a.hi - ↑size else a.first) = lo
  have hlo1 : a.first ≤ lo := by rw [← hlo']; split <;> omega
  have hlo2 : a.hi - size ≤ lo := by rw [← hlo']; split <;> omega
  have hlo3 : lo ≤ lcU := by rw [← hlo']; split <;> omega
  have hQ : ∀ y : Int, lo < y → y ≤ lcU → (!a.recv.contains y) = false := by
    intro y hy1 hy2
    have := h.hrecv y (by omega) (by omega) hy2
    simp [this]
  rw [hD]
  by_cases hsk : skip > (a.hi - lcU).toNat
  · rw [if_pos hsk]
    symm
    rw [List.map_eq_nil_iff, List.filter_eq_nil_iff]
    intro y hy
    rw [List.mem_map] at hy
    obtain ⟨j, hj, rfl⟩ := hy
    rw [List.mem_range] at hj
    rw [hQ _ (by omega) (by omega)]
    simp
  · rw [if_neg hsk]
    have e1 : sub16 (sub16 l.end_ skip) l.lc = (a.hi - lcU).toNat - skip := by
      rw [h.hend, h.hlc, sub16_sq_nat, sub16_sq, sq_small (a.hi - (skip : Int) - lcU) (by omega) (by omega)]; omega
    rw [e1]
    have e2 : (a.hi - (skip : Int) - lo).toNat = (lcU - lo).toNat + ((a.hi - lcU).toNat - skip) := by omega
    rw [e2, List.range_add, List.map_append, List.filter_append]
    have e3 : List.filter (fun x => !a.recv.contains x)
        (List.map (fun (j : Nat) => lo + 1 + (j : Int)) (List.range (lcU - lo).toNat)) = [] := by
      rw [List.filter_eq_nil_iff]
      intro y hy
      rw [List.mem_map] at hy
      obtain ⟨j, hj, rfl⟩ := hy
      rw [List.mem_range] at hj
      rw [hQ _ (by omega) (by omega)]
      simp
    rw [e3, List.nil_append, List.map_map]
    have e4 : (fun j => add16 (add16 l.lc 1) j) = fun (j : Nat) => sq (lcU + 1 + (j : Int)) := by
      funext j; rw [h.hlc, add16_sq_one, add16_sq]
    rw [e4]
    rw [filter_map_range _ (fun (j : Nat) => lcU + 1 + (j : Int)) _ (fun x => !a.recv.contains x)]
    · congr 2
      apply List.map_congr_left
      intro j hj
      show lcU + 1 + (j : Int) = lo + 1 + (((lcU - lo).toNat + j : Nat) : Int)
      omega
    · intro j hj
      show (!getBit l (sq (lcU + 1 + (j : Int)))) = !a.recv.contains (lcU + 1 + (j : Int))
      rw [h.hbit (lcU + 1 + (j : Int)) (by omega) (by omega)]
      simp

end Interceptor.ReceiveLog

/-
Helper lemmas for C20 (NTP): the stages of `ToNTP` are monotone and bounded in the exact
binary64 model.
-/
import Interceptor.Proofs.F64Mono
import Interceptor.Model.Ntp
namespace Interceptor.Ntp
open Interceptor.F64

/-- the last instant of NTP era 0 that is kept clear of the 2^32-second boundary:
2036-02-07 06:28:15 UTC, in Unix nanoseconds. -/
def maxNs : Int := 2085978495 * 1000000000

/-- `s` of `ToNTP`: seconds since 1900 as a binary64 value. -/
def sOf (ns : Int) : ℚ := add (div (ofInt ns) 1000000000) 2208988800

/-- the fractional-part expression of `ToNTP` for a given integer part. -/
def fracOf (s : ℚ) (ip : Nat) : ℚ := mul (sub s (ofInt ip)) 4294967295

theorem toNTP_eq (ns : Int) :
    toNTP ns = toUint32 (sOf ns) * 4294967296 + toUint32 (fracOf (sOf ns) (toUint32 (sOf ns))) := rfl

/-- rounding does not cross a grid point from below. -/
theorem rne_le_grid (q : ℚ) (J z : Int) (hq0 : 0 ≤ q) (hq : q ≤ (z : ℚ) * pow2 J)
    (hlt : (z : ℚ) * pow2 J < pow2 (J + 53)) (hJ : -1074 ≤ J) : rne q ≤ (z : ℚ) * pow2 J :=
  (rne_sandwich q J z hq0 (lt_of_le_of_lt hq hlt) hJ).2 hq

/-- rounding does not cross a grid point from above. -/
theorem grid_le_rne (q : ℚ) (J z : Int) (hq0 : 0 ≤ q) (hq : (z : ℚ) * pow2 J ≤ q)
    (hlt : q < pow2 (J + 53)) (hJ : -1074 ≤ J) : (z : ℚ) * pow2 J ≤ rne q :=
  (rne_sandwich q J z hq0 hlt hJ).1 hq

theorem pow2_61 : pow2 61 = 2305843009213693952 := by rw [pow2_eq]; norm_num
theorem pow2_8 : pow2 8 = 256 := by rw [pow2_eq]; norm_num
theorem pow2_m22 : pow2 (-22) = 1 / 4194304 := by rw [pow2_eq]; norm_num
theorem pow2_31 : pow2 31 = 2147483648 := by rw [pow2_eq]; norm_num
theorem pow2_m52 : pow2 (-52) = 1 / 4503599627370496 := by rw [pow2_eq]; norm_num
theorem pow2_1 : pow2 1 = 2 := by rw [pow2_eq]; norm_num
theorem pow2_m20 : pow2 (-20) = 1 / 1048576 := by rw [pow2_eq]; norm_num
theorem pow2_33 : pow2 33 = 8589934592 := by rw [pow2_eq]; norm_num

/-- `float64(ns)` stays below the (representable) bound. -/
theorem ofInt_le_max (ns : Int) (h0 : 0 ≤ ns) (h : ns ≤ maxNs) : ofInt ns ≤ (maxNs : ℚ) := by
  unfold ofInt
  have e : (maxNs : ℚ) = ((8148353496093750 : Int) : ℚ) * pow2 8 := by
    rw [pow2_8]; unfold maxNs; norm_num
  rw [e]
  apply rne_le_grid _ 8 _ (by exact_mod_cast h0)
  · rw [← e]; exact_mod_cast h
  · rw [← e]; unfold maxNs; have : (8 : Int) + 53 = 61 := rfl
    rw [this, pow2_61]; norm_num
  · norm_num

theorem ofInt_nonneg (ns : Int) (h0 : 0 ≤ ns) : 0 ≤ ofInt ns := rne_nonneg _ (by exact_mod_cast h0)

theorem ofInt_mono (a b : Int) (h0 : 0 ≤ a) (h : a ≤ b) : ofInt a ≤ ofInt b :=
  rne_mono _ _ (by exact_mod_cast h0) (by exact_mod_cast h)

/-- `float64(ns)/1e9` is at most 2085978495 (a representable value). -/
theorem secs_le (ns : Int) (h0 : 0 ≤ ns) (h : ns ≤ maxNs) :
    div (ofInt ns) 1000000000 ≤ 2085978495 := by
  unfold div
  have hx := ofInt_le_max ns h0 h
  have hx0 := ofInt_nonneg ns h0
  have e : (2085978495 : ℚ) = ((8749227945492480 : Int) : ℚ) * pow2 (-22) := by rw [pow2_m22]; norm_num
  rw [e]
  apply rne_le_grid _ (-22) _ (by positivity)
  · rw [← e]
    have : (maxNs : ℚ) = 2085978495 * 1000000000 := by unfold maxNs; norm_num
    rw [this] at hx
    rw [div_le_iff₀ (by norm_num)]; exact hx
  · rw [← e]; have : (-22 : Int) + 53 = 31 := rfl
    rw [this, pow2_31]; norm_num
  · norm_num

theorem secs_nonneg (ns : Int) (h0 : 0 ≤ ns) : 0 ≤ div (ofInt ns) 1000000000 := by
  unfold div; exact rne_nonneg _ (div_nonneg (ofInt_nonneg ns h0) (by norm_num))

theorem secs_mono (a b : Int) (h0 : 0 ≤ a) (h : a ≤ b) :
    div (ofInt a) 1000000000 ≤ div (ofInt b) 1000000000 := by
  unfold div
  exact rne_mono _ _ (div_nonneg (ofInt_nonneg a h0) (by norm_num))
    (div_le_div_of_nonneg_right (ofInt_mono a b h0 h) (by norm_num))

/-- ★ bounds of `s`: between the NTP offset and 2^32 − 1. -/
theorem sOf_bounds (ns : Int) (h0 : 0 ≤ ns) (h : ns ≤ maxNs) :
    2208988800 ≤ sOf ns ∧ sOf ns ≤ 4294967295 := by
  unfold sOf add
  have h1 := secs_nonneg ns h0
  have h2 := secs_le ns h0 h
  constructor
  · have e : (2208988800 : ℚ) = ((4632585279897600 : Int) : ℚ) * pow2 (-21) := by rw [pow2_m21]; norm_num
    rw [e]
    apply grid_le_rne _ (-21) _ (by linarith)
    · rw [← e]; linarith
    · have : (-21 : Int) + 53 = 32 := rfl
      rw [this, pow2_32]; linarith
    · norm_num
  · have e : (4294967295 : ℚ) = ((9007199252643840 : Int) : ℚ) * pow2 (-21) := by rw [pow2_m21]; norm_num
    rw [e]
    apply rne_le_grid _ (-21) _ (by linarith)
    · rw [← e]; linarith
    · rw [← e]; have : (-21 : Int) + 53 = 32 := rfl
      rw [this, pow2_32]; norm_num
    · norm_num

theorem sOf_mono (a b : Int) (h0 : 0 ≤ a) (h : a ≤ b) : sOf a ≤ sOf b := by
  unfold sOf add
  exact rne_mono _ _ (by have := secs_nonneg a h0; linarith) (by have := secs_mono a b h0 h; linarith)

/-- `uint32(q)` is the floor for `0 ≤ q < 2^32`. -/
theorem toUint32_of_range (q : ℚ) (h0 : 0 ≤ q) (h : q < 4294967296) :
    ((toUint32 q : Nat) : Int) = q.floor := by
  have hf0 : 0 ≤ q.floor := Rat.le_floor_iff.mpr (by exact_mod_cast h0)
  have hf1 : q.floor < 4294967296 := by
    have : (q.floor : ℚ) ≤ q := Rat.floor_le q
    have : (q.floor : ℚ) < 4294967296 := lt_of_le_of_lt this h
    exact_mod_cast this
  unfold toUint32 toInt64 trunc
  rw [if_neg (not_lt.mpr h0)]
  have : ¬ (q.floor < -9223372036854775808 ∨ 9223372036854775807 < q.floor) := by omega
  rw [if_neg this]
  omega

theorem toUint32_lt (q : ℚ) : toUint32 q < 4294967296 := by
  unfold toUint32; omega

theorem toUint32_mono (p q : ℚ) (h0 : 0 ≤ p) (hpq : p ≤ q) (h : q < 4294967296) :
    toUint32 p ≤ toUint32 q := by
  have h1 := toUint32_of_range p h0 (lt_of_le_of_lt hpq h)
  have h2 := toUint32_of_range q (le_trans h0 hpq) h
  have := Rat.floor_monotone hpq
  omega

/-- the fraction expression is non-negative, monotone in `s` and stays below 2^32. -/
theorem fracOf_props (s t : ℚ) (ip : Nat) (hip : (ip : ℚ) ≤ s) (hst : s ≤ t) (ht : t < (ip : ℚ) + 1)
    (hipr : ip < 4294967296) :
    0 ≤ fracOf s ip ∧ fracOf s ip ≤ fracOf t ip ∧ fracOf t ip ≤ 4294967295 := by
  have hofi : ofInt (ip : Int) = (ip : ℚ) := by
    have := ofInt_exact (ip : Int) (by omega) (by omega)
    simpa using this
  unfold fracOf mul sub
  rw [hofi]
  have hs0 : 0 ≤ s - (ip : ℚ) := by linarith
  have ht0 : 0 ≤ t - (ip : ℚ) := by linarith
  have hd0 : 0 ≤ rne (s - ip) := rne_nonneg _ hs0
  have hdm : rne (s - ip) ≤ rne (t - ip) := rne_mono _ _ hs0 (by linarith)
  have hd1 : rne (t - ip) ≤ 1 := by
    have e : (1 : ℚ) = ((4503599627370496 : Int) : ℚ) * pow2 (-52) := by rw [pow2_m52]; norm_num
    rw [e]
    apply rne_le_grid _ (-52) _ ht0
    · rw [← e]; linarith
    · rw [← e]; have : (-52 : Int) + 53 = 1 := rfl
      rw [this, pow2_1]; norm_num
    · norm_num
  refine ⟨rne_nonneg _ (by positivity), rne_mono _ _ (by positivity) (by nlinarith), ?_⟩
  have e : (4294967295 : ℚ) = ((4503599626321920 : Int) : ℚ) * pow2 (-20) := by rw [pow2_m20]; norm_num
  rw [e]
  apply rne_le_grid _ (-20) _ (by have := le_trans hd0 hdm; positivity)
  · rw [← e]; have := le_trans hd0 hdm; nlinarith
  · rw [← e]; have : (-20 : Int) + 53 = 33 := rfl
    rw [this, pow2_33]; norm_num
  · norm_num

end Interceptor.Ntp

/-
C03: the NACK limit per PACKET (unwrapped number).  Spec side: a packet that is gone for good
(`Gone`: at or before the first packet, behind the window, or received) stays gone under every arrival,
and a packet that is missing can only stay missing or become gone.  Model side: the counter of a
missing number is kept from tick to tick and pays for every request.
-/
import Interceptor.Proofs.ReceiveLogMissing
import Interceptor.Proofs.NackGen
import Interceptor.Spec.NackRun
set_option linter.unusedVariables false
namespace Interceptor.ReceiveLog
open Interceptor

theorem missingU_not_gone {size skip : Nat} {a : NackSpec.Stream} {x : Int} (h : MissingU size skip a x) :
    ¬ Gone size a x := by
  obtain ⟨h1, h2, h3, h4⟩ := h
  rintro (g | g | g)
  · omega
  · omega
  · exact h4 g

/-- one arrival on the specification: `first` is fixed, `hi` only moves forward, `Gone` is absorbing. -/
theorem arrive_mono (size : Nat) (a a' : NackSpec.Stream) (q : Nat)
    (h : NackSpec.arrive size (some a) q = some a') :
    a'.first = a.first ∧ a.hi ≤ a'.hi ∧ ∀ x : Int, Gone size a x → Gone size a' x := by
  unfold NackSpec.arrive at h
  simp only [] at h
  generalize NackSpec.unwrapAt a.hi q = x0 at h
  by_cases c : (if a.hi < x0 then x0 else a.hi) - ↑size < x0
  · rw [if_pos c] at h
    cases h
    refine ⟨rfl, by simp only []; split <;> omega, ?_⟩
    intro x hx
    rcases hx with g | g | g
    · exact Or.inl g
    · right; left; simp only []; split <;> omega
    · by_cases hw : (if a.hi < x0 then x0 else a.hi) - ↑size < x
      · right; right
        simp only [List.mem_filter, List.mem_cons, decide_eq_true_eq]
        exact ⟨Or.inr g, hw⟩
      · right; left; simp only []; omega
  · rw [if_neg c] at h
    cases h
    exact ⟨rfl, by omega, fun x hx => hx⟩

/-- element-wise characterisation of the model's missing list on related states. -/
theorem requested_iff_R {size : Nat} (hs : SizeOK size) {l : Log} {a : NackSpec.Stream} {lcU : Int}
    (h : R size l a lcU) (skip : Nat) (x : Int) (hx1 : a.hi - 65536 < x) (hx2 : x ≤ a.hi) :
    sq x ∈ missing l skip ↔ MissingU size skip a x := by
  have hle := hs.le
  unfold MissingU
  rw [missing_R hs h skip]
  simp only [NackSpec.missing, NackSpec.missingU, List.mem_map, List.mem_filter, List.mem_range]
  constructor
  · rintro ⟨y, ⟨⟨j, hj, rfl⟩, hy⟩, hsq⟩
    have hxy : x = (if a.first < a.hi - ↑size then a.hi - ↑size else a.first) + 1 + ↑j := by
      have h2 : sq ((if a.first < a.hi - ↑size then a.hi - ↑size else a.first) + 1 + ↑j) = sq x := hsq
      apply sq_inj _ _ h2.symm <;> (split at hj <;> split <;> omega)
    rw [hxy]
    refine ⟨by split <;> omega, by split <;> omega, by split at hj <;> split <;> omega, ?_⟩
    simpa using hy
  · rintro ⟨h1, h2, h3, h4⟩
    refine ⟨x, ⟨⟨(x - (if a.first < a.hi - ↑size then a.hi - ↑size else a.first) - 1).toNat, ?_, ?_⟩, ?_⟩, rfl⟩
    · split <;> omega
    · split <;> omega
    · simpa using h4

/-- all counters stay at or below the limit. -/
theorem tickStream_counts_le (cfg : Cfg) (hmax : cfg.max < 65536) (st : Stream)
    (hC : ∀ y, cnt st.counts y ≤ cfg.max) : ∀ y, cnt (tickStream cfg st).1.counts y ≤ cfg.max := by
  intro y
  show cnt (tickCounts cfg.max (missing st.log cfg.skip) st.counts).1 y ≤ cfg.max
  unfold tickCounts
  have hp : cnt (prune st.counts (missing st.log cfg.skip)) y ≤ cfg.max := by
    rw [cnt_prune]; split
    · exact hC y
    · omega
  by_cases h1 : (missing st.log cfg.skip).isEmpty = true
  · simp only [h1, if_true]; rw [cnt_empty]; omega
  · simp only [h1]
    by_cases h2 : cfg.max > 0
    · simp only [h2, if_true]
      have := (limit_count cfg.max hmax (missing st.log cfg.skip) (prune st.counts (missing st.log cfg.skip)) y).2 hp
      by_cases h3 : (limit cfg.max (missing st.log cfg.skip) (prune st.counts (missing st.log cfg.skip))).1.isEmpty = true
      · simp only [h3, if_true]; exact this
      · simp only [h3]; exact this
    · simp only [h2, if_false]; exact hp

/-- a packet inside the window that is not missing is not in the NACK of this tick. -/
theorem not_requested {size : Nat} (cfg : Cfg) (hsz : cfg.size = size) (hs : SizeOK size) (st : Stream)
    {a : NackSpec.Stream} {lcU : Int} (h : R size st.log a lcU) (x : Int)
    (hnm : ¬ MissingU size cfg.skip a x) :
    (inWindowB cfg.size (some a) x && ((tickStream cfg st).2.getD []).contains (x % 65536).toNat) = false := by
  have hle := hs.le
  by_cases hw : inWindowB cfg.size (some a) x = true
  · rw [hw, Bool.true_and]
    simp only [inWindowB, Bool.and_eq_true, decide_eq_true_eq] at hw
    rw [hsz] at hw
    cases hout : (tickStream cfg st).2 with
    | none => simp
    | some out =>
      simp only [Option.getD_some]
      rw [Bool.eq_false_iff]
      intro hc
      have hin : sq x ∈ out := by simpa [sq] using hc
      have hsub := tickCounts_subset cfg.max (missing st.log cfg.skip) st.counts out hout (sq x) hin
      exact hnm ((requested_iff_R hs h cfg.skip x (by omega) hw.2).mp hsub)
  · simp only [Bool.not_eq_true] at hw
    rw [hw, Bool.false_and]

/-- the run from a started state: a gone packet is never requested; a missing packet is requested at most
`max − counter` more times; any other packet (ahead of `hi − skip`) at most `max` times. -/
theorem reqCountU_started {size : Nat} (cfg : Cfg) (hsz : cfg.size = size) (hs : SizeOK size)
    (h0 : 0 < cfg.max) (hmax : cfg.max < 65536) (x : Int) (ops : List SOp)
    (hq : ∀ q, SOp.arrive q ∈ ops → q < 65536)
    (st : Stream) (a : NackSpec.Stream) (lcU : Int) (h : R size st.log a lcU)
    (hC : ∀ y, cnt st.counts y ≤ cfg.max) :
    (Gone size a x → reqCountU cfg x st (some a) ops = 0) ∧
    (MissingU size cfg.skip a x → reqCountU cfg x st (some a) ops + cnt st.counts (sq x) ≤ cfg.max) ∧
    reqCountU cfg x st (some a) ops ≤ cfg.max := by
  induction ops generalizing st a lcU with
  | nil => exact ⟨fun _ => rfl, fun _ => by have := hC (sq x); simp only [reqCountU]; omega, by simp [reqCountU]⟩
  | cons op ops ih =>
    cases op with
    | arrive q =>
      simp only [reqCountU]
      have hq' : q < 65536 := hq q (by simp)
      obtain ⟨a', lcU', e, hR'⟩ := R_add hs h q hq'
      rw [hsz, e]
      obtain ⟨m1, m2, m3⟩ := arrive_mono size a a' q e
      obtain ⟨i1, i2, i3⟩ := ih (fun q hq2 => hq q (by simp [hq2])) { st with log := add st.log q } a' lcU' hR' hC
      refine ⟨fun g => i1 (m3 x g), ?_, i3⟩
      intro hm
      by_cases g : Gone size a' x
      · rw [i1 g]; have := hC (sq x); simpa using this
      · -- still missing
        have hm' : MissingU size cfg.skip a' x := by
          obtain ⟨h1, h2, h3, h4⟩ := hm
          refine ⟨by rw [m1]; exact h1, ?_, by omega, ?_⟩
          · apply Classical.byContradiction; intro hc; exact g (Or.inr (Or.inl (by omega)))
          · intro hc; exact g (Or.inr (Or.inr hc))
        exact i2 hm'
    | tick =>
      have hR' : R size (tickStream cfg st).1.log a lcU := h
      have hC' := tickStream_counts_le cfg hmax st hC
      obtain ⟨i1, i2, i3⟩ := ih (fun q hq2 => hq q (by simp [hq2])) (tickStream cfg st).1 a lcU hR' hC'
      simp only [reqCountU]
      by_cases hm : MissingU size cfg.skip a x
      · have hng := missingU_not_gone hm
        have hle := hs.le
        have hy : sq x ∈ missing st.log cfg.skip :=
          (requested_iff_R hs h cfg.skip x (by have := hm.2.1; omega) (by have := hm.2.2.1; omega)).mpr hm
        obtain ⟨t1, t2⟩ := tickStream_limit cfg h0 hmax st (sq x) hy (hC (sq x))
        have i2' := i2 hm
        have hind : (if (inWindowB cfg.size (some a) x &&
            ((tickStream cfg st).2.getD []).contains (x % 65536).toNat) = true then 1 else 0) ≤
            (if sq x ∈ ((tickStream cfg st).2).getD [] then 1 else 0) := by
          by_cases hc : sq x ∈ ((tickStream cfg st).2).getD []
          · rw [if_pos hc]; split <;> omega
          · rw [if_neg hc]
            have : ((tickStream cfg st).2.getD []).contains (x % 65536).toNat = false := by
              rw [Bool.eq_false_iff]; intro hh; exact hc (by simpa [sq] using hh)
            rw [this, Bool.and_false]; simp
        refine ⟨fun g => absurd g hng, fun _ => by omega, by omega⟩
      · have hz := not_requested cfg hsz hs st h x hm
        rw [hz]
        simp only [Bool.false_eq_true, if_false, Nat.zero_add]
        exact ⟨i1, fun hm' => absurd hm' hm, i3⟩

/-- the run from the fresh state of a bound stream. -/
theorem reqCountU_fresh {size : Nat} (cfg : Cfg) (hsz : cfg.size = size) (hs : SizeOK size)
    (h0 : 0 < cfg.max) (hmax : cfg.max < 65536) (x : Int) (ops : List SOp)
    (hq : ∀ q, SOp.arrive q ∈ ops → q < 65536)
    (st : Stream) (hl : st.log = new size) (hC : ∀ y, cnt st.counts y ≤ cfg.max) :
    reqCountU cfg x st none ops ≤ cfg.max := by
  induction ops generalizing st with
  | nil => simp [reqCountU]
  | cons op ops ih =>
    cases op with
    | arrive q =>
      simp only [reqCountU]
      have hq' : q < 65536 := hq q (by simp)
      have hR : R size ({ st with log := add st.log q } : Stream).log
          { first := q, hi := q, recv := [(q : Int)] } q := by
        show R size (add st.log q) _ _
        rw [hl]; exact R_init hs q hq'
      have e : NackSpec.arrive cfg.size none q = some { first := q, hi := q, recv := [(q : Int)] } := rfl
      rw [e]
      exact (reqCountU_started cfg hsz hs h0 hmax x ops (fun q hq2 => hq q (by simp [hq2]))
        { st with log := add st.log q } _ _ hR hC).2.2
    | tick =>
      simp only [reqCountU, inWindowB, Bool.false_and, Bool.false_eq_true, if_false, Nat.zero_add]
      exact ih (fun q hq2 => hq q (by simp [hq2])) (tickStream cfg st).1 hl
        (tickStream_counts_le cfg hmax st hC)

end Interceptor.ReceiveLog

/-
Helper lemmas for C14 (bit level): BitArray get/set, the coverage rows built by `fillRow`,
and the three FlexFEC-03 mask fields.  Core Lean only.
-/
import Interceptor.Model.FlexFec
namespace Interceptor.FlexFec

theorem and_one_shiftLeft_pos (x k : Nat) : (x &&& (1 <<< k) > 0) ↔ x.testBit k = true := by
  rw [Nat.one_shiftLeft]
  by_cases h : x.testBit k = true
  · have e : x &&& 2 ^ k = 2 ^ k := by
      apply Nat.eq_of_testBit_eq
      intro i
      rw [Nat.testBit_and, Nat.testBit_two_pow]
      by_cases hk : k = i
      · subst hk; simp [h]
      · simp [hk]
    rw [e]; simp [h, Nat.two_pow_pos]
  · have e : x &&& 2 ^ k = 0 := by
      apply Nat.eq_of_testBit_eq
      intro i
      rw [Nat.testBit_and, Nat.testBit_two_pow]
      by_cases hk : k = i
      · subst hk; simp at h; simp [h]
      · simp [hk]
    rw [e]; simp [h]

/-- the bit of a BitArray at index `j` (most significant first), as a Bool. -/
def bitOf (b : BitArray) (j : Nat) : Bool :=
  if j < 64 then b.lo.testBit (63 - j) else b.hi.testBit (127 - j)

theorem getBit_eq_one (b : BitArray) (j : Nat) (hj : j < 128) :
    (b.getBit j = 1) ↔ bitOf b j = true := by
  unfold BitArray.getBit bitOf
  by_cases h : j < 64
  · simp only [h, if_true]
    by_cases h2 : b.lo &&& (1 <<< (63 - j)) > 0
    · simp only [h2, if_true, true_iff]; exact (and_one_shiftLeft_pos _ _).1 h2
    · simp only [h2, if_false]
      have : ¬ b.lo.testBit (63 - j) = true := fun e => h2 ((and_one_shiftLeft_pos _ _).2 e)
      simp [this]
  · have h3 : j - 64 ≤ 63 := by omega
    have h4 : 63 - (j - 64) = 127 - j := by omega
    simp only [h, if_false, h3, if_true, h4]
    by_cases h2 : b.hi &&& (1 <<< (127 - j)) > 0
    · simp only [h2, if_true, true_iff]; exact (and_one_shiftLeft_pos _ _).1 h2
    · simp only [h2, if_false]
      have : ¬ b.hi.testBit (127 - j) = true := fun e => h2 ((and_one_shiftLeft_pos _ _).2 e)
      simp [this]

theorem getBit_beq_one (b : BitArray) (j : Nat) (hj : j < 128) :
    (b.getBit j == 1) = bitOf b j := by
  have := getBit_eq_one b j hj
  by_cases h : bitOf b j = true
  · simp [h, this.2 h]
  · have h' : ¬ b.getBit j = 1 := fun e => h (this.1 e)
    simp at h; simp [h, h']

theorem bitOf_setBit (b : BitArray) (i j : Nat) (hi : i < 128) (hj : j < 128) :
    bitOf (b.setBit i) j = (decide (i = j) || bitOf b j) := by
  unfold BitArray.setBit bitOf
  by_cases h : i < 64
  · simp only [h, if_true]
    by_cases h2 : j < 64
    · simp only [h2, if_true, Nat.one_shiftLeft, Nat.testBit_or, Nat.testBit_two_pow]
      have : (63 - i = 63 - j) ↔ i = j := by omega
      simp [this, Bool.or_comm]
    · simp only [h2, if_false]
      have : i ≠ j := by omega
      simp [this]
  · have h3 : i - 64 ≤ 63 := by omega
    have h4 : 63 - (i - 64) = 127 - i := by omega
    simp only [h, if_false, h3, if_true, h4]
    by_cases h2 : j < 64
    · simp only [h2, if_true]
      have : i ≠ j := by omega
      simp [this]
    · simp only [h2, if_false, Nat.one_shiftLeft, Nat.testBit_or, Nat.testBit_two_pow]
      have : (127 - i = 127 - j) ↔ i = j := by omega
      simp [this, Bool.or_comm]

theorem bitOf_empty (j : Nat) : bitOf BitArray.empty j = false := by
  unfold bitOf BitArray.empty; simp

/-- bits of a coverage row after the fill loop (enough fuel). -/
theorem bitOf_fillRow (f n : Nat) (hf : 1 ≤ f) (hn : n ≤ 128) (j : Nat) (hj : j < 128) :
    ∀ (fuel c : Nat) (b : BitArray), n ≤ c + fuel →
      bitOf (fillRow f n fuel c b) j = (bitOf b j || decide (c ≤ j ∧ j < n ∧ (j - c) % f = 0)) := by
  intro fuel
  induction fuel with
  | zero =>
    intro c b h
    have : ¬ (c ≤ j ∧ j < n ∧ (j - c) % f = 0) := by omega
    simp [fillRow, this]
  | succ fuel ih =>
    intro c b h
    unfold fillRow
    by_cases hc : c < n
    · simp only [hc, if_true]
      rw [ih (c + f) (b.setBit c) (by omega), bitOf_setBit b c j (by omega) hj]
      by_cases e : c = j
      · subst e; simp [hc]
      · have key : (c + f ≤ j ∧ j < n ∧ (j - (c + f)) % f = 0) ↔ (c ≤ j ∧ j < n ∧ (j - c) % f = 0) := by
          constructor
          · rintro ⟨h1, h2, h3⟩
            refine ⟨by omega, h2, ?_⟩
            have : j - c = (j - (c + f)) + f := by omega
            rw [this, Nat.add_mod_right]; exact h3
          · rintro ⟨h1, h2, h3⟩
            have hlt : c + f ≤ j := by
              by_cases hh : c + f ≤ j
              · exact hh
              · have : (j - c) % f = j - c := Nat.mod_eq_of_lt (by omega)
                omega
            refine ⟨hlt, h2, ?_⟩
            have : j - c = (j - (c + f)) + f := by omega
            rw [this, Nat.add_mod_right] at h3; exact h3
        simp [e, key]
    · have : ¬ (c ≤ j ∧ j < n ∧ (j - c) % f = 0) := by omega
      simp [hc, this]

/-- a row of the table built for `(n, f)`. -/
theorem buildMasks_getD (n f i : Nat) (hi : i < 110) :
    (buildMasks n f).getD i BitArray.empty = if i < f then fillRow f n n i BitArray.empty else BitArray.empty := by
  unfold buildMasks maxFecPackets
  simp [List.getD_eq_getElem?_getD, hi]

/-- the bits of row `i` of the table built for `(n, f)`: exactly the `j < n` with `j % f = i`. -/
theorem bitOf_buildMasks (n f i j : Nat) (hn : n ≤ 128) (hi : i < 110) (hj : j < 128) :
    bitOf ((buildMasks n f).getD i BitArray.empty) j = decide (i < f ∧ j < n ∧ j % f = i) := by
  rw [buildMasks_getD n f i hi]
  by_cases h : i < f
  · simp only [h, if_true, true_and]
    rw [bitOf_fillRow f n (by omega) hn j hj n i _ (by omega), bitOf_empty]
    simp only [Bool.false_or]
    congr 1
    apply propext
    constructor
    · rintro ⟨h1, h2, h3⟩
      refine ⟨h2, ?_⟩
      have e : j = (j - i) + i := by omega
      have d := Nat.div_add_mod (j - i) f
      rw [h3] at d
      rw [e, ← d, Nat.add_zero, Nat.mul_add_mod]
      exact Nat.mod_eq_of_lt h
    · rintro ⟨h2, h3⟩
      have d := Nat.div_add_mod j f
      have hle : i ≤ j := by rw [← h3]; exact Nat.mod_le j f
      refine ⟨hle, h2, ?_⟩
      have : j - i = f * (j / f) := by omega
      rw [this]; exact Nat.mul_mod_right f (j / f)
  · simp [h, bitOf_empty]

end Interceptor.FlexFec

/-
C03: `add` preserves the refinement relation `R` for EVERY 16-bit arrival.
-/
import Interceptor.Proofs.ReceiveLog
set_option linter.unusedVariables false
namespace Interceptor.ReceiveLog
open Interceptor

/-- membership in the spec's filtered receive set. -/
theorem mem_recv' (recv : List Int) (x lo y : Int) :
    y ∈ (x :: recv).filter (fun y => decide (lo < y)) ↔ (y = x ∨ y ∈ recv) ∧ lo < y := by
  simp [List.mem_filter]

/-! #### shapes of `add` per branch -/

theorem add_dup (l : Log) (q : Nat) (h1 : l.started = true) (h2 : sub16 q l.end_ = 0) : add l q = l := by
  unfold add; simp [h1, h2]

theorem add_fwd (l : Log) (q : Nat) (h1 : l.started = true) (h2 : sub16 q l.end_ ≠ 0)
    (h3 : sub16 q l.end_ < 32768) :
    add l q =
      let l2 : Log := { clearFrom l (add16 l.end_ 1) (sub16 q l.end_ - 1) with end_ := q }
      setBit (if add16 l2.lc 1 = q then { l2 with lc := q }
        else if sub16 q l2.lc > l2.size then fixLastConsecutive { l2 with lc := sub16 q l2.size }
        else l2) q true := by
  unfold add; simp [h1, h2, h3]

theorem add_old (l : Log) (q : Nat) (h1 : l.started = true) (h2 : sub16 q l.end_ ≠ 0)
    (h3 : ¬ sub16 q l.end_ < 32768) (h4 : sub16 l.end_ q ≥ l.size) : add l q = l := by
  unfold add; simp [h1, h2, h3, h4]

theorem add_late (l : Log) (q : Nat) (h1 : l.started = true) (h2 : sub16 q l.end_ ≠ 0)
    (h3 : ¬ sub16 q l.end_ < 32768) (h4 : ¬ sub16 l.end_ q ≥ l.size) :
    add l q = if add16 l.lc 1 = q then setBit (fixLastConsecutive { l with lc := q }) q true
      else setBit l q true := by
  unfold add; simp [h1, h2, h3, h4]


/-! #### duplicate of the highest number -/

theorem R_add_dup {size : Nat} (hs : SizeOK size) {l : Log} {a : NackSpec.Stream} {lcU : Int}
    (h : R size l a lcU) :
    R size (add l (sq a.hi))
      { first := a.first, hi := a.hi, recv := (a.hi :: a.recv).filter (fun y => decide (a.hi - size < y)) } lcU := by
  have e : add l (sq a.hi) = l := by
    apply add_dup l _ h.hstarted
    rw [h.hend, sub16_sq]; unfold sq; omega
  rw [e]
  have hm : ∀ y : Int, y ∈ (a.hi :: a.recv).filter (fun y => decide (a.hi - size < y)) ↔ y ∈ a.recv := by
    intro y
    rw [mem_recv']
    constructor
    · rintro ⟨h1 | h1, _⟩
      · rw [h1]; exact h.hhi
      · exact h1
    · intro hy; exact ⟨Or.inr hy, (h.hwin y hy).1⟩
  refine ⟨h.hsize, h.hbits, h.hstarted, h.hend, h.hlc, h.hlo, h.hle, h.hfirst, ?_, ?_, ?_, ?_⟩
  · intro x h1 h2
    simp only [] at h2 ⊢
    rw [h.hbit x h1 h2]
    simp only [hm]
  · intro x h1 h2 h3
    simp only [] at h1 h2 ⊢
    exact (hm x).mpr (h.hrecv x h1 h2 h3)
  · intro x hx
    simp only [] at hx ⊢
    exact h.hwin x ((hm x).mp hx)
  · simp only []; exact (hm a.hi).mpr h.hhi

/-! #### a packet older than the window is ignored -/

theorem R_add_old {size : Nat} (hs : SizeOK size) {l : Log} {a : NackSpec.Stream} {lcU : Int}
    (h : R size l a lcU) (x : Int) (h1 : x < a.hi) (h2 : a.hi - 32768 ≤ x) (h3 : x ≤ a.hi - size) :
    add l (sq x) = l := by
  have hp := hs.pos
  have e1 : sub16 (sq x) l.end_ = (x - a.hi + 65536).toNat := by
    rw [h.hend, sub16_sq]; unfold sq; omega
  have e2 : sub16 l.end_ (sq x) = (a.hi - x).toNat := by
    rw [h.hend, sub16_sq]; unfold sq; omega
  apply add_old l _ h.hstarted
  · rw [e1]; omega
  · rw [e1]; omega
  · rw [e2, h.hsize]; omega

/-! #### late packet inside the window -/

theorem R_add_late {size : Nat} (hs : SizeOK size) {l : Log} {a : NackSpec.Stream} {lcU : Int}
    (h : R size l a lcU) (x : Int) (h1 : x < a.hi) (h3 : a.hi - size < x) :
    ∃ lcU' : Int, R size (add l (sq x))
      { first := a.first, hi := a.hi, recv := (x :: a.recv).filter (fun y => decide (a.hi - size < y)) } lcU' := by
  have hp := hs.pos
  have hle := hs.le
  have hsz := h.hsize
  have hbs : l.bits.size = l.size := by rw [h.hbits, h.hsize]
  have hps : 0 < l.size := by rw [h.hsize]; exact hp
  have e1 : sub16 (sq x) l.end_ = (x - a.hi + 65536).toNat := by
    rw [h.hend, sub16_sq]; unfold sq; omega
  have e2 : sub16 l.end_ (sq x) = (a.hi - x).toNat := by
    rw [h.hend, sub16_sq]; unfold sq; omega
  have hm : ∀ y : Int, y ∈ (x :: a.recv).filter (fun y => decide (a.hi - size < y)) ↔ (y = x ∨ y ∈ a.recv) := by
    intro y
    rw [mem_recv']
    constructor
    · exact fun hh => hh.1
    · rintro (hy | hy)
      · exact ⟨Or.inl hy, by omega⟩
      · exact ⟨Or.inr hy, (h.hwin y hy).1⟩
  have hshape := add_late l (sq x) h.hstarted (by rw [e1]; omega) (by rw [e1]; omega) (by rw [e2, h.hsize]; omega)
  rw [hshape]
  -- setting the slot of x does not disturb any other number of the window
  have hother : ∀ (L : Log) (y : Int), L.size = size → L.bits.size = size → a.hi - size < y → y ≤ a.hi → y ≠ x →
      getBit (setBit L (sq x) true) (sq y) = getBit L (sq y) := by
    intro L y hL1 hL2 hy1 hy2 hne
    rw [getBit_setBit L _ _ _ (by rw [hL1, hL2]) (by rw [hL1]; exact hp)]
    have : ¬ (sq x % L.size = sq y % L.size) := by
      intro e
      rw [hL1] at e
      exact hne (slot_inj hs x y e (by omega) (by omega)).symm
    simp [this]
  by_cases hc : add16 l.lc 1 = sq x
  · -- the packet right after the cursor: the cursor moves to it and scans forward
    simp only [hc, if_true]
    have hx : lcU + 1 = x := by
      rw [h.hlc, add16_sq_one] at hc
      exact sq_inj _ _ hc (by have := h.hlo; have := h.hle; omega) (by have := h.hlo; have := h.hle; omega)
    obtain ⟨y1, hy0, hy1, hfix, hset⟩ := fix_spec { l with lc := sq x } x a.hi rfl h.hend (by omega) (by omega)
    rw [hfix]
    refine ⟨y1, ⟨by simp [hsz], by simp [h.hbits], by simp [h.hstarted], by simp [h.hend], by simp,
      by simp only []; omega, by simp only []; omega, by simp only []; have := h.hfirst; omega, ?_, ?_, ?_, ?_⟩⟩
    · intro y hy2 hy3
      simp only [] at hy3 ⊢
      have := hother { l with lc := sq y1 } y hsz h.hbits (by omega) hy3 (by omega)
      rw [show ({ ({ l with lc := sq x } : Log) with lc := sq y1 } : Log) = { l with lc := sq y1 } from rfl]
      rw [this]
      show getBit l (sq y) = _
      rw [h.hbit y (by omega) hy3]
      have hne : y ≠ x := by omega
      simp [hm, hne]
    · intro y hy2 hy3 hy4
      simp only [] at hy2 hy3 ⊢
      rw [hm]
      by_cases hyx : y = x
      · exact Or.inl hyx
      · right
        by_cases hyl : y ≤ lcU
        · exact h.hrecv y hy2 hy3 hyl
        · have hb := hset y (by omega) hy4
          have hb' : getBit l (sq y) = true := hb
          rw [h.hbit y (by omega) (by omega)] at hb'
          simpa using hb'
    · intro y hy
      simp only [] at hy ⊢
      rcases (hm y).mp hy with hy | hy
      · omega
      · exact h.hwin y hy
    · simp only []; exact (hm _).mpr (Or.inr h.hhi)
  · simp only [hc, if_false]
    refine ⟨lcU, ⟨by simp [hsz], by simp [h.hbits], by simp [h.hstarted], by simp [h.hend], by simp [h.hlc],
      h.hlo, h.hle, h.hfirst, ?_, ?_, ?_, ?_⟩⟩
    · intro y hy2 hy3
      simp only [] at hy3 ⊢
      by_cases hyx : y = x
      · subst hyx
        rw [getBit_setBit_same l _ _ hbs hps]
        simp [hm]
      · rw [hother l y hsz h.hbits (by have := h.hlo; omega) hy3 hyx, h.hbit y hy2 hy3]
        simp [hm, hyx]
    · intro y hy2 hy3 hy4
      simp only [] at hy2 hy3 ⊢
      exact (hm y).mpr (Or.inr (h.hrecv y hy2 hy3 hy4))
    · intro y hy
      simp only [] at hy ⊢
      rcases (hm y).mp hy with hy | hy
      · omega
      · exact h.hwin y hy
    · simp only []; exact (hm _).mpr (Or.inr h.hhi)

end Interceptor.ReceiveLog

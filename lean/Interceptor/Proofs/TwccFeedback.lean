/-
C05 helper lemmas: invariant of `feedback` under `setBase` / `addReceived`, rounding of deltas.
-/
import Interceptor.Proofs.TwccChunk
namespace Interceptor.Twcc

/-! ### rounding -/

theorem tdiv_neg_case (a : Int) (h : a < 0) : a.tdiv 250 = -((-a) / 250) := by
  have : a = -(-a) := by omega
  rw [this, Int.neg_tdiv, Int.tdiv_eq_ediv_of_nonneg (by omega)]
  simp

/-- `delta250` is the nearest multiple of 250 µs. -/
theorem delta250_close (x : Int) : -125 ≤ 250 * delta250 x - x ∧ 250 * delta250 x - x ≤ 125 := by
  unfold delta250
  split
  · rw [Int.tdiv_eq_ediv_of_nonneg (by omega)]; omega
  · rw [tdiv_neg_case _ (by omega)]; omega

/-! ### fields untouched by the packer -/

theorem pushSym_fields (f : Feedback) (s : Sym) :
    (f.pushSym s).count = f.count ∧ (f.pushSym s).deltas = f.deltas ∧ (f.pushSym s).len = f.len ∧
    (f.pushSym s).lastUS = f.lastUS ∧ (f.pushSym s).ref64 = f.ref64 ∧ (f.pushSym s).base = f.base ∧
    (f.pushSym s).nextSeq = f.nextSeq ∧ (f.pushSym s).sender = f.sender ∧
    (f.pushSym s).media = f.media ∧ (f.pushSym s).fbCount = f.fbCount := by
  unfold Feedback.pushSym
  by_cases h : f.last.canAdd s <;> simp [h]

/-- invariant of a feedback under construction; `syms` = every status pushed so far. -/
structure FbInv (f : Feedback) (syms : List Sym) : Prop where
  pack : PackInv (f.last, f.chunks) syms
  count : f.count = syms.length
  kinds : f.deltas.toList.map (·.1) = syms.filter (fun s => decide (s ≠ Sym.nr))
  len : f.len = (f.deltas.toList.map deltaSize).sum
  range : ∀ d ∈ f.deltas.toList, ∃ q : Int, d.2 = q * 250 ∧
    ((d.1 = Sym.small ∧ 0 ≤ q ∧ q ≤ 255) ∨ (d.1 = Sym.large ∧ -32768 ≤ q ∧ q ≤ 32767))
  time : f.lastUS = f.ref64 * 64000 + (f.deltas.toList.map (·.2)).sum

theorem fbInv_setBase (s m c seq : Nat) (t : Int) : FbInv ((newFeedback s m c).setBase seq t) [] := by
  constructor <;> simp [newFeedback, Feedback.setBase, packInv_init]

theorem fbInv_pushNR {f : Feedback} {syms : List Sym} (h : FbInv f syms) :
    FbInv { (f.pushSym .nr) with count := (f.pushSym .nr).count + 1 } (syms ++ [.nr]) := by
  obtain ⟨c1, c2, c3, c4, c5, c6, c7, _⟩ := pushSym_fields f .nr
  have hp := packInv_step h.pack .nr
  rw [← pushSym_last_chunks] at hp
  constructor
  · exact hp
  · simp [c1, h.count]
  · simp [c2, h.kinds]
  · simp [c2, c3, h.len]
  · simpa [c2] using h.range
  · simp [c2, c4, c5, h.time]

theorem addNRs_spec (n : Nat) {f : Feedback} {syms : List Sym} (h : FbInv f syms) :
    FbInv (Feedback.addNRs n f) (syms ++ List.replicate n .nr) ∧
    (Feedback.addNRs n f).deltas = f.deltas ∧ (Feedback.addNRs n f).len = f.len ∧
    (Feedback.addNRs n f).lastUS = f.lastUS ∧ (Feedback.addNRs n f).ref64 = f.ref64 ∧
    (Feedback.addNRs n f).base = f.base ∧ (Feedback.addNRs n f).sender = f.sender ∧
    (Feedback.addNRs n f).media = f.media ∧ (Feedback.addNRs n f).fbCount = f.fbCount := by
  induction n generalizing f syms with
  | zero => simp [Feedback.addNRs, h]
  | succ n ih =>
    obtain ⟨c1, c2, c3, c4, c5, c6, c7, c8, c9, c10⟩ := pushSym_fields f .nr
    have := ih (fbInv_pushNR h)
    simp only [Feedback.addNRs]
    refine ⟨?_, ?_⟩
    · have e : syms ++ List.replicate (n + 1) Sym.nr = syms ++ [Sym.nr] ++ List.replicate n Sym.nr := by
        simp [List.replicate_succ]
      rw [e]; exact this.1
    · obtain ⟨_, d1, d2, d3, d4, d5, d6, d7, d8⟩ := this
      simp only [] at d1 d2 d3 d4 d5 d6 d7 d8
      rw [d1, d2, d3, d4, d5, d6, d7, d8]
      exact ⟨c2, c3, c4, c5, c6, c8, c9, c10⟩


/-- pushing a received symbol together with its delta. -/
theorem fbInv_pushRecv {f : Feedback} {syms : List Sym} (h : FbInv f syms) (sym : Sym) (q : Int) (n : Nat)
    (hs : (sym = Sym.small ∧ 0 ≤ q ∧ q ≤ 255 ∧ n = 1) ∨ (sym = Sym.large ∧ -32768 ≤ q ∧ q ≤ 32767 ∧ n = 2))
    (seq : Nat) :
    FbInv { (({ f with nextSeq := seq, len := f.len + n } : Feedback).pushSym sym) with
      deltas := (({ f with nextSeq := seq, len := f.len + n } : Feedback).pushSym sym).deltas.push (sym, q * 250)
      lastUS := (({ f with nextSeq := seq, len := f.len + n } : Feedback).pushSym sym).lastUS + q * 250
      count := (({ f with nextSeq := seq, len := f.len + n } : Feedback).pushSym sym).count + 1
      nextSeq := ((({ f with nextSeq := seq, len := f.len + n } : Feedback).pushSym sym).nextSeq + 1) % 65536 }
      (syms ++ [sym]) := by
  generalize hg : ({ f with nextSeq := seq, len := f.len + n } : Feedback) = g
  have g1 : g.last = f.last := by rw [← hg]
  have g2 : g.chunks = f.chunks := by rw [← hg]
  have g3 : g.count = f.count := by rw [← hg]
  have g4 : g.deltas = f.deltas := by rw [← hg]
  have g5 : g.len = f.len + n := by rw [← hg]
  have g6 : g.lastUS = f.lastUS := by rw [← hg]
  have g7 : g.ref64 = f.ref64 := by rw [← hg]
  obtain ⟨c1, c2, c3, c4, c5, c6, c7, _⟩ := pushSym_fields g sym
  have hp := packInv_step h.pack sym
  rw [← g1, ← g2, ← pushSym_last_chunks] at hp
  have hne : sym ≠ Sym.nr := by rcases hs with ⟨e, _⟩ | ⟨e, _⟩ <;> rw [e] <;> decide
  have hsz : deltaSize (sym, q * 250) = n := by
    rcases hs with ⟨e, _, _, e2⟩ | ⟨e, _, _, e2⟩ <;> rw [e, e2] <;> rfl
  constructor
  · exact hp
  · simp [c1, g3, h.count]
  · simp [c2, g4, h.kinds, hne, List.filter_append]
  · simp only [c2, c3, g4, g5, Array.toList_push, List.map_append, List.sum_append, List.map_cons,
      List.map_nil, List.sum_cons, List.sum_nil, hsz, h.len, Nat.add_zero]
  · intro d hd
    simp only [c2, g4, Array.toList_push, List.mem_append, List.mem_singleton] at hd
    rcases hd with hd | hd
    · exact h.range d hd
    · refine ⟨q, by rw [hd], ?_⟩
      rw [hd]
      rcases hs with ⟨e, a, b, _⟩ | ⟨e, a, b, _⟩
      · exact Or.inl ⟨e, a, b⟩
      · exact Or.inr ⟨e, a, b⟩
  · simp only [c2, c4, c5, g4, g6, g7, Array.toList_push, List.map_append, List.sum_append,
      List.map_cons, List.map_nil, List.sum_cons, List.sum_nil, h.time]
    omega

/-- everything one successful `addReceived` does. -/
theorem addReceived_spec {f f' : Feedback} {syms : List Sym} (h : FbInv f syms) {seq : Nat} {t : Int}
    (hadd : f.addReceived seq t = some f') :
    ∃ sym : Sym, ∃ q : Int,
      q = delta250 (t - f.lastUS) ∧ -32768 ≤ q ∧ q ≤ 32767 ∧
      (sym = if 0 ≤ q ∧ q ≤ 255 then Sym.small else Sym.large) ∧
      FbInv f' (syms ++ List.replicate (sub16 seq f.nextSeq) .nr ++ [sym]) ∧
      f'.deltas = f.deltas.push (sym, q * 250) ∧ f'.lastUS = f.lastUS + q * 250 ∧
      f'.nextSeq = (seq + 1) % 65536 ∧ f'.ref64 = f.ref64 ∧ f'.base = f.base ∧
      f'.sender = f.sender ∧ f'.media = f.media ∧ f'.fbCount = f.fbCount := by
  unfold Feedback.addReceived at hadd
  simp only [] at hadd
  generalize hq : delta250 (t - f.lastUS) = q at hadd
  by_cases hr : q < -32768 ∨ q > 32767
  · simp [hr] at hadd
  · simp only [hr, if_false] at hadd
    by_cases hbig : f.len ≥ maxDeltaBytes
    · simp [hbig] at hadd
    simp only [hbig, if_false] at hadd
    obtain ⟨i0, d1, d2, d3, d4, d5, d6, d7, d8⟩ := addNRs_spec (sub16 seq f.nextSeq) h
    generalize Feedback.addNRs (sub16 seq f.nextSeq) f = g at *
    by_cases hsm : q ≥ 0 ∧ q ≤ 255
    · simp only [hsm, and_self, if_true, Option.some.injEq] at hadd
      have key := fbInv_pushRecv i0 Sym.small q 1 (Or.inl ⟨rfl, hsm.1, hsm.2, rfl⟩) seq
      obtain ⟨c1, c2, c3, c4, c5, c6, c7, c8, c9, c10⟩ :=
        pushSym_fields ({ g with nextSeq := seq, len := g.len + 1 } : Feedback) Sym.small
      refine ⟨Sym.small, q, rfl, by omega, by omega, by simp [hsm], ?_⟩
      rw [← hadd]
      refine ⟨key, ?_⟩
      simp only [c2, c4, c5, c6, c7, c8, c9, c10]
      simp only [d1, d3, d4, d5, d6, d7, d8, and_self]
    · simp only [hsm, if_false, Option.some.injEq] at hadd
      have key := fbInv_pushRecv i0 Sym.large q 2 (Or.inr ⟨rfl, by omega, by omega, rfl⟩) seq
      obtain ⟨c1, c2, c3, c4, c5, c6, c7, c8, c9, c10⟩ :=
        pushSym_fields ({ g with nextSeq := seq, len := g.len + 2 } : Feedback) Sym.large
      refine ⟨Sym.large, q, rfl, by omega, by omega, by simp [hsm], ?_⟩
      rw [← hadd]
      refine ⟨key, ?_⟩
      simp only [c2, c4, c5, c6, c7, c8, c9, c10]
      simp only [d1, d3, d4, d5, d6, d7, d8, and_self]


/-- `addReceived` refuses exactly when the rounded delta does not fit int16 or the packet already
holds `maxDeltaBytes` bytes of deltas. -/
theorem addReceived_none_iff (f : Feedback) (seq : Nat) (t : Int) :
    f.addReceived seq t = none ↔
      ((delta250 (t - f.lastUS) < -32768 ∨ delta250 (t - f.lastUS) > 32767) ∨ f.len ≥ maxDeltaBytes) := by
  unfold Feedback.addReceived
  simp only []
  by_cases hr : delta250 (t - f.lastUS) < -32768 ∨ delta250 (t - f.lastUS) > 32767
  · simp [hr]
  · by_cases hbig : f.len ≥ maxDeltaBytes
    · simp [hr, hbig]
    · simp only [hr, hbig, if_false, or_self, iff_false]
      split <;> simp

/-- a successful `addReceived` started below the delta-byte cap and adds at most two bytes. -/
theorem addReceived_len {f f' : Feedback} {seq : Nat} {t : Int} (hadd : f.addReceived seq t = some f') :
    f.len < maxDeltaBytes := by
  by_cases hbig : f.len ≥ maxDeltaBytes
  · have := (addReceived_none_iff f seq t).mpr (Or.inr hbig)
    rw [this] at hadd; cases hadd
  · omega

/-- the feedbacks `maybeBuildFeedbackPacket` can hold: `setBase` followed by successful `addReceived`s. -/
inductive Built : Feedback → Prop
  | base (s m c seq : Nat) (t : Int) : Built ((newFeedback s m c).setBase seq t)
  | add {f f' : Feedback} (seq : Nat) (t : Int) : Built f → f.addReceived seq t = some f' → Built f'

theorem built_inv {f : Feedback} (h : Built f) : ∃ syms, FbInv f syms := by
  induction h with
  | base s m c seq t => exact ⟨[], fbInv_setBase s m c seq t⟩
  | add seq t _ hadd ih =>
    obtain ⟨syms, hi⟩ := ih
    obtain ⟨sym, q, _, _, _, _, hi', _⟩ := addReceived_spec hi hadd
    exact ⟨_, hi'⟩

/-- what `getRTCP` returns for a feedback satisfying the invariant. -/
theorem getRTCP_spec {f : Feedback} {syms : List Sym} (h : FbInv f syms) :
    (∀ ch ∈ f.getRTCP.chunks, ch.wf) ∧
    (∃ pad, decodeChunks f.getRTCP.chunks = syms ++ List.replicate pad .nr) ∧
    f.getRTCP.deltas = f.deltas.toList ∧ f.getRTCP.count = syms.length % 65536 := by
  obtain ⟨hi, hf, hc⟩ := h.pack
  obtain ⟨extra, pad, r1, r2, r3⟩ := flush_spec (f.last.deltas.size + 1) f.last f.chunks hi (by simp)
  simp only [] at hf hc
  refine ⟨?_, ⟨pad, ?_⟩, rfl, by simp [Feedback.getRTCP, h.count]⟩
  · intro ch hch
    simp only [Feedback.getRTCP, r1] at hch
    rcases List.mem_append.mp hch with hch | hch
    · exact Chunk.full_wf (hf ch hch)
    · exact r2 ch hch
  · simp only [Feedback.getRTCP, r1, decodeChunks]
    rw [List.flatMap_append, r3, ← List.append_assoc, ← hc, flatMap_decode_full _ hf]


/-- arithmetic of the RTCP length field. -/
theorem hdr_arith (n ds : Nat)
    (hs : (if (20 + 2 * n + ds) % 4 = 0 then 20 + 2 * n + ds else ((20 + 2 * n + ds) / 4 + 1) * 4) ≤ 262144) :
    4 * (((if (20 + n * 2 + ds) % 4 = 0 then 20 + n * 2 + ds
        else 20 + n * 2 + ds + (4 - (20 + n * 2 + ds) % 4)) / 4 - 1) % 65536 + 1) =
      (if (20 + 2 * n + ds) % 4 = 0 then 20 + 2 * n + ds else ((20 + 2 * n + ds) / 4 + 1) * 4) ∧
    (decide ((20 + n * 2 + ds) % 4 ≠ 0) = true ↔ (20 + 2 * n + ds) % 4 ≠ 0) := by
  constructor
  · split at hs <;> split <;> omega
  · simp only [decide_eq_true_eq]
    constructor <;> intro hh <;> omega

end Interceptor.Twcc

/-
List-level facts: the list queue operations are multiset-correct, keep the list sorted, and
the JitterBuffer over the list-level queue (`JB listImpl`) satisfies the C18 clauses.
Helper lemmas for Props/C18.lean (transferred to the heap-level model by Proofs/JitterBufferSim).
-/
import Interceptor.Spec.JitterBuffer
set_option linter.unusedVariables false
set_option linter.unusedSimpArgs false
namespace Interceptor.JitterBuffer

/-! ### the list queue -/

theorem insertL_perm (l : List Entry) (e : Entry) : (insertL l e).Perm (e :: l) := by
  induction l with
  | nil => exact List.Perm.refl _
  | cons x t ih =>
    unfold insertL
    split
    · exact List.Perm.refl _
    · exact (List.Perm.cons x ih).trans (List.Perm.swap e x t)

theorem mem_insertL {l : List Entry} {e x : Entry} : x ∈ insertL l e ↔ x = e ∨ x ∈ l := by
  rw [(insertL_perm l e).mem_iff, List.mem_cons]

theorem insertL_length (l : List Entry) (e : Entry) : (insertL l e).length = l.length + 1 := by
  rw [(insertL_perm l e).length_eq, List.length_cons]

def SortedL (l : List Entry) : Prop := l.Pairwise (fun a b => a.1 ≤ b.1)

theorem insertL_sorted {l : List Entry} (e : Entry) (h : SortedL l) : SortedL (insertL l e) := by
  unfold SortedL at *
  induction l with
  | nil => simp [insertL]
  | cons x t ih =>
    unfold insertL
    rw [List.pairwise_cons] at h
    split
    · rename_i hle
      rw [List.pairwise_cons]
      refine ⟨?_, List.pairwise_cons.mpr h⟩
      intro y hy
      rcases List.mem_cons.mp hy with rfl | hy
      · exact hle
      · exact Nat.le_trans hle (h.1 y hy)
    · rename_i hle
      rw [List.pairwise_cons]
      refine ⟨?_, ih h.2⟩
      intro y hy
      rcases mem_insertL.mp hy with rfl | hy
      · omega
      · exact h.1 y hy

theorem popByL_ok {l l' : List Entry} {pred : Entry → Bool} {v : Option Pkt}
    (h : popByL l pred = .ok (v, l')) :
    ∃ e, v = some e.2 ∧ l.find? pred = some e ∧ e ∈ l ∧ pred e = true ∧ l' = l.eraseP pred ∧ l.Perm (e :: l') := by
  unfold popByL at h
  split at h
  · cases h
  · split at h
    · rename_i e he
      injection h with h
      injection h with h1 h2
      refine ⟨e, h1.symm, he, List.mem_of_find?_eq_some he, List.find?_some he, h2.symm, ?_⟩
      subst h2
      obtain ⟨as, bs, hl, hn⟩ := List.find?_eq_some_iff_append.mp he |>.2
      subst hl
      have : List.eraseP pred (as ++ e :: bs) = as ++ bs := by
        rw [List.eraseP_append_right _ (by intro b hb; simpa using hn b hb)]
        simp [List.eraseP_cons, List.find?_some he]
      rw [this]
      exact List.perm_middle
    · cases h

theorem popByL_err {l : List Entry} {pred : Entry → Bool} {x : String} (h : popByL l pred = .err x) :
    (l = [] ∧ x = "invalid") ∨ (l.find? pred = none ∧ x = "notfound") := by
  unfold popByL at h
  split at h
  · injection h with h; exact Or.inl ⟨rfl, h.symm⟩
  · split at h
    · cases h
    · rename_i hn; injection h with h; exact Or.inr ⟨hn, h.symm⟩

theorem popByL_not_panic (l : List Entry) (pred : Entry → Bool) (s : String) : popByL l pred ≠ .panic s := by
  unfold popByL
  split
  · intro h; cases h
  · split <;> (intro h; cases h)

theorem popByL_sorted {l l' : List Entry} {pred : Entry → Bool} {v : Option Pkt}
    (h : popByL l pred = .ok (v, l')) (hs : SortedL l) : SortedL l' := by
  obtain ⟨e, _, _, _, _, hl, _⟩ := popByL_ok h
  subst hl
  exact List.Pairwise.sublist List.eraseP_sublist hs

theorem findL_ok {l : List Entry} {sq : Nat} {v : Option Pkt} (h : findL l sq = .ok v) :
    ∃ e, v = some e.2 ∧ e ∈ l ∧ e.1 = sq := by
  unfold findL at h
  split at h
  · rename_i e he
    injection h with h
    exact ⟨e, h.symm, List.mem_of_find?_eq_some he, by simpa using List.find?_some he⟩
  · cases h

theorem findL_err {l : List Entry} {sq : Nat} {x : String} (h : findL l sq = .err x) :
    ∀ e ∈ l, e.1 ≠ sq := by
  unfold findL at h
  split at h
  · cases h
  · rename_i hn
    intro e he
    have := List.find?_eq_none.mp hn e he
    simpa using this


/-! ### the JitterBuffer over lists: characterisation of one call -/

theorem upd_cases (js : LJB) :
    js.updateState.1 = js ∨ js.updateState.1 = { js with state := St.emitting, ready := true } := by
  unfold JB.updateState; split
  · exact Or.inr rfl
  · exact Or.inl rfl

theorem upd_fire (js : LJB) :
    (js.q.length % 65536 ≥ js.minStart ∧ js.state = .buffering ∧ js.updateState.1 = { js with state := St.emitting, ready := true }) ∨
    (¬ (js.q.length % 65536 ≥ js.minStart ∧ js.state = .buffering) ∧ js.updateState.1 = js) := by
  unfold JB.updateState; split
  · rename_i h; exact Or.inl ⟨h.1, h.2, rfl⟩
  · rename_i h; exact Or.inr ⟨h, rfl⟩

/-- what a push does. -/
theorem push_char (js : LJB) (p : Pkt) :
    (js.push p).2.ret = .ok none ∧
    (js.push p).1 = (JB.updateState { js with q := insertL js.q (p.seq, p), lastSeq := p.seq, head := if (!js.ready) = true ∧ js.q.length % 65536 = 0 then p.seq else js.head }).1 := by
  unfold JB.push
  exact ⟨rfl, rfl⟩

/-- a removing call while emitting: either it fails and nothing changes, or it hands out the
first entry satisfying the predicate. -/
theorem popWith_char (js : LJB) (pred : Entry → Bool) (adv : Bool) :
    (∃ x, (js.popWith (popByL js.q pred) adv).2.ret = .err x ∧ (js.popWith (popByL js.q pred) adv).1 = js ∧
        (js.q = [] ∨ js.q.find? pred = none)) ∨
    (∃ e l', (js.popWith (popByL js.q pred) adv).2.ret = .ok (some e.2) ∧ e ∈ js.q ∧ pred e = true ∧
        js.q.find? pred = some e ∧ l' = js.q.eraseP pred ∧
        js.q.Perm (e :: l') ∧
        (js.popWith (popByL js.q pred) adv).1 = (JB.updateState { js with q := l', head := if adv = true then (js.head + 1) % 65536 else js.head }).1) := by
  cases hp : popByL js.q pred with
  | ok r =>
    obtain ⟨v, l'⟩ := r
    obtain ⟨e, hv, hf, hm, hpe, hl, hperm⟩ := popByL_ok hp
    subst hv
    exact Or.inr ⟨e, l', rfl, hm, hpe, hf, hl, hperm, rfl⟩
  | err x =>
    refine Or.inl ⟨x, rfl, rfl, ?_⟩
    rcases popByL_err hp with h | h
    · exact Or.inl h.1
    · exact Or.inr h.1
  | panic s => exact absurd hp (popByL_not_panic _ _ _)

/-- the selection predicate and head-advance flag of the three removing calls. -/
def remPred (js : LJB) : Op → Entry → Bool
  | .pop => fun e => e.1 == js.head
  | .popSeq sq => fun e => e.1 == sq
  | .popTs ts => fun e => e.2.ts == ts
  | _ => fun _ => false
def remAdv : Op → Bool
  | .popTs _ => false
  | _ => true

theorem rem_step (js : LJB) (op : Op) (h : op.removes = true) :
    js.step op = if js.state ≠ .emitting then (js, { ret := .err "buffering" })
      else js.popWith (popByL js.q (remPred js op)) (remAdv op) := by
  cases op <;> simp [Op.removes] at h <;> rfl


/-! ### invariant for the playout head -/

structure Inv (js : LJB) : Prop where
  prio : PrioOk js.q
  er : js.state = .emitting → js.ready = true
  m : js.minStart < 65536
  k : js.ready = true ∨ (0 < js.q.length ∧ js.q.length < js.minStart)

theorem st_cases (s : St) : s = .buffering ∨ s = .emitting := by cases s <;> simp

/-- the effect of one quiet call on the invariant and on the playout head. -/
theorem inv_step {js : LJB} (hi : Inv js) (op : Op)
    (hq : Rec.Quiet { head := js.head, ready := js.ready, op := op, out := (js.step op).2 }) :
    Inv (js.step op).1 ∧
    ((op.atHead = true ∧ ∃ p, (js.step op).2.ret = .ok (some p) ∧ p.seq = js.head ∧
        (js.step op).1.head = (js.head + 1) % 65536) ∨
     ((op.atHead = false ∨ ∀ p, (js.step op).2.ret ≠ .ok (some p)) ∧ (js.step op).1.head = js.head)) := by
  obtain ⟨hprio, her, hm, hk⟩ := hi
  by_cases hrem : op.removes = true
  · -- Pop / PopAtSequence / PopAtTimestamp
    rw [rem_step js op hrem] at hq ⊢
    by_cases hst : js.state = .emitting
    · have hrd := her hst
      simp only [hst, ne_eq, not_true_eq_false, if_false] at hq ⊢
      rcases popWith_char js (remPred js op) (remAdv op) with ⟨x, hret, hjs, _⟩ | ⟨e, l', hret, hmem, hpe, _, hl', hperm, hjs⟩
      · rw [hjs, hret]
        exact ⟨⟨hprio, her, hm, hk⟩, Or.inr ⟨Or.inr (by intro p hp; cases hp), rfl⟩⟩
      · have hsub : ∀ x ∈ l', x ∈ js.q := by
          intro x hx; rw [hl'] at hx; exact List.mem_of_mem_eraseP hx
        have hinv : Inv (JB.updateState ({ js with q := l', head := if remAdv op = true then (js.head + 1) % 65536 else js.head } : LJB)).1 := by
          rcases upd_cases ({ js with q := l', head := if remAdv op = true then (js.head + 1) % 65536 else js.head } : LJB) with hu | hu <;> rw [hu]
          · exact ⟨fun x hx => hprio x (hsub x hx), her, hm, Or.inl hrd⟩
          · exact ⟨fun x hx => hprio x (hsub x hx), fun _ => rfl, hm, Or.inl rfl⟩
        have hhead : (JB.updateState ({ js with q := l', head := if remAdv op = true then (js.head + 1) % 65536 else js.head } : LJB)).1.head
            = if remAdv op = true then (js.head + 1) % 65536 else js.head := by
          rcases upd_cases ({ js with q := l', head := if remAdv op = true then (js.head + 1) % 65536 else js.head } : LJB) with hu | hu <;> rw [hu]
        rw [hjs, hret]
        refine ⟨hinv, ?_⟩
        rw [hhead]
        have hes : e.2.seq = e.1 := (hprio e hmem).symm
        cases op with
        | pop =>
          left
          refine ⟨rfl, e.2, rfl, ?_, by simp [remAdv]⟩
          simp [remPred] at hpe; omega
        | popSeq sq =>
          left
          have hqq : sq = js.head := by
            simp only [Rec.Quiet, Rec.pkt?, hret] at hq
            rcases hq with h | h
            · cases h
            · exact h
          refine ⟨rfl, e.2, rfl, ?_, by simp [remAdv]⟩
          simp [remPred] at hpe; omega
        | popTs ts =>
          right
          exact ⟨Or.inl rfl, by simp [remAdv]⟩
        | _ => simp [Op.removes] at hrem
    · simp only [hst, ne_eq, not_false_eq_true, if_true]
      exact ⟨⟨hprio, her, hm, hk⟩, Or.inr ⟨Or.inr (by intro p hp; cases hp), (by first | rfl | trivial)⟩⟩
  · cases op with
    | push p =>
      obtain ⟨hret, hjs⟩ := push_char js p
      simp only [JB.step]
      have hhd : (if (!js.ready) = true ∧ js.q.length % 65536 = 0 then p.seq else js.head) = js.head := by
        rcases hk with h | ⟨h1, h2⟩
        · simp [h]
        · have : js.q.length % 65536 ≠ 0 := by omega
          simp [this]
      rw [hjs, hhd, hret]
      refine ⟨?_, Or.inr ⟨Or.inl rfl, ?_⟩⟩
      · have hp' : PrioOk (insertL js.q (p.seq, p)) := by
          intro x hx
          rcases mem_insertL.mp hx with rfl | hx
          · rfl
          · exact hprio x hx
        rcases upd_fire ({ js with q := insertL js.q (p.seq, p), lastSeq := p.seq, head := js.head } : LJB) with ⟨_, _, hu⟩ | ⟨hnf, hu⟩ <;> rw [hu]
        · exact ⟨hp', fun _ => rfl, hm, Or.inl rfl⟩
        · refine ⟨hp', her, hm, ?_⟩
          rcases hk with h | ⟨h1, h2⟩
          · exact Or.inl h
          · by_cases hr : js.ready = true
            · exact Or.inl hr
            · right
              have hb : js.state = .buffering := by
                rcases st_cases js.state with h | h
                · exact h
                · exact absurd (her h) hr
              simp only [insertL_length, hb, and_true, Nat.not_le] at hnf ⊢
              omega
      · rcases upd_cases ({ js with q := insertL js.q (p.seq, p), lastSeq := p.seq, head := js.head } : LJB) with hu | hu <;> rw [hu]
    | peek b => exact ⟨⟨hprio, her, hm, hk⟩, Or.inr ⟨Or.inl rfl, rfl⟩⟩
    | peekSeq sq => exact ⟨⟨hprio, her, hm, hk⟩, Or.inr ⟨Or.inl rfl, rfl⟩⟩
    | setHead h => exact absurd hq (by simp [Rec.Quiet])
    | getHead => exact ⟨⟨hprio, her, hm, hk⟩, Or.inr ⟨Or.inl rfl, rfl⟩⟩
    | clear r =>
      cases r
      · have hr : js.ready = true := by simpa [Rec.Quiet] using hq
        exact ⟨⟨fun x hx => (by cases hx), her, hm, Or.inl hr⟩, Or.inr ⟨Or.inl rfl, rfl⟩⟩
      · exact absurd hq (by simp [Rec.Quiet])
    | _ => simp [Op.removes] at hrem


theorem run_cons (js : LJB) (op : Op) (ops : List Op) :
    (js.run (op :: ops)) = (((js.step op).1.run ops).1,
      { head := js.head, ready := js.ready, op := op, out := (js.step op).2 } :: ((js.step op).1.run ops).2) := rfl

/-- successive successful pops at the playout head return `head, head+1, …`. -/
theorem consec_run {js : LJB} (hi : Inv js) (ops : List Op) (hq : ∀ r ∈ (js.run ops).2, r.Quiet) :
    Consec js.head (headPops (js.run ops).2) := by
  induction ops generalizing js with
  | nil => exact trivial
  | cons op ops ih =>
    rw [run_cons] at hq ⊢
    have hq0 := hq _ (List.mem_cons_self)
    obtain ⟨hi', hh⟩ := inv_step hi op hq0
    have ih' := ih hi' (fun r hr => hq r (List.mem_cons_of_mem _ hr))
    simp only [headPops, Rec.pkt?]
    rcases hh with ⟨hat, p, hret, hseq, hhead⟩ | ⟨hno, hhead⟩
    · rw [hat, hret]
      simp only [if_true]
      rw [hhead] at ih'
      exact ⟨hseq, ih'⟩
    · rw [hhead] at ih'
      rcases hno with hat | hno
      · rw [hat]; simpa using ih'
      · split
        · split
          · rename_i p hp
            split at hp
            · rename_i p' hp'; exact absurd hp' (hno p')
            · cases hp
          · exact ih'
        · exact ih'

/-! ### multiset accounting: nothing is handed out twice -/

def objs (l : List Pkt) : List Nat := l.map (·.obj)

theorem step_count (js : LJB) (op : Op) (o : Nat) :
    (objs (poppedOf [{ head := js.head, ready := js.ready, op := op, out := (js.step op).2 }])).count o +
      (objs (pkts (js.step op).1.q)).count o ≤ (objs (pkts js.q)).count o + (objs (pushedOf [op])).count o := by
  have hupd : ∀ x : LJB, x.updateState.1.q = x.q := by
    intro x; rcases upd_cases x with h | h <;> rw [h]
  by_cases hrem : op.removes = true
  · simp only [poppedOf, hrem, if_true, Rec.pkt?]
    have hpush : pushedOf [op] = [] := by cases op <;> simp [Op.removes] at hrem <;> rfl
    rw [hpush, rem_step js op hrem]
    by_cases hst : js.state = .emitting
    · simp only [hst, ne_eq, not_true_eq_false, if_false]
      rcases popWith_char js (remPred js op) (remAdv op) with ⟨x, hret, hjs, _⟩ | ⟨e, l', hret, hmem, hpe, _, hl', hperm, hjs⟩
      · rw [hjs, hret]; simp [objs]
      · rw [hjs, hret, hupd]
        have := (hperm.map (·.2)).map (·.obj) |>.count_eq o
        simp only [objs, pkts, List.map_cons, List.count_cons, List.count_nil, List.map_nil] at this ⊢
        omega
    · simp only [hst, ne_eq, not_false_eq_true, if_true]
      simp [objs]
  · have hpop : poppedOf [{ head := js.head, ready := js.ready, op := op, out := (js.step op).2 }] = [] := by
      simp [poppedOf, hrem]
    rw [hpop]
    cases op with
    | push p =>
      obtain ⟨_, hjs⟩ := push_char js p
      simp only [JB.step]
      rw [hjs, hupd]
      have := ((insertL_perm js.q (p.seq, p)).map (·.2)).map (·.obj) |>.count_eq o
      simp only [objs, pkts, pushedOf, List.map_cons, List.count_cons, List.count_nil, List.map_nil] at this ⊢
      omega
    | clear r =>
      have : (js.step (.clear r)).1.q = [] := by cases r <;> rfl
      rw [this]; simp [objs, pkts]
    | peek b => simp [JB.step, objs, pushedOf]
    | peekSeq sq => simp [JB.step, objs, pushedOf]
    | setHead h => simp [JB.step, JB.setPlayoutHead, objs, pushedOf]
    | getHead => simp [JB.step, objs, pushedOf]
    | _ => simp [Op.removes] at hrem

theorem poppedOf_cons (r : Rec) (tr : List Rec) : poppedOf (r :: tr) = poppedOf [r] ++ poppedOf tr := by
  simp only [poppedOf]
  split
  · split <;> simp
  · simp

theorem pushedOf_cons (op : Op) (ops : List Op) : pushedOf (op :: ops) = pushedOf [op] ++ pushedOf ops := by
  cases op <;> simp [pushedOf]

theorem run_count (js : LJB) (ops : List Op) (o : Nat) :
    (objs (poppedOf (js.run ops).2)).count o + (objs (pkts (js.run ops).1.q)).count o ≤
      (objs (pkts js.q)).count o + (objs (pushedOf ops)).count o := by
  induction ops generalizing js with
  | nil => simp [JB.run, poppedOf, pushedOf, objs]
  | cons op ops ih =>
    rw [run_cons, poppedOf_cons, pushedOf_cons]
    have h1 := step_count js op o
    have h2 := ih (js.step op).1
    simp only [objs, List.map_append, List.count_append] at h1 h2 ⊢
    omega


/-! ### provenance: whatever is returned was buffered or pushed -/

theorem step_prov (js : LJB) (op : Op) :
    (∀ p, (js.step op).2.ret = .ok (some p) → p ∈ pkts js.q) ∧
    (∀ x ∈ pkts (js.step op).1.q, x ∈ pkts js.q ∨ x ∈ pushedOf [op]) := by
  have hupd : ∀ x : LJB, x.updateState.1.q = x.q := by
    intro x; rcases upd_cases x with h | h <;> rw [h]
  have hmem : ∀ {e : Entry} {l : List Entry}, e ∈ l → e.2 ∈ pkts l := fun h => List.mem_map_of_mem h
  by_cases hrem : op.removes = true
  · rw [rem_step js op hrem]
    by_cases hst : js.state = .emitting
    · simp only [hst, ne_eq, not_true_eq_false, if_false]
      rcases popWith_char js (remPred js op) (remAdv op) with ⟨x, hret, hjs, _⟩ | ⟨e, l', hret, hm, hpe, _, hl', hperm, hjs⟩
      · rw [hjs, hret]
        exact ⟨(by intro p hp; cases hp), fun x hx => Or.inl hx⟩
      · rw [hjs, hret, hupd]
        refine ⟨?_, ?_⟩
        · intro p hp; injection hp with hp; injection hp with hp; subst hp; exact hmem hm
        · intro x hx
          obtain ⟨y, hy, rfl⟩ := List.mem_map.mp hx
          rw [hl'] at hy
          exact Or.inl (hmem (List.mem_of_mem_eraseP hy))
    · simp only [hst, ne_eq, not_false_eq_true, if_true]
      exact ⟨(by intro p hp; cases hp), fun x hx => Or.inl hx⟩
  · cases op with
    | push p =>
      obtain ⟨hret, hjs⟩ := push_char js p
      simp only [JB.step]
      rw [hjs, hupd, hret]
      refine ⟨(by intro p hp; cases hp), ?_⟩
      intro x hx
      obtain ⟨y, hy, rfl⟩ := List.mem_map.mp hx
      rcases mem_insertL.mp hy with rfl | hy
      · exact Or.inr (by simp [pushedOf])
      · exact Or.inl (hmem hy)
    | clear r =>
      have h1 : (js.step (.clear r)).1.q = [] := by cases r <;> rfl
      have h2 : (js.step (.clear r)).2.ret = .ok none := by cases r <;> rfl
      rw [h1, h2]
      exact ⟨(by intro p hp; cases hp), (by intro x hx; cases hx)⟩
    | peek b =>
      refine ⟨?_, fun x hx => Or.inl hx⟩
      intro p hp
      simp only [JB.step, JB.peek] at hp
      split at hp
      · cases hp
      · split at hp <;> (obtain ⟨e, hv, he, _⟩ := findL_ok hp; injection hv with hv; subst hv; exact hmem he)
    | peekSeq sq =>
      refine ⟨?_, fun x hx => Or.inl hx⟩
      intro p hp
      obtain ⟨e, hv, he, _⟩ := findL_ok (show findL js.q sq = _ from hp)
      injection hv with hv; subst hv; exact hmem he
    | setHead h => exact ⟨(by intro p hp; cases hp), fun x hx => Or.inl hx⟩
    | getHead => exact ⟨(by intro p hp; cases hp), fun x hx => Or.inl hx⟩
    | _ => simp [Op.removes] at hrem

theorem run_prov (js : LJB) (ops : List Op) :
    (∀ r ∈ (js.run ops).2, ∀ p, r.pkt? = some p → p ∈ pkts js.q ∨ p ∈ pushedOf ops) ∧
    (∀ x ∈ pkts (js.run ops).1.q, x ∈ pkts js.q ∨ x ∈ pushedOf ops) := by
  induction ops generalizing js with
  | nil => exact ⟨(by intro r hr; cases hr), fun x hx => Or.inl hx⟩
  | cons op ops ih =>
    rw [run_cons, pushedOf_cons]
    obtain ⟨s1, s2⟩ := step_prov js op
    obtain ⟨i1, i2⟩ := ih (js.step op).1
    have lift : ∀ x, (x ∈ pkts (js.step op).1.q ∨ x ∈ pushedOf ops) → x ∈ pkts js.q ∨ x ∈ pushedOf [op] ++ pushedOf ops := by
      intro x hx
      rcases hx with hx | hx
      · rcases s2 x hx with h | h
        · exact Or.inl h
        · exact Or.inr (List.mem_append_left _ h)
      · exact Or.inr (List.mem_append_right _ hx)
    refine ⟨?_, fun x hx => lift x (i2 x hx)⟩
    intro r hr p hp
    rcases List.mem_cons.mp hr with rfl | hr
    · left
      apply s1
      simp only [Rec.pkt?] at hp
      split at hp
      · injection hp with hp; subst hp; assumption
      · cases hp
    · exact lift p (i1 r hr p hp)

/-! ### the list-level queue trivially refines itself; fresh buffers -/

def listRefines : Refines listImpl where
  Rep := fun q l => q = l
  empty := rfl
  length := fun h => by subst h; rfl
  push := fun p s h => by subst h; exact ⟨_, rfl, rfl⟩
  find := fun s h => by subst h; rfl
  popAt := fun s h => by
    subst h
    show PopRel _ (popByL _ _) (popByL _ _)
    cases hp : popByL _ (fun e : Entry => e.1 == s) with
    | ok r => exact ⟨rfl, rfl⟩
    | err x => exact rfl
    | panic x => exact absurd hp (popByL_not_panic _ _ _)
  popAtTs := fun t h => by
    subst h
    show PopRel _ (popByL _ _) (popByL _ _)
    cases hp : popByL _ (fun e : Entry => e.2.ts == t) with
    | ok r => exact ⟨rfl, rfl⟩
    | err x => exact rfl
    | panic x => exact absurd hp (popByL_not_panic _ _ _)
  clear := fun h => ⟨_, rfl, rfl⟩

theorem fast_pop (l : List Entry) (pred : Entry → Bool) :
    PopRel (fun (q : List Entry × Nat) l' => q.1 = l' ∧ q.2 = l'.length)
      (match popByL l pred with
        | .ok (v, l') => .ok (v, (l', l.length - 1))
        | .err e => .err e
        | .panic x => .panic x)
      (popByL l pred) := by
  cases hp : popByL l pred with
  | ok r =>
    obtain ⟨v, l'⟩ := r
    obtain ⟨e, _, _, _, _, _, hperm⟩ := popByL_ok hp
    have := hperm.length_eq
    simp only [List.length_cons] at this
    exact ⟨rfl, rfl, by show l.length - 1 = l'.length; omega⟩
  | err x => exact rfl
  | panic x => exact absurd hp (popByL_not_panic _ _ _)

/-- the list queue with a cached count refines the list queue. -/
def fastRefines : Refines fastImpl where
  Rep := fun q l => q.1 = l ∧ q.2 = l.length
  empty := ⟨rfl, rfl⟩
  length := fun h => by obtain ⟨h1, h2⟩ := h; subst h1; show _ % 65536 = _; rw [h2]
  push := fun p s h => by
    obtain ⟨h1, h2⟩ := h; subst h1
    exact ⟨_, rfl, rfl, by show _ + 1 = _; rw [h2, insertL_length]⟩
  find := fun s h => by obtain ⟨h1, _⟩ := h; subst h1; rfl
  popAt := fun s h => by
    obtain ⟨h1, h2⟩ := h; subst h1
    show PopRel _ (match popByL _ _ with | .ok (v, l') => .ok (v, (l', _ - 1)) | .err e => .err e | .panic x => .panic x) _
    rw [h2]; exact fast_pop _ _
  popAtTs := fun t h => by
    obtain ⟨h1, h2⟩ := h; subst h1
    show PopRel _ (match popByL _ _ with | .ok (v, l') => .ok (v, (l', _ - 1)) | .err e => .err e | .panic x => .panic x) _
    rw [h2]; exact fast_pop _ _
  clear := fun _ => ⟨_, rfl, rfl, rfl⟩

/-- the first push into an empty, never-started buffer establishes the invariant and sets the playout head. -/
theorem inv_first_push (js : LJB) (hq : js.q = []) (hr : js.ready = false) (hs : js.state = .buffering)
    (hm : js.minStart < 65536) (p : Pkt) :
    Inv (js.push p).1 ∧ (js.push p).1.head = p.seq := by
  obtain ⟨_, hjs⟩ := push_char js p
  rw [hjs]
  obtain ⟨q, mm, ov, ls, hd, rd, st⟩ := js
  simp only at hq hr hs hm
  subst hq hr hs
  simp only [insertL, List.length_nil, Nat.zero_mod, Bool.not_false, and_self, if_true]
  have hp' : PrioOk [(p.seq, p)] := by intro x hx; simp at hx; subst hx; rfl
  rcases upd_fire ({ q := [(p.seq, p)], minStart := mm, overflowLen := ov, lastSeq := p.seq, head := p.seq, ready := false, state := .buffering } : LJB) with ⟨_, _, hu⟩ | ⟨hnf, hu⟩ <;> rw [hu]
  · exact ⟨⟨hp', fun _ => rfl, hm, Or.inl rfl⟩, rfl⟩
  · refine ⟨⟨hp', fun h => (by cases h), hm, Or.inr ?_⟩, rfl⟩
    simp only [and_true, Nat.not_le, List.length_cons, List.length_nil] at hnf ⊢
    omega

end Interceptor.JitterBuffer

/- C09.T4 generator_compat (TWCC): what the C05 recorder model emits, in the parsed form pion/rtcp
hands to the decoders, is decoded by rtpfb.convertTWCC / cc.FeedbackAdapter to exactly the statuses
and times of the C05 structured decoding (`Packet.decodeStruct`). -/
import Interceptor.Proofs.TwccWire
import Interceptor.Proofs.TwccDecode
import Interceptor.Proofs.RtpfbSpec
namespace Interceptor.C09Compat
open Interceptor Interceptor.Twcc Interceptor.TwccSpec

/-- a wire chunk as pion/rtcp's Unmarshal returns it (status vectors always 14 / 7 symbols). -/
def convChunk : WChunk → Feedback.Chunk
  | .run s n => .rl s n
  | .vec _ l => .sv l

/-- the parsed form (`rtcp.TransportLayerCC` after Marshal + Unmarshal) of a packet of the C05
model: 24-bit reference time, chunks re-read from their 16-bit words, one RecvDelta (µs) per
small / large symbol. (pion/rtcp is a parameter; the `*-recorder` correspondence classes run the
real Marshal/Unmarshal.) -/
def toParsed (p : Twcc.Packet) : Feedback.Twcc :=
  ⟨p.base, p.count, p.ref % 16777216, p.chunks.map (fun c => convChunk c.toW), p.deltas.map (·.2)⟩

/-- a C05 decoded entry (µs) as a C09 spec status (ns). -/
def entryConv (e : Entry) : Nat × Feedback.Spec.St :=
  (e.seq, match e.time with | some t => .recvAt (t * 1000) | none => .lost)

/-- a C05 decoded entry as the acknowledgement rtpfb should derive from it. -/
def entryToRAck (e : Entry) : Rtpfb.RAck := ⟨e.seq, e.time.isSome, e.time.getD 0 * 1000, 0⟩

theorem expand_conv (w : WChunk) : Feedback.Spec.expand (convChunk w) = w.expand := by
  cases w <;> rfl

theorem symbols_toParsed (cs : List Twcc.Chunk) :
    Feedback.Spec.symbols (cs.map (fun c => convChunk c.toW)) = (decodeChunks cs).map Sym.code := by
  induction cs with
  | nil => rfl
  | cons c cs ih =>
    have h1 : Feedback.Spec.symbols ((c :: cs).map (fun c => convChunk c.toW)) =
        Feedback.Spec.expand (convChunk c.toW) ++ Feedback.Spec.symbols (cs.map (fun c => convChunk c.toW)) := by
      simp [Feedback.Spec.symbols]
    rw [h1, ih, expand_conv, Chunk.toW_expand]
    simp [decodeChunks]

theorem walk_pair : ∀ (syms : List Sym) (ds : List (Sym × Int)) (acc : Int) (b : Nat),
    (∀ d ∈ ds, ∃ q : Int, d.2 = q * 250) →
    ds.length = (syms.filter (fun s => decide (s ≠ Sym.nr))).length →
    ∃ r, Feedback.Spec.walk (acc * 1000) (syms.map Sym.code) (ds.map (·.2)) = some r ∧
      Feedback.Spec.number b r.1 = (timed b acc (pair syms ds)).map entryConv := by
  intro syms
  induction syms with
  | nil =>
    intro ds acc b _ hl
    have : ds = [] := List.eq_nil_of_length_eq_zero (by simpa using hl)
    subst this
    exact ⟨_, rfl, rfl⟩
  | cons s ss ih =>
    intro ds acc b hq hl
    cases s with
    | nr =>
      obtain ⟨r, hr, hn⟩ := ih ds acc (b + 1) hq (by simpa using hl)
      refine ⟨(Feedback.Spec.St.lost :: r.1, r.2.1, r.2.2), ?_, ?_⟩
      · simp only [List.map_cons, Sym.code]
        rw [FeedbackAdapter.walk_cons, if_pos (show 0 = Feedback.symNotReceived from rfl), hr]; rfl
      · simp only [Feedback.Spec.number, pair, timed, List.map_cons, hn, entryConv]
    | small =>
      cases ds with
      | nil => simp at hl
      | cons d ds' =>
        obtain ⟨q, hq0⟩ := hq d (List.mem_cons_self ..)
        obtain ⟨r, hr, hn⟩ := ih ds' (acc + d.2) (b + 1) (fun x hx => hq x (List.mem_cons_of_mem _ hx))
          (by simpa using hl)
        refine ⟨(Feedback.Spec.St.recvAt (acc * 1000 + d.2 * 1000) :: r.1, r.2.1, r.2.2 + 1), ?_, ?_⟩
        · simp only [List.map_cons, Sym.code]
          rw [FeedbackAdapter.walk_cons, if_neg (show ¬ 1 = Feedback.symNotReceived by decide),
            if_pos (show 1 = Feedback.symSmall ∨ 1 = Feedback.symLarge from Or.inl rfl)]
          simp only []
          rw [show acc * 1000 + d.2 * 1000 = (acc + d.2) * 1000 by omega, hr]; rfl
        · have e : acc + 250 * (d.2 / 250) = acc + d.2 := by omega
          simp only [Feedback.Spec.number, pair, timed, List.map_cons, entryConv, e, hn]
          congr 3; omega
    | large =>
      cases ds with
      | nil => simp at hl
      | cons d ds' =>
        obtain ⟨q, hq0⟩ := hq d (List.mem_cons_self ..)
        obtain ⟨r, hr, hn⟩ := ih ds' (acc + d.2) (b + 1) (fun x hx => hq x (List.mem_cons_of_mem _ hx))
          (by simpa using hl)
        refine ⟨(Feedback.Spec.St.recvAt (acc * 1000 + d.2 * 1000) :: r.1, r.2.1, r.2.2 + 1), ?_, ?_⟩
        · simp only [List.map_cons, Sym.code]
          rw [FeedbackAdapter.walk_cons, if_neg (show ¬ 2 = Feedback.symNotReceived by decide),
            if_pos (show 2 = Feedback.symSmall ∨ 2 = Feedback.symLarge from Or.inr rfl)]
          simp only []
          rw [show acc * 1000 + d.2 * 1000 = (acc + d.2) * 1000 by omega, hr]; rfl
        · have e : acc + 250 * (d.2 / 250) = acc + d.2 := by omega
          simp only [Feedback.Spec.number, pair, timed, List.map_cons, entryConv, e, hn]
          congr 3; omega

/-- the C09 spec decoder applied to the parsed form of a built packet returns the C05 structured
decoding, entry by entry (times ×1000: µs → ns). -/
theorem decodeTWCC_toParsed {f : Feedback} (h : Built f) (hc : f.count < 65536) :
    Feedback.Spec.decodeTWCC (toParsed f.getRTCP) = some (f.getRTCP.decodeStruct.map entryConv) := by
  obtain ⟨syms, hi⟩ := built_inv h
  obtain ⟨_, ⟨pad, hdec⟩, hd, hcnt⟩ := getRTCP_spec hi
  have hlen : syms.length % 65536 = syms.length := by rw [← hi.count]; omega
  have htake : (Feedback.Spec.symbols (toParsed f.getRTCP).chunks).take (toParsed f.getRTCP).count
      = syms.map Sym.code := by
    simp only [toParsed, symbols_toParsed, hdec, hcnt, hlen, ← List.map_take]
    simp
  have hq : ∀ d ∈ f.deltas.toList, ∃ q : Int, d.2 = q * 250 := fun d hd' => by
    obtain ⟨q, hq, _⟩ := hi.range d hd'; exact ⟨q, hq⟩
  have hl : f.deltas.toList.length = (syms.filter (fun s => decide (s ≠ Sym.nr))).length := by
    rw [← hi.kinds]; simp
  obtain ⟨r, hr, hn⟩ := walk_pair syms f.deltas.toList (((f.getRTCP.ref % 16777216 : Nat) : Int) * 64000)
    f.getRTCP.base hq hl
  unfold Feedback.Spec.decodeTWCC
  rw [htake]
  have href : Feedback.refTime (toParsed f.getRTCP).ref = ((f.getRTCP.ref % 16777216 : Nat) : Int) * 64000 * 1000 := by
    simp only [Feedback.refTime, toParsed]; omega
  have hdl : (toParsed f.getRTCP).deltas = f.deltas.toList.map (·.2) := by simp [toParsed, hd]
  rw [href, hdl, hr]
  simp only [Option.map_some, Option.some.injEq]
  have hst : f.getRTCP.statuses = pair syms f.deltas.toList := by
    unfold Packet.statuses
    rw [hd, hcnt, hdec, hlen]
    simp
  show Feedback.Spec.number f.getRTCP.base r.1 = _
  rw [hn]
  simp only [Packet.decodeStruct, hst]

theorem filterMap_entryConv (es : List Entry) :
    (es.map entryConv).filterMap Rtpfb.toRAck = es.map entryToRAck := by
  induction es with
  | nil => rfl
  | cons e es ih =>
    simp only [List.map_cons, List.filterMap_cons, ih]
    obtain ⟨seq, st, t⟩ := e
    cases t <;> simp [entryConv, Rtpfb.toRAck, entryToRAck]

end Interceptor.C09Compat

namespace Interceptor.C09Compat
open Interceptor Interceptor.Twcc Interceptor.TwccSpec

theorem walk_zeros : ∀ (n : Nat) (ref : Int) (ds : List Int),
    Feedback.Spec.walk ref (List.replicate n 0) ds = some (List.replicate n Feedback.Spec.St.lost, ref, 0) := by
  intro n
  induction n with
  | zero => intro ref ds; rfl
  | succ n ih =>
    intro ref ds
    rw [List.replicate_succ, FeedbackAdapter.walk_cons, if_pos (show 0 = Feedback.symNotReceived from rfl), ih]
    rfl

/-- every chunk of a parsed model packet is one the adapter theorems cover (symbols 0..2). -/
theorem chunkOK_toParsed (p : Twcc.Packet) : ∀ c ∈ (toParsed p).chunks, FeedbackAdapter.ChunkOK c := by
  intro c hc
  simp only [toParsed, List.mem_map] at hc
  obtain ⟨c0, _, rfl⟩ := hc
  have hcode : ∀ s : Sym, s.code ≤ 2 := fun s => by cases s <;> simp [Sym.code]
  cases c0 with
  | run s n => simpa [Chunk.toW, convChunk, FeedbackAdapter.ChunkOK] using hcode s
  | vec1 l =>
    simp only [Chunk.toW, convChunk, FeedbackAdapter.ChunkOK]
    intro s hs
    rcases List.mem_append.mp hs with hs | hs
    · obtain ⟨x, _, rfl⟩ := List.mem_map.mp hs; exact hcode x
    · rw [(List.mem_replicate.mp hs).2]; omega
  | vec2 l =>
    simp only [Chunk.toW, convChunk, FeedbackAdapter.ChunkOK]
    intro s hs
    rcases List.mem_append.mp hs with hs | hs
    · obtain ⟨x, _, rfl⟩ := List.mem_map.mp hs; exact hcode x
    · rw [(List.mem_replicate.mp hs).2]; omega

/-- the unbounded spec decoder (what the adapter implements, F-15) on a parsed model packet:
the C05 structured decoding followed by `pad` "lost" statuses for the numbers after the range. -/
theorem decodeTWCCAll_toParsed {f : Feedback} (h : Built f) (hc : f.count < 65536) :
    ∃ pad, Feedback.Spec.decodeTWCCAll (toParsed f.getRTCP) =
      some (f.getRTCP.decodeStruct.map entryConv ++
        Feedback.Spec.number (f.getRTCP.base + f.getRTCP.count) (List.replicate pad .lost)) := by
  obtain ⟨syms, hi⟩ := built_inv h
  obtain ⟨_, ⟨pad, hdec⟩, hd, hcnt⟩ := getRTCP_spec hi
  have hlen : syms.length % 65536 = syms.length := by rw [← hi.count]; omega
  refine ⟨pad, ?_⟩
  have hq : ∀ d ∈ f.deltas.toList, ∃ q : Int, d.2 = q * 250 := fun d hd' => by
    obtain ⟨q, hq, _⟩ := hi.range d hd'; exact ⟨q, hq⟩
  have hl : f.deltas.toList.length = (syms.filter (fun s => decide (s ≠ Sym.nr))).length := by
    rw [← hi.kinds]; simp
  obtain ⟨r, hr, hn⟩ := walk_pair syms f.deltas.toList (((f.getRTCP.ref % 16777216 : Nat) : Int) * 64000)
    f.getRTCP.base hq hl
  have hsyms : Feedback.Spec.symbols (toParsed f.getRTCP).chunks = syms.map Sym.code ++ List.replicate pad 0 := by
    simp only [toParsed, symbols_toParsed, hdec, List.map_append, List.map_replicate, Sym.code]
  have href : Feedback.refTime (toParsed f.getRTCP).ref = ((f.getRTCP.ref % 16777216 : Nat) : Int) * 64000 * 1000 := by
    simp only [Feedback.refTime, toParsed]; omega
  have hdl : (toParsed f.getRTCP).deltas = f.deltas.toList.map (·.2) := by simp [toParsed, hd]
  have hst : f.getRTCP.statuses = pair syms f.deltas.toList := by
    unfold Packet.statuses
    rw [hd, hcnt, hdec, hlen]
    simp
  have hrl := (FeedbackAdapter.walk_length _ _ _ _ hr).1
  unfold Feedback.Spec.decodeTWCCAll
  rw [hsyms, href, hdl, FeedbackAdapter.walk_append, hr]
  simp only [Option.bind_some, walk_zeros, Option.map_some, Option.some.injEq]
  show Feedback.Spec.number f.getRTCP.base (r.1 ++ _) = _
  rw [Rtpfb.number_append, hn, hrl, List.length_map, hcnt, hlen]
  simp only [Packet.decodeStruct, hst]

end Interceptor.C09Compat

/-
Helper lemmas for C08: the association-list map, the emit loop of `metricsAfter` as
(`emit`, `ack`), the representation invariant of `streamLog`, and the link to `firstArrival`.
-/
import Interceptor.Spec.Rfc8888
namespace Interceptor.Rfc8888

/-! ### the map -/

theorem lookup_filter (p : Int → Bool) (m : Log) (n : Int) :
    lookup (m.filter (fun q => p q.1)) n = if p n then lookup m n else none := by
  induction m with
  | nil => simp [lookup]
  | cons a m ih =>
    obtain ⟨k, e⟩ := a
    simp only [List.filter_cons]
    cases hk : p k with
    | true =>
      simp only [if_true, lookup]
      by_cases hkn : k = n
      · subst hkn; simp [hk]
      · simp only [hkn, if_false]; exact ih
    | false =>
      simp only [Bool.false_eq_true, if_false, lookup]
      by_cases hkn : k = n
      · subst hkn; rw [ih, hk]; simp
      · simp only [hkn, if_false]; exact ih

theorem lookup_erase (m : Log) (k n : Int) :
    lookup (erase m k) n = if n = k then none else lookup m n := by
  have := lookup_filter (fun x => !decide (x = k)) m n
  unfold erase
  rw [this]
  by_cases h : n = k <;> simp [h]

theorem lookup_dropBelow (m : Log) (c n : Int) :
    lookup (dropBelow m c) n = if n < c then none else lookup m n := by
  have := lookup_filter (fun x => !decide (x < c)) m n
  unfold dropBelow
  rw [this]
  by_cases h : n < c <;> simp [h]

theorem lookup_of_ne_nil (m : Log) (h : m ≠ []) : ∃ k, lookup m k ≠ none := by
  cases m with
  | nil => exact absurd rfl h
  | cons a m => exact ⟨a.1, by simp [lookup]⟩

/-! ### emit -/

theorem emit_length (ref : Int) (m : Log) (n : Nat) (i : Int) : (emit ref m n i).length = n := by
  induction n generalizing i with
  | zero => rfl
  | succ n ih => simp [emit, ih]

theorem emit_congr (ref : Int) (m m' : Log) (n : Nat) (i : Int)
    (h : ∀ j, i ≤ j → lookup m j = lookup m' j) : emit ref m n i = emit ref m' n i := by
  induction n generalizing i with
  | zero => rfl
  | succ n ih =>
    simp only [emit]
    rw [h i (Int.le_refl i), ih (i + 1) (fun j hj => h j (by omega))]

theorem emit_get (ref : Int) (m : Log) (n : Nat) (i : Int) (j : Nat) (hj : j < n) :
    (emit ref m n i)[j]? = some (mkMetric ref (lookup m (i + j))) := by
  induction n generalizing i j with
  | zero => omega
  | succ n ih =>
    cases j with
    | zero => simp [emit]
    | succ j =>
      simp only [emit, List.getElem?_cons_succ]
      rw [ih (i + 1) j (by omega)]
      congr 3
      omega

theorem emit_get_none (ref : Int) (m : Log) (n : Nat) (i : Int) (j : Nat) (hj : n ≤ j) :
    (emit ref m n i)[j]? = none := by
  apply List.getElem?_eq_none
  rw [emit_length]; exact hj

/-! ### ack -/

theorem ack_bounds (m : Log) (n : Nat) (i : Int) : i ≤ (ack m n i).2 ∧ (ack m n i).2 ≤ i + n := by
  induction n generalizing m i with
  | zero => simp [ack]
  | succ n ih =>
    simp only [ack]
    split
    · have := ih (erase m i) (i + 1); omega
    · simp only []; omega

theorem ack_lookup (m : Log) (n : Nat) (i j : Int) :
    lookup (ack m n i).1 j = if i ≤ j ∧ j < (ack m n i).2 then none else lookup m j := by
  induction n generalizing m i with
  | zero =>
    have : ¬ (i ≤ j ∧ j < i) := by omega
    simp [ack, this]
  | succ n ih =>
    simp only [ack]
    split
    · rw [ih (erase m i) (i + 1), lookup_erase]
      have hb := ack_bounds (erase m i) n (i + 1)
      by_cases hj : j = i
      · subst hj
        rw [if_pos rfl]
        by_cases h2 : j + 1 ≤ j ∧ j < (ack (erase m j) n (j + 1)).2
        · omega
        · rw [if_neg h2, if_pos (by omega)]
      · rw [if_neg hj]
        by_cases h2 : i + 1 ≤ j ∧ j < (ack (erase m i) n (i + 1)).2
        · rw [if_pos h2, if_pos (by omega)]
        · rw [if_neg h2, if_neg (by omega)]
    · have : ¬ (i ≤ j ∧ j < i) := by omega
      simp [this]

/-- every number the cursor passes was received. -/
theorem ack_prefix (m : Log) (n : Nat) (i j : Int) (h1 : i ≤ j) (h2 : j < (ack m n i).2) :
    lookup m j ≠ none := by
  induction n generalizing m i with
  | zero => simp only [ack] at h2; omega
  | succ n ih =>
    simp only [ack] at h2
    split at h2
    · rename_i hs
      by_cases hj : j = i
      · subst hj; intro hn; rw [hn] at hs; simp at hs
      · have := ih (erase m i) (i + 1) (by omega) h2
        rw [lookup_erase, if_neg hj] at this
        exact this
    · simp only [] at h2; omega

/-- the cursor stops at a number that was not received (or at the end of the range). -/
theorem ack_stop (m : Log) (n : Nat) (i : Int) (h : (ack m n i).2 < i + n) :
    lookup m (ack m n i).2 = none := by
  induction n generalizing m i with
  | zero => simp only [ack] at h; omega
  | succ n ih =>
    simp only [ack] at h ⊢
    split
    · rename_i hs
      simp only [hs, if_true] at h
      have hb := ack_bounds (erase m i) n (i + 1)
      have := ih (erase m i) (i + 1) (by omega)
      rw [lookup_erase, if_neg (by omega)] at this
      exact this
    · rename_i hs
      simp only []
      cases hl : lookup m i with
      | none => rfl
      | some e => rw [hl] at hs; simp at hs

/-! ### the loop is (`ack`, `emit`) -/

theorem loopStep_stuck (st : LoopSt) (i : Int) (r : Bool) (h : st.next < i) :
    (loopStep st i r).log = st.log ∧ (loopStep st i r).next = st.next := by
  unfold loopStep
  split
  · exact ⟨rfl, rfl⟩
  · have hne : ¬ (r = true ∧ i = st.next) := by omega
    simp only [hne, if_false]
    split <;> exact ⟨rfl, rfl⟩

theorem loop_stuck (ref : Int) (n : Nat) (i : Int) (st : LoopSt) (h : st.next < i) :
    (loop ref n i st).1.log = st.log ∧ (loop ref n i st).1.next = st.next ∧
    (loop ref n i st).2 = emit ref st.log n i := by
  induction n generalizing i st with
  | zero => exact ⟨rfl, rfl, rfl⟩
  | succ n ih =>
    have hs := loopStep_stuck st i (lookup st.log i).isSome h
    have := ih (i + 1) (loopStep st i (lookup st.log i).isSome) (by rw [hs.2]; omega)
    simp only [loop, emit]
    rw [this.1, this.2.1, this.2.2, hs.1, hs.2]
    exact ⟨rfl, rfl, rfl⟩

theorem loop_active (ref : Int) (n : Nat) (i : Int) (st : LoopSt) (h1 : st.next = i)
    (h2 : st.gap = false) (h3 : st.lastReceived = i - 1 ∨ st.lastReceived = i) :
    (loop ref n i st).1.log = (ack st.log n i).1 ∧ (loop ref n i st).1.next = (ack st.log n i).2 ∧
    (loop ref n i st).2 = emit ref st.log n i := by
  induction n generalizing i st with
  | zero => exact ⟨rfl, h1, rfl⟩
  | succ n ih =>
    simp only [loop, ack, emit]
    by_cases hr : (lookup st.log i).isSome = true
    · have hstep : loopStep st i (lookup st.log i).isSome =
          { st with log := erase st.log i, next := st.next + 1, lastReceived := i } := by
        unfold loopStep
        simp only [h2, hr, h1, and_self, if_true, Bool.false_eq_true, if_false]
        rw [if_neg (by omega)]
      rw [hstep, if_pos hr]
      have := ih (i + 1) { st with log := erase st.log i, next := st.next + 1, lastReceived := i }
        (by simp only []; omega) h2 (Or.inl (by simp only []; omega))
      simp only [] at this
      refine ⟨this.1, this.2.1, ?_⟩
      rw [this.2.2]
      congr 1
      apply emit_congr
      intro j hj
      rw [lookup_erase, if_neg (by omega)]
    · have hstep : loopStep st i (lookup st.log i).isSome = st := by
        unfold loopStep
        simp only [h2, hr, false_and, if_false, Bool.false_eq_true]
        rw [if_neg (by omega)]
      rw [hstep, if_neg hr]
      have := loop_stuck ref n (i + 1) st (by omega)
      exact ⟨this.1, by rw [this.2.1]; exact h1, by rw [this.2.2]⟩

/-- `metricsAfter` in closed form. -/
theorem metricsAfter_eq (l : StreamLog) (ref b : Int) (hne : l.log ≠ []) :
    metricsAfter l ref b =
      (let t := truncate l b
       let n := (t.last - t.next + 1).toNat
       ({ t with log := (ack t.log n t.next).1, next := (ack t.log n t.next).2 },
        ⟨t.ssrc, u16 t.next, emit ref t.log n t.next⟩)) := by
  unfold metricsAfter
  have : l.log.isEmpty = false := by cases h : l.log with
    | nil => exact absurd h hne
    | cons a m => rfl
  simp only [this, Bool.false_eq_true, if_false]
  have hl := loop_active ref ((truncate l b).last - (truncate l b).next + 1).toNat (truncate l b).next
    ⟨(truncate l b).log, (truncate l b).next, (truncate l b).next, false⟩ rfl rfl (Or.inr rfl)
  simp only [] at hl
  rw [hl.1, hl.2.1, hl.2.2]

theorem metricsAfter_empty (l : StreamLog) (ref b : Int) (he : l.log = []) :
    metricsAfter l ref b = (l, ⟨l.ssrc, u16 l.next, []⟩) := by
  unfold metricsAfter
  simp [he]

/-! ### the representation invariant -/

structure Inv (l : StreamLog) : Prop where
  uninit : l.init = false → l.log = [] ∧ l.next = 0 ∧ l.last = 0
  keys : ∀ k, lookup l.log k ≠ none → l.next ≤ k ∧ k ≤ l.last
  ord : l.init = true → l.next ≤ l.last + 1
  top : l.init = true → l.next ≤ l.last → lookup l.log l.last ≠ none
  nn : 0 ≤ l.last

theorem inv_new (ssrc : Nat) : Inv (StreamLog.new ssrc) := by
  refine ⟨fun _ => ⟨rfl, rfl, rfl⟩, ?_, ?_, ?_, ?_⟩ <;> simp [StreamLog.new, lookup]

/-- the cursor value `add` compares against (the first packet initialises it). -/
def addNext (l : StreamLog) (u : Int) : Int := if l.init then l.next else u

theorem addU_init (l : StreamLog) (ts u : Int) (ecn : Nat) : (addU l ts u ecn).init = true := by
  unfold addU
  cases hi : l.init <;> simp only [Bool.false_eq_true, if_true, if_false] <;> split <;>
    first | rfl | exact hi | (cases lookup l.log u <;> simp only [] <;> split <;> first | rfl | exact hi)

theorem addU_next (l : StreamLog) (ts u : Int) (ecn : Nat) : (addU l ts u ecn).next = addNext l u := by
  unfold addU addNext
  cases hi : l.init <;> simp only [Bool.false_eq_true, if_true, if_false] <;> split <;>
    first | rfl | (cases lookup l.log u <;> simp only [] <;> split <;> rfl)

theorem addU_ssrc (l : StreamLog) (ts u : Int) (ecn : Nat) : (addU l ts u ecn).ssrc = l.ssrc := by
  unfold addU
  cases hi : l.init <;> simp only [Bool.false_eq_true, if_true, if_false] <;> split <;>
    first | rfl | (cases lookup l.log u <;> simp only [] <;> split <;> rfl)

theorem addU_last (l : StreamLog) (ts u : Int) (ecn : Nat) :
    (addU l ts u ecn).last = if u < addNext l u then l.last else if l.last < u then u else l.last := by
  unfold addU addNext
  cases hi : l.init <;> simp only [Bool.false_eq_true, if_true, if_false] <;> split <;>
    first | rfl | (cases lookup l.log u <;> simp only [] <;> split <;> rfl)

theorem addU_lookup (l : StreamLog) (ts u : Int) (ecn : Nat) (k : Int) :
    lookup (addU l ts u ecn).log k = if u < addNext l u then lookup l.log k else
      match lookup l.log k with
      | some e => some e
      | none => if u = k then some ⟨ts, ecn⟩ else none := by
  have key : lookup (match lookup l.log u with
        | some _ => l.log
        | none => (u, (⟨ts, ecn⟩ : Entry)) :: l.log) k =
      match lookup l.log k with
      | some e => some e
      | none => if u = k then some ⟨ts, ecn⟩ else none := by
    cases hl : lookup l.log u with
    | some e0 =>
      simp only []
      cases hk : lookup l.log k with
      | some e => rfl
      | none =>
        simp only []
        by_cases huk : u = k
        · subst huk; rw [hl] at hk; simp at hk
        · rw [if_neg huk]
    | none =>
      simp only [lookup]
      by_cases huk : u = k
      · subst huk; rw [if_pos rfl, hl]; simp
      · rw [if_neg huk]
        cases lookup l.log k with
        | some e => rfl
        | none => simp [huk]
  unfold addU addNext
  cases hi : l.init <;> simp only [Bool.false_eq_true, if_true, if_false] <;> split <;>
    first | rfl | (rw [← key]; cases lookup l.log u <;> simp only [] <;> split <;> rfl)

theorem inv_addU (l : StreamLog) (ts u : Int) (ecn : Nat) (hI : Inv l) (hu : 0 ≤ u) :
    Inv (addU l ts u ecn) := by
  have hnn := hI.nn
  have hN : addNext l u = if l.init then l.next else u := rfl
  refine ⟨fun h => by rw [addU_init] at h; exact absurd h (by simp), ?_, ?_, ?_, ?_⟩
  · intro k hk
    rw [addU_lookup] at hk
    rw [addU_next, addU_last]
    cases hi : l.init with
    | false =>
      obtain ⟨hlog, hnext, hlast⟩ := hI.uninit hi
      simp only [hN, hi, Bool.false_eq_true, if_false, Int.lt_irrefl, hlog, lookup] at hk ⊢
      by_cases huk : u = k
      · subst huk; split <;> omega
      · simp [huk] at hk
    | true =>
      simp only [hN, hi, if_true] at hk ⊢
      by_cases hun : u < l.next
      · simp only [hun, if_true] at hk ⊢; exact hI.keys k hk
      · simp only [hun, if_false] at hk ⊢
        cases hl : lookup l.log k with
        | some e => have := hI.keys k (by rw [hl]; simp); split <;> omega
        | none =>
          simp only [hl] at hk
          by_cases huk : u = k
          · subst huk; split <;> omega
          · simp [huk] at hk
  · intro _
    rw [addU_next, addU_last]
    cases hi : l.init with
    | false =>
      obtain ⟨hlog, hnext, hlast⟩ := hI.uninit hi
      simp only [hN, hi, Bool.false_eq_true, if_false, Int.lt_irrefl]
      split <;> omega
    | true =>
      have := hI.ord hi
      simp only [hN, hi, if_true]
      split
      · exact this
      · split <;> omega
  · intro _ h2
    rw [addU_next, addU_last] at h2
    rw [addU_lookup, addU_last]
    cases hi : l.init with
    | false =>
      obtain ⟨hlog, hnext, hlast⟩ := hI.uninit hi
      simp only [hN, hi, Bool.false_eq_true, if_false, Int.lt_irrefl, hlog, lookup] at h2 ⊢
      by_cases hlu : l.last < u
      · simp [hlu]
      · simp only [hlu, if_false]; rw [if_pos (by omega)]; simp
    | true =>
      have hord := hI.ord hi
      simp only [hN, hi, if_true] at h2 ⊢
      by_cases hun : u < l.next
      · simp only [hun, if_true] at h2 ⊢; exact hI.top hi h2
      · simp only [hun, if_false] at h2 ⊢
        by_cases hlu : l.last < u
        · simp only [hlu, if_true]
          cases lookup l.log u <;> simp
        · simp only [hlu, if_false]
          have := hI.top hi (by omega)
          cases hl : lookup l.log l.last with
          | some e => simp
          | none => exact absurd hl this
  · rw [addU_last]
    split
    · exact hnn
    · split <;> omega

theorem inv_truncate (l : StreamLog) (b : Int) (hI : Inv l) (hb : 0 ≤ b) (hi0 : l.init = true) :
    Inv (truncate l b) := by
  unfold truncate
  split
  · rename_i hgt
    refine ⟨fun h => ?_, ?_, fun _ => by simp only []; omega, ?_, hI.nn⟩
    · simp only [hi0] at h; exact absurd h (by simp)
    · intro k hk
      simp only [lookup_dropBelow] at hk ⊢
      by_cases hlt : k < l.last - b + 1
      · simp [hlt] at hk
      · simp only [hlt, if_false] at hk
        have := hI.keys k hk; omega
    · intro hi h2
      simp only [lookup_dropBelow] at h2 ⊢
      rw [if_neg (by omega)]
      exact hI.top hi (by omega)
  · exact hI

theorem truncate_init (l : StreamLog) (b : Int) : (truncate l b).init = l.init := by
  unfold truncate; split <;> rfl

theorem truncate_last (l : StreamLog) (b : Int) : (truncate l b).last = l.last := by
  unfold truncate; split <;> rfl

theorem truncate_ssrc (l : StreamLog) (b : Int) : (truncate l b).ssrc = l.ssrc := by
  unfold truncate; split <;> rfl

theorem truncate_next (l : StreamLog) (b : Int) : (truncate l b).next = rangeBegin l b := by
  unfold truncate rangeBegin; split <;> first | omega | (simp only []; omega)

theorem truncate_lookup (l : StreamLog) (b k : Int) :
    lookup (truncate l b).log k = if k < rangeBegin l b ∧ l.next < rangeBegin l b then none else lookup l.log k := by
  unfold truncate rangeBegin
  split
  · simp only [lookup_dropBelow]
    by_cases h : k < l.last - b + 1
    · rw [if_pos h, if_pos (by omega)]
    · rw [if_neg h, if_neg (by omega)]
  · rw [if_neg (by omega)]

theorem inv_metricsAfter (l : StreamLog) (ref b : Int) (hI : Inv l) (hb : 0 ≤ b) :
    Inv (metricsAfter l ref b).1 := by
  by_cases he : l.log = []
  · rw [metricsAfter_empty l ref b he]; exact hI
  · rw [metricsAfter_eq l ref b he]
    have hi0 : l.init = true := by
      cases hi : l.init with
      | true => rfl
      | false => exact absurd (hI.uninit hi).1 he
    have hT := inv_truncate l b hI hb hi0
    have hti : (truncate l b).init = true := by rw [truncate_init]; exact hi0
    generalize truncate l b = t at hT hti
    simp only []
    have hb2 := ack_bounds t.log (t.last - t.next + 1).toNat t.next
    refine ⟨fun h => ?_, ?_, fun hi => ?_, ?_, hT.nn⟩
    · simp only [] at h; rw [hti] at h; exact absurd h (by simp)
    · intro k hk
      simp only [ack_lookup] at hk ⊢
      by_cases hc : t.next ≤ k ∧ k < (ack t.log (t.last - t.next + 1).toNat t.next).2
      · simp [hc] at hk
      · rw [if_neg hc] at hk
        have := hT.keys k hk; omega
    · have := hT.ord hi
      simp only []; omega
    · intro hi h2
      simp only [ack_lookup] at h2 ⊢
      have := hT.ord hi
      rw [if_neg (by omega)]
      exact hT.top hi (by omega)

/-! ### histories -/

theorem inv_exec (ssrc : Nat) (h : List Ev) (hn : NonNeg h) : Inv (exec ssrc h) := by
  induction h with
  | nil => exact inv_new ssrc
  | cons e h ih =>
    cases e with
    | add ts u ecn => exact inv_addU _ ts u ecn (ih hn.2) hn.1
    | report ref b => exact inv_metricsAfter _ ref b (ih hn.2) hn.1

theorem metricsAfter_init (l : StreamLog) (ref b : Int) : (metricsAfter l ref b).1.init = l.init := by
  by_cases he : l.log = []
  · rw [metricsAfter_empty l ref b he]
  · rw [metricsAfter_eq l ref b he]; simp only [truncate_init]

/-- the cursor never moves backwards. -/
theorem metricsAfter_next_ge (l : StreamLog) (ref b : Int) : l.next ≤ (metricsAfter l ref b).1.next := by
  by_cases he : l.log = []
  · rw [metricsAfter_empty l ref b he]; exact Int.le_refl _
  · rw [metricsAfter_eq l ref b he]
    simp only []
    have := ack_bounds (truncate l b).log ((truncate l b).last - (truncate l b).next + 1).toNat (truncate l b).next
    simp only [truncate_next, truncate_last] at this ⊢
    have hr : l.next ≤ rangeBegin l b := by unfold rangeBegin; omega
    omega

theorem metricsAfter_lookup_ge (l : StreamLog) (ref b k : Int) (hk : (metricsAfter l ref b).1.next ≤ k) :
    lookup (metricsAfter l ref b).1.log k = lookup l.log k := by
  by_cases he : l.log = []
  · rw [metricsAfter_empty l ref b he]
  · rw [metricsAfter_eq l ref b he] at hk ⊢
    simp only [] at hk ⊢
    have := ack_bounds (truncate l b).log ((truncate l b).last - (truncate l b).next + 1).toNat (truncate l b).next
    rw [ack_lookup, if_neg (by omega), truncate_lookup]
    simp only [truncate_next, truncate_last] at this hk
    rw [if_neg (by omega)]

/-- the stored records of the not yet acknowledged numbers are exactly the first arrivals. -/
theorem exec_first (ssrc : Nat) (h : List Ev) :
    ((exec ssrc h).init = false → ∀ n, firstArrival h n = none) ∧
    (∀ n, (exec ssrc h).next ≤ n → lookup (exec ssrc h).log n = firstArrival h n) ∧
    ((exec ssrc h).init = false → (exec ssrc h).log = []) := by
  induction h with
  | nil => simp [exec, StreamLog.new, firstArrival, lookup]
  | cons e h ih =>
    obtain ⟨ih1, ih2, ih3⟩ := ih
    cases e with
    | report ref b =>
      simp only [exec, firstArrival, metricsAfter_init]
      refine ⟨ih1, ?_, ?_⟩
      · intro n hn
        rw [metricsAfter_lookup_ge _ ref b n hn]
        exact ih2 n (Int.le_trans (metricsAfter_next_ge _ ref b) hn)
      · intro hi
        rw [metricsAfter_empty _ ref b (ih3 hi)]
        exact ih3 hi
    | add ts u ecn =>
      simp only [exec, firstArrival, addU_init]
      refine ⟨by simp, ?_, by simp⟩
      intro n hn
      rw [addU_next] at hn
      rw [addU_lookup]
      have hN : addNext (exec ssrc h) u = if (exec ssrc h).init then (exec ssrc h).next else u := rfl
      cases hi : (exec ssrc h).init with
      | false =>
        simp only [hN, hi, Bool.false_eq_true, if_false, Int.lt_irrefl, ih3 hi, lookup, ih1 hi n]
      | true =>
        simp only [hN, hi, if_true] at hn ⊢
        rw [ih2 n hn]
        by_cases hun : u < (exec ssrc h).next
        · simp only [hun, if_true]
          cases firstArrival h n with
          | some e => rfl
          | none => simp only []; rw [if_neg (by omega)]
        · simp only [hun, if_false]
          rfl

/-- once recorded, a first arrival is never replaced. -/
theorem firstArrival_mono (h1 h2 : List Ev) (n : Int) (e : Entry) (h : firstArrival h1 n = some e) :
    firstArrival (h2 ++ h1) n = some e := by
  induction h2 with
  | nil => exact h
  | cons ev h2 ih =>
    cases ev with
    | add ts u ecn => simp only [List.cons_append, firstArrival, ih]
    | report ref b => simp only [List.cons_append, firstArrival, ih]

theorem exec_init_mono (ssrc : Nat) (h1 h2 : List Ev) (h : (exec ssrc h1).init = true) :
    (exec ssrc (h2 ++ h1)).init = true := by
  induction h2 with
  | nil => exact h
  | cons ev h2 ih =>
    cases ev with
    | add ts u ecn => simp only [List.cons_append, exec, addU_init]
    | report ref b => simp only [List.cons_append, exec, metricsAfter_init]; exact ih

end Interceptor.Rfc8888

/-
What the windowed spec `SBuf` means, one send at a time: the packet just accepted is the
retransmittable one for its number; every other number that is still inside the window keeps its
packet; numbers outside the window have none.  By induction over the history this is "the last
accepted packet sent with number x, provided x has stayed within the most recent `size` numbers".
-/
import Interceptor.Proofs.RtpBuffer
namespace Interceptor.RtpBuffer
open Interceptor

variable {α : Type} {seqOf : α → Nat}

/-- well-formed spec state: everything remembered is inside the window; nothing before the first send. -/
structure SBuf.WF (seqOf : α → Nat) (s : SBuf α) : Prop where
  pos : 0 < s.size
  hi_lt : s.hi < 65536
  inwin : ∀ q ∈ s.m, seqOf q < 65536 ∧ sub16 s.hi (seqOf q) < s.size
  fresh : s.started = false → s.m = []

/-- a send is accepted unless it repeats the highest number or is late and outside the window. -/
def SBuf.accepts (seqOf : α → Nat) (s : SBuf α) (p : α) : Prop :=
  s.started = false ∨ (sub16 (seqOf p) s.hi ≠ 0 ∧ (sub16 (seqOf p) s.hi < 32768 ∨ sub16 s.hi (seqOf p) < s.size))

theorem SBuf.wf_send {s : SBuf α} (h : SBuf.WF seqOf s) (p : α) (hp : seqOf p < 65536) :
    SBuf.WF seqOf (s.send seqOf p) := by
  have h0 : sub16 (seqOf p) (seqOf p) = 0 := sub16_self' _ hp
  unfold SBuf.send
  simp only
  split
  · exact ⟨h.pos, hp, by intro q hq; simp only [List.mem_singleton] at hq; subst hq; exact ⟨hp, by rw [h0]; exact h.pos⟩,
           by intro c; cases c⟩
  · rename_i hst
    split
    · exact h
    · split
      · refine ⟨h.pos, hp, ?_, ?_⟩
        · intro q hq
          simp only [List.mem_cons, List.mem_filter, inWin, decide_eq_true_eq] at hq
          rcases hq with rfl | ⟨hq, hw⟩
          · exact ⟨hp, by rw [h0]; exact h.pos⟩
          · exact ⟨(h.inwin q hq).1, hw⟩
        · intro c; exact absurd c hst
      · split
        · rename_i hw
          refine ⟨h.pos, h.hi_lt, ?_, ?_⟩
          · intro q hq
            simp only [List.mem_cons] at hq
            rcases hq with rfl | hq
            · exact ⟨hp, by simpa [inWin] using hw⟩
            · exact h.inwin q hq
          · intro c; exact absurd c hst
        · exact h

/-- S1: an accepted packet is the retransmittable one for its number. -/
theorem SBuf.get_after_send_self {s : SBuf α} (h : SBuf.WF seqOf s) (p : α) (hp : seqOf p < 65536)
    (ha : s.accepts seqOf p) : (s.send seqOf p).get seqOf (seqOf p) = some p := by
  have h0 : sub16 (seqOf p) (seqOf p) = 0 := sub16_self' _ hp
  have hpos := h.pos
  unfold SBuf.accepts at ha
  unfold SBuf.send SBuf.get
  simp only
  by_cases hst : s.started = false
  · simp [hst, inWin, h0, hpos]
  · rcases ha with ha | ⟨hd0, ha⟩
    · exact absurd ha hst
    · rw [if_neg hst, if_neg hd0]
      by_cases hd : sub16 (seqOf p) s.hi < 32768
      · simp [hd, inWin, h0, hpos]
      · have hw : sub16 s.hi (seqOf p) < s.size := by rcases ha with ha | ha; exact absurd ha hd; exact ha
        simp [hd, inWin, hw]

/-- S2: any other number that is inside the window after the send keeps its packet. -/
theorem SBuf.get_after_send_other {s : SBuf α} (h : SBuf.WF seqOf s) (p : α) (hp : seqOf p < 65536)
    (x : Nat) (hx : x < 65536) (hne : x ≠ seqOf p)
    (hw : sub16 (s.send seqOf p).hi x < s.size) : (s.send seqOf p).get seqOf x = s.get seqOf x := by
  have hne' : ¬ seqOf p = x := fun c => hne c.symm
  unfold SBuf.send SBuf.get at *
  simp only at *
  by_cases hst : s.started = false
  · simp only [hst, if_true] at hw ⊢
    simp [h.fresh hst, hne', List.find?_cons]
  · rw [if_neg hst] at hw ⊢
    by_cases hd0 : sub16 (seqOf p) s.hi = 0
    · rw [if_pos hd0]
    · rw [if_neg hd0] at hw ⊢
      by_cases hd : sub16 (seqOf p) s.hi < 32768
      · rw [if_pos hd] at hw ⊢
        simp only at hw ⊢
        have hw' : inWin s.size (seqOf p) x = true := by simpa [inWin] using hw
        rw [hw', if_pos rfl, List.find?_cons_of_neg (by simpa using hne'), List.find?_filter]
        -- inside the new window the filter does not matter for packets numbered x
        have e1 : s.m.find? (fun a => decide (inWin s.size (seqOf p) (seqOf a) = true ∧ decide (seqOf a = x) = true))
                = s.m.find? (fun q => decide (seqOf q = x)) := by
          apply find?_congr'
          intro a _
          by_cases ea : seqOf a = x
          · simp [ea, hw']
          · simp [ea]
        rw [e1]
        by_cases hold : inWin s.size s.hi x = true
        · rw [hold, if_pos rfl]
        · -- x was above the old highest: nothing remembered carries it
          rw [if_neg hold]
          apply List.find?_eq_none.2
          intro a ha
          have := h.inwin a ha
          intro c
          simp only [decide_eq_true_eq] at c
          rw [c] at this
          simp only [inWin, decide_eq_true_eq] at hold
          exact hold this.2
      · rw [if_neg hd] at hw ⊢
        by_cases hl : inWin s.size s.hi (seqOf p) = true
        · rw [if_pos hl] at hw ⊢
          simp only at hw ⊢
          simp [List.find?_cons, hne']
        · rw [if_neg hl]

end Interceptor.RtpBuffer

/- the internal/cc adapter's TWCC decoding equals the flat spec decoder (C09.T1) -/
import Interceptor.Proofs.FeedbackTotal
import Interceptor.Spec.Feedback
namespace Interceptor.FeedbackAdapter
open Interceptor Feedback Feedback.Spec

/-- attach history entries to a status list, stepping the sequence number as the code does. -/
def attachFrom (h : Hist) : Nat → List St → List Ack
  | _, [] => []
  | i, s :: ss => entry h i s.time :: attachFrom h ((i + 1) % 65536) ss

theorem attachFrom_length (h : Hist) (sts : List St) : ∀ i, (attachFrom h i sts).length = sts.length := by
  induction sts with
  | nil => intro i; rfl
  | cons s ss ih => intro i; simp [attachFrom, ih]

theorem attachFrom_append (h : Hist) (a b : List St) : ∀ i, i < 65536 →
    attachFrom h i (a ++ b) = attachFrom h i a ++ attachFrom h ((i + a.length) % 65536) b := by
  induction a with
  | nil => intro i hi; simp [attachFrom, Nat.mod_eq_of_lt hi]
  | cons s ss ih =>
    intro i hi
    simp only [List.cons_append, attachFrom, List.length_cons]
    rw [ih ((i + 1) % 65536) (Nat.mod_lt _ (by decide))]
    have : ((i + 1) % 65536 + ss.length) % 65536 = (i + (ss.length + 1)) % 65536 := by omega
    rw [this]

theorem attachFrom_number (h : Hist) (sts : List St) : ∀ i,
    attachFrom h (i % 65536) sts = (number i sts).map (fun e => entry h e.1 e.2.time) := by
  induction sts with
  | nil => intro i; rfl
  | cons s ss ih =>
    intro i
    simp only [attachFrom, number, List.map_cons]
    have : (i % 65536 + 1) % 65536 = (i + 1) % 65536 := by omega
    rw [this, ih (i + 1)]

theorem walk_length : ∀ (ss : List Nat) (ref : Int) (ds : List Int) r, walk ref ss ds = some r →
    r.1.length = ss.length ∧ r.2.2 ≤ ds.length := by
  intro ss
  induction ss with
  | nil => intro ref ds r h; simp [walk] at h; subst h; simp
  | cons s ss ih =>
    intro ref ds r h
    unfold walk at h
    split at h
    · simp only [Option.map_eq_some_iff] at h
      obtain ⟨r', hr', rfl⟩ := h
      have := ih _ _ _ hr'; simp; omega
    · split at h
      · cases ds with
        | nil => simp at h
        | cons d ds' =>
          simp only [Option.map_eq_some_iff] at h
          obtain ⟨r', hr', rfl⟩ := h
          have := ih _ _ _ hr'; simp; omega
      · split at h
        · simp only [Option.map_eq_some_iff] at h
          obtain ⟨r', hr', rfl⟩ := h
          have := ih _ _ _ hr'; simp; omega
        · simp only [Option.map_eq_some_iff] at h
          obtain ⟨r', hr', rfl⟩ := h
          have := ih _ _ _ hr'; simp; omega

theorem walk_cons (ref : Int) (s : Nat) (ss : List Nat) (ds : List Int) :
    walk ref (s :: ss) ds =
      if s = symNotReceived then (walk ref ss ds).map fun r => (St.lost :: r.1, r.2.1, r.2.2)
      else if s = symSmall ∨ s = symLarge then
        match ds with
        | [] => none
        | d :: ds' => (walk (ref + d * 1000) ss ds').map fun r => (St.recvAt (ref + d * 1000) :: r.1, r.2.1, r.2.2 + 1)
      else if s = symNoDelta then (walk ref ss ds).map fun r => (St.recvNoTime :: r.1, r.2.1, r.2.2)
      else (walk ref ss ds).map fun r => (St.reserved :: r.1, r.2.1, r.2.2) := by
  conv => lhs; unfold walk
  rfl

/-- decoding a concatenation = decoding the first part, then the second with the remaining
deltas and the advanced reference time. -/
theorem walk_append (a b : List Nat) : ∀ (ref : Int) (ds : List Int),
    walk ref (a ++ b) ds =
      (walk ref a ds).bind fun r1 =>
        (walk r1.2.1 b (ds.drop r1.2.2)).map fun r2 => (r1.1 ++ r2.1, r2.2.1, r1.2.2 + r2.2.2) := by
  induction a with
  | nil => intro ref ds; simp [walk]
  | cons s ss ih =>
    intro ref ds
    rw [List.cons_append, walk_cons, walk_cons]
    by_cases h0 : s = symNotReceived
    · simp only [if_pos h0]; rw [ih]; cases walk ref ss ds <;> simp [Function.comp_def]
    · simp only [if_neg h0]
      by_cases h12 : s = symSmall ∨ s = symLarge
      · simp only [if_pos h12]
        cases ds with
        | nil => simp
        | cons d ds' =>
          simp only []
          rw [ih]
          cases walk (ref + d * 1000) ss ds' with
          | none => simp
          | some r1 => simp [Function.comp_def, Nat.add_assoc, Nat.add_comm 1]
      · simp only [if_neg h12]
        by_cases h3 : s = symNoDelta
        · simp only [if_pos h3]; rw [ih]; cases walk ref ss ds <;> simp [Function.comp_def]
        · simp only [if_neg h3]; rw [ih]; cases walk ref ss ds <;> simp [Function.comp_def]

/-- result of the symbol loop expressed by the spec walk. -/
def specRes (h : Hist) (i di : Nat) : Option (List St × Int × Nat) → Res (Nat × Int × List Ack)
  | none => .err "invalid"
  | some r => .ok (di + r.2.2, r.2.1, attachFrom h i r.1)

theorem symLoop_eq_walk (h : Hist) (deltas : List Int) (ss : List Nat) (hs : ∀ s ∈ ss, s ≤ 2) :
    ∀ (i di : Nat) (ref : Int), di ≤ deltas.length →
      symLoop h deltas ss i di ref = specRes h i di (walk ref ss (deltas.drop di)) := by
  induction ss with
  | nil => intro i di ref hd; simp [symLoop, walk, specRes, attachFrom]
  | cons s ss ih =>
    intro i di ref hd
    have hs' : ∀ s ∈ ss, s ≤ 2 := fun x hx => hs x (List.mem_cons_of_mem _ hx)
    have hs2 : s ≤ 2 := hs s (List.mem_cons_self ..)
    rw [walk_cons]
    unfold symLoop
    by_cases h0 : s = symNotReceived
    · rw [if_pos h0, if_pos h0, ih hs' _ _ _ hd]
      cases walk ref ss (List.drop di deltas) with
      | none => simp [specRes]
      | some r => simp [specRes, attachFrom, St.time]
    · rw [if_neg h0, if_neg h0]
      have h12 : s = symSmall ∨ s = symLarge := by
        simp only [symNotReceived, symSmall, symLarge] at *; omega
      rw [if_pos h12]
      by_cases hg : (deltas.length : Int) - 1 < (di : Int)
      · rw [if_pos hg]
        have : List.drop di deltas = [] := List.drop_eq_nil_of_le (by omega)
        rw [this]; simp [specRes]
      · rw [if_neg hg]
        have hlt : di < deltas.length := by omega
        rw [idx_lt _ _ _ hlt, List.drop_eq_getElem_cons hlt]
        simp only [Res.bind_ok]
        rw [ih hs' _ _ _ (by omega)]
        cases walk (ref + deltas[di] * 1000) ss (List.drop (di + 1) deltas) with
        | none => simp [specRes]
        | some r => simp [specRes, attachFrom, St.time, Nat.add_assoc, Nat.add_comm 1]

/-- a chunk the theorem covers: run-length or status-vector with defined delta symbols only
(0 lost, 1 small delta, 2 large delta). -/
def ChunkOK : Chunk → Prop
  | .rl sym _ => sym ≤ 2
  | .sv syms => ∀ s ∈ syms, s ≤ 2
  | .other => False

theorem expand_ok (c : Chunk) (hc : ChunkOK c) : ∀ s ∈ expand c, s ≤ 2 := by
  cases c with
  | rl sym run => intro s hs; simp [expand] at hs; simp [ChunkOK] at hc; omega
  | sv syms => exact hc
  | other => exact hc.elim

def chunkSpec (h : Hist) (index : Nat) : Option (List St × Int × Nat) → Res (List Ack)
  | none => .err "invalid"
  | some r => .ok (attachFrom h index r.1)

theorem chunkLoop_eq_walk (h : Hist) (cs : List Chunk) (hok : ∀ c ∈ cs, ChunkOK c) :
    ∀ (index : Nat) (ref : Int) (deltas : List Int), index < 65536 →
      chunkLoop h cs index ref deltas = chunkSpec h index (walk ref (symbols cs) deltas) := by
  induction cs with
  | nil => intro index ref deltas hi; simp [chunkLoop, symbols, walk, chunkSpec, attachFrom]
  | cons c cs ih =>
    intro index ref deltas hi
    have hc : ChunkOK c := hok c (List.mem_cons_self ..)
    have hcs : ∀ c ∈ cs, ChunkOK c := fun x hx => hok x (List.mem_cons_of_mem _ hx)
    have hsym : symbols (c :: cs) = expand c ++ symbols cs := by simp [symbols]
    rw [hsym, walk_append]
    have key : ∀ (syms : List Nat), syms = expand c →
        (do
          let (n, ref', acks) ← symLoop h deltas syms index 0 ref
          let deltas' ← sliceFrom "feedback_adapter.go: recvDeltas[n:]" deltas n
          let rest ← chunkLoop h cs ((index + acks.length) % 65536) ref' deltas'
          pure (acks ++ rest)) =
        chunkSpec h index ((walk ref (expand c) deltas).bind fun r1 =>
          (walk r1.2.1 (symbols cs) (deltas.drop r1.2.2)).map fun r2 =>
            (r1.1 ++ r2.1, r2.2.1, r1.2.2 + r2.2.2)) := by
      intro syms hsy
      subst hsy
      rw [symLoop_eq_walk h deltas _ (expand_ok c hc) index 0 ref (Nat.zero_le _)]
      simp only [List.drop_zero]
      cases hw : walk ref (expand c) deltas with
      | none => simp [specRes, chunkSpec]
      | some r1 =>
        have hl := walk_length _ _ _ _ hw
        simp only [specRes, Res.bind_ok, Nat.zero_add, sliceFrom, hl.2, if_true, attachFrom_length,
          Option.bind_some]
        rw [ih hcs _ _ _ (Nat.mod_lt _ (by decide))]
        cases walk r1.2.1 (symbols cs) (List.drop r1.2.2 deltas) with
        | none => simp [chunkSpec]
        | some r2 =>
          simp [chunkSpec, attachFrom_append h r1.1 r2.1 index hi]
    unfold chunkLoop
    cases c with
    | other => exact hc.elim
    | rl sym run => exact key _ rfl
    | sv syms => exact key _ rfl

end Interceptor.FeedbackAdapter

import Interceptor.Proofs.Responder
import Interceptor.Spec.Rtx
namespace Interceptor.RtpBuffer
open Interceptor

theorem clearStream_bound (r : Resp) (w : Nat) : (clearStream r w).bound = r.bound := by
  unfold clearStream; repeat' split
  all_goals rfl

theorem clearStream_hold (r : Resp) (w : Nat) : (clearStream r w).hold = r.hold := by
  unfold clearStream; repeat' split
  all_goals rfl

theorem clearStream_closed (r : Resp) (w : Nat) : (clearStream r w).closed = r.closed := by
  unfold clearStream; repeat' split
  all_goals rfl

theorem clearStream_pending (r : Resp) (w : Nat) : (clearStream r w).pending = r.pending := by
  unfold clearStream; repeat' split
  all_goals rfl

theorem clearStream_closeWaiting (r : Resp) (w : Nat) : (clearStream r w).closeWaiting = r.closeWaiting := by
  unfold clearStream; repeat' split
  all_goals rfl

theorem clearList_closeWaiting (l : List (Nat × Nat)) (r : Resp) :
    (l.foldl (fun r e => clearStream r e.2) r).closeWaiting = r.closeWaiting := by
  induction l generalizing r with
  | nil => rfl
  | cons e l ih => simp only [List.foldl_cons]; rw [ih, clearStream_closeWaiting]

theorem clearList_bound (l : List (Nat × Nat)) (r : Resp) :
    (l.foldl (fun r e => clearStream r e.2) r).bound = r.bound ∧
    (l.foldl (fun r e => clearStream r e.2) r).hold = r.hold ∧
    (l.foldl (fun r e => clearStream r e.2) r).closed = r.closed ∧
    (l.foldl (fun r e => clearStream r e.2) r).pending = r.pending := by
  induction l generalizing r with
  | nil => exact ⟨rfl, rfl, rfl, rfl⟩
  | cons e l ih =>
    simp only [List.foldl_cons]
    rw [(ih _).1, (ih _).2.1, (ih _).2.2.1, (ih _).2.2.2, clearStream_bound, clearStream_hold,
      clearStream_closed, clearStream_pending]
    exact ⟨rfl, rfl, rfl, rfl⟩

theorem lookupBound_filter_self (l : List (Nat × Nat)) (ssrc : Nat) :
    lookupBound (l.filter (·.1 ≠ ssrc)) ssrc = none := by
  unfold lookupBound
  have : (l.filter (·.1 ≠ ssrc)).find? (·.1 = ssrc) = none := by
    apply List.find?_eq_none.2
    intro x hx
    simp only [List.mem_filter, decide_eq_true_eq] at hx
    simpa using hx.2
  rw [this]; rfl

theorem nack_unbound (r : Resp) (ssrc : Nat) (pairs : List (Nat × Nat))
    (h : lookupBound r.bound ssrc = none) : r.nack ssrc pairs = (r, []) := by
  unfold Resp.nack; rw [h]; split <;> rfl

theorem nack_closed (r : Resp) (ssrc : Nat) (pairs : List (Nat × Nat))
    (h : r.closed = true) : r.nack ssrc pairs = (r, []) := by
  unfold Resp.nack; rw [if_pos h]

theorem close_closed (r : Resp) : r.close.closed = true := by
  unfold Resp.close; rw [(clearList_bound _ _).2.2.1]

theorem close_pending (r : Resp) : r.close.pending = r.pending := by
  unfold Resp.close; rw [(clearList_bound _ _).2.2.2]

theorem bind_closed (r : Resp) (a b c : Nat) (fb : Bool) : (r.bind a b c fb).closed = r.closed := by
  unfold Resp.bind; split <;> rfl

theorem write_closed (r : Resp) (w : Nat) (hd : Hdr) (pl : List Nat) : (r.write w hd pl).1.closed = r.closed := by
  unfold Resp.write
  repeat' split
  all_goals rfl

theorem unbind_closed (r : Resp) (s : Nat) : (r.unbind s).closed = r.closed := by
  unfold Resp.unbind
  split
  · rfl
  · rw [clearStream_closed]

theorem close_closeWaiting (r : Resp) : r.close.closeWaiting = (r.closeWaiting || r.pending.isSome) := by
  unfold Resp.close; rw [clearList_closeWaiting]

theorem bind_pending (r : Resp) (a b c : Nat) (fb : Bool) : (r.bind a b c fb).pending = r.pending := by
  unfold Resp.bind; split <;> rfl

theorem write_pending (r : Resp) (w : Nat) (hd : Hdr) (pl : List Nat) : (r.write w hd pl).1.pending = r.pending := by
  unfold Resp.write
  repeat' split
  all_goals rfl

theorem unbind_pending (r : Resp) (s : Nat) : (r.unbind s).pending = r.pending := by
  unfold Resp.unbind
  split
  · rfl
  · rw [clearStream_pending]

theorem applyOp_pending (r : Resp) (op : Op) : (applyOp r op).pending = r.pending := by
  cases op with
  | bind a b c fb => simp only [applyOp, bind_pending]
  | write w hd pl => simp only [applyOp, write_pending]
  | unbind s => simp only [applyOp, unbind_pending]
  | close => exact close_pending r

theorem runOps_pending (r : Resp) (sp : Specs) (ops : List Op) : (runOps r sp ops).1.pending = r.pending := by
  induction ops generalizing r sp with
  | nil => rfl
  | cons op ops ih => simp only [runOps]; rw [ih, applyOp_pending]

theorem resume_closed (r : Resp) : r.resume.1.closed = r.closed := by
  unfold Resp.resume; split <;> rfl

theorem resume_pending (r : Resp) : r.resume.1.pending = none := by
  unfold Resp.resume; split
  · rename_i h; simp only [h]
  · rfl

theorem resume_idle (r : Resp) (h : r.pending = none) : r.resume.2 = [] := by
  unfold Resp.resume; rw [h]

/-- every operation keeps a closed responder closed. -/
theorem applyOp_closed (r : Resp) (op : Op) (h : r.closed = true) : (applyOp r op).closed = true := by
  cases op with
  | bind a b c fb => simp only [applyOp, bind_closed]; exact h
  | write w hd pl => simp only [applyOp, write_closed]; exact h
  | unbind s => simp only [applyOp, unbind_closed]; exact h
  | close => exact close_closed r

theorem runOps_closed (r : Resp) (sp : Specs) (ops : List Op) (h : r.closed = true) :
    (runOps r sp ops).1.closed = true := by
  induction ops generalizing r sp with
  | nil => exact h
  | cons op ops ih => simp only [runOps]; exact ih _ _ (applyOp_closed r op h)

theorem getLastD_append_ne {a b : List Nat} (hb : b ≠ []) : (a ++ b).getLastD 0 = b.getLastD 0 := by
  cases b with
  | nil => exact absurd rfl hb
  | cons x xs => simp [List.getLastD_eq_getLast?, List.getLast?_append, List.getLast?_cons]

/-- membership in the spec's list only ever comes from a send. -/
theorem send_m_subset {α : Type} (seqOf : α → Nat) (s : SBuf α) (p q : α)
    (h : q ∈ (s.send seqOf p).m) : q = p ∨ q ∈ s.m := by
  unfold SBuf.send at h
  simp only at h
  repeat' split at h
  all_goals first
    | (simp only [List.mem_singleton] at h; exact Or.inl h)
    | (simp only [List.mem_cons, List.mem_filter] at h; rcases h with h | h
       · exact Or.inl h
       · exact Or.inr h.1)
    | (simp only [List.mem_cons] at h; exact h)
    | exact Or.inr h

theorem sendAll_m_subset {α : Type} (seqOf : α → Nat) (s : SBuf α) (ps : List α) (q : α)
    (h : q ∈ (s.sendAll seqOf ps).m) : q ∈ ps ∨ q ∈ s.m := by
  induction ps generalizing s with
  | nil => exact Or.inr h
  | cons p ps ih =>
    simp only [SBuf.sendAll, List.foldl_cons] at h
    rcases ih (s.send seqOf p) h with h | h
    · exact Or.inl (by simp [h])
    · rcases send_m_subset seqOf s p q h with h | h
      · exact Or.inl (by simp [h])
      · exact Or.inr h

end Interceptor.RtpBuffer

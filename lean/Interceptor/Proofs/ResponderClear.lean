import Interceptor.Proofs.Responder
import Interceptor.Spec.Rtx
namespace Interceptor.RtpBuffer
open Interceptor

theorem clearStream_bound (r : Resp) (w : Nat) : (clearStream r w).bound = r.bound := by
  unfold clearStream; repeat' split
  all_goals rfl

theorem clearStream_hold (r : Resp) (w : Nat) : (clearStream r w).hold = r.hold := by
  unfold clearStream; repeat' split
  all_goals rfl

theorem clearList_bound (l : List (Nat × Nat)) (r : Resp) :
    (l.foldl (fun r e => clearStream r e.2) r).bound = r.bound ∧
    (l.foldl (fun r e => clearStream r e.2) r).hold = r.hold := by
  induction l generalizing r with
  | nil => exact ⟨rfl, rfl⟩
  | cons e l ih =>
    simp only [List.foldl_cons]
    rw [(ih _).1, (ih _).2, clearStream_bound, clearStream_hold]
    exact ⟨rfl, rfl⟩

theorem lookupBound_filter_self (l : List (Nat × Nat)) (ssrc : Nat) :
    lookupBound (l.filter (·.1 ≠ ssrc)) ssrc = none := by
  unfold lookupBound
  have : (l.filter (·.1 ≠ ssrc)).find? (·.1 = ssrc) = none := by
    apply List.find?_eq_none.2
    intro x hx
    simp only [List.mem_filter, decide_eq_true_eq] at hx
    simpa using hx.2
  rw [this]; rfl

theorem nack_unbound (r : Resp) (ssrc : Nat) (pairs : List (Nat × Nat))
    (h : lookupBound r.bound ssrc = none) : r.nack ssrc pairs = (r, []) := by
  unfold Resp.nack; rw [h]

theorem getLastD_append_ne {a b : List Nat} (hb : b ≠ []) : (a ++ b).getLastD 0 = b.getLastD 0 := by
  cases b with
  | nil => exact absurd rfl hb
  | cons x xs => simp [List.getLastD_eq_getLast?, List.getLast?_append, List.getLast?_cons]

/-- membership in the spec's list only ever comes from a send. -/
theorem send_m_subset {α : Type} (seqOf : α → Nat) (s : SBuf α) (p q : α)
    (h : q ∈ (s.send seqOf p).m) : q = p ∨ q ∈ s.m := by
  unfold SBuf.send at h
  simp only at h
  repeat' split at h
  all_goals first
    | (simp only [List.mem_singleton] at h; exact Or.inl h)
    | (simp only [List.mem_cons, List.mem_filter] at h; rcases h with h | h
       · exact Or.inl h
       · exact Or.inr h.1)
    | (simp only [List.mem_cons] at h; exact h)
    | exact Or.inr h

theorem sendAll_m_subset {α : Type} (seqOf : α → Nat) (s : SBuf α) (ps : List α) (q : α)
    (h : q ∈ (s.sendAll seqOf ps).m) : q ∈ ps ∨ q ∈ s.m := by
  induction ps generalizing s with
  | nil => exact Or.inr h
  | cons p ps ih =>
    simp only [SBuf.sendAll, List.foldl_cons] at h
    rcases ih (s.send seqOf p) h with h | h
    · exact Or.inl (by simp [h])
    · rcases send_m_subset seqOf s p q h with h | h
      · exact Or.inl (by simp [h])
      · exact Or.inr h

end Interceptor.RtpBuffer

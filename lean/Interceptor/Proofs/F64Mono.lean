/-
Monotonicity of binary64 rounding in the exact model (Base/F64.lean): `rne` is monotone on the
non-negative rationals, it fixes grid values, and `ofInt`/`add`/`div`/`mul` by non-negative
constants inherit monotonicity.  Used by C20 (NTP conversion is monotone).
-/
import Interceptor.Proofs.Rfc8888Ato
namespace Interceptor.F64

/-- `a < 2^(⌊log2 a⌋+1)`. -/
theorem lt_pow2_ilog2_succ (a : ℚ) (ha : 0 < a) : a < pow2 (ilog2 a + 1) := by
  have hnum : 0 < a.num := Rat.num_pos.mpr ha
  -- the crude estimate a < 2^(e0+1)
  have hU : a < pow2 ((Nat.log2 a.num.toNat : Int) - (Nat.log2 a.den : Int) + 1) := by
    have h1 : a.num.toNat < 2 ^ (Nat.log2 a.num.toNat + 1) := Nat.lt_log2_self
    have h2 : 2 ^ (Nat.log2 a.den) ≤ a.den := Nat.log2_self_le (by have := a.den_pos; omega)
    have e : (Nat.log2 a.num.toNat : Int) - (Nat.log2 a.den : Int) + 1
        = ((Nat.log2 a.num.toNat + 1 : Nat) : Int) - ((Nat.log2 a.den : Nat) : Int) := by push_cast; ring
    rw [pow2_eq, e, zpow_sub₀ (by norm_num), zpow_natCast, zpow_natCast, lt_div_iff₀ (by positivity)]
    have h1' : a.num < ((2 ^ (Nat.log2 a.num.toNat + 1) : Nat) : Int) := by omega
    have h1q : (a.num : ℚ) < (2 : ℚ) ^ (Nat.log2 a.num.toNat + 1) := by exact_mod_cast h1'
    have h2q : (2 : ℚ) ^ (Nat.log2 a.den) ≤ (a.den : ℚ) := by exact_mod_cast h2
    have hmul : a * (a.den : ℚ) = (a.num : ℚ) := Rat.mul_den_eq_num a
    calc a * (2 : ℚ) ^ (Nat.log2 a.den) ≤ a * (a.den : ℚ) := mul_le_mul_of_nonneg_left h2q ha.le
      _ = (a.num : ℚ) := hmul
      _ < (2 : ℚ) ^ (Nat.log2 a.num.toNat + 1) := h1q
  unfold ilog2
  dsimp only
  split
  · rename_i h
    have : (Nat.log2 a.num.toNat : Int) - (Nat.log2 a.den : Int) - 1 + 1
        = (Nat.log2 a.num.toNat : Int) - (Nat.log2 a.den : Int) := by ring
    rw [this]; exact h
  · split
    · rename_i _ h
      exact absurd hU (not_lt.mpr h)
    · rename_i _ h
      exact not_le.mp h

/-- `⌊log2⌋` is monotone. -/
theorem ilog2_mono (a b : ℚ) (ha : 0 < a) (hab : a ≤ b) : ilog2 a ≤ ilog2 b := by
  by_contra hc
  have hlt : ilog2 b + 1 ≤ ilog2 a := by omega
  have h1 := pow2_le hlt
  have h2 := ilog2_le a ha
  have h3 := lt_pow2_ilog2_succ b (lt_of_lt_of_le ha hab)
  linarith

/-- the exponent of the unit in the last place. -/
def ulpExp (a : ℚ) : Int := (if ilog2 a < -1022 then -1022 else ilog2 a) - 52

theorem ulp_eq_pow2 (a : ℚ) : ulp a = pow2 (ulpExp a) := by
  unfold ulp ulpExp; rfl

theorem ulpExp_mono (a b : ℚ) (ha : 0 < a) (hab : a ≤ b) : ulpExp a ≤ ulpExp b := by
  have := ilog2_mono a b ha hab
  unfold ulpExp
  split <;> split <;> omega

theorem ulpExp_ge (a : ℚ) : -1074 ≤ ulpExp a := by
  unfold ulpExp; split <;> omega

theorem lt_pow2_ulpExp (a : ℚ) (ha : 0 < a) : a < pow2 (ulpExp a + 53) := by
  have h := lt_pow2_ilog2_succ a ha
  unfold ulpExp
  split
  · rename_i hs
    have : ilog2 a + 1 ≤ -1022 - 52 + 53 := by omega
    exact lt_of_lt_of_le h (pow2_le this)
  · have : ilog2 a - 52 + 53 = ilog2 a + 1 := by ring
    rw [this]; exact h

/-- nearest-even rounding of rationals is monotone. -/
theorem roundEven_mono (m1 m2 : ℚ) (h : m1 ≤ m2) : roundEven m1 ≤ roundEven m2 := by
  by_cases hc : ((roundEven m1 : Int) : ℚ) ≤ m2
  · exact roundEven_ge m2 _ hc
  · -- m1 ≤ m2 < roundEven m1: both lie in the same unit cell and m1 rounds up
    have hlt : m2 < ((roundEven m1 : Int) : ℚ) := not_le.mp hc
    have hf1 : (m1.floor : ℚ) ≤ m1 := Rat.floor_le m1
    have hf2 : (m2.floor : ℚ) ≤ m2 := Rat.floor_le m2
    have hfm : m1.floor ≤ m2.floor := Rat.floor_monotone h
    have hlt1 : m1 < (m1.floor : ℚ) + 1 := by have := Rat.lt_floor_add_one m1; push_cast at this; exact this
    have hlt2 : m2 < (m2.floor : ℚ) + 1 := by have := Rat.lt_floor_add_one m2; push_cast at this; exact this
    -- roundEven m1 ∈ {floor, floor+1}
    have hr1 : roundEven m1 = m1.floor ∨ roundEven m1 = m1.floor + 1 := by
      unfold roundEven; dsimp only; split
      · left; rfl
      · split
        · right; rfl
        · split
          · left; rfl
          · right; rfl
    have hup : roundEven m1 = m1.floor + 1 := by
      rcases hr1 with h0 | h0
      · exfalso; rw [h0] at hlt; linarith
      · exact h0
    have hfeq : m2.floor = m1.floor := by
      have : (m2.floor : ℚ) < (m1.floor : ℚ) + 1 := by
        rw [hup] at hlt; push_cast at hlt; linarith
      have : m2.floor < m1.floor + 1 := by exact_mod_cast this
      omega
    -- now compare the fractional parts
    rw [hup]
    unfold roundEven at hup ⊢
    dsimp only at hup ⊢
    rw [hfeq]
    have hr : m1 - (m1.floor : ℚ) ≤ m2 - (m1.floor : ℚ) := by linarith
    split at hup
    · omega
    · split at hup
      · rename_i _ h12
        have : ¬ (m2 - (m1.floor : ℚ) < 1 / 2) := by intro hh; linarith
        rw [if_neg this, if_pos (by linarith)]
      · split at hup
        · omega
        · rename_i h1 h2 h3
          have he : m1 - (m1.floor : ℚ) = 1 / 2 := by
            have := not_lt.mp h1; have := not_lt.mp h2; linarith
          by_cases hh : m2 - (m1.floor : ℚ) < 1 / 2
          · exfalso; linarith
          · rw [if_neg hh]
            by_cases hh2 : 1 / 2 < m2 - (m1.floor : ℚ)
            · rw [if_pos hh2]
            · rw [if_neg hh2, if_neg h3]

/-- ★ binary64 rounding is monotone on the non-negative rationals. -/
theorem rne_mono (a b : ℚ) (ha : 0 ≤ a) (hab : a ≤ b) : rne a ≤ rne b := by
  rcases eq_or_lt_of_le ha with h0 | hpos
  · -- a = 0
    subst h0
    rw [rne_zero]
    rcases eq_or_lt_of_le hab with hb0 | hbpos
    · rw [← hb0, rne_zero]
    · have hs := rne_sandwich b (ulpExp b) 0 hbpos.le (lt_pow2_ulpExp b hbpos) (ulpExp_ge b)
      simpa using hs.1 (by simpa using hbpos.le)
  · have hbpos : 0 < b := lt_of_lt_of_le hpos hab
    have hj := ulpExp_mono a b hpos hab
    rcases eq_or_lt_of_le hj with hje | hjlt
    · -- same binade: the same grid, nearest-even is monotone
      rw [rne_pos_eq a hpos, rne_pos_eq b hbpos, ulp_eq_pow2, ulp_eq_pow2, ← hje]
      have hu := pow2_pos (ulpExp a)
      have : a / pow2 (ulpExp a) ≤ b / pow2 (ulpExp a) := by
        apply div_le_div_of_nonneg_right hab hu.le
      have := roundEven_mono _ _ this
      exact mul_le_mul_of_nonneg_right (by exact_mod_cast this) hu.le
    · -- different binades: the power of two 2^(ulpExp a + 53) separates them
      -- rne a ≤ P
      have hP1 : rne a ≤ pow2 (ulpExp a + 53) := by
        have hs := rne_sandwich a (ulpExp a) ((2 : Int) ^ (53 : Nat)) hpos.le (lt_pow2_ulpExp a hpos) (ulpExp_ge a)
        have e : (((2 : Int) ^ (53 : Nat) : Int) : ℚ) * pow2 (ulpExp a) = pow2 (ulpExp a + 53) := by
          rw [add_comm, pow2_add, pow2_53]; norm_num
        rw [e] at hs
        exact hs.2 (lt_pow2_ulpExp a hpos).le
      -- P ≤ b, and P is a point of b's grid, so P ≤ rne b
      have hk : 0 ≤ ulpExp a + 53 - ulpExp b ∨ ulpExp a + 53 < ulpExp b := by omega
      rcases hk with hk | hk
      · have hPb : pow2 (ulpExp a + 53) ≤ b := by
          -- b is at least 2^(its own exponent) ≥ P, unless b is subnormal, where ulpExp b = -1074 is minimal
          by_cases hsub : ilog2 b < -1022
          · exfalso
            have : ulpExp b = -1074 := by unfold ulpExp; rw [if_pos hsub]; norm_num
            have := ulpExp_ge a
            omega
          · have h1 : ulpExp b = ilog2 b - 52 := by unfold ulpExp; rw [if_neg hsub]
            have h2 : ulpExp a + 53 ≤ ilog2 b := by omega
            exact le_trans (pow2_le h2) (ilog2_le b hbpos)
        have hs := rne_sandwich b (ulpExp b) ((2 : Int) ^ ((ulpExp a + 53 - ulpExp b).toNat)) hbpos.le
          (lt_pow2_ulpExp b hbpos) (ulpExp_ge b)
        have e : ((((2 : Int) ^ ((ulpExp a + 53 - ulpExp b).toNat) : Int)) : ℚ) * pow2 (ulpExp b)
            = pow2 (ulpExp a + 53) := by
          have h1 : ulpExp a + 53 = ((ulpExp a + 53 - ulpExp b).toNat : Int) + ulpExp b := by omega
          conv_rhs => rw [h1, pow2_add, pow2_natCast]
          push_cast; rfl
        rw [e] at hs
        exact le_trans hP1 (hs.1 hPb)
      · -- b's grid is coarser than P itself: 2^(ilog2 b) is a grid point of b above P
        have hsub : ¬ ilog2 b < -1022 := by
          intro hsub
          have : ulpExp b = -1074 := by unfold ulpExp; rw [if_pos hsub]; norm_num
          have := ulpExp_ge a
          omega
        have h1 : ulpExp b = ilog2 b - 52 := by unfold ulpExp; rw [if_neg hsub]
        have hs := rne_sandwich b (ulpExp b) ((2 : Int) ^ (52 : Nat)) hbpos.le
          (lt_pow2_ulpExp b hbpos) (ulpExp_ge b)
        have e : ((((2 : Int) ^ (52 : Nat) : Int)) : ℚ) * pow2 (ulpExp b) = pow2 (ilog2 b) := by
          have : ilog2 b = ((52 : Nat) : Int) + ulpExp b := by omega
          conv_rhs => rw [this, pow2_add, pow2_natCast]
          push_cast; rfl
        rw [e] at hs
        have hQ := hs.1 (ilog2_le b hbpos)
        have : ulpExp a + 53 ≤ ilog2 b := by omega
        exact le_trans hP1 (le_trans (pow2_le this) hQ)

/-- rounding a non-negative value gives a non-negative value. -/
theorem rne_nonneg (a : ℚ) (ha : 0 ≤ a) : 0 ≤ rne a := by
  have := rne_mono 0 a le_rfl ha
  rwa [rne_zero] at this

end Interceptor.F64

/-
`fractionLost` (Model/ReceiverReport): the float expression
`uint8(float64(lost*256) / float64(total))` is exactly `⌊256·lost/total⌋` on the range the
receiver report uses it (lost < total ≤ 65535).
-/
import Interceptor.Model.ReceiverReport
import Mathlib.Algebra.Order.Floor.Ring
import Mathlib.Data.Rat.Floor
import Mathlib.Tactic.Linarith
import Mathlib.Tactic.Positivity
import Mathlib.Tactic.FieldSimp
import Mathlib.Tactic.NormNum
import Mathlib.Tactic.Ring
set_option linter.unusedVariables false
namespace Interceptor.ReceiverReport
open Interceptor Interceptor.F64

/-! ### `ilog2` / `ulp`: a crude upper bound is all that is needed -/

theorem ilog2_le_succ (a : Rat) :
    ilog2 a ≤ ((Nat.log2 a.num.toNat : Int) - (Nat.log2 a.den : Int)) + 1 := by
  unfold ilog2
  simp only
  split
  · omega
  · split <;> omega

theorem log2_diff_le (a : Rat) (k : Nat) (ha : 0 < a) (hk : a < (2 : Rat) ^ k) :
    (Nat.log2 a.num.toNat : Int) - (Nat.log2 a.den : Int) ≤ k := by
  have hnum : 0 < a.num := Rat.num_pos.mpr ha
  have hden : 0 < a.den := a.den_pos
  have h1 : a.num.toNat < 2 ^ k * a.den := by
    have h : (a.num : Rat) / (a.den : Rat) < (2 : Rat) ^ k := by
      rw [Rat.num_div_den]; exact hk
    have hd : (0 : Rat) < a.den := by exact_mod_cast hden
    rw [div_lt_iff₀ hd] at h
    have h2 : ((a.num.toNat : Nat) : Int) = a.num := Int.toNat_of_nonneg hnum.le
    rw [← h2] at h
    exact_mod_cast h
  have h3 : a.den < 2 ^ (Nat.log2 a.den + 1) := Nat.lt_log2_self
  have h4 : a.num.toNat < 2 ^ (k + Nat.log2 a.den + 1) := by
    calc a.num.toNat < 2 ^ k * a.den := h1
      _ < 2 ^ k * 2 ^ (Nat.log2 a.den + 1) :=
          Nat.mul_lt_mul_of_pos_left h3 (Nat.pow_pos (by decide))
      _ = 2 ^ (k + Nat.log2 a.den + 1) := by rw [← Nat.pow_add, Nat.add_assoc]
  have hne : a.num.toNat ≠ 0 := by omega
  have := (Nat.log2_lt hne).mpr h4
  omega

theorem ilog2_le (a : Rat) (k : Nat) (ha : 0 < a) (hk : a < (2 : Rat) ^ k) :
    ilog2 a ≤ k + 1 := by
  have := ilog2_le_succ a
  have := log2_diff_le a k ha hk
  omega

/-- below 2^24 the unit in the last place is `2^-n` with `n ≥ 27`. -/
theorem ulp_small (a : Rat) (ha : 0 < a) (hk : a < (2 : Rat) ^ 24) :
    ∃ n : Nat, 27 ≤ n ∧ ulp a = 1 / (2 : Rat) ^ n := by
  have h := ilog2_le a 24 ha hk
  unfold ulp
  simp only
  generalize ilog2 a = e at h
  refine ⟨(-((if e < -1022 then -1022 else e) - 52)).toNat, ?_, ?_⟩
  · split <;> omega
  · unfold pow2
    rw [if_neg]
    split <;> omega

/-! ### `roundEven` -/

theorem floor_le_roundEven (m : Rat) : m.floor ≤ roundEven m := by
  unfold roundEven
  simp only
  split
  · omega
  · split
    · omega
    · split <;> omega

theorem roundEven_le_floor_succ (m : Rat) : roundEven m ≤ m.floor + 1 := by
  unfold roundEven
  simp only
  split
  · omega
  · split
    · omega
    · split <;> omega

theorem roundEven_intCast (z : Int) : roundEven (z : Rat) = z := by
  unfold roundEven
  simp only [Rat.floor_intCast, sub_self]
  rw [if_pos (by norm_num)]

theorem le_roundEven (m : Rat) (z : Int) (h : (z : Rat) ≤ m) : z ≤ roundEven m := by
  have h1 : z ≤ ⌊m⌋ := Int.le_floor.mpr h
  have h2 := floor_le_roundEven m
  have h3 : ⌊m⌋ = m.floor := rfl
  omega

theorem roundEven_lt (m : Rat) (z : Int) (h : m + 1 < (z : Rat)) : roundEven m < z := by
  have h1 : ((⌊m⌋ : Int) : Rat) ≤ m := Int.floor_le m
  have h2 := roundEven_le_floor_succ m
  have h3 : ⌊m⌋ = m.floor := rfl
  have h4 : ((⌊m⌋ + 1 : Int) : Rat) < (z : Rat) := by push_cast; linarith
  have h5 : ⌊m⌋ + 1 < z := by exact_mod_cast h4
  omega

/-! ### `rne` -/

theorem rne_pos (q : Rat) (hq : 0 < q) : rne q = (roundEven (q / ulp q) : Rat) * ulp q := by
  unfold rne
  rw [if_neg (ne_of_gt hq)]
  simp only [if_neg (not_lt.mpr hq.le)]

/-- small non-negative integers are binary64 values. -/
theorem rne_natCast_small (n : Nat) (h : n < 2 ^ 24) : rne (n : Rat) = n := by
  rcases Nat.eq_zero_or_pos n with h0 | h0
  · subst h0; simp [rne]
  · have hq : (0 : Rat) < n := by exact_mod_cast h0
    have hlt : (n : Rat) < (2 : Rat) ^ 24 := by exact_mod_cast h
    obtain ⟨k, _, hu⟩ := ulp_small n hq hlt
    rw [rne_pos _ hq, hu]
    have hp : (0 : Rat) < (2 : Rat) ^ k := by positivity
    have e1 : (n : Rat) / (1 / (2 : Rat) ^ k) = (((n * 2 ^ k : Nat) : Int) : Rat) := by
      push_cast; field_simp
    rw [e1, roundEven_intCast]
    push_cast; field_simp

theorem ofInt_natCast_small (n : Nat) (h : n < 2 ^ 24) : ofInt (n : Int) = n := by
  unfold ofInt
  rw [Int.cast_natCast]
  exact rne_natCast_small n h

/-! ### the quotient -/

/-- the rounded quotient stays inside `[N, N+1)`, `N = ⌊256·l/e⌋`. -/
theorem rne_div_bracket (l e : Nat) (hl0 : 0 < l) (hl : l < e) (he : e ≤ 65535) :
    ((l * 256 / e : Nat) : Rat) ≤ rne ((l * 256 : Nat) / (e : Nat)) ∧
    rne ((l * 256 : Nat) / (e : Nat)) < ((l * 256 / e : Nat) : Rat) + 1 := by
  have he0 : 0 < e := by omega
  have heq : (0 : Rat) < e := by exact_mod_cast he0
  set N := l * 256 / e with hN
  -- l*256 = N*e + r, r < e
  have hdm : e * N + l * 256 % e = l * 256 := Nat.div_add_mod (l * 256) e
  have hr : l * 256 % e < e := Nat.mod_lt _ he0
  set r := l * 256 % e with hrdef
  set q : Rat := ((l * 256 : Nat) : Rat) / (e : Nat) with hqdef
  have hdmq : ((l * 256 : Nat) : Rat) = e * N + r := by exact_mod_cast hdm.symm
  have hq0 : 0 < q := by
    apply div_pos _ heq
    exact_mod_cast Nat.mul_pos hl0 (by decide)
  have hqN : (N : Rat) ≤ q := by
    rw [hqdef, le_div_iff₀ heq, hdmq]
    have : (0 : Rat) ≤ r := by positivity
    linarith
  have hqN1 : q * e + 1 ≤ (N + 1) * e := by
    rw [hqdef, div_mul_cancel₀ _ (ne_of_gt heq), hdmq]
    have : (r : Rat) + 1 ≤ e := by exact_mod_cast hr
    linarith
  have hq256 : q < (2 : Rat) ^ 24 := by
    rw [hqdef, div_lt_iff₀ heq]
    have : l * 256 < 2 ^ 24 * e := by omega
    exact_mod_cast this
  obtain ⟨n, hn, hu⟩ := ulp_small q hq0 hq256
  rw [rne_pos q hq0, hu]
  have hp : (0 : Rat) < (2 : Rat) ^ n := by positivity
  have hm : q / (1 / (2 : Rat) ^ n) = q * 2 ^ n := by field_simp
  rw [hm]
  -- 2^n > e
  have hbig : (e : Rat) < (2 : Rat) ^ n := by
    have h1 : (2 : Rat) ^ 27 ≤ (2 : Rat) ^ n := pow_le_pow_right₀ (by norm_num) hn
    have h2 : (e : Rat) ≤ 65535 := by exact_mod_cast he
    have h3 : (65535 : Rat) < (2 : Rat) ^ 27 := by norm_num
    linarith
  have hlo : ((N * 2 ^ n : Nat) : Int) ≤ roundEven (q * 2 ^ n) := by
    apply le_roundEven
    push_cast
    exact mul_le_mul_of_nonneg_right hqN hp.le
  have hhi : roundEven (q * 2 ^ n) < (((N + 1) * 2 ^ n : Nat) : Int) := by
    apply roundEven_lt
    push_cast
    -- q*2^n + 1 < (N+1)*2^n ; multiply by e
    have h1 : (q * e + 1) * 2 ^ n ≤ (N + 1) * e * 2 ^ n :=
      mul_le_mul_of_nonneg_right hqN1 hp.le
    have h2 : (q * 2 ^ n + 1) * e < ((N : Rat) + 1) * 2 ^ n * e := by nlinarith
    exact lt_of_mul_lt_mul_right h2 heq.le
  have hloq : (((N * 2 ^ n : Nat) : Int) : Rat) ≤ (roundEven (q * 2 ^ n) : Rat) := by
    exact_mod_cast hlo
  have hhiq : (roundEven (q * 2 ^ n) : Rat) < ((((N + 1) * 2 ^ n : Nat) : Int) : Rat) := by
    exact_mod_cast hhi
  push_cast at hloq hhiq
  rw [mul_one_div]
  constructor
  · rw [le_div_iff₀ hp]; exact hloq
  · rw [div_lt_iff₀ hp]; exact hhiq

/-! ### the conversion -/

theorem toUint8_of_bracket (x : Rat) (N : Nat) (hN : N < 256)
    (h1 : (N : Rat) ≤ x) (h2 : x < (N : Rat) + 1) : toUint8 x = N := by
  have hx0 : ¬ x < 0 := by
    have : (0 : Rat) ≤ N := by positivity
    intro h; linarith
  have hf : x.floor = (N : Int) := by
    show ⌊x⌋ = (N : Int)
    rw [Int.floor_eq_iff]
    constructor
    · exact_mod_cast h1
    · exact_mod_cast h2
  unfold toUint8 toInt64 trunc
  simp only [if_neg hx0, hf]
  rw [if_neg (by omega)]
  omega

theorem fractionLost_eq_floor (l e : Nat) (hl : l < e) (he : e ≤ 65535) :
    fractionLost l e = l * 256 / e := by
  have he0 : e ≠ 0 := by omega
  have hlm : l * 256 % M32 = l * 256 := Nat.mod_eq_of_lt (by simp only [M32]; omega)
  unfold fractionLost
  rw [if_neg he0, hlm, ofInt_natCast_small (l * 256) (by omega),
    ofInt_natCast_small e (by omega)]
  unfold F64.div
  have hN : l * 256 / e < 256 := by
    rw [Nat.div_lt_iff_lt_mul (by omega)]; omega
  rcases Nat.eq_zero_or_pos l with h0 | h0
  · subst h0
    have hz : rne (((0 * 256 : Nat) : Rat) / (e : Nat)) = 0 := by simp [rne]
    rw [hz]
    exact toUint8_of_bracket 0 _ hN (by simp) (by simp)
  · obtain ⟨h1, h2⟩ := rne_div_bracket l e h0 hl he
    exact toUint8_of_bracket _ _ hN h1 h2

end Interceptor.ReceiverReport

/-
C03, generator level: the streams of one interceptor do not influence each other.
-/
import Interceptor.Model.ReceiveLog
set_option linter.unusedVariables false
namespace Interceptor.ReceiveLog
open Interceptor

/-- operations on the interceptor (the configuration is fixed at construction). -/
inductive GOp where
  | bind (a : Nat)          -- BindRemoteStream of a stream with NACK feedback
  | unbind (a : Nat)
  | rtp (a q : Nat)         -- a packet read successfully on the stream's reader
  | tick
  deriving Repr, DecidableEq

/-- does the operation concern SSRC `a`?  (a tick concerns every stream) -/
def GOp.concerns (a : Nat) : GOp → Bool
  | .bind b => b == a
  | .unbind b => b == a
  | .rtp b _ => b == a
  | .tick => true

def gstep (g : Gen) : GOp → Gen × List (Nat × List Nat)
  | .bind a => (bind g a, [])
  | .unbind a => (unbind g a, [])
  | .rtp a q => (rtp g a q, [])
  | .tick => tick g

/-- the NACKs written at each tick of a run. -/
def grun (g : Gen) : List GOp → List (List (Nat × List Nat))
  | [] => []
  | .tick :: ops => (tick g).2 :: grun (tick g).1 ops
  | op :: ops => grun (gstep g op).1 ops

/-- the part of a tick's output / of the state that belongs to SSRC `a`. -/
def only {β : Type} (a : Nat) (xs : List (Nat × β)) : List (Nat × β) := xs.filter (·.1 == a)

def restrict (g : Gen) (a : Nat) : Gen := { g with streams := only a g.streams }

theorem only_only {β : Type} (a : Nat) (xs : List (Nat × β)) : only a (only a xs) = only a xs := by
  simp [only, List.filter_filter]

theorem only_erase_same (a : Nat) (xs : List (Nat × Stream)) : only a (erase xs a) = [] := by
  simp only [only, erase, List.filter_filter, List.filter_eq_nil_iff]
  intro p _; simp

theorem only_erase_other (a b : Nat) (h : (b == a) = false) (xs : List (Nat × Stream)) :
    only a (erase xs b) = only a xs := by
  simp only [only, erase, List.filter_filter]
  apply List.filter_congr
  intro p _
  have hb : b ≠ a := by simpa using h
  by_cases hp : p.1 = a
  · have : p.1 ≠ b := fun e => hb (e ▸ hp)
    simp [hp, this]
    intro e; exact hb (e ▸ rfl)
  · simp [hp]

theorem lookup_only (g : Gen) (a : Nat) : lookup (restrict g a) a = lookup g a := by
  unfold lookup restrict only
  simp only [List.find?_filter]
  congr 2
  funext x
  by_cases h : x.1 = a <;> simp [h]

theorem only_map_key {β γ : Type} (a : Nat) (f : Nat × β → Nat × γ) (hf : ∀ p, (f p).1 = p.1) (xs : List (Nat × β)) :
    only a (xs.map f) = (only a xs).map f := by
  simp only [only, List.filter_map]
  congr 1
  apply List.filter_congr
  intro p _
  simp [hf]

theorem only_filterMap_key {β γ : Type} (a : Nat) (f : Nat × β → Option (Nat × γ))
    (hf : ∀ p r, f p = some r → r.1 = p.1) (xs : List (Nat × β)) :
    only a (xs.filterMap f) = (only a xs).filterMap f := by
  induction xs with
  | nil => rfl
  | cons p ps ih =>
    simp only [List.filterMap_cons, only, List.filter_cons] at ih ⊢
    cases hfp : f p with
    | none =>
      by_cases hp : (p.1 == a) = true
      · simp [hp, hfp, ih]
      · simp [hp, ih]
    | some r =>
      have hr := hf p r hfp
      by_cases hp : (p.1 == a) = true
      · have : (r.1 == a) = true := by rw [hr]; exact hp
        simp [hp, hfp, this, ih]
      · have : ¬ (r.1 == a) = true := by rw [hr]; exact hp
        simp [hp, this, ih]

/-- one step: the `a`-part of the new state and of the output depends only on the `a`-part of the state. -/
theorem gstep_concerns (g1 g2 : Gen) (a : Nat) (hc : g1.cfg = g2.cfg) (hs : only a g1.streams = only a g2.streams)
    (op : GOp) (hop : op.concerns a = true) :
    (gstep g1 op).1.cfg = (gstep g2 op).1.cfg ∧
    only a (gstep g1 op).1.streams = only a (gstep g2 op).1.streams ∧
    only a (gstep g1 op).2 = only a (gstep g2 op).2 := by
  have hl : lookup g1 a = lookup g2 a := by
    rw [← lookup_only g1 a, ← lookup_only g2 a]; simp [lookup, restrict, hs]
  cases op with
  | bind b =>
    have hb : b = a := by simpa [GOp.concerns] using hop
    subst hb
    refine ⟨hc, ?_, rfl⟩
    simp only [gstep, bind, hl, hc]
    simp only [only, List.filter_cons]
    have e1 := only_erase_same b g1.streams
    have e2 := only_erase_same b g2.streams
    simp only [only] at e1 e2
    simp [e1, e2]
  | unbind b =>
    have hb : b = a := by simpa [GOp.concerns] using hop
    subst hb
    refine ⟨hc, ?_, rfl⟩
    simp only [gstep, unbind, only_erase_same]
  | rtp b q =>
    have hb : b = a := by simpa [GOp.concerns] using hop
    subst hb
    refine ⟨hc, ?_, rfl⟩
    simp only [gstep, rtp]
    rw [only_map_key, only_map_key, hs]
    · intro p; split <;> rfl
    · intro p; split <;> rfl
  | tick =>
    have k1 : ∀ (g : Gen), only a (g.streams.map fun p => (p.1, tickStream g.cfg p.2)) =
        (only a g.streams).map fun p => (p.1, tickStream g.cfg p.2) :=
      fun g => only_map_key a (fun p : Nat × Stream => (p.1, tickStream g.cfg p.2)) (fun _ => rfl) g.streams
    have k2 : ∀ (xs : List (Nat × (Stream × Option (List Nat)))),
        only a (xs.map fun p => (p.1, p.2.1)) = (only a xs).map fun p => (p.1, p.2.1) :=
      fun xs => only_map_key a (fun p : Nat × (Stream × Option (List Nat)) => (p.1, p.2.1)) (fun _ => rfl) xs
    refine ⟨hc, ?_, ?_⟩
    · simp only [gstep, tick]
      rw [k2, k2, k1, k1, hs, hc]
    · simp only [gstep, tick]
      rw [only_filterMap_key, only_filterMap_key, k1, k1, hs, hc]
      · intro p r h
        cases h2 : p.2.2 with
        | none => simp [h2] at h
        | some l => simp [h2] at h; rw [← h]
      · intro p r h
        cases h2 : p.2.2 with
        | none => simp [h2] at h
        | some l => simp [h2] at h; rw [← h]

/-- an operation on another SSRC leaves the `a`-part untouched. -/
theorem gstep_other (g : Gen) (a : Nat) (op : GOp) (hop : op.concerns a = false) :
    (gstep g op).1.cfg = g.cfg ∧ only a (gstep g op).1.streams = only a g.streams := by
  cases op with
  | bind b =>
    have hb : (b == a) = false := by simpa [GOp.concerns] using hop
    refine ⟨rfl, ?_⟩
    simp only [gstep, bind]
    have := only_erase_other a b hb g.streams
    simp only [only, List.filter_cons, hb] at this ⊢
    simpa using this
  | unbind b =>
    have hb : (b == a) = false := by simpa [GOp.concerns] using hop
    exact ⟨rfl, only_erase_other a b hb g.streams⟩
  | rtp b q =>
    have hb : (b == a) = false := by simpa [GOp.concerns] using hop
    refine ⟨rfl, ?_⟩
    simp only [gstep, rtp]
    rw [only_map_key]
    · conv => rhs; rw [← List.map_id (only a g.streams)]
      apply List.map_congr_left
      intro p hp
      have hpa : p.1 = a := by simpa [only] using (List.mem_filter.mp hp).2
      have : (p.1 == b) = false := by
        have hb' : b ≠ a := by simpa using hb
        simp [hpa]; exact fun e => hb' e.symm
      simp [this]
    · intro p; split <;> rfl
  | tick => simp [GOp.concerns] at hop

end Interceptor.ReceiveLog

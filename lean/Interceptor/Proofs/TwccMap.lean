/-
C05 helper lemmas about the arrival-time map: capacity and window bounds (the structural half of
`map_refines`; the content half — `get` after `addPacket` — is not proved, see Props/C05.lean).
-/
import Interceptor.Model.Twcc
namespace Interceptor.Twcc.ArrivalMap

theorem reallocLoop_size (m : ArrivalMap) (nc n : Nat) (sn : Int) (nb : Array Int) :
    (reallocLoop m nc n sn nb).size = nb.size := by
  induction n generalizing sn nb with
  | zero => rfl
  | succ n ih => simp [reallocLoop, ih]

theorem setNRLoop_size (c n : Nat) (sn : Int) (b : Array Int) : (setNRLoop c n sn b).size = b.size := by
  induction n generalizing sn b with
  | zero => rfl
  | succ n ih => simp [setNRLoop, ih]

theorem reallocate_cap (m : ArrivalMap) (nc : Nat) :
    (m.reallocate nc).cap = nc ∧ (m.reallocate nc).beginSN = m.beginSN ∧ (m.reallocate nc).endSN = m.endSN := by
  simp [reallocate, cap, reallocLoop_size]

theorem set_fields (m : ArrivalMap) (sn t : Int) :
    (m.set sn t).cap = m.cap ∧ (m.set sn t).beginSN = m.beginSN ∧ (m.set sn t).endSN = m.endSN := by
  simp [set, cap]

theorem setNotReceived_fields (m : ArrivalMap) (s e : Int) :
    (m.setNotReceived s e).cap = m.cap ∧ (m.setNotReceived s e).beginSN = m.beginSN ∧
    (m.setNotReceived s e).endSN = m.endSN := by
  simp [setNotReceived, cap, setNRLoop_size]

/-- doubling loop: the result is a power of two, at least `n`, and less than `2n` if it grew. -/
theorem growCap_spec (fuel k : Nat) (n : Int) (hn : n ≤ ((2 ^ (k + fuel) : Nat) : Int)) :
    ∃ k', k ≤ k' ∧ growCap fuel (2 ^ k) n = 2 ^ k' ∧ n ≤ ((2 ^ k' : Nat) : Int) ∧
      (k' = k ∨ ((2 ^ k' : Nat) : Int) < 2 * n) := by
  induction fuel generalizing k with
  | zero => exact ⟨k, Nat.le_refl _, rfl, by simpa using hn, Or.inl rfl⟩
  | succ fuel ih =>
    unfold growCap
    by_cases hlt : ((2 ^ k : Nat) : Int) < n
    · simp only [hlt, if_true]
      have e : 2 ^ k * 2 = 2 ^ (k + 1) := by rw [Nat.pow_succ]
      rw [e]
      obtain ⟨k', h1, h2, h3, h4⟩ := ih (k + 1) (by rw [show k + 1 + fuel = k + (fuel + 1) by omega]; exact hn)
      refine ⟨k', by omega, h2, h3, Or.inr ?_⟩
      rcases h4 with h4 | h4
      · rw [h4, ← e]; push_cast at hlt ⊢; omega
      · exact h4
    · simp only [hlt, if_false]
      exact ⟨k, Nat.le_refl _, rfl, Int.not_lt.mp hlt, Or.inl rfl⟩

/-- halving loop: stays a power of two and never drops below `max n 128`. -/
theorem shrinkCap_spec (fuel k : Nat) (n : Int) (hge : max n 128 ≤ ((2 ^ k : Nat) : Int)) :
    ∃ k', k' ≤ k ∧ shrinkCap fuel (2 ^ k) n = 2 ^ k' ∧ max n 128 ≤ ((2 ^ k' : Nat) : Int) := by
  induction fuel generalizing k with
  | zero => exact ⟨k, Nat.le_refl _, rfl, hge⟩
  | succ fuel ih =>
    unfold shrinkCap minCapacity
    by_cases hc : ((2 ^ k : Nat) : Int) ≥ 2 * max n ((128 : Nat) : Int)
    · simp only [hc, if_true]
      cases k with
      | zero => simp at hc; omega
      | succ k =>
        have e : 2 ^ (k + 1) / 2 = 2 ^ k := by rw [Nat.pow_succ]; omega
        rw [e]
        have e2 : ((2 ^ (k + 1) : Nat) : Int) = 2 * ((2 ^ k : Nat) : Int) := by rw [Nat.pow_succ]; push_cast; omega
        obtain ⟨k', h1, h2, h3⟩ := ih k (by rw [e2] at hc; omega)
        exact ⟨k', by omega, h2, h3⟩
    · simp only [hc, if_false]
      exact ⟨k, Nat.le_refl _, rfl, hge⟩


/-! ### reading and writing the circular buffer -/

/-- raw slot read (no window check). -/
def rd (buf : Array Int) (c : Nat) (x : Int) : Int := buf.getD (slot c x) 0

theorem get_def (m : ArrivalMap) (x : Int) :
    m.get x = if x < m.beginSN ∨ x ≥ m.endSN then -1 else rd m.buf m.cap x := rfl

theorem slot_lt (c : Nat) (hc : 0 < c) (x : Int) : slot c x < c := by
  unfold slot
  have h1 := Int.emod_nonneg x (b := (c : Int)) (by omega)
  have h2 := Int.emod_lt_of_pos x (b := (c : Int)) (by omega)
  omega

/-- numbers less than `c` apart occupy different slots. -/
theorem slot_inj (c : Nat) (hc : 0 < c) (x y : Int) (h1 : x - y < c) (h2 : y - x < c)
    (h : slot c x = slot c y) : x = y := by
  unfold slot at h
  have hx := Int.emod_nonneg x (b := (c : Int)) (by omega)
  have hy := Int.emod_nonneg y (b := (c : Int)) (by omega)
  have hm : x % (c : Int) = y % (c : Int) := by omega
  have hd : (c : Int) ∣ (x - y) :=
    Int.dvd_of_emod_eq_zero ((Int.emod_eq_emod_iff_emod_sub_eq_zero).mp hm)
  obtain ⟨q, hq⟩ := hd
  have : q = 0 := by
    rcases Int.lt_trichotomy q 0 with h | h | h
    · have : (c : Int) * q ≤ (c : Int) * (-1) := Int.mul_le_mul_of_nonneg_left (by omega) (by omega)
      omega
    · exact h
    · have : (c : Int) * 1 ≤ (c : Int) * q := Int.mul_le_mul_of_nonneg_left (by omega) (by omega)
      omega
  subst this
  omega

theorem rd_set (buf : Array Int) (c : Nat) (hs : buf.size = c) (hc : 0 < c) (y v x : Int) :
    rd (buf.setIfInBounds (slot c y) v) c x = if slot c x = slot c y then v else rd buf c x := by
  unfold rd
  have hy := slot_lt c hc y
  simp only [Array.getD_eq_getD_getElem?, Array.getElem?_setIfInBounds, hs, hy, if_true]
  by_cases h : slot c y = slot c x
  · simp [h]
  · have h' : ¬ slot c x = slot c y := fun e => h e.symm
    simp [h, h']

/-- generic "write `f` over `[s, s+n)`" loop; both loops of the map are instances. -/
def writeLoop (c : Nat) (f : Int → Int) : Nat → Int → Array Int → Array Int
  | 0, _, b => b
  | n + 1, s, b => writeLoop c f n (s + 1) (b.setIfInBounds (slot c s) (f s))

theorem reallocLoop_eq (m : ArrivalMap) (nc n : Nat) (sn : Int) (nb : Array Int) :
    reallocLoop m nc n sn nb = writeLoop nc m.get n sn nb := by
  induction n generalizing sn nb with
  | zero => rfl
  | succ n ih => simp [reallocLoop, writeLoop, ih]

theorem setNRLoop_eq (c n : Nat) (sn : Int) (b : Array Int) :
    setNRLoop c n sn b = writeLoop c (fun _ => -1) n sn b := by
  induction n generalizing sn b with
  | zero => rfl
  | succ n ih => simp [setNRLoop, writeLoop, ih]

theorem writeLoop_size (c : Nat) (f : Int → Int) (n : Nat) (s : Int) (b : Array Int) :
    (writeLoop c f n s b).size = b.size := by
  induction n generalizing s b with
  | zero => rfl
  | succ n ih => simp [writeLoop, ih]

/-- after the loop: inside `[s, s+n)` the buffer holds `f`; a slot none of them maps to is untouched. -/
theorem writeLoop_spec (c : Nat) (f : Int → Int) (hc : 0 < c) (n : Nat) (s : Int) (b : Array Int)
    (hs : b.size = c) (hn : n ≤ c) (x : Int) :
    (s ≤ x ∧ x < s + n → rd (writeLoop c f n s b) c x = f x) ∧
    ((∀ y, s ≤ y ∧ y < s + n → slot c y ≠ slot c x) → rd (writeLoop c f n s b) c x = rd b c x) := by
  induction n generalizing s b with
  | zero =>
    constructor
    · intro h; omega
    · intro _; rfl
  | succ n ih =>
    have hs' : (b.setIfInBounds (slot c s) (f s)).size = c := by simp [hs]
    obtain ⟨i1, i2⟩ := ih (s + 1) (b.setIfInBounds (slot c s) (f s)) hs' (by omega)
    simp only [writeLoop]
    constructor
    · intro hx
      by_cases hxs : x = s
      · subst hxs
        rw [i2 (fun y hy e => by
          have := slot_inj c hc y x (by omega) (by omega) e
          omega)]
        rw [rd_set _ _ hs hc]; simp
      · exact i1 (by omega)
    · intro hd
      rw [i2 (fun y hy => hd y (by omega))]
      rw [rd_set _ _ hs hc]
      have := hd s (by omega)
      have hne : ¬ slot c x = slot c s := fun e => this e.symm
      simp only [hne, if_false]


/-! ### the map invariant and `get` across resizing -/

/-- capacity is a power of two in [128, 65536]. -/
def CapOK (m : ArrivalMap) : Prop := ∃ k, 7 ≤ k ∧ k ≤ 16 ∧ m.cap = 2 ^ k

structure WF (m : ArrivalMap) : Prop where
  pow : CapOK m
  order : m.beginSN ≤ m.endSN
  window : m.endSN - m.beginSN ≤ 32768
  fits : m.endSN - m.beginSN ≤ (m.cap : Int)

theorem CapOK.pos {m : ArrivalMap} (h : CapOK m) : 0 < m.cap := by
  obtain ⟨k, _, _, e⟩ := h
  rw [e]; exact Nat.two_pow_pos k

theorem CapOK.ge {m : ArrivalMap} (h : CapOK m) : 128 ≤ m.cap := by
  obtain ⟨k, h7, _, e⟩ := h
  rw [e]
  exact Nat.pow_le_pow_right (n := 2) (by decide) h7

theorem CapOK.le {m : ArrivalMap} (h : CapOK m) : m.cap ≤ 65536 := by
  obtain ⟨k, _, h16, e⟩ := h
  rw [e]
  exact Nat.pow_le_pow_right (n := 2) (by decide) h16

theorem reallocate_get (m : ArrivalMap) (nc : Nat) (hnc : 0 < nc) (hord : m.beginSN ≤ m.endSN)
    (hfit : m.endSN - m.beginSN ≤ (nc : Int)) (x : Int) : (m.reallocate nc).get x = m.get x := by
  obtain ⟨c1, c2, c3⟩ := reallocate_cap m nc
  rw [get_def, c1, c2, c3]
  by_cases hx : x < m.beginSN ∨ x ≥ m.endSN
  · simp [hx, get_def]
  · simp only [hx, if_false]
    simp only [reallocate, reallocLoop_eq]
    have := (writeLoop_spec nc m.get hnc (m.endSN - m.beginSN).toNat m.beginSN (Array.replicate nc 0)
      (by simp) (by omega) x).1 (by omega)
    exact this

theorem adjustToSize_spec (m : ArrivalMap) (hp : CapOK m) (hord : m.beginSN ≤ m.endSN)
    (hfit : m.endSN - m.beginSN ≤ (m.cap : Int)) (n : Int) (h1 : m.endSN - m.beginSN ≤ n) (h2 : n ≤ 32768) :
    CapOK (m.adjustToSize n) ∧ n ≤ ((m.adjustToSize n).cap : Int) ∧
    (m.adjustToSize n).beginSN = m.beginSN ∧ (m.adjustToSize n).endSN = m.endSN ∧
    ∀ x, (m.adjustToSize n).get x = m.get x := by
  -- step 1: grow
  have step1 : ∃ m1 : ArrivalMap, m1 = (if n > (m.cap : Int) then m.reallocate (growCap 64 m.cap n) else m) ∧
      CapOK m1 ∧ n ≤ (m1.cap : Int) ∧ m1.beginSN = m.beginSN ∧ m1.endSN = m.endSN ∧ ∀ x, m1.get x = m.get x := by
    refine ⟨_, rfl, ?_⟩
    by_cases hg : n > (m.cap : Int)
    · simp only [hg, if_true]
      obtain ⟨k, k7, k16, ke⟩ := hp
      have hn64 : n ≤ ((2 ^ (k + 64) : Nat) : Int) := by
        have : 2 ^ 15 ≤ 2 ^ (k + 64) := Nat.pow_le_pow_right (by decide) (by omega)
        have e : (2 : Nat) ^ 15 = 32768 := by decide
        omega
      obtain ⟨k', a1, a2, a3, a4⟩ := growCap_spec 64 k n hn64
      rw [ke, a2]
      have hk' : k' ≤ 16 := by
        rcases a4 with a4 | a4
        · omega
        · have : 2 ^ k' < 2 ^ 16 := by
            have e : (2 : Nat) ^ 16 = 65536 := by decide
            omega
          exact Nat.le_of_lt ((Nat.pow_lt_pow_iff_right (by decide)).mp this)
      have hpos : 0 < 2 ^ k' := Nat.two_pow_pos k'
      obtain ⟨c1, c2, c3⟩ := reallocate_cap m (2 ^ k')
      refine ⟨⟨k', by omega, hk', c1⟩, by rw [c1]; exact a3, c2, c3, ?_⟩
      intro x
      exact reallocate_get m (2 ^ k') hpos hord (by omega) x
    · simp only [hg, if_false]
      exact ⟨hp, by omega, trivial, trivial, fun _ => trivial⟩
  obtain ⟨m1, e1, p1, n1, b1, e1', g1⟩ := step1
  unfold adjustToSize
  simp only []
  rw [← e1]
  by_cases hsh : (m1.cap : Int) > max (minCapacity : Int) (n * 4)
  · simp only [hsh, if_true]
    obtain ⟨k, k7, k16, ke⟩ := p1
    have h128 : (2 : Nat) ^ 7 ≤ 2 ^ k := Nat.pow_le_pow_right (by decide) k7
    have e7 : (2 : Nat) ^ 7 = 128 := by decide
    obtain ⟨k', a1, a2, a3⟩ := shrinkCap_spec 64 k n (by rw [← ke]; omega)
    rw [ke, a2]
    have hk7 : 7 ≤ k' := by
      have : (2 : Nat) ^ 7 ≤ 2 ^ k' := by omega
      exact (Nat.pow_le_pow_iff_right (by decide)).mp this
    have hpos : 0 < 2 ^ k' := Nat.two_pow_pos k'
    obtain ⟨c1, c2, c3⟩ := reallocate_cap m1 (2 ^ k')
    refine ⟨⟨k', hk7, by omega, c1⟩, by rw [c1]; omega, by rw [c2, b1], by rw [c3, e1'], ?_⟩
    intro x
    rw [reallocate_get m1 (2 ^ k') hpos (by omega) (by omega) x, g1]
  · simp only [hsh, if_false]
    exact ⟨p1, n1, b1, e1', g1⟩


/-! ### `AddPacket` -/

theorem set_rd (m : ArrivalMap) (hp : CapOK m) (sn t x : Int) :
    rd (m.set sn t).buf (m.set sn t).cap x = if slot m.cap x = slot m.cap sn then t else rd m.buf m.cap x := by
  have hc := (set_fields m sn t).1
  rw [hc]
  exact rd_set m.buf m.cap rfl hp.pos sn t x

theorem setNotReceived_rd (m : ArrivalMap) (hp : CapOK m) (s e : Int) (hn : e - s ≤ (m.cap : Int)) (x : Int) :
    (s ≤ x ∧ x < e → rd (m.setNotReceived s e).buf (m.setNotReceived s e).cap x = -1) ∧
    ((∀ y, s ≤ y ∧ y < e → slot m.cap y ≠ slot m.cap x) →
      rd (m.setNotReceived s e).buf (m.setNotReceived s e).cap x = rd m.buf m.cap x) := by
  have hc := (setNotReceived_fields m s e).1
  rw [hc]
  simp only [setNotReceived, setNRLoop_eq]
  have := writeLoop_spec m.cap (fun _ => -1) hp.pos (e - s).toNat s m.buf rfl (by omega) x
  constructor
  · intro hx; exact this.1 (by omega)
  · intro hd; exact this.2 (fun y hy => hd y (by omega))

/-- in-window arrival. -/
theorem addPacket_inside (m : ArrivalMap) (h : WF m) (sn t : Int) (hin : sn ≥ m.beginSN ∧ sn < m.endSN) :
    WF (m.set sn t) ∧ (m.set sn t).beginSN = m.beginSN ∧ (m.set sn t).endSN = m.endSN ∧
    ∀ x, (m.set sn t).get x = if x = sn then t else m.get x := by
  obtain ⟨c1, c2, c3⟩ := set_fields m sn t
  refine ⟨⟨?_, by rw [c2, c3]; exact h.order, by rw [c2, c3]; exact h.window, by rw [c1, c2, c3]; exact h.fits⟩,
    c2, c3, ?_⟩
  · obtain ⟨k, a, b, e⟩ := h.pow; exact ⟨k, a, b, by rw [c1, e]⟩
  · intro x
    rw [get_def, get_def, c2, c3, set_rd m h.pow]
    by_cases hx : x < m.beginSN ∨ x ≥ m.endSN
    · have : x ≠ sn := by omega
      simp [hx, this]
    · simp only [hx, if_false]
      by_cases hxs : x = sn
      · simp [hxs]
      · have hf := h.fits
        have : slot m.cap x ≠ slot m.cap sn := fun e =>
          hxs (slot_inj m.cap h.pow.pos x sn (by omega) (by omega) e)
        simp [this, hxs]


/-- the first packet ever. -/
theorem addPacket_first (m : ArrivalMap) (h0 : m.cap = 0) (hb : m.beginSN = m.endSN) (sn t : Int) :
    WF (m.addPacket sn t) ∧ (m.addPacket sn t).beginSN = sn ∧ (m.addPacket sn t).endSN = sn + 1 ∧
    ∀ x, (m.addPacket sn t).get x = if x = sn then t else -1 := by
  unfold addPacket
  simp only [h0, if_true]
  obtain ⟨r1, r2, r3⟩ := reallocate_cap m minCapacity
  generalize m.reallocate minCapacity = m1 at r1 r2 r3
  have hp : CapOK ({ m1 with beginSN := sn, endSN := sn + 1 } : ArrivalMap) := ⟨7, by omega, by omega, r1⟩
  obtain ⟨c1, c2, c3⟩ := set_fields ({ m1 with beginSN := sn, endSN := sn + 1 } : ArrivalMap) sn t
  have hcap : (({ m1 with beginSN := sn, endSN := sn + 1 } : ArrivalMap).set sn t).cap = 128 := by rw [c1]; exact r1
  refine ⟨⟨⟨7, by omega, by omega, hcap⟩, by rw [c2, c3]; simp only []; omega, by rw [c2, c3]; simp only []; omega,
    by rw [hcap, c2, c3]; simp only []; omega⟩, c2, c3, ?_⟩
  intro x
  rw [get_def, c2, c3, set_rd _ hp]
  by_cases hx : x = sn
  · subst hx
    have : ¬ (x < x ∨ x ≥ x + 1) := by omega
    simp only [this, if_false, if_true]
  · have : x < sn ∨ x ≥ sn + 1 := by omega
    simp [hx, this]

/-- arrival far beyond the window: everything old is dropped. -/
theorem addPacket_far (m : ArrivalMap) (h : WF m) (sn t : Int) :
    let m' := ({ m with beginSN := sn, endSN := sn + 1 } : ArrivalMap).set sn t
    WF m' ∧ m'.beginSN = sn ∧ m'.endSN = sn + 1 ∧ ∀ x, m'.get x = if x = sn then t else -1 := by
  have hp : CapOK ({ m with beginSN := sn, endSN := sn + 1 } : ArrivalMap) := h.pow
  obtain ⟨c1, c2, c3⟩ := set_fields ({ m with beginSN := sn, endSN := sn + 1 } : ArrivalMap) sn t
  have hge := h.pow.ge
  simp only []
  refine ⟨⟨?_, by rw [c2, c3]; simp only []; omega, by rw [c2, c3]; simp only []; omega,
    by rw [c1, c2, c3]; simp only [cap] at hge ⊢; omega⟩,
    c2, c3, ?_⟩
  · obtain ⟨k, a, b, e⟩ := h.pow; exact ⟨k, a, b, by rw [c1]; exact e⟩
  · intro x
    rw [get_def, c2, c3, set_rd _ hp]
    by_cases hx : x = sn
    · subst hx
      have : ¬ (x < x ∨ x ≥ x + 1) := by omega
      simp only [this, if_false, if_true]
    · have : x < sn ∨ x ≥ sn + 1 := by omega
      simp [hx, this]


/-- arrival below the window that still fits 2^15 numbers: the window is extended downwards. -/
theorem addPacket_below (m : ArrivalMap) (h : WF m) (sn t : Int) (hlt : sn < m.beginSN)
    (hsz : m.endSN - sn ≤ 32768) (m1 m2 m3 : ArrivalMap)
    (h1 : m1 = m.adjustToSize (m.endSN - sn)) (h2 : m2 = m1.set sn t)
    (h3 : m3 = m2.setNotReceived (sn + 1) m2.beginSN) :
    WF ({ m3 with beginSN := sn } : ArrivalMap) ∧ m3.endSN = m.endSN ∧
    ∀ x, ({ m3 with beginSN := sn } : ArrivalMap).get x =
      if x = sn then t else if sn ≤ x ∧ x < m.endSN then m.get x else -1 := by
  obtain ⟨p1, n1, b1, e1, g1⟩ := adjustToSize_spec m h.pow h.order h.fits (m.endSN - sn) (by omega) hsz
  rw [← h1] at p1 n1 b1 e1 g1
  obtain ⟨c1, c2, c3⟩ := set_fields m1 sn t
  rw [← h2] at c1 c2 c3
  have p2 : CapOK m2 := by obtain ⟨k, a, b, e⟩ := p1; exact ⟨k, a, b, by rw [c1]; exact e⟩
  obtain ⟨d1, d2, d3⟩ := setNotReceived_fields m2 (sn + 1) m2.beginSN
  rw [← h3] at d1 d2 d3
  have hcap3 : m3.cap = m1.cap := by rw [d1, c1]
  have hb2 : m2.beginSN = m.beginSN := by rw [c2, b1]
  have he3 : m3.endSN = m.endSN := by rw [d3, c3, e1]
  have ho := h.order
  have hcap' : ({ m3 with beginSN := sn } : ArrivalMap).cap = m1.cap := hcap3
  refine ⟨⟨?_, ?_, ?_, ?_⟩, he3, ?_⟩
  · obtain ⟨k, a, b, e⟩ := p1; exact ⟨k, a, b, by rw [hcap']; exact e⟩
  · show sn ≤ m3.endSN; omega
  · show m3.endSN - sn ≤ 32768; omega
  · show m3.endSN - sn ≤ (m3.cap : Int); omega
  · intro x
    have hg : ({ m3 with beginSN := sn } : ArrivalMap).get x =
        if x < sn ∨ x ≥ m.endSN then -1 else rd m3.buf m3.cap x := by
      rw [get_def]; show (if x < sn ∨ x ≥ m3.endSN then _ else _) = _; rw [he3]; rfl
    rw [hg]
    by_cases hout : x < sn ∨ x ≥ m.endSN
    · have : x ≠ sn := by omega
      have h2 : ¬ (sn ≤ x ∧ x < m.endSN) := by omega
      simp [hout, this, h2]
    · simp only [hout, if_false]
      have hin : sn ≤ x ∧ x < m.endSN := by omega
      obtain ⟨w1, w2⟩ := setNotReceived_rd m2 p2 (sn + 1) m2.beginSN (by omega) x
      rw [← h3] at w1 w2
      by_cases hgap : sn + 1 ≤ x ∧ x < m.beginSN
      · rw [w1 (by omega)]
        have : x ≠ sn := by omega
        have hm : m.get x = -1 := by rw [get_def]; simp [show x < m.beginSN ∨ x ≥ m.endSN by omega]
        simp [this, hin, hm]
      · rw [w2 (fun y hy e => by
          have := slot_inj m2.cap p2.pos y x (by omega) (by omega) e
          omega)]
        have := set_rd m1 p1 sn t x
        rw [← h2, c1] at this
        rw [c1, this]
        by_cases hxs : x = sn
        · simp [hxs]
        · have hne : slot m1.cap x ≠ slot m1.cap sn := fun e =>
            hxs (slot_inj m1.cap p1.pos x sn (by omega) (by omega) e)
          simp only [hne, if_false, hxs, hin, and_self, if_true]
          have : m1.get x = rd m1.buf m1.cap x := by
            rw [get_def, b1, e1]; simp [show ¬ (x < m.beginSN ∨ x ≥ m.endSN) by omega]
          rw [← this, g1]


/-- arrival above the window but within 2^15 of its end: the window grows upwards (and loses its
oldest numbers if it would exceed 2^15). -/
theorem addPacket_near (m : ArrivalMap) (h : WF m) (sn t : Int) (hge : sn ≥ m.endSN)
    (hnear : ¬ (sn + 1 ≥ m.endSN + 32768)) (b' : Int) (hb' : b' = max m.beginSN (sn + 1 - 32768))
    (m1 m2 m3 : ArrivalMap) (h1 : m1 = ({ m with beginSN := b' } : ArrivalMap))
    (h2 : m2 = m1.adjustToSize (sn + 1 - m1.beginSN)) (h3 : m3 = m2.setNotReceived m2.endSN sn) :
    let m' := ({ m3 with endSN := sn + 1 } : ArrivalMap).set sn t
    WF m' ∧ m'.beginSN = b' ∧ m'.endSN = sn + 1 ∧
    ∀ x, m'.get x = if x = sn then t else if b' ≤ x ∧ x < sn + 1 then m.get x else -1 := by
  have ho := h.order
  have hw := h.window
  have hf := h.fits
  have hb1 : m1.beginSN = b' := by rw [h1]
  have he1 : m1.endSN = m.endSN := by rw [h1]
  have hc1 : m1.cap = m.cap := by rw [h1]; rfl
  have hp1 : CapOK m1 := by obtain ⟨k, a, b, e⟩ := h.pow; exact ⟨k, a, b, by rw [hc1]; exact e⟩
  have hg1 : ∀ x, m1.get x = if b' ≤ x then m.get x else -1 := by
    intro x
    rw [get_def, get_def, hb1, he1, hc1]
    have : m1.buf = m.buf := by rw [h1]
    rw [this]
    by_cases hx : b' ≤ x
    · by_cases hx2 : x ≥ m.endSN
      · simp [hx, hx2]
      · have a1 : ¬ (x < b' ∨ x ≥ m.endSN) := by omega
        have a2 : ¬ (x < m.beginSN ∨ x ≥ m.endSN) := by omega
        simp [hx, a1, a2]
    · have a1 : x < b' ∨ x ≥ m.endSN := by omega
      simp [hx, a1]
  obtain ⟨p2, n2, b2, e2, g2⟩ := adjustToSize_spec m1 hp1 (by omega) (by omega) (sn + 1 - m1.beginSN)
    (by omega) (by omega)
  rw [← h2] at p2 n2 b2 e2 g2
  obtain ⟨d1, d2, d3⟩ := setNotReceived_fields m2 m2.endSN sn
  rw [← h3] at d1 d2 d3
  have p3 : CapOK ({ m3 with endSN := sn + 1 } : ArrivalMap) := by
    obtain ⟨k, a, b, e⟩ := p2; exact ⟨k, a, b, by show m3.cap = _; rw [d1]; exact e⟩
  obtain ⟨c1, c2, c3⟩ := set_fields ({ m3 with endSN := sn + 1 } : ArrivalMap) sn t
  have hcap3 : m3.cap = m2.cap := d1
  have hcapF : (({ m3 with endSN := sn + 1 } : ArrivalMap).set sn t).cap = m2.cap := by rw [c1]; exact d1
  have hbF : (({ m3 with endSN := sn + 1 } : ArrivalMap).set sn t).beginSN = b' := by
    rw [c2]; show m3.beginSN = b'; rw [d2, b2, hb1]
  have heF : (({ m3 with endSN := sn + 1 } : ArrivalMap).set sn t).endSN = sn + 1 := by rw [c3]
  simp only []
  refine ⟨⟨?_, ?_, ?_, ?_⟩, hbF, heF, ?_⟩
  · obtain ⟨k, a, b, e⟩ := p2; exact ⟨k, a, b, by rw [hcapF]; exact e⟩
  · rw [hbF, heF]; omega
  · rw [hbF, heF]; omega
  · rw [hbF, heF, hcapF]; omega
  · intro x
    rw [get_def, hbF, heF, set_rd _ p3]
    show (if x < b' ∨ x ≥ sn + 1 then -1 else if slot m3.cap x = slot m3.cap sn then t else rd m3.buf m3.cap x) = _
    by_cases hout : x < b' ∨ x ≥ sn + 1
    · have a1 : x ≠ sn := by omega
      have a2 : ¬ (b' ≤ x ∧ x < sn + 1) := by omega
      simp [hout, a1, a2]
    · simp only [hout, if_false]
      by_cases hxs : x = sn
      · simp [hxs]
      · have hne : slot m3.cap x ≠ slot m3.cap sn := fun e =>
          hxs (slot_inj m3.cap (by rw [hcap3]; exact p2.pos) x sn (by omega) (by omega) e)
        have hin : b' ≤ x ∧ x < sn + 1 := by omega
        simp only [hne, if_false, hxs, hin, and_self, if_true]
        obtain ⟨w1, w2⟩ := setNotReceived_rd m2 p2 m2.endSN sn (by omega) x
        rw [← h3] at w1 w2
        by_cases hgap : m.endSN ≤ x
        · rw [w1 (by omega)]
          rw [get_def]; simp [show x < m.beginSN ∨ x ≥ m.endSN by omega]
        · rw [w2 (fun y hy e => by
            have := slot_inj m2.cap p2.pos y x (by omega) (by omega) e
            omega)]
          have : m2.get x = rd m2.buf m2.cap x := by
            rw [get_def, b2, e2, hb1, he1]; simp [show ¬ (x < b' ∨ x ≥ m.endSN) by omega]
          rw [← this, g2, hg1]
          simp [hin.1]


/-- lower end of the window after `AddPacket sn` (when the packet is accepted). -/
def newBegin (m : ArrivalMap) (sn : Int) : Int :=
  if m.beginSN ≤ sn ∧ sn < m.endSN then m.beginSN
  else if sn < m.beginSN then sn
  else if sn + 1 ≥ m.endSN + 32768 then sn
  else max m.beginSN (sn + 1 - 32768)

/-- `AddPacket` on an allocated map, as a statement about the function `get` and the window. -/
theorem addPacket_spec (m : ArrivalMap) (h : WF m) (sn t : Int) :
    WF (m.addPacket sn t) ∧
    (if sn < m.beginSN ∧ m.endSN - sn > 32768 then m.addPacket sn t = m
     else (m.addPacket sn t).beginSN = newBegin m sn ∧ (m.addPacket sn t).endSN = max m.endSN (sn + 1) ∧
      ∀ x, (m.addPacket sn t).get x =
        if x = sn then t else if newBegin m sn ≤ x ∧ x < max m.endSN (sn + 1) then m.get x else -1) := by
  have hc : m.cap ≠ 0 := by have := h.pow.pos; omega
  have ho := h.order
  unfold addPacket newBegin maxNumberOfPackets
  simp only [hc, if_false]
  by_cases hin : sn ≥ m.beginSN ∧ sn < m.endSN
  · have hin' : m.beginSN ≤ sn ∧ sn < m.endSN := ⟨hin.1, hin.2⟩
    have hnot : ¬ (sn < m.beginSN ∧ m.endSN - sn > 32768) := by omega
    simp only [hin, hin', and_self, if_true, hnot, if_false]
    obtain ⟨w, b, e, g⟩ := addPacket_inside m h sn t hin
    refine ⟨w, b, by rw [e]; omega, ?_⟩
    intro x
    rw [g]
    by_cases hx : x = sn
    · simp [hx]
    · simp only [hx, if_false]
      by_cases hr : m.beginSN ≤ x ∧ x < max m.endSN (sn + 1)
      · simp [hr]
      · simp only [hr, if_false]
        rw [get_def]; simp [show x < m.beginSN ∨ x ≥ m.endSN by omega]
  · have hin' : ¬ (m.beginSN ≤ sn ∧ sn < m.endSN) := by omega
    simp only [hin, hin', if_false]
    by_cases hlt : sn < m.beginSN
    · simp only [hlt, if_true, true_and]
      by_cases hbig : m.endSN - sn > 32768
      · simp only [hbig, if_true]
        exact ⟨h, trivial⟩
      · simp only [hbig, if_false]
        obtain ⟨w, e, g⟩ := addPacket_below m h sn t hlt (by omega) _ _ _ rfl rfl rfl
        refine ⟨w, trivial, by rw [e]; omega, ?_⟩
        intro x
        rw [g]
        have : max m.endSN (sn + 1) = m.endSN := by omega
        rw [this]
    · have hnot : ¬ (sn < m.beginSN ∧ m.endSN - sn > 32768) := by omega
      simp only [hlt, if_false, hnot]
      by_cases hfar : sn + 1 ≥ m.endSN + 32768
      · simp only [hfar, if_true]
        obtain ⟨w, b, e, g⟩ := addPacket_far m h sn t
        refine ⟨w, b, by rw [e]; omega, ?_⟩
        intro x
        rw [g]
        by_cases hx : x = sn
        · simp [hx]
        · have : ¬ (sn ≤ x ∧ x < max m.endSN (sn + 1)) := by omega
          simp [hx, this]
      · simp only [hfar, if_false]
        have hb' : (if m.beginSN < sn + 1 - 32768 then ({ m with beginSN := sn + 1 - 32768 } : ArrivalMap) else m)
            = ({ m with beginSN := max m.beginSN (sn + 1 - 32768) } : ArrivalMap) := by
          by_cases hc2 : m.beginSN < sn + 1 - 32768
          · have : max m.beginSN (sn + 1 - 32768) = sn + 1 - 32768 := by omega
            simp [hc2, this]
          · have : max m.beginSN (sn + 1 - 32768) = m.beginSN := by omega
            simp [hc2, this]
        rw [hb']
        obtain ⟨w, b, e, g⟩ := addPacket_near m h sn t (by omega) hfar _ rfl _ _ _ rfl rfl rfl
        refine ⟨w, b, by rw [e]; omega, ?_⟩
        intro x
        rw [g]
        have : max m.endSN (sn + 1) = sn + 1 := by omega
        rw [this]


/-! ### `RemoveOldPackets` -/

theorem removeLoop_spec (fuel : Nat) (m : ArrivalMap) (checkTo limit : Int)
    (hfuel : checkTo - m.beginSN ≤ fuel) (hct : checkTo ≤ m.endSN) :
    (removeLoop fuel m checkTo limit).buf = m.buf ∧ (removeLoop fuel m checkTo limit).endSN = m.endSN ∧
    m.beginSN ≤ (removeLoop fuel m checkTo limit).beginSN ∧
    (removeLoop fuel m checkTo limit).beginSN ≤ max m.beginSN checkTo ∧
    (∀ x, m.beginSN ≤ x → x < (removeLoop fuel m checkTo limit).beginSN → m.get x ≤ limit) ∧
    ((removeLoop fuel m checkTo limit).beginSN < checkTo →
      m.get (removeLoop fuel m checkTo limit).beginSN > limit) := by
  induction fuel generalizing m with
  | zero =>
    simp only [removeLoop]
    refine ⟨trivial, trivial, Int.le_refl _, by omega, fun x a b => by omega, fun a => by omega⟩
  | succ fuel ih =>
    unfold removeLoop
    by_cases hc : m.beginSN < checkTo ∧ m.get m.beginSN ≤ limit
    · simp only [hc, and_self, if_true]
      obtain ⟨i1, i2, i3, i4, i5, i6⟩ := ih ({ m with beginSN := m.beginSN + 1 } : ArrivalMap)
        (by show checkTo - (m.beginSN + 1) ≤ (fuel : Int); omega) hct
      have hget : ∀ x, m.beginSN + 1 ≤ x → ({ m with beginSN := m.beginSN + 1 } : ArrivalMap).get x = m.get x := by
        intro x hx
        rw [get_def, get_def]
        show (if x < m.beginSN + 1 ∨ x ≥ m.endSN then _ else rd m.buf m.cap x) = _
        by_cases h2 : x ≥ m.endSN
        · simp [h2]
        · simp [show ¬ (x < m.beginSN + 1 ∨ x ≥ m.endSN) by omega, show ¬ (x < m.beginSN ∨ x ≥ m.endSN) by omega]
      refine ⟨i1, i2, ?_, ?_, ?_, ?_⟩
      · have : m.beginSN + 1 ≤ _ := i3; omega
      · have : _ ≤ max (m.beginSN + 1) checkTo := i4; omega
      · intro x hx1 hx2
        by_cases hx : x = m.beginSN
        · rw [hx]; exact hc.2
        · rw [← hget x (by omega)]; exact i5 x (by show m.beginSN + 1 ≤ x; omega) hx2
      · intro hlt
        have h3 : m.beginSN + 1 ≤ _ := i3
        rw [← hget _ h3]; exact i6 hlt
    · simp only [hc, if_false]
      refine ⟨trivial, trivial, Int.le_refl _, by omega, fun x a b => by omega, fun a => ?_⟩
      have : ¬ m.get m.beginSN ≤ limit := fun h => hc ⟨a, h⟩
      omega

theorem removeOld_aux (m : ArrivalMap) (h : WF m) (sn limit : Int) (m1 : ArrivalMap)
    (i1 : m1.buf = m.buf) (i2 : m1.endSN = m.endSN) (i3 : m.beginSN ≤ m1.beginSN)
    (i4 : m1.beginSN ≤ max m.beginSN (min sn m.endSN))
    (i5 : ∀ x, m.beginSN ≤ x → x < m1.beginSN → m.get x ≤ limit)
    (i6 : m1.beginSN < min sn m.endSN → m.get m1.beginSN > limit) :
    WF (m1.adjustToSize (m1.endSN - m1.beginSN)) ∧ (m1.adjustToSize (m1.endSN - m1.beginSN)).endSN = m.endSN ∧
    m.beginSN ≤ (m1.adjustToSize (m1.endSN - m1.beginSN)).beginSN ∧
    (m1.adjustToSize (m1.endSN - m1.beginSN)).beginSN ≤ max m.beginSN (min sn m.endSN) ∧
    (∀ x, (m1.adjustToSize (m1.endSN - m1.beginSN)).get x =
      if (m1.adjustToSize (m1.endSN - m1.beginSN)).beginSN ≤ x then m.get x else -1) ∧
    (∀ x, m.beginSN ≤ x → x < (m1.adjustToSize (m1.endSN - m1.beginSN)).beginSN → m.get x ≤ limit) ∧
    ((m1.adjustToSize (m1.endSN - m1.beginSN)).beginSN < min sn m.endSN →
      m.get (m1.adjustToSize (m1.endSN - m1.beginSN)).beginSN > limit) := by
  have ho := h.order
  have hw := h.window
  have hf := h.fits
  have hc1 : m1.cap = m.cap := by unfold cap; rw [i1]
  have hp1 : CapOK m1 := by obtain ⟨k, a, b, e⟩ := h.pow; exact ⟨k, a, b, by rw [hc1]; exact e⟩
  have hb1 : m1.beginSN ≤ m1.endSN := by omega
  obtain ⟨p2, n2, b2, e2, g2⟩ := adjustToSize_spec m1 hp1 hb1 (by omega) (m1.endSN - m1.beginSN)
    (Int.le_refl _) (by omega)
  have hg1 : ∀ x, m1.get x = if m1.beginSN ≤ x then m.get x else -1 := by
    intro x
    rw [get_def, get_def, i1, i2, hc1]
    by_cases hx : m1.beginSN ≤ x
    · by_cases hx2 : x ≥ m.endSN
      · simp [hx, hx2]
      · simp [hx, show ¬ (x < m1.beginSN ∨ x ≥ m.endSN) by omega, show ¬ (x < m.beginSN ∨ x ≥ m.endSN) by omega]
    · simp [hx, show x < m1.beginSN ∨ x ≥ m.endSN by omega]
  refine ⟨⟨p2, by rw [b2, e2]; exact hb1, by rw [b2, e2]; omega, by rw [b2, e2]; exact n2⟩,
    by rw [e2, i2], by rw [b2]; exact i3, by rw [b2]; exact i4, ?_, by rw [b2]; exact i5, by rw [b2]; exact i6⟩
  intro x
  rw [g2, hg1, b2]


/-- `RemoveOldPackets`: the window loses a prefix; inside the new window nothing changes; every
dropped number was below `sn` and was not received or not younger than `limit`; the loop stops at
the first younger one. -/
theorem removeOld_spec (m : ArrivalMap) (h : WF m) (sn limit : Int) :
    WF (m.removeOld sn limit) ∧ (m.removeOld sn limit).endSN = m.endSN ∧
    m.beginSN ≤ (m.removeOld sn limit).beginSN ∧
    (m.removeOld sn limit).beginSN ≤ max m.beginSN (min sn m.endSN) ∧
    (∀ x, (m.removeOld sn limit).get x = if (m.removeOld sn limit).beginSN ≤ x then m.get x else -1) ∧
    (∀ x, m.beginSN ≤ x → x < (m.removeOld sn limit).beginSN → m.get x ≤ limit) ∧
    ((m.removeOld sn limit).beginSN < min sn m.endSN → m.get (m.removeOld sn limit).beginSN > limit) := by
  have ho := h.order
  obtain ⟨i1, i2, i3, i4, i5, i6⟩ := removeLoop_spec (min sn m.endSN - m.beginSN).toNat m (min sn m.endSN) limit
    (by omega) (by omega)
  exact removeOld_aux m h sn limit _ i1 i2 i3 i4 i5 i6

end Interceptor.Twcc.ArrivalMap

/-
Helper lemmas for C14: from the coverage table and a valid batch to the hypotheses of
`recoverAt_core` and of the parse lemmas.  Core Lean only.
-/
import Interceptor.Proofs.FlexFecRecover
import Interceptor.Proofs.FlexFecParse
namespace Interceptor.FlexFec
open Interceptor.FlexFecSpec (parseHeader FecHeader beVal slice maskBits recoverAt)

/-- a batch the encoder accepts and the property speaks about: marshalled RTP packets (≥ 12 bytes,
version 2, bytes < 256, at most 65535 bytes after the fixed header), one SSRC, consecutive
sequence numbers. -/
structure ValidMedia (media : List Bytes) : Prop where
  len12 : ∀ p ∈ media, 12 ≤ p.length ∧ p.length - 12 < 65536
  bytes : ∀ p ∈ media, ∀ x ∈ p, x < 256
  ver : ∀ p ∈ media, p.getD 0 0 / 64 = 2
  ssrc : ∀ p ∈ media, ∀ q ∈ media, slice p 8 4 = slice q 8 4
  seqs : ∀ k, k < media.length → seqOf (media.getD k []) = (seqOf (media.getD 0 []) + k) % 65536

/-- the table is the one `UpdateCoverage` builds for the current shape. -/
structure TableOk (c : Coverage) : Prop where
  masks : c.masks = buildMasks c.numMedia c.numFec
  n : c.numMedia = c.media.length
  n109 : c.numMedia ≤ 109

theorem setBit_bounds (b : BitArray) (i : Nat) (h : b.lo < 2 ^ 64 ∧ b.hi < 2 ^ 64) :
    (b.setBit i).lo < 2 ^ 64 ∧ (b.setBit i).hi < 2 ^ 64 := by
  unfold BitArray.setBit
  split
  · refine ⟨?_, h.2⟩
    rw [Nat.one_shiftLeft]
    exact Nat.or_lt_two_pow h.1 (Nat.pow_lt_pow_right (by decide) (by omega))
  · split
    · refine ⟨h.1, ?_⟩
      rw [Nat.one_shiftLeft]
      exact Nat.or_lt_two_pow h.2 (Nat.pow_lt_pow_right (by decide) (by omega))
    · exact h

theorem fillRow_bounds (f n : Nat) : ∀ (fuel c : Nat) (b : BitArray), (b.lo < 2 ^ 64 ∧ b.hi < 2 ^ 64) →
    ((fillRow f n fuel c b).lo < 2 ^ 64 ∧ (fillRow f n fuel c b).hi < 2 ^ 64) := by
  intro fuel
  induction fuel with
  | zero => intro c b h; exact h
  | succ fuel ih =>
    intro c b h
    unfold fillRow
    split
    · exact ih _ _ (setBit_bounds b c h)
    · exact h

theorem row_bounds (c : Coverage) (hok : TableOk c) (i : Nat) (hi : i < 110) :
    (c.row i).lo < 2 ^ 64 ∧ (c.row i).hi < 2 ^ 64 := by
  unfold Coverage.row
  rw [hok.masks, buildMasks_getD _ _ _ hi]
  split
  · exact fillRow_bounds _ _ _ _ _ (by decide)
  · decide

/-- bits of a row of a well-formed table. -/
theorem row_bit (c : Coverage) (hok : TableOk c) (i j : Nat) (hi : i < 110) (hj : j < 128) :
    bitOf (c.row i) j = decide (i < c.numFec ∧ j < c.numMedia ∧ j % c.numFec = i) := by
  unfold Coverage.row
  rw [hok.masks]
  exact bitOf_buildMasks _ _ _ _ (by have := hok.n109; omega) hi hj

/-- `GetCoveredBy` in terms of bits, and as the set bits among 0..108. -/
theorem coveredBy_eq (c : Coverage) (hok : TableOk c) (i : Nat) (hi : i < 110) :
    c.coveredBy i = allPos (c.row i) := by
  unfold Coverage.coveredBy allPos
  have hn := hok.n109
  have e : (109 : Nat) = c.numMedia + (109 - c.numMedia) := by omega
  rw [e, List.range_add, List.filter_append]
  have h2 : ((List.range (109 - c.numMedia)).map (c.numMedia + ·)).filter (bitOf (c.row i)) = [] := by
    apply List.filter_eq_nil_iff.2
    intro x hx
    obtain ⟨t, ht, rfl⟩ := List.mem_map.1 hx
    have := List.mem_range.1 ht
    rw [row_bit c hok i _ hi (by omega)]
    simp
    intro _ h
    omega
  rw [h2, List.append_nil]
  apply List.filter_congr
  intro x hx
  have := List.mem_range.1 hx
  exact getBit_beq_one _ _ (by omega)

theorem mem_coveredBy (c : Coverage) (hok : TableOk c) (i j : Nat) (hi : i < 110) :
    j ∈ c.coveredBy i ↔ (i < c.numFec ∧ j < c.numMedia ∧ j % c.numFec = i) := by
  unfold Coverage.coveredBy
  have hn := hok.n109
  rw [List.mem_filter, List.mem_range]
  constructor
  · rintro ⟨h1, h2⟩
    rw [getBit_beq_one _ _ (by omega), row_bit c hok i j hi (by omega)] at h2
    simpa using h2
  · intro h
    refine ⟨h.2.1, ?_⟩
    rw [getBit_beq_one _ _ (by omega), row_bit c hok i j hi (by omega)]
    simpa using h

theorem coveredBy_nodup (c : Coverage) (i : Nat) : (c.coveredBy i).Nodup :=
  List.Nodup.sublist List.filter_sublist List.nodup_range

theorem foldl_step_h0_lt : ∀ (ps : List Bytes) (a : Acc), a.h0 < 64 → (ps.foldl Acc.step a).h0 < 64 := by
  intro ps
  induction ps with
  | nil => intro a h; exact h
  | cons p ps ih =>
    intro a _
    simp only [List.foldl_cons]
    apply ih
    show (a.h0 ^^^ p.getD 0 0) &&& 63 < 64
    exact Nat.lt_succ_of_le Nat.and_le_right

theorem getD_mem (media : List Bytes) (k : Nat) (h : k < media.length) : media.getD k [] ∈ media := by
  rw [List.getD_eq_getElem?_getD, List.getElem?_eq_getElem h]
  exact List.getElem_mem h

/-- the spec parses the header the encoder writes for row `b`, whatever its shape (20/24/32 bytes),
and reads exactly the set bits among 0..108. -/
theorem parse_payload (b : BitArray) (hb : b.lo < 2 ^ 64 ∧ b.hi < 2 ^ 64)
    (h0 h1 l2 l3 t4 t5 t6 t7 s0 s1 s2 s3 base : Nat) (rep : Bytes) (hh0 : h0 < 64) (hbase : base < 65536) :
    ∃ h, parseHeader ([h0, h1, l2, l3, t4, t5, t6, t7, 1, 0, 0, 0, s0, s1, s2, s3] ++ be16 base
            ++ maskBytes (mask1 b) (mask2 b) (mask3 b) ++ rep) = some h
      ∧ h.positions = allPos b
      ∧ ([h0, h1, l2, l3, t4, t5, t6, t7, 1, 0, 0, 0, s0, s1, s2, s3] ++ be16 base
            ++ maskBytes (mask1 b) (mask2 b) (mask3 b)).length = h.size
      ∧ h.ssrc = [s0, s1, s2, s3] ∧ h.snBase = base := by
  have hm1 : mask1 b < 32768 := mask1_lt b hb.1
  have hm2 : mask2 b < 2147483648 := mask2_lt b
  have hm3 : mask3 b < 9223372036854775808 := mask3_lt b hb.2
  have hall := masks_name_bits b hb.2
  unfold maskBytes
  by_cases h23 : mask2 b = 0 ∧ mask3 b = 0
  · rw [if_pos h23]
    refine ⟨_, parse_A _ _ _ _ _ _ _ _ _ _ _ _ _ _ _ hh0 hbase hm1, ?_, ?_, rfl, rfl⟩
    · rw [h23.1, h23.2, maskBits_zero, maskBits_zero, List.append_nil, List.append_nil] at hall
      exact hall
    · simp [be16, setK]
  · rw [if_neg h23]
    by_cases h3 : mask3 b = 0
    · rw [if_pos h3]
      refine ⟨_, parse_B _ _ _ _ _ _ _ _ _ _ _ _ _ _ _ _ hh0 hbase hm1 hm2, ?_, ?_, rfl, rfl⟩
      · rw [h3, maskBits_zero, List.append_nil] at hall
        exact hall
      · simp [be16, be32, setK]
    · rw [if_neg h3]
      refine ⟨_, parse_C _ _ _ _ _ _ _ _ _ _ _ _ _ _ _ _ _ hh0 hbase hm1 hm2 hm3, hall, ?_, rfl, rfl⟩
      simp [be16, be32, be64, setK]

theorem seqOf_lt (p : Bytes) (h : ∀ x ∈ p, x < 256) : seqOf p < 65536 := by
  unfold seqOf
  have h2 : p.getD 2 0 < 256 := by
    rw [List.getD_eq_getElem?_getD]
    cases e : p[2]? with
    | none => simp
    | some v => exact h v (List.mem_of_getElem? e)
  have h3 : p.getD 3 0 < 256 := by
    rw [List.getD_eq_getElem?_getD]
    cases e : p[3]? with
    | none => simp
    | some v => exact h v (List.mem_of_getElem? e)
  omega

/-- shape of the FlexFEC payload of FEC packet `i` when it covers `k0 :: L'`. -/
theorem fecPayload_eq (c : Coverage) (i base k0 : Nat) (L' : List Nat) (hL : c.coveredBy i = k0 :: L') :
    ∃ mp a, ((k0 :: L').map fun k => c.media.getD k []).foldl Acc.step (acc0 mp) = a ∧
      fecPayload c i base = some ([a.h0, a.h1, a.l2, a.l3, a.t4, a.t5, a.t6, a.t7, 1, 0, 0, 0]
        ++ ((c.media.getD k0 []).drop 8).take 4 ++ be16 base
        ++ maskBytes (mask1 (c.row i)) (mask2 (c.row i)) (mask3 (c.row i)) ++ a.rep) := by
  refine ⟨((k0 :: L').map fun k => c.media.getD k []).foldl (fun m p => max m (p.length - 12)) 0, _, rfl, ?_⟩
  unfold fecPayload Coverage.coveredPackets
  rw [hL]
  rfl

end Interceptor.FlexFec

/-
Helper lemmas for Props/C06 (receiver reports): field projections of the model steps and the
simulation invariants between the model state and the spec accumulators.
-/
import Interceptor.Spec.ReceiverReport
import Mathlib.Tactic.Ring
set_option linter.unusedVariables false
namespace Interceptor.ReceiverReport
open Interceptor Interceptor.F64 Interceptor.GoTime Interceptor.ReceiverReport.Spec

/-- well-formed events: field widths of the RTP header. -/
def Ev.wf : Ev → Prop
  | .rtp _ seq ts => seq < 65536 ∧ ts < M32
  | _ => True

/-! ### field projections -/

theorem processSR_fields (s : Stream) (now : Int) (ntp : Nat) :
    let s' := processSR s now ntp
    s'.started = s.started ∧ s'.cycles = s.cycles ∧ s'.last = s.last ∧ s'.lastReport = s.lastReport ∧
    s'.bits = s.bits ∧ s'.jitter = s.jitter ∧ s'.lastTs = s.lastTs ∧ s'.lastTime = s.lastTime ∧
    s'.totalLost = s.totalLost ∧ s'.rate = s.rate ∧ s'.ssrc = s.ssrc ∧
    s'.lsr = (ntp / 65536) % M32 ∧ s'.lsrTime = some now := by
  simp [processSR]

theorem generateReport_fields (s : Stream) (now : Int) :
    let s' := (generateReport s now).2
    s'.started = s.started ∧ s'.cycles = s.cycles ∧ s'.last = s.last ∧ s'.lastReport = s.last ∧
    s'.bits = s.bits ∧ s'.jitter = s.jitter ∧ s'.lastTs = s.lastTs ∧ s'.lastTime = s.lastTime ∧
    s'.rate = s.rate ∧ s'.ssrc = s.ssrc ∧ s'.lsr = s.lsr ∧ s'.lsrTime = s.lsrTime := by
  simp [generateReport]

theorem processRTP_first (s : Stream) (now : Int) (seq ts : Nat) (h : s.started = false) :
    processRTP s now seq ts =
      { s with started := true, bits := setBit s.bits seq true, last := seq, lastReport := sub16 seq 1,
               lastTs := ts, lastTime := some now } := by
  simp [processRTP, h]

/-- whether the started stream takes `seq` as the new highest. -/
def adv (s : Stream) (seq : Nat) : Prop := 0 < sub16 seq s.last ∧ sub16 seq s.last < 32768
instance (s : Stream) (seq : Nat) : Decidable (adv s seq) := by unfold adv; infer_instance

theorem processRTP_started (s : Stream) (now : Int) (seq ts : Nat) (h : s.started = true) :
    let s' := processRTP s now seq ts
    s'.started = true ∧ s'.lastReport = s.lastReport ∧ s'.totalLost = s.totalLost ∧ s'.rate = s.rate ∧
    s'.ssrc = s.ssrc ∧ s'.lsr = s.lsr ∧ s'.lsrTime = s.lsrTime ∧ s'.lastTs = ts ∧ s'.lastTime = some now ∧
    s'.jitter = jitterStep s.jitter (jitterD s.rate (GoTime.sub now s.lastTime) ts s.lastTs) ∧
    s'.last = (if adv s seq then seq else s.last) ∧
    s'.cycles = (if adv s seq then (if seq < s.last then (s.cycles + 1) % 65536 else s.cycles) else s.cycles) ∧
    s'.bits = (if adv s seq then clearRange (setBit s.bits seq true) (add16 s.last 1) (sub16 seq s.last - 1)
               else setBit s.bits seq true) := by
  simp only [processRTP, h, adv]
  by_cases hc : 0 < sub16 seq s.last ∧ sub16 seq s.last < 32768 <;> simp [hc]

/-! ### T1: extended highest -/

/-- model state vs spec extended highest. -/
def RelExt (s : Stream) : Option Nat → Prop
  | none => s.started = false ∧ s.cycles = 0 ∧ s.last = 0
  | some h => s.started = true ∧ 65536 ≤ h ∧ s.last = h % 65536 ∧ s.cycles = (h / 65536 - 1) % 65536

theorem relExt_rtp (s : Stream) (h : Option Nat) (now : Int) (seq ts : Nat) (hs : seq < 65536)
    (r : RelExt s h) : RelExt (processRTP s now seq ts) (some (highest h seq)) := by
  cases h with
  | none =>
    obtain ⟨h1, h2, h3⟩ := r
    rw [processRTP_first s now seq ts h1]
    simp only [RelExt, highest, h2]
    refine ⟨trivial, by omega, by omega, by omega⟩
  | some h =>
    obtain ⟨h1, h2, h3, h4⟩ := r
    obtain ⟨p1, _, _, _, _, _, _, _, _, _, pl, pc, _⟩ := processRTP_started s now seq ts h1
    have hadv : adv s seq ↔ ahead h seq = true := by
      simp only [adv, ahead, h3, Bool.and_eq_true, decide_eq_true_eq]
    simp only [RelExt, highest]
    refine ⟨p1, ?_, ?_, ?_⟩
    · split <;> (try simp only [extend]) <;> (try split) <;> omega
    · rw [pl]
      by_cases ha : ahead h seq = true
      · simp only [hadv.mpr ha, ha, if_true, extend]
        simp only [ahead, Bool.and_eq_true, decide_eq_true_eq, sub16] at ha ⊢; omega
      · have : ¬ adv s seq := fun x => ha (hadv.mp x)
        simp only [this, ha, if_false]; exact h3
    · rw [pc]
      by_cases ha : ahead h seq = true
      · simp only [hadv.mpr ha, ha, if_true, extend, h3, h4]
        simp only [ahead, Bool.and_eq_true, decide_eq_true_eq, sub16] at ha ⊢
        split <;> omega
      · have : ¬ adv s seq := fun x => ha (hadv.mp x)
        simp only [this, ha, if_false]; exact h4

theorem relExt_sr (s : Stream) (h : Option Nat) (now : Int) (ntp : Nat) (r : RelExt s h) :
    RelExt (processSR s now ntp) h := by
  cases h <;> simpa [RelExt, processSR] using r

theorem relExt_report (s : Stream) (h : Option Nat) (now : Int) (r : RelExt s h) :
    RelExt (generateReport s now).2 h := by
  cases h <;> simpa [RelExt, generateReport] using r

theorem ext_of_rel (s : Stream) (h : Option Nat) (now : Int) (r : RelExt s h) :
    (generateReport s now).1.ext = extOf h := by
  cases h with
  | none => obtain ⟨_, h2, h3⟩ := r; simp [generateReport, h2, h3, extOf]
  | some h =>
    obtain ⟨_, h2, h3, h4⟩ := r
    simp only [generateReport, h3, h4, M32, extOf]; omega

theorem ext_run (s : Stream) (h : Option Nat) (evs : List Ev) (hwf : ∀ e ∈ evs, e.wf) (r : RelExt s h) :
    (runEv s evs).map (·.ext) = extReports h evs := by
  induction evs generalizing s h with
  | nil => rfl
  | cons e es ih =>
    have hwf' : ∀ e ∈ es, e.wf := fun e he => hwf e (List.mem_cons_of_mem _ he)
    cases e with
    | rtp now seq ts =>
      have : seq < 65536 := (hwf (.rtp now seq ts) (by simp)).1
      simp only [runEv, stepEv, extReports]
      exact ih _ _ hwf' (relExt_rtp s h now seq ts this r)
    | sr now ntp =>
      simp only [runEv, stepEv, extReports]
      exact ih _ _ hwf' (relExt_sr s h now ntp r)
    | report now =>
      simp only [runEv, stepEv, extReports, List.map_cons]
      rw [ext_of_rel s h now r, ih _ _ hwf' (relExt_report s h now r)]

/-! ### T6: LSR / DLSR -/

def RelLsr (s : Stream) : Option (Nat × Int) → Prop
  | none => s.lsr = 0 ∧ s.lsrTime = none
  | some (ntp, t) => s.lsr = (ntp / 65536) % M32 ∧ s.lsrTime = some t

theorem lsr_run (s : Stream) (o : Option (Nat × Int)) (evs : List Ev) (r : RelLsr s o) :
    (runEv s evs).map (fun r => (r.lsr, r.delay)) = lsrReports o evs := by
  induction evs generalizing s o with
  | nil => rfl
  | cons e es ih =>
    cases e with
    | rtp now seq ts =>
      simp only [runEv, stepEv, lsrReports]
      apply ih
      by_cases hs : s.started = true
      · obtain ⟨_, _, _, _, _, p1, p2, _⟩ := processRTP_started s now seq ts hs
        cases o with
        | none => exact ⟨p1.trans r.1, p2.trans r.2⟩
        | some x => exact ⟨p1.trans r.1, p2.trans r.2⟩
      · have hs' : s.started = false := by simpa using hs
        rw [processRTP_first s now seq ts hs']
        cases o with
        | none => exact r
        | some x => exact r
    | sr now ntp =>
      simp only [runEv, stepEv, lsrReports]
      apply ih
      exact ⟨by simp [processSR], by simp [processSR]⟩
    | report now =>
      simp only [runEv, stepEv, lsrReports, List.map_cons]
      congr 1
      · cases o with
        | none => obtain ⟨r1, r2⟩ := r; simp [generateReport, r1, r2]
        | some x => obtain ⟨ntp, t⟩ := x; obtain ⟨r1, r2⟩ := r; simp [generateReport, r1, r2]
      · apply ih
        cases o with
        | none => simpa [RelLsr, generateReport] using r
        | some x => simpa [RelLsr, generateReport] using r

/-! ### T5: jitter -/

def RelJit (s : Stream) (o : Option (Int × Nat)) (j : Rat) : Prop :=
  s.jitter = j ∧
  match o with
  | none => s.started = false
  | some (t, ts) => s.started = true ∧ s.lastTime = some t ∧ s.lastTs = ts

theorem jitter_run (s : Stream) (o : Option (Int × Nat)) (j : Rat) (evs : List Ev) (r : RelJit s o j) :
    (runEv s evs).map (·.jitter) = jitterReports s.rate o j evs := by
  induction evs generalizing s o j with
  | nil => cases o <;> rfl
  | cons e es ih =>
    cases e with
    | rtp now seq ts =>
      cases o with
      | none =>
        obtain ⟨r1, r2⟩ := r
        simp only [runEv, stepEv, jitterReports]
        have := ih (processRTP s now seq ts) (some (now, ts)) j
          (by rw [processRTP_first s now seq ts r2]; exact ⟨r1, rfl, rfl, rfl⟩)
        rw [this, processRTP_first s now seq ts r2]
      | some x =>
        obtain ⟨t, ts'⟩ := x
        obtain ⟨r1, r2, r3, r4⟩ := r
        obtain ⟨p1, _, _, prate, _, _, _, pts, ptime, pj, _⟩ := processRTP_started s now seq ts r2
        simp only [runEv, stepEv, jitterReports]
        have := ih (processRTP s now seq ts) (some (now, ts))
          (jitterStep j (jitterD s.rate (now - t) ts ts'))
          ⟨by rw [pj, r1, r3, r4]; rfl, p1, ptime, pts⟩
        rw [this, prate]
    | sr now ntp =>
      simp only [runEv, stepEv, jitterReports]
      have := ih (processSR s now ntp) o j (by cases o <;> simpa [RelJit, processSR] using r)
      rw [this]; cases o <;> simp [processSR, jitterReports]
    | report now =>
      simp only [runEv, stepEv, jitterReports, List.map_cons]
      have := ih (generateReport s now).2 o j (by cases o <;> simpa [RelJit, generateReport] using r)
      have hj : (generateReport s now).1.jitter = toUint32 j := by simp [generateReport, r.1]
      have hrate : (generateReport s now).2.rate = s.rate := by simp [generateReport]
      rw [hrate] at this
      cases o <;> simp only [jitterReports, hj, this]

/-- the signed 32-bit difference of two wrapped timestamps is the true difference when that is
within ±2^31. -/
theorem sdiff32_exact (a b : Int) (h1 : -2147483648 ≤ a - b) (h2 : a - b < 2147483648) :
    sdiff32 (a % 4294967296).toNat (b % 4294967296).toNat = a - b := by
  unfold sdiff32
  simp only [M32]
  split <;> omega

/-! ### T4: cumulative lost -/

theorem report_total (s : Stream) (now : Int) (h : s.totalLost ≤ 16777215) :
    (generateReport s now).1.totalLost = min 16777215 (s.totalLost + lostInterval s) ∧
    (generateReport s now).2.totalLost = min 16777215 (s.totalLost + lostInterval s) := by
  have hl : lostInterval s < 65536 := by
    unfold lostInterval
    split
    · omega
    · have : ∀ b st n, countMissing b st n ≤ n := by
        intro b st n
        induction n generalizing st with
        | zero => simp [countMissing]
        | succ n ih => simp only [countMissing]; have := ih (add16 st 1); split <;> omega
      have h2 := this s.bits (add16 s.lastReport 1) (expectedInterval s - 1)
      have h3 : expectedInterval s < 65536 := sub16_lt _ _
      omega
  simp only [generateReport, M32]
  constructor <;> (split <;> omega)

theorem cumulative_run (s : Stream) (evs : List Ev) (h : s.totalLost ≤ 16777215) :
    (runEv s evs).map (·.totalLost) = satSums s.totalLost (intervalLosses s evs) := by
  induction evs generalizing s with
  | nil => rfl
  | cons e es ih =>
    cases e with
    | rtp now seq ts =>
      simp only [runEv, stepEv, intervalLosses]
      have ht : (processRTP s now seq ts).totalLost = s.totalLost := by
        by_cases hs : s.started = true
        · exact (processRTP_started s now seq ts hs).2.2.1
        · rw [processRTP_first s now seq ts (by simpa using hs)]
      rw [ih _ (by rw [ht]; exact h), ht]
    | sr now ntp =>
      simp only [runEv, stepEv, intervalLosses]
      rw [ih _ (by simpa [processSR] using h)]; simp [processSR]
    | report now =>
      obtain ⟨t1, t2⟩ := report_total s now h
      simp only [runEv, stepEv, intervalLosses, List.map_cons, satSums]
      rw [t1, ih _ (by rw [t2]; omega), t2]

/-- saturating prefix sums are the clamped prefix sums. -/
theorem satSums_eq (t : Nat) (ls : List Nat) (pre : Nat) (h : t = min 16777215 pre) :
    satSums t ls = (ls.scanl (· + ·) pre).tail.map (min 16777215) := by
  induction ls generalizing t pre with
  | nil => simp [satSums]
  | cons l ls ih =>
    simp only [satSums, List.scanl_cons, List.tail_cons]
    have := ih (min 16777215 (t + l)) (pre + l) (by omega)
    rw [this]
    cases ls <;> simp [List.scanl] <;> omega

end Interceptor.ReceiverReport

/-
C03: forward arrival (`0 < seq - end < 2^15`): slots between `end` and `seq` are cleared, `end`
moves, the cursor is re-anchored when the window slides past it.
-/
import Interceptor.Proofs.ReceiveLogAdd
set_option linter.unusedVariables false
namespace Interceptor.ReceiveLog
open Interceptor

/-- the cursor update of the forward branch. -/
def fwdCursor (l2 : Log) (q : Nat) : Log :=
  if add16 l2.lc 1 = q then { l2 with lc := q }
  else if sub16 q l2.lc > l2.size then fixLastConsecutive { l2 with lc := sub16 q l2.size }
  else l2

theorem add_fwd' (l : Log) (q : Nat) (h1 : l.started = true) (h2 : sub16 q l.end_ ≠ 0)
    (h3 : sub16 q l.end_ < 32768) :
    add l q = setBit (fwdCursor { clearFrom l (add16 l.end_ 1) (sub16 q l.end_ - 1) with end_ := q } q) q true := by
  rw [add_fwd l q h1 h2 h3]; rfl

/-- what the cursor update does, in unwrapped numbers. -/
theorem fwdCursor_spec {size : Nat} (hs : SizeOK size) (l2 : Log) (x lcU : Int)
    (hsize : l2.size = size) (hlc : l2.lc = sq lcU) (hend : l2.end_ = sq x)
    (h1 : lcU < x) (h2 : x - lcU < 65536) :
    ∃ lcU' : Int,
      (fwdCursor l2 (sq x)).size = size ∧ (fwdCursor l2 (sq x)).bits = l2.bits ∧
      (fwdCursor l2 (sq x)).started = l2.started ∧ (fwdCursor l2 (sq x)).end_ = sq x ∧
      (fwdCursor l2 (sq x)).lc = sq lcU' ∧
      lcU ≤ lcU' ∧ x - size ≤ lcU' ∧ lcU' ≤ x ∧
      (lcU' = lcU ∨ (lcU + 1 = x ∧ lcU' = x) ∨
        (lcU < x - size ∧ ∀ y : Int, x - size < y → y ≤ lcU' → getBit l2 (sq y) = true)) := by
  have hp := hs.pos
  have hle := hs.le
  unfold fwdCursor
  by_cases hc : add16 l2.lc 1 = sq x
  · rw [if_pos hc]
    have hx : lcU + 1 = x := by
      rw [hlc, add16_sq_one] at hc
      exact sq_inj _ _ hc (by omega) (by omega)
    exact ⟨x, hsize, rfl, rfl, hend, rfl, by omega, by omega, by omega, Or.inr (Or.inl ⟨hx, rfl⟩)⟩
  · rw [if_neg hc]
    have hd : sub16 (sq x) l2.lc = (x - lcU).toNat := by
      rw [hlc, sub16_sq]; exact sq_small _ (by omega) h2
    by_cases hg : sub16 (sq x) l2.lc > l2.size
    · rw [if_pos hg]
      rw [hd, hsize] at hg
      have e : sub16 (sq x) l2.size = sq (x - size) := by rw [hsize, sub16_sq_nat]
      rw [e]
      obtain ⟨y1, hy0, hy1, hfix, hset⟩ :=
        fix_spec { l2 with lc := sq (x - size) } (x - size) x rfl hend (by omega) (by omega)
      rw [hfix]
      refine ⟨y1, hsize, rfl, rfl, hend, rfl, by omega, by omega, by omega, Or.inr (Or.inr ⟨by omega, ?_⟩)⟩
      intro y hy2 hy3
      exact hset y hy2 hy3
    · rw [if_neg hg]
      rw [hd, hsize] at hg
      exact ⟨lcU, hsize, rfl, rfl, hend, hlc, by omega, by omega, by omega, Or.inl rfl⟩

theorem R_add_fwd {size : Nat} (hs : SizeOK size) {l : Log} {a : NackSpec.Stream} {lcU : Int}
    (h : R size l a lcU) (x : Int) (h1 : a.hi < x) (h2 : x < a.hi + 32768) :
    ∃ lcU' : Int, R size (add l (sq x))
      { first := a.first, hi := x, recv := (x :: a.recv).filter (fun y => decide (x - size < y)) } lcU' := by
  have hp := hs.pos
  have hle := hs.le
  have hsz := h.hsize
  have hbs : l.bits.size = l.size := by rw [h.hbits, h.hsize]
  have hps : 0 < l.size := by rw [h.hsize]; exact hp
  have hlo := h.hlo
  have hlcle := h.hle
  have e1 : sub16 (sq x) l.end_ = (x - a.hi).toNat := by
    rw [h.hend, sub16_sq]; unfold sq; omega
  have hm : ∀ y : Int, y ∈ (x :: a.recv).filter (fun y => decide (x - size < y)) ↔
      ((y = x ∨ y ∈ a.recv) ∧ x - size < y) := fun y => mem_recv' _ _ _ _
  rw [add_fwd' l (sq x) h.hstarted (by rw [e1]; omega) (by rw [e1]; omega)]
  rw [e1, h.hend, add16_sq_one]
  -- the log after the clearing loop
  obtain ⟨c1, c2, c3, c4, c5⟩ := clearFrom_fields l (sq (a.hi + 1)) ((x - a.hi).toNat - 1)
  have hhit : ∀ y : Int, a.hi < y → y < x →
      getBit (clearFrom l (sq (a.hi + 1)) ((x - a.hi).toNat - 1)) (sq y) = false := by
    intro y hy1 hy2
    apply clearFrom_hit l (a.hi + 1) _ (sq y) hbs hps
    refine ⟨(y - a.hi - 1).toNat, by omega, ?_⟩
    have : a.hi + 1 + ((y - a.hi - 1).toNat : Int) = y := by omega
    rw [this]
  have hmiss : ∀ y : Int, x - size < y → y ≤ a.hi →
      getBit (clearFrom l (sq (a.hi + 1)) ((x - a.hi).toNat - 1)) (sq y) = getBit l (sq y) := by
    intro y hy1 hy2
    apply clearFrom_miss l (a.hi + 1) _ (sq y) hbs hps
    intro j hj e
    rw [hsz] at e
    have := slot_inj hs (a.hi + 1 + j) y e (by omega) (by omega)
    omega
  -- name the intermediate logs
  generalize hL1 : clearFrom l (sq (a.hi + 1)) ((x - a.hi).toNat - 1) = L1 at *
  obtain ⟨L2, hL2⟩ : ∃ L2 : Log, L2 = { L1 with end_ := sq x } := ⟨_, rfl⟩
  rw [← hL2]
  have d1 : L2.size = size := by rw [hL2]; exact c1.trans hsz
  have d2 : L2.bits = L1.bits := by rw [hL2]
  have d3 : L2.lc = sq lcU := by rw [hL2]; exact c3.trans h.hlc
  have d4 : L2.started = true := by rw [hL2]; exact c4.trans h.hstarted
  have d5 : L2.end_ = sq x := by rw [hL2]
  have d6 : ∀ p : Nat, getBit L2 p = getBit L1 p := by intro p; rw [hL2]; rfl
  obtain ⟨lcU', f1, f2, f3, f4, f5, g1, g2, g3, g4⟩ := fwdCursor_spec hs L2 x lcU d1 d3 d5 (by omega) (by omega)
  generalize hL3 : fwdCursor L2 (sq x) = L3 at *
  have hget : ∀ p : Nat, getBit L3 p = getBit L1 p := by
    intro p
    rw [← d6]
    unfold getBit
    rw [f2, f1, d1]
  have hbs3 : L3.bits.size = size := by rw [f2, d2, c5, h.hbits]
  have hbs3' : L3.bits.size = L3.size := by rw [hbs3, f1]
  have hps3 : 0 < L3.size := by rw [f1]; exact hp
  refine ⟨lcU', ⟨by simp [f1], by simp [hbs3], by simp [f3, d4], by simp [f4], by simp [f5],
    by simp only []; omega, by simp only []; omega, by simp only []; have := h.hfirst; omega, ?_, ?_, ?_, ?_⟩⟩
  · -- the bitmap is exact on (lcU', x]
    intro y hy1 hy2
    simp only [] at hy2 ⊢
    by_cases hyx : y = x
    · subst hyx
      rw [getBit_setBit_same _ _ _ hbs3' hps3]
      simp [hm]; omega
    · rw [getBit_setBit _ _ _ _ hbs3' hps3]
      have hne : ¬ (sq x % L3.size = sq y % L3.size) := by
        intro e
        rw [f1] at e
        exact hyx (slot_inj hs x y e (by omega) (by omega)).symm
      simp only [hne, if_false]
      rw [hget]
      by_cases hyh : a.hi < y
      · rw [hhit y hyh (by omega)]
        have : y ∉ a.recv := fun hin => by have := (h.hwin y hin).2; omega
        simp [hm, hyx, this]
      · rw [hmiss y (by omega) (by omega), h.hbit y (by omega) (by omega)]
        have : x - size < y := by omega
        simp [hm, hyx, this]
  · -- everything up to the cursor has been received
    intro y hy1 hy2 hy3
    simp only [] at hy1 hy2 ⊢
    rw [hm]
    refine ⟨?_, hy2⟩
    by_cases hyx : y = x
    · exact Or.inl hyx
    · right
      rcases g4 with g | ⟨g, g'⟩ | ⟨g, g'⟩
      · exact h.hrecv y hy1 (by omega) (by omega)
      · exact h.hrecv y hy1 (by omega) (by omega)
      · have hb := g' y hy2 hy3
        rw [d6] at hb
        by_cases hyh : a.hi < y
        · rw [hhit y hyh (by omega)] at hb; exact absurd hb (by simp)
        · rw [hmiss y hy2 (by omega), h.hbit y (by omega) (by omega)] at hb
          simpa using hb
  · intro y hy
    simp only [] at hy ⊢
    obtain ⟨hy1 | hy1, hy2⟩ := (hm y).mp hy
    · omega
    · have := (h.hwin y hy1).2; omega
  · simp only []
    exact (hm x).mpr ⟨Or.inl rfl, by omega⟩

end Interceptor.ReceiveLog

/-
C19 helper lemmas, part 4: loss accounting and the remote loss figures as functions of the
history.
-/
import Interceptor.Proofs.StatsIsolation
namespace Interceptor.Stats
open Interceptor.Stats.Spec Interceptor.F64

/-! ### the loss view -/

structure LossView where
  unwr : Unwrapper.State
  seqInit : Bool
  first : Int
  highest : Int
  pr : Nat
  lost : Int

def lossOf (st : IStats) : LossView :=
  { unwr := st.unwr, seqInit := st.seqInit, first := st.firstSeq, highest := st.highestSeq, pr := st.inPR,
    lost := st.inLost }

def lossStep (v : LossView) (seq : Nat) : LossView :=
  let sn := (Unwrapper.unwrap v.unwr seq).2
  let first := if v.seqInit then v.first else sn
  let highest := if sn > v.highest then sn else v.highest
  { unwr := (Unwrapper.unwrap v.unwr seq).1, seqInit := true, first := first, highest := highest, pr := v.pr + 1,
    lost := highest - first + 1 - ((v.pr + 1 : Nat) : Int) }

theorem recordIncomingRTP_loss (s : Nat) (rate : Rat) (now : Int) (st : IStats) (p : Rtp) (h : p.ssrc = s) :
    lossOf (recordIncomingRTP s rate st now p) = lossStep (lossOf st) p.seq := by
  unfold recordIncomingRTP lossOf lossStep
  simp only [h, ne_eq, not_true_eq_false, if_false]
  cases hi : st.seqInit <;> (repeat' split) <;> simp_all

theorem recordOutgoingRTP_loss (s : Nat) (st : IStats) (p : Rtp) :
    lossOf (recordOutgoingRTP s st p) = lossOf st := by
  unfold recordOutgoingRTP lossOf
  simp only []
  repeat' split
  all_goals rfl

theorem rrStep_loss (s : Nat) (rate : Rat) (now : Int) (st : IStats) (r : Report) :
    lossOf (rrStep s rate now st r) = lossOf st := by
  unfold rrStep lossOf
  simp only []
  repeat' split
  all_goals rfl

theorem dlrrHit_loss (now : Int) (d l : Nat) (st : IStats) (v : Nat) :
    lossOf (dlrrHit now d l st v) = lossOf st := by
  unfold dlrrHit lossOf
  split <;> rfl

theorem dlrrSubStep_loss (s : Nat) (now : Int) (st : IStats) (x : DlrrSub) :
    lossOf (dlrrSubStep s now st x) = lossOf st := by
  unfold dlrrSubStep
  split
  · exact foldl_frame _ lossOf (fun a b => dlrrHit_loss now _ _ a b) _ st
  · rfl

theorem xrInBlock_loss (s : Nat) (now : Int) (st : IStats) (b : XrBlock) :
    lossOf (xrInBlock s now st b) = lossOf st := by
  cases b with
  | rrtr _ => rfl
  | dlrr subs => exact foldl_frame _ lossOf (dlrrSubStep_loss s now) subs st

theorem inStep_loss (s : Nat) (rate : Rat) (now : Int) (st : IStats) (p : Rtcp) :
    lossOf (inStep s rate now st p) = lossOf st := by
  cases hc : p.dest.contains s
  · rw [inStep_skip _ _ _ _ _ hc]
  · rw [inStep_hit _ _ _ _ _ hc]
    cases p with
    | nack _ _ => simp only [inSwitch]; split <;> rfl
    | pli _ _ => simp only [inSwitch]; split <;> rfl
    | fir _ _ _ => rfl
    | other _ => rfl
    | rr _ rs => exact foldl_frame _ lossOf (rrStep_loss s rate now) rs st
    | sr _ _ _ _ rs =>
      simp only [inSwitch, recordIncomingRR]
      rw [foldl_frame _ lossOf (rrStep_loss s rate now) rs]
      rfl
    | xr _ bs => exact foldl_frame _ lossOf (xrInBlock_loss s now) bs st

theorem xrOutBlock_loss (st : IStats) (b : XrBlock) : lossOf (xrOutBlock st b) = lossOf st := by
  cases b <;> rfl

theorem outStep_loss (s : Nat) (st : IStats) (p : Rtcp) : lossOf (outStep s st p) = lossOf st := by
  cases p with
  | nack _ _ => simp only [outStep]; split <;> rfl
  | pli _ _ => simp only [outStep]; split <;> rfl
  | fir _ _ _ => simp only [outStep]; split <;> rfl
  | sr _ _ _ _ _ => simp only [outStep]; split <;> rfl
  | other _ => rfl
  | rr _ _ => rfl
  | xr _ bs => exact foldl_frame _ lossOf xrOutBlock_loss bs st

theorem fold_loss (s : Nat) (rate : Rat) (w : List Event) (st : IStats) :
    lossOf (w.foldl (recStep s rate) st) = ((received s w).map (·.seq)).foldl lossStep (lossOf st) := by
  induction w generalizing st with
  | nil => rfl
  | cons e w ih =>
    rw [List.foldl_cons, ih]
    cases e with
    | bind _ _ => rfl
    | close => rfl
    | rtcpIn now pkts =>
      simp only [recStep, recordIncomingRTCP, received, List.filterMap_cons]
      rw [foldl_frame _ lossOf (inStep_loss s rate now) pkts]
    | rtcpOut pkts =>
      simp only [recStep, recordOutgoingRTCP, received, List.filterMap_cons]
      rw [foldl_frame _ lossOf (outStep_loss s) pkts]
    | rtpOut via p =>
      simp only [recStep, received, List.filterMap_cons]
      split
      · rw [recordOutgoingRTP_loss]
      · rfl
    | rtpIn now via p =>
      simp only [recStep, received, List.filterMap_cons]
      by_cases hv : via = s
      · by_cases hp : p.ssrc = s
        · simp only [hv, hp, and_self, if_true, List.map_cons, List.foldl_cons]
          rw [← hp, recordIncomingRTP_loss _ _ _ _ _ rfl]
        · simp [hv, hp, recordIncomingRTP]
      · simp [hv]

/-- `v` summarises the unwrapped numbers `us` seen so far. -/
def Summ (v : LossView) (us : List Int) : Prop :=
  v.seqInit = !us.isEmpty ∧ (∀ f rest, us = f :: rest → v.first = f) ∧ v.highest = us.foldl max 0 ∧
    v.pr = us.length ∧ v.lost = lostOf us

theorem lostOf_snoc (us : List Int) (sn : Int) :
    lostOf (us ++ [sn]) = (max (us.foldl max 0) sn - (us ++ [sn]).headD 0 + 1) - ((us.length + 1 : Nat) : Int) := by
  cases us with
  | nil => simp [lostOf]
  | cons a t => simp [lostOf, List.foldl_append]

theorem summ_step (v : LossView) (us : List Int) (x : Nat) (h : Summ v us) :
    Summ (lossStep v x) (us ++ [(Unwrapper.unwrap v.unwr x).2]) := by
  obtain ⟨h1, h2, h3, h4, h5⟩ := h
  have hmax : (if (Unwrapper.unwrap v.unwr x).2 > v.highest then (Unwrapper.unwrap v.unwr x).2 else v.highest)
      = max (us.foldl max 0) (Unwrapper.unwrap v.unwr x).2 := by
    rw [h3, Int.max_def]
    split <;> split <;> omega
  refine ⟨?_, ?_, ?_, ?_, ?_⟩
  · simp [lossStep]
  · intro f rest hf
    cases us with
    | nil =>
      simp only [List.nil_append, List.cons.injEq] at hf
      simp only [List.isEmpty_nil, Bool.not_true] at h1
      simp [lossStep, h1, hf.1]
    | cons a t =>
      simp only [List.cons_append, List.cons.injEq] at hf
      simp only [List.isEmpty_cons, Bool.not_false] at h1
      simp only [lossStep, h1, if_true]
      rw [← hf.1]
      exact h2 a t rfl
  · simp only [lossStep, List.foldl_append, List.foldl_cons, List.foldl_nil]
    exact hmax
  · simp [lossStep, h4]
  · rw [lostOf_snoc]
    simp only [lossStep]
    rw [hmax, h4]
    cases us with
    | nil =>
      simp only [List.isEmpty_nil, Bool.not_true] at h1
      simp [h1]
    | cons a t =>
      simp only [List.isEmpty_cons, Bool.not_false] at h1
      simp [h1, h2 a t rfl]

theorem summ_fold (seqs : List Nat) (v : LossView) (us : List Int) (h : Summ v us) :
    Summ (seqs.foldl lossStep v) (us ++ Unwrapper.unwrapAll v.unwr seqs) := by
  induction seqs generalizing v us with
  | nil => simpa [Unwrapper.unwrapAll] using h
  | cons x seqs ih =>
    have := ih (lossStep v x) _ (summ_step v us x h)
    simpa [Unwrapper.unwrapAll, lossStep, List.append_assoc] using this

theorem fold_lost (s : Nat) (rate : Rat) (w : List Event) :
    (w.foldl (recStep s rate) {}).inLost = lostOf (unwrapped s w) := by
  have h := fold_loss s rate w {}
  have hs : Summ (lossOf {}) [] := by
    refine ⟨rfl, ?_, rfl, rfl, rfl⟩
    intro f rest hf
    cases hf
  have := summ_fold ((received s w).map (·.seq)) (lossOf {}) [] hs
  rw [← h] at this
  exact this.2.2.2.2

/-! ### the remote loss figures -/

theorem rrStep_remote (s : Nat) (rate : Rat) (now : Int) (st : IStats) (r : Report) :
    remoteLossOf (rrStep s rate now st r)
      = if r.ssrc == s then remoteOf rate (some r) else remoteLossOf st := by
  unfold rrStep remoteLossOf remoteOf
  by_cases h : r.ssrc = s
  · simp only [h, ne_eq, not_true_eq_false, if_false, beq_self_eq_true, if_true]
    repeat' split
    all_goals rfl
  · have hb : (r.ssrc == s) = false := by simp [h]
    simp [h, hb]

/-- overwrite with each report in turn: the last one wins. -/
def overwrite (rate : Rat) (v : RemoteLoss) (rs : List Report) : RemoteLoss :=
  rs.foldl (fun _ r => remoteOf rate (some r)) v

theorem overwrite_last (rate : Rat) (v : RemoteLoss) (rs : List Report) :
    overwrite rate v rs = match rs.getLast? with
      | none => v
      | some r => remoteOf rate (some r) := by
  unfold overwrite
  induction rs generalizing v with
  | nil => rfl
  | cons r rs ih =>
    rw [List.foldl_cons, ih]
    cases rs with
    | nil => rfl
    | cons r2 rs =>
      rw [List.getLast?_cons_cons]
      cases h : (r2 :: rs).getLast? with
      | none => simp at h
      | some x => rfl

theorem recordIncomingRR_remote (s : Nat) (rate : Rat) (now : Int) (rs : List Report) (st : IStats) :
    remoteLossOf (recordIncomingRR s rate st rs now)
      = overwrite rate (remoteLossOf st) (rs.filter (·.ssrc == s)) := by
  unfold recordIncomingRR overwrite
  induction rs generalizing st with
  | nil => rfl
  | cons r rs ih =>
    rw [List.foldl_cons, ih, rrStep_remote, List.filter_cons]
    cases r.ssrc == s <;> rfl

theorem recordIncomingRTP_remote (s : Nat) (rate : Rat) (now : Int) (st : IStats) (p : Rtp) :
    remoteLossOf (recordIncomingRTP s rate st now p) = remoteLossOf st := by
  unfold recordIncomingRTP remoteLossOf
  simp only []
  repeat' split
  all_goals rfl

theorem recordOutgoingRTP_remote (s : Nat) (st : IStats) (p : Rtp) :
    remoteLossOf (recordOutgoingRTP s st p) = remoteLossOf st := by
  unfold recordOutgoingRTP remoteLossOf
  simp only []
  repeat' split
  all_goals rfl

theorem dlrrHit_remote (now : Int) (d l : Nat) (st : IStats) (v : Nat) :
    remoteLossOf (dlrrHit now d l st v) = remoteLossOf st := by
  unfold dlrrHit remoteLossOf
  split <;> rfl

theorem dlrrSubStep_remote (s : Nat) (now : Int) (st : IStats) (x : DlrrSub) :
    remoteLossOf (dlrrSubStep s now st x) = remoteLossOf st := by
  unfold dlrrSubStep
  split
  · exact foldl_frame _ remoteLossOf (fun a b => dlrrHit_remote now _ _ a b) _ st
  · rfl

theorem xrInBlock_remote (s : Nat) (now : Int) (st : IStats) (b : XrBlock) :
    remoteLossOf (xrInBlock s now st b) = remoteLossOf st := by
  cases b with
  | rrtr _ => rfl
  | dlrr subs => exact foldl_frame _ remoteLossOf (dlrrSubStep_remote s now) subs st

theorem xrOutBlock_remote (st : IStats) (b : XrBlock) : remoteLossOf (xrOutBlock st b) = remoteLossOf st := by
  cases b <;> rfl

theorem outStep_remote (s : Nat) (st : IStats) (p : Rtcp) : remoteLossOf (outStep s st p) = remoteLossOf st := by
  cases p with
  | nack _ _ => simp only [outStep]; split <;> rfl
  | pli _ _ => simp only [outStep]; split <;> rfl
  | fir _ _ _ => simp only [outStep]; split <;> rfl
  | sr _ _ _ _ _ => simp only [outStep]; split <;> rfl
  | other _ => rfl
  | rr _ _ => rfl
  | xr _ bs => exact foldl_frame _ remoteLossOf xrOutBlock_remote bs st

/-- a packet whose destinations do not include `s` carries no report block about `s`. -/
theorem no_reports_of_skip (s : Nat) (p : Rtcp) (h : p.dest.contains s = false) :
    (reportsOfPkt p).filter (·.ssrc == s) = [] := by
  rw [List.filter_eq_nil_iff]
  intro r hr hrs
  have hs : r.ssrc = s := by simpa using hrs
  have hmem : s ∈ p.dest := by
    cases p with
    | sr ssrc ntp pc oc rs =>
      simp only [reportsOfPkt] at hr
      simp only [Rtcp.dest, List.mem_append, List.mem_map]
      exact Or.inl ⟨r, hr, hs⟩
    | rr ssrc rs =>
      simp only [reportsOfPkt] at hr
      simp only [Rtcp.dest, List.mem_map]
      exact ⟨r, hr, hs⟩
    | xr _ _ => simp [reportsOfPkt] at hr
    | nack _ _ => simp [reportsOfPkt] at hr
    | pli _ _ => simp [reportsOfPkt] at hr
    | fir _ _ _ => simp [reportsOfPkt] at hr
    | other _ => simp [reportsOfPkt] at hr
  have : p.dest.contains s = true := by simpa using hmem
  rw [this] at h
  cases h

theorem inStep_remote (s : Nat) (rate : Rat) (now : Int) (st : IStats) (p : Rtcp) :
    remoteLossOf (inStep s rate now st p)
      = overwrite rate (remoteLossOf st) ((reportsOfPkt p).filter (·.ssrc == s)) := by
  cases hc : p.dest.contains s
  · rw [inStep_skip _ _ _ _ _ hc, no_reports_of_skip s p hc]; rfl
  · rw [inStep_hit _ _ _ _ _ hc]
    cases p with
    | nack _ _ => simp only [inSwitch, reportsOfPkt]; split <;> rfl
    | pli _ _ => simp only [inSwitch, reportsOfPkt]; split <;> rfl
    | fir _ _ _ => rfl
    | other _ => rfl
    | rr _ rs => exact recordIncomingRR_remote s rate now rs st
    | sr _ _ _ _ rs =>
      simp only [inSwitch, reportsOfPkt]
      rw [recordIncomingRR_remote]
      rfl
    | xr _ bs => exact foldl_frame _ remoteLossOf (xrInBlock_remote s now) bs st

theorem overwrite_append (rate : Rat) (v : RemoteLoss) (a b : List Report) :
    overwrite rate v (a ++ b) = overwrite rate (overwrite rate v a) b := by
  unfold overwrite
  rw [List.foldl_append]

theorem inFold_remote (s : Nat) (rate : Rat) (now : Int) (pkts : List Rtcp) (st : IStats) :
    remoteLossOf (pkts.foldl (inStep s rate now) st)
      = overwrite rate (remoteLossOf st) ((pkts.flatMap reportsOfPkt).filter (·.ssrc == s)) := by
  induction pkts generalizing st with
  | nil => rfl
  | cons p pkts ih =>
    rw [List.foldl_cons, ih, inStep_remote, List.flatMap_cons, List.filter_append, overwrite_append]

theorem fold_remote (s : Nat) (rate : Rat) (w : List Event) (st : IStats) :
    remoteLossOf (w.foldl (recStep s rate) st) = overwrite rate (remoteLossOf st) (reportsFor s w) := by
  induction w generalizing st with
  | nil => rfl
  | cons e w ih =>
    rw [List.foldl_cons, ih]
    cases e with
    | bind _ _ => rfl
    | close => rfl
    | rtcpIn now pkts =>
      simp only [recStep, recordIncomingRTCP, reportsFor, rtcpInPkts, List.flatMap_cons, List.flatMap_append,
        List.filter_append]
      rw [inFold_remote, overwrite_append]
    | rtcpOut pkts =>
      simp only [recStep, recordOutgoingRTCP, reportsFor, rtcpInPkts, List.flatMap_cons, List.nil_append]
      rw [foldl_frame _ remoteLossOf (outStep_remote s) pkts]
    | rtpOut via p =>
      simp only [recStep, reportsFor, rtcpInPkts, List.flatMap_cons, List.nil_append]
      split
      · rw [recordOutgoingRTP_remote]
      · rfl
    | rtpIn now via p =>
      simp only [recStep, reportsFor, rtcpInPkts, List.flatMap_cons, List.nil_append]
      split
      · rw [recordIncomingRTP_remote]
      · rfl

theorem fold_remote_init (s : Nat) (rate : Rat) (w : List Event) :
    remoteLossOf (w.foldl (recStep s rate) {}) = remoteOf rate (reportsFor s w).getLast? := by
  rw [fold_remote, overwrite_last]
  cases (reportsFor s w).getLast? <;> rfl

end Interceptor.Stats

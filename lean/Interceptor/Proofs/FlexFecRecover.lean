/-
Helper lemmas for C14: the draft's recovery procedure applied to the encoder's repair packet
with one covered packet removed returns that packet.  Core Lean only.
-/
import Interceptor.Proofs.FlexFecXor
namespace Interceptor.FlexFec
open Interceptor.FlexFecSpec (xorBytes bitString recoverAt FecHeader beVal slice)

theorem exists_cons8 (m : Bytes) (h : 8 ≤ m.length) :
    ∃ a0 a1 a2 a3 a4 a5 a6 a7 rest, m = a0 :: a1 :: a2 :: a3 :: a4 :: a5 :: a6 :: a7 :: rest := by
  rcases m with _ | ⟨a0, m⟩
  · simp at h
  rcases m with _ | ⟨a1, m⟩
  · simp at h
  rcases m with _ | ⟨a2, m⟩
  · simp at h
  rcases m with _ | ⟨a3, m⟩
  · simp at h
  rcases m with _ | ⟨a4, m⟩
  · simp at h
  rcases m with _ | ⟨a5, m⟩
  · simp at h
  rcases m with _ | ⟨a6, m⟩
  · simp at h
  rcases m with _ | ⟨a7, m⟩
  · simp at h
  exact ⟨a0, a1, a2, a3, a4, a5, a6, a7, m, rfl⟩

theorem exists_cons12 (m : Bytes) (h : 12 ≤ m.length) :
    ∃ a0 a1 a2 a3 a4 a5 a6 a7 a8 a9 a10 a11 rest, m = a0 :: a1 :: a2 :: a3 :: a4 :: a5 :: a6 :: a7 :: a8 :: a9 :: a10 :: a11 :: rest := by
  rcases m with _ | ⟨a0, m⟩
  · simp at h
  rcases m with _ | ⟨a1, m⟩
  · simp at h
  rcases m with _ | ⟨a2, m⟩
  · simp at h
  rcases m with _ | ⟨a3, m⟩
  · simp at h
  rcases m with _ | ⟨a4, m⟩
  · simp at h
  rcases m with _ | ⟨a5, m⟩
  · simp at h
  rcases m with _ | ⟨a6, m⟩
  · simp at h
  rcases m with _ | ⟨a7, m⟩
  · simp at h
  rcases m with _ | ⟨a8, m⟩
  · simp at h
  rcases m with _ | ⟨a9, m⟩
  · simp at h
  rcases m with _ | ⟨a10, m⟩
  · simp at h
  rcases m with _ | ⟨a11, m⟩
  · simp at h
  exact ⟨a0, a1, a2, a3, a4, a5, a6, a7, a8, a9, a10, a11, m, rfl⟩

theorem bitString_eq (p : Bytes) (h : 8 ≤ p.length) :
    bitString p = [p.getD 0 0, p.getD 1 0, (p.length - 12) / 256 % 256, (p.length - 12) % 256,
                   p.getD 4 0, p.getD 5 0, p.getD 6 0, p.getD 7 0] := by
  obtain ⟨a0, a1, a2, a3, a4, a5, a6, a7, rest, e⟩ := exists_cons8 p h
  subst e
  simp [bitString, slice]

theorem list8_eq (l : Bytes) (h : l.length = 8) :
    l = [l.getD 0 0, l.getD 1 0, l.getD 2 0, l.getD 3 0, l.getD 4 0, l.getD 5 0, l.getD 6 0, l.getD 7 0] := by
  obtain ⟨a0, a1, a2, a3, a4, a5, a6, a7, rest, e⟩ := exists_cons8 l (by omega)
  subst e
  have : rest = [] := by
    cases rest with
    | nil => rfl
    | cons x xs => simp at h
  subst this
  simp

set_option maxRecDepth 100000 in
theorem version_byte : ∀ x, x < 256 → x / 64 = 2 → 128 ||| (x % 64) = x := by decide

/-- reassembling a packet from its recovered fields. -/
theorem rebuild (m : Bytes) (h12 : 12 ≤ m.length) (hb : ∀ x ∈ m, x < 256) (hv : m.getD 0 0 / 64 = 2) :
    [128 ||| (m.getD 0 0 % 64), m.getD 1 0, seqOf m / 256, seqOf m % 256]
      ++ [m.getD 4 0, m.getD 5 0, m.getD 6 0, m.getD 7 0] ++ slice m 8 4 ++ m.drop 12 = m := by
  obtain ⟨a0, a1, a2, a3, a4, a5, a6, a7, a8, a9, a10, a11, rest, e⟩ := exists_cons12 m h12
  subst e
  have h0 : a0 < 256 := hb a0 (by simp)
  have h2 : a2 < 256 := hb a2 (by simp)
  have h3 : a3 < 256 := hb a3 (by simp)
  have hv' : a0 / 64 = 2 := by simpa using hv
  have e0 := version_byte a0 h0 hv'
  have e2 : (a2 * 256 + a3) / 256 = a2 := by omega
  have e3 : (a2 * 256 + a3) % 256 = a3 := by omega
  simp [seqOf, slice, e0, e2, e3]

/-- every recovered field: (xor over the cover) xor (xor over the others) is the lost packet's value. -/
theorem field_recover (L : List Nat) (hnd : L.Nodup) (g : Nat → Bytes) (j : Nat) (hj : j ∈ L) (f : Bytes → Nat) :
    (0 ^^^ xsum ((L.map g).map f)) ^^^ xsum (((L.filter (· != j)).map g).map f) = f (g j) := by
  simp only [List.map_map, Nat.zero_xor]
  exact xsum_cancel (f ∘ g) j L hnd hj

/-- the zero accumulator the encoder starts from (`make([]byte, …)`). -/
def acc0 (mp : Nat) : Acc := ⟨0, 0, 0, 0, 0, 0, 0, 0, List.replicate mp 0⟩

/-- ★ core of `recover_exact`: FEC header bytes 0..7 and repair payload as the encoder computes them
over the cover `L`, the draft's recovery run on the others returns the lost packet. -/
theorem recoverAt_core
    (L : List Nat) (hnd : L.Nodup) (g : Nat → Bytes) (j : Nat) (hj : j ∈ L)
    (hlen : ∀ k ∈ L, 12 ≤ (g k).length)
    (hlenj : (g j).length - 12 < 65536)
    (hbytes : ∀ x ∈ g j, x < 256) (hver : (g j).getD 0 0 / 64 = 2)
    (mp : Nat) (pre : Bytes) (h : FecHeader) (pos : Nat) (a : Acc)
    (ha : (L.map g).foldl Acc.step (acc0 mp) = a)
    (hpre : pre.take 8 = [a.h0, a.h1, a.l2, a.l3, a.t4, a.t5, a.t6, a.t7])
    (hsize : pre.length = h.size)
    (hssrc : h.ssrc = slice (g j) 8 4)
    (hsn : (h.snBase + pos) % 65536 = seqOf (g j)) :
    recoverAt (pre ++ a.rep) h pos ((L.filter (· != j)).map g) = some (g j) := by
  have hj12 := hlen j hj
  -- the encoder's fields
  have f_h0 : a.h0 % 64 = (0 ^^^ xsum ((L.map g).map (·.getD 0 0))) % 64 := by
    rw [← ha]; exact foldl_step_h0 _ _
  have f_h1 : a.h1 = 0 ^^^ xsum ((L.map g).map (·.getD 1 0)) := by
    rw [← ha]; exact foldl_step_field (·.h1) (·.getD 1 0) (fun _ _ => rfl) _ _
  have f_l2 : a.l2 = 0 ^^^ xsum ((L.map g).map (fun p => (p.length - 12) / 256 % 256)) := by
    rw [← ha]
    refine foldl_step_field (·.l2) _ (fun a p => ?_) _ _
    show a.l2 ^^^ _ = _
    congr 1
    rw [Nat.shiftRight_eq_div_pow]
    omega
  have f_l3 : a.l3 = 0 ^^^ xsum ((L.map g).map (fun p => (p.length - 12) % 256)) := by
    rw [← ha]
    refine foldl_step_field (·.l3) _ (fun a p => ?_) _ _
    show a.l3 ^^^ _ = _
    congr 1
    omega
  have f_t4 : a.t4 = 0 ^^^ xsum ((L.map g).map (·.getD 4 0)) := by
    rw [← ha]; exact foldl_step_field (·.t4) (·.getD 4 0) (fun _ _ => rfl) _ _
  have f_t5 : a.t5 = 0 ^^^ xsum ((L.map g).map (·.getD 5 0)) := by
    rw [← ha]; exact foldl_step_field (·.t5) (·.getD 5 0) (fun _ _ => rfl) _ _
  have f_t6 : a.t6 = 0 ^^^ xsum ((L.map g).map (·.getD 6 0)) := by
    rw [← ha]; exact foldl_step_field (·.t6) (·.getD 6 0) (fun _ _ => rfl) _ _
  have f_t7 : a.t7 = 0 ^^^ xsum ((L.map g).map (·.getD 7 0)) := by
    rw [← ha]; exact foldl_step_field (·.t7) (·.getD 7 0) (fun _ _ => rfl) _ _
  have f_rep : a.rep = (L.map g).foldl (fun r p => xorInto r (p.drop 12)) (List.replicate mp 0) := by
    rw [← ha, foldl_step_rep]; rfl
  -- the received packets
  have hothers8 : ∀ q ∈ (L.filter (· != j)).map g, 8 ≤ q.length := by
    intro q hq
    obtain ⟨k, hk, rfl⟩ := List.mem_map.1 hq
    have := hlen k (List.mem_filter.1 hk).1
    omega
  have hpre8 : 8 ≤ pre.length := by
    have : (pre.take 8).length = 8 := by rw [hpre]; rfl
    rw [List.length_take] at this
    omega
  have hslice : slice (pre ++ a.rep) 0 8 = [a.h0, a.h1, a.l2, a.l3, a.t4, a.t5, a.t6, a.t7] := by
    unfold slice
    rw [List.drop_zero, List.take_append_of_le_length hpre8, hpre]
  have hdrop : (pre ++ a.rep).drop h.size = a.rep := by
    rw [← hsize]; simp
  have hfun1 : (fun (acc p : Bytes) => xorBytes acc (bitString p)) = (fun acc p => xorInto acc (bitString p)) := by
    funext acc p; exact xorBytes_eq_xorInto _ _
  have hfun2 : (fun (acc p : Bytes) => xorBytes acc (p.drop 12)) = (fun acc p => xorInto acc (p.drop 12)) := by
    funext acc p; exact xorBytes_eq_xorInto _ _
  -- the recovered 64-bit string
  generalize hR : ((L.filter (· != j)).map g).foldl (fun acc p => xorInto acc (bitString p))
      [a.h0, a.h1, a.l2, a.l3, a.t4, a.t5, a.t6, a.t7] = R
  have hRlen : R.length = 8 := by
    rw [← hR, foldl_xorInto_length_eq bitString]
    · rfl
    · intro q hq; rw [bitString_eq q (hothers8 q hq)]; simp
  have hRk : ∀ (k : Nat) (F : Bytes → Nat), (∀ p : Bytes, 8 ≤ p.length → (bitString p).getD k 0 = F p) →
      R.getD k 0 = [a.h0, a.h1, a.l2, a.l3, a.t4, a.t5, a.t6, a.t7].getD k 0
        ^^^ xsum (((L.filter (· != j)).map g).map F) := by
    intro k F hF
    rw [← hR, foldl_xorInto_getD]
    congr 2
    apply List.map_congr_left
    intro p hp
    exact hF p (hothers8 p hp)
  have r0 : R.getD 0 0 % 64 = (g j).getD 0 0 % 64 := by
    rw [hRk 0 (·.getD 0 0) (fun p hp => by rw [bitString_eq p hp]; rfl)]
    have e64 : (64 : Nat) = 2 ^ 6 := rfl
    show (a.h0 ^^^ _) % 64 = _
    rw [e64, Nat.xor_mod_two_pow, ← e64, f_h0, e64, ← Nat.xor_mod_two_pow,
      field_recover L hnd g j hj (·.getD 0 0)]
  have r1 : R.getD 1 0 = (g j).getD 1 0 := by
    rw [hRk 1 (·.getD 1 0) (fun p hp => by rw [bitString_eq p hp]; rfl)]
    show a.h1 ^^^ _ = _
    rw [f_h1, field_recover L hnd g j hj (·.getD 1 0)]
  have r2 : R.getD 2 0 = ((g j).length - 12) / 256 % 256 := by
    rw [hRk 2 (fun p => (p.length - 12) / 256 % 256) (fun p hp => by rw [bitString_eq p hp]; rfl)]
    show a.l2 ^^^ _ = _
    rw [f_l2, field_recover L hnd g j hj (fun p => (p.length - 12) / 256 % 256)]
  have r3 : R.getD 3 0 = ((g j).length - 12) % 256 := by
    rw [hRk 3 (fun p => (p.length - 12) % 256) (fun p hp => by rw [bitString_eq p hp]; rfl)]
    show a.l3 ^^^ _ = _
    rw [f_l3, field_recover L hnd g j hj (fun p => (p.length - 12) % 256)]
  have r4 : R.getD 4 0 = (g j).getD 4 0 := by
    rw [hRk 4 (·.getD 4 0) (fun p hp => by rw [bitString_eq p hp]; rfl)]
    show a.t4 ^^^ _ = _
    rw [f_t4, field_recover L hnd g j hj (·.getD 4 0)]
  have r5 : R.getD 5 0 = (g j).getD 5 0 := by
    rw [hRk 5 (·.getD 5 0) (fun p hp => by rw [bitString_eq p hp]; rfl)]
    show a.t5 ^^^ _ = _
    rw [f_t5, field_recover L hnd g j hj (·.getD 5 0)]
  have r6 : R.getD 6 0 = (g j).getD 6 0 := by
    rw [hRk 6 (·.getD 6 0) (fun p hp => by rw [bitString_eq p hp]; rfl)]
    show a.t6 ^^^ _ = _
    rw [f_t6, field_recover L hnd g j hj (·.getD 6 0)]
  have r7 : R.getD 7 0 = (g j).getD 7 0 := by
    rw [hRk 7 (·.getD 7 0) (fun p hp => by rw [bitString_eq p hp]; rfl)]
    show a.t7 ^^^ _ = _
    rw [f_t7, field_recover L hnd g j hj (·.getD 7 0)]
  -- the recovered body
  generalize hB : ((L.filter (· != j)).map g).foldl (fun acc p => xorInto acc (p.drop 12)) a.rep = B
  have hBk : ∀ i, B.getD i 0 = ((g j).drop 12).getD i 0 := by
    intro i
    rw [← hB, foldl_xorInto_getD (fun p => p.drop 12), f_rep, foldl_xorInto_getD (fun p => p.drop 12),
      getD_replicate_zero]
    exact field_recover L hnd g j hj (fun p => (p.drop 12).getD i 0)
  have hBlen : ((g j).drop 12).length ≤ B.length := by
    rw [← hB]
    refine Nat.le_trans ?_ (foldl_xorInto_length_init (fun p => p.drop 12) _ _)
    rw [f_rep]
    exact foldl_xorInto_length_mem (fun p => p.drop 12) _ _ (g j) (List.mem_map.2 ⟨j, hj, rfl⟩)
  have hy : ((g j).drop 12).length = (g j).length - 12 := List.length_drop
  have hBtake : B.take ((g j).length - 12) = (g j).drop 12 := by
    rw [← hy]
    exact take_eq_of_getD _ _ hBlen (fun i _ => hBk i)
  -- assemble
  unfold recoverAt
  simp only [hslice, hdrop, hfun1, hfun2, hR, hB]
  rw [list8_eq R hRlen]
  have hyv : beVal (slice [R.getD 0 0, R.getD 1 0, R.getD 2 0, R.getD 3 0, R.getD 4 0, R.getD 5 0,
      R.getD 6 0, R.getD 7 0] 2 2) = (g j).length - 12 := by
    simp only [slice, beVal, r2, r3]
    simp
    omega
  have hs4 : slice [R.getD 0 0, R.getD 1 0, R.getD 2 0, R.getD 3 0, R.getD 4 0, R.getD 5 0,
      R.getD 6 0, R.getD 7 0] 4 4 = [(g j).getD 4 0, (g j).getD 5 0, (g j).getD 6 0, (g j).getD 7 0] := by
    show [R.getD 4 0, R.getD 5 0, R.getD 6 0, R.getD 7 0] = _
    rw [r4, r5, r6, r7]
  rw [hyv, hs4]
  have hnot : ¬ B.length < (g j).length - 12 := by omega
  rw [if_neg hnot, hBtake, hssrc, hsn]
  have e0 : ([R.getD 0 0, R.getD 1 0, R.getD 2 0, R.getD 3 0, R.getD 4 0, R.getD 5 0,
      R.getD 6 0, R.getD 7 0].getD 0 0 &&& 63) = (g j).getD 0 0 % 64 := by
    show R.getD 0 0 &&& 63 = _
    rw [← r0]; exact Nat.and_two_pow_sub_one_eq_mod _ 6
  have e1 : [R.getD 0 0, R.getD 1 0, R.getD 2 0, R.getD 3 0, R.getD 4 0, R.getD 5 0,
      R.getD 6 0, R.getD 7 0].getD 1 0 = (g j).getD 1 0 := r1
  rw [e0, e1]
  exact congrArg some (rebuild (g j) hj12 hbytes hver)

end Interceptor.FlexFec

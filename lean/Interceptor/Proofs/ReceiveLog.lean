/-
Helper lemmas for C03: the ring (bitmap indexed modulo `size`) against unwrapped numbers.
-/
import Interceptor.Model.ReceiveLog
import Interceptor.Spec.Nack
set_option linter.unusedVariables false
namespace Interceptor.ReceiveLog
open Interceptor

/-- admissible window sizes for the theorems (the Go constructor admits 64 … 32768, powers of two). -/
structure SizeOK (size : Nat) : Prop where
  pos : 0 < size
  le : size ≤ 32768
  dvd : size ∣ 65536

/-- the 16-bit value of an unwrapped number. -/
def sq (x : Int) : Nat := (x % 65536).toNat

theorem sq_lt (x : Int) : sq x < 65536 := by unfold sq; omega
theorem add16_sq (x : Int) (j : Nat) : add16 (sq x) j = sq (x + j) := by unfold add16 sq; omega
theorem sub16_sq (x y : Int) : sub16 (sq x) (sq y) = sq (x - y) := by unfold sub16 sq; omega
theorem sub16_sq_nat (x : Int) (k : Nat) : sub16 (sq x) k = sq (x - k) := by unfold sub16 sq; omega
theorem sq_small (x : Int) (h : 0 ≤ x) (h2 : x < 65536) : sq x = x.toNat := by unfold sq; omega
theorem sq_natCast (q : Nat) (h : q < 65536) : sq (q : Int) = q := by unfold sq; omega

/-- slot of an unwrapped number. -/
theorem slot_sq {size : Nat} (hs : SizeOK size) (x : Int) :
    ((sq x % size : Nat) : Int) = x % (size : Int) := by
  have h1 : ((sq x : Nat) : Int) = x % 65536 := by unfold sq; omega
  have hd : (size : Int) ∣ 65536 := by
    have := Int.natCast_dvd_natCast.mpr hs.dvd
    simpa using this
  rw [Int.natCast_emod, h1, Int.emod_emod_of_dvd x hd]

/-- two unwrapped numbers less than `size` apart occupy different slots. -/
theorem slot_inj {size : Nat} (hs : SizeOK size) (x y : Int)
    (h : sq x % size = sq y % size) (h1 : x - y < size) (h2 : y - x < size) : x = y := by
  have hx := slot_sq hs x
  have hy := slot_sq hs y
  rw [h] at hx
  have e : x % (size : Int) = y % (size : Int) := by rw [← hx, ← hy]
  have e2 := Int.emod_eq_emod_iff_emod_sub_eq_zero.mp e
  have e3 := Int.dvd_of_emod_eq_zero e2
  have e4 : x - y = 0 := by
    apply Int.eq_zero_of_dvd_of_natAbs_lt_natAbs e3
    omega
  omega

/-! ### bits -/

@[simp] theorem setBit_size (l : Log) (p : Nat) (v : Bool) : (setBit l p v).size = l.size := rfl
@[simp] theorem setBit_end (l : Log) (p : Nat) (v : Bool) : (setBit l p v).end_ = l.end_ := rfl
@[simp] theorem setBit_lc (l : Log) (p : Nat) (v : Bool) : (setBit l p v).lc = l.lc := rfl
@[simp] theorem setBit_started (l : Log) (p : Nat) (v : Bool) : (setBit l p v).started = l.started := rfl
@[simp] theorem setBit_bits_size (l : Log) (p : Nat) (v : Bool) : (setBit l p v).bits.size = l.bits.size := by
  simp [setBit]

theorem getBit_setBit (l : Log) (p q : Nat) (v : Bool) (hb : l.bits.size = l.size) (h0 : 0 < l.size) :
    getBit (setBit l p v) q = if p % l.size = q % l.size then v else getBit l q := by
  have hp : p % l.size < l.bits.size := by rw [hb]; exact Nat.mod_lt _ h0
  unfold getBit setBit
  simp only [Array.getD_eq_getD_getElem?, Array.getElem?_setIfInBounds]
  split
  · simp [hp]
  · rfl

theorem getBit_setBit_same (l : Log) (p : Nat) (v : Bool) (hb : l.bits.size = l.size) (h0 : 0 < l.size) :
    getBit (setBit l p v) p = v := by
  rw [getBit_setBit l p p v hb h0]; simp

theorem getBit_lc_irrelevant (l : Log) (n : Nat) (q : Nat) : getBit { l with lc := n } q = getBit l q := rfl
theorem getBit_end_irrelevant (l : Log) (n : Nat) (q : Nat) : getBit { l with end_ := n } q = getBit l q := rfl

/-! ### clearFrom -/

theorem clearFrom_fields (l : Log) (i n : Nat) :
    (clearFrom l i n).size = l.size ∧ (clearFrom l i n).end_ = l.end_ ∧ (clearFrom l i n).lc = l.lc ∧
    (clearFrom l i n).started = l.started ∧ (clearFrom l i n).bits.size = l.bits.size := by
  induction n generalizing l i with
  | zero => simp [clearFrom]
  | succ n ih =>
    have := ih (setBit l i false) (add16 i 1)
    simpa [clearFrom] using this

/-- a slot hit by the clearing loop reads false afterwards. -/
theorem clearFrom_hit (l : Log) (z : Int) (n : Nat) (q : Nat) (hb : l.bits.size = l.size) (h0 : 0 < l.size)
    (h : ∃ j : Nat, j < n ∧ sq (z + j) % l.size = q % l.size) :
    getBit (clearFrom l (sq z) n) q = false := by
  induction n generalizing l z with
  | zero => obtain ⟨j, hj, _⟩ := h; omega
  | succ n ih =>
    obtain ⟨j, hj, hslot⟩ := h
    simp only [clearFrom]
    rw [add16_sq]
    by_cases hj0 : j = 0
    · subst hj0
      -- hit now; later iterations either hit again or leave it
      by_cases h' : ∃ j : Nat, j < n ∧ sq (z + (1 : Nat) + j) % (setBit l (sq z) false).size = q % (setBit l (sq z) false).size
      · exact ih (setBit l (sq z) false) (z + (1 : Nat)) (by simpa using hb) (by simpa using h0) h'
      · -- not hit later: value is the one written now
        have key : ∀ (m : Nat) (l' : Log) (z' : Int), l'.bits.size = l'.size → 0 < l'.size →
            (¬ ∃ j : Nat, j < m ∧ sq (z' + j) % l'.size = q % l'.size) →
            getBit (clearFrom l' (sq z') m) q = getBit l' q := by
          intro m
          induction m with
          | zero => intros; rfl
          | succ m ihm =>
            intro l' z' hb' h0' hno
            simp only [clearFrom]
            rw [add16_sq]
            rw [ihm (setBit l' (sq z') false) (z' + (1 : Nat)) (by simpa using hb') (by simpa using h0')]
            · rw [getBit_setBit l' _ _ _ hb' h0']
              have : ¬ (sq z' % l'.size = q % l'.size) := by
                intro e; apply hno; exact ⟨0, by omega, by simpa using e⟩
              simp [this]
            · intro ⟨j, hj, e⟩
              apply hno
              refine ⟨j + 1, by omega, ?_⟩
              have : z' + ((j + 1 : Nat) : Int) = z' + (1 : Nat) + (j : Int) := by omega
              rw [this]; simpa using e
        rw [key n (setBit l (sq z) false) (z + (1 : Nat)) (by simpa using hb) (by simpa using h0) h']
        rw [getBit_setBit l _ _ _ hb h0]
        have : sq z % l.size = q % l.size := by simpa using hslot
        simp [this]
    · apply ih (setBit l (sq z) false) (z + (1 : Nat)) (by simpa using hb) (by simpa using h0)
      refine ⟨j - 1, by omega, ?_⟩
      have : z + (1 : Nat) + ((j - 1 : Nat) : Int) = z + (j : Int) := by omega
      rw [this]; simpa using hslot

/-- a slot not hit by the clearing loop is unchanged. -/
theorem clearFrom_miss (l : Log) (z : Int) (n : Nat) (q : Nat) (hb : l.bits.size = l.size) (h0 : 0 < l.size)
    (h : ∀ j : Nat, j < n → sq (z + j) % l.size ≠ q % l.size) :
    getBit (clearFrom l (sq z) n) q = getBit l q := by
  induction n generalizing l z with
  | zero => rfl
  | succ n ih =>
    simp only [clearFrom]
    rw [add16_sq]
    rw [ih (setBit l (sq z) false) (z + (1 : Nat)) (by simpa using hb) (by simpa using h0)]
    · rw [getBit_setBit l _ _ _ hb h0]
      have := h 0 (by omega)
      have : ¬ (sq z % l.size = q % l.size) := by simpa using this
      simp [this]
    · intro j hj
      have := h (j + 1) (by omega)
      have e : z + ((j + 1 : Nat) : Int) = z + (1 : Nat) + (j : Int) := by omega
      rw [e] at this
      simpa using this

/-! ### fixScan -/

theorem fixScan_spec (l : Log) (y0 : Int) (n : Nat) :
    ∃ y1 : Int, fixScan l (sq (y0 + 1)) n = sq (y1 + 1) ∧ y0 ≤ y1 ∧ y1 ≤ y0 + n ∧
      ∀ y : Int, y0 < y → y ≤ y1 → getBit l (sq y) = true := by
  induction n generalizing y0 with
  | zero => exact ⟨y0, rfl, by omega, by omega, by intro y h1 h2; omega⟩
  | succ n ih =>
    simp only [fixScan]
    by_cases hb : getBit l (sq (y0 + 1)) = true
    · simp only [hb, if_true]
      have e : add16 (sq (y0 + 1)) 1 = sq (y0 + 1 + 1) := by rw [add16_sq]; rfl
      rw [e]
      obtain ⟨y1, h1, h2, h3, h4⟩ := ih (y0 + 1)
      refine ⟨y1, h1, by omega, by omega, ?_⟩
      intro y hy1 hy2
      by_cases hy : y = y0 + 1
      · subst hy; exact hb
      · exact h4 y (by omega) hy2
    · simp only [hb]
      exact ⟨y0, rfl, by omega, by omega, by intro y h1 h2; omega⟩


theorem add16_sq_one (x : Int) : add16 (sq x) 1 = sq (x + 1) := by unfold add16 sq; omega
theorem sub16_sq_one (x : Int) : sub16 (sq x) 1 = sq (x - 1) := by unfold sub16 sq; omega
theorem sq_inj (x y : Int) (h : sq x = sq y) (h1 : x - y < 65536) (h2 : y - x < 65536) : x = y := by
  unfold sq at h; omega

theorem fix_spec (l : Log) (y0 hiU : Int) (hlc : l.lc = sq y0) (hend : l.end_ = sq hiU)
    (hle : y0 ≤ hiU) (hd : hiU - y0 < 65536) :
    ∃ y1 : Int, y0 ≤ y1 ∧ y1 ≤ hiU ∧ fixLastConsecutive l = { l with lc := sq y1 } ∧
      ∀ y : Int, y0 < y → y ≤ y1 → getBit l (sq y) = true := by
  unfold fixLastConsecutive
  rw [hlc, hend, add16_sq_one, sub16_sq, sq_small (hiU - y0) (by omega) hd]
  obtain ⟨y1, h1, h2, h3, h4⟩ := fixScan_spec l y0 (hiU - y0).toNat
  refine ⟨y1, h2, by omega, ?_, h4⟩
  simp only [h1, sub16_sq_one]
  have : y1 + 1 - 1 = y1 := by omega
  rw [this]

/-! ### the refinement relation between the bitmap log and the abstract stream -/

open NackSpec in
/-- `lcU` is the unwrapped `lastConsecutive`. -/
structure R (size : Nat) (l : Log) (a : NackSpec.Stream) (lcU : Int) : Prop where
  hsize : l.size = size
  hbits : l.bits.size = size
  hstarted : l.started = true
  hend : l.end_ = sq a.hi
  hlc : l.lc = sq lcU
  hlo : a.hi - size ≤ lcU
  hle : lcU ≤ a.hi
  hfirst : a.first ≤ lcU
  /-- the bitmap is exact on `(lc, end]` -/
  hbit : ∀ x : Int, lcU < x → x ≤ a.hi → getBit l (sq x) = decide (x ∈ a.recv)
  /-- everything in the window after the first packet up to the cursor has been received -/
  hrecv : ∀ x : Int, a.first < x → a.hi - size < x → x ≤ lcU → x ∈ a.recv
  hwin : ∀ x ∈ a.recv, a.hi - size < x ∧ x ≤ a.hi
  hhi : a.hi ∈ a.recv

theorem unwrapAt_spec (hi : Int) (q : Nat) (hq : q < 65536) :
    sq (NackSpec.unwrapAt hi q) = q ∧ hi - 32768 ≤ NackSpec.unwrapAt hi q ∧ NackSpec.unwrapAt hi q < hi + 32768 := by
  unfold NackSpec.unwrapAt sq
  simp only []
  split <;> omega

/-- first packet. -/
theorem R_init {size : Nat} (hs : SizeOK size) (q : Nat) (hq : q < 65536) :
    R size (add (new size) q) { first := q, hi := q, recv := [(q : Int)] } q := by
  have h0 := hs.pos
  refine ⟨rfl, ?_, rfl, ?_, ?_, by simp only []; omega, by simp only []; omega, by simp, ?_, ?_, ?_, by simp⟩
  · simp [add, new, setBit]
  · simp [add, new, sq_natCast q hq]
  · simp [add, new, sq_natCast q hq]
  · intro x h1 h2; simp at h1 h2; omega
  · intro x h1 h2 h3; simp at h1 h3; omega
  · intro x hx; simp at hx; subst hx; simp; omega

end Interceptor.ReceiveLog

/-
Simulation: the JitterBuffer over any queue implementation that refines the list-level queue
behaves exactly like the JitterBuffer over the list-level queue (same results, same events,
same control state).  Helper lemmas for Props/C18.lean.
-/
import Interceptor.Spec.JitterBuffer
namespace Interceptor.JitterBuffer

/-- `jb` (over implementation `I`) and `js` (over lists) are in the same abstract state. -/
structure JRep {I : QImpl} (R : Refines I) (jb : JB I) (js : JB listImpl) : Prop where
  q : R.Rep jb.q js.q
  minStart : jb.minStart = js.minStart
  overflowLen : jb.overflowLen = js.overflowLen
  lastSeq : jb.lastSeq = js.lastSeq
  head : jb.head = js.head
  ready : jb.ready = js.ready
  state : jb.state = js.state

variable {I : QImpl} (R : Refines I)

theorem listImpl_length (l : listImpl.Q) : listImpl.length l = List.length (α := Entry) l % 65536 := rfl

/-- destructure both buffers and identify their control fields. -/
macro "jrep_cases" h:ident : tactic => `(tactic| (
  rename_i jb js
  obtain ⟨q, m, ov, ls, hd, rd, st⟩ := jb
  obtain ⟨l, m', ov', ls', hd', rd', st'⟩ := js
  obtain ⟨hq, h1, h2, h3, h4, h5, h6⟩ := $h
  simp only at hq h1 h2 h3 h4 h5 h6
  subst h1 h2 h3 h4 h5 h6))

theorem sim_updateState {jb : JB I} {js : JB listImpl} (h : JRep R jb js) :
    (JB.updateState jb).2 = (JB.updateState js).2 ∧ JRep R (JB.updateState jb).1 (JB.updateState js).1 := by
  obtain ⟨q, m, ov, ls, hd, rd, st⟩ := jb
  obtain ⟨l, m', ov', ls', hd', rd', st'⟩ := js
  obtain ⟨hq, h1, h2, h3, h4, h5, h6⟩ := h
  simp only at hq h1 h2 h3 h4 h5 h6
  subst h1 h2 h3 h4 h5 h6
  have hl := R.length hq
  unfold JB.updateState
  simp only [hl]
  by_cases hc : (List.length (α := Entry) l % 65536 ≥ m ∧ st = St.buffering)
  · simp only [if_pos hc]
    exact ⟨(by first | rfl | trivial), ⟨hq, rfl, rfl, rfl, rfl, rfl, rfl⟩⟩
  · simp only [if_neg hc]
    exact ⟨(by first | rfl | trivial), ⟨hq, rfl, rfl, rfl, rfl, rfl, rfl⟩⟩

theorem sim_push {jb : JB I} {js : JB listImpl} (h : JRep R jb js) (p : Pkt) :
    (jb.push p).2 = (js.push p).2 ∧ JRep R (jb.push p).1 (js.push p).1 := by
  obtain ⟨q, m, ov, ls, hd, rd, st⟩ := jb
  obtain ⟨l, m', ov', ls', hd', rd', st'⟩ := js
  obtain ⟨hq, h1, h2, h3, h4, h5, h6⟩ := h
  simp only at hq h1 h2 h3 h4 h5 h6
  subst h1 h2 h3 h4 h5 h6
  have hl := R.length hq
  obtain ⟨q', hp, hr⟩ := R.push p p.seq hq
  have hp' : listImpl.push l p p.seq = .ok (insertL l (p.seq, p)) := rfl
  unfold JB.push
  simp only [hp, hl]
  have hs := sim_updateState R (jb := { q := q', minStart := m, overflowLen := ov, lastSeq := p.seq, head := if (!rd) = true ∧ l.length % 65536 = 0 then p.seq else hd, ready := rd, state := st })
    (js := { q := insertL l (p.seq, p), minStart := m, overflowLen := ov, lastSeq := p.seq, head := if (!rd) = true ∧ l.length % 65536 = 0 then p.seq else hd, ready := rd, state := st })
    ⟨hr, rfl, rfl, rfl, rfl, rfl, rfl⟩
  exact ⟨by rw [hs.1], hs.2⟩

theorem sim_popWith {jb : JB I} {js : JB listImpl} (h : JRep R jb js)
    {r : Res (Option Pkt × I.Q)} {rl : Res (Option Pkt × List Entry)} (hr : PopRel R.Rep r rl) (adv : Bool) :
    (jb.popWith r adv).2 = (js.popWith rl adv).2 ∧ JRep R (jb.popWith r adv).1 (js.popWith rl adv).1 := by
  obtain ⟨q, m, ov, ls, hd, rd, st⟩ := jb
  obtain ⟨l, m', ov', ls', hd', rd', st'⟩ := js
  obtain ⟨hq, h1, h2, h3, h4, h5, h6⟩ := h
  simp only at hq h1 h2 h3 h4 h5 h6
  subst h1 h2 h3 h4 h5 h6
  unfold JB.popWith
  match r, rl, hr with
  | .ok (v, q'), .ok (v', l'), hr =>
    obtain ⟨hv, hr⟩ := hr
    subst hv
    have hs := sim_updateState R (jb := { q := q', minStart := m, overflowLen := ov, lastSeq := ls, head := if adv = true then (hd + 1) % 65536 else hd, ready := rd, state := st })
      (js := { q := l', minStart := m, overflowLen := ov, lastSeq := ls, head := if adv = true then (hd + 1) % 65536 else hd, ready := rd, state := st })
      ⟨hr, rfl, rfl, rfl, rfl, rfl, rfl⟩
    simp only []
    exact ⟨by rw [hs.1], hs.2⟩
  | .err e, .err e', hr =>
    have : e = e' := hr
    subst this
    exact ⟨(by first | rfl | trivial), ⟨hq, rfl, rfl, rfl, rfl, rfl, rfl⟩⟩

theorem sim_step {jb : JB I} {js : JB listImpl} (h : JRep R jb js) (op : Op) :
    (jb.step op).2 = (js.step op).2 ∧ JRep R (jb.step op).1 (js.step op).1 := by
  cases op with
  | push p => exact sim_push R h p
  | pop =>
    simp only [JB.step, JB.pop, h.state]
    split
    · exact ⟨(by first | rfl | trivial), h⟩
    · rw [h.head]; exact sim_popWith R h (R.popAt _ h.q) true
  | popSeq sq =>
    simp only [JB.step, JB.popAtSequence, h.state]
    split
    · exact ⟨(by first | rfl | trivial), h⟩
    · exact sim_popWith R h (R.popAt _ h.q) true
  | popTs ts =>
    simp only [JB.step, JB.popAtTimestamp, h.state]
    split
    · exact ⟨(by first | rfl | trivial), h⟩
    · exact sim_popWith R h (R.popAtTs _ h.q) false
  | peek b =>
    simp only [JB.step, JB.peek, h.state, h.head, h.lastSeq, R.length h.q, R.find _ h.q]
    exact ⟨(by first | rfl | trivial), h⟩
  | peekSeq sq =>
    simp only [JB.step, JB.peekAtSequence, R.find _ h.q]
    exact ⟨(by first | rfl | trivial), h⟩
  | setHead x =>
    exact ⟨(by first | rfl | trivial), ⟨h.q, h.minStart, h.overflowLen, h.lastSeq, rfl, h.ready, h.state⟩⟩
  | getHead => exact ⟨(by first | rfl | trivial), h⟩
  | clear r =>
    obtain ⟨q', hc, hr⟩ := R.clear h.q
    have hc' : listImpl.clear js.q = .ok [] := rfl
    simp only [JB.step, JB.clear, hc]
    cases r
    · exact ⟨(by first | rfl | trivial), ⟨hr, h.minStart, h.overflowLen, h.lastSeq, h.head, h.ready, h.state⟩⟩
    · exact ⟨(by first | rfl | trivial), ⟨hr, rfl, h.overflowLen, rfl, h.head, rfl, rfl⟩⟩

/-- a whole history: same records, related final states. -/
theorem sim_run {jb : JB I} {js : JB listImpl} (h : JRep R jb js) (ops : List Op) :
    (jb.run ops).2 = (js.run ops).2 ∧ JRep R (jb.run ops).1 (js.run ops).1 := by
  induction ops generalizing jb js with
  | nil => exact ⟨rfl, h⟩
  | cons op ops ih =>
    have hs := sim_step R h op
    have := ih hs.2
    simp only [JB.run, this.1, h.head, h.ready, hs.1]
    exact ⟨trivial, this.2⟩

theorem jrep_new (m : Option Nat) : JRep R (JB.new I m) (JB.new listImpl m) :=
  ⟨R.empty, rfl, rfl, rfl, rfl, rfl, rfl⟩

end Interceptor.JitterBuffer

/-
Helper lemmas for C14: the spec's header parser applied to the header bytes the encoder writes
(three shapes: 20, 24, 32 bytes).  Core Lean only.
-/
import Interceptor.Proofs.FlexFecMask
namespace Interceptor.FlexFec
open Interceptor.FlexFecSpec (parseHeader FecHeader beVal slice maskBits)

set_option maxRecDepth 100000 in
theorem or_128 : ∀ x, x < 128 → x ||| 128 = x + 128 := by decide

theorem shr8 (x : Nat) : x >>> 8 = x / 256 := by rw [Nat.shiftRight_eq_div_pow]
theorem shr16 (x : Nat) : x >>> 16 = x / 65536 := by rw [Nat.shiftRight_eq_div_pow]
theorem shr24 (x : Nat) : x >>> 24 = x / 16777216 := by rw [Nat.shiftRight_eq_div_pow]
theorem shr32 (x : Nat) : x >>> 32 = x / 4294967296 := by rw [Nat.shiftRight_eq_div_pow]
theorem shr40 (x : Nat) : x >>> 40 = x / 1099511627776 := by rw [Nat.shiftRight_eq_div_pow]
theorem shr48 (x : Nat) : x >>> 48 = x / 281474976710656 := by rw [Nat.shiftRight_eq_div_pow]
theorem shr56 (x : Nat) : x >>> 56 = x / 72057594037927936 := by rw [Nat.shiftRight_eq_div_pow]

theorem val16 (v : Nat) (h : v < 65536) : (v / 256) % 256 * 256 + v % 256 = v := by omega
theorem k16 (m : Nat) : (m / 256 + 128) * 256 + m % 256 = m + 32768 := by omega
theorem k16a (m : Nat) (h : m < 32768) : (m + 32768) / 32768 = 1 := by omega
theorem k16b (m : Nat) (h : m < 32768) : (m + 32768) % 32768 = m := by omega
theorem hi16 (m : Nat) (h : m < 32768) : m / 256 % 256 = m / 256 := by omega
theorem hi16lt (m : Nat) (h : m < 32768) : m / 256 < 128 := by omega

theorem parse_A (h0 h1 l2 l3 t4 t5 t6 t7 s0 s1 s2 s3 base m1 : Nat) (rep : Bytes)
    (hh0 : h0 < 64) (hbase : base < 65536) (hm1 : m1 < 32768) :
    parseHeader ([h0, h1, l2, l3, t4, t5, t6, t7, 1, 0, 0, 0, s0, s1, s2, s3] ++ be16 base ++ setK (be16 m1) ++ rep)
      = some ⟨20, [s0, s1, s2, s3], base, maskBits m1 15 0⟩ := by
  have hb := val16 base hbase
  have hd : h0 / 64 = 0 := Nat.div_eq_of_lt hh0
  have hk : (m1 / 256) % 256 ||| 128 = m1 / 256 + 128 := by
    rw [hi16 m1 hm1]; exact or_128 _ (hi16lt m1 hm1)
  simp only [be16, setK, List.cons_append, List.nil_append, shr8, hk]
  unfold parseHeader
  simp [slice, beVal, hd, hb, k16, k16a m1 hm1, k16b m1 hm1]

theorem lo16 (m : Nat) (h : m < 32768) : m / 32768 = 0 := by omega
theorem lo16b (m : Nat) (h : m < 32768) : m % 32768 = m := by omega
theorem val16' (v : Nat) (h : v < 32768) : (v / 256) % 256 * 256 + v % 256 = v := by omega
theorem k32 (m : Nat) : (((m / 16777216 + 128) * 256 + m / 65536 % 256) * 256 + m / 256 % 256) * 256 + m % 256
    = m + 2147483648 := by omega
theorem k32a (m : Nat) (h : m < 2147483648) : (m + 2147483648) / 2147483648 = 1 := by omega
theorem k32b (m : Nat) (h : m < 2147483648) : (m + 2147483648) % 2147483648 = m := by omega
theorem hi32 (m : Nat) (h : m < 2147483648) : m / 16777216 % 256 = m / 16777216 := by omega
theorem hi32lt (m : Nat) (h : m < 2147483648) : m / 16777216 < 128 := by omega
theorem val32 (m : Nat) (h : m < 2147483648) :
    ((m / 16777216 % 256 * 256 + m / 65536 % 256) * 256 + m / 256 % 256) * 256 + m % 256 = m := by omega
theorem lo32 (m : Nat) (h : m < 2147483648) : m / 2147483648 = 0 := by omega
theorem lo32b (m : Nat) (h : m < 2147483648) : m % 2147483648 = m := by omega
theorem k64 (m : Nat) : (((((((m / 72057594037927936 + 128) * 256 + m / 281474976710656 % 256) * 256
    + m / 1099511627776 % 256) * 256 + m / 4294967296 % 256) * 256 + m / 16777216 % 256) * 256
    + m / 65536 % 256) * 256 + m / 256 % 256) * 256 + m % 256 = m + 9223372036854775808 := by omega
theorem k64b (m : Nat) (h : m < 9223372036854775808) : (m + 9223372036854775808) % 9223372036854775808 = m := by omega
theorem hi64 (m : Nat) (h : m < 9223372036854775808) : m / 72057594037927936 % 256 = m / 72057594037927936 := by omega
theorem hi64lt (m : Nat) (h : m < 9223372036854775808) : m / 72057594037927936 < 128 := by omega

theorem parse_B (h0 h1 l2 l3 t4 t5 t6 t7 s0 s1 s2 s3 base m1 m2 : Nat) (rep : Bytes)
    (hh0 : h0 < 64) (hbase : base < 65536) (hm1 : m1 < 32768) (hm2 : m2 < 2147483648) :
    parseHeader ([h0, h1, l2, l3, t4, t5, t6, t7, 1, 0, 0, 0, s0, s1, s2, s3] ++ be16 base ++
        (be16 m1 ++ setK (be32 m2)) ++ rep)
      = some ⟨24, [s0, s1, s2, s3], base, maskBits m1 15 0 ++ maskBits m2 31 15⟩ := by
  have hb := val16 base hbase
  have hd : h0 / 64 = 0 := Nat.div_eq_of_lt hh0
  have hk : (m2 / 16777216) % 256 ||| 128 = m2 / 16777216 + 128 := by
    rw [hi32 m2 hm2]; exact or_128 _ (hi32lt m2 hm2)
  simp only [be16, be32, setK, List.cons_append, List.nil_append, shr8, shr16, shr24, hk]
  unfold parseHeader
  simp [slice, beVal, hd, hb, val16' m1 hm1, lo16 m1 hm1, lo16b m1 hm1, k32, k32a m2 hm2, k32b m2 hm2]

theorem parse_C (h0 h1 l2 l3 t4 t5 t6 t7 s0 s1 s2 s3 base m1 m2 m3 : Nat) (rep : Bytes)
    (hh0 : h0 < 64) (hbase : base < 65536) (hm1 : m1 < 32768) (hm2 : m2 < 2147483648) (hm3 : m3 < 9223372036854775808) :
    parseHeader ([h0, h1, l2, l3, t4, t5, t6, t7, 1, 0, 0, 0, s0, s1, s2, s3] ++ be16 base ++
        (be16 m1 ++ be32 m2 ++ setK (be64 m3)) ++ rep)
      = some ⟨32, [s0, s1, s2, s3], base, maskBits m1 15 0 ++ maskBits m2 31 15 ++ maskBits m3 63 46⟩ := by
  have hb := val16 base hbase
  have hd : h0 / 64 = 0 := Nat.div_eq_of_lt hh0
  have hk : (m3 / 72057594037927936) % 256 ||| 128 = m3 / 72057594037927936 + 128 := by
    rw [hi64 m3 hm3]; exact or_128 _ (hi64lt m3 hm3)
  simp only [be16, be32, be64, setK, List.cons_append, List.nil_append, shr8, shr16, shr24, shr32, shr40,
    shr48, shr56, hk]
  unfold parseHeader
  simp [slice, beVal, hd, hb, val16' m1 hm1, lo16 m1 hm1, lo16b m1 hm1, val32 m2 hm2, lo32 m2 hm2,
    lo32b m2 hm2, k64, k64b m3 hm3]

end Interceptor.FlexFec

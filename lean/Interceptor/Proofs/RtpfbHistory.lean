/- rtpfb history: reports are strictly increasing in the counter over any op sequence (C09.T5) -/
import Interceptor.Model.Rtpfb
namespace Interceptor.Rtpfb

/-- the operations on a history. -/
inductive HOp where
  | add (ssrc rtpSeq : Nat) (isTwcc : Bool) (twSeq : Nat) (size dep : Int)
  | ackTw (ts : Int) (a : RAck)
  | ackCc (ts : Int) (ssrc : Nat) (a : RAck)
  | build

def stepOp (h : Hist) : HOp → Hist × List PR
  | .add ssrc rtpSeq isTwcc twSeq size dep => (addOutgoing h ssrc rtpSeq isTwcc twSeq size dep, [])
  | .ackTw ts a => ((onTWCCFeedback h ts a).1, [])
  | .ackCc ts ssrc a => ((onCCFBFeedback h ts ssrc a).1, [])
  | .build => buildReport h

/-- the reports produced by a sequence of operations. -/
def runOps : Hist → List HOp → List (List PR)
  | _, [] => []
  | h, op :: ops => (stepOp h op).2 :: runOps (stepOp h op).1 ops

/-- every stored PacketReport carries its own key as counter. -/
def WF (h : Hist) : Prop := ∀ e ∈ h.packets, e.2.ctr = e.1

theorem wf_init : WF {} := by intro e he; cases he

theorem ainsert_mem {ν} (m : List (Nat × ν)) (k : Nat) (v : ν) (e : Nat × ν) (he : e ∈ ainsert m k v) :
    e ∈ m ∨ e = (k, v) := by
  unfold ainsert at he
  split at he
  · obtain ⟨e0, h0, rfl⟩ := List.mem_map.mp he
    split
    · right; rfl
    · left; exact h0
  · rcases List.mem_append.mp he with h | h
    · left; exact h
    · right; simpa using h

theorem aerase_mem {κ ν} [BEq κ] (m : List (κ × ν)) (k : κ) (e : κ × ν) (he : e ∈ aerase m k) : e ∈ m :=
  (List.mem_filter.mp he).1

theorem alookup_mem {ν} (m : List (Nat × ν)) (k : Nat) (v : ν) (h : alookup m k = some v) : (k, v) ∈ m := by
  unfold alookup at h
  simp only [Option.map_eq_some_iff] at h
  obtain ⟨e, he, rfl⟩ := h
  have hm := List.mem_of_find?_eq_some he
  have hk := List.find?_some he
  simp at hk
  rw [← hk]; exact hm

theorem wf_add (h : Hist) (hw : WF h) (ssrc rtpSeq : Nat) (isTwcc : Bool) (twSeq : Nat) (size dep : Int) :
    WF (addOutgoing h ssrc rtpSeq isTwcc twSeq size dep) ∧
    (addOutgoing h ssrc rtpSeq isTwcc twSeq size dep).nextReport = h.nextReport := by
  refine ⟨?_, rfl⟩
  intro e he
  rcases ainsert_mem _ _ _ _ he with h1 | h1
  · exact hw e h1
  · subst h1; rfl

theorem wf_onFeedback (h : Hist) (hw : WF h) (ts : Int) (c : Nat) (a : RAck) :
    WF (onFeedback h ts c a).1 ∧ (onFeedback h ts c a).1.nextReport = h.nextReport := by
  unfold onFeedback
  cases hl : alookup h.packets c with
  | none => exact ⟨hw, rfl⟩
  | some p =>
    refine ⟨?_, rfl⟩
    intro e he
    rcases ainsert_mem _ _ _ _ he with h1 | h1
    · exact hw e h1
    · subst h1; exact hw (c, p) (alookup_mem _ _ _ hl)

theorem wf_delete (h : Hist) (hw : WF h) (p : PR) :
    WF (delete h p) ∧ (delete h p).nextReport = h.nextReport :=
  ⟨fun e he => hw e (aerase_mem _ _ _ he), rfl⟩

theorem reportLoop_spec (is : List Nat) : ∀ (h : Hist) (acc : List PR), WF h →
    ∃ new, (reportLoop is h acc).2 = acc.reverse ++ new ∧ (new.map PR.ctr).Sublist is ∧
      (∀ p ∈ new, p.ctr < (reportLoop is h acc).1.nextReport) ∧
      h.nextReport ≤ (reportLoop is h acc).1.nextReport ∧ WF (reportLoop is h acc).1 := by
  induction is with
  | nil => intro h acc hw; exact ⟨[], by simp [reportLoop], by simp, by simp, by simp [reportLoop], hw⟩
  | cons i is ih =>
    intro h acc hw
    unfold reportLoop
    cases hl : alookup h.packets i with
    | none =>
      obtain ⟨new, h1, h2, h3, h4, h5⟩ := ih h acc hw
      exact ⟨new, h1, h2.cons _, h3, h4, h5⟩
    | some p =>
      have hp : p.ctr = i := hw _ (alookup_mem _ _ _ hl)
      simp only
      have hw1 := (wf_delete h hw p).1
      have hn1 : (delete h p).nextReport = h.nextReport := rfl
      by_cases hge : p.ctr ≥ (delete h p).nextReport
      · rw [if_pos hge]
        have hw2 : WF { delete h p with nextReport := p.ctr + 1 } := hw1
        obtain ⟨new, h1, h2, h3, h4, h5⟩ := ih _ (p :: acc) hw2
        refine ⟨p :: new, by rw [h1]; simp, by simpa [hp] using h2.cons_cons i, ?_, ?_, h5⟩
        · intro q hq
          rcases List.mem_cons.mp hq with rfl | hq
          · simp only at h4; omega
          · exact h3 q hq
        · simp only at h4; rw [hn1] at hge; omega
      · rw [if_neg hge]
        obtain ⟨new, h1, h2, h3, h4, h5⟩ := ih _ (p :: acc) hw1
        refine ⟨p :: new, by rw [h1]; simp, by simpa [hp] using h2.cons_cons i, ?_, ?_, h5⟩
        · intro q hq
          rcases List.mem_cons.mp hq with rfl | hq
          · omega
          · exact h3 q hq
        · rw [hn1] at h4; exact h4

theorem wf_setClean (h : Hist) (x : Nat) (hw : WF h) : WF { h with cleanUntil := x } := hw

theorem cleanBefore_spec (h : Hist) (hw : WF h) (c : Nat) :
    WF (cleanBefore h c) ∧ (cleanBefore h c).nextReport = h.nextReport := by
  have gen : ∀ (l : List Nat) (h : Hist), WF h →
      WF (l.foldl cleanStep h) ∧ (l.foldl cleanStep h).nextReport = h.nextReport := by
    intro l
    induction l with
    | nil => intro h hw; exact ⟨hw, rfl⟩
    | cons i l ih =>
      intro h hw
      simp only [List.foldl_cons]
      unfold cleanStep
      cases alookup h.packets i with
      | none => exact ih h hw
      | some p =>
        obtain ⟨a, b⟩ := ih (delete h p) (wf_delete h hw p).1
        exact ⟨a, b⟩
  obtain ⟨a, b⟩ := gen (List.range' h.cleanUntil (c - h.cleanUntil)) h hw
  have e : cleanBefore h c =
      { (List.range' h.cleanUntil (c - h.cleanUntil)).foldl cleanStep h with cleanUntil := c } := rfl
  rw [e]
  constructor
  · intro x hx; exact a x hx
  · exact b

theorem buildReport_spec (h : Hist) (hw : WF h) :
    ((buildReport h).2.map PR.ctr).Pairwise (· < ·) ∧
    (∀ p ∈ (buildReport h).2, h.nextReport ≤ p.ctr ∧ p.ctr < (buildReport h).1.nextReport) ∧
    h.nextReport ≤ (buildReport h).1.nextReport ∧ WF (buildReport h).1 := by
  unfold buildReport
  by_cases hgt : h.acked = false ∨ h.nextReport > h.highestAcked
  · rw [if_pos hgt]; exact ⟨by simp, by simp, Nat.le_refl _, hw⟩
  · rw [if_neg hgt]
    have spec := reportLoop_spec (List.range' h.nextReport (h.highestAcked + 1 - h.nextReport)) h [] hw
    generalize reportLoop (List.range' h.nextReport (h.highestAcked + 1 - h.nextReport)) h [] = rl at spec ⊢
    obtain ⟨h1, res⟩ := rl
    obtain ⟨new, e1, h2, h3, h4, h5⟩ := spec
    simp only [List.reverse_nil, List.nil_append] at e1 h3 h4 h5
    subst e1
    obtain ⟨c1, c2⟩ := cleanBefore_spec h1 h5 h1.nextReport
    show ((res.map PR.ctr).Pairwise (· < ·)) ∧
      (∀ p ∈ res, h.nextReport ≤ p.ctr ∧ p.ctr < (cleanBefore h1 h1.nextReport).nextReport) ∧
      h.nextReport ≤ (cleanBefore h1 h1.nextReport).nextReport ∧ WF (cleanBefore h1 h1.nextReport)
    rw [c2]
    refine ⟨List.Pairwise.sublist h2 (List.pairwise_lt_range' 1), ?_, h4, c1⟩
    intro p hp
    refine ⟨?_, h3 p hp⟩
    have : p.ctr ∈ List.range' h.nextReport (h.highestAcked + 1 - h.nextReport) :=
      h2.subset (List.mem_map_of_mem hp)
    exact (List.mem_range'_1.mp this).1

theorem stepOp_spec (h : Hist) (hw : WF h) (op : HOp) :
    ((stepOp h op).2.map PR.ctr).Pairwise (· < ·) ∧
    (∀ p ∈ (stepOp h op).2, h.nextReport ≤ p.ctr ∧ p.ctr < (stepOp h op).1.nextReport) ∧
    h.nextReport ≤ (stepOp h op).1.nextReport ∧ WF (stepOp h op).1 := by
  cases op with
  | add ssrc rtpSeq isTwcc twSeq size dep =>
    obtain ⟨a, b⟩ := wf_add h hw ssrc rtpSeq isTwcc twSeq size dep
    exact ⟨by simp [stepOp], by simp [stepOp], by simp [stepOp, b], a⟩
  | ackTw ts a =>
    simp only [stepOp, onTWCCFeedback]
    cases alookup h.twcc a.seq with
    | none => exact ⟨by simp, by simp, Nat.le_refl _, hw⟩
    | some c =>
      obtain ⟨x, y⟩ := wf_onFeedback h hw ts c a
      exact ⟨by simp, by simp, by simp [y], x⟩
  | ackCc ts ssrc a =>
    simp only [stepOp, onCCFBFeedback]
    cases alookup h.ss (ssrc, a.seq) with
    | none => exact ⟨by simp, by simp, Nat.le_refl _, hw⟩
    | some c =>
      obtain ⟨x, y⟩ := wf_onFeedback h hw ts c a
      exact ⟨by simp, by simp, by simp [y], x⟩
  | build => exact buildReport_spec h hw

theorem runOps_sorted (ops : List HOp) : ∀ (h : Hist), WF h →
    ((runOps h ops).flatten.map PR.ctr).Pairwise (· < ·) ∧
    ∀ c ∈ (runOps h ops).flatten.map PR.ctr, h.nextReport ≤ c := by
  induction ops with
  | nil => intro h hw; simp [runOps]
  | cons op ops ih =>
    intro h hw
    obtain ⟨s1, s2, s3, s4⟩ := stepOp_spec h hw op
    obtain ⟨i1, i2⟩ := ih _ s4
    simp only [runOps, List.flatten_cons, List.map_append]
    refine ⟨List.pairwise_append.mpr ⟨s1, i1, ?_⟩, ?_⟩
    · intro a ha b hb
      obtain ⟨p, hp, rfl⟩ := List.mem_map.mp ha
      have := (s2 p hp).2
      have := i2 b hb
      omega
    · intro c hc
      rcases List.mem_append.mp hc with hc | hc
      · obtain ⟨p, hp, rfl⟩ := List.mem_map.mp hc
        exact (s2 p hp).1
      · have := i2 c hc; omega

end Interceptor.Rtpfb

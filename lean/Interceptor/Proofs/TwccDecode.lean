/-
C05 helper lemmas for decode soundness at the level of one feedback packet: the statuses and
deltas of the model's packet, paired up and fed to the specification's running-sum (`TwccSpec.timed`),
give back every `(sequence number, time)` that was added, each time within 125 µs.
-/
import Interceptor.Proofs.TwccFeedback
import Interceptor.Spec.Twcc
namespace Interceptor.Twcc
open Interceptor.TwccSpec (Entry timed)

/-- attach to every received status the next recv delta (in 250 µs ticks), as draft §3.1.5 says. -/
def pair : List Sym → List (Sym × Int) → List (Nat × Option Int)
  | [], _ => []
  | .nr :: ss, ds => (0, none) :: pair ss ds
  | s :: ss, [] => (s.code, none) :: pair ss []
  | s :: ss, d :: ds => (s.code, some (d.2 / 250)) :: pair ss ds

def ticks : List (Nat × Option Int) → Int
  | [] => 0
  | (_, none) :: r => ticks r
  | (_, some d) :: r => d + ticks r

theorem pair_append (a b : List Sym) (ds es : List (Sym × Int))
    (h : ds.length = (a.filter (fun s => decide (s ≠ Sym.nr))).length) :
    pair (a ++ b) (ds ++ es) = pair a ds ++ pair b es := by
  induction a generalizing ds with
  | nil =>
    simp only [List.filter_nil, List.length_nil, List.length_eq_zero_iff] at h
    subst h; simp [pair]
  | cons s a ih =>
    cases s with
    | nr =>
      simp only [List.cons_append, pair]
      rw [ih ds (by simpa using h)]
    | small =>
      cases ds with
      | nil => simp at h
      | cons d ds =>
        simp only [List.cons_append, pair]
        rw [ih ds (by simpa using h)]
    | large =>
      cases ds with
      | nil => simp at h
      | cons d ds =>
        simp only [List.cons_append, pair]
        rw [ih ds (by simpa using h)]

theorem pair_nrs (n : Nat) (ds : List (Sym × Int)) (rest : List Sym) :
    pair (List.replicate n Sym.nr ++ rest) ds = List.replicate n (0, none) ++ pair rest ds := by
  induction n with
  | zero => simp
  | succ n ih => simp only [List.replicate_succ, List.cons_append, pair, ih]

theorem timed_append (seq : Nat) (acc : Int) (a b : List (Nat × Option Int)) :
    timed seq acc (a ++ b) = timed seq acc a ++ timed (seq + a.length) (acc + 250 * ticks a) b := by
  induction a generalizing seq acc with
  | nil => simp [timed, ticks]
  | cons x a ih =>
    obtain ⟨s, d⟩ := x
    cases d with
    | none =>
      simp only [List.cons_append, timed, ticks, List.length_cons, ih]
      rw [show seq + 1 + a.length = seq + (a.length + 1) by omega]
    | some d =>
      simp only [List.cons_append, timed, ticks, List.length_cons, ih]
      rw [show seq + 1 + a.length = seq + (a.length + 1) by omega,
        show acc + 250 * d + 250 * ticks a = acc + 250 * (d + ticks a) by omega]

theorem timed_nrs (seq : Nat) (acc : Int) (n : Nat) :
    (timed seq acc (List.replicate n (0, none))).filter (fun e => e.time.isSome) = [] ∧
    ticks (List.replicate n ((0 : Nat), (none : Option Int))) = 0 := by
  induction n generalizing seq with
  | zero => simp [timed, ticks]
  | succ n ih =>
    simp only [List.replicate_succ, timed, ticks]
    exact ⟨by simpa using (ih (seq + 1)).1, (ih seq).2⟩

/-- one logged addition is reported by one decoded entry. -/
def Reports (e : Entry) (x : Nat × Int) : Prop :=
  e.seq = x.1 ∧ e.status ≠ 0 ∧ ∃ τ, e.time = some τ ∧ -125 ≤ τ - x.2 ∧ τ - x.2 ≤ 125

/-- the received entries of `es` report exactly `log`, in order. -/
def ReportsAll : List Entry → List (Nat × Int) → Prop
  | [], [] => True
  | e :: es, x :: xs => Reports e x ∧ ReportsAll es xs
  | _, _ => False

theorem reportsAll_append {es fs : List Entry} {xs ys : List (Nat × Int)}
    (h1 : ReportsAll es xs) (h2 : ReportsAll fs ys) : ReportsAll (es ++ fs) (xs ++ ys) := by
  induction es generalizing xs with
  | nil => cases xs with
    | nil => simpa using h2
    | cons x xs => simp [ReportsAll] at h1
  | cons e es ih => cases xs with
    | nil => simp [ReportsAll] at h1
    | cons x xs => exact ⟨h1.1, ih h1.2⟩

/-- invariant with the log of additions. -/
structure FbLog (f : Feedback) (syms : List Sym) (log : List (Nat × Int)) : Prop where
  inv : FbInv f syms
  base : f.base < 65536
  next : f.nextSeq = (f.base + syms.length) % 65536
  sum : 250 * ticks (pair syms f.deltas.toList) = (f.deltas.toList.map (·.2)).sum
  rep : ReportsAll ((timed f.base (f.ref64 * 64000) (pair syms f.deltas.toList)).filter
          (fun e => e.time.isSome)) log
  nrs : ∀ x ∈ pair syms f.deltas.toList, x.2 = none → x.1 = 0

theorem fbLog_setBase (s m c seq : Nat) (t : Int) (hs : seq < 65536) :
    FbLog ((newFeedback s m c).setBase seq t) [] [] := by
  refine ⟨fbInv_setBase s m c seq t, hs, ?_, ?_, ?_, ?_⟩ <;>
    simp [newFeedback, Feedback.setBase, pair, ticks, timed, ReportsAll]
  omega

theorem fbLog_add {f f' : Feedback} {syms : List Sym} {log : List (Nat × Int)} (h : FbLog f syms log)
    {seq : Nat} {t : Int} (hs : seq < 65536) (hadd : f.addReceived seq t = some f') :
    ∃ syms', FbLog f' syms' (log ++ [(seq, t)]) := by
  obtain ⟨sym, q, hq, q1, q2, hsym, hi', hd, hl, hn, hr, hb, _⟩ := addReceived_spec h.inv hadd
  have hne : sym ≠ Sym.nr := by rw [hsym]; split <;> decide
  have hcode : sym.code ≠ 0 := by cases sym <;> simp_all [Sym.code]
  have hal : f.deltas.toList.length = (syms.filter (fun s => decide (s ≠ Sym.nr))).length := by
    rw [← h.inv.kinds]; simp
  have hpair : pair (syms ++ List.replicate (sub16 seq f.nextSeq) Sym.nr ++ [sym]) f'.deltas.toList =
      pair syms f.deltas.toList ++ (List.replicate (sub16 seq f.nextSeq) (0, none) ++ [(sym.code, some q)]) := by
    rw [hd, Array.toList_push, List.append_assoc, pair_append _ _ _ _ hal, pair_nrs]
    congr 2
    cases sym <;> simp_all [pair]
  have hlen : (pair syms f.deltas.toList).length = syms.length := by
    have : ∀ (a : List Sym) (ds : List (Sym × Int)), (pair a ds).length = a.length := by
      intro a
      induction a with
      | nil => intro ds; simp [pair]
      | cons s a ih =>
        intro ds
        cases s <;> cases ds <;> simp [pair, ih]
    exact this _ _
  refine ⟨_, hi', by rw [hb]; exact h.base, ?_, ?_, ?_, ?_⟩
  · rw [hn, hb]
    simp only [List.length_append, List.length_replicate, List.length_cons, List.length_nil]
    have := h.next
    unfold sub16
    omega
  · rw [hpair]
    have tk : ∀ a b, ticks (a ++ b) = ticks a + ticks b := by
      intro a b
      induction a with
      | nil => simp [ticks]
      | cons x a ih => obtain ⟨s, d⟩ := x; cases d <;> simp [ticks, ih] <;> omega
    rw [tk, tk, (timed_nrs 0 0 _).2, hd, Array.toList_push]
    simp only [ticks, List.map_append, List.map_cons, List.map_nil, List.sum_append, List.sum_cons,
      List.sum_nil]
    have := h.sum
    omega
  · rw [hpair, hr, hb, timed_append, List.filter_append]
    apply reportsAll_append h.rep
    rw [timed_append, List.filter_append, (timed_nrs _ _ _).1, (timed_nrs 0 0 _).2]
    simp only [List.nil_append, timed, List.filter_cons, Option.isSome_some, if_true, List.filter_nil,
      ReportsAll, and_true, hlen, List.length_replicate]
    refine ⟨?_, hcode, _, rfl, ?_⟩
    · have := h.next
      have := h.base
      simp only []
      unfold sub16
      omega
    · have hc := delta250_close (t - f.lastUS)
      rw [← hq] at hc
      have ht := h.inv.time
      have := h.sum
      simp only []
      omega
  · intro x hx hnone
    rw [hpair] at hx
    simp only [List.mem_append, List.mem_replicate, List.mem_singleton] at hx
    rcases hx with hx | ⟨_, hx⟩ | hx
    · exact h.nrs x hx hnone
    · rw [hx]
    · rw [hx] at hnone; simp at hnone

theorem pair_length (a : List Sym) (ds : List (Sym × Int)) : (pair a ds).length = a.length := by
  induction a generalizing ds with
  | nil => simp [pair]
  | cons s a ih => cases s <;> cases ds <;> simp [pair, ih]

theorem timed_length (seq : Nat) (acc : Int) (a : List (Nat × Option Int)) :
    (timed seq acc a).length = a.length := by
  induction a generalizing seq acc with
  | nil => simp [timed]
  | cons x a ih => obtain ⟨s, d⟩ := x; cases d <;> simp [timed, ih]

theorem timed_none (seq : Nat) (acc : Int) (a : List (Nat × Option Int))
    (h : ∀ x ∈ a, x.2 = none → x.1 = 0) : ∀ e ∈ timed seq acc a, e.time = none → e.status = 0 := by
  induction a generalizing seq acc with
  | nil => simp [timed]
  | cons x a ih =>
    obtain ⟨s, d⟩ := x
    cases d with
    | none =>
      intro e he hn
      simp only [timed, List.mem_cons] at he
      rcases he with he | he
      · rw [he]; exact h (s, none) (by simp) rfl
      · exact ih _ _ (fun x hx => h x (by simp [hx])) e he hn
    | some d =>
      intro e he hn
      simp only [timed, List.mem_cons] at he
      rcases he with he | he
      · rw [he] at hn; simp at hn
      · exact ih _ _ (fun x hx => h x (by simp [hx])) e he hn

/-- feedbacks with the log of what was added to them (sequence numbers are uint16). -/
inductive BuiltLog : Feedback → List (Nat × Int) → Prop
  | base (s m c seq : Nat) (t : Int) : seq < 65536 → BuiltLog ((newFeedback s m c).setBase seq t) []
  | add {f f' : Feedback} {log : List (Nat × Int)} (seq : Nat) (t : Int) : BuiltLog f log → seq < 65536 →
      f.addReceived seq t = some f' → BuiltLog f' (log ++ [(seq, t)])

theorem builtLog_inv {f : Feedback} {log : List (Nat × Int)} (h : BuiltLog f log) :
    ∃ syms, FbLog f syms log := by
  induction h with
  | base s m c seq t hs => exact ⟨[], fbLog_setBase s m c seq t hs⟩
  | add seq t _ hs hadd ih =>
    obtain ⟨syms, hi⟩ := ih
    exact fbLog_add hi hs hadd

theorem builtLog_built {f : Feedback} {log : List (Nat × Int)} (h : BuiltLog f log) : Built f := by
  induction h with
  | base s m c seq t _ => exact Built.base s m c seq t
  | add seq t _ _ hadd ih => exact Built.add seq t ih hadd

/-- the statuses of a packet (first `count` symbols of the decoded chunks) paired with its deltas. -/
def Packet.statuses (p : Packet) : List (Nat × Option Int) :=
  pair ((decodeChunks p.chunks).take p.count) p.deltas

/-- the packet decoded as the draft prescribes, from the structured (chunk / delta) form; the
reference time is the 24-bit field. -/
def Packet.decodeStruct (p : Packet) : List Entry :=
  timed p.base (((p.ref % 16777216 : Nat) : Int) * 64000) p.statuses


/-- add `K` µs to every decoded time (used with `K` a multiple of the reference-time range). -/
def shiftEntry (K : Int) (e : Entry) : Entry := { e with time := e.time.map (· + K) }

theorem timed_shift (seq : Nat) (acc K : Int) (l : List (Nat × Option Int)) :
    (timed seq acc l).map (shiftEntry K) = timed seq (acc + K) l := by
  induction l generalizing seq acc with
  | nil => simp [timed]
  | cons x l ih =>
    obtain ⟨s, d⟩ := x
    cases d with
    | none => simp [timed, shiftEntry, ih]
    | some d =>
      simp only [timed, List.map_cons, ih, shiftEntry, Option.map_some]
      rw [show acc + 250 * d + K = acc + K + 250 * d by omega]

end Interceptor.Twcc

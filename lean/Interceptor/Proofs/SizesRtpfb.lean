/- C12: rtpfb history — the packets map holds only packets sent and not yet reported. -/
import Interceptor.Proofs.RtpfbHistory
namespace Interceptor.Rtpfb

def keys (h : Hist) : List Nat := h.packets.map (·.1)

/-- a strictly increasing list of naturals inside `[lo, hi)` has at most `hi - lo` elements. -/
theorem sorted_length (l : List Nat) : ∀ (lo hi : Nat), l.Pairwise (· < ·) → (∀ x ∈ l, lo ≤ x ∧ x < hi) →
    l.length ≤ hi - lo := by
  induction l with
  | nil => intro lo hi _ _; simp
  | cons x xs ih =>
    intro lo hi hp hb
    have hx := hb x (by simp)
    have hp' := List.pairwise_cons.mp hp
    have := ih (x + 1) hi hp'.2 (fun y hy => ⟨hp'.1 y hy, (hb y (by simp [hy])).2⟩)
    simp only [List.length_cons]; omega

structure Inv2 (h : Hist) : Prop where
  wf : WF h
  sorted : (keys h).Pairwise (· < ·)
  bnd : ∀ k ∈ keys h, h.nextReport ≤ k ∧ k < h.counter
  le : h.nextReport ≤ h.counter

theorem inv2_init : Inv2 {} := ⟨wf_init, by simp [keys], by simp [keys], Nat.le_refl _⟩

theorem inv2_length (h : Hist) (hi : Inv2 h) : h.packets.length ≤ h.counter - h.nextReport := by
  have := sorted_length (keys h) h.nextReport h.counter hi.sorted hi.bnd
  simpa [keys] using this

theorem ainsert_fresh {ν} (m : List (Nat × ν)) (k : Nat) (v : ν) (hf : ∀ e ∈ m, e.1 ≠ k) :
    ainsert m k v = m ++ [(k, v)] := by
  unfold ainsert
  have : m.any (·.1 == k) = false := by
    rw [List.any_eq_false]; intro e he; simpa using hf e he
  rw [this]; rfl

theorem ainsert_keys {ν} (m : List (Nat × ν)) (k : Nat) (v : ν) (hm : ∃ e ∈ m, e.1 = k) :
    (ainsert m k v).map (·.1) = m.map (·.1) := by
  unfold ainsert
  have : m.any (·.1 == k) = true := by
    rw [List.any_eq_true]; obtain ⟨e, he, hk⟩ := hm; exact ⟨e, he, by simpa using hk⟩
  rw [this]
  simp only [if_true, List.map_map]
  apply List.map_congr_left
  intro e _
  simp only [Function.comp]
  split
  · rename_i hk; simpa using (beq_iff_eq.mp hk).symm
  · rfl

theorem inv2_add (h : Hist) (hi : Inv2 h) (ssrc rtpSeq : Nat) (isTwcc : Bool) (twSeq : Nat) (size dep : Int) :
    Inv2 (addOutgoing h ssrc rtpSeq isTwcc twSeq size dep) ∧
    (addOutgoing h ssrc rtpSeq isTwcc twSeq size dep).packets.length = h.packets.length + 1 := by
  have hf : ∀ e ∈ h.packets, e.1 ≠ h.counter := by
    intro e he
    have := (hi.bnd e.1 (List.mem_map_of_mem he)).2
    omega
  have hk : (addOutgoing h ssrc rtpSeq isTwcc twSeq size dep).packets =
      h.packets ++ [(h.counter, ⟨ssrc, h.counter, rtpSeq, isTwcc, twSeq, size, false, dep, 0, 0⟩)] := by
    simp only [addOutgoing]; exact ainsert_fresh _ _ _ hf
  refine ⟨⟨(wf_add h hi.wf ssrc rtpSeq isTwcc twSeq size dep).1, ?_, ?_, ?_⟩, ?_⟩
  · simp only [keys, hk, List.map_append, List.map_cons, List.map_nil]
    rw [List.pairwise_append]
    refine ⟨hi.sorted, by simp, ?_⟩
    intro a ha b hb
    simp only [List.mem_singleton] at hb
    subst hb
    exact (hi.bnd a ha).2
  · intro k hk'
    simp only [keys, hk, List.map_append, List.map_cons, List.map_nil, List.mem_append, List.mem_singleton] at hk'
    have e1 : (addOutgoing h ssrc rtpSeq isTwcc twSeq size dep).nextReport = h.nextReport := rfl
    have e2 : (addOutgoing h ssrc rtpSeq isTwcc twSeq size dep).counter = h.counter + 1 := rfl
    rw [e1, e2]
    rcases hk' with h1 | h1
    · have := hi.bnd k h1; omega
    · have := hi.le; omega
  · have e1 : (addOutgoing h ssrc rtpSeq isTwcc twSeq size dep).nextReport = h.nextReport := rfl
    have e2 : (addOutgoing h ssrc rtpSeq isTwcc twSeq size dep).counter = h.counter + 1 := rfl
    rw [e1, e2]; have := hi.le; omega
  · rw [hk]; simp

theorem inv2_onFeedback (h : Hist) (hi : Inv2 h) (ts : Int) (c : Nat) (a : RAck) :
    Inv2 (onFeedback h ts c a).1 := by
  have hw := (wf_onFeedback h hi.wf ts c a).1
  unfold onFeedback at hw ⊢
  cases hl : alookup h.packets c with
  | none => exact hi
  | some p =>
    rw [hl] at hw
    have hm : ∃ e ∈ h.packets, e.1 = c := ⟨(c, p), alookup_mem _ _ _ hl, rfl⟩
    have hk : keys { h with packets := ainsert h.packets c { p with arrived := a.arrived, arr := a.arrival, ecn := a.ecn },
                            acked := h.acked || a.arrived,
                            highestAcked := if a.arrived ∧ h.highestAcked < p.ctr then p.ctr else h.highestAcked } = keys h := by
      simp only [keys]; exact ainsert_keys _ _ _ hm
    exact ⟨hw, by rw [hk]; exact hi.sorted, by rw [hk]; exact hi.bnd, hi.le⟩

/-- "h' is h with some packets deleted". -/
structure Sub (h' h : Hist) : Prop where
  ks : (keys h').Sublist (keys h)
  ctr : h'.counter = h.counter

theorem sub_refl (h : Hist) : Sub h h := ⟨List.Sublist.refl _, rfl⟩

theorem sub_delete (h : Hist) (p : PR) : Sub (delete h p) h ∧ ∀ k ∈ keys (delete h p), k ≠ p.ctr := by
  refine ⟨⟨?_, rfl⟩, ?_⟩
  · simp only [keys, delete, aerase]
    exact (List.filter_sublist).map _
  · intro k hk
    simp only [keys, delete, aerase, List.mem_map, List.mem_filter] at hk
    obtain ⟨e, ⟨_, h2⟩, rfl⟩ := hk
    simpa using h2

theorem sub_trans {a b c : Hist} (h1 : Sub a b) (h2 : Sub b c) : Sub a c :=
  ⟨h1.ks.trans h2.ks, h1.ctr.trans h2.ctr⟩

theorem reportLoop_sub (is : List Nat) : ∀ (h : Hist) (acc : List PR), WF h →
    Sub (reportLoop is h acc).1 h ∧ (∀ k ∈ keys (reportLoop is h acc).1, k ∉ is) ∧
    ((reportLoop is h acc).1.nextReport = h.nextReport ∨
      ∃ i, i ∈ is ∧ i ∈ keys h ∧ (reportLoop is h acc).1.nextReport = i + 1) := by
  induction is with
  | nil => intro h acc _; exact ⟨sub_refl h, by simp, Or.inl rfl⟩
  | cons i is ih =>
    intro h acc hw
    unfold reportLoop
    cases hl : alookup h.packets i with
    | none =>
      obtain ⟨s1, s2, s3⟩ := ih h acc hw
      refine ⟨s1, ?_, ?_⟩
      · intro k hk hmem
        rcases List.mem_cons.mp hmem with rfl | hm
        · -- k = i is a key of h: contradiction with the failed lookup
          have hk' : k ∈ keys h := s1.ks.subset hk
          simp only [keys, List.mem_map] at hk'
          obtain ⟨e, he, rfl⟩ := hk'
          unfold alookup at hl
          simp only [Option.map_eq_none_iff] at hl
          have := List.find?_eq_none.mp hl e he
          simp at this
        · exact s2 k hk hm
      · rcases s3 with h1 | ⟨j, hj, hjk, h2⟩
        · exact Or.inl h1
        · exact Or.inr ⟨j, List.mem_cons_of_mem _ hj, hjk, h2⟩
    | some p =>
      have hp : p.ctr = i := hw _ (alookup_mem _ _ _ hl)
      have hik : i ∈ keys h := by
        simp only [keys, List.mem_map]; exact ⟨(i, p), alookup_mem _ _ _ hl, rfl⟩
      simp only
      obtain ⟨d1, d2⟩ := sub_delete h p
      have hw1 := (wf_delete h hw p).1
      by_cases hge : p.ctr ≥ (delete h p).nextReport
      · rw [if_pos hge]
        have hw2 : WF { delete h p with nextReport := p.ctr + 1 } := hw1
        obtain ⟨s1, s2, s3⟩ := ih _ (p :: acc) hw2
        have sd : Sub { delete h p with nextReport := p.ctr + 1 } h := ⟨d1.ks, d1.ctr⟩
        refine ⟨sub_trans s1 sd, ?_, ?_⟩
        · intro k hk hmem
          rcases List.mem_cons.mp hmem with rfl | hm
          · exact d2 k (s1.ks.subset hk) hp.symm
          · exact s2 k hk hm
        · rcases s3 with h1 | ⟨j, hj, hjk, h2⟩
          · exact Or.inr ⟨i, by simp, hik, by rw [h1]; simp [hp]⟩
          · exact Or.inr ⟨j, List.mem_cons_of_mem _ hj, d1.ks.subset hjk, h2⟩
      · rw [if_neg hge]
        obtain ⟨s1, s2, s3⟩ := ih _ (p :: acc) hw1
        refine ⟨sub_trans s1 d1, ?_, ?_⟩
        · intro k hk hmem
          rcases List.mem_cons.mp hmem with rfl | hm
          · exact d2 k (s1.ks.subset hk) hp.symm
          · exact s2 k hk hm
        · rcases s3 with h1 | ⟨j, hj, hjk, h2⟩
          · exact Or.inl h1
          · exact Or.inr ⟨j, List.mem_cons_of_mem _ hj, d1.ks.subset hjk, h2⟩

theorem cleanFold_sub (l : List Nat) : ∀ (h : Hist), Sub (l.foldl cleanStep h) h ∧ (l.foldl cleanStep h).nextReport = h.nextReport := by
  induction l with
  | nil => intro h; exact ⟨sub_refl h, rfl⟩
  | cons i l ih =>
    intro h
    simp only [List.foldl_cons]
    unfold cleanStep
    cases alookup h.packets i with
    | none => exact ih h
    | some p =>
      obtain ⟨a, b⟩ := ih (delete h p)
      exact ⟨sub_trans a (sub_delete h p).1, b⟩

theorem sub_setClean (f : Hist) (x : Nat) :
    Sub { f with cleanUntil := x } f ∧ ({ f with cleanUntil := x } : Hist).nextReport = f.nextReport :=
  ⟨⟨List.Sublist.refl _, rfl⟩, rfl⟩

theorem cleanBefore_sub (h : Hist) (c : Nat) : Sub (cleanBefore h c) h ∧ (cleanBefore h c).nextReport = h.nextReport := by
  obtain ⟨a, b⟩ := cleanFold_sub (List.range' h.cleanUntil (c - h.cleanUntil)) h
  have e : cleanBefore h c =
      { (List.range' h.cleanUntil (c - h.cleanUntil)).foldl cleanStep h with cleanUntil := c } := rfl
  rw [e]
  obtain ⟨u, v⟩ := sub_setClean ((List.range' h.cleanUntil (c - h.cleanUntil)).foldl cleanStep h) c
  exact ⟨sub_trans u a, v.trans b⟩

theorem inv2_buildReport (h : Hist) (hi : Inv2 h) : Inv2 (buildReport h).1 := by
  have hwf := (buildReport_spec h hi.wf).2.2.2
  unfold buildReport at hwf ⊢
  by_cases hgt : h.acked = false ∨ h.nextReport > h.highestAcked
  · rw [if_pos hgt]; exact hi
  · rw [if_neg hgt] at hwf ⊢
    have spec := reportLoop_sub (List.range' h.nextReport (h.highestAcked + 1 - h.nextReport)) h [] hi.wf
    generalize reportLoop (List.range' h.nextReport (h.highestAcked + 1 - h.nextReport)) h [] = rl at spec hwf ⊢
    obtain ⟨h1, res⟩ := rl
    obtain ⟨s1, s2, s3⟩ := spec
    simp only at s1 s2 s3 hwf ⊢
    obtain ⟨c1, c2⟩ := cleanBefore_sub h1 h1.nextReport
    have sub : Sub (cleanBefore h1 h1.nextReport) h := sub_trans c1 s1
    refine ⟨hwf, hi.sorted.sublist sub.ks, ?_, ?_⟩
    · intro k hk
      have hkh := hi.bnd k (sub.ks.subset hk)
      have hk1 : k ∈ keys h1 := c1.ks.subset hk
      have hnot := s2 k hk1
      rw [List.mem_range'_1] at hnot
      rw [c2, sub.ctr]
      refine ⟨?_, hkh.2⟩
      rcases s3 with e | ⟨i, hi1, _, e⟩
      · rw [e]; exact hkh.1
      · rw [e]; rw [List.mem_range'_1] at hi1; omega
    · rw [c2, sub.ctr]
      rcases s3 with e | ⟨i, _, hik, e⟩
      · rw [e]; exact hi.le
      · rw [e]; have := (hi.bnd i hik).2; omega

/-- every operation on the history keeps the invariant. -/
theorem inv2_stepOp (h : Hist) (hi : Inv2 h) (op : HOp) : Inv2 (stepOp h op).1 := by
  cases op with
  | add ssrc rtpSeq isTwcc twSeq size dep => exact (inv2_add h hi ssrc rtpSeq isTwcc twSeq size dep).1
  | ackTw ts a =>
    simp only [stepOp, onTWCCFeedback]
    cases alookup h.twcc a.seq with
    | none => exact hi
    | some c => exact inv2_onFeedback h hi ts c a
  | ackCc ts ssrc a =>
    simp only [stepOp, onCCFBFeedback]
    cases alookup h.ss (ssrc, a.seq) with
    | none => exact hi
    | some c => exact inv2_onFeedback h hi ts c a
  | build => exact inv2_buildReport h hi

/-- the state after a list of operations. -/
def runH (h : Hist) (ops : List HOp) : Hist := ops.foldl (fun h op => (stepOp h op).1) h

theorem inv2_runH (ops : List HOp) : ∀ h, Inv2 h → Inv2 (runH h ops) := by
  induction ops with
  | nil => intro h hi; exact hi
  | cons op ops ih => intro h hi; exact ih _ (inv2_stepOp h hi op)

theorem runH_cons (h : Hist) (op : HOp) (ops : List HOp) : runH h (op :: ops) = runH (stepOp h op).1 ops := rfl

theorem runH_adds (n : Nat) : ∀ h, Inv2 h →
    (runH h (List.replicate n (.add 1 0 false 0 0 0))).packets.length = h.packets.length + n := by
  induction n with
  | zero => intro h _; rfl
  | succ n ih =>
    intro h hi
    obtain ⟨a, b⟩ := inv2_add h hi 1 0 false 0 0 0
    rw [List.replicate_succ, runH_cons]
    have := ih (stepOp h (.add 1 0 false 0 0 0)).1 a
    rw [this]
    show (addOutgoing h 1 0 false 0 0 0).packets.length + n = _
    rw [b]; omega

end Interceptor.Rtpfb

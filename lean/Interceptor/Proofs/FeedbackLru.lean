/- the 250-entry history of cc.FeedbackAdapter: unique keys, move-to-front on re-add, survival of
the most recent entries (C09.T6, used against the seeded defect m1) -/
import Interceptor.Model.FeedbackAdapter
namespace Interceptor.FeedbackAdapter

/-- no two entries share a (SSRC, sequence number) key — what the Go map index guarantees. -/
def KeysUnique (h : Hist) : Prop := h.Pairwise (fun a b => ¬ (a.ssrc = b.ssrc ∧ a.seq = b.seq))

theorem sameKey_iff (ssrc seq : Nat) (a : Ack) : sameKey ssrc seq a = true ↔ a.ssrc = ssrc ∧ a.seq = seq := by
  simp [sameKey]

theorem eraseP_no_key (h : Hist) (hu : KeysUnique h) (ssrc seq : Nat) :
    ∀ b ∈ h.eraseP (sameKey ssrc seq), sameKey ssrc seq b = false := by
  induction h with
  | nil => intro b hb; simp at hb
  | cons x xs ih =>
    intro b hb
    have hux : KeysUnique xs := (List.pairwise_cons.mp hu).2
    have hx := (List.pairwise_cons.mp hu).1
    by_cases hp : sameKey ssrc seq x = true
    · rw [List.eraseP_cons_of_pos hp] at hb
      have hk := (sameKey_iff _ _ _).mp hp
      have := hx b hb
      cases hsb : sameKey ssrc seq b with
      | false => rfl
      | true =>
        have hkb := (sameKey_iff _ _ _).mp hsb
        exact absurd ⟨hk.1.trans hkb.1.symm, hk.2.trans hkb.2.symm⟩ this
    · rw [List.eraseP_cons_of_neg hp] at hb
      rcases List.mem_cons.mp hb with rfl | hb
      · simpa using hp
      · exact ih hux b hb

theorem add_keysUnique (h : Hist) (a : Ack) (hu : KeysUnique h) : KeysUnique (add h a) := by
  unfold add
  split
  · refine List.pairwise_cons.mpr ⟨?_, List.Pairwise.sublist (List.eraseP_sublist) hu⟩
    intro b hb hk
    have := eraseP_no_key h hu a.ssrc a.seq b hb
    rw [(sameKey_iff _ _ _).mpr ⟨hk.1.symm, hk.2.symm⟩] at this
    cases this
  · rename_i hnew
    have hcons : KeysUnique (a :: h) := by
      refine List.pairwise_cons.mpr ⟨?_, hu⟩
      intro b hb hk
      apply hnew
      exact List.any_eq_true.mpr ⟨b, hb, (sameKey_iff _ _ _).mpr ⟨hk.1.symm, hk.2.symm⟩⟩
    dsimp only
    split
    · exact List.Pairwise.sublist (List.dropLast_sublist _) hcons
    · exact hcons

theorem add_length_le (h : Hist) (a : Ack) (hl : h.length ≤ lruSize) : (add h a).length ≤ lruSize := by
  unfold add
  split
  · have : (h.eraseP (sameKey a.ssrc a.seq)).length = h.length - 1 := by
      rw [List.length_eraseP]; simp [*]
    have hpos : 0 < h.length := by
      cases h with
      | nil => simp_all
      | cons _ _ => simp
    simp only [List.length_cons, this]; omega
  · simp only [List.length_cons]
    split
    · simp [List.length_dropLast]; omega
    · simp only [List.length_cons]; omega

/-- with unique keys, `get` finds exactly the entry that is in the list. -/
theorem get_of_mem (h : Hist) (hu : KeysUnique h) (a : Ack) (ha : a ∈ h) : get h a.ssrc a.seq = some a := by
  induction h with
  | nil => cases ha
  | cons x xs ih =>
    unfold get
    by_cases hx : x = a
    · subst hx; simp [sameKey]
    · have hax : a ∈ xs := by
        rcases List.mem_cons.mp ha with h1 | h1
        · exact absurd h1.symm hx
        · exact h1
      have hne := (List.pairwise_cons.mp hu).1 a hax
      have hs : sameKey a.ssrc a.seq x = false := by
        cases hsx : sameKey a.ssrc a.seq x with
        | false => rfl
        | true => exact absurd ((sameKey_iff _ _ _).mp hsx) hne
      rw [List.find?_cons, hs]
      exact ih (List.pairwise_cons.mp hu).2 hax

theorem mem_take_eraseP (p : Ack → Bool) (a : Ack) (hpa : p a = false) :
    ∀ (h : Hist) (n : Nat), a ∈ h.take n → a ∈ (h.eraseP p).take n := by
  intro h
  induction h with
  | nil => intro n ha; simp at ha
  | cons x xs ih =>
    intro n ha
    cases n with
    | zero => simp at ha
    | succ m =>
      simp only [List.take_succ_cons, List.mem_cons] at ha
      by_cases hp : p x = true
      · rw [List.eraseP_cons_of_pos hp]
        rcases ha with rfl | ha
        · rw [hpa] at hp; cases hp
        · have e : List.take m xs = List.take m (List.take (m + 1) xs) := by
            rw [List.take_take, Nat.min_eq_left (by omega)]
          rw [e] at ha; exact List.mem_of_mem_take ha
      · rw [List.eraseP_cons_of_neg hp, List.take_succ_cons]
        rcases ha with rfl | ha
        · exact List.mem_cons_self ..
        · exact List.mem_cons_of_mem _ (ih m ha)

/-- one more `add` of a DIFFERENT key pushes an entry of the first `k` places at most one place
down, as long as it stays inside the 250 places. -/
theorem add_keeps_recent (h : Hist) (a b : Ack) (k : Nat) (ha : a ∈ h.take k) (hk : k + 1 ≤ lruSize)
    (hl : h.length ≤ lruSize) (hne : sameKey b.ssrc b.seq a = false) : a ∈ (add h b).take (k + 1) := by
  unfold add
  split
  · rw [List.take_succ_cons]
    exact List.mem_cons_of_mem _ (mem_take_eraseP _ a hne h k ha)
  · have hmem : a ∈ (b :: h).take (k + 1) := by
      rw [List.take_succ_cons]; exact List.mem_cons_of_mem _ ha
    dsimp only
    split
    · rename_i hlen
      rw [List.dropLast_eq_take, List.take_take]
      have : min (k + 1) ((b :: h).length - 1) = k + 1 := by
        simp only [List.length_cons] at hlen ⊢
        unfold lruSize at *; omega
      rw [this]; exact hmem
    · exact hmem

theorem foldl_add_keeps_recent (a : Ack) (bs : List Ack) : ∀ (h : Hist) (k : Nat),
    a ∈ h.take k → k + bs.length ≤ lruSize → KeysUnique h → h.length ≤ lruSize →
    (∀ b ∈ bs, sameKey b.ssrc b.seq a = false) →
    a ∈ bs.foldl add h ∧ KeysUnique (bs.foldl add h) ∧ (bs.foldl add h).length ≤ lruSize := by
  induction bs with
  | nil => intro h k ha _ hu hl _; exact ⟨List.mem_of_mem_take ha, hu, hl⟩
  | cons b bs ih =>
    intro h k ha hk hu hl hne
    simp only [List.length_cons] at hk
    simp only [List.foldl_cons]
    exact ih (add h b) (k + 1)
      (add_keeps_recent h a b k ha (by omega) hl (hne b (List.mem_cons_self ..)))
      (by omega) (add_keysUnique h b hu) (add_length_le h b hl)
      (fun x hx => hne x (List.mem_cons_of_mem _ hx))

end Interceptor.FeedbackAdapter

/-
Helper lemmas for C14: repair packet headers of the encode loop, sequence numbers of a consecutive
batch, the coverage table across `UpdateCoverage` calls.  Core Lean only.
-/
import Interceptor.Proofs.FlexFecGlue
namespace Interceptor.FlexFec

theorem encodeLoop_headers (c : Coverage) (pt ssrc base : Nat) : ∀ (is : List Nat) (sn : Nat), sn < 65536 →
    (∀ q ∈ (encodeLoop c pt ssrc base is sn).2, q.ssrc = ssrc ∧ q.pt = pt ∧ q.ts = 54243243) ∧
    (encodeLoop c pt ssrc base is sn).2.map (·.seq)
      = (List.range (encodeLoop c pt ssrc base is sn).2.length).map (fun t => (sn + t) % 65536) ∧
    (encodeLoop c pt ssrc base is sn).1 = (sn + (encodeLoop c pt ssrc base is sn).2.length) % 65536 := by
  intro is
  induction is with
  | nil =>
    intro sn h
    simp [encodeLoop]
    omega
  | cons i is ih =>
    intro sn h
    unfold encodeLoop
    cases hp : fecPayload c i base with
    | none => simpa using ih sn h
    | some pl =>
      have ih' := ih ((sn + 1) % 65536) (Nat.mod_lt _ (by decide))
      generalize encodeLoop c pt ssrc base is ((sn + 1) % 65536) = r at ih'
      obtain ⟨sn', rest⟩ := r
      obtain ⟨h1, h2, h3⟩ := ih'
      simp only at h1 h2 h3 ⊢
      refine ⟨?_, ?_, ?_⟩
      · intro q hq
        rcases List.mem_cons.1 hq with e | e
        · subst e; exact ⟨rfl, rfl, rfl⟩
        · exact h1 q e
      · rw [List.map_cons, h2, List.length_cons, List.range_succ_eq_map, List.map_cons, List.map_map]
        congr 1
        · show sn = (sn + 0) % 65536
          omega
        · apply List.map_congr_left
          intro t _
          show ((sn + 1) % 65536 + t) % 65536 = (sn + (t + 1)) % 65536
          omega
      · rw [h3, List.length_cons]; omega

theorem seqs_of_consecutive : ∀ (media : List Bytes), (∀ p ∈ media, seqOf p < 65536) →
    consecutive media = true → ∀ k, k < media.length →
      seqOf (media.getD k []) = (seqOf (media.getD 0 []) + k) % 65536 := by
  intro media
  induction media with
  | nil => intro _ _ k hk; simp at hk
  | cons a rest ih =>
    intro hlt hc k hk
    cases rest with
    | nil =>
      have : k = 0 := by simpa using hk
      subst this
      have := hlt a (by simp)
      simp; omega
    | cons b rest =>
      have hc' : (seqOf b == (seqOf a + 1) % 65536) = true ∧ consecutive (b :: rest) = true := by
        simpa [consecutive] using hc
      have hb : seqOf b = (seqOf a + 1) % 65536 := by simpa using hc'.1
      cases k with
      | zero =>
        have := hlt a (by simp)
        simp; omega
      | succ k =>
        have := ih (fun p hp => hlt p (by simp [hp])) hc'.2 k (by simpa using hk)
        simp only [List.getD_cons_succ, List.getD_cons_zero] at this ⊢
        rw [this, hb]
        omega

/-- the invariant of the table: it is the one built for the stored shape (initially all zero
for the shape (0, 0)). -/
def MasksOk (c : Coverage) : Prop := c.masks = buildMasks c.numMedia c.numFec

theorem masksOk_init (media : List Bytes) : MasksOk ⟨List.replicate maxFecPackets BitArray.empty, 0, 0, media⟩ := by
  show List.replicate maxFecPackets BitArray.empty = buildMasks 0 0
  decide

theorem update_masksOk (c : Coverage) (media : List Bytes) (f : Nat) (h : MasksOk c) :
    MasksOk (c.update media f) := by
  unfold Coverage.update
  simp only []
  split
  · exact h
  · split
    · exact h
    · rfl

theorem update_shape (c : Coverage) (media : List Bytes) (f : Nat)
    (h1 : 1 ≤ media.length) (h2 : media.length ≤ 110) :
    (c.update media f).media = media ∧ (c.update media f).numMedia = media.length ∧
    (c.update media f).numFec = f := by
  unfold Coverage.update maxMediaPackets
  simp only []
  have : ¬ (media.length = 0 ∨ media.length > 110) := by omega
  rw [if_neg this]
  split
  · rename_i h; exact ⟨rfl, h.2.symm, h.1.symm⟩
  · exact ⟨rfl, rfl, rfl⟩

theorem encodeFec_size (e : Encoder) (media : List Bytes) (f : Nat)
    (h : media.length = 0 ∨ media.length > maxFlexFec03MediaPackets) : e.encodeFec media f = (e, none) := by
  unfold Encoder.encodeFec; rw [if_pos h]

theorem encodeFec_order (e : Encoder) (media : List Bytes) (f : Nat)
    (h : ¬ (media.length = 0 ∨ media.length > maxFlexFec03MediaPackets)) (h2 : consecutive media = false) :
    e.encodeFec media f = (e, none) := by
  unfold Encoder.encodeFec; rw [if_neg h, h2]; rfl

theorem encodeFec_nocov (e : Encoder) (media : List Bytes) (f : Nat)
    (h : ¬ (media.length = 0 ∨ media.length > maxFlexFec03MediaPackets)) (h2 : consecutive media = true)
    (h3 : nextCov e media f = none) : e.encodeFec media f = ({ e with cov := none }, none) := by
  unfold Encoder.encodeFec; rw [if_neg h, h2]
  simp only [Bool.not_true, Bool.false_eq_true, if_false]
  rw [h3]

theorem encodeFec_accept (e : Encoder) (media : List Bytes) (f : Nat) (c : Coverage)
    (h : ¬ (media.length = 0 ∨ media.length > maxFlexFec03MediaPackets)) (h2 : consecutive media = true)
    (h3 : nextCov e media f = some c) :
    e.encodeFec media f =
      ({ e with cov := some c,
                fecSn := (encodeLoop c e.pt e.ssrc (seqOf (media.getD 0 [])) (List.range f) e.fecSn).1 },
       some (encodeLoop c e.pt e.ssrc (seqOf (media.getD 0 [])) (List.range f) e.fecSn).2) := by
  unfold Encoder.encodeFec; rw [if_neg h, h2]
  simp only [Bool.not_true, Bool.false_eq_true, if_false]
  rw [h3]

theorem nextCov_masksOk (e : Encoder) (media : List Bytes) (f : Nat) (he : ∀ c, e.cov = some c → MasksOk c)
    (c : Coverage) (h : nextCov e media f = some c) : MasksOk c := by
  unfold nextCov at h
  cases hcov : e.cov with
  | none =>
    rw [hcov] at h
    simp only [newCoverage] at h
    split at h
    · simp at h
    · rw [← Option.some.inj h]
      exact update_masksOk _ media f (masksOk_init [])
  | some c0 =>
    rw [hcov] at h
    rw [← Option.some.inj h]
    exact update_masksOk c0 media f (he c0 hcov)

theorem nextCov_some (e : Encoder) (media : List Bytes) (f : Nat)
    (h1 : 1 ≤ media.length) (h2 : media.length ≤ 110) :
    ∃ c, nextCov e media f = some c ∧ c.media = media ∧ c.numMedia = media.length ∧ c.numFec = f := by
  unfold nextCov
  cases e.cov with
  | none =>
    have h : ¬ (media.length = 0 ∨ media.length > maxMediaPackets) := by unfold maxMediaPackets; omega
    simp only [newCoverage, if_neg h]
    exact ⟨_, rfl, update_shape _ media f h1 h2⟩
  | some c0 => exact ⟨_, rfl, update_shape c0 media f h1 h2⟩

end Interceptor.FlexFec

/- helper lemmas about the panic monad used by the C09 / C02 feedback proofs -/
import Interceptor.Base.Res
namespace Interceptor

@[simp] theorem Res.bind_ok {α β} (a : α) (f : α → Res β) : (Res.ok a >>= f) = f a := rfl
@[simp] theorem Res.bind_err {α β} (e : String) (f : α → Res β) : (Res.err e >>= f) = Res.err e := rfl
@[simp] theorem Res.bind_panic {α β} (s : String) (f : α → Res β) : (Res.panic s >>= f) = Res.panic s := rfl
@[simp] theorem Res.pure_eq {α} (a : α) : (pure a : Res α) = Res.ok a := rfl

theorem idx_lt {α} (site : String) (xs : List α) (i : Nat) (h : i < xs.length) :
    idx site xs i = .ok xs[i] := by
  unfold idx
  simp [h]


/-- `r` does not panic, and satisfies `p` when it returns normally. -/
def Res.sat {α} (p : α → Prop) : Res α → Prop
  | .ok a => p a
  | .err _ => True
  | .panic _ => False

theorem Res.sat_bind {α β} {p : α → Prop} {q : β → Prop} {r : Res α} {f : α → Res β}
    (hr : r.sat p) (hf : ∀ a, p a → (f a).sat q) : (r >>= f).sat q := by
  cases r with
  | ok a => exact hf a hr
  | err e => trivial
  | panic s => exact hr.elim

theorem Res.sat_mono {α} {p q : α → Prop} {r : Res α} (hr : r.sat p) (h : ∀ a, p a → q a) : r.sat q := by
  cases r with
  | ok a => exact h a hr
  | err e => trivial
  | panic s => exact hr.elim

theorem Res.sat_ne_panic {α} {p : α → Prop} {r : Res α} (hr : r.sat p) (s : String) : r ≠ .panic s := by
  intro h; rw [h] at hr; exact hr

theorem Res.sat_of_ok {α} {p : α → Prop} {r : Res α} {a : α} (hr : r.sat p) (h : r = .ok a) : p a := by
  rw [h] at hr; exact hr
end Interceptor

import Interceptor.Model.RefMachine
namespace Interceptor.RefMachine

/-- `count = [in ring] + [in a writer's hand] + #in-flight`; freed only at count 0; ids not yet
allocated are untouched. -/
structure Inv (s : St) : Prop where
  count : ∀ id, s.cnt id = s.ring.count id + s.hand.count id + s.inflight.count id
  freed : ∀ id, s.freed id = true → s.cnt id = 0
  fresh : ∀ id, s.next ≤ id → s.cnt id = 0 ∧ s.freed id = false

theorem inv_init : Inv init := ⟨by intro id; simp [init], by intro id; simp [init], by intro id; simp [init]⟩

theorem count_erase' (l : List Nat) (a b : Nat) (h : a ∈ l) :
    (l.erase a).count b = l.count b - (if b = a then 1 else 0) := by
  by_cases e : b = a
  · subst e; simp [List.count_erase_self]
  · simp [List.count_erase_of_ne (Ne.symm (fun c => e c.symm)), e]

theorem count_pos' {l : List Nat} {a : Nat} (h : a ∈ l) : 1 ≤ l.count a := List.count_pos_iff.2 h

theorem inv_step {s t : St} (hi : Inv s) (st : Step s t) : Inv t := by
  cases st with
  | new =>
    have hf := hi.fresh s.next (Nat.le_refl _)
    have hc := hi.count s.next
    refine ⟨?_, ?_, ?_⟩
    · intro id
      simp only [List.count_cons]
      by_cases e : id = s.next
      · subst e; simp; rw [hf.1] at hc; omega
      · have := hi.count id; simp [e, Ne.symm e]; omega
    · intro id h
      by_cases e : id = s.next
      · subst e; simp [hf.2] at h
      · simp [e]; exact hi.freed id h
    · intro id h
      have : id ≠ s.next := by intro c; subst c; simp at h; omega
      simp [this]; exact hi.fresh id (by simp at h; omega)
  | store id h =>
    refine ⟨?_, hi.freed, hi.fresh⟩
    intro j
    have := hi.count j
    have hp := count_pos' h
    simp only [List.count_cons, count_erase' _ _ _ h]
    by_cases e : j = id
    · subst e; simp; omega
    · simp [e, Ne.symm e]; omega
  | drop id h =>
    have hp := count_pos' h
    have hcid := hi.count id
    refine ⟨?_, ?_, ?_⟩
    · intro j
      have := hi.count j
      simp only [rel, count_erase' _ _ _ h]
      by_cases e : j = id
      · subst e; simp; omega
      · simp [e]; omega
    · intro j hj
      simp only [rel] at hj ⊢
      by_cases e : j = id
      · subst e; simp at hj ⊢
        rcases hj with hj | hj
        · exact hj
        · have := hi.freed j hj; omega
      · simp [e] at hj ⊢; exact hi.freed j hj
    · intro j hj
      have hne : j ≠ id := by
        intro c; subst c
        have := (hi.fresh j hj).1; omega
      simp [rel, hne]; exact hi.fresh j hj
  | evict id h =>
    have hp := count_pos' h
    have hcid := hi.count id
    refine ⟨?_, ?_, ?_⟩
    · intro j
      have := hi.count j
      simp only [rel, count_erase' _ _ _ h]
      by_cases e : j = id
      · subst e; simp; omega
      · simp [e]; omega
    · intro j hj
      simp only [rel] at hj ⊢
      by_cases e : j = id
      · subst e; simp at hj ⊢
        rcases hj with hj | hj
        · exact hj
        · have := hi.freed j hj; omega
      · simp [e] at hj ⊢; exact hi.freed j hj
    · intro j hj
      have hne : j ≠ id := by
        intro c; subst c
        have := (hi.fresh j hj).1; omega
      simp [rel, hne]; exact hi.fresh j hj
  | get id h hc =>
    refine ⟨?_, ?_, ?_⟩
    · intro j
      have := hi.count j
      simp only [List.count_cons]
      by_cases e : j = id
      · subst e; simp; omega
      · simp [e, Ne.symm e]; omega
    · intro j hj
      by_cases e : j = id
      · subst e; have := hi.freed j hj; exact absurd this hc
      · simp [e]; exact hi.freed j hj
    · intro j hj
      have hne : j ≠ id := by
        intro c; subst c
        exact hc (hi.fresh j hj).1
      simp [hne]; exact hi.fresh j hj
  | write id h => exact hi
  | release id h =>
    have hp := count_pos' h
    have hcid := hi.count id
    refine ⟨?_, ?_, ?_⟩
    · intro j
      have := hi.count j
      simp only [rel, count_erase' _ _ _ h]
      by_cases e : j = id
      · subst e; simp; omega
      · simp [e]; omega
    · intro j hj
      simp only [rel] at hj ⊢
      by_cases e : j = id
      · subst e; simp at hj ⊢
        rcases hj with hj | hj
        · exact hj
        · have := hi.freed j hj; omega
      · simp [e] at hj ⊢; exact hi.freed j hj
    · intro j hj
      have hne : j ≠ id := by
        intro c; subst c
        have := (hi.fresh j hj).1; omega
      simp [rel, hne]; exact hi.fresh j hj

theorem inv_reachable {s : St} (h : Reachable s) : Inv s := by
  induction h with
  | init => exact inv_init
  | step _ st ih => exact inv_step ih st

end Interceptor.RefMachine

/-
Helper lemmas for C14: xor of zero-extended byte strings (pointwise law, lengths), xor-sums over
a cover list with one element removed, the running xor of the encoder.  Core Lean only.
-/
import Interceptor.Model.FlexFec
import Interceptor.Spec.FlexFecDecode
namespace Interceptor.FlexFec
open Interceptor.FlexFecSpec (xorBytes)

/-- xor of a list of numbers. -/
def xsum (l : List Nat) : Nat := l.foldr (· ^^^ ·) 0

@[simp] theorem xsum_nil : xsum [] = 0 := rfl
@[simp] theorem xsum_cons (a : Nat) (l : List Nat) : xsum (a :: l) = a ^^^ xsum l := rfl

theorem xorBytes_eq_xorInto : ∀ (a b : Bytes), xorBytes a b = xorInto a b := by
  intro a
  induction a with
  | nil => intro b; cases b <;> simp [xorBytes, xorInto]
  | cons x xs ih => intro b; cases b <;> simp [xorBytes, xorInto, ih]

theorem xorInto_getD : ∀ (d s : Bytes) (i : Nat), (xorInto d s).getD i 0 = d.getD i 0 ^^^ s.getD i 0 := by
  intro d
  induction d with
  | nil => intro s i; cases s <;> simp [xorInto]
  | cons x xs ih =>
    intro s i
    cases s with
    | nil => simp [xorInto]
    | cons y ys =>
      cases i with
      | zero => simp [xorInto]
      | succ i => simpa [xorInto] using ih ys i

theorem xorInto_length : ∀ (d s : Bytes), (xorInto d s).length = max d.length s.length := by
  intro d
  induction d with
  | nil => intro s; cases s <;> simp [xorInto]
  | cons x xs ih =>
    intro s
    cases s with
    | nil => simp [xorInto]
    | cons y ys => simp [xorInto, ih ys]

/-- pointwise value of a left fold of zero-extended xors. -/
theorem foldl_xorInto_getD (g : Bytes → Bytes) (i : Nat) : ∀ (ps : List Bytes) (init : Bytes),
    (ps.foldl (fun acc p => xorInto acc (g p)) init).getD i 0
      = init.getD i 0 ^^^ xsum (ps.map fun p => (g p).getD i 0) := by
  intro ps
  induction ps with
  | nil => intro init; simp
  | cons p ps ih =>
    intro init
    simp only [List.foldl_cons, List.map_cons, xsum_cons]
    rw [ih, xorInto_getD, Nat.xor_assoc]

theorem foldl_xorInto_length_init (g : Bytes → Bytes) : ∀ (ps : List Bytes) (init : Bytes),
    init.length ≤ (ps.foldl (fun acc p => xorInto acc (g p)) init).length := by
  intro ps
  induction ps with
  | nil => intro init; simp
  | cons p ps ih =>
    intro init
    simp only [List.foldl_cons]
    have := ih (xorInto init (g p))
    rw [xorInto_length] at this
    omega

theorem foldl_xorInto_length_mem (g : Bytes → Bytes) : ∀ (ps : List Bytes) (init : Bytes) (q : Bytes),
    q ∈ ps → (g q).length ≤ (ps.foldl (fun acc p => xorInto acc (g p)) init).length := by
  intro ps
  induction ps with
  | nil => intro init q h; simp at h
  | cons p ps ih =>
    intro init q h
    simp only [List.foldl_cons]
    rcases List.mem_cons.1 h with e | e
    · subst e
      have := foldl_xorInto_length_init g ps (xorInto init (g q))
      rw [xorInto_length] at this
      omega
    · exact ih _ q e

/-- length is exactly the maximum when every summand is at most as long as `init`. -/
theorem foldl_xorInto_length_eq (g : Bytes → Bytes) : ∀ (ps : List Bytes) (init : Bytes),
    (∀ q ∈ ps, (g q).length ≤ init.length) →
    (ps.foldl (fun acc p => xorInto acc (g p)) init).length = init.length := by
  intro ps
  induction ps with
  | nil => intro init _; simp
  | cons p ps ih =>
    intro init h
    simp only [List.foldl_cons]
    have hp := h p (by simp)
    have e : (xorInto init (g p)).length = init.length := by rw [xorInto_length]; omega
    rw [ih _ (fun q hq => by rw [e]; exact h q (by simp [hq])), e]

/-- removing one (duplicate-free) index from an xor-sum. -/
theorem xsum_remove (g : Nat → Nat) (j : Nat) : ∀ (l : List Nat), l.Nodup → j ∈ l →
    xsum (l.map g) = g j ^^^ xsum ((l.filter (· != j)).map g) := by
  intro l
  induction l with
  | nil => intro _ h; simp at h
  | cons a l ih =>
    intro hnd hmem
    have hnd' := List.nodup_cons.1 hnd
    by_cases e : a = j
    · subst e
      have : l.filter (· != a) = l := by
        apply List.filter_eq_self.2
        intro x hx
        have : x ≠ a := fun h => hnd'.1 (h ▸ hx)
        simp [this]
      simp [this]
    · have hm : j ∈ l := by
        rcases List.mem_cons.1 hmem with h | h
        · exact absurd h.symm e
        · exact h
      have hb : (a != j) = true := by simp [e]
      simp only [List.map_cons, xsum_cons, List.filter_cons, hb, if_true]
      rw [ih hnd'.2 hm, ← Nat.xor_assoc, ← Nat.xor_assoc, Nat.xor_comm (g a) (g j)]

/-- the cancellation used by every recovered field: (xor over all) xor (xor over the others) = the lost one. -/
theorem xsum_cancel (g : Nat → Nat) (j : Nat) (l : List Nat) (hnd : l.Nodup) (hj : j ∈ l) :
    xsum (l.map g) ^^^ xsum ((l.filter (· != j)).map g) = g j := by
  rw [xsum_remove g j l hnd hj, Nat.xor_assoc, Nat.xor_self, Nat.xor_zero]

theorem getD_replicate_zero (n i : Nat) : (List.replicate n 0).getD i 0 = 0 := by
  simp [List.getD_eq_getElem?_getD, List.getElem?_replicate]
  split <;> simp

/-- a prefix determined pointwise. -/
theorem take_eq_of_getD : ∀ (l' l : List Nat), l'.length ≤ l.length →
    (∀ i, i < l'.length → l.getD i 0 = l'.getD i 0) → l.take l'.length = l' := by
  intro l'
  induction l' with
  | nil => intro l _ _; simp
  | cons a l' ih =>
    intro l hlen h
    cases l with
    | nil => simp at hlen
    | cons b l =>
      have h0 := h 0 (by simp)
      simp at h0
      simp only [List.length_cons, List.take_succ_cons, h0]
      congr 1
      apply ih l (by simpa using hlen)
      intro i hi
      have := h (i + 1) (by simpa using hi)
      simpa using this

/-! ### the encoder's running xor -/

theorem foldl_step_field (proj : Acc → Nat) (g : Bytes → Nat)
    (h : ∀ a p, proj (a.step p) = proj a ^^^ g p) : ∀ (ps : List Bytes) (a : Acc),
    proj (ps.foldl Acc.step a) = proj a ^^^ xsum (ps.map g) := by
  intro ps
  induction ps with
  | nil => intro a; simp
  | cons p ps ih =>
    intro a
    simp only [List.foldl_cons, List.map_cons, xsum_cons]
    rw [ih, h, Nat.xor_assoc]

theorem foldl_step_rep : ∀ (ps : List Bytes) (a : Acc),
    (ps.foldl Acc.step a).rep = ps.foldl (fun r p => xorInto r (p.drop 12)) a.rep := by
  intro ps
  induction ps with
  | nil => intro a; rfl
  | cons p ps ih => intro a; simp only [List.foldl_cons]; rw [ih]; rfl

theorem foldl_step_h0 : ∀ (ps : List Bytes) (a : Acc),
    (ps.foldl Acc.step a).h0 % 64 = (a.h0 ^^^ xsum (ps.map (·.getD 0 0))) % 64 := by
  intro ps
  induction ps with
  | nil => intro a; simp
  | cons p ps ih =>
    intro a
    simp only [List.foldl_cons, List.map_cons, xsum_cons]
    rw [ih]
    have e : (a.step p).h0 = (a.h0 ^^^ p.getD 0 0) % 64 := by
      show (a.h0 ^^^ p.getD 0 0) &&& 63 = _
      exact Nat.and_two_pow_sub_one_eq_mod _ 6
    have e64 : (64 : Nat) = 2 ^ 6 := rfl
    rw [e, e64, Nat.xor_mod_two_pow, Nat.mod_mod, ← Nat.xor_mod_two_pow, Nat.xor_assoc]

end Interceptor.FlexFec

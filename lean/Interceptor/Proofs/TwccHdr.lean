/-
Helper lemmas for Props/C15.lean (invariants of the writer-thread machine, `setElem`).
-/
import Interceptor.Model.TwccHdr
namespace Interceptor.TwccHdr
open Interceptor.Rtp

theorem inv_step (c0 : Nat) (m : Machine) (t : Nat)
    (h : m.c % 65536 = (c0 + m.logR.length) % 65536 ∧
         m.logR.map (·.2) = ((List.range m.logR.length).map fun i => (c0 + i) % 65536).reverse) :
    (m.step t).c % 65536 = (c0 + (m.step t).logR.length) % 65536 ∧
    (m.step t).logR.map (·.2) =
      ((List.range (m.step t).logR.length).map fun i => (c0 + i) % 65536).reverse := by
  unfold Machine.step
  split
  · simp only [alloc, List.length_cons, List.map_cons, M32]
    refine ⟨by omega, ?_⟩
    rw [List.range_succ, List.map_append, List.reverse_append, h.2]
    simp only [List.map_cons, List.map_nil, List.reverse_cons, List.reverse_nil, List.nil_append,
      List.cons_append, List.cons.injEq, and_true]
    exact h.1
  · exact h

theorem inv_run (c0 : Nat) (sched : List Nat) (m : Machine)
    (h : m.c % 65536 = (c0 + m.logR.length) % 65536 ∧
         m.logR.map (·.2) = ((List.range m.logR.length).map fun i => (c0 + i) % 65536).reverse) :
    (m.run sched).logR.map (·.2) =
      ((List.range (m.run sched).logR.length).map fun i => (c0 + i) % 65536).reverse := by
  induction sched generalizing m with
  | nil => exact h.2
  | cons t ts ih => exact ih (m.step t) (inv_step c0 m t h)

theorem mem_of_lookup {t n : Nat} : ∀ {l : List (Nat × Nat)}, l.lookup t = some n → (t, n) ∈ l
  | [], h => by simp [List.lookup] at h
  | (a, b) :: rest, h => by
    simp only [List.lookup] at h
    split at h
    · rename_i heq
      have : t = a := by simpa using heq
      cases h; subst this; exact List.mem_cons_self
    · exact List.mem_cons_of_mem _ (mem_of_lookup h)

theorem perm_step (m : Machine) (t : Nat) (h : (m.pend ++ m.outR).Perm m.logR) :
    ((m.step t).pend ++ (m.step t).outR).Perm (m.step t).logR := by
  unfold Machine.step
  split
  · simp only [alloc, List.cons_append]
    exact List.Perm.cons _ h
  · rename_i n hl
    have hm := mem_of_lookup hl
    simp only []
    refine List.Perm.trans ?_ h
    refine List.Perm.trans List.perm_middle ?_
    rw [← List.cons_append]
    exact List.Perm.append_right _ (List.perm_cons_erase hm).symm

/-- `setElem` puts the payload under the id… -/
theorem setElem_find (l : List (Nat × Bytes)) (id : Nat) (p : Bytes) :
    (setElem l id p).find? (·.1 = id) = some (id, p) := by
  induction l with
  | nil => simp [setElem]
  | cons e rest ih =>
    obtain ⟨i, q⟩ := e
    simp only [setElem]
    split
    · rename_i h; subst h; simp
    · rename_i h
      rw [List.find?_cons_of_neg (by simpa using h)]
      exact ih

/-- …and leaves every element with another id where it was. -/
theorem setElem_others (l : List (Nat × Bytes)) (id : Nat) (p : Bytes) :
    (setElem l id p).filter (·.1 ≠ id) = l.filter (·.1 ≠ id) := by
  induction l with
  | nil => simp [setElem]
  | cons e rest ih =>
    obtain ⟨i, q⟩ := e
    simp only [setElem]
    split
    · rename_i h; subst h; simp
    · rename_i h
      simp only [List.filter_cons, ih]


end Interceptor.TwccHdr

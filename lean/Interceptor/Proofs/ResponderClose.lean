import Interceptor.Proofs.ResponderClear
namespace Interceptor.RtpBuffer
open Interceptor

/-- stream `w` (if it has a ring) has an all-empty ring. -/
def AllEmpty (r : Resp) (w : Nat) : Prop :=
  ∀ st b, r.streams[w]? = some st → st.buf = some b → ∀ i, slot b.slots i = none

theorem clearStream_streams (r : Resp) (w v : Nat) :
    (clearStream r w).streams[v]? =
      if v = w then
        (r.streams[w]?).map (fun st => match st.buf with
          | some b => { st with buf := some (clear b).1 }
          | none => st)
      else r.streams[v]? := by
  unfold clearStream
  cases h0 : r.streams[w]? with
  | none =>
    simp only [Option.map_none]
    by_cases e : v = w
    · subst e; simp [h0]
    · simp [e]
  | some st0 =>
    have hlt : w < r.streams.size := (Array.getElem?_eq_some_iff.1 h0).1
    simp only [Option.map_some]
    cases hb0 : st0.buf with
    | none =>
      simp only
      by_cases e : v = w
      · subst e; simp [h0]
      · simp [e]
    | some b0 =>
      simp only [Array.getElem?_setIfInBounds]
      by_cases e : v = w
      · subst e; simp [hlt]
      · have e' : ¬ w = v := fun c => e c.symm
        simp [e, e']

theorem clearStream_allEmpty_self (r : Resp) (w : Nat) : AllEmpty (clearStream r w) w := by
  intro st b hs hb i
  rw [clearStream_streams] at hs
  simp only [if_true] at hs
  cases h0 : r.streams[w]? with
  | none => rw [h0] at hs; cases hs
  | some st0 =>
    rw [h0] at hs
    simp only [Option.map_some, Option.some.injEq] at hs
    cases hb0 : st0.buf with
    | none => rw [hb0] at hs; subst hs; rw [hb0] at hb; cases hb
    | some b0 =>
      rw [hb0] at hs
      subst hs
      simp only [Option.some.injEq] at hb
      subst hb
      simp [clear, slot_replicate]

theorem clearStream_allEmpty_keep (r : Resp) (w v : Nat) (h : AllEmpty r v) : AllEmpty (clearStream r w) v := by
  by_cases e : v = w
  · subst e; exact clearStream_allEmpty_self r v
  · intro st b hs hb i
    rw [clearStream_streams] at hs
    simp only [e, if_false] at hs
    exact h st b hs hb i

theorem clearList_allEmpty (l : List (Nat × Nat)) (r : Resp) (v : Nat)
    (h : (∃ e ∈ l, e.2 = v) ∨ AllEmpty r v) :
    AllEmpty (l.foldl (fun r e => clearStream r e.2) r) v := by
  induction l generalizing r with
  | nil =>
    rcases h with ⟨e, he, _⟩ | h
    · cases he
    · exact h
  | cons e l ih =>
    simp only [List.foldl_cons]
    apply ih
    rcases h with ⟨e', he', hv⟩ | h
    · simp only [List.mem_cons] at he'
      rcases he' with rfl | he'
      · right; rw [← hv]; exact clearStream_allEmpty_self r _
      · left; exact ⟨e', he', hv⟩
    · right; exact clearStream_allEmpty_keep r e.2 v h

end Interceptor.RtpBuffer

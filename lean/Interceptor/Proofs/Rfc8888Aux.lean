/-
More helper lemmas for C08: size accounting, the glue between `add` and `addU`, and the
example history used by the non-vacuity examples of Props/C08.
-/
import Interceptor.Proofs.Rfc8888
namespace Interceptor.Rfc8888

theorem nonNeg_append (h2 h1 : List Ev) (hn : NonNeg (h2 ++ h1)) : NonNeg h1 := by
  induction h2 with
  | nil => exact hn
  | cons e h2 ih => cases e <;> exact ih hn.2


theorem metricsAfter_len_le (l : StreamLog) (ref b : Int) (hb : 0 ≤ b) :
    ((metricsAfter l ref b).2.metrics.length : Int) ≤ b := by
  by_cases he : l.log = []
  · rw [metricsAfter_empty l ref b he]; exact hb
  · rw [metricsAfter_eq l ref b he]
    simp only [emit_length, truncate_next, truncate_last]
    unfold rangeBegin; omega

theorem perStream_nonneg (maxSize : Int) (k : Nat) : 0 ≤ perStream maxSize k ∧ perStream maxSize k % 2 = 0 := by
  dsimp only [perStream]
  have h0 : 0 ≤ max (Int.tdiv (maxSize - 12 - 8 * (k : Int)) 2) 0 := by omega
  generalize max (Int.tdiv (maxSize - 12 - 8 * (k : Int)) 2) 0 = q at h0
  have h1 : 0 ≤ Int.tdiv q k := by
    rw [Int.tdiv_eq_ediv_of_nonneg h0]; exact Int.ediv_nonneg h0 (Int.natCast_nonneg k)
  generalize Int.tdiv q k = p at h1
  rw [Int.tmod_eq_emod_of_nonneg h1]
  omega

theorem buildAll_sum (now p : Int) (P : Nat) (hp : p = P) (hev : P % 2 = 0) (ss : List (Nat × StreamLog)) :
    ((buildAll now p ss).2.map blockLen).sum ≤ ss.length * (8 + 2 * P) := by
  induction ss with
  | nil => simp [buildAll]
  | cons a ss ih =>
    obtain ⟨k, l⟩ := a
    have hl := metricsAfter_len_le l now p (by omega)
    simp only [buildAll, List.map_cons, List.sum_cons, List.length_cons]
    have : blockLen (metricsAfter l now p).2 ≤ 8 + 2 * P := by unfold blockLen; omega
    rw [Nat.succ_mul]
    omega


/-- a history with loss (11 missing), a duplicate of 10 (later, other ECN) and reordering. -/
def exampleHist : List Ev :=
  [.add 9 12 0, .report 8 10, .add 7 10 3, .add 5 13 0, .add 3 10 1]

theorem exampleHist_nonNeg : NonNeg exampleHist := by
  simp only [exampleHist, NonNeg]; decide


theorem addU_seq (l : StreamLog) (ts u : Int) (ecn : Nat) : (addU l ts u ecn).seq = l.seq := by
  unfold addU
  cases hi : l.init <;> simp only [Bool.false_eq_true, if_true, if_false] <;> split <;>
    first | rfl | (cases lookup l.log u <;> simp only [] <;> split <;> rfl)

theorem step_nonneg (last : Int) (i : Nat) (h : 0 ≤ last) (hi : i < 65536) : 0 ≤ Unwrapper.step last i := by
  unfold Unwrapper.step Unwrapper.isNewer
  simp only []
  split <;> (try split) <;> omega

theorem add_unwrapped (l : StreamLog) (ts : Int) (sn ecn : Nat) (hsn : sn < 65536)
    (hs : ∀ x, l.seq = some x → 0 ≤ x) :
    ∃ u : Int, 0 ≤ u ∧ add l ts sn ecn = addU { l with seq := some u } ts u ecn ∧
      (add l ts sn ecn).seq = some u := by
  unfold add
  cases hq : l.seq with
  | none =>
    refine ⟨(sn : Int), by omega, ?_, ?_⟩
    · simp only [Unwrapper.unwrap]
    · simp only [Unwrapper.unwrap, addU_seq]
  | some last =>
    refine ⟨Unwrapper.step last sn, step_nonneg last sn (hs last hq) hsn, ?_, ?_⟩
    · simp only [Unwrapper.unwrap]
    · simp only [Unwrapper.unwrap, addU_seq]

end Interceptor.Rfc8888

/-
Helper lemmas for C04: the index function of the ring, slot updates, the clearing loop.
-/
import Interceptor.Model.RtpBuffer
import Interceptor.Spec.RtpBuffer
namespace Interceptor.RtpBuffer
open Interceptor

theorem validSize_cases {n : Nat} (h : validSize n = true) :
    n = 1 ∨ n = 2 ∨ n = 4 ∨ n = 8 ∨ n = 16 ∨ n = 32 ∨ n = 64 ∨ n = 128 ∨ n = 256 ∨ n = 512 ∨
    n = 1024 ∨ n = 2048 ∨ n = 4096 ∨ n = 8192 ∨ n = 16384 ∨ n = 32768 := by
  simpa [validSize] using h

theorem validSize_pos {n : Nat} (h : validSize n = true) : 0 < n ∧ n ≤ 32768 := by
  rcases validSize_cases h with h|h|h|h|h|h|h|h|h|h|h|h|h|h|h|h <;> omega

theorem ix_lt {n : Nat} (h : validSize n = true) (x : Nat) : ix n x < n :=
  Nat.mod_lt _ (validSize_pos h).1

/-- P1: inside one window the slot index determines the sequence number. -/
theorem ix_inj {n : Nat} (h : validSize n = true) {hi x y : Nat} (hhi : hi < 65536) (hx : x < 65536)
    (hy : y < 65536) (wx : sub16 hi x < n) (wy : sub16 hi y < n) (e : ix n x = ix n y) : x = y := by
  unfold ix at e; unfold sub16 at wx wy
  rcases validSize_cases h with h|h|h|h|h|h|h|h|h|h|h|h|h|h|h|h <;> subst h <;> omega

/-- P3: every window contains a number for every slot index. -/
theorem ix_surj {n : Nat} (h : validSize n = true) {hi i : Nat} (hhi : hi < 65536) (hi' : i < n) :
    ∃ y, y < 65536 ∧ sub16 hi y < n ∧ ix n y = i := by
  refine ⟨(hi + 65536 - (hi + n - i) % n) % 65536, ?_, ?_, ?_⟩
  · omega
  · unfold sub16
    rcases validSize_cases h with h|h|h|h|h|h|h|h|h|h|h|h|h|h|h|h <;> subst h <;> omega
  · unfold ix
    rcases validSize_cases h with h|h|h|h|h|h|h|h|h|h|h|h|h|h|h|h <;> subst h <;> omega

/-! slots -/

theorem slot_set {α : Type} (s : Array (Option α)) (k i : Nat) (v : Option α) :
    slot (s.setIfInBounds k v) i = if k = i ∧ k < s.size then v else slot s i := by
  unfold slot
  rw [Array.getElem?_setIfInBounds]
  by_cases h : k = i
  · subst h
    by_cases h2 : k < s.size
    · simp [h2]
    · simp [h2]
  · simp [h]

theorem slot_replicate {α : Type} (n i : Nat) : slot (Array.replicate n (none : Option α)) i = none := by
  unfold slot
  by_cases h : i < n <;> simp [Array.getElem?_replicate, h]

theorem clearSlots_size {α : Type} (size : Nat) (s : Array (Option α)) (i n : Nat) :
    (clearSlots size s i n).size = s.size := by
  induction n generalizing s i with
  | zero => rfl
  | succ n ih => simp [clearSlots, ih]

/-- a slot no iteration of the loop points at is untouched. -/
theorem clearSlots_keep {α : Type} (size : Nat) (s : Array (Option α)) (start n i : Nat)
    (h : ∀ j, j < n → ix size ((start + j) % 65536) ≠ i) (hs : start < 65536) :
    slot (clearSlots size s start n) i = slot s i := by
  induction n generalizing s start with
  | zero => rfl
  | succ n ih =>
    simp only [clearSlots]
    rw [ih]
    · rw [slot_set]
      have := h 0 (by omega)
      simp only [Nat.add_zero, Nat.mod_eq_of_lt hs] at this
      simp [this]
    · intro j hj
      have := h (j + 1) (by omega)
      have e : (add16 start 1 + j) % 65536 = (start + (j + 1)) % 65536 := by unfold add16; omega
      rw [e]; exact this
    · unfold add16; omega

/-- a slot some iteration of the loop points at ends up empty. -/
theorem clearSlots_hit {α : Type} (size : Nat) (s : Array (Option α)) (start n i : Nat)
    (h : ∃ j, j < n ∧ ix size ((start + j) % 65536) = i) (hs : start < 65536) :
    slot (clearSlots size s start n) i = none := by
  induction n generalizing s start with
  | zero => obtain ⟨j, hj, _⟩ := h; omega
  | succ n ih =>
    simp only [clearSlots]
    obtain ⟨j, hj, e⟩ := h
    by_cases hlater : ∃ j', j' < n ∧ ix size ((add16 start 1 + j') % 65536) = i
    · exact ih _ _ hlater (by unfold add16; omega)
    · -- only iteration 0 hits i
      have hj0 : j = 0 := by
        cases j with
        | zero => rfl
        | succ j' =>
          exfalso; apply hlater
          refine ⟨j', by omega, ?_⟩
          have e2 : (add16 start 1 + j') % 65536 = (start + (j' + 1)) % 65536 := by unfold add16; omega
          rw [e2]; exact e
      subst hj0
      simp only [Nat.add_zero, Nat.mod_eq_of_lt hs] at e
      rw [clearSlots_keep]
      · rw [slot_set]
        by_cases hb : ix size start < s.size
        · rw [if_pos ⟨e, hb⟩]
        · rw [if_neg (fun h => hb h.2)]
          unfold slot
          rw [← e, Array.getElem?_eq_none (Nat.le_of_not_lt hb)]
          rfl
      · intro j' hj' e'
        exact hlater ⟨j', hj', e'⟩
      · unfold add16; omega

/-! lists -/

theorem find?_congr' {α : Type} {l : List α} {p q : α → Bool} (h : ∀ x ∈ l, p x = q x) :
    l.find? p = l.find? q := by
  induction l with
  | nil => rfl
  | cons a l ih =>
    have ha := h a (by simp)
    have := ih (fun x hx => h x (by simp [hx]))
    simp [List.find?_cons, ha, this]

/-! window arithmetic (each fact isolated so that `omega` sees few `%` terms) -/

theorem arith_A0 {hi sp q n : Nat} (hhi : hi < 65536) (hsp : sp < 65536) (hq : q < 65536)
    (hn : n ≤ 32768) (hd : sub16 sp hi < 32768) (w1 : sub16 hi q < n) :
    sub16 sp q = sub16 sp hi + sub16 hi q := by
  unfold sub16 at *; omega

theorem arith_A1 {hi sp j : Nat} (hhi : hi < 65536) (hsp : sp < 65536)
    (hj : j < sub16 sp hi - 1) :
    sub16 sp ((add16 hi 1 + j) % 65536) = sub16 sp hi - 1 - j := by
  unfold sub16 add16 at *; omega

theorem arith_A2 {hi sp q n j : Nat} (hhi : hi < 65536) (hsp : sp < 65536) (hq : q < 65536)
    (hn : n ≤ 32768) (hd : sub16 sp hi < 32768) (hj : j < sub16 sp hi - 1)
    (w1 : sub16 hi q < n) (e : (add16 hi 1 + j) % 65536 = q) : False := by
  unfold sub16 add16 at *; omega

theorem arith_B1 {hi sp y n : Nat} (hhi : hi < 65536) (hsp : sp < 65536) (hy : y < 65536)
    (hd : sub16 sp hi < 32768) (w : sub16 sp y < n) (hn : n ≤ 32768) (hc : sub16 sp hi ≤ sub16 sp y) :
    sub16 hi y < n := by
  unfold sub16 at *; omega

theorem arith_B2 {hi sp y : Nat} (hhi : hi < 65536) (hsp : sp < 65536) (hy : y < 65536)
    (hd : sub16 sp hi < 32768) (hne : y ≠ sp) (hlt : sub16 sp y < sub16 sp hi) :
    sub16 y (add16 hi 1) < sub16 sp hi - 1 := by
  unfold sub16 add16 at *; omega

theorem arith_B3 {hi y : Nat} (hhi : hi < 65536) (hy : y < 65536) :
    (add16 hi 1 + sub16 y (add16 hi 1)) % 65536 = y := by
  unfold sub16 add16; omega

theorem sub16_self' (a : Nat) (h : a < 65536) : sub16 a a = 0 := by unfold sub16; omega

/-
Helper lemmas for Props/C01.lean: the fold over injected packets, tags of bottom calls.
-/
import Interceptor.Model.Chain
namespace Interceptor.Chain

variable {ω π ε : Type}

/-- two lists are related element by element (core has no `List.Forall₂`). -/
inductive Pointwise {α β : Type} (R : α → β → Prop) : List α → List β → Prop where
  | nil : Pointwise R [] []
  | cons {a b as bs} : R a b → Pointwise R as bs → Pointwise R (a :: as) (b :: bs)

/-- the fold `writeVia` uses for the packets a wrapper injects after the forwarded one. -/
def injFold (bottom : Nat → π → Ret ε) (inner : List (Wrapper ω π ε)) (k : Nat)
    (after : List π) (init : ω × List (Tag × π) × List ε) : ω × List (Tag × π) × List ε :=
  after.foldl
    (fun (acc : ω × List (Tag × π) × List ε) q =>
      let r := writeVia bottom inner .inj q acc.1 (k + acc.2.1.length)
      (r.1, acc.2.1 ++ r.2.1, acc.2.2 ++ r.2.2.2))
    init

theorem writeVia_nil (bottom : Nat → π → Ret ε) (tag : Tag) (p : π) (w : ω) (k : Nat) :
    writeVia bottom ([] : List (Wrapper ω π ε)) tag p w k = (w, [(tag, p)], bottom k p) := by
  simp [writeVia]

theorem writeVia_reject (bottom : Nat → π → Ret ε) (m : Wrapper ω π ε) (inner : List (Wrapper ω π ε))
    (tag : Tag) (p : π) (w w1 : ω) (k : Nat) (e : ε) (h : m w p = (w1, .reject e)) :
    writeVia bottom (m :: inner) tag p w k = (w1, [], (0, [e])) := by
  simp [writeVia, h]

theorem writeVia_pass (bottom : Nat → π → Ret ε) (m : Wrapper ω π ε) (inner : List (Wrapper ω π ε))
    (tag : Tag) (p p' : π) (after : List π) (w w1 : ω) (k : Nat) (h : m w p = (w1, .pass p' after)) :
    writeVia bottom (m :: inner) tag p w k =
      (let r1 := writeVia bottom inner tag p' w1 k
       let r2 := injFold bottom inner k after (r1.1, r1.2.1, r1.2.2.2)
       (r2.1, r2.2.1, (r1.2.2.1, r2.2.2))) := by
  simp [writeVia, h, injFold]


theorem injFold_spec (bottom : Nat → π → Ret ε) (inner : List (Wrapper ω π ε)) (k : Nat)
    (H : ∀ q w k, ∀ c ∈ (writeVia bottom inner .inj q w k).2.1, c.1 = Tag.inj)
    (after : List π) (init : ω × List (Tag × π) × List ε) :
    ∃ extra more, (injFold bottom inner k after init).2.1 = init.2.1 ++ extra ∧
      (injFold bottom inner k after init).2.2 = init.2.2 ++ more ∧ ∀ c ∈ extra, c.1 = Tag.inj := by
  induction after generalizing init with
  | nil => exact ⟨[], [], by simp [injFold], by simp [injFold], by simp⟩
  | cons q qs ih =>
    have hstep : injFold bottom inner k (q :: qs) init =
        injFold bottom inner k qs
          ((writeVia bottom inner .inj q init.1 (k + init.2.1.length)).1,
           init.2.1 ++ (writeVia bottom inner .inj q init.1 (k + init.2.1.length)).2.1,
           init.2.2 ++ (writeVia bottom inner .inj q init.1 (k + init.2.1.length)).2.2.2) := by
      simp [injFold, List.foldl_cons]
    obtain ⟨extra, more, h1, h2, h3⟩ := ih
      ((writeVia bottom inner .inj q init.1 (k + init.2.1.length)).1,
       init.2.1 ++ (writeVia bottom inner .inj q init.1 (k + init.2.1.length)).2.1,
       init.2.2 ++ (writeVia bottom inner .inj q init.1 (k + init.2.1.length)).2.2.2)
    refine ⟨(writeVia bottom inner .inj q init.1 (k + init.2.1.length)).2.1 ++ extra,
            (writeVia bottom inner .inj q init.1 (k + init.2.1.length)).2.2.2 ++ more, ?_, ?_, ?_⟩
    · rw [hstep, h1]; simp [List.append_assoc]
    · rw [hstep, h2]; simp [List.append_assoc]
    · intro c hc
      rcases List.mem_append.mp hc with hc | hc
      · exact H q _ _ c hc
      · exact h3 c hc

/-- every bottom call made while writing a packet tagged `tag` is tagged `tag` or `inj`. -/
theorem writeVia_tags (bottom : Nat → π → Ret ε) (ms : List (Wrapper ω π ε)) :
    ∀ (tag : Tag) (p : π) (w : ω) (k : Nat), ∀ c ∈ (writeVia bottom ms tag p w k).2.1, c.1 = tag ∨ c.1 = Tag.inj := by
  induction ms with
  | nil => intro tag p w k c hc; simp [writeVia_nil] at hc; exact Or.inl (by rw [hc])
  | cons m inner ih =>
    intro tag p w k c hc
    have Hinj : ∀ q w k, ∀ c ∈ (writeVia bottom inner .inj q w k).2.1, c.1 = Tag.inj := by
      intro q w k c hc; rcases ih .inj q w k c hc with h | h <;> exact h
    rcases hm : m w p with ⟨w1, act⟩
    cases act with
    | reject e => rw [writeVia_reject bottom m inner tag p w w1 k e hm] at hc; simp at hc
    | pass p' after =>
      rw [writeVia_pass bottom m inner tag p p' after w w1 k hm] at hc
      simp only [] at hc
      obtain ⟨extra, more, h1, _, h3⟩ := injFold_spec bottom inner k Hinj after
        ((writeVia bottom inner tag p' w1 k).1, (writeVia bottom inner tag p' w1 k).2.1,
         (writeVia bottom inner tag p' w1 k).2.2.2)
      rw [h1] at hc
      rcases List.mem_append.mp hc with hc | hc
      · exact ih tag p' w1 k c hc
      · exact Or.inr (h3 c hc)


open Interceptor.Rtp in
/-- the inputs `SetExtension` accepts (cf. `TwccHdr.accepts`). -/
def TwccHdrAccepts (h : Rtp.Header) (id : Nat) : Prop :=
  h.extension = false ∨ (h.profile = Rtp.profOneByte ∧ 1 ≤ id ∧ id ≤ 14) ∨ (h.profile = Rtp.profTwoByte ∧ 1 ≤ id)

open Interceptor.Rtp in
theorem setExtension_accepts (h : Header) (id : Nat) (payload : Bytes) (hlen : payload.length ≤ 16)
    (hacc : TwccHdrAccepts h id) :
    ∃ h', setExtension h id payload = .ok h' ∧ sameButExtensions h h' ∧
      (h'.profile = profOneByte ∨ h'.profile = profTwoByte) := by
  cases hx : h.extension
  · refine ⟨{ h with extension := true, profile := profOneByte, extensions := h.extensions ++ [(id, payload)] },
      by simp [setExtension, hx, hlen], by simp [sameButExtensions], Or.inl rfl⟩
  · rcases hacc with h0 | ⟨hp, h1, h2⟩ | ⟨hp, h1⟩
    · rw [hx] at h0; cases h0
    · have hchk : extensionCheck h.profile id payload = none := by
        unfold extensionCheck
        rw [if_pos hp, if_neg (by omega), if_neg (by omega)]
      exact ⟨{ h with extensions := setElem h.extensions id payload }, by simp [setExtension, hx, hchk],
        by simp [sameButExtensions], Or.inl hp⟩
    · have hchk : extensionCheck h.profile id payload = none := by
        unfold extensionCheck
        rw [if_neg (by rw [hp]; decide), if_pos hp, if_neg (by omega), if_neg (by omega)]
      exact ⟨{ h with extensions := setElem h.extensions id payload }, by simp [setExtension, hx, hchk],
        by simp [sameButExtensions], Or.inr hp⟩

end Interceptor.Chain

/- range / membership lemmas for the feedback decoders (C09.T2, T3) -/
import Interceptor.Proofs.FeedbackSpec
namespace Interceptor
open Feedback Feedback.Spec

theorem Feedback.Spec.number_get (sts : List St) : ∀ (i j : Nat) (e : Nat × St),
    (number i sts)[j]? = some e → e.1 = (i + j) % 65536 ∧ sts[j]? = some e.2 := by
  induction sts with
  | nil => intro i j e h; simp [number] at h
  | cons s ss ih =>
    intro i j e h
    cases j with
    | zero => simp [number] at h; subst h; simp
    | succ j =>
      simp only [number, List.getElem?_cons_succ] at h
      have := ih (i + 1) j e h
      simp only [List.getElem?_cons_succ]
      constructor
      · rw [this.1]; congr 1; omega
      · exact this.2

theorem Feedback.Spec.number_length (sts : List St) : ∀ i, (number i sts).length = sts.length := by
  induction sts with
  | nil => intro i; rfl
  | cons s ss ih => intro i; simp [number, ih]

namespace FeedbackAdapter

theorem get_mem (h : Hist) (ssrc seq : Nat) (p : Ack) (hg : get h ssrc seq = some p) :
    p ∈ h ∧ p.ssrc = ssrc ∧ p.seq = seq := by
  unfold get at hg
  have hm := List.mem_of_find?_eq_some hg
  have hk := List.find?_some hg
  simp [sameKey] at hk
  exact ⟨hm, hk.1, hk.2⟩

/-- an entry is the zero value (number not in the history) or the recorded packet with (at
most) its arrival time changed. -/
theorem entry_cases (h : Hist) (i : Nat) (t : Option Int) :
    (get h 0 i = none ∧ entry h i t = Ack.zero) ∨
    ∃ p, get h 0 i = some p ∧ p ∈ h ∧ p.ssrc = 0 ∧ p.seq = i ∧ (entry h i t).seq = p.seq ∧
      (entry h i t).ssrc = p.ssrc ∧ (entry h i t).size = p.size ∧
      (entry h i t).departure = p.departure ∧ (entry h i t).ecn = p.ecn ∧
      (entry h i t).arrival = t.getD p.arrival := by
  unfold entry
  cases hg : get h 0 i with
  | none => left; simp
  | some p =>
    right
    obtain ⟨hm, hs, hq⟩ := get_mem h 0 i p hg
    refine ⟨p, rfl, hm, hs, hq, ?_⟩
    cases t <;> simp

theorem symLoop_entries (h : Hist) (deltas : List Int) (ss : List Nat) :
    ∀ (i di : Nat) (ref : Int),
      (symLoop h deltas ss i di ref).sat (fun r => ∀ a ∈ r.2.2, ∃ q t, a = entry h q t) ∨
      ∃ s, symLoop h deltas ss i di ref = .panic s := by
  induction ss with
  | nil => intro i di ref; left; simp [symLoop, Res.sat]
  | cons s ss ih =>
    intro i di ref
    unfold symLoop
    by_cases h0 : s = symNotReceived
    · rw [if_pos h0]
      rcases ih ((i + 1) % 65536) di ref with hsat | ⟨s', hp⟩
      · left
        refine Res.sat_bind hsat ?_
        intro ⟨n, r, acks⟩ hp
        simp only [Res.pure_eq, Res.sat]
        intro a ha
        rcases List.mem_cons.mp ha with rfl | ha
        · exact ⟨_, _, rfl⟩
        · exact hp a ha
      · right; rw [hp]; exact ⟨_, rfl⟩
    · rw [if_neg h0]
      by_cases hg : (deltas.length : Int) - 1 < (di : Int)
      · rw [if_pos hg]; left; trivial
      · rw [if_neg hg]
        have hlt : di < deltas.length := by omega
        rw [idx_lt _ _ _ hlt]
        simp only [Res.bind_ok]
        rcases ih ((i + 1) % 65536) (di + 1) (ref + deltas[di] * 1000) with hsat | ⟨s', hp⟩
        · left
          refine Res.sat_bind hsat ?_
          intro ⟨n, r, acks⟩ hp
          simp only [Res.pure_eq, Res.sat]
          intro a ha
          rcases List.mem_cons.mp ha with rfl | ha
          · exact ⟨_, _, rfl⟩
          · exact hp a ha
        · right; rw [hp]; exact ⟨_, rfl⟩

theorem chunkLoop_entries (h : Hist) (cs : List Chunk) :
    ∀ (index : Nat) (ref : Int) (deltas : List Int),
      (chunkLoop h cs index ref deltas).sat (fun acks => ∀ a ∈ acks, ∃ q t, a = entry h q t) := by
  induction cs with
  | nil => intro _ _ _; simp [chunkLoop, Res.sat]
  | cons c cs ih =>
    intro index ref deltas
    have key : ∀ syms : List Nat,
        (do
          let (n, ref', acks) ← symLoop h deltas syms index 0 ref
          let deltas' ← sliceFrom "feedback_adapter.go: recvDeltas[n:]" deltas n
          let rest ← chunkLoop h cs ((index + acks.length) % 65536) ref' deltas'
          pure (acks ++ rest) : Res (List Ack)).sat (fun acks => ∀ a ∈ acks, ∃ q t, a = entry h q t) := by
      intro syms
      have hinv := symLoop_inv h deltas syms index 0 ref (Nat.zero_le _)
      rcases symLoop_entries h deltas syms index 0 ref with hsat | ⟨s', hp⟩
      · cases hr : symLoop h deltas syms index 0 ref with
        | ok r =>
          obtain ⟨n, r', acks⟩ := r
          rw [hr] at hinv hsat
          simp only [Res.bind_ok, sliceFrom, show n ≤ deltas.length from hinv.2.1, if_true]
          refine Res.sat_bind (ih _ _ _) ?_
          intro rest hrest
          simp only [Res.pure_eq, Res.sat]
          intro a ha
          rcases List.mem_append.mp ha with ha | ha
          · exact hsat a ha
          · exact hrest a ha
        | err e => trivial
        | panic s => rw [hr] at hinv; exact hinv.elim
      · rw [hp] at hinv; exact hinv.elim
    unfold chunkLoop
    cases c with
    | other => trivial
    | rl sym run => exact key _
    | sv syms => exact key _

end FeedbackAdapter

namespace Rtpfb

def Out.acks : Out → List RAck
  | .cont as _ _ _ => as
  | .ret as => as
  | .retNil => []

def Out.offsetGe (n : Nat) : Out → Prop
  | .cont _ o _ _ => n ≤ o
  | _ => True

/-- `a` acknowledges a number at position ≥ `lo` inside the declared range of `fb`. -/
def InRange (fb : Twcc) (lo : Nat) (a : RAck) : Prop :=
  ∃ j, lo ≤ j ∧ j < fb.count ∧ a.seq = (fb.base + j) % 65536

theorem InRange.mono {fb : Twcc} {lo lo' : Nat} {a : RAck} (h : InRange fb lo' a) (hl : lo ≤ lo') :
    InRange fb lo a := by
  obtain ⟨j, h1, h2, h3⟩ := h
  exact ⟨j, by omega, h2, h3⟩

theorem mem_prepend {as : List RAck} {r : Out} {a : RAck} (h : a ∈ (r.prepend as).acks) :
    a ∈ as ∨ a ∈ r.acks := by
  cases r <;> simp [Out.prepend, Out.acks] at h ⊢ <;> exact h

theorem offsetGe_prepend {as : List RAck} {r : Out} {n : Nat} (h : r.offsetGe n) :
    (r.prepend as).offsetGe n := by
  cases r <;> simp_all [Out.prepend, Out.offsetGe]

theorem Out.offsetGe.mono {r : Out} {n m : Nat} (h : r.offsetGe m) (hl : n ≤ m) : r.offsetGe n := by
  cases r <;> simp_all [Out.offsetGe]; omega

theorem symLoop_range (fb : Twcc) (ss : List Nat) :
    ∀ (offset di : Nat) (ts : Int) (o : Out), symLoop fb ss offset di ts = .ok o →
      (∀ a ∈ o.acks, InRange fb offset a) ∧ o.offsetGe offset := by
  induction ss with
  | nil =>
    intro offset di ts o h
    simp [symLoop] at h; subst h; simp [Out.acks, Out.offsetGe]
  | cons s ss ih =>
    intro offset di ts o h
    unfold symLoop at h
    by_cases hc : offset ≥ fb.count
    · rw [if_pos hc] at h; cases h; simp [Out.acks, Out.offsetGe]
    · rw [if_neg hc] at h
      have step : ∀ (x : RAck) (di' : Nat) (ts' : Int),
          x.seq = (fb.base + offset % 65536) % 65536 →
          (do let r ← symLoop fb ss (offset + 1) di' ts'; pure (r.prepend [x]) : Res Out) = .ok o →
          (∀ a ∈ o.acks, InRange fb offset a) ∧ o.offsetGe offset := by
        intro x di' ts' hx hr
        obtain ⟨r, hrr⟩ := symLoop_ok fb ss (offset + 1) di' ts'
        rw [hrr] at hr
        simp only [Res.bind_ok, Res.pure_eq, Res.ok.injEq] at hr
        subst hr
        obtain ⟨h1, h2⟩ := ih _ _ _ _ hrr
        refine ⟨?_, offsetGe_prepend (h2.mono (by omega))⟩
        intro a ha
        rcases mem_prepend ha with ha | ha
        · simp at ha; subst ha
          exact ⟨offset, Nat.le_refl _, by omega, by rw [hx]; omega⟩
        · exact (h1 a ha).mono (by omega)
      by_cases h0 : s = symNotReceived
      · rw [if_pos h0] at h; exact step _ _ _ rfl h
      · rw [if_neg h0] at h
        by_cases h1 : s = symSmall ∨ s = symLarge
        · rw [if_pos h1] at h
          by_cases hd : di ≥ fb.deltas.length
          · rw [if_pos hd] at h; cases h; simp [Out.acks, Out.offsetGe]
          · rw [if_neg hd, idx_lt _ _ _ (by omega)] at h
            exact step _ _ _ rfl h
        · rw [if_neg h1] at h
          by_cases h3 : s = symNoDelta
          · rw [if_pos h3] at h; exact step _ _ _ rfl h
          · rw [if_neg h3] at h
            obtain ⟨h1', h2'⟩ := ih _ _ _ _ h
            exact ⟨fun a ha => (h1' a ha).mono (by omega), h2'.mono (by omega)⟩

theorem chunkLoop_range (fb : Twcc) (cs : List Chunk) :
    ∀ (offset di : Nat) (ts : Int) (o : Out), chunkLoop fb cs offset di ts = .ok o →
      ∀ a ∈ o.acks, InRange fb offset a := by
  induction cs with
  | nil => intro offset di ts o h; simp [chunkLoop] at h; subst h; simp [Out.acks]
  | cons c cs ih =>
    intro offset di ts o h
    unfold chunkLoop at h
    have hstep : ∀ o1, chunkStep fb c offset di ts = .ok o1 →
        (∀ a ∈ o1.acks, InRange fb offset a) ∧ o1.offsetGe offset := by
      intro o1 h1
      cases c with
      | rl sym run => exact symLoop_range fb _ _ _ _ _ h1
      | sv syms => exact symLoop_range fb _ _ _ _ _ h1
      | other => simp [chunkStep] at h1; subst h1; simp [Out.acks, Out.offsetGe]
    cases h1 : chunkStep fb c offset di ts with
    | ok o1 =>
      rw [h1] at h
      obtain ⟨ha1, hge⟩ := hstep o1 h1
      cases o1 with
      | cont as o' d' t' =>
        simp only [Res.bind_ok] at h
        obtain ⟨r, hr⟩ := chunkLoop_ok fb cs o' d' t'
        rw [hr] at h
        simp only [Res.bind_ok, Res.pure_eq, Res.ok.injEq] at h
        subst h
        intro a ha
        rcases mem_prepend ha with ha | ha
        · exact ha1 a (by simpa [Out.acks] using ha)
        · exact (ih _ _ _ _ hr a ha).mono (by simpa [Out.offsetGe] using hge)
      | ret as =>
        simp only [Res.bind_ok, Res.pure_eq, Res.ok.injEq] at h
        subst h; exact ha1
      | retNil =>
        simp only [Res.bind_ok, Res.pure_eq, Res.ok.injEq] at h
        subst h; exact ha1
    | err e => rw [h1] at h; simp at h
    | panic s => rw [h1] at h; simp at h

end Rtpfb
end Interceptor

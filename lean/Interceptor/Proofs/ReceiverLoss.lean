/-
Helper lemmas for Props/C06, loss accounting: the 8192-position bitmap against the spec's
reception history (extended sequence numbers), under the hypothesis `H8192`.
-/
import Interceptor.Proofs.ReceiverReport
import Interceptor.Proofs.F64Fraction
set_option linter.unusedVariables false
namespace Interceptor.ReceiverReport
open Interceptor Interceptor.F64 Interceptor.GoTime Interceptor.ReceiverReport.Spec

theorem setBit_size (b : Array Bool) (x : Nat) (v : Bool) : (setBit b x v).size = b.size := by
  simp [setBit]

theorem getBit_setBit (b : Array Bool) (x y : Nat) (v : Bool) (hs : b.size = W) :
    getBit (setBit b x v) y = if x % W = y % W then v else getBit b y := by
  have hx : x % W < b.size := by rw [hs]; exact Nat.mod_lt _ (by decide)
  have hy : y % W < b.size := by rw [hs]; exact Nat.mod_lt _ (by decide)
  simp only [getBit, setBit, Array.getD_eq_getD_getElem?, Array.getElem?_setIfInBounds]
  split <;> simp_all

theorem clearRange_size (b : Array Bool) (st k : Nat) : (clearRange b st k).size = b.size := by
  induction k generalizing b st with
  | zero => rfl
  | succ k ih => simp only [clearRange]; rw [ih, setBit_size]


/-- effect of the clearing loop in extended numbers: `k ≤ 8192` numbers starting at `a` are
cleared; numbers within 8192 below the end or above the start of the range are untouched. -/
theorem getBit_clearRange (b : Array Bool) (a k : Nat) (hs : b.size = W) (hk : k ≤ W) :
    ∀ m, (a ≤ m → m < a + k → getBit (clearRange b (a % 65536) k) (m % 65536) = false) ∧
         (m < a → a + k ≤ m + W → getBit (clearRange b (a % 65536) k) (m % 65536) = getBit b (m % 65536)) ∧
         (a + k ≤ m → m < a + W → getBit (clearRange b (a % 65536) k) (m % 65536) = getBit b (m % 65536)) := by
  induction k generalizing b a with
  | zero => intro m; refine ⟨fun h1 h2 => by omega, fun _ _ => rfl, fun _ _ => rfl⟩
  | succ k ih =>
    intro m
    have hst : add16 (a % 65536) 1 = (a + 1) % 65536 := by unfold add16; omega
    have hs' : (setBit b (a % 65536) false).size = W := by rw [setBit_size]; exact hs
    have IH := ih (setBit b (a % 65536) false) (a + 1) hs' (by omega) m
    simp only [clearRange, hst]
    have hset := getBit_setBit b (a % 65536) (m % 65536) false hs
    simp only [W] at *
    refine ⟨fun h1 h2 => ?_, fun h1 h2 => ?_, fun h1 h2 => ?_⟩
    · by_cases hm : m = a
      · rw [IH.2.1 (by omega) (by omega), hset, if_pos (by rw [hm])]
      · exact IH.1 (by omega) (by omega)
    · rw [IH.2.1 (by omega) (by omega), hset, if_neg (by omega)]
    · rw [IH.2.2 (by omega) (by omega), hset, if_neg (by omega)]

theorem countMissing_eq (b : Array Bool) (a k : Nat) :
    countMissing b (a % 65536) k =
      ((List.range k).filter fun j => !getBit b ((a + j) % 65536)).length := by
  induction k generalizing a with
  | zero => rfl
  | succ k ih =>
    have hst : add16 (a % 65536) 1 = (a + 1) % 65536 := by unfold add16; omega
    simp only [countMissing, hst, ih (a + 1), List.range_succ_eq_map, List.filter_cons, List.filter_map,
      List.length_map]
    have : ((fun j => !getBit b ((a + j) % 65536)) ∘ Nat.succ) = fun j => !getBit b ((a + 1 + j) % 65536) := by
      funext j; simp only [Function.comp, Nat.succ_eq_add_one]; congr 3; omega
    rw [this]
    cases getBit b (a % 65536) <;> simp <;> omega


/-- model state vs the spec's reception history (after the first packet). -/
structure RelLoss (s : Stream) (l : Loss) : Prop where
  started : s.started = true
  size : s.bits.size = W
  hge : 65536 ≤ l.h
  last : s.last = l.h % 65536
  lastReport : s.lastReport = l.h0 % 65536
  h0le : l.h0 ≤ l.h
  span : l.h ≤ l.h0 + W
  total : s.totalLost = l.total
  tle : l.total ≤ 16777215
  hin : l.h ∈ l.recv
  rle : ∀ x ∈ l.recv, x ≤ l.h
  win : ∀ m, m ≤ l.h → l.h < m + W → getBit s.bits (m % 65536) = decide (m ∈ l.recv)

/-- before the first packet. -/
def RelLoss0 (s : Stream) : Prop :=
  s.started = false ∧ s.bits = Array.replicate W false ∧ s.totalLost = 0 ∧ s.last = 0 ∧ s.lastReport = 0

theorem getBit_replicate (y : Nat) : getBit (Array.replicate W false) y = false := by
  simp only [getBit, Array.getD_eq_getD_getElem?, Array.getElem?_replicate]
  split <;> rfl

theorem relLoss_first (s : Stream) (now : Int) (seq ts : Nat) (hs : seq < 65536) (r : RelLoss0 s) :
    RelLoss (processRTP s now seq ts) (lossRtp none seq) := by
  obtain ⟨r1, r2, r3, r4, r5⟩ := r
  rw [processRTP_first s now seq ts r1]
  have hsz : (Array.replicate W false : Array Bool).size = W := by simp
  refine ⟨rfl, by simp [setBit_size, r2], by simp [lossRtp], by simp only [lossRtp]; omega,
    by simp only [lossRtp, sub16]; omega, by simp [lossRtp], by simp only [lossRtp, W]; omega, by simp [lossRtp, r3],
    by simp [lossRtp], by simp [lossRtp], by simp [lossRtp], ?_⟩
  intro m h1 h2
  simp only [lossRtp, W] at h1 h2 ⊢
  rw [r2, getBit_setBit _ _ _ _ hsz, getBit_replicate]
  simp only [List.mem_singleton, W]
  by_cases hm : m = seq + 65536
  · subst hm; simp
  · rw [if_neg (by omega)]; simp [hm]


theorem relLoss_rtp (s : Stream) (l : Loss) (now : Int) (seq ts : Nat) (hs : seq < 65536)
    (r : RelLoss s l)
    (hH : if ahead l.h seq then extend l.h seq - l.h0 ≤ 8192 else sub16 (l.h % 65536) seq < 8192) :
    RelLoss (processRTP s now seq ts) (lossRtp (some l) seq) := by
  obtain ⟨p1, plr, pt, _, _, _, _, _, _, _, pl, _, pb⟩ := processRTP_started s now seq ts r.started
  have hadv : adv s seq ↔ ahead l.h seq = true := by
    simp only [adv, ahead, r.last, Bool.and_eq_true, decide_eq_true_eq]
  have hge := r.hge
  have hspan := r.span
  have h0le := r.h0le
  by_cases ha : ahead l.h seq = true
  · -- the packet is the new highest
    have ha' : adv s seq := hadv.mpr ha
    simp only [ha, if_true] at hH
    simp only [ha', if_true] at pl pb
    have hd : 0 < sub16 seq (l.h % 65536) ∧ sub16 seq (l.h % 65536) < 32768 := by
      simpa only [ahead, Bool.and_eq_true, decide_eq_true_eq] using ha
    -- n := the new extended highest
    have hn : extend l.h seq = l.h + sub16 seq (l.h % 65536) := by simp only [extend, ha, if_true]
    have hl' : lossRtp (some l) seq = { l with h := extend l.h seq, recv := extend l.h seq :: l.recv } := by
      simp only [lossRtp, highest, ha, if_true]
    rw [hl']
    generalize hnd : extend l.h seq = n at *
    have hnmod : n % 65536 = seq := by rw [hn]; unfold sub16 at *; omega
    have hsz : (setBit s.bits seq true).size = W := by rw [setBit_size]; exact r.size
    have hstart : add16 s.last 1 = (l.h + 1) % 65536 := by rw [r.last]; unfold add16; omega
    have hk : sub16 seq s.last - 1 = n - (l.h + 1) := by rw [r.last]; omega
    have hclr := getBit_clearRange (setBit s.bits seq true) (l.h + 1) (n - (l.h + 1)) hsz (by simp only [W] at *; omega)
    refine ⟨p1, by rw [pb, clearRange_size]; exact hsz, by simp only; omega, by simp only; rw [pl, hnmod],
      by simp only; rw [plr]; exact r.lastReport, by simp only; omega, by simp only [W] at *; omega,
      by simp only; rw [pt]; exact r.total, r.tle, by simp, ?_, ?_⟩
    · intro x hx
      rcases List.mem_cons.mp hx with h | h
      · simp only; omega
      · have := r.rle x h; simp only; omega
    · intro m h1 h2
      simp only [W] at h1 h2 hclr hspan ⊢
      rw [pb, hstart, hk]
      by_cases hm1 : m = n
      · rw [(hclr m).2.2 (by omega) (by omega), getBit_setBit _ _ _ _ r.size, if_pos (by simp only [W]; omega)]
        simp [hm1]
      · by_cases hm2 : l.h < m
        · rw [(hclr m).1 (by omega) (by omega)]
          have : m ∉ l.recv := fun hx => by have := r.rle m hx; omega
          simp [hm1, this]
        · rw [(hclr m).2.1 (by omega) (by omega), getBit_setBit _ _ _ _ r.size, if_neg (by simp only [W]; omega),
            r.win m (by omega) (by simp only [W]; omega)]
          simp [hm1]
  · -- an older (or duplicate) packet within the bitmap
    have ha' : ¬ adv s seq := fun x => ha (hadv.mp x)
    have haf : ahead l.h seq = false := by simpa using ha
    simp only [haf, Bool.false_eq_true, if_false] at hH
    simp only [ha', if_false] at pl pb
    have hn : extend l.h seq = l.h - sub16 (l.h % 65536) seq := by simp only [extend, haf, Bool.false_eq_true, if_false]
    have hl' : lossRtp (some l) seq = { l with recv := extend l.h seq :: l.recv } := by
      simp only [lossRtp, highest, haf, Bool.false_eq_true, if_false]
    rw [hl']
    generalize hnd : extend l.h seq = n at *
    have hd : sub16 (l.h % 65536) seq < 65536 := sub16_lt _ _
    have hnmod : n % 65536 = seq := by rw [hn]; unfold sub16 at *; omega
    have hnle : n ≤ l.h := by omega
    refine ⟨p1, by rw [pb, setBit_size]; exact r.size, hge, by rw [pl]; exact r.last,
      by rw [plr]; exact r.lastReport, h0le, hspan, by rw [pt]; exact r.total, r.tle,
      List.mem_cons_of_mem _ r.hin, ?_, ?_⟩
    · intro x hx
      rcases List.mem_cons.mp hx with h | h
      · simp only; omega
      · exact r.rle x h
    · intro m h1 h2
      simp only [W] at h1 h2 ⊢
      rw [pb, getBit_setBit _ _ _ _ r.size, r.win m h1 (by simp only [W]; omega)]
      by_cases hm : m = n
      · rw [if_pos (by simp only [W]; omega)]; simp [hm]
      · rw [if_neg (by simp only [W]; unfold sub16 at *; omega)]; simp [hm]


theorem countMissing_le (b : Array Bool) (st n : Nat) : countMissing b st n ≤ n := by
  induction n generalizing st with
  | zero => simp [countMissing]
  | succ n ih => simp only [countMissing]; have := ih (add16 st 1); split <;> omega

theorem relLoss_expected (s : Stream) (l : Loss) (r : RelLoss s l) : expectedInterval s = l.h - l.h0 := by
  have h1 := r.h0le; have h2 := r.span
  simp only [expectedInterval, r.last, r.lastReport, sub16, W] at *; omega

theorem relLoss_lost (s : Stream) (l : Loss) (r : RelLoss s l) :
    lostInterval s = lostIn l.h0 l.h l.recv := by
  have h1 := r.h0le; have h2 := r.span; have he := relLoss_expected s l r
  unfold lostInterval
  by_cases heq : s.last = s.lastReport
  · have : l.h = l.h0 := by rw [r.last, r.lastReport] at heq; simp only [W] at *; omega
    simp [heq, lostIn, this]
  · have hne : l.h ≠ l.h0 := fun h => heq (by rw [r.last, r.lastReport, h])
    rw [if_neg heq, he]
    have hst : add16 s.lastReport 1 = (l.h0 + 1) % 65536 := by rw [r.lastReport]; unfold add16; omega
    rw [hst, countMissing_eq]
    unfold lostIn
    obtain ⟨e, hee⟩ : ∃ e, l.h - l.h0 = e + 1 := ⟨l.h - l.h0 - 1, by omega⟩
    rw [hee, Nat.add_sub_cancel, List.range_succ, List.filter_append]
    have hlast : List.filter (fun k => decide (l.h0 + 1 + k ∉ l.recv)) [e] = [] := by
      have : l.h0 + 1 + e = l.h := by omega
      simp [this, r.hin]
    rw [hlast, List.append_nil]
    congr 1
    apply List.filter_congr
    intro j hj
    have hj' : j < e := List.mem_range.mp hj
    rw [r.win (l.h0 + 1 + j) (by omega) (by simp only [W] at *; omega)]
    simp

theorem relLoss_report (s : Stream) (l : Loss) (now : Int) (r : RelLoss s l) :
    let lost := lostIn l.h0 l.h l.recv
    let e := l.h - l.h0
    (generateReport s now).1.fraction = (if e = 0 then 0 else lost * 256 / e) ∧
    (generateReport s now).1.totalLost = min 16777215 (l.total + lost) ∧
    RelLoss (generateReport s now).2 { l with h0 := l.h, total := min 16777215 (l.total + lost) } := by
  intro lost e
  have he : expectedInterval s = e := relLoss_expected s l r
  have hl : lostInterval s = lost := relLoss_lost s l r
  have hspan := r.span; have h0le := r.h0le
  obtain ⟨t1, t2⟩ := report_total s now (by rw [r.total]; exact r.tle)
  obtain ⟨f1, f2, f3, f4, f5, _⟩ := generateReport_fields s now
  have hlt : e ≠ 0 → lost < e := by
    intro hne
    have : lostInterval s ≤ expectedInterval s - 1 := by
      unfold lostInterval; split
      · omega
      · exact countMissing_le _ _ _
    omega
  refine ⟨?_, by rw [t1, hl, r.total], ?_⟩
  · have hf : (generateReport s now).1.fraction = fractionLost (lostInterval s) (expectedInterval s) := by
      have : ¬ lostInterval s > 16777215 := by
        have := hlt; by_cases h0 : e = 0
        · have : lostInterval s = 0 := by
            unfold lostInterval; rw [if_pos]; 
            have := r.last; have := r.lastReport; simp only [W] at *; omega
          omega
        · have := hlt h0; simp only [W] at *; omega
      simp only [generateReport, this, if_false]
    rw [hf, he, hl]
    by_cases h0 : e = 0
    · simp [h0, fractionLost]
    · rw [if_neg h0]; exact fractionLost_eq_floor lost e (hlt h0) (by simp only [W] at *; omega)
  · refine ⟨by rw [f1]; exact r.started, by rw [f5]; exact r.size, r.hge, by rw [f3]; exact r.last,
      by rw [f4]; exact r.last, Nat.le_refl _, by simp only [W]; omega, by rw [t2, hl, r.total],
      by simp only; omega, r.hin, r.rle, ?_⟩
    intro m h1 h2
    rw [f5]; exact r.win m h1 h2


/-- the loss observables of a report. -/
def lossObs (r : RR) : Nat × Nat := (r.fraction, r.totalLost)
/-- the same two of a spec report `(expected, lost, fraction, cumulative)`. -/
def specObs (x : Nat × Nat × Nat × Nat) : Nat × Nat := (x.2.2.1, x.2.2.2)

theorem relLoss_sr (s : Stream) (l : Loss) (now : Int) (ntp : Nat) (r : RelLoss s l) :
    RelLoss (processSR s now ntp) l := by
  obtain ⟨f1, f2, f3, f4, f5, _, _, _, f9, _⟩ := processSR_fields s now ntp
  exact ⟨by rw [f1]; exact r.started, by rw [f5]; exact r.size, r.hge, by rw [f3]; exact r.last,
    by rw [f4]; exact r.lastReport, r.h0le, r.span, by rw [f9]; exact r.total, r.tle, r.hin, r.rle,
    fun m h1 h2 => by rw [f5]; exact r.win m h1 h2⟩

theorem loss_run_started (s : Stream) (l : Loss) (evs : List Ev) (hwf : ∀ e ∈ evs, e.wf)
    (hH : H8192 (some l) evs) (r : RelLoss s l) :
    (runEv s evs).map lossObs = (lossReports (some l) evs).map specObs := by
  induction evs generalizing s l with
  | nil => rfl
  | cons e es ih =>
    have hwf' : ∀ e ∈ es, e.wf := fun e he => hwf e (List.mem_cons_of_mem _ he)
    cases e with
    | rtp now seq ts =>
      have hs : seq < 65536 := (hwf (.rtp now seq ts) (by simp)).1
      simp only [H8192] at hH
      simp only [runEv, stepEv, lossReports]
      exact ih _ _ hwf' hH.2 (relLoss_rtp s l now seq ts hs r hH.1)
    | sr now ntp =>
      simp only [H8192] at hH
      simp only [runEv, stepEv, lossReports]
      exact ih _ _ hwf' hH (relLoss_sr s l now ntp r)
    | report now =>
      simp only [H8192] at hH
      obtain ⟨g1, g2, g3⟩ := relLoss_report s l now r
      simp only [runEv, stepEv, lossReports, List.map_cons]
      rw [ih _ _ hwf' hH g3]
      simp only [lossObs, specObs, g1, g2]

theorem loss_run0 (s : Stream) (evs : List Ev) (hwf : ∀ e ∈ evs, e.wf)
    (hH : H8192 none evs) (r : RelLoss0 s) :
    (runEv s evs).map lossObs = (lossReports none evs).map specObs := by
  induction evs generalizing s with
  | nil => rfl
  | cons e es ih =>
    have hwf' : ∀ e ∈ es, e.wf := fun e he => hwf e (List.mem_cons_of_mem _ he)
    cases e with
    | rtp now seq ts =>
      have hs : seq < 65536 := (hwf (.rtp now seq ts) (by simp)).1
      simp only [H8192] at hH
      simp only [runEv, stepEv, lossReports]
      exact loss_run_started _ _ es hwf' hH (relLoss_first s now seq ts hs r)
    | sr now ntp =>
      simp only [H8192] at hH
      simp only [runEv, stepEv, lossReports]
      exact ih _ hwf' hH (by simpa [RelLoss0, processSR] using r)
    | report now =>
      simp only [H8192] at hH
      obtain ⟨r1, r2, r3, r4, r5⟩ := r
      simp only [runEv, stepEv, lossReports, List.map_cons]
      have hexp : expectedInterval s = 0 := by simp [expectedInterval, r4, r5, sub16]
      have hlost : lostInterval s = 0 := by simp [lostInterval, r4, r5]
      have hf : (generateReport s now).1.fraction = 0 := by
        simp [generateReport, hexp, hlost, fractionLost]
      have ht : (generateReport s now).1.totalLost = 0 := by
        simp [generateReport, hlost, r3]
      rw [ih (generateReport s now).2 hwf' hH (by simp [RelLoss0, generateReport, r1, r2, r3, r4, hlost])]
      simp only [lossObs, specObs, hf, ht]

end Interceptor.ReceiverReport

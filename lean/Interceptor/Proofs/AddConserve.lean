/-
`Add` and `Clear` account for every reference: what leaves the ring is released, exactly once.
This ties the model of RTPBuffer to the steps of the abstract reference-counting machine
(evict*, then store | drop | nothing).
-/
import Interceptor.Proofs.RtpBufferInv
namespace Interceptor.RtpBuffer
open Interceptor

variable {α : Type} [DecidableEq α]

/-- the packets referenced from the ring. -/
def occ (s : Array (Option α)) : List α := s.toList.filterMap id

omit [DecidableEq α] in
theorem filterMap_id_cons (x : Option α) (xs : List (Option α)) :
    (x :: xs).filterMap id = x.toList ++ xs.filterMap id := by
  cases x <;> simp

theorem count_set_list (a : α) (l : List (Option α)) (i : Nat) (h : i < l.length) (v : Option α) :
    ((l.set i v).filterMap id).count a + ((l[i]?).getD none).toList.count a
      = (l.filterMap id).count a + v.toList.count a := by
  induction l generalizing i with
  | nil => simp at h
  | cons x xs ih =>
    cases i with
    | zero =>
      simp only [List.set_cons_zero, filterMap_id_cons, List.count_append, List.getElem?_cons_zero, Option.getD_some]
      omega
    | succ i =>
      have := ih i (by simpa using h)
      simp only [List.set_cons_succ, filterMap_id_cons, List.count_append, List.getElem?_cons_succ]
      omega

theorem count_occ_set (a : α) (s : Array (Option α)) (i : Nat) (h : i < s.size) (v : Option α) :
    (occ (s.setIfInBounds i v)).count a + (slot s i).toList.count a = (occ s).count a + v.toList.count a := by
  unfold occ slot
  rw [Array.toList_setIfInBounds]
  have := count_set_list a s.toList i (by simpa using h) v
  simpa using this

theorem count_clear (a : α) (size : Nat) (hsz : ∀ x, ix size x < size) (s : Array (Option α))
    (hs : s.size = size) (start n : Nat) :
    (occ (clearSlots size s start n)).count a + (clearRel size s start n).count a = (occ s).count a := by
  induction n generalizing s start with
  | zero => simp [clearSlots, clearRel]
  | succ n ih =>
    simp only [clearSlots, clearRel, List.count_append]
    have h1 := ih (s.setIfInBounds (ix size start) none) (by simp [hs]) (add16 start 1)
    have h2 := count_occ_set a s (ix size start) (by rw [hs]; exact hsz _) none
    simp only [Option.toList_none, List.count_nil, Nat.add_zero] at h2
    omega

/-- `Add`: except for a repeat of the highest number (which is neither stored nor released),
"in the ring afterwards" + "released" = "in the ring before" + the new packet, for every packet. -/
theorem add_conserves {seqOf : α → Nat} {b : Buf α} {s : SBuf α} (h : Inv seqOf b s) (p : α) (a : α) :
    if b.started = true ∧ sub16 (seqOf p) b.highest = 0 then add seqOf b p = (b, [])
    else (occ (add seqOf b p).1.slots).count a + (add seqOf b p).2.count a
           = (occ b.slots).count a + [p].count a := by
  have hv := validSize_pos h.valid
  have hix : ∀ x, ix b.size x < b.size := ix_lt h.valid
  unfold add
  by_cases hst : b.started = false
  · have hne : ¬ (b.started = true ∧ sub16 (seqOf p) b.highest = 0) := by simp [hst]
    rw [if_neg hne, if_pos hst]
    have hslot : slot b.slots (ix b.size (seqOf p)) = none := by
      rw [h.slots _ (hix _), h.fresh (by rw [← h.started_eq]; exact hst)]; rfl
    have := count_occ_set a b.slots (ix b.size (seqOf p)) (by rw [h.ssize]; exact hix _) (some p)
    rw [hslot] at this
    simpa using this
  · have hs : b.started = true := by simpa using hst
    simp only [if_neg hst]
    by_cases hd0 : sub16 (seqOf p) b.highest = 0
    · rw [if_pos ⟨hs, hd0⟩, if_pos hd0]
    · have hne : ¬ (b.started = true ∧ sub16 (seqOf p) b.highest = 0) := fun c => hd0 c.2
      rw [if_neg hne, if_neg hd0]
      by_cases hd : sub16 (seqOf p) b.highest < 32768
      · rw [if_pos hd]
        simp only [List.count_append]
        have h1 := count_clear a b.size hix b.slots h.ssize (add16 b.highest 1) (sub16 (seqOf p) b.highest - 1)
        have h2 := count_occ_set a (clearSlots b.size b.slots (add16 b.highest 1) (sub16 (seqOf p) b.highest - 1))
          (ix b.size (seqOf p)) (by rw [clearSlots_size, h.ssize]; exact hix _) (some p)
        simp only [Option.toList_some] at h2
        omega
      · rw [if_neg hd]
        by_cases hw : sub16 b.highest (seqOf p) ≥ b.size
        · rw [if_pos hw]
        · rw [if_neg hw]
          have := count_occ_set a b.slots (ix b.size (seqOf p)) (by rw [h.ssize]; exact hix _) (some p)
          simpa using this

/-- `Clear` releases exactly the ring's contents and leaves the ring empty. -/
theorem clear_conserves (b : Buf α) (a : α) :
    (clear b).2.count a = (occ b.slots).count a ∧ occ (clear b).1.slots = [] := by
  constructor
  · rfl
  · unfold clear occ
    simp only [Array.toList_replicate]
    induction b.slots.size with
    | zero => rfl
    | succ n ih => simp [List.replicate_succ, ih]

end Interceptor.RtpBuffer

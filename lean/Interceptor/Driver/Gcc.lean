import Interceptor.Driver.Util
import Interceptor.Model.Gcc
/-!
Driver for C16, component `gccbwe`.  The model is nondeterministic (oracles), so the driver is an
ACCEPTOR: `TRACE …` lines (what the harness observed on the real code after a feedback) are read
as ops and answered with `accept` / `reject <why>` by `Interceptor.Gcc.accepts`; the remaining
ops only keep the configuration, the previous target and the closed flag (`fb` prints the
result class of WriteRTCP, which is deterministic: `nil` while open — `invalid` for a report the
feedback adapter rejects —, `closed` after Close; `gate` blocks / releases the change callback).
-/
namespace Interceptor.Driver.Gcc
open Interceptor.Driver Interceptor.Gcc

structure DSt where
  cfg : Option Cfg := none
  prev : Int := 0
  prevUpd : Bool := false
  closed : Bool := false
  pending : Bool := false
  /-- the injected pacer's Close returns an error -/
  pacerCloseErr : Bool := false

def natLe (fs : List (String × String)) (k : String) (max : Nat) : Option Nat :=
  match getNat fs k with
  | some v => if v ≤ max then some v else none
  | none => none

def parseUsage : String → Option Usage
  | "overuse" => some .over
  | "underuse" => some .under
  | "normal" => some .normal
  | _ => none

def parseState : String → Option State
  | "increase" => some .increase
  | "decrease" => some .decrease
  | "hold" => some .hold
  | _ => none

def arrivalsOk (s : String) : Bool :=
  let xs := s.splitOn ","
  s != "" && xs.length ≤ 1000 && xs.all fun a =>
    a == "x" || (match a.toNat? with | some v => v ≤ 1099511627776 | none => false)

def parseObs (fs : List (String × String)) : Option (Obs × Int × Int) := do
  let t ← getInt fs "t"
  let p ← (lookup fs "p").bind intList
  let cb ← (lookup fs "cb").bind intList
  let dt ← getInt fs "dt"
  let lt ← getInt fs "lt"
  let st ← (lookup fs "st").bind parseState
  let us ← (lookup fs "us").bind parseUsage
  let mn ← getInt fs "min"
  let mx ← getInt fs "max"
  let stats := if dt == 0 && lt == 0 then none else some { lossT := lt, delayT := dt, usage := us, state := st : Stats }
  pure ({ target := t, pacer := p, cbs := cb, stats := stats }, mn, mx)

def step (d : DSt) (ts : List String) : DSt × List String :=
  let fs := fields ts
  match ts.head? with
  | some "cfg" =>
    match natLe fs "init" 2000000000, natLe fs "min" 2000000000, natLe fs "max" 2000000000, lookup fs "pacer", lookup fs "ext", d.cfg with
    | some i, some mn, some mx, some pk, some ext, none =>
      let pcerr := (lookup fs "pcerr").getD "0"
      if (pk != "noop" && pk != "leaky") || (ext != "0" && ext != "1") || (pcerr != "0" && pcerr != "1") ||
          mn < 1 || mn > i || i > mx then (d, ["bad-op"])
      else ({ d with cfg := some { min := mn, max := mx, init := i }, prev := i, pacerCloseErr := pcerr == "1" }, [])
    | _, _, _, _, _, _ => (d, ["bad-op"])
  | some "sent" =>
    match natLe fs "n" 2000, natLe fs "size" 1460, natLe fs "gap" 10000000, d.cfg with
    | some _, some _, some _, some _ => (d, [])
    | _, _, _, _ => (d, ["bad-op"])
  | some "adv" =>
    match natLe fs "us" 600000000 with
    | some _ => (d, [])
    | none => (d, ["bad-op"])
  | some "fb" =>
    match natLe fs "base" 65535, lookup fs "kind", lookup fs "a", d.cfg with
    | some _, some kind, some a, some _ =>
      -- `bad=short|unk`: a TWCC report damaged after it was built (fewer receive deltas than received
      -- symbols / a chunk of an unknown type): WriteRTCP returns the adapter's error before anything
      -- reaches the estimator, so the step that follows is one without events
      let bad := lookup fs "bad"
      if (kind != "twcc" && kind != "8888") || !arrivalsOk a then (d, ["bad-op"])
      else if bad.isSome && (kind != "twcc" || (bad != some "short" && bad != some "unk") ||
          (a.splitOn ",").all (· == "x")) then (d, ["bad-op"])   -- a report without a received packet has nothing to damage
      else if d.closed then (d, ["wr err=closed"])
      else ({ d with pending := true }, [if bad.isSome then "wr err=invalid" else "wr err=nil"])
    | _, _, _, _ => (d, ["bad-op"])
  | some "wr0" =>
    -- WriteRTCP of a batch that feeds nothing (a nil slice, an empty slice, packets that are no transport
    -- feedback): no event reaches the estimator; after Close the closed error like every call (`after_close`
    -- quantifies over all feedback lists, the empty one included)
    match lookup fs "what", d.cfg with
    | some w, some _ =>
      if w != "nil" && w != "none" && w != "other" then (d, ["bad-op"])
      else (d, [if d.closed then "wr err=closed" else "wr err=nil"])
    | _, _ => (d, ["bad-op"])
  | some "gate" =>
    -- the change callback blocks (`open=0`) until the harness lets it go (`open=1`): every change is still
    -- handed to its own callback invocation (`Gcc.publish` appends one per change), so at quiescence nothing is
    -- late, nothing is still running and the last value handed over is the getter's
    match lookup fs "open", d.cfg with
    | some "0", some _ => (d, [])
    | some "1", some _ => (d, ["quiet ok"])
    | _, _ => (d, ["bad-op"])
  | some "TRACE" =>
    match d.pending, d.cfg, parseObs fs with
    | true, some c, some (o, mn, mx) =>
      let verdict :=
        if mn ≠ c.min || mx ≠ c.max then some "cfg-mismatch" else accepts c d.prev d.prevUpd o
      ({ d with pending := false, prev := o.target, prevUpd := o.stats.isSome },
        [match verdict with | none => "accept" | some why => s!"reject {why}"])
    | _, _, _ => (d, ["bad-op"])
  | some "close" =>
    match d.cfg with
    | some _ =>
      -- a second Close closes the already closed ack pipes again: `close of closed channel`
      -- (the code as it is; the estimator stays closed)
      if d.closed then (d, ["close PANIC"]) else
      match closeG d.pacerCloseErr with
      | (closedNow, err) => ({ d with closed := closedNow }, [if err then "close err=pacer" else "close err=nil"])
    | none => (d, ["bad-op"])
  | _ => (d, ["bad-op"])

def gccComponent : Component where
  σ := DSt
  init := {}
  step := step

def components : List (String × Component) := [("gccbwe", gccComponent)]

end Interceptor.Driver.Gcc

import Interceptor.Driver.Util
import Interceptor.Model.Unwrapper
namespace Interceptor.Driver.Unwrapper
open Interceptor.Driver Interceptor.Unwrapper

/-- ops: `new` | `u <uint16>` → prints the unwrapped value. -/
def unwrapperComponent : Component where
  σ := State
  init := none
  step := fun s ts =>
    match ts with
    | ["new"] => (none, [])
    | ["set", n] =>
      match n.toNat? with
      | some v => (some (v : Int), [])
      | none => (s, ["bad-op"])
    | ["u", n] =>
      match n.toNat? with
      | some i => if i < 65536 then let (s', r) := unwrap s i; (s', [toString r]) else (s, ["bad-op"])
      | none => (s, ["bad-op"])
    | _ => (s, ["bad-op"])

def components : List (String × Component) := [("unwrapper", unwrapperComponent)]

end Interceptor.Driver.Unwrapper

import Interceptor.Driver.Util
import Interceptor.Model.TwccHdr
/-
Driver for component `twcchdr` (pkg/twcc HeaderExtensionInterceptor through its public API).

ops
  setc v=<uint32>                                  counter preset (verif hook on the Go side)
  bind s=<k> exts=<t|o>:<id>,…|-                   BindLocalStream; `t` = the transport-cc URI
  write s=<k> v= p= x= m= pt= seq= ts= ssrc= cc=<list> prof= ext=<id>:<hex>;… pad= pl=<hex> bn= be=
  writenil s=<k> pl=<hex> bn= be=                  Write with a nil header
  burst s=<k> n=<count>                            n writes of a minimal header, digest only
  conc c0= ids=<ext id per goroutine, 0 = not negotiated> per= epochs= seed=
  rtx s=<k> seq=<rtp seq> pos=outer|inner bn= be=   the packet first written on stream k with that RTP sequence
                                                   number (and header SSRC = k: the NACK responder's rule) is sent
                                                   again by a party that kept a copy — outer: from above the
                                                   interceptor (a fresh copy of what the application wrote goes
                                                   through Write once more and gets a fresh number; the kept
                                                   copy itself is never edited); inner: from below it (what reached the bottom
                                                   writer goes out again, byte for byte).  Valid for senders whose
                                                   sequence numbers stay inside the responder's window and do not
                                                   repeat (the ring itself is C04's subject).  Only the `w` line.
outputs
  w hdr=<hex|err|nil> pad=<n> pl=<hex>             what reached the bottom writer
  ret n=<n> err=<class>                            what Write returned
  burst first= last= run=<bool> count=
  verdict consecutive=<bool> perstream-increasing=<bool> count=<N> untouched=<M>
-/
namespace Interceptor.Driver.TwccHdr
open Interceptor.Driver Interceptor.Rtp Interceptor.TwccHdr

structure St where
  c : Nat := 0
  streams : List (Nat × Nat) := []
  /-- `retain`: the bottom writer keeps the header objects and they are printed at `flush` only -/
  retain : Bool := false
  held : List String := []
  /-- caller-owned receive buffers: k ↦ the header `Header.Unmarshal` yields and the payload behind it -/
  bufs : List (Nat × Header × Bytes) := []
  /-- (stream, rtp seq) ↦ the copy a retransmitting party above the interceptor holds (header as written by the
  application, later as edited by the interceptor on a retransmission) and the line that reached the bottom -/
  sent : List ((Nat × Nat) × (Header × Bytes × Option String)) := []

def parseDecls (s : String) : Option (List ExtDecl) :=
  if s == "-" then some [] else
  (s.splitOn ",").mapM fun e =>
    match e.splitOn ":" with
    | [k, v] =>
      match v.toInt? with
      | some i => if k == "t" then some (true, i) else if k == "o" then some (false, i) else none
      | none => none
    | _ => none

def parseExts (s : String) : Option (List (Nat × Bytes)) :=
  if s == "-" then some [] else
  (s.splitOn ";").mapM fun e =>
    match e.splitOn ":" with
    | [k, v] => do
      let id ← k.toNat?
      let p ← hexBytes v
      pure (id, p)
    | _ => none

def parseBool (fs : List (String × String)) (k : String) : Option Bool :=
  match getNat fs k with
  | some 0 => some false
  | some 1 => some true
  | _ => none

/-- header of a `write` op (shared with other drivers). -/
def parseHeader (fs : List (String × String)) : Option Header := do
  let v ← getNat fs "v"
  let p ← parseBool fs "p"
  let x ← parseBool fs "x"
  let m ← parseBool fs "m"
  let pt ← getNat fs "pt"
  let seq ← getNat fs "seq"
  let ts ← getNat fs "ts"
  let ssrc ← getNat fs "ssrc"
  let cc ← (lookup fs "cc").bind natList
  let prof ← getNat fs "prof"
  let ext ← (lookup fs "ext").bind parseExts
  let pad ← getNat fs "pad"
  pure { version := v, padding := p, extension := x, marker := m, pt := pt, seq := seq, ts := ts,
         ssrc := ssrc, csrc := cc, profile := prof, extensions := ext, paddingSize := pad }

def showErr : Option Err → String
  | none => "nil"
  | some .headerNil => "hdrnil"
  | some .bottom => "bottom"
  | some (.ext .oneByteId) => "ext-onebyte-id"
  | some (.ext .oneByteSize) => "ext-onebyte-size"
  | some (.ext .twoByteId) => "ext-twobyte-id"
  | some (.ext .twoByteSize) => "ext-twobyte-size"
  | some (.ext .rfc3550Id) => "ext-3550-id"

def showHdr : Option Header → String
  | none => "nil"
  | some h => match marshal h with
    | none => "err"
    | some b => showHex b

/-- the error value the bottom writer returns for `be=<code>` (any value must be handed back as is,
and the number stays consumed whatever it is). -/
def bottomErrName (code : Nat) : String :=
  match code with
  | 1 => "bottom" | 2 => "closedpipe" | 3 => "eof" | 4 => "wrapped-closedpipe" | 5 => "netclosed"
  | 6 => "canceled" | 7 => "shortwrite" | 8 => "deadline" | 9 => "osclosed" | _ => "bottom"

def showOut (o : WriteOut) : List String :=
  (match o.forwarded with
   | none => []
   | some (h, pl) =>
     [s!"w hdr={showHdr h} pad={(h.map (·.paddingSize)).getD 0} pl={showHex pl}"]) ++
  [s!"ret n={o.ret.1} err={showErr o.ret.2}"]

def parseBottom (fs : List (String × String)) : Option BottomRes := do
  let bn ← getInt fs "bn"
  let be ← getNat fs "be"
  if be > 9 then none else pure (bn, be != 0)

/-- output of one Write: the `w` line (deferred in retain mode) and the `ret` line with the name of the
bottom writer's error value. -/
def emit (s : St) (c' : Nat) (o : WriteOut) (fs : List (String × String)) : St × List String :=
  let code := (getNat fs "be").getD 0
  let lines := (showOut o).map fun l => if l == "ret n=" ++ toString o.ret.1 ++ " err=bottom" then
    "ret n=" ++ toString o.ret.1 ++ " err=" ++ bottomErrName code else l
  if s.retain then
    ({ s with c := c', held := s.held ++ lines.filter (·.startsWith "w ") }, lines.filter (! ·.startsWith "w "))
  else ({ s with c := c' }, lines)

/-- deterministic interleaving for the `conc` op: `g` threads, each `2*per` steps (allocate, forward). -/
def lcg (x : Nat) : Nat := (x * 6364136223846793005 + 1442695040888963407) % 18446744073709551616

def schedule (g steps seed : Nat) : List Nat := Id.run do
  let mut rem : Array Nat := Array.replicate g steps
  let mut left := g * steps
  let mut x := seed
  let mut out : Array Nat := #[]
  for _ in [0:g * steps] do
    x := lcg x
    -- pick the (x mod left)-th remaining step
    let mut k := (x / 65536) % left
    let mut t := 0
    for i in [0:g] do
      if k < rem[i]! then
        t := i
        break
      k := k - rem[i]!
    rem := rem.modify t (· - 1)
    left := left - 1
    out := out.push t
  return out.toList

def concVerdict (c0 : Nat) (ids : List Nat) (per epochs seed : Nat) : String := Id.run do
  let neg : List Nat := (List.range ids.length).filter fun i => ids[i]! != 0
  let nNeg := neg.length
  -- run the machine epoch by epoch (barrier between epochs), negotiated threads only
  let mut m := Machine.init c0
  let mut x := seed
  for _ in [0:epochs] do
    x := lcg x
    m := m.run (schedule nNeg (2 * per) x)
  let nums := m.numbers
  let outNums := m.out.map (·.2)
  let consecutive := m.pend.isEmpty && isRun c0 outNums && nums == assigned c0 nums.length
  -- per stream: the numbers reach the bottom in the order in which the thread allocated them
  let perStream := (List.range nNeg).all fun t =>
    (m.out.filter (·.1 == t)).map (·.2) == (m.logR.reverse.filter (·.1 == t)).map (·.2)
  let untouched := (ids.length - nNeg) * per * epochs
  return s!"verdict consecutive={consecutive} perstream-increasing={perStream} count={outNums.length} untouched={untouched}"

def step (s : St) (ts : List String) : St × List String :=
  match ts with
  | "setc" :: rest =>
    match getNat (fields rest) "v" with
    | some v => if v < M32 then ({ s with c := v, streams := [], sent := [] }, []) else (s, ["bad-op"])
    | none => (s, ["bad-op"])
  | "bind" :: rest =>
    let fs := fields rest
    match getNat fs "s", (lookup fs "exts").bind parseDecls with
    | some k, some ds => ({ s with streams := (k, negotiatedId ds) :: s.streams.filter (·.1 != k) }, [])
    | _, _ => (s, ["bad-op"])
  | "write" :: rest =>
    let fs := fields rest
    match getNat fs "s", parseHeader fs, (lookup fs "pl").bind hexBytes, parseBottom fs with
    | some k, some h, some pl, some b =>
      match s.streams.lookup k with
      | none => (s, ["bad-op"])
      | some id =>
        let (c', o) := write s.c id (some h) pl b
        let (s', lines) := emit s c' o fs
        if h.ssrc == k then
          let key := (k, h.seq)
          ({ s' with sent := (key, (h, pl, (showOut o).find? (·.startsWith "w "))) :: s'.sent.filter (·.1 != key) }, lines)
        else (s', lines)
    | _, _, _, _ => (s, ["bad-op"])
  | "rtx" :: rest =>
    let fs := fields rest
    match getNat fs "s", getNat fs "seq", lookup fs "pos", parseBottom fs with
    | some k, some q, some pos, some b =>
      match s.streams.lookup k with
      | none => (s, ["bad-op"])
      | some id =>
        if q > 65535 ∨ s.retain ∨ (pos != "outer" ∧ pos != "inner") then (s, ["bad-op"]) else
        match s.sent.lookup (k, q) with
        | none => (s, [])                       -- never sent (or not this stream's SSRC): nothing is kept
        | some (h, pl, line) =>
          if pos == "inner" then (s, line.toList)
          else
            -- a COPY of the kept header goes through Write again (the responder clones it for every
            -- retransmission since the F-41 repair), so the kept copy stays what the application wrote
            let (c', o) := write s.c id (some h) pl b
            ({ s with c := c' }, (showOut o).filter (·.startsWith "w "))
    | _, _, _, _ => (s, ["bad-op"])
  | "writenil" :: rest =>
    let fs := fields rest
    match getNat fs "s", (lookup fs "pl").bind hexBytes, parseBottom fs with
    | some k, some pl, some b =>
      match s.streams.lookup k with
      | none => (s, ["bad-op"])
      | some id =>
        let (c', o) := write s.c id none pl b
        emit s c' o fs
    | _, _, _ => (s, ["bad-op"])
  | ["retain"] => ({ s with retain := true }, [])
  | "buf" :: rest =>
    let fs := fields rest
    match getNat fs "k", parseHeader fs, (lookup fs "pl").bind hexBytes with
    | some k, some h, some pl => ({ s with bufs := (k, h, pl) :: s.bufs.filter (·.1 != k) }, [])
    | _, _, _ => (s, ["bad-op"])
  | "writeu" :: rest =>
    -- the header is `Header.Unmarshal` of caller buffer k (it aliases the buffer), the payload the bytes behind it
    let fs := fields rest
    match getNat fs "s", getNat fs "k", parseBottom fs with
    | some st, some k, some b =>
      match s.streams.lookup st, s.bufs.lookup k with
      | some id, some (h, pl) =>
        let (c', o) := write s.c id (some h) pl b
        emit s c' o fs
      | _, _ => (s, ["bad-op"])
    | _, _, _ => (s, ["bad-op"])
  | ["flush"] =>
    -- what the bottom writer retained, as it looks at the end of the case; the caller's buffers and slices
    ({ s with held := [] }, s.held ++ ["caller-buffer-modified=false"])
  | "burst" :: rest =>
    let fs := fields rest
    match getNat fs "s", getNat fs "n" with
    | some k, some n =>
      match s.streams.lookup k with
      | none => (s, ["bad-op"])
      | some id =>
        if id = 0 ∨ n = 0 ∨ n > 200000 then (s, ["bad-op"]) else
        let nums := assigned s.c n
        let c' := (s.c + n) % M32
        let run := nums == (List.range n).map fun i => (s.c + i) % 65536
        ({ s with c := c' }, [s!"burst first={nums.head!} last={nums.getLast!} run={run} count={n}"])
    | _, _ => (s, ["bad-op"])
  | "conc" :: rest =>
    let fs := fields rest
    match getNat fs "c0", (lookup fs "ids").bind natList, getNat fs "per", getNat fs "epochs", getNat fs "seed" with
    | some c0, some ids, some per, some epochs, some seed =>
      if c0 < M32 ∧ ids.length ≥ 1 ∧ ids.length ≤ 16 ∧ ids.all (· < 256) ∧ ids.length * per ≤ 32768 ∧
          ids.length * per * epochs ≤ 400000 then
        (s, [concVerdict c0 ids per epochs seed])
      else (s, ["bad-op"])
    | _, _, _, _, _ => (s, ["bad-op"])
  | _ => (s, ["bad-op"])

def twccHdrComponent : Component where
  σ := St
  init := {}
  step := step

def components : List (String × Component) := [("twcchdr", twccHdrComponent)]

end Interceptor.Driver.TwccHdr

import Interceptor.Driver.Util
import Interceptor.Model.TwccHdr
/-
Driver for component `twcchdr` (pkg/twcc HeaderExtensionInterceptor through its public API).

ops
  setc v=<uint32>                                  counter preset (verif hook on the Go side)
  bind s=<k> exts=<t|o>:<id>,…|-                   BindLocalStream; `t` = the transport-cc URI
  write s=<k> v= p= x= m= pt= seq= ts= ssrc= cc=<list> prof= ext=<id>:<hex>;… pad= pl=<hex> bn= be=
  writenil s=<k> pl=<hex> bn= be=                  Write with a nil header
  burst s=<k> n=<count>                            n writes of a minimal header, digest only
  conc c0= ids=<ext id per goroutine, 0 = not negotiated> per= epochs= seed=
outputs
  w hdr=<hex|err|nil> pad=<n> pl=<hex>             what reached the bottom writer
  ret n=<n> err=<class>                            what Write returned
  burst first= last= run=<bool> count=
  verdict consecutive=<bool> perstream-increasing=<bool> count=<N> untouched=<M>
-/
namespace Interceptor.Driver.TwccHdr
open Interceptor.Driver Interceptor.Rtp Interceptor.TwccHdr

structure St where
  c : Nat := 0
  streams : List (Nat × Nat) := []

def parseDecls (s : String) : Option (List ExtDecl) :=
  if s == "-" then some [] else
  (s.splitOn ",").mapM fun e =>
    match e.splitOn ":" with
    | [k, v] =>
      match v.toInt? with
      | some i => if k == "t" then some (true, i) else if k == "o" then some (false, i) else none
      | none => none
    | _ => none

def parseExts (s : String) : Option (List (Nat × Bytes)) :=
  if s == "-" then some [] else
  (s.splitOn ";").mapM fun e =>
    match e.splitOn ":" with
    | [k, v] => do
      let id ← k.toNat?
      let p ← hexBytes v
      pure (id, p)
    | _ => none

def parseBool (fs : List (String × String)) (k : String) : Option Bool :=
  match getNat fs k with
  | some 0 => some false
  | some 1 => some true
  | _ => none

/-- header of a `write` op (shared with other drivers). -/
def parseHeader (fs : List (String × String)) : Option Header := do
  let v ← getNat fs "v"
  let p ← parseBool fs "p"
  let x ← parseBool fs "x"
  let m ← parseBool fs "m"
  let pt ← getNat fs "pt"
  let seq ← getNat fs "seq"
  let ts ← getNat fs "ts"
  let ssrc ← getNat fs "ssrc"
  let cc ← (lookup fs "cc").bind natList
  let prof ← getNat fs "prof"
  let ext ← (lookup fs "ext").bind parseExts
  let pad ← getNat fs "pad"
  pure { version := v, padding := p, extension := x, marker := m, pt := pt, seq := seq, ts := ts,
         ssrc := ssrc, csrc := cc, profile := prof, extensions := ext, paddingSize := pad }

def showErr : Option Err → String
  | none => "nil"
  | some .headerNil => "hdrnil"
  | some .bottom => "bottom"
  | some (.ext .oneByteId) => "ext-onebyte-id"
  | some (.ext .oneByteSize) => "ext-onebyte-size"
  | some (.ext .twoByteId) => "ext-twobyte-id"
  | some (.ext .twoByteSize) => "ext-twobyte-size"
  | some (.ext .rfc3550Id) => "ext-3550-id"

def showHdr : Option Header → String
  | none => "nil"
  | some h => match marshal h with
    | none => "err"
    | some b => showHex b

def showOut (o : WriteOut) : List String :=
  (match o.forwarded with
   | none => []
   | some (h, pl) =>
     [s!"w hdr={showHdr h} pad={(h.map (·.paddingSize)).getD 0} pl={showHex pl}"]) ++
  [s!"ret n={o.ret.1} err={showErr o.ret.2}"]

def parseBottom (fs : List (String × String)) : Option BottomRes := do
  let bn ← getInt fs "bn"
  let be ← parseBool fs "be"
  pure (bn, be)

/-- deterministic interleaving for the `conc` op: `g` threads, each `2*per` steps (allocate, forward). -/
def lcg (x : Nat) : Nat := (x * 6364136223846793005 + 1442695040888963407) % 18446744073709551616

def schedule (g steps seed : Nat) : List Nat := Id.run do
  let mut rem : Array Nat := Array.replicate g steps
  let mut left := g * steps
  let mut x := seed
  let mut out : Array Nat := #[]
  for _ in [0:g * steps] do
    x := lcg x
    -- pick the (x mod left)-th remaining step
    let mut k := (x / 65536) % left
    let mut t := 0
    for i in [0:g] do
      if k < rem[i]! then
        t := i
        break
      k := k - rem[i]!
    rem := rem.modify t (· - 1)
    left := left - 1
    out := out.push t
  return out.toList

def concVerdict (c0 : Nat) (ids : List Nat) (per epochs seed : Nat) : String := Id.run do
  let neg : List Nat := (List.range ids.length).filter fun i => ids[i]! != 0
  let nNeg := neg.length
  -- run the machine epoch by epoch (barrier between epochs), negotiated threads only
  let mut m := Machine.init c0
  let mut x := seed
  for _ in [0:epochs] do
    x := lcg x
    m := m.run (schedule nNeg (2 * per) x)
  let nums := m.numbers
  let outNums := m.out.map (·.2)
  let consecutive := m.pend.isEmpty && isRun c0 outNums && nums == assigned c0 nums.length
  -- per stream: the numbers reach the bottom in the order in which the thread allocated them
  let perStream := (List.range nNeg).all fun t =>
    (m.out.filter (·.1 == t)).map (·.2) == (m.logR.reverse.filter (·.1 == t)).map (·.2)
  let untouched := (ids.length - nNeg) * per * epochs
  return s!"verdict consecutive={consecutive} perstream-increasing={perStream} count={outNums.length} untouched={untouched}"

def step (s : St) (ts : List String) : St × List String :=
  match ts with
  | "setc" :: rest =>
    match getNat (fields rest) "v" with
    | some v => if v < M32 then ({ c := v, streams := [] }, []) else (s, ["bad-op"])
    | none => (s, ["bad-op"])
  | "bind" :: rest =>
    let fs := fields rest
    match getNat fs "s", (lookup fs "exts").bind parseDecls with
    | some k, some ds => ({ s with streams := (k, negotiatedId ds) :: s.streams.filter (·.1 != k) }, [])
    | _, _ => (s, ["bad-op"])
  | "write" :: rest =>
    let fs := fields rest
    match getNat fs "s", parseHeader fs, (lookup fs "pl").bind hexBytes, parseBottom fs with
    | some k, some h, some pl, some b =>
      match s.streams.lookup k with
      | none => (s, ["bad-op"])
      | some id =>
        let (c', o) := write s.c id (some h) pl b
        ({ s with c := c' }, showOut o)
    | _, _, _, _ => (s, ["bad-op"])
  | "writenil" :: rest =>
    let fs := fields rest
    match getNat fs "s", (lookup fs "pl").bind hexBytes, parseBottom fs with
    | some k, some pl, some b =>
      match s.streams.lookup k with
      | none => (s, ["bad-op"])
      | some id =>
        let (c', o) := write s.c id none pl b
        ({ s with c := c' }, showOut o)
    | _, _, _ => (s, ["bad-op"])
  | "burst" :: rest =>
    let fs := fields rest
    match getNat fs "s", getNat fs "n" with
    | some k, some n =>
      match s.streams.lookup k with
      | none => (s, ["bad-op"])
      | some id =>
        if id = 0 ∨ n = 0 ∨ n > 200000 then (s, ["bad-op"]) else
        let nums := assigned s.c n
        let c' := (s.c + n) % M32
        let run := nums == (List.range n).map fun i => (s.c + i) % 65536
        ({ s with c := c' }, [s!"burst first={nums.head!} last={nums.getLast!} run={run} count={n}"])
    | _, _ => (s, ["bad-op"])
  | "conc" :: rest =>
    let fs := fields rest
    match getNat fs "c0", (lookup fs "ids").bind natList, getNat fs "per", getNat fs "epochs", getNat fs "seed" with
    | some c0, some ids, some per, some epochs, some seed =>
      if c0 < M32 ∧ ids.length ≥ 1 ∧ ids.length ≤ 16 ∧ ids.all (· < 256) ∧ ids.length * per ≤ 32768 ∧
          ids.length * per * epochs ≤ 400000 then
        (s, [concVerdict c0 ids per epochs seed])
      else (s, ["bad-op"])
    | _, _, _, _, _ => (s, ["bad-op"])
  | _ => (s, ["bad-op"])

def twccHdrComponent : Component where
  σ := St
  init := {}
  step := step

def components : List (String × Component) := [("twcchdr", twccHdrComponent)]

end Interceptor.Driver.TwccHdr

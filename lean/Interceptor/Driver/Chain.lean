import Interceptor.Driver.Util
import Interceptor.Driver.TwccHdr
import Interceptor.Model.Chain
/-
Driver for component `chain` (C01): a chain built by `Registry.Build` from real factories and
counting mocks, bound to local/remote streams and RTCP, with a faulty bottom writer/reader.

ops
  chain m=<member>,…|-        members in `Chain.interceptors` order (0 = next to the transport):
                              noop nackgen nackresp rr sr twccsend hdrext rfc8888 rtpfb stats pdsend pdrecv
                              pli cc fec:<nm>:<nf> mock:<closeErr> fail
                              closeErr: - | e<k> | w<k> (wrapped) | sub(-<closeErr>)* (a nested chain's Close)
  rtcpbind
  local s= ssrc= nack= rtx= fec= fssrc= fpt= tw=<decls as in twcchdr>
  remote s= ssrc= nack= tw= pli=
  pw …                                      as `w` for a chain with a pacing member (`ccpaced:<init>:<min>:<max>`: cc with the
                                            default pacer): prints `pret err=` instead of `ret n= err=`
  w s= <header fields> pl= bn= bf= if=      application RTP write; bf/if: the bottom writer fails the
                                            application packet / the packets injected during this Write
  r s= <header fields> pl= trunc= ok= err= bn=   RTP read: wire bytes (truncated to `trunc` if ≥ 0)
  cw pk=<hex> bn= bf=                       application RTCP write
  cr data=<hex> ok= err= bn=                RTCP read
  adv ms=                                   virtual time passes (no application-visible output)
  ul s= | ur s=                             Unbind{Local,Remote}Stream
  close
-/
namespace Interceptor.Driver.Chain
open Interceptor.Driver Interceptor.Rtp Interceptor.Chain
open Interceptor.Driver.TwccHdr (parseHeader parseBool parseDecls)
open Interceptor.TwccHdr (negotiatedId)

structure St where
  members : List Kind := []
  built : Bool := false
  closed : Bool := false
  rtcpBound : Bool := false
  world : World := {}
  locals : List (Nat × StreamCfg) := []
  remotes : List (Nat × StreamCfg) := []

def parseCloseErr (s : String) : Option (Option CErr) :=
  let one (t : String) : Option CErr :=
    if t.startsWith "e" then (t.drop 1).toNat?.map CErr.sentinel
    else if t.startsWith "w" then (t.drop 1).toNat?.map fun k => CErr.wrapped (.sentinel k)
    else none
  if s == "-" then some none
  else if s.startsWith "sub" then
    let parts := (s.splitOn "-").drop 1
    match parts.mapM one with
    | some [] => some none
    | some es => some (some (.multi es))
    | none => none
  else (one s).map some

/-- `none` = ill-formed; `some none` = a factory that fails. -/
def parseMember (s : String) : Option (Option Kind) :=
  match s.splitOn ":" with
  | ["noop"] => some (some .noop) | ["nackgen"] => some (some .nackgen)
  | ["nackresp"] => some (some .nackresp) | ["rr"] => some (some .rr) | ["sr"] => some (some .sr)
  | ["twccsend"] => some (some .twccsend) | ["hdrext"] => some (some .hdrext)
  | ["rfc8888"] => some (some .rfc8888) | ["rtpfb"] => some (some .rtpfb)
  | ["stats"] => some (some .stats) | ["pdsend"] => some (some .pdsend)
  | ["pdrecv"] => some (some .pdrecv) | ["pli"] => some (some .pli) | ["cc"] => some (some .cc)
  | ["fail"] => some none
  | ["ccpaced", a, b, c] => match a.toNat?, b.toNat?, c.toNat? with   -- cc with the default pacer, bitrates init:min:max
    | some _, some _, some _ => some (some .cc)
    | _, _, _ => none
  | ["fec", a, b] => match a.toNat?, b.toNat? with
    | some nm, some nf => some (some (.fec nm nf))
    | _, _ => none
  | ["mock", e] => (parseCloseErr e).map fun ce => some (.mock ce)
  | _ => none

def indexed {α} (xs : List α) : List (Nat × α) := (List.range xs.length).zip xs

def errRank : WErr → Nat × String
  | .bottom => (0, "bottom") | .shortbuf => (1, "shortbuf") | .padoverflow => (2, "padoverflow")
  | .unknownstream => (3, "unknownstream") | .ccnoext => (4, "ccnoext")
  | .ext .oneByteId => (5, "ext-onebyte-id") | .ext .oneByteSize => (6, "ext-onebyte-size")
  | .ext .twoByteId => (7, "ext-twobyte-id") | .ext .twoByteSize => (8, "ext-twobyte-size")
  | .ext .rfc3550Id => (9, "ext-3550-id") | .parse => (10, "parse") | .twccext => (11, "twccext")

def showErrs (es : List WErr) : String :=
  let ranks := (List.range 12).filter fun r => es.any fun e => (errRank e).1 == r
  let names := ranks.filterMap fun r => (es.find? fun e => (errRank e).1 == r).map fun e => (errRank e).2
  if names.isEmpty then "nil" else "+".intercalate names

def cfgOf (fs : List (String × String)) : Option (Nat × StreamCfg) := do
  let s ← getNat fs "s"
  let ssrc ← getNat fs "ssrc"
  let nack := (parseBool fs "nack").getD false
  let rtx := (parseBool fs "rtx").getD false
  let fec := (parseBool fs "fec").getD false
  let fssrc := (getNat fs "fssrc").getD 0
  let fpt := (getNat fs "fpt").getD 0
  let tw ← (lookup fs "tw").bind parseDecls
  let pli := (parseBool fs "pli").getD false
  pure (s, { ssrc := ssrc, nack := nack, rtx := rtx, fec := fec && fssrc != 0 && fpt != 0, fecSsrc := fssrc, fecPt := fpt,
             twId := negotiatedId tw, pli := pli })

def step (st : St) (ts : List String) : St × List String :=
  let bad := (st, ["bad-op"])
  match ts with
  | "chain" :: rest =>
    match lookup (fields rest) "m" with
    | none => bad
    | some m =>
      let codes := if m == "-" then [] else m.splitOn ","
      match codes.mapM parseMember with
      | none => bad
      | some ms =>
        match registryBuild ms with
        | none => ({}, ["build err"])
        | some ks => ({ members := ks, built := true }, [s!"built n={ks.length}"])
  | op :: rest =>
    if !st.built ∨ st.closed then bad else
    let fs := fields rest
    let ims := indexed st.members
    match op with
    | "rtcpbind" =>
      let w := ims.foldl (fun (w : World) (im : Nat × Kind) => match im.2 with
        | .mock _ => w.setMock im.1 fun c => { c with bindCW := c.bindCW + 1, bindCR := c.bindCR + 1 }
        | _ => w) st.world
      ({ st with world := w, rtcpBound := true }, [])
    | "local" =>
      match cfgOf fs with
      | none => bad
      | some (s, cfg) =>
        let w := ims.foldl (fun (w : World) (im : Nat × Kind) => match im.2 with
          | .mock _ => w.setMock im.1 fun c => { c with bindL := c.bindL + 1 }
          | .cc => { w with ccBound := (im.1, cfg.ssrc :: (w.ccBound.lookup im.1).getD []) :: w.ccBound.filter (·.1 != im.1) }
          | _ => w) st.world
        ({ st with world := w, locals := (s, cfg) :: st.locals.filter (·.1 != s) }, [])
    | "remote" =>
      match cfgOf fs with
      | none => bad
      | some (s, cfg) =>
        let w := ims.foldl (fun (w : World) (im : Nat × Kind) => match im.2 with
          | .mock _ => w.setMock im.1 fun c => { c with bindR := c.bindR + 1 }
          | _ => w) st.world
        ({ st with world := w, remotes := (s, cfg) :: st.remotes.filter (·.1 != s) }, [])
    | "ul" | "ur" =>
      match getNat fs "s" with
      | none => bad
      | some s =>
        let isL := op == "ul"
        if ((if isL then st.locals else st.remotes).lookup s).isNone then bad else
        let us : List (World → World) := ims.map fun im => match im.2 with
          | .mock _ => fun w => w.setMock im.1 fun c =>
              if isL then { c with unbindL := c.unbindL + 1 } else { c with unbindR := c.unbindR + 1 }
          | _ => id
        ({ st with world := unbindAll us st.world }, [])
    | "w" | "pw" =>   -- `pw`: delivery may be asynchronous (a pacing member); the value n is the pacer's own, not compared
      match getNat fs "s", parseHeader fs, (lookup fs "pl").bind hexBytes, getInt fs "bn", parseBool fs "bf", parseBool fs "if" with
      | some s, some h, some pl, some bn, some bf, some ifl =>
        match st.locals.lookup s with
        | none => bad
        | some cfg =>
          let wrappers := (ims.map fun im => localWrap im.1 im.2 cfg).reverse
          let bottom : Nat → Pkt → Ret WErr := fun _ p =>
            if p.app then (bn, if bf then [.bottom] else []) else (0, if ifl then [.bottom] else [])
          let r := writeVia bottom wrappers .app { hdr := h, payload := pl } st.world 0
          let outs := (appCalls r.2.1).map fun p =>
            s!"b hdr={TwccHdr.showHdr (some p.hdr)} pad={p.hdr.paddingSize} pl={showHex p.payload}"
          ({ st with world := r.1 }, outs ++ [if op == "pw" then s!"pret err={showErrs r.2.2.2}" else s!"ret n={r.2.2.1} err={showErrs r.2.2.2}"])
      | _, _, _, _, _, _ => bad
    | "r" =>
      match getNat fs "s", parseHeader fs, (lookup fs "pl").bind hexBytes, getInt fs "trunc", parseBool fs "ok",
            parseBool fs "err", getInt fs "bn" with
      | some s, some h, some pl, some trunc, some ok, some err, some bn =>
        match st.remotes.lookup s, wire h pl with
        | some cfg, some bytes =>
          let bytes := if trunc ≥ 0 then bytes.take trunc.toNat else bytes
          let res : ReadRes RPkt WErr :=
            if err then .err bn .bottom else .ok bytes.length { bytes := bytes, parses := ok, hdr := h }
          let r := readVia (ims.map fun im => remoteWrap im.1 im.2 cfg) st.world res
          let line := match r.2 with
            | .ok n b => s!"rd n={n} err=nil data={showHex b.bytes}"
            | .err n e => s!"rd n={n} err={showErrs [e]} data=-"
          ({ st with world := r.1 }, [line])
        | _, _ => bad
      | _, _, _, _, _, _, _ => bad
    | "cw" =>
      if !st.rtcpBound then bad else
      match (lookup fs "pk").bind hexBytes, getInt fs "bn", parseBool fs "bf" with
      | some pk, some bn, some bf =>
        let wrappers := (ims.map fun im => rtcpWriteWrap im.1 im.2).reverse
        let bottom : Nat → (Bytes × Bool) → Ret WErr := fun _ _ => (bn, if bf then [.bottom] else [])
        let r := writeVia bottom wrappers .app (pk, true) st.world 0
        let outs := (appCalls r.2.1).map fun p => s!"cb pk={showHex p.1}"
        ({ st with world := r.1 }, outs ++ [s!"ret n={r.2.2.1} err={showErrs r.2.2.2}"])
      | _, _, _ => bad
    | "cr" =>
      if !st.rtcpBound then bad else
      match (lookup fs "data").bind hexBytes, parseBool fs "ok", parseBool fs "err", getInt fs "bn" with
      | some data, some ok, some err, some bn =>
        let res : ReadRes CPkt WErr :=
          if err then .err bn .bottom else .ok data.length { bytes := data, parses := ok }
        let r := readVia (ims.map fun im => rtcpReadWrap im.1 im.2) st.world res
        let line := match r.2 with
          | .ok n b => s!"crd n={n} err=nil data={showHex b.bytes}"
          | .err n e => s!"crd n={n} err={showErrs [e]} data=-"
        ({ st with world := r.1 }, [line])
      | _, _, _, _ => bad
    | "adv" => if (getNat fs "ms").isSome then (st, []) else bad
    | "close" =>
      let r := closeAll (ims.map fun im => closeOf im.1 im.2) st.world
      let isBits := String.join ((List.range 3).map fun k => match r.2 with
        | some e => if e.is (k + 1) then "1" else "0"
        | none => "0")
      let head := s!"closed err={if r.2.isSome then "multi" else "nil"} is={isBits}"
      let mocks := ims.filterMap fun im => match im.2 with
        | .mock _ =>
          let c := r.1.mock im.1
          some s!"mock i={im.1} close={c.close} bl={c.bindL} br={c.bindR} ul={c.unbindL} ur={c.unbindR} cw={c.bindCW} cr={c.bindCR} sw={c.seenW} sr={c.seenR} scw={c.seenCW} scr={c.seenCR}"
        | _ => none
      ({ st with world := r.1, closed := true }, head :: mocks)
    | _ => bad
  | [] => bad

def chainComponent : Component where
  σ := St
  init := {}
  step := step

def components : List (String × Component) := [("chain", chainComponent)]

end Interceptor.Driver.Chain

import Interceptor.Driver.Util
import Interceptor.Model.Stats
import Interceptor.Spec.Stats
namespace Interceptor.Driver.Stats
open Interceptor.Driver Interceptor.Stats Interceptor.F64

/-- `-` or empty is the empty list. -/
def splitList (s sep : String) : List String :=
  if s == "-" || s == "" then [] else s.splitOn sep

def natBelow (s : String) (bound : Nat) : Option Nat :=
  match s.toNat? with
  | some n => if n < bound then some n else none
  | none => none

def u32 (s : String) : Option Nat := natBelow s 4294967296
def u64 (s : String) : Option Nat := natBelow s 18446744073709551616

def parseBlock (s : String) : Option Report :=
  match s.splitOn "/" with
  | [a, b, c, d, e, f, g] => do
    let a ← u32 a; let b ← natBelow b 256; let c ← u32 c; let d ← u32 d
    let e ← u32 e; let f ← u32 f; let g ← u32 g
    pure { ssrc := a, fl := b, tl := c, lsn := d, jit := e, lsr := f, dlsr := g }
  | _ => none

def parseBlocks (s : String) : Option (List Report) := (splitList s "+").mapM parseBlock

def parseSub (s : String) : Option DlrrSub :=
  match s.splitOn "." with
  | [a, b, c] => do
    let a ← u32 a; let b ← u32 b; let c ← u32 c
    pure { ssrc := a, lrr := b, dlrr := c }
  | _ => none

def parseXrBlock (s : String) : Option XrBlock :=
  match s.splitOn "~" with
  | ["T", n] => (u64 n).map XrBlock.rrtr
  | "D" :: subs => (subs.mapM parseSub).map XrBlock.dlrr
  | _ => none

def parseSsrcs (s : String) : Option (List Nat) := (splitList s "+").mapM u32

def parsePkt (tok : String) : Option Rtcp :=
  match tok.splitOn ":" with
  | ["SR", s, n, pc, oc, b] => do
    let s ← u32 s; let n ← u64 n; let pc ← u32 pc; let oc ← u32 oc; let b ← parseBlocks b
    pure (.sr s n pc oc b)
  | ["RR", s, b] => do
    let s ← u32 s; let b ← parseBlocks b
    pure (.rr s b)
  | ["XR", s, x] => do
    let s ← u32 s; let x ← (splitList x "+").mapM parseXrBlock
    pure (.xr s x)
  | ["NACK", s, m] => do let s ← u32 s; let m ← u32 m; pure (.nack s m)
  | ["PLI", s, m] => do let s ← u32 s; let m ← u32 m; pure (.pli s m)
  | ["FIR", s, m, e] => do let s ← u32 s; let m ← u32 m; let e ← parseSsrcs e; pure (.fir s m e)
  | ["BYE", e] => do let e ← parseSsrcs e; pure (.other e)
  | _ => none

def parsePkts (toks : List String) : Option (List Rtcp) :=
  if toks.isEmpty then none else toks.mapM parsePkt

/-- the RTP header shape; `incoming`: `len` is the buffer length, else the payload length. -/
def parseRtp (fs : List (String × String)) (incoming : Bool) : Option Rtp := do
  let ssrc ← (lookup fs "ssrc").bind u32
  let seq ← (lookup fs "seq").bind (natBelow · 65536)
  let ts ← (lookup fs "ts").bind u32
  let cc ← (lookup fs "cc").bind (natBelow · 16)
  let xp ← (lookup fs "xp").bind (natBelow · 4)
  let pl ← (lookup fs "pl").bind (natBelow · 1501)
  let xsS ← lookup fs "xs"
  let xs ← (splitList xsS ",").mapM (natBelow · 65536)
  let ok :=
    if xp = 0 then xs.isEmpty
    else if xp = 1 then xs.length ≤ 14 ∧ xs.all (fun l => 1 ≤ l ∧ l ≤ 16)
    else if xp = 2 then xs.length ≤ 14 ∧ xs.all (· ≤ 255)
    else xs.length ≤ 1 ∧ xs.all (fun l => l % 4 = 0 ∧ l ≤ 255)
  if !ok then none
  let hs := marshalSize cc xp xs
  pure { ssrc := ssrc, seq := seq, ts := ts, hs := hs, len := if incoming then hs + pl else pl }

def showTime : Option Int → String
  | none => "zero"
  | some t => toString t

def showStats (s : IStats) : String :=
  s!"in pr={s.inPR} lost={s.inLost} jit={bits s.inJitter} lts={showTime s.inLastTs} hb={s.inHB} b={s.inB}" ++
  s!" fir={s.inFIR} pli={s.inPLI} nack={s.inNACK} | out ps={s.outPS} bs={s.outBS} hb={s.outHB}" ++
  s!" nack={s.outNACK} fir={s.outFIR} pli={s.outPLI}" ++
  s!" | rin pr={s.riPR} lost={s.riLost} jit={bits s.riJitter} rtt={s.riRTT} trtt={s.riTotRTT}" ++
  s!" fl={bits s.riFL} n={s.riN}" ++
  s!" | rout ps={s.roPS} bs={s.roBS} ts={showTime s.roTs} rs={s.roReports} rtt={s.roRTT}" ++
  s!" trtt={s.roTotRTT} n={s.roN}"

structure St where
  icpt : Icpt := []
  now : Int := 946684800000000000
  boundL : List Nat := []
  boundR : List Nat := []
  hist : List Event := []        -- reversed history, for the spec

def St.apply (s : St) (e : Event) : St :=
  { s with icpt := s.icpt.step e, hist := e :: s.hist }

def attrOk (m : String) : Bool := m == "nil" || m == "fresh" || m == "stale"

def step (s : St) (ts : List String) : St × List String :=
  let bad := (s, ["bad-op"])
  let fs := fields ts
  match ts with
  | "bindL" :: _ | "bindR" :: _ =>
    match (lookup fs "ssrc").bind u32, (lookup fs "rate").bind u32 with
    | some ssrc, some rate =>
      if rate = 0 then bad else
      let s := s.apply (.bind ssrc rate)
      if ts.head? == some "bindL" then ({ s with boundL := ssrc :: s.boundL }, [])
      else ({ s with boundR := ssrc :: s.boundR }, [])
    | _, _ => bad
  | "rtpOut" :: _ =>
    match (lookup fs "via").bind u32, parseRtp fs false with
    | some via, some p => if s.boundL.contains via then (s.apply (.rtpOut via p), []) else bad
    | _, _ => bad
  | "rtpIn" :: _ =>
    match (lookup fs "via").bind u32, parseRtp fs true, lookup fs "a" with
    | some via, some p, some a =>
      if s.boundR.contains via && attrOk a then (s.apply (.rtpIn s.now via p), []) else bad
    | _, _, _ => bad
  | ["rtpInErr", _] =>
    match (lookup fs "via").bind u32 with
    | some via => if s.boundR.contains via then (s, []) else bad
    | none => bad
  | ["rtpInShort", _, _] =>
    match (lookup fs "via").bind u32, (lookup fs "n").bind (natBelow · 12) with
    | some via, some _ => if s.boundR.contains via then (s, []) else bad
    | _, _ => bad
  | "rtcpIn" :: a :: toks =>
    match parsePkts toks with
    | some pkts =>
      -- pion/rtcp cannot unmarshal a FIR without entries: not a parsed packet
      let parsable := pkts.all fun p => match p with
        | .fir _ _ [] => false
        | _ => true
      if a.startsWith "a=" && attrOk (a.drop 2).toString && parsable then (s.apply (.rtcpIn s.now pkts), []) else bad
    | none => bad
  | ["rtcpInErr"] => (s, [])
  | ["rtcpInShort", _] =>
    match (lookup fs "n").bind (natBelow · 4) with
    | some _ => (s, [])
    | none => bad
  | "rtcpOut" :: toks =>
    match parsePkts toks with
    | some pkts => (s.apply (.rtcpOut pkts), [])
    | none => bad
  | ["adv", _] =>
    match getInt fs "ns" with
    | some d => ({ s with now := s.now + d }, [])
    | none => bad
  | ["get", _] =>
    match (lookup fs "ssrc").bind u32 with
    | some ssrc =>
      match s.icpt.get ssrc with
      | none =>
        (s, ["nil"] ++ (if (Spec.recount ssrc s.hist.reverse).isNone then [] else ["SPEC-DIFF recorder"]))
      | some st =>
        let hist := s.hist.reverse
        let w := (Spec.window ssrc hist).getD []
        let rate := ofInt (((Spec.rateOf ssrc hist).getD 0 : Nat) : Int)
        let c1 := Spec.recount ssrc hist == some (Spec.countersOf st)
        let c2 := st.inLost == Spec.lostOf (Spec.unwrapped ssrc w)
        let c3 := Spec.remoteLossOf st == Spec.remoteOf rate (Spec.reportsFor ssrc w).getLast?
        let c4 := st.lastSRs == Spec.lastN 5 (Spec.srTimes ssrc w) && st.lastRRTs == Spec.lastN 5 (Spec.rrtrTimes w)
        let c5 := Spec.remoteInboundRtt st == Spec.rttFiguresOf (Spec.rttHits ssrc w)
          && Spec.remoteOutboundRtt st == Spec.rttFiguresOf (Spec.dlrrHits ssrc w)
        (s, [showStats st] ++ (if c1 then [] else ["SPEC-DIFF counters"]) ++ (if c2 then [] else ["SPEC-DIFF lost"])
          ++ (if c3 then [] else ["SPEC-DIFF remote"]) ++ (if c4 then [] else ["SPEC-DIFF report-times"])
          ++ (if c5 then [] else ["SPEC-DIFF rtt"]))
    | none => bad
  | ["close"] => (s.apply .close, [])
  | _ => bad

def statsComponent : Component where
  σ := St
  init := {}
  step := step

def components : List (String × Component) := [("stats", statsComponent)]

end Interceptor.Driver.Stats

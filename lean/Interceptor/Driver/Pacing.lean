import Interceptor.Driver.Util
import Interceptor.Model.Pacing
/-!
Drivers for C17: `pacing` (pkg/pacing interceptor over the binary64 token bucket `ftb`) and
`leaky` (gcc.LeakyBucketPacer).  Virtual time is kept in ns since the start of the case; the
tickers fire at multiples of the interval after `new`.

The pacing driver additionally checks the rate envelope of C17 on the trace it produces (which
`./check` compares line by line with the implementation's): after every tick,
`10⁹·bitsReleased ≤ 10⁹·burst₀ + Σ rateᵢ·Δtᵢ`; a violation prints `ENVELOPE-VIOLATED`, a line the
implementation side never prints.
-/
namespace Interceptor.Driver.Pacing
open Interceptor.Driver Interceptor.Pacing

/-! ### packet content: same functions of the op parameters as harness/corr/c17_test.go -/

def fnvInit : Nat := 2166136261
def fnv (h : Nat) (bs : List Nat) : Nat :=
  bs.foldl (fun h b => ((h ^^^ (b % 256)) * 16777619) % 4294967296) h

def be32 (x : Nat) : List Nat := [x / 16777216 % 256, x / 65536 % 256, x / 256 % 256, x % 256]

structure Shape where
  ssrc : Nat
  seq : Nat
  cc : Nat
  xp : Nat
  xl : List Nat
  pl : Nat

def parseShape (fs : List (String × String)) : Option Shape := do
  let ssrc ← getNat fs "ssrc"
  let seq ← getNat fs "seq"
  let cc ← getNat fs "cc"
  let xp ← getNat fs "xp"
  let xl ← (lookup fs "xl").bind natList
  let pl ← getNat fs "pl"
  if ssrc ≥ 4294967296 || seq > 65535 || cc > 15 || xp > 2 || pl > 4000 || xl.length > 14 then none
  else if xl.any (fun l => (xp == 1 && (l < 1 || l > 16)) || l > 255) then none
  else if xp == 0 && !xl.isEmpty then none
  else some ⟨ssrc, seq, cc, xp, xl, pl⟩

def range (n : Nat) : List Nat := List.range n

/-- `Header.MarshalSize()` of pion/rtp v1.10.5 for the shapes the harness builds. -/
def hdrSize (s : Shape) : Nat :=
  let ext := if s.xp == 0 then 0 else
    let per := if s.xp == 1 then 1 else 2
    ((4 + (s.xl.map (· + per)).foldl (· + ·) 0 + 3) / 4) * 4
  12 + 4 * s.cc + ext

def hdrDigest (s : Shape) : Nat :=
  let ts := s.seq * 3000 % 4294967296
  let d := fnv fnvInit [2, 0, if s.xp == 0 then 0 else 1, s.seq % 2, 96, s.seq / 256, s.seq % 256]
  let d := fnv d (be32 ts)
  let d := fnv d (be32 s.ssrc)
  let d := fnv d [s.cc]
  let d := (range s.cc).foldl (fun d i => fnv d (be32 ((s.ssrc + i + 1) % 4294967296))) d
  let prof := if s.xp == 1 then 0xBEDE else if s.xp == 2 then 0x1000 else 0
  let d := fnv d [prof / 256, prof % 256]
  let d := fnv d [s.xl.length]
  let step := fun (acc : Nat × Nat) (l : Nat) =>
    let (d, j) := acc
    let d := fnv d [j + 1, l]
    let d := fnv d ((range l).map fun k => (s.seq + 7 * j + k) % 256)
    (d, j + 1)
  (s.xl.foldl step (d, 0)).1

def payloadBytes (s : Shape) : List Nat := (range s.pl).map fun k => (s.seq * 13 + s.ssrc + k * 31) % 256

def hex8 (n : Nat) : String := String.join ((be32 n).map hexOf)

structure Pkt where
  stream : Nat
  seq : Nat
  hd : Nat
  pd : Nat
  size : Nat
  /-- which writer instance of the stream the packet is bound to: 0 = first bind, 1 = first re-bind … -/
  gen : Nat := 0

/-- ` w=<gen>` identifies the writer instance that got the packet (printed for re-bound streams). -/
def genSuffix (gen : Nat) : String := if gen = 0 then "" else s!" w={gen}"

def showD (tNs : Nat) (stream seq hd pd : Nat) : String :=
  s!"d t={tNs / 1000} s={stream} seq={seq} h={hex8 hd} p={hex8 pd}"

/-! ### pacing interceptor -/

structure PSt where
  st : Option (St Pkt FTB) := none
  /-- writes queued between `cwbegin` and `cwend` (newest first): stream, shape, sleep µs -/
  cw : Option (List (Nat × Shape × Nat)) := none
  /-- a concurrent block has run: the bucket state now depends on the schedule -/
  cwDone : Bool := false
  /-- (stream, seq) of the packets of the concurrent block, and those delivered so far -/
  blk : List (Nat × Nat) := []
  blkDelivered : Array Pkt := #[]
  ivlUs : Nat := 0
  nextTick : Nat := 0
  now : Nat := 0
  bound : List Nat := []
  closed : Bool := false
  -- envelope bookkeeping (exact integers, unit 10⁻⁹ bit)
  rate : Nat := 0
  tlast : Nat := 0
  credit : Nat := 0
  relBits : Nat := 0
  /-- armed `hook after=k r=`: the next writer calls `SetRate(r)` from inside its k-th hand-over from now on -/
  hook : Option (Nat × Nat) := none

def pcfg (ivlUs : Nat) : Cfg Pkt FTB := { sz := (·.size), cap := 1000000, ivlUs := ivlUs, lm := ftb }

/-- One tick at `t` with an armed hook `(k, r)`: `SetRate(r)` is called re-entrantly from inside the k-th hand-over.
The loop of a tick only ever looks at the head of its local queue, so a tick that hands over k packets, has the rate
changed and goes on with the rest is the event sequence `tick t` (only the first k packets drained from the channel
so far), `setRate t r`, the remaining drains, `tick t` — events of `Model/Pacing.lean`, covered by every theorem over
event lists (`envelope`, `fifo_exactly_once`).  Returns the state (its `delivered` = this tick's hand-overs), the
hook if still armed, and `some (k, r)` if it fired after the k-th hand-over of this tick. -/
def tickHook (ivlUs : Nat) (hook : Option (Nat × Nat)) (st : St Pkt FTB) (t : Nat) :
    St Pkt FTB × Option (Nat × Nat) × Option (Nat × Nat) :=
  match hook with
  | none => (exec (pcfg ivlUs) st (.tick t), none, none)
  | some (k, r) =>
    if st.loc.length < k then
      let st' := exec (pcfg ivlUs) st (.tick t)
      (st', some (k - st'.delivered.length, r), none)
    else
      let st1 := exec (pcfg ivlUs) { st with loc := st.loc.take k, chan := st.loc.drop k ++ st.chan } (.tick t)
      if st1.loc.isEmpty then
        let st2 := exec (pcfg ivlUs) st1 (.setRate t r)
        (exec (pcfg ivlUs) (drainAll st2) (.tick t), none, some (k, r))
      else
        ({ st1 with loc := st1.loc ++ st.loc.drop k, chan := st.chan }, some (k - st1.delivered.length, r), none)

/-- fire every tick up to and including `target`. -/
def ticksUntil (target : Nat) : Nat → PSt → St Pkt FTB → Array String → PSt × St Pkt FTB × Array String
  | 0, ps, st, out => (ps, st, out)
  | fuel + 1, ps, st, out =>
    if ps.nextTick > target then (ps, st, out) else
    let t := ps.nextTick
    let (st', hook', fired) := tickHook ps.ivlUs ps.hook { st with delivered := [] } t
    let isBlk := fun (p : Pkt) => ps.blk.contains (p.stream, p.seq)
    let out := (st'.delivered.zipIdx).foldl
      (fun o (p, i) =>
        let o := if isBlk p then o else o.push (showD t p.stream p.seq p.hd p.pd ++ genSuffix p.gen)
        match fired with
        | some (k, r) => if i + 1 = k then o.push s!"hook t={t / 1000} r={r}" else o
        | none => o) out
    let ps := { ps with blkDelivered := st'.delivered.foldl (fun a p => if isBlk p then a.push p else a) ps.blkDelivered }
    let credit := ps.credit + ps.rate * (t - ps.tlast)
    let rel := ps.relBits + (st'.delivered.map (8 * ·.size)).foldl (· + ·) 0
    let out := if rel * giga ≤ credit then out else out.push "ENVELOPE-VIOLATED"
    let ps := { ps with nextTick := t + ps.ivlUs * 1000, tlast := t, credit := credit, relBits := rel, hook := hook',
                        rate := match fired with | some (_, r) => r | none => ps.rate }
    ticksUntil target fuel ps { st' with delivered := [], accepted := [] } out

/-- `Write` result line and packet of a shape on a stream. -/
def mkPkt (bound : List Nat) (s : Nat) (sh : Shape) : Pkt :=
  ⟨s, sh.seq, hdrDigest sh, fnv fnvInit (payloadBytes sh), hdrSize sh + sh.pl, bound.count s - 1⟩

/-- the concurrent-writer block (`cwend`): the writers' sends reach the queue in SOME order; by
`fifo_exactly_once` the per-stream delivery order is each writer's program order and the
global delivery order is the acceptance order whatever the interleaving, so the model takes the
op order, accepts everything at the start of the block and ticks through sleeps + drain. -/
def cwEnd (ps : PSt) (st : St Pkt FTB) (ws : List (Nat × Shape × Nat)) (drain : Nat) : PSt × List String :=
  let streams := (ws.map (·.1)).eraseDups.mergeSort (· ≤ ·)
  let cwLines := streams.flatMap fun s =>
    (ws.filter (·.1 == s)).map fun (_, sh, _) => s!"cw s={s} n={hdrSize sh + sh.pl} err=nil"
  let st1 := ws.foldl (fun st (s, sh, _) => ((accept (pcfg ps.ivlUs) st (mkPkt ps.bound s sh)).getD st)) st
  let st1 := drainAll st1
  let maxSleep := (streams.map fun s => ((ws.filter (·.1 == s)).map (·.2.2)).foldl (· + ·) 0).foldl max 0
  let target := ps.now + (maxSleep + drain) * 1000
  let ps1 := { ps with blk := ws.map fun (s, sh, _) => (s, sh.seq), blkDelivered := #[] }
  let (ps2, st2, out) := ticksUntil target ((maxSleep + drain) / ps.ivlUs + 2) ps1 st1 #[]
  let del := ps2.blkDelivered.toList
  let cwdLines := streams.flatMap fun s =>
    (del.filter (·.stream == s)).map fun p => s!"cwd s={p.stream} seq={p.seq} h={hex8 p.hd} p={hex8 p.pd}" ++ genSuffix p.gen
  ({ ps2 with st := some st2, now := target, cw := none, cwDone := true, blk := [], blkDelivered := #[] },
    out.toList ++ cwLines ++ cwdLines ++ [s!"cwsum accepted={ws.length} delivered={del.length} order=ok"])

def pacingStep (ps : PSt) (ts : List String) : PSt × List String :=
  let fs := fields ts
  if ps.cwDone && ts.head? != some "close" then (ps, ["bad-op"]) else
  if ps.cw.isSome && ts.head? != some "cww" && ts.head? != some "cwend" then (ps, ["bad-op"]) else
  match ts.head? with
  | some "cwbegin" =>
    match ps.st with
    | some _ => if ps.closed then (ps, ["bad-op"]) else ({ ps with cw := some [], hook := none }, [])
    | none => (ps, ["bad-op"])
  | some "cww" =>
    match ps.cw, getNat fs "s", parseShape fs, getNat fs "sl" with
    | some q, some s, some sh, some sl =>
      if s > 1000 || sl > 1000000 || !ps.bound.contains s then (ps, ["bad-op"])
      else ({ ps with cw := some ((s, sh, sl) :: q) }, [])
    | _, _, _, _ => (ps, ["bad-op"])
  | some "cwend" =>
    match ps.cw, getNat fs "drain", ps.st with
    | some q, some drain, some st =>
      if drain > 600000000 then (ps, ["bad-op"]) else cwEnd ps st q.reverse drain
    | _, _, _ => (ps, ["bad-op"])
  | some "new" =>
    match getNat fs "rate", getNat fs "ivl", ps.st with
    | some r, some iv, none =>
      if r > 2000000000 || iv > 1000000 || iv < 1000 then (ps, ["bad-op"]) else
      let b := burstOf r iv
      ({ ps with st := some (St.init (FTB.init r b)), ivlUs := iv, nextTick := ps.now + iv * 1000,
                 rate := r, tlast := ps.now, credit := b * giga }, [])
    | _, _, _ => (ps, ["bad-op"])
  | some "bind" =>
    match getNat fs "s", ps.st with
    | some s, some _ => if s > 1000 then (ps, ["bad-op"]) else ({ ps with bound := s :: ps.bound }, [])
    | _, _ => (ps, ["bad-op"])
  | some "w" =>
    match getNat fs "s", parseShape fs, ps.st with
    | some s, some sh, some st =>
      if s > 1000 || !ps.bound.contains s then (ps, ["bad-op"]) else
      if ps.closed then (ps, ["w post-close"]) else
      let n := hdrSize sh + sh.pl
      let p : Pkt := { mkPkt ps.bound s sh with size := n }
      match accept (pcfg ps.ivlUs) st p with
      | some st' => ({ ps with st := some (drainAll st') }, [s!"w n={n} err=nil"])
      | none => (ps, ["w n=0 err=overflow"])
    | _, _, _ => (ps, ["bad-op"])
  | some "setrate" =>
    match getNat fs "r", ps.st with
    | some r, some st =>
      if r > 2000000000 then (ps, ["bad-op"]) else
      let st' := exec (pcfg ps.ivlUs) st (.setRate ps.now r)
      ({ ps with st := some st', credit := ps.credit + ps.rate * (ps.now - ps.tlast), tlast := ps.now, rate := r }, [])
    | _, _ => (ps, ["bad-op"])
  | some "hook" =>
    match getNat fs "after", getNat fs "r", ps.st with
    | some k, some r, some _ =>
      if k < 1 || k > 100000 || r > 2000000000 || ps.closed then (ps, ["bad-op"]) else ({ ps with hook := some (k, r) }, [])
    | _, _, _ => (ps, ["bad-op"])
  | some "adv" =>
    match getNat fs "us" with
    | some d =>
      if d > 600000000 then (ps, ["bad-op"]) else
      let target := ps.now + d * 1000
      match ps.st with
      | some st =>
        if ps.closed then ({ ps with now := target }, []) else
        let (ps', st', out) := ticksUntil target (d / ps.ivlUs + 2) ps st #[]
        ({ ps' with st := some st', now := target }, out.toList)
      | none => ({ ps with now := target }, [])
    | none => (ps, ["bad-op"])
  | some "close" =>
    match ps.st with
    | some st => if ps.closed then (ps, ["bad-op"]) else
      ({ ps with st := some (exec (pcfg ps.ivlUs) st .close), closed := true }, [])
    | none => (ps, ["bad-op"])
  | _ => (ps, ["bad-op"])

def pacingComponent : Component where
  σ := PSt
  init := {}
  step := pacingStep

/-! ### leaky bucket pacer -/

/-- header as the leaky driver carries it: (seq, digest, MarshalSize). -/
abbrev LH := Nat × Nat × Nat

structure LD where
  st : Option (LSt LH) := none
  nextTick : Nat := 0
  now : Nat := 0
  closed : Bool := false

def lhsz (h : LH) : Nat := h.2.2

def leakyTicks (target : Nat) : Nat → LD → LSt LH → Array String → LD × Option (LSt LH) × Array String
  | 0, ld, st, out => (ld, some st, out)
  | fuel + 1, ld, st, out =>
    if ld.nextTick > target then (ld, some st, out) else
    let t := ld.nextTick
    let out := if ((t - st.lastSent) / 1000000) * st.target ≥ 9007199254740992 then out.push "FLOAT-RANGE" else out
    match leakyTick lhsz { st with delivered := [], processed := [] } t with
    | .ok st' =>
      -- replay the per-SSRC call counter to tell failed writer calls (`df`) from successful ones (`d`)
      let (out, _) := st'.delivered.foldl
        (fun (acc : Array String × List Nat) d =>
          let (o, calls) := acc
          let ok := !(st.fails.contains (d.ssrc, calls.count d.ssrc + 1))
          let line := showD t d.ssrc d.hdr.1 d.hdr.2.1 (fnv fnvInit d.payload) ++ genSuffix (st.writers.count d.ssrc - 1)
          (o.push (if ok then line else "df" ++ (line.drop 1).toString), d.ssrc :: calls)) (out, st.calls)
      leakyTicks target fuel { ld with nextTick := t + 5000000 } { st' with delivered := [], processed := [] } out
    | .err e => (ld, none, out.push s!"err {e}")
    | .panic s => (ld, none, out.push s!"PANIC {s}")

def leakyStep (ld : LD) (ts : List String) : LD × List String :=
  let fs := fields ts
  match ts.head? with
  | some "new" =>
    match getNat fs "rate", ld.st with
    | some r, none =>
      if r > 2000000000 then (ld, ["bad-op"]) else
      ({ ld with st := some { (LSt.init r : LSt LH) with lastSent := ld.now }, nextTick := ld.now + 5000000 }, [])
    | _, _ => (ld, ["bad-op"])
  | some "bind" =>
    match getNat fs "s", ld.st with
    | some s, some st =>
      if s ≥ 4294967296 then (ld, ["bad-op"]) else
      let fl := match lookup fs "fail" with
        | some v => natList v
        | none => some []
      match fl with
      | none => (ld, ["bad-op"])
      | some fl =>
      if fl.length > 64 || fl.any (· > 100000) then (ld, ["bad-op"]) else
      match (lexec lhsz lItem st (.bind s)).bind (fun st1 => lexec lhsz lItem st1 (.setFails s fl)) with
      | .ok st' => ({ ld with st := some st' }, [])
      | _ => (ld, ["bad-op"])
    | _, _ => (ld, ["bad-op"])
  | some "w" =>
    match parseShape fs, ld.st with
    | some sh, some st =>
      let hs := hdrSize sh
      match lexec lhsz lItem st (.write (List.replicate poolSize 0) (sh.seq, hdrDigest sh, hs) sh.ssrc (payloadBytes sh)) with
      | .ok st' => ({ ld with st := some st' }, [s!"w n={hs + sh.pl} err=nil"])
      | _ => (ld, ["bad-op"])
    | _, _ => (ld, ["bad-op"])
  | some "setrate" =>
    match getNat fs "r", ld.st with
    | some r, some st =>
      if r > 2000000000 then (ld, ["bad-op"]) else
      match lexec lhsz lItem st (.setRate r) with
      | .ok st' => ({ ld with st := some st' }, [])
      | _ => (ld, ["bad-op"])
    | _, _ => (ld, ["bad-op"])
  | some "adv" =>
    match getNat fs "us" with
    | some d =>
      if d > 600000000 then (ld, ["bad-op"]) else
      let target := ld.now + d * 1000
      match ld.st with
      | some st =>
        if ld.closed then ({ ld with now := target }, []) else
        let (ld', st', out) := leakyTicks target (d / 5000 + 2) ld st #[]
        ({ ld' with st := st', now := target }, out.toList)
      | none => ({ ld with now := target }, [])
    | none => (ld, ["bad-op"])
  | some "close" =>
    match ld.st with
    | some _ => if ld.closed then (ld, ["bad-op"]) else ({ ld with closed := true }, [])
    | none => (ld, ["bad-op"])
  | _ => (ld, ["bad-op"])

def leakyComponent : Component where
  σ := LD
  init := {}
  step := leakyStep

def components : List (String × Component) := [("pacing", pacingComponent), ("leaky", leakyComponent)]

end Interceptor.Driver.Pacing

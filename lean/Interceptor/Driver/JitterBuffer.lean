import Interceptor.Driver.Util
import Interceptor.Model.JitterBuffer
import Interceptor.Spec.JitterBuffer
/-!
Drivers for pkg/jitterbuffer.

`pqueue`  : `push seq= ts= obj= prio=` | `pop` | `popat P` | `popts T` | `find P` | `len` | `clear`
            → result line, then `q len=N chain=P:O,…` (reachable nodes in list order).
`jbuf`    : `new [min=N]` | `push seq= ts= obj=` | `pop` | `popseq S` | `popts T` | `peek 0|1` |
            `peekseq S` | `sethead H` | `head` | `clear 0|1`
            → result line (`… ev=<events>`), then `st head= state= ready= last= min= len=`.
`jbufint` : `read seq= ts= obj= n= blen= uerr=` | `unbind` | `close` → `n= err= pkt=`, then `st …`.
A panic of the model (`loop` = fuel exhausted) prints `HANG` / `PANIC` and the rest of the case
is skipped, exactly as the Go interpreter abandons the case.
The heap-level model and the list-level spec run side by side (`SPEC-DIFF` on disagreement).
-/
namespace Interceptor.Driver.JitterBuffer
open Interceptor Interceptor.Driver Interceptor.JitterBuffer

def showRet : Res (Option Pkt) → String
  | .ok (some p) => s!"pkt {p.seq}:{p.obj}"
  | .ok none => "nil"
  | .err e => s!"err {e}"
  | .panic "loop" => "HANG"
  | .panic _ => "PANIC"

def isPanicRet : Res (Option Pkt) → Bool
  | .panic _ => true
  | _ => false

def showUnit : Res (Option Pkt) → String
  | .ok _ => "ok"
  | r => showRet r

def evName : Ev → String
  | .start => "start" | .overflow => "overflow" | .playing => "playing" | .underflow => "underflow"

def showEvs (es : List Ev) : String :=
  if es.isEmpty then "ev=-" else "ev=" ++ ",".intercalate (es.map evName)

/-! #### pqueue -/

/-- tail-recursive walk (a full sequence cycle of 65536 nodes must not overflow the stack):
the reachable nodes in REVERSE list order; `none` on a cycle. -/
def walkRev (ns : Array Node) : Nat → Option Nat → List Nat → Option (List Nat)
  | _, none, acc => some acc
  | 0, some _, _ => none
  | f + 1, some i, acc =>
    match ns[i]? with
    | none => none
    | some n => walkRev ns f n.next (i :: acc)

/-- chains longer than this are printed as `#<count>/<hash>`. -/
def chainLimit : Nat := 40

/-- digest step over `(priority, object id + 1 or 0 for a nil packet)`. -/
def hashStep (h : Nat) (prio objv : Nat) : Nat := (h * 31 + prio * 7 + objv) % 4294967291

def showEntries (es : List (Nat × Option Nat)) : String :=
  if es.isEmpty then "-"
  else if es.length ≤ chainLimit then
    ",".intercalate (es.map fun e => match e.2 with
      | some o => s!"{e.1}:{o}"
      | none => s!"{e.1}:nil")
  else
    let h := es.foldl (fun h e => hashStep h e.1 (match e.2 with | some o => o + 1 | none => 0)) 0
    s!"#{es.length}/{h}"

def showChain (q : PQ) : String :=
  match walkRev q.nodes (PQ.fuel q.nodes) q.head [] with
  | none => "loop"
  | some r =>
    showEntries (r.reverse.map fun i =>
      match q.nodes[i]? with
      | some n => (n.prio, n.val.map (·.obj))
      | none => (0, none))

def showQ (q : PQ) : String := s!"q len={q.length} chain={showChain q}"

def showL (l : List Entry) : String :=
  s!"q len={l.length % 65536} chain=" ++ showEntries (l.map fun e => (e.1, some e.2.obj))

/-- the i-th sequence number of a run (`step` ∈ {-1, 0, 1}). -/
def runSeq (frm : Nat) (step : Int) (i : Nat) : Nat :=
  if step < 0 then (frm + (65536 - i % 65536)) % 65536
  else if step == 0 then frm % 65536
  else (frm + i) % 65536

structure PQState where
  q : PQ := {}
  l : List Entry := []
  dead : Bool := false

def specDiff (a b : List String) : List String := if a == b then a else a ++ ["SPEC-DIFF"]

/-- apply a pop-like result on both sides. -/
def pqPop (s : PQState) (r : Res (Option Pkt × PQ)) (rl : Res (Option Pkt × List Entry)) :
    PQState × List String :=
  let (q', out) : PQ × Res (Option Pkt) := match r with
    | .ok (v, q') => (q', .ok v)
    | .err e => (s.q, .err e)
    | .panic x => (s.q, .panic x)
  let (l', outl) : List Entry × Res (Option Pkt) := match rl with
    | .ok (v, l') => (l', .ok v)
    | .err e => (s.l, .err e)
    | .panic x => (s.l, .panic x)
  if isPanicRet out then ({ s with dead := true }, [showRet out])
  else ({ q := q', l := l', dead := false }, specDiff [showRet out, showQ q'] [showRet outl, showL l'])

/-- `pushrun`: `n` pushes `seq = prio = from + i*step`, objects `obj + i`, interpreted by a loop. -/
def pqRun (frm : Nat) (step : Int) (t o : Nat) : Nat → Nat → PQ → List Entry → Except String (PQ × List Entry)
  | 0, _, q, l => .ok (q, l)
  | k + 1, i, q, l =>
    let sq := runSeq frm step i
    let p : Pkt := { seq := sq, ts := t, obj := o + i }
    match PQ.push q p sq with
    | .ok q' => pqRun frm step t o k (i + 1) q' (insertL l (sq, p))
    | .err e => .error s!"err {e}"
    | .panic x => .error (showRet (.panic x))

def pqStep (s : PQState) (ts : List String) : PQState × List String :=
  if s.dead then (s, []) else
  match ts with
  | "push" :: rest =>
    let fs := fields rest
    match getNat fs "seq", getNat fs "ts", getNat fs "obj", getNat fs "prio" with
    | some sq, some t, some o, some pr =>
      if sq < 65536 ∧ pr < 65536 ∧ t < 4294967296 then
        let p : Pkt := { seq := sq, ts := t, obj := o }
        match PQ.push s.q p pr with
        | .ok q' =>
          let l' := insertL s.l (pr, p)
          ({ q := q', l := l', dead := false }, specDiff ["ok", showQ q'] ["ok", showL l'])
        | .err e => (s, [s!"err {e}"])
        | .panic x => ({ s with dead := true }, [showRet (.panic x)])
      else (s, ["bad-op"])
    | _, _, _, _ => (s, ["bad-op"])
  | "pushrun" :: rest =>
    let fs := fields rest
    match getNat fs "from", getNat fs "n", getInt fs "step", getNat fs "ts", getNat fs "obj" with
    | some frm, some n, some step, some t, some o =>
      if frm < 65536 ∧ n ≤ 200000 ∧ t < 4294967296 ∧ (step == -1 || step == 0 || step == 1) then
        match pqRun frm step t o n 0 s.q s.l with
        | .ok (q', l') => ({ q := q', l := l', dead := false }, specDiff ["ok", showQ q'] ["ok", showL l'])
        | .error x => ({ s with dead := true }, [x])
      else (s, ["bad-op"])
    | _, _, _, _, _ => (s, ["bad-op"])
  | ["pop"] => pqPop s (PQ.pop s.q) (popL s.l)
  | ["popat", n] =>
    match n.toNat? with
    | some sq => if sq < 65536 then pqPop s (PQ.popAt s.q sq) (listImpl.popAt s.l sq) else (s, ["bad-op"])
    | none => (s, ["bad-op"])
  | ["popts", n] =>
    match n.toNat? with
    | some t => if t < 4294967296 then pqPop s (PQ.popAtTs s.q t) (listImpl.popAtTs s.l t) else (s, ["bad-op"])
    | none => (s, ["bad-op"])
  | ["find", n] =>
    match n.toNat? with
    | some sq =>
      if sq < 65536 then
        let r := PQ.find s.q sq
        if isPanicRet r then ({ s with dead := true }, [showRet r])
        else (s, specDiff [showRet r, showQ s.q] [showRet (findL s.l sq), showL s.l])
      else (s, ["bad-op"])
    | none => (s, ["bad-op"])
  | ["len"] => (s, [s!"len {s.q.length}", showQ s.q])
  | ["clear"] =>
    match PQ.clear s.q with
    | .ok q' => ({ q := q', l := [], dead := false }, specDiff ["ok", showQ q'] ["ok", showL []])
    | .err e => (s, [s!"err {e}"])
    | .panic x => ({ s with dead := true }, [showRet (.panic x)])
  | _ => (s, ["bad-op"])

def pqueueComponent : Component where
  σ := PQState
  init := {}
  step := pqStep

/-! #### jbuf -/

def showSt {I : QImpl} (jb : JB I) : String :=
  let st := match jb.state with | .buffering => "B" | .emitting => "E"
  s!"st head={jb.head} state={st} ready={if jb.ready then 1 else 0} last={jb.lastSeq} min={jb.minStart} len={I.length jb.q}"

/-- `big`: the case contains a run of at least `bigRun` packets (a full sequence-number cycle);
from then on only the cached-count list implementation `f` is run (it refines the list queue,
`fastRefines`, as the heap-level queue does, `heapRefines`: same results by `sim_run`). The
generic JitterBuffer code over the heap queue copies the node array on every push in compiled
Lean, which is quadratic at this size; the heap-level queue itself is exercised at this size by
the `pqueue` component. -/
structure JState where
  h : JB heapImpl := JB.new heapImpl none
  l : JB listImpl := JB.new listImpl none
  f : JB fastImpl := JB.new fastImpl none
  big : Bool := false
  dead : Bool := false

def bigRun : Nat := 4096

def toFast (l : JB listImpl) : JB fastImpl :=
  { q := (l.q, List.length (α := Entry) l.q), minStart := l.minStart, overflowLen := l.overflowLen,
    lastSeq := l.lastSeq, head := l.head, ready := l.ready, state := l.state }

/-- enter `big` mode (idempotent). -/
def JState.enterBig (s : JState) : JState :=
  if s.big then s else { s with f := toFast s.l, big := true }

/-- an operation that is polymorphic in the queue implementation. -/
structure JOp where
  run : {I : QImpl} → JB I → JB I × Out
  unit : Bool   -- result printed as `ok`

def jApply (s : JState) (op : JOp) : JState × List String :=
  let sh := fun (o : Out) => (if op.unit then showUnit o.ret else showRet o.ret) ++ " " ++ showEvs o.evs
  if s.big then
    let (f', o) := op.run s.f
    if isPanicRet o.ret then ({ s with dead := true }, [showRet o.ret])
    else ({ s with f := f' }, [sh o, showSt f'])
  else
  let (h', oh) := op.run s.h
  let (l', ol) := op.run s.l
  let sh := fun (o : Out) => (if op.unit then showUnit o.ret else showRet o.ret) ++ " " ++ showEvs o.evs
  if isPanicRet oh.ret then ({ s with dead := true }, [showRet oh.ret])
  else ({ h := h', l := l', dead := false }, specDiff [sh oh, showSt h'] [sh ol, showSt l'])

/-- event counters of a run: start, overflow, playing, underflow. -/
def countEvs (c : Nat × Nat × Nat × Nat) (es : List Ev) : Nat × Nat × Nat × Nat :=
  es.foldl (fun c e => match e, c with
    | .start, (a, b, d, f) => (a + 1, b, d, f)
    | .overflow, (a, b, d, f) => (a, b + 1, d, f)
    | .playing, (a, b, d, f) => (a, b, d + 1, f)
    | .underflow, (a, b, d, f) => (a, b, d, f + 1)) c

def showCounts (c : Nat × Nat × Nat × Nat) : String :=
  s!"start={c.1} overflow={c.2.1} playing={c.2.2.1} underflow={c.2.2.2}"

/-- `pushrun` on a JitterBuffer over any queue implementation. -/
def jRun {I : QImpl} (frm : Nat) (step : Int) (t o : Nat) :
    Nat → Nat → JB I → Nat × Nat × Nat × Nat → Except String (JB I × (Nat × Nat × Nat × Nat))
  | 0, _, jb, c => .ok (jb, c)
  | k + 1, i, jb, c =>
    let p : Pkt := { seq := runSeq frm step i, ts := t, obj := o + i }
    let (jb', out) := jb.push p
    match out.ret with
    | .panic x => .error (showRet (.panic x))
    | _ => jRun frm step t o k (i + 1) jb' (countEvs c out.evs)

def jStep (s : JState) (ts : List String) : JState × List String :=
  match ts with
  | "new" :: rest =>
    let m := getNat (fields rest) "min"
    match rest, m with
    | [], _ => ({ h := JB.new heapImpl none, l := JB.new listImpl none }, ["ok"])
    | [_], some k =>
      if k < 65536 then ({ h := JB.new heapImpl (some k), l := JB.new listImpl (some k) }, ["ok"])
      else (s, ["bad-op"])
    | _, _ => (s, ["bad-op"])
  | _ =>
  if s.dead then (s, []) else
  match ts with
  | "push" :: rest =>
    let fs := fields rest
    match getNat fs "seq", getNat fs "ts", getNat fs "obj" with
    | some sq, some t, some o =>
      if sq < 65536 ∧ t < 4294967296 then
        let p : Pkt := { seq := sq, ts := t, obj := o }
        jApply s { run := fun jb => jb.push p, unit := true }
      else (s, ["bad-op"])
    | _, _, _ => (s, ["bad-op"])
  | "pushrun" :: rest =>
    let fs := fields rest
    match getNat fs "from", getNat fs "n", getInt fs "step", getNat fs "ts", getNat fs "obj" with
    | some frm, some n, some step, some t, some o =>
      if frm < 65536 ∧ n ≤ 200000 ∧ t < 4294967296 ∧ (step == -1 || step == 0 || step == 1) then
        if s.big || n ≥ bigRun then
          let s := s.enterBig
          match jRun frm step t o n 0 s.f (0, 0, 0, 0) with
          | .ok (f', c) => ({ s with f := f' }, [s!"ok {showCounts c}", showSt f'])
          | .error x => ({ s with dead := true }, [x])
        else
        match jRun frm step t o n 0 s.h (0, 0, 0, 0), jRun frm step t o n 0 s.l (0, 0, 0, 0) with
        | .ok (h', ch), .ok (l', cl) =>
          ({ s with h := h', l := l' },
            specDiff [s!"ok {showCounts ch}", showSt h'] [s!"ok {showCounts cl}", showSt l'])
        | .error x, _ => ({ s with dead := true }, [x])
        | _, .error x => ({ s with dead := true }, [x, "SPEC-DIFF"])
      else (s, ["bad-op"])
    | _, _, _, _, _ => (s, ["bad-op"])
  | ["pop"] => jApply s { run := fun jb => jb.pop, unit := false }
  | ["popseq", n] =>
    match n.toNat? with
    | some sq => if sq < 65536 then jApply s { run := fun jb => jb.popAtSequence sq, unit := false } else (s, ["bad-op"])
    | none => (s, ["bad-op"])
  | ["popts", n] =>
    match n.toNat? with
    | some t => if t < 4294967296 then jApply s { run := fun jb => jb.popAtTimestamp t, unit := false } else (s, ["bad-op"])
    | none => (s, ["bad-op"])
  | ["peek", n] =>
    match n with
    | "0" => jApply s { run := fun jb => (jb, jb.peek false), unit := false }
    | "1" => jApply s { run := fun jb => (jb, jb.peek true), unit := false }
    | _ => (s, ["bad-op"])
  | ["peekseq", n] =>
    match n.toNat? with
    | some sq => if sq < 65536 then jApply s { run := fun jb => (jb, jb.peekAtSequence sq), unit := false } else (s, ["bad-op"])
    | none => (s, ["bad-op"])
  | ["sethead", n] =>
    match n.toNat? with
    | some h => if h < 65536 then jApply s { run := fun jb => (jb.setPlayoutHead h, { ret := .ok none }), unit := true } else (s, ["bad-op"])
    | none => (s, ["bad-op"])
  | ["head"] => if s.big then (s, [s!"head {s.f.head}", showSt s.f]) else (s, [s!"head {s.h.head}", showSt s.h])
  | ["clear", n] =>
    match n with
    | "0" => jApply s { run := fun jb => jb.clear false, unit := true }
    | "1" => jApply s { run := fun jb => jb.clear true, unit := true }
    | _ => (s, ["bad-op"])
  | _ => (s, ["bad-op"])

def jbufComponent : Component where
  σ := JState
  init := {}
  step := jStep

/-! #### jbufint -/

def showRead (o : ReadOut) : String :=
  let p := match o.pkt with | some p => s!"{p.seq}:{p.obj}" | none => "-"
  s!"n={o.n} err={o.err} pkt={p}"

/-- `readrun`: `n` reads of `size`-byte packets into `blen`-byte buffers; counts the reads that
delivered a packet and sums the bytes reported. -/
def iRun {I : QImpl} (frm : Nat) (step : Int) (t o size blen : Nat) :
    Nat → Nat → JB I → Nat × Nat → Except String (JB I × (Nat × Nat))
  | 0, _, jb, c => .ok (jb, c)
  | k + 1, i, jb, c =>
    let p : Pkt := { seq := runSeq frm step i, ts := t, obj := o + i }
    let (jb', out) := intRead jb p size blen false
    if out.err.startsWith "panic:" then .error (if out.err == "panic:loop" then "HANG" else "PANIC")
    else iRun frm step t o size blen k (i + 1) jb' (if out.pkt.isSome then c.1 + 1 else c.1, c.2 + out.n)

def iStep (s : JState) (ts : List String) : JState × List String :=
  if s.dead then (s, []) else
  match ts with
  | "read" :: rest =>
    let fs := fields rest
    match getNat fs "seq", getNat fs "ts", getNat fs "obj", getNat fs "n", getNat fs "blen", getNat fs "uerr" with
    | some sq, some t, some o, some n, some blen, some ue =>
      if sq < 65536 ∧ t < 4294967296 ∧ n ≤ blen ∧ blen ≤ 65536 ∧ ue ≤ 1 then
        let p : Pkt := { seq := sq, ts := t, obj := o }
        if s.big then
          let (f', o) := intRead s.f p n blen (ue == 1)
          if o.err.startsWith "panic:" then
            ({ s with dead := true }, [if o.err == "panic:loop" then "HANG" else "PANIC"])
          else ({ s with f := f' }, [showRead o, showSt f'])
        else
        let (h', oh) := intRead s.h p n blen (ue == 1)
        let (l', ol) := intRead s.l p n blen (ue == 1)
        if oh.err.startsWith "panic:" then
          ({ s with dead := true }, [if oh.err == "panic:loop" then "HANG" else "PANIC"])
        else ({ s with h := h', l := l' }, specDiff [showRead oh, showSt h'] [showRead ol, showSt l'])
      else (s, ["bad-op"])
    | _, _, _, _, _, _ => (s, ["bad-op"])
  | "readrun" :: rest =>
    let fs := fields rest
    match getNat fs "from", getNat fs "n", getInt fs "step", getNat fs "ts", getNat fs "obj", getNat fs "size", getNat fs "blen" with
    | some frm, some n, some step, some t, some o, some size, some blen =>
      if frm < 65536 ∧ n ≤ 200000 ∧ t < 4294967296 ∧ 16 ≤ size ∧ size ≤ blen ∧ blen ≤ 65536 ∧
          (step == -1 || step == 0 || step == 1) then
        if s.big || n ≥ bigRun then
          let s := s.enterBig
          match iRun frm step t o size blen n 0 s.f (0, 0) with
          | .ok (f', c) => ({ s with f := f' }, [s!"ok delivered={c.1} bytes={c.2}", showSt f'])
          | .error x => ({ s with dead := true }, [x])
        else
        match iRun frm step t o size blen n 0 s.h (0, 0), iRun frm step t o size blen n 0 s.l (0, 0) with
        | .ok (h', ch), .ok (l', cl) =>
          ({ s with h := h', l := l' },
            specDiff [s!"ok delivered={ch.1} bytes={ch.2}", showSt h'] [s!"ok delivered={cl.1} bytes={cl.2}", showSt l'])
        | .error x, _ => ({ s with dead := true }, [x])
        | _, .error x => ({ s with dead := true }, [x, "SPEC-DIFF"])
      else (s, ["bad-op"])
    | _, _, _, _, _, _, _ => (s, ["bad-op"])
  | ["unbind"] => jApply s { run := fun jb => jb.clear true, unit := true }
  | ["close"] => jApply s { run := fun jb => jb.clear true, unit := true }
  | _ => (s, ["bad-op"])

def jbufintComponent : Component where
  σ := JState
  init := {}
  step := iStep

def components : List (String × Component) :=
  [("pqueue", pqueueComponent), ("jbuf", jbufComponent), ("jbufint", jbufintComponent)]

end Interceptor.Driver.JitterBuffer

import Interceptor.Driver.Util
import Interceptor.Model.JitterBuffer
import Interceptor.Spec.JitterBuffer
/-!
Drivers for pkg/jitterbuffer.

`pqueue`  : `push seq= ts= obj= prio=` | `pop` | `popat P` | `popts T` | `find P` | `len` | `clear`
            → result line, then `q len=N chain=P:O,…` (reachable nodes in list order).
`jbuf`    : `new [min=N]` | `push seq= ts= obj=` | `pop` | `popseq S` | `popts T` | `peek 0|1` |
            `peekseq S` | `sethead H` | `head` | `clear 0|1`
            → result line (`… ev=<events>`), then `st head= state= ready= last= min= len=`.
`jbufint` : `read seq= ts= obj= n= blen= uerr=` | `unbind` | `close` → `n= err= pkt=`, then `st …`.
A panic of the model (`loop` = fuel exhausted) prints `HANG` / `PANIC` and the rest of the case
is skipped, exactly as the Go interpreter abandons the case.
The heap-level model and the list-level spec run side by side (`SPEC-DIFF` on disagreement).
-/
namespace Interceptor.Driver.JitterBuffer
open Interceptor Interceptor.Driver Interceptor.JitterBuffer

def showRet : Res (Option Pkt) → String
  | .ok (some p) => s!"pkt {p.seq}:{p.obj}"
  | .ok none => "nil"
  | .err e => s!"err {e}"
  | .panic "loop" => "HANG"
  | .panic _ => "PANIC"

def isPanicRet : Res (Option Pkt) → Bool
  | .panic _ => true
  | _ => false

def showUnit : Res (Option Pkt) → String
  | .ok _ => "ok"
  | r => showRet r

def evName : Ev → String
  | .start => "start" | .overflow => "overflow" | .playing => "playing" | .underflow => "underflow"

def showEvs (es : List Ev) : String :=
  if es.isEmpty then "ev=-" else "ev=" ++ ",".intercalate (es.map evName)

/-! #### pqueue -/

def showChain (q : PQ) : String :=
  match PQ.walk q.nodes (PQ.fuel q.nodes) q.head with
  | none => "loop"
  | some l =>
    if l.isEmpty then "-" else
    ",".intercalate (l.map fun i =>
      match q.nodes[i]? with
      | some n => match n.val with
        | some p => s!"{n.prio}:{p.obj}"
        | none => s!"{n.prio}:nil"
      | none => "?")

def showQ (q : PQ) : String := s!"q len={q.length} chain={showChain q}"

def showL (l : List Entry) : String :=
  s!"q len={l.length % 65536} chain=" ++
    (if l.isEmpty then "-" else ",".intercalate (l.map fun e => s!"{e.1}:{e.2.obj}"))

structure PQState where
  q : PQ := {}
  l : List Entry := []
  dead : Bool := false

def specDiff (a b : List String) : List String := if a == b then a else a ++ ["SPEC-DIFF"]

/-- apply a pop-like result on both sides. -/
def pqPop (s : PQState) (r : Res (Option Pkt × PQ)) (rl : Res (Option Pkt × List Entry)) :
    PQState × List String :=
  let (q', out) : PQ × Res (Option Pkt) := match r with
    | .ok (v, q') => (q', .ok v)
    | .err e => (s.q, .err e)
    | .panic x => (s.q, .panic x)
  let (l', outl) : List Entry × Res (Option Pkt) := match rl with
    | .ok (v, l') => (l', .ok v)
    | .err e => (s.l, .err e)
    | .panic x => (s.l, .panic x)
  if isPanicRet out then ({ s with dead := true }, [showRet out])
  else ({ q := q', l := l', dead := false }, specDiff [showRet out, showQ q'] [showRet outl, showL l'])

def pqStep (s : PQState) (ts : List String) : PQState × List String :=
  if s.dead then (s, []) else
  match ts with
  | "push" :: rest =>
    let fs := fields rest
    match getNat fs "seq", getNat fs "ts", getNat fs "obj", getNat fs "prio" with
    | some sq, some t, some o, some pr =>
      if sq < 65536 ∧ pr < 65536 ∧ t < 4294967296 then
        let p : Pkt := { seq := sq, ts := t, obj := o }
        match PQ.push s.q p pr with
        | .ok q' =>
          let l' := insertL s.l (pr, p)
          ({ q := q', l := l', dead := false }, specDiff ["ok", showQ q'] ["ok", showL l'])
        | .err e => (s, [s!"err {e}"])
        | .panic x => ({ s with dead := true }, [showRet (.panic x)])
      else (s, ["bad-op"])
    | _, _, _, _ => (s, ["bad-op"])
  | ["pop"] => pqPop s (PQ.pop s.q) (popL s.l)
  | ["popat", n] =>
    match n.toNat? with
    | some sq => if sq < 65536 then pqPop s (PQ.popAt s.q sq) (listImpl.popAt s.l sq) else (s, ["bad-op"])
    | none => (s, ["bad-op"])
  | ["popts", n] =>
    match n.toNat? with
    | some t => if t < 4294967296 then pqPop s (PQ.popAtTs s.q t) (listImpl.popAtTs s.l t) else (s, ["bad-op"])
    | none => (s, ["bad-op"])
  | ["find", n] =>
    match n.toNat? with
    | some sq =>
      if sq < 65536 then
        let r := PQ.find s.q sq
        if isPanicRet r then ({ s with dead := true }, [showRet r])
        else (s, specDiff [showRet r, showQ s.q] [showRet (findL s.l sq), showL s.l])
      else (s, ["bad-op"])
    | none => (s, ["bad-op"])
  | ["len"] => (s, [s!"len {s.q.length}", showQ s.q])
  | ["clear"] =>
    match PQ.clear s.q with
    | .ok q' => ({ q := q', l := [], dead := false }, specDiff ["ok", showQ q'] ["ok", showL []])
    | .err e => (s, [s!"err {e}"])
    | .panic x => ({ s with dead := true }, [showRet (.panic x)])
  | _ => (s, ["bad-op"])

def pqueueComponent : Component where
  σ := PQState
  init := {}
  step := pqStep

/-! #### jbuf -/

def showSt {I : QImpl} (jb : JB I) : String :=
  let st := match jb.state with | .buffering => "B" | .emitting => "E"
  s!"st head={jb.head} state={st} ready={if jb.ready then 1 else 0} last={jb.lastSeq} min={jb.minStart} len={I.length jb.q}"

structure JState where
  h : JB heapImpl := JB.new heapImpl none
  l : JB listImpl := JB.new listImpl none
  dead : Bool := false

/-- an operation that is polymorphic in the queue implementation. -/
structure JOp where
  run : {I : QImpl} → JB I → JB I × Out
  unit : Bool   -- result printed as `ok`

def jApply (s : JState) (op : JOp) : JState × List String :=
  let (h', oh) := op.run s.h
  let (l', ol) := op.run s.l
  let sh := fun (o : Out) => (if op.unit then showUnit o.ret else showRet o.ret) ++ " " ++ showEvs o.evs
  if isPanicRet oh.ret then ({ s with dead := true }, [showRet oh.ret])
  else ({ h := h', l := l', dead := false }, specDiff [sh oh, showSt h'] [sh ol, showSt l'])

def jStep (s : JState) (ts : List String) : JState × List String :=
  match ts with
  | "new" :: rest =>
    let m := getNat (fields rest) "min"
    match rest, m with
    | [], _ => ({ h := JB.new heapImpl none, l := JB.new listImpl none }, ["ok"])
    | [_], some k =>
      if k < 65536 then ({ h := JB.new heapImpl (some k), l := JB.new listImpl (some k) }, ["ok"])
      else (s, ["bad-op"])
    | _, _ => (s, ["bad-op"])
  | _ =>
  if s.dead then (s, []) else
  match ts with
  | "push" :: rest =>
    let fs := fields rest
    match getNat fs "seq", getNat fs "ts", getNat fs "obj" with
    | some sq, some t, some o =>
      if sq < 65536 ∧ t < 4294967296 then
        let p : Pkt := { seq := sq, ts := t, obj := o }
        jApply s { run := fun jb => jb.push p, unit := true }
      else (s, ["bad-op"])
    | _, _, _ => (s, ["bad-op"])
  | ["pop"] => jApply s { run := fun jb => jb.pop, unit := false }
  | ["popseq", n] =>
    match n.toNat? with
    | some sq => if sq < 65536 then jApply s { run := fun jb => jb.popAtSequence sq, unit := false } else (s, ["bad-op"])
    | none => (s, ["bad-op"])
  | ["popts", n] =>
    match n.toNat? with
    | some t => if t < 4294967296 then jApply s { run := fun jb => jb.popAtTimestamp t, unit := false } else (s, ["bad-op"])
    | none => (s, ["bad-op"])
  | ["peek", n] =>
    match n with
    | "0" => jApply s { run := fun jb => (jb, jb.peek false), unit := false }
    | "1" => jApply s { run := fun jb => (jb, jb.peek true), unit := false }
    | _ => (s, ["bad-op"])
  | ["peekseq", n] =>
    match n.toNat? with
    | some sq => if sq < 65536 then jApply s { run := fun jb => (jb, jb.peekAtSequence sq), unit := false } else (s, ["bad-op"])
    | none => (s, ["bad-op"])
  | ["sethead", n] =>
    match n.toNat? with
    | some h => if h < 65536 then jApply s { run := fun jb => (jb.setPlayoutHead h, { ret := .ok none }), unit := true } else (s, ["bad-op"])
    | none => (s, ["bad-op"])
  | ["head"] => (s, [s!"head {s.h.head}", showSt s.h])
  | ["clear", n] =>
    match n with
    | "0" => jApply s { run := fun jb => jb.clear false, unit := true }
    | "1" => jApply s { run := fun jb => jb.clear true, unit := true }
    | _ => (s, ["bad-op"])
  | _ => (s, ["bad-op"])

def jbufComponent : Component where
  σ := JState
  init := {}
  step := jStep

/-! #### jbufint -/

def showRead (o : ReadOut) : String :=
  let p := match o.pkt with | some p => s!"{p.seq}:{p.obj}" | none => "-"
  s!"n={o.n} err={o.err} pkt={p}"

def iStep (s : JState) (ts : List String) : JState × List String :=
  if s.dead then (s, []) else
  match ts with
  | "read" :: rest =>
    let fs := fields rest
    match getNat fs "seq", getNat fs "ts", getNat fs "obj", getNat fs "n", getNat fs "blen", getNat fs "uerr" with
    | some sq, some t, some o, some n, some blen, some ue =>
      if sq < 65536 ∧ t < 4294967296 ∧ n ≤ blen ∧ blen ≤ 65536 ∧ ue ≤ 1 then
        let p : Pkt := { seq := sq, ts := t, obj := o }
        let (h', oh) := intRead s.h p n blen (ue == 1)
        let (l', ol) := intRead s.l p n blen (ue == 1)
        if oh.err.startsWith "panic:" then
          ({ s with dead := true }, [if oh.err == "panic:loop" then "HANG" else "PANIC"])
        else ({ h := h', l := l', dead := false }, specDiff [showRead oh, showSt h'] [showRead ol, showSt l'])
      else (s, ["bad-op"])
    | _, _, _, _, _, _ => (s, ["bad-op"])
  | ["unbind"] => jApply s { run := fun jb => jb.clear true, unit := true }
  | ["close"] => jApply s { run := fun jb => jb.clear true, unit := true }
  | _ => (s, ["bad-op"])

def jbufintComponent : Component where
  σ := JState
  init := {}
  step := iStep

def components : List (String × Component) :=
  [("pqueue", pqueueComponent), ("jbuf", jbufComponent), ("jbufint", jbufintComponent)]

end Interceptor.Driver.JitterBuffer

import Interceptor.Driver.Util
import Interceptor.Model.FlexFec
import Interceptor.Spec.FlexFecDecode
namespace Interceptor.Driver.FlexFec
open Interceptor.Driver Interceptor.FlexFec

/-- comma separated hex packets; `-` is the empty batch. -/
def parsePkts (s : String) : Option (List Bytes) :=
  if s == "-" || s == "" then some [] else (s.splitOn ",").mapM hexBytes

def showFec (p : FecPkt) : String :=
  s!"fec ssrc={p.ssrc} pt={p.pt} seq={p.seq} ts={p.ts} m=0 x=0 p=0 cc=0 payload={showHex p.payload}"

/-- The spec applied to the FEC packets of one batch: for every FEC packet its header must name
exactly the covered packets, and for each covered packet `j` the independent decoder, given the
batch without `j`, must return packet `j` byte for byte; every media packet must be covered
when at least one FEC packet was requested.  Any failure is printed (the implementation never
prints such a line, so a failure is a mismatch). -/
def specCheck (c : Coverage) (f baseSn : Nat) (bad : List Nat := []) : List String := Id.run do
  let mut out : Array String := #[]
  let n := c.numMedia
  for i in List.range f do
    -- a repair packet that covers a packet pion/rtp could not marshal is not emitted: nothing to decode
    match (if c.coversBad bad i then none else fecPayload c i baseSn) with
    | none => pure ()
    | some pl =>
      let cover := c.coveredBy i
      match FlexFecSpec.parseHeader pl with
      | none => out := out.push s!"spec-FAIL fec={i} header"
      | some h =>
        if h.positions != cover then
          out := out.push s!"spec-FAIL fec={i} mask={showNats h.positions} covered={showNats cover}"
        if h.snBase != baseSn then
          out := out.push s!"spec-FAIL fec={i} snbase={h.snBase}"
      for j in cover do
        let received := (c.media.take j) ++ (c.media.drop (j + 1))
        if FlexFecSpec.recover pl received != some (c.media.getD j []) then
          out := out.push s!"spec-FAIL fec={i} lost={j}"
  if f ≥ 1 then
    for j in List.range n do
      if !(List.range f).any (fun i => (c.coveredBy i).contains j) then
        out := out.push s!"spec-FAIL uncovered={j}"
  return out.toList

/-- `bad=<pos>:<kind>,…`: the positions of the batch whose packet VALUE pion/rtp cannot marshal (the kind says how the
harness damages the well-formed packet given in `pkts`; the model only needs the position). -/
def parseBad (s : Option String) : Option (List Nat) :=
  match s with
  | none => some []
  | some "-" => some []
  | some t => (t.splitOn ",").mapM fun e => ((e.splitOn ":").headD "").toNat?

def setEnc (k : Nat) (e : Encoder) : List (Nat × Encoder) → List (Nat × Encoder)
  | [] => [(k, e)]
  | (k', e') :: r => if k' = k then (k, e) :: r else (k', e') :: setEnc k e r

/-- flexenc: `new pt= ssrc= [enc=<k>]` | `batch fec= pkts= [enc=<k>] [bad=<pos>:<kind>,…]`.
Several encoders (`enc=`, default 0) live side by side in one case: they share nothing but the package-global pool
of scratch buffers, so each one's repair packets are what they would be alone. -/
def encComponent : Component where
  σ := List (Nat × Encoder)
  init := []
  step := fun s ts =>
    match ts with
    | "new" :: rest =>
      let fs := fields rest
      match getNat fs "pt", getNat fs "ssrc", (getNat fs "enc").getD 0 with
      | some pt, some ssrc, k =>
        if pt ≤ 255 ∧ ssrc ≤ 4294967295 then (setEnc k (Encoder.new pt ssrc) s, []) else (s, ["bad-op"])
      | _, _, _ => (s, ["bad-op"])
    | "batch" :: rest =>
      let fs := fields rest
      let k := (getNat fs "enc").getD 0
      match s.lookup k, getNat fs "fec", (lookup fs "pkts").bind parsePkts, parseBad (lookup fs "bad") with
      | some e, some f, some media, some bad =>
        if f > 110 then (s, ["bad-op"]) else
        if bad.any (· ≥ media.length) then (s, ["bad-op"]) else
        let (e', r) := e.encodeFecBad media f bad
        match r with
        | none => (setEnc k e' s, ["nil"])
        | some fecs =>
          let chk := match e'.cov with
            | some c => specCheck c f (seqOf (media.getD 0 [])) bad
            | none => []
          (setEnc k e' s, s!"fecs n={fecs.length}" :: fecs.map showFec ++ chk)
      | _, _, _, _ => (s, ["bad-op"])
    | _ => (s, ["bad-op"])

/-- length of the RTP payload proper (without header, CSRC, extension and padding): what the
bottom writer of the harness returns. -/
def payloadLen (p : Bytes) : Nat :=
  let b0 := p.getD 0 0
  let cc := b0 % 16
  let h := 12 + 4 * cc
  let h := if b0 / 16 % 2 = 1 then h + 4 + 4 * (p.getD (h + 2) 0 * 256 + p.getD (h + 3) 0) else h
  let pad := if b0 / 32 % 2 = 1 then p.getD (p.length - 1) 0 else 0
  p.length - h - pad

def showOut (ssrc pt seq : Nat) (b : Bytes) : String :=
  s!"out ssrc={ssrc} pt={pt} seq={seq} pkt={showHex b}"

/-- flexint: `new n= f= ssrc= fpt= fssrc=` | `w pkt= [reuse=1] [fail=i,j,…] [wire=1]`.
`wire=1`: an interceptor further out in the chain may rewrite the header before the FEC interceptor sees the packet
(the TWCC header extension), so the bytes are not the model's to predict: the calls of the bottom writer are printed
without them (stream, payload type, sequence number, outcome) and the harness decodes every repair packet against
the packets as they reached the writer. -/
def intComponent : Component where
  σ := Option (Icpt × List Nat)      -- the stream, and the positions of the batch being collected that cannot be marshalled
  init := none
  step := fun s ts =>
    match ts with
    | "new" :: rest =>
      let fs := fields rest
      match getNat fs "n", getNat fs "f", getNat fs "ssrc", getNat fs "fpt", getNat fs "fssrc" with
      | some n, some f, some ssrc, some fpt, some fssrc =>
        if n < 1 ∨ n > 200 ∨ f > 110 ∨ fpt > 255 ∨ ssrc > 4294967295 ∨ fssrc > 4294967295 then (s, ["bad-op"])
        else (some (Icpt.new n f ssrc fpt fssrc, []), [])
      | _, _, _, _, _ => (s, ["bad-op"])
    | "w" :: rest =>
      let fs := fields rest
      match s, (lookup fs "pkt").bind hexBytes, natList ((lookup fs "fail").getD "-") with
      | some (st, bad0), some p, some fail =>
        -- `bad=<kind>`: the packet VALUE written is a damaged form of `pkt` that pion/rtp cannot marshal
        let isBad := (lookup fs "bad").isSome
        let mine := st.active && ssrcOf p == st.mediaSsrc
        let bad := if isBad && mine then bad0 ++ [st.buffer.length] else bad0
        let (st', media, fecs) := st.writeBad p bad
        let bad' := if st'.buffer.isEmpty then [] else bad
        let showC := fun (ssrc pt seq : Nat) (b : Bytes) =>
          if lookup fs "wire" == some "1" then s!"out ssrc={ssrc} pt={pt} seq={seq}" else showOut ssrc pt seq b
        let showM := fun (m : Bytes) =>
          match lookup fs "bad" with
          | some k => s!"out ssrc={ssrcOf m} pt={m.getD 1 0 % 128} seq={seqOf m} bad={k}"
          | none => showC (ssrcOf m) (m.getD 1 0 % 128) (seqOf m) m
        let calls := media.map showM
          ++ fecs.map (fun q => showC q.ssrc q.pt q.seq q.marshal)
        let (oks, n, errs) := writeOutcome calls.length fail (payloadLen p)
        let chk :=
          if fecs.isEmpty then [] else
          match st'.enc.cov with
          | some c => specCheck c st.numFec (seqOf (c.media.getD 0 [])) bad
          | none => []
        (some (st', bad'),
          (calls.zip oks).map (fun (l, ok) => l ++ (if ok then " res=ok" else " res=fail"))
          ++ chk
          ++ [s!"ret n={n} err={errs}"])
      | _, _, _ => (s, ["bad-op"])
    | _ => (s, ["bad-op"])

def components : List (String × Component) :=
  [("flexenc", encComponent), ("flexint", intComponent)]

end Interceptor.Driver.FlexFec

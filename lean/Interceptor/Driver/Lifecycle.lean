import Interceptor.Driver.Util
import Interceptor.Model.Lifecycle
namespace Interceptor.Driver.Lifecycle
open Interceptor.Driver Interceptor.Lifecycle

/-- parameter vectors of the sixteen harness kinds (cross-checked against the regenerated
LifecycleFacts in Facts/C11.lean). -/
def paramsOf : String → Option Params
  | "rr" | "chainrr" => some { hasLoop := true, emits := .remoteBound }
  | "sr" => some { hasLoop := true, emits := .localBound }
  | "pli" | "chainpli" => some { hasLoop := true, emits := .remoteBound, immediateOnBind := true }
  | "pli0" => some { hasLoop := true, interval := 0, emits := .remoteBound, immediateOnBind := true }
  | "nackgen" => some { hasLoop := true, emits := .remoteGap }
  | "twcc" => some { hasLoop := true, readHandoff := true }
  | "rfc8888" => some { hasLoop := true, readHandoff := true }
  | "nackresp" => some { hasLoop := false, resendsOnNack := true }
  | "twcchdr" | "rtpfb" | "stats" | "dumps" | "dumpr" | "flexfec" | "jitter"
  | "pacing" | "ccgcc" => some { hasLoop := false }
  | _ => none

structure DSt where
  st : Option St := none
  closedByOp : Bool := false

def showOutcome : Outcome → String
  | .ret => "ret" | .blocked => "BLOCKED" | .unbound => "unbound"

def exact (s : St) : Bool := s.p.emits != .none

def flushLine (tag : String) (s : St) : St × String :=
  let (s', e) := flush s
  (s', tag ++ " " ++ (if exact s then showNats e else "-"))

def stepL (d : DSt) (ts : List String) : DSt × List String :=
  let fs := fields ts
  match ts, d.st with
  | "new" :: _, _ =>
    match (lookup fs "kind").bind paramsOf with
    | some p => ({ st := some { p := p } }, [])
    | none => (d, ["bad-op"])
  | _, none => (d, ["bad-op"])
  | [op], some s =>
    match op with
    | "bindw" => let (s', o) := bindW s; ({ d with st := some (note s' o) }, [showOutcome o])
    | "bindr" => ({ d with st := some { s with hasRtcpReader := true } }, ["ret"])
    | "rtcp" => let (s', o) := rtcpRead s; ({ d with st := some s' }, [showOutcome o])
    | "close" => let (s', o) := close s; ({ st := some s', closedByOp := true }, [showOutcome o])
    | _ => (d, ["bad-op"])
  | op :: _, some s =>
    let run (f : St → Nat → St × Outcome) : DSt × List String :=
      match getNat fs "ssrc" with
      | some x => let (s', o) := f s x; ({ d with st := some (note s' o) }, [showOutcome o])
      | none => (d, ["bad-op"])
    match op with
    | "bl" => run bindLocal
    | "br" => run bindRemote
    | "ul" => run unbindLocal
    | "ur" => run unbindRemote
    | "w" => run write
    | "r" => run read
    | "busybind" =>
      -- two BindRemoteStream calls while the loop is held inside a slow RTCP writer, then the writer returns:
      -- nothing may be lost, so the emissions are those of the two binds
      match getNat fs "a", getNat fs "b" with
      | some a, some b =>
        let (s1, o1) := bindRemote s a
        let s1 := note s1 o1
        let (s2, o2) := bindRemote s1 b
        let s2 := note s2 o2
        let (s3, l) := flushLine "busy" s2
        ({ d with st := some s3 }, [showOutcome o1, showOutcome o2, l])
      | _, _ => (d, ["bad-op"])
    | "gateclose2" =>
      match getNat fs "ms" with
      | some ms =>
        -- the tick leaves the loop inside the slow RTCP writer: both Close calls wait for it
        let stuck := ticksIn s ms > 0 && !(tickSet s).isEmpty
        let s1 := advance s ms
        let (s2, _) := close s1
        ({ st := some s2, closedByOp := true }, [s!"stuck={stuck} early1=false early2=false"])
      | none => (d, ["bad-op"])
    | "nackgateunbind" =>
      let (s1, o1) := rtcpRead s
      if o1 == .unbound then (d, ["unbound"]) else
      let x := (getNat fs "ssrc").getD 0
      -- the responder's retransmission in flight is the only packet still written after Unbind
      let n := if s.p.resendsOnNack && s.loc.contains x && s.written.contains x && !s.closed then 1 else 0
      let (s2, _) := unbindLocal s1 x
      ({ d with st := some s2 }, [s!"inflight {n} after-unbind {n}"])
    | "nackgateclose" =>
      -- a retransmission is inside a gated downstream Write while Close runs: Close waits for it
      let (s1, o1) := rtcpRead s
      if o1 == .unbound then (d, ["unbound"]) else
      let x := (getNat fs "ssrc").getD 0
      let inflight := if s.p.resendsOnNack && s.loc.contains x && s.written.contains x && !s.closed then 1 else 0
      let (s2, _) := close s1
      ({ st := some s2, closedByOp := true }, [s!"inflight {inflight} close-waited true"])
    | "nackclose" =>
      -- an RTCP read immediately followed by Close in one goroutine
      let (s1, o1) := rtcpRead s
      if o1 == .unbound then (d, ["unbound"]) else
      let (s2, o2) := close s1
      ({ st := some s2, closedByOp := true }, [showOutcome o2])
    | "adv" =>
      match getNat fs "ms" with
      | some ms =>
        let (s1, l1) := flushLine "pre" s
        let (s2, l2) := flushLine "emit" (advance s1 ms)
        ({ d with st := some s2 }, [l1, l2])
      | none => (d, ["bad-op"])
    | _ => (d, ["bad-op"])
  | _, _ => (d, ["bad-op"])

/-- end of a case: what the harness prints after the last op. -/
def finish (d : DSt) : List String :=
  match d.st with
  | none => ["tail -", "afterclose -", "late-rtp 0", "blocked 0", "end clean"]
  | some s =>
    let (s1, l1) := flushLine "tail" s
    let (s2, closeLine) := if d.closedByOp then (s1, []) else ((close s1).1, ["ret"])
    let (s3, l3) := flushLine "afterclose" (advance s2 30)
    [l1] ++ closeLine ++ [l3, "late-rtp 0", s!"blocked {s3.blocked}",
      if s3.waiting.isEmpty then "end clean" else "end stuck-goroutines"]

/-- the lifecycle driver needs an end-of-case hook: ops end with an explicit `end` line. -/
def lifecycleComponent : Component where
  σ := DSt
  init := {}
  step := fun d ts =>
    match ts with
    | ["end"] => ({}, finish d)
    | _ => stepL d ts

def components : List (String × Component) := [("lifecycle", lifecycleComponent)]

end Interceptor.Driver.Lifecycle

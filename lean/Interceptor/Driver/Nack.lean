import Interceptor.Driver.Util
import Interceptor.Model.ReceiveLog
import Interceptor.Spec.Nack
import Interceptor.Model.StreamFilter
/-
Drivers for C03.
  receivelog / receivelog-spec : ops `new size=S` | `add seq=Q` | `missing skip=K`
  nackgen / nackgen-spec       : ops `cfg size=S skip=K max=M` | `bind ssrc=A nack=0|1` | `bind ssrc=A fbl=<code>` | `unbind ssrc=A` |
                                 `rtp ssrc=A seq=Q` | `rtperr ssrc=A` | `rtpbad ssrc=A` | `tick` | `ticks n=N` | `failnext n=K`
`bind … fbl=<code>`: the stream's RTCPFeedback list by its code (Model/StreamFilter.lean); it is rewritten to
`nack=<streamSupportNack of the list>` before model and specification see it.
`failnext n=K` makes the harness' RTCP writer fail K times; a NACK handed to a failing writer has still been
written by the interceptor, so the op changes nothing in model or specification.
The `-spec` components run the abstract specification (Spec/Nack.lean) on the same op lines.
-/
namespace Interceptor.Driver.Nack
open Interceptor.Driver Interceptor

/-- strict `k=v` parser: decimal digits only, at most 9 of them, no duplicate keys. -/
def parseKV (ts : List String) : Option (List (String × Nat)) :=
  ts.foldlM (init := []) fun acc t =>
    match t.splitOn "=" with
    | [k, v] =>
      if k.isEmpty || v.isEmpty || v.length > 9 || !(v.all Char.isDigit) || acc.any (·.1 == k) then none
      else some (acc ++ [(k, v.foldl (fun n c => n * 10 + (c.toNat - '0'.toNat)) 0)])
    | _ => none

/-- exactly the given keys, every value ≤ max; returns the values in key order. -/
def want (m : List (String × Nat)) (max : Nat) (keys : List String) : Option (List Nat) :=
  if m.length != keys.length then none else
  keys.mapM fun k => match m.find? (·.1 == k) with
    | some (_, v) => if v ≤ max then some v else none
    | none => none

/-- a stream-level implementation of the log interface (model or spec). -/
structure LogImpl where
  τ : Type
  fresh : Nat → τ
  add : τ → Nat → τ
  missing : τ → Nat → List Nat

def modelImpl : LogImpl :=
  { τ := ReceiveLog.Log, fresh := ReceiveLog.new, add := ReceiveLog.add, missing := ReceiveLog.missing }

def specImpl : LogImpl :=
  { τ := Nat × Option NackSpec.Stream, fresh := fun size => (size, none),
    add := fun s q => (s.1, NackSpec.arrive s.1 s.2 q),
    missing := fun s skip => NackSpec.missing s.1 s.2 skip }

def receivelogComponent (I : LogImpl) : Component where
  σ := Option I.τ
  init := none
  step := fun s ts =>
    match ts with
    | [] => (s, ["bad-op"])
    | name :: rest =>
      match parseKV rest with
      | none => (s, ["bad-op"])
      | some m =>
        match name, s with
        | "new", _ =>
          match want m 65535 ["size"] with
          | some [size] => if ReceiveLog.validSize size then (some (I.fresh size), ["ok"]) else (s, ["err:size"])
          | _ => (s, ["bad-op"])
        | "add", some l =>
          match want m 65535 ["seq"] with
          | some [q] => (some (I.add l q), [])
          | _ => (s, ["bad-op"])
        | "missing", some l =>
          match want m 65535 ["skip"] with
          | some [k] => (s, [showNats (I.missing l k)])
          | _ => (s, ["bad-op"])
        | _, _ => (s, ["bad-op"])

/-! generator level, generic in the log implementation; the model instance is checked against
`ReceiveLog.Gen` below (`nackgen` runs `ReceiveLog.bind/unbind/rtp/tick` themselves). -/

structure GState where
  gen : Option ReceiveLog.Gen := none
  passthrough : List Nat := []     -- SSRCs whose latest bind did not pass the NACK filter

def sortNats (xs : List Nat) : List Nat := xs.mergeSort (· ≤ ·)

def showNacks (pfx : String) (out : List (Nat × List Nat)) : List String :=
  (out.mergeSort (fun a b => a.1 ≤ b.1)).map fun p => s!"{pfx}nack ssrc={p.1} {showNats (sortNats p.2)}"

/-- `bind ssrc=A fbl=<code>` ↦ `bind ssrc=A nack=<streamSupportNack of the list>`; an ill-formed code stays as it
is (and is then refused as `bad-op`). -/
def normBind (ts : List String) : List String :=
  match ts with
  | "bind" :: rest =>
    match parseKV rest with
    | some m =>
      match m.find? (·.1 == "fbl") with
      | some (_, code) =>
        match Interceptor.StreamFilter.boundByCode code with
        | some b => "bind" :: (rest.filter fun t => !t.startsWith "fbl=") ++ [if b then "nack=1" else "nack=0"]
        | none => ts
      | none => ts
    | none => ts
  | _ => ts

def nackgenStep (s : GState) (ts : List String) : GState × List String :=
  match normBind ts with
  | [] => (s, ["bad-op"])
  | name :: rest =>
    match parseKV rest with
    | none => (s, ["bad-op"])
    | some m =>
      match name, s.gen with
      | "cfg", none =>
        match want m 65535 ["size", "skip", "max"] with
        | some [size, skip, max] =>
          if ReceiveLog.validSize size then
            ({ s with gen := some { cfg := { size, skip, max }, streams := [] } }, ["ok"])
          else (s, ["err:size"])
        | _ => (s, ["bad-op"])
      | "bind", some g =>
        match want m 4294967295 ["ssrc", "nack"] with
        | some [a, 1] => ({ gen := some (ReceiveLog.bind g a), passthrough := s.passthrough.filter (· != a) }, [])
        | some [a, 0] => ({ s with passthrough := a :: s.passthrough.filter (· != a) }, [])
        | _ => (s, ["bad-op"])
      | "unbind", some g =>
        match want m 4294967295 ["ssrc"] with
        | some [a] => ({ s with gen := some (ReceiveLog.unbind g a) }, [])
        | _ => (s, ["bad-op"])
      | "rtp", some g =>
        match want m 4294967295 ["ssrc", "seq"] with
        | some [a, q] =>
          if q > 65535 then (s, ["bad-op"])
          else if s.passthrough.contains a then (s, [])
          else ({ s with gen := some (ReceiveLog.rtp g a q) }, [])
        | _ => (s, ["bad-op"])
      | "rtperr", some _ | "rtpbad", some _ =>
        match want m 4294967295 ["ssrc"] with
        | some [_] => (s, [])                    -- a failed read / unparsable header is not recorded
        | _ => (s, ["bad-op"])
      | "failnext", some _ =>
        match want m 1000000 ["n"] with
        | some [n] => if n = 0 then (s, ["bad-op"]) else (s, [])   -- the writer's result is not an input of the tick
        | _ => (s, ["bad-op"])
      | "tick", some g =>
        if !m.isEmpty then (s, ["bad-op"]) else
        let (g', out) := ReceiveLog.tick g
        ({ s with gen := some g' }, showNacks "" out)
      | "ticks", some g =>
        match want m 1000000 ["n"] with
        | some [n] =>
          if n = 0 then (s, ["bad-op"]) else Id.run do
            let mut g := g
            let mut lines : Array String := #[]
            for i in [0:n] do
              let (g', out) := ReceiveLog.tick g
              g := g'
              for l in showNacks s!"at={i + 1} " out do lines := lines.push l
            return ({ s with gen := some g }, lines.toList)
        | _ => (s, ["bad-op"])
      | _, _ => (s, ["bad-op"])

def nackgenComponent : Component where
  σ := GState
  init := {}
  step := nackgenStep

/-! the specification at generator level: per SSRC an independent `NackSpec.GStream`. -/

structure SState where
  cfg : Option ReceiveLog.Cfg := none
  streams : List (Nat × NackSpec.GStream) := []
  passthrough : List Nat := []

def specTick (cfg : ReceiveLog.Cfg) (ss : List (Nat × NackSpec.GStream)) :
    List (Nat × NackSpec.GStream) × List (Nat × List Nat) :=
  let rs := ss.map fun p => (p.1, NackSpec.tickStream cfg p.2)
  (rs.map fun p => (p.1, p.2.1), rs.filterMap fun p => p.2.2.map fun l => (p.1, l))

def nackgenSpecStep (s : SState) (ts : List String) : SState × List String :=
  match normBind ts with
  | [] => (s, ["bad-op"])
  | name :: rest =>
    match parseKV rest with
    | none => (s, ["bad-op"])
    | some m =>
      match name, s.cfg with
      | "cfg", none =>
        match want m 65535 ["size", "skip", "max"] with
        | some [size, skip, max] =>
          if ReceiveLog.validSize size then ({ s with cfg := some { size, skip, max } }, ["ok"])
          else (s, ["err:size"])
        | _ => (s, ["bad-op"])
      | "bind", some _ =>
        match want m 4294967295 ["ssrc", "nack"] with
        | some [a, 1] =>
          let c : ReceiveLog.Counts := match s.streams.find? (·.1 == a) with
            | some p => p.2.counts
            | none => ∅
          ({ s with streams := (a, { s := none, counts := c }) :: s.streams.filter (·.1 != a),
                    passthrough := s.passthrough.filter (· != a) }, [])
        | some [a, 0] => ({ s with passthrough := a :: s.passthrough.filter (· != a) }, [])
        | _ => (s, ["bad-op"])
      | "unbind", some _ =>
        match want m 4294967295 ["ssrc"] with
        | some [a] => ({ s with streams := s.streams.filter (·.1 != a) }, [])
        | _ => (s, ["bad-op"])
      | "rtp", some cfg =>
        match want m 4294967295 ["ssrc", "seq"] with
        | some [a, q] =>
          if q > 65535 then (s, ["bad-op"])
          else if s.passthrough.contains a then (s, [])
          else ({ s with streams := s.streams.map fun p =>
                    if p.1 == a then (p.1, { p.2 with s := NackSpec.arrive cfg.size p.2.s q }) else p }, [])
        | _ => (s, ["bad-op"])
      | "rtperr", some _ | "rtpbad", some _ =>
        match want m 4294967295 ["ssrc"] with
        | some [_] => (s, [])
        | _ => (s, ["bad-op"])
      | "failnext", some _ =>
        match want m 1000000 ["n"] with
        | some [n] => if n = 0 then (s, ["bad-op"]) else (s, [])
        | _ => (s, ["bad-op"])
      | "tick", some cfg =>
        if !m.isEmpty then (s, ["bad-op"]) else
        let (ss, out) := specTick cfg s.streams
        ({ s with streams := ss }, showNacks "" out)
      | "ticks", some cfg =>
        match want m 1000000 ["n"] with
        | some [n] =>
          if n = 0 then (s, ["bad-op"]) else Id.run do
            let mut ss := s.streams
            let mut lines : Array String := #[]
            for i in [0:n] do
              let (ss', out) := specTick cfg ss
              ss := ss'
              for l in showNacks s!"at={i + 1} " out do lines := lines.push l
            return ({ s with streams := ss }, lines.toList)
        | _ => (s, ["bad-op"])
      | _, _ => (s, ["bad-op"])

def nackgenSpecComponent : Component where
  σ := SState
  init := {}
  step := nackgenSpecStep

def components : List (String × Component) :=
  [("receivelog", receivelogComponent modelImpl), ("receivelog-spec", receivelogComponent specImpl),
   ("nackgen", nackgenComponent), ("nackgen-spec", nackgenSpecComponent)]

end Interceptor.Driver.Nack

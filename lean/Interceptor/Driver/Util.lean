/- Line-protocol helpers shared by all component drivers (core-only). -/
namespace Interceptor.Driver

def tokens (s : String) : List String :=
  (s.trimAscii.toString.splitOn " ").filter (· ≠ "")

/-- `k=v` fields of a token list. -/
def fields (ts : List String) : List (String × String) :=
  ts.filterMap fun t =>
    match t.splitOn "=" with
    | [k, v] => some (k, v)
    | _ => none

def lookup (fs : List (String × String)) (k : String) : Option String :=
  (fs.find? (·.1 == k)).map (·.2)

def getNat (fs : List (String × String)) (k : String) : Option Nat :=
  (lookup fs k).bind String.toNat?

def getInt (fs : List (String × String)) (k : String) : Option Int :=
  (lookup fs k).bind String.toInt?

/-- comma separated naturals; `-` or empty string is the empty list. -/
def natList (s : String) : Option (List Nat) :=
  if s == "-" || s == "" then some [] else (s.splitOn ",").mapM String.toNat?

def intList (s : String) : Option (List Int) :=
  if s == "-" || s == "" then some [] else (s.splitOn ",").mapM String.toInt?

def showNats (xs : List Nat) : String :=
  if xs.isEmpty then "-" else ",".intercalate (xs.map toString)

def showInts (xs : List Int) : String :=
  if xs.isEmpty then "-" else ",".intercalate (xs.map toString)

def hexDigit (c : Char) : Option Nat :=
  if '0' ≤ c ∧ c ≤ '9' then some (c.toNat - '0'.toNat)
  else if 'a' ≤ c ∧ c ≤ 'f' then some (c.toNat - 'a'.toNat + 10)
  else none

/-- lower-case hex string to bytes; `-` is empty. -/
def hexBytes (s : String) : Option (List Nat) :=
  if s == "-" then some [] else
  let rec go : List Char → Option (List Nat)
    | [] => some []
    | [_] => none
    | a :: b :: rest => do
      let x ← hexDigit a
      let y ← hexDigit b
      let r ← go rest
      pure ((x * 16 + y) :: r)
  go s.toList

def hexOf (n : Nat) : String :=
  let d (k : Nat) : Char := if k < 10 then Char.ofNat (k + 48) else Char.ofNat (k + 87)
  String.ofList [d (n / 16 % 16), d (n % 16)]

def showHex (bs : List Nat) : String :=
  if bs.isEmpty then "-" else String.join (bs.map hexOf)

/-- A component driver: a state, a step function on one op line returning output lines. -/
structure Component where
  σ : Type
  init : σ
  step : σ → List String → σ × List String

/-- run a component over all lines; `case …` lines are echoed and reset the state. -/
def runLines (c : Component) (lines : List String) : List String := Id.run do
  let mut st := c.init
  let mut st2 := c.init
  let mut out : Array String := #[]
  for l in lines do
    let ts := tokens l
    match ts with
    | [] => pure ()
    | "case" :: _ =>
      st := c.init
      st2 := c.init
      out := out.push l.trimAscii.toString
    | "twin" :: rest =>
      -- `twin <op>`: the op is executed by a SECOND instance built from the same factory (a second peer
      -- connection).  Instances share nothing: the twin has its own, independent model state, its output
      -- lines carry the prefix `twin `, and nothing it does changes what the first instance prints.
      let (st', o) := c.step st2 rest
      st2 := st'
      for x in o do out := out.push ("twin " ++ x)
    | "app" :: _ => pure ()   -- the habits of the APPLICATION of the case (harness/corr/streaminfo_test.go): which
                              -- StreamInfo value it hands to Unbind* (a stream is named by its SSRC), in which order it
                              -- lists feedback entries and functional options, what it does with its own StreamInfo
                              -- after Bind* returned.  The values are the application's: no model depends on them
    | "amb" :: _ => pure ()   -- the surroundings of the interceptor under test (transparent neighbours, attribute
                              -- reuse, chain wrapping): no model depends on them — that is what C01 states

    | _ =>
      if l.startsWith "#" then pure () else
      let (st', o) := c.step st ts
      st := st'
      for x in o do out := out.push x
  return out.toList

end Interceptor.Driver

import Interceptor.Driver.Util
import Interceptor.Model.Twcc
import Interceptor.Spec.Twcc
import Interceptor.Model.TwccWire
import Interceptor.Model.TwccSender
/-!
Driver of component `twccrec` (C05): runs the model of twcc.Recorder on the op lines of
harness/corr/c05_test.go and prints the same canonical lines.  Every packet the model emits is
marshalled (model of pion/rtcp's Marshal), parsed and decoded by the *specification* decoder, the
canonical `fb` line is printed from that parse, and the decoded statuses/times are compared with
the specification's arrival history; disagreements print `spec-FAIL …` lines (the Go side never
prints those, so they surface as mismatches).
-/
namespace Interceptor.Driver.Twcc
open Interceptor.Driver Interceptor.Twcc Interceptor

structure DState where
  rcd : Recorder
  media : Nat
  spec : TwccSpec.St
  deriving Inhabited

def defaultSender : Nat := 16909060
def defaultMedia : Nat := 168496141

def init : DState := { rcd := newRecorder defaultSender, media := defaultMedia, spec := {} }

def showChunk : TwccSpec.WChunk → String
  | .run s n => s!"R:{s}:{n}"
  | .vec tb l => (if tb then "V2:" else "V1:") ++ String.join (l.map toString)

def showDelta : Nat × Option Int → Option String
  | (1, some d) => some s!"S:{d}"
  | (2, some d) => some s!"L:{d}"
  | (_, some d) => some s!"?:{d}"
  | (_, none) => none

def joinOr (xs : List String) : String := if xs.isEmpty then "-" else ",".intercalate xs

def fbLine (p : Packet) (w : TwccSpec.Wire) (parsed : Option TwccSpec.Parsed) : String :=
  match parsed with
  | none => "fb err:spec-parse"
  | some pr =>
    s!"fb ss={p.sender} ms={p.media} base={w.base} n={w.count} ref={w.ref} cnt={w.fbCount} " ++
    s!"chunks={joinOr (pr.chunks.map showChunk)} deltas={joinOr (pr.statuses.filterMap showDelta)} " ++
    s!"len={p.marshalSize} hdr={4 * (p.hdrLength + 1)} pad={if p.padding then 1 else 0}"

def parseU (s : String) (max : Nat) : Option Nat :=
  if s.length > 20 || s.isEmpty || !s.all Char.isDigit then none else
  match s.toNat? with
  | some n => if n ≤ max then some n else none
  | none => none

def parseI (s : String) : Option Int :=
  if s.startsWith "-" then (parseU (s.drop 1).toString (2 ^ 62)).map fun n => -(n : Int)
  else (parseU s (2 ^ 62)).map fun n => (n : Int)

def step (st : DState) (ts : List String) : DState × List String :=
  let fs := fields ts
  match ts with
  | ["cfg", _, _] =>
    match (lookup fs "sender").bind (parseU · 4294967295), (lookup fs "media").bind (parseU · 4294967295) with
    | some s, some m => ({ rcd := newRecorder s, media := m, spec := {} }, [])
    | _, _ => (st, ["bad-op"])
  | ["build"] =>
    let (r, pkts) := st.rcd.build
    -- `TwccSpec.decode w = (TwccSpec.parse w).map (timed …)`; the parse is shared with the printer
    let wires := pkts.map fun p => let w := p.toWire; (p, w, TwccSpec.parse w)
    let lines := wires.map fun (p, w, pr) => fbLine p w pr
    let complaints :=
      if st.spec.inDomain then
        st.spec.checkBuild (wires.map fun (_, w, pr) =>
          (w, pr.map fun q => TwccSpec.timed w.base ((w.ref : Int) * 64000) q.statuses))
      else []
    ({ st with rcd := r, spec := st.spec.built pkts.length },
      s!"build n={pkts.length}" :: lines ++ complaints.map (fun c => "spec-FAIL " ++ c))
  | ["recrun", _, _, _, _, _] =>
    -- n records: number seq+i*step (mod 2^16) at time t+i*dt
    match (lookup fs "seq").bind (parseU · 65535), (lookup fs "t").bind parseI,
      (lookup fs "n").bind (parseU · 40000), (lookup fs "dt").bind parseI,
      (lookup fs "step").bind (parseU · 1000) with
    | some seq, some t, some n, some dt, some stp =>
      if n = 0 ∨ stp = 0 ∨ dt > 2 ^ 40 ∨ dt < -(2 ^ 40) then (st, ["bad-op"]) else
      let st := (List.range n).foldl (fun (st : DState) i =>
        let sq := (seq + i * stp) % 65536
        let ti := t + (i : Int) * dt
        { st with rcd := st.rcd.record st.media sq ti, spec := st.spec.record sq ti }) st
      (st, [])
    | _, _, _, _, _ => (st, ["bad-op"])
  | "rec" :: rest =>
    if rest.length ≠ 2 ∧ rest.length ≠ 3 then (st, ["bad-op"]) else
    let ssrc := if rest.length = 3 then (lookup fs "ssrc").bind (parseU · 4294967295) else some st.media
    match (lookup fs "seq").bind (parseU · 65535), (lookup fs "t").bind parseI, ssrc with
    | some seq, some t, some ssrc =>
      ({ st with rcd := st.rcd.record ssrc seq t, spec := st.spec.record seq t }, [])
    | _, _, _ => (st, ["bad-op"])
  | _ => (st, ["bad-op"])

def twccrec : Component where
  σ := DState
  init := init
  step := step

/-! component `twccsnd`: the SenderInterceptor loop on a virtual clock.  Several remote streams may be
bound (`bind ssrc= tcc=`); a packet of a stream is recorded under that stream's SSRC when the stream
negotiated the extension and the packet carries it, and not at all otherwise. -/

structure SState where
  snd : Sender
  first : Bool      -- no op seen yet (a `cfg` line is only accepted first)
  /-- the remote streams bound so far (latest binding first) and whether their StreamInfo negotiated the
  transport-cc extension.  Which header-extension id a stream negotiated is no part of the protocol:
  every stream is read under its own. -/
  bound : List (Nat × Bool) := []
  /-- no op other than a well-formed `cfg` seen yet: `nowriter` is accepted only then. -/
  fresh : Bool := true
  /-- the RTCP writer is bound — the interceptor's goroutine exists.  It is when the case starts, unless the case
  opens with `nowriter`; `bindw` binds it. -/
  wbound : Bool := true
  /-- packets read while no writer was bound (stream, number, time of the read; oldest first): their Read returns
  when the goroutine takes them over; the arrival time is that of the read. -/
  waiting : List (Nat × Nat × Int) := []
  deriving Inhabited

def sInit : SState :=
  { snd := { rcd := newRecorder 0, media := defaultMedia }, first := true, bound := [(defaultMedia, true)] }

/-- a packet of stream `ssrc` (`none`: not bound) whose header carries the extension iff `ext`. -/
def sndPkt (st : SState) (ssrc seq : Nat) (ext : Bool) : Option SState :=
  match st.bound.find? (·.1 == ssrc) with
  | none => none
  | some (_, tcc) =>
    if tcc && ext then
      if !st.wbound then some { st with waiting := st.waiting ++ [(ssrc, seq, st.snd.now)] } else
      let s := ({ st.snd with media := ssrc }).pkt seq
      some { st with snd := { s with media := st.snd.media } }
    else some st

/-- BindRTCPWriter: the goroutine starts, records the packets that were waiting — each with the time of ITS read —
and, if there was one, starts the ticker now. -/
def sndBindW (st : SState) : SState :=
  let rcd := st.waiting.foldl (fun r (p : Nat × Nat × Int) => r.record p.1 p.2.1 p.2.2) st.snd.rcd
  let snd := { st.snd with rcd := rcd }
  let snd := if st.waiting.isEmpty || snd.started then snd
    else { snd with started := true, nextTick := snd.now + snd.interval }
  { st with snd := snd, wbound := true, waiting := [] }

/-- wire forms of a `mal` packet the RTP header parser accepts (recorded like any packet) … -/
def malAccepted : List String := ["ver0", "ver1", "ver3", "padbit", "csrcok", "twobyte"]
/-- … and forms it rejects: the Read of a stream that negotiated the extension fails, nothing is recorded. -/
def malRejected : List String := ["short", "csrc", "xcut", "extlen", "exttail", "extnext", "extown", "exthead"]

def maskSS (l : String) : String :=
  match l.splitOn " " with
  | "fb" :: _ :: rest => " ".intercalate ("fb" :: "ss=*" :: rest)
  | _ => l

def sndStep (st : SState) (ts : List String) : SState × List String :=
  let fs := fields ts
  let st' := { st with first := false, fresh := false }
  match ts with
  | ["nowriter"] => if st.fresh && st.wbound then ({ st' with wbound := false }, []) else (st', ["bad-op"])
  | ["bindw"] => if st.wbound then (st', ["bad-op"]) else (sndBindW st', [])
  | ["cfg", _, _] =>
    if !st.first then (st', ["bad-op"]) else
    match (lookup fs "interval").bind (parseU · 3600000), (lookup fs "media").bind (parseU · 4294967295) with
    | some iv, some m =>
      if iv = 0 then (st', ["bad-op"]) else
      ({ snd := { rcd := newRecorder 0, media := m, interval := (iv : Int) * 1000 }, first := false,
         bound := [(m, true)] }, [])
    | _, _ => (st', ["bad-op"])
  | ["bind", _, _] =>
    match (lookup fs "ssrc").bind (parseU · 4294967295), (lookup fs "tcc").bind (parseU · 1) with
    | some ssrc, some tcc => ({ st' with bound := (ssrc, tcc == 1) :: st.bound }, [])
    | _, _ => (st', ["bad-op"])
  | ["pkt", _] =>
    match (lookup fs "seq").bind (parseU · 65535) with
    | some seq => ((sndPkt st' st.snd.media seq true).getD st', [])
    | none => (st', ["bad-op"])
  | ["pkt", _, _] =>
    match (lookup fs "seq").bind (parseU · 65535), (lookup fs "ssrc").bind (parseU · 4294967295) with
    | some seq, some ssrc =>
      match sndPkt st' ssrc seq true with
      | some s => (s, [])
      | none => (st', ["bad-op"])
    | _, _ => (st', ["bad-op"])
  | ["pkt", _, _, _] =>
    match (lookup fs "seq").bind (parseU · 65535), (lookup fs "ssrc").bind (parseU · 4294967295),
      (lookup fs "ext").bind (parseU · 1) with
    | some seq, some ssrc, some ext =>
      match sndPkt st' ssrc seq (ext == 1) with
      | some s => (s, [])
      | none => (st', ["bad-op"])
    | _, _, _ => (st', ["bad-op"])
  | ["mal", _, _, _] =>
    match (lookup fs "seq").bind (parseU · 65535), (lookup fs "ssrc").bind (parseU · 4294967295), lookup fs "kind" with
    | some seq, some ssrc, some kind =>
      if malAccepted.contains kind then
        match sndPkt st' ssrc seq true with
        | some s => (s, [])
        | none => (st', ["bad-op"])
      else if malRejected.contains kind then
        match st.bound.find? (·.1 == ssrc) with
        | some (_, tcc) => (st', if tcc then ["err:read"] else [])
        | none => (st', ["bad-op"])
      else (st', ["bad-op"])
    | _, _, _ => (st', ["bad-op"])
  | ["adv", _] =>
    match (lookup fs "us").bind (parseU · (2 ^ 40)) with
    | some us =>
      let (s, batches) := st.snd.adv (us : Int)
      let lines := batches.flatMap fun pkts =>
        s!"write n={pkts.length}" :: pkts.map fun p =>
          let w := p.toWire
          maskSS (fbLine p w (TwccSpec.parse w))
      ({ st' with snd := s }, lines)
    | none => (st', ["bad-op"])
  | _ => (st', ["bad-op"])

def twccsnd : Component where
  σ := SState
  init := sInit
  step := sndStep

def components : List (String × Component) := [("twccrec", twccrec), ("twccsnd", twccsnd)]

end Interceptor.Driver.Twcc

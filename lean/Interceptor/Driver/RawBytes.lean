import Interceptor.Driver.Util
namespace Interceptor.Driver.RawBytes
open Interceptor.Driver

/-- C02 byte-level stream: whatever the bytes are, the call returns without reporting more bytes
than it was given (`ok`), and the well-formed probe that follows is handled (`ok`).  The bytes
themselves are parsed by pion/rtp / pion/rtcp in the real code; the totality of what happens
after parsing is Props/C02Feedback, Props/C02Queue, Props/C17 (`leaky_total`). -/
def validHex (s : String) : Bool := s == "-" || (hexBytes s).isSome

def rawComponent : Component where
  σ := Bool   -- an interceptor exists
  init := false
  step := fun st ts =>
    let fs := fields ts
    match ts with
    | "new" :: _ => (true, [])
    | ["end"] => (st, [])
    | "rtcp" :: _ =>
      match lookup fs "b" with
      | some b => if st && validHex b then (st, ["ok", "ok"]) else (st, ["bad-op"])
      | none => (st, ["bad-op"])
    | "rtp" :: _ =>
      match lookup fs "b", getNat fs "ssrc" with
      | some b, some x => if st && validHex b && (x == 1 || x == 2) then (st, ["ok", "ok"]) else (st, ["bad-op"])
      | _, _ => (st, ["bad-op"])
    | "out" :: _ =>
      match getNat fs "ssrc", getNat fs "len" with
      | some x, some _ => if st && (x == 1 || x == 2) then (st, ["ok"]) else (st, ["bad-op"])
      | _, _ => (st, ["bad-op"])
    | _ => (st, ["bad-op"])

def components : List (String × Component) := [("rawbytes", rawComponent)]

end Interceptor.Driver.RawBytes

import Interceptor.Driver.Util
import Interceptor.Model.Rfc8888
namespace Interceptor.Driver.Rfc8888
open Interceptor.Driver Interceptor.Rfc8888

def showMetric (m : Metric) : String :=
  if m.received then s!"1.{m.ecn}.{m.ato}" else "0"

def showBlock (b : Block) : String :=
  let ms := if b.metrics.isEmpty then "-" else ",".intercalate (b.metrics.map showMetric)
  s!"b ssrc={b.ssrc} begin={b.begin} cnt={b.metrics.length} m={ms}"

/-- insertion sort by SSRC (the Go side sorts the blocks of the map iteration the same way). -/
def insertBlock (b : Block) : List Block → List Block
  | [] => [b]
  | c :: cs => if b.ssrc ≤ c.ssrc then b :: c :: cs else c :: insertBlock b cs

def sortBlocks (bs : List Block) : List Block := bs.foldr insertBlock []

/-- canonical report: header line, then one line per stream sorted by SSRC. -/
def showReport (r : Report) : List String :=
  s!"report ts={r.ts} n={r.blocks.length} len={marshalledLen r}" :: (sortBlocks r.blocks).map showBlock

/-- `addrun`: `n` consecutive in-order packets `seq, seq+1, …` (mod 2^16) at `at, at+step, …`,
each through `addPacket` (the repeat form only makes long histories cheap to write down). -/
def addRun : Nat → Recorder → Int → Int → Nat → Nat → Nat → Recorder
  | 0, r, _, _, _, _, _ => r
  | n + 1, r, at_, step, ssrc, sn, ecn =>
    addRun n (addPacket r at_ ssrc sn ecn) (at_ + step) step ssrc ((sn + 1) % 65536) ecn

/-- `buildrun`: `n` consecutive `buildReport` calls at `at, at+step, …`; every report is printed. -/
def buildRun : Nat → Recorder → Int → Int → Int → Recorder × List String
  | 0, r, _, _, _ => (r, [])
  | n + 1, r, at_, step, mx =>
    let b := buildReport r at_ mx
    let rest := buildRun n b.1 (at_ + step) step mx
    (rest.1, showReport b.2 ++ rest.2)

/-- ops: `add at=<ns> ssrc= seq= ecn=` (no output) | `build at=<ns> max=<bytes>` → canonical report |
`addrun at= ssrc= seq= n= step= ecn=` (no output) | `buildrun at= n= step= max=` → n reports. -/
def recComponent : Component where
  σ := Recorder
  init := Recorder.new
  step := fun s ts =>
    let fs := fields ts
    match ts.head? with
    | some "add" =>
      match getInt fs "at", getNat fs "ssrc", getNat fs "seq", getNat fs "ecn" with
      | some at_, some ssrc, some sn, some ecn =>
        if ssrc < 4294967296 ∧ sn < 65536 ∧ ecn < 256 ∧ ts.length = 5 then (addPacket s at_ ssrc sn ecn, [])
        else (s, ["bad-op"])
      | _, _, _, _ => (s, ["bad-op"])
    | some "addrun" =>
      match getInt fs "at", getNat fs "ssrc", getNat fs "seq", getNat fs "n", getInt fs "step", getNat fs "ecn" with
      | some at_, some ssrc, some sn, some n, some step, some ecn =>
        if ssrc < 4294967296 ∧ sn < 65536 ∧ ecn < 256 ∧ n ≤ 200000 ∧ ts.length = 7 then
          (addRun n s at_ step ssrc sn ecn, [])
        else (s, ["bad-op"])
      | _, _, _, _, _, _ => (s, ["bad-op"])
    | some "buildrun" =>
      match getInt fs "at", getNat fs "n", getInt fs "step", getInt fs "max" with
      | some at_, some n, some step, some mx =>
        if n ≤ 5000 ∧ ts.length = 5 then buildRun n s at_ step mx else (s, ["bad-op"])
      | _, _, _, _ => (s, ["bad-op"])
    | some "build" =>
      match getInt fs "at", getInt fs "max" with
      | some at_, some mx =>
        if ts.length = 3 then let r := buildReport s at_ mx; (r.1, showReport r.2) else (s, ["bad-op"])
      | _, _ => (s, ["bad-op"])
    | _ => (s, ["bad-op"])

/-- ops: `cfg interval=<ms> [skew=<ms>]` | `writer` | `bind ssrc=` | `rtp ssrc= seq=` → `read ok|blocked` |
`adv ms=` → reports written | `close` → `closed released=<n>`. -/
def intStep (s : Option Icpt) (ts : List String) : Option Icpt × List String :=
    let fs := fields ts
    match s, ts with
    | none, ["cfg", _] =>
      match getNat fs "interval" with
      | some ms => if 1 ≤ ms ∧ ms ≤ 100000 then (some { interval := (ms : Int) * 1000000 }, ["ok"]) else (s, ["bad-op"])
      | none => (s, ["bad-op"])
    | none, ["cfg", _, _] =>
      -- `skew=<ms>`: the configured clock (SenderNow) starts that much ahead of the clock that drives the ticker;
      -- every time of the model is the configured clock's (kept inside NTP era 0)
      match getNat fs "interval", getInt fs "skew" with
      | some ms, some skew =>
        if 1 ≤ ms ∧ ms ≤ 100000 ∧ -3000000000000 ≤ skew ∧ skew ≤ 1130000000000 then
          (some { interval := (ms : Int) * 1000000, now := 946684800000000000 + skew * 1000000 }, ["ok"])
        else (s, ["bad-op"])
      | _, _ => (s, ["bad-op"])
    | some st, ["writer"] => (some st.bindWriter, [])
    | some st, ["bind", _] =>
      match getNat fs "ssrc" with
      | some ssrc => if ssrc < 4294967296 then (some st, []) else (s, ["bad-op"])
      | none => (s, ["bad-op"])
    | some st, ["rtp", _, _] =>
      match getNat fs "ssrc", getNat fs "seq" with
      | some ssrc, some sn =>
        if ssrc < 4294967296 ∧ sn < 65536 then
          match st.read ssrc sn with
          | (st', .ok) => (some st', ["read ok"])
          | (st', .blocked) => (some st', ["read blocked"])
        else (s, ["bad-op"])
      | _, _ => (s, ["bad-op"])
    | some st, ["adv", _] =>
      match getNat fs "ms" with
      | some ms =>
        if ms ≤ 100000000 then
          let r := st.advance ((ms : Int) * 1000000)
          (some r.1, (r.2.map showReport).flatten)
        else (s, ["bad-op"])
      | none => (s, ["bad-op"])
    | some st, ["close"] =>
      let r := st.close
      (some r.1, [s!"closed released={r.2}"])
    | _, _ => (s, ["bad-op"])

/-- `intStep` plus the op `step ns=<±n>`: the configured clock (a wall clock; only when the case configured one with
`cfg … skew=`) is stepped by `n` ns from now on; the ticker is monotonic, so the next tick is as far away as it was
and reads the stepped clock.  The flag remembers whether a clock was configured. -/
def intComponent : Component where
  σ := Bool × Option Icpt
  init := (false, none)
  step := fun (w, s) ts =>
    match s, ts with
    | some st, ["step", _] =>
      match getInt (fields ts) "ns" with
      | some ns =>
        if w ∧ -90000000000000 ≤ ns ∧ ns ≤ 90000000000000 then
          ((w, some { st with now := st.now + ns, tickerAt := st.tickerAt.map (· + ns) }), [])
        else ((w, s), ["bad-op"])
      | none => ((w, s), ["bad-op"])
    | _, _ =>
      let r := intStep s ts
      ((w || (s.isNone && r.1.isSome && ts.length == 3), r.1), r.2)

def components : List (String × Component) := [("ccfbrec", recComponent), ("ccfbint", intComponent)]

end Interceptor.Driver.Rfc8888

import Interceptor.Driver.Util
import Interceptor.Model.Ntp
namespace Interceptor.Driver.Ntp
open Interceptor.Driver Interceptor.Ntp Interceptor.F64

/-- ops: `ntp <unixnano>` → `<ToNTP> <ToNTP32> <ToTime(ToNTP)>`; `t32 <u32> <refns>` → ToTime32;
`totime <u64>`; `f64 <op> <a> <b>` with int64 operands converted by `float64()`: prints the bits. -/
def ntpComponent : Component where
  σ := Unit
  init := ()
  step := fun s ts =>
    match ts with
    | ["ntp", n] =>
      match n.toInt? with
      | some ns => let v := toNTP ns; (s, [s!"{v} {toNTP32 ns} {toTime v}"])
      | none => (s, ["bad-op"])
    | ["totime", n] =>
      match n.toNat? with
      | some v => (s, [s!"{toTime v}"])
      | none => (s, ["bad-op"])
    | ["t32", t, r] =>
      match t.toNat?, r.toInt? with
      | some t, some r => (s, [s!"{toTime32 t r}"])
      | _, _ => (s, ["bad-op"])
    | ["f64", op, a, b] =>
      match a.toInt?, b.toInt? with
      | some a, some b =>
        let x := ofInt a; let y := ofInt b
        match op with
        | "add" => (s, [s!"{bits (add x y)}"])
        | "sub" => (s, [s!"{bits (sub x y)}"])
        | "mul" => (s, [s!"{bits (mul x y)}"])
        | "div" => if b = 0 then (s, ["bad-op"]) else (s, [s!"{bits (div x y)}"])
        | "divmul" => if b = 0 then (s, ["bad-op"]) else (s, [s!"{bits (mul (div x y) 1000000007)}"])
        | _ => (s, ["bad-op"])
      | _, _ => (s, ["bad-op"])
    | _ => (s, ["bad-op"])

def components : List (String × Component) := [("ntp", ntpComponent)]

end Interceptor.Driver.Ntp

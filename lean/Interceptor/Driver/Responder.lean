import Interceptor.Driver.Util
import Interceptor.Model.RtpBuffer
import Interceptor.Spec.RtpBuffer
import Interceptor.Model.StreamFilter
namespace Interceptor.Driver.Responder
open Interceptor.Driver Interceptor.RtpBuffer

/-! shared parsing / printing -/

def b01 (b : Bool) : String := if b then "1" else "0"

def getBool (fs : List (String × String)) (k : String) : Option Bool :=
  match lookup fs k with
  | some "0" => some false
  | some "1" => some true
  | _ => none

def getBounded (fs : List (String × String)) (k : String) (bound : Nat) : Option Nat :=
  match getNat fs k with
  | some n => if n < bound then some n else none
  | none => none

def parseExts (s : String) : Option (List (Nat × List Nat)) :=
  if s == "-" then some [] else
  (s.splitOn ";").mapM fun e =>
    match e.splitOn ":" with
    | [i, h] => do
      let id ← i.toNat?
      let bs ← hexBytes h
      pure (id, bs)
    | _ => none

def showExts (xs : List (Nat × List Nat)) : String :=
  if xs.isEmpty then "-" else ";".intercalate (xs.map fun e => s!"{e.1}:{showHex e.2}")

def parseHdr (fs : List (String × String)) : Option Hdr := do
  let v ← getBounded fs "v" 256
  let p ← getBool fs "p"
  let x ← getBool fs "x"
  let m ← getBool fs "m"
  let pt ← getBounded fs "pt" 256
  let seq ← getBounded fs "seq" 65536
  let ts ← getBounded fs "ts" 4294967296
  let ssrc ← getBounded fs "ssrc" 4294967296
  let csrc ← (lookup fs "csrc").bind natList
  let prof ← getBounded fs "prof" 65536
  let exts ← (lookup fs "ext").bind parseExts
  let ps ← getBounded fs "ps" 256
  if !x && !exts.isEmpty then none
  pure { version := v, padding := p, extension := x, marker := m, pt := pt, seq := seq, ts := ts,
         ssrc := ssrc, csrc := csrc, profile := prof, exts := exts, paddingSize := ps }

/-- payload: hex, `-` (empty, non-nil slice) or `nil`. -/
def parsePayload (fs : List (String × String)) : Option (List Nat) :=
  match lookup fs "pl" with
  | some "nil" => some []
  | some h => hexBytes h
  | none => none

def showPkt (h : Hdr) (pl : List Nat) : String :=
  s!"ssrc={h.ssrc} pt={h.pt} seq={h.seq} ts={h.ts} m={b01 h.marker} p={b01 h.padding} ps={h.paddingSize} " ++
  s!"v={h.version} x={b01 h.extension} prof={h.profile} csrc={showNats h.csrc} ext={showExts h.exts} pl={showHex pl}"

def showErr : NPErr → String
  | .short => "err:short"
  | .padding => "err:padding"

/-! component `rtpbuffer`: Add / Get / Clear with reference counts -/

structure UPkt where
  id : Nat
  seq : Nat

structure UState where
  buf : Option (Buf UPkt) := none
  sbuf : SBuf UPkt := SBuf.new 0
  counts : List (Nat × Nat) := []     -- packet id ↦ reference count
  held : List Nat := []               -- references the harness still holds

def countOf (cs : List (Nat × Nat)) (id : Nat) : Nat := ((cs.find? (·.1 = id)).map (·.2)).getD 0

def setCount (cs : List (Nat × Nat)) (id n : Nat) : List (Nat × Nat) :=
  (id, n) :: cs.filter (·.1 ≠ id)

/-- `Release` on each id in order: new counts and the ids whose storage went back to the pool. -/
def releaseAll (cs : List (Nat × Nat)) : List Nat → List (Nat × Nat) × List Nat
  | [] => (cs, [])
  | id :: rest =>
    let c := countOf cs id - 1
    let (cs', freed) := releaseAll (setCount cs id c) rest
    (cs', if c = 0 then id :: freed else freed)

def insertSorted (x : Nat) : List Nat → List Nat
  | [] => [x]
  | y :: ys => if x ≤ y then x :: y :: ys else y :: insertSorted x ys

def sortNats (xs : List Nat) : List Nat := xs.foldr insertSorted []

def showFreed (xs : List Nat) : String := s!"freed={showNats (sortNats xs)}"

def rtpbufferComponent : Component where
  σ := UState
  init := {}
  step := fun s ts =>
    match ts with
    | "new" :: rest =>
      match getNat (fields rest) "size" with
      | some n =>
        if n < 65536 then
          match (Buf.new n : Option (Buf UPkt)) with
          | some b => ({ buf := some b, sbuf := SBuf.new n }, ["ok"])
          | none => ({}, ["err:size"])
        else (s, ["bad-op"])
      | none => (s, ["bad-op"])
    | "add" :: rest =>
      let fs := fields rest
      match s.buf, getBounded fs "seq" 65536, getNat fs "id" with
      | some b, some seq, some id =>
        if (s.counts.find? (·.1 = id)).isSome then (s, ["bad-op"]) else
        let p : UPkt := { id := id, seq := seq }
        let (b', rel) := add UPkt.seq b p
        let (cs, freed) := releaseAll (setCount s.counts id 1) (rel.map (·.id))
        ({ s with buf := some b', sbuf := s.sbuf.send UPkt.seq p, counts := cs }, [showFreed freed])
      | _, _, _ => (s, ["bad-op"])
    | "get" :: rest =>
      let fs := fields rest
      match s.buf, getBounded fs "seq" 65536 with
      | some b, some seq =>
        let keep := lookup fs "hold" == some "1"
        -- Retain fails on a released packet
        let r := (get UPkt.seq b seq).filter (fun p => countOf s.counts p.id ≠ 0)
        let sp := s.sbuf.get UPkt.seq seq
        let specLine := if r.map (·.id) == sp.map (·.id) then [] else ["SPEC-DIFF"]
        match r with
        | some p =>
          let s' := if keep then { s with counts := setCount s.counts p.id (countOf s.counts p.id + 1), held := p.id :: s.held } else s
          (s', [s!"pkt id={p.id} seq={p.seq}"] ++ specLine)
        | none => (s, ["none"] ++ specLine)
      | _, _ => (s, ["bad-op"])
    | ["rel", "last"] =>
      match s.buf, s.held with
      | none, _ => (s, ["bad-op"])
      | some _, [] => (s, ["freed=-"])
      | some _, id :: held =>
        let (cs, freed) := releaseAll s.counts [id]
        ({ s with counts := cs, held := held }, [showFreed freed])
    | ["clear"] =>
      match s.buf with
      | some b =>
        let (b', rel) := clear b
        let (cs, freed) := releaseAll s.counts (rel.map (·.id))
        ({ s with buf := some b', sbuf := s.sbuf.clear, counts := cs }, [showFreed freed])
      | none => (s, ["bad-op"])
    | _ => (s, ["bad-op"])

/-! component `pktfactory`: PacketFactoryCopy.NewPacket -/

structure FState where
  rtxNext : Option Nat := none

def pktfactoryComponent : Component where
  σ := FState
  init := {}
  step := fun s ts =>
    match ts with
    | "fac" :: rest =>
      match getBounded (fields rest) "start" 65536 with
      | some n => ({ rtxNext := some n }, [])
      | none => (s, ["bad-op"])
    | "np" :: rest =>
      let fs := fields rest
      match s.rtxNext, parseHdr fs, parsePayload fs, getBounded fs "rssrc" 4294967296, getBounded fs "rpt" 256 with
      | some nx, some h, some pl, some rssrc, some rpt =>
        let (res, adv) := newPacket h pl rssrc rpt nx
        let s' : FState := if adv then { rtxNext := some (Interceptor.add16 nx 1) } else s
        match res with
        | .ok p => (s', [s!"pkt key={p.seq} {showPkt p.hdr p.payload}"])
        | .error e => (s', [showErr e])
      | _, _, _, _, _ => (s, ["bad-op"])
    | _ => (s, ["bad-op"])

/-! component `responder`: the public ResponderInterceptor -/

def showOuts (tag : String) (xs : List (Nat × Pkt)) : List String :=
  xs.map fun e => s!"{tag} w={e.1} {showPkt e.2.hdr e.2.payload}"

def parsePairs (s : String) : Option (List (Nat × Nat)) :=
  if s == "-" then some [] else
  (s.splitOn ",").mapM fun e =>
    match e.splitOn ":" with
    | [a, b] => do
      let pid ← a.toNat?
      let blp ← b.toNat?
      if pid < 65536 ∧ blp < 65536 then pure (pid, blp) else none
    | _ => none

/-- the responder ops without write-fault injection. -/
def respStep (s : Option Resp) (ts : List String) : Option Resp × List String :=
    match ts, s with
    | "new" :: rest, _ =>
      let fs := fields rest
      match getBounded fs "size" 65536, getBounded fs "rtx0" 65536 with
      | some n, some r0 =>
        match Resp.new n r0 with
        | some r => (some r, ["ok"])
        | none => (none, ["err:size"])
      | _, _ => (s, ["bad-op"])
    | "bind" :: rest, some r =>
      let fs := fields rest
      -- the stream's RTCPFeedback: `fb=0|1` (the two fixed lists of the first harness) or `fbl=<code>`, any list
      -- over the alphabet of Model/StreamFilter.lean; the guard of `bind` is `streamSupportNack` of that list
      let fb : Option Bool := match lookup fs "fbl" with
        | some c => c.toNat?.bind Interceptor.StreamFilter.boundByCode
        | none => getBool fs "fb"
      match getBounded fs "ssrc" 4294967296, getBounded fs "rssrc" 4294967296, getBounded fs "rpt" 256, fb with
      | some ssrc, some rs, some rp, some fb => (some (r.bind ssrc rs rp fb), [])
      | _, _, _, _ => (s, ["bad-op"])
    | "write" :: rest, some r =>
      let fs := fields rest
      match getNat fs "w", parseHdr fs, parsePayload fs with
      | some w, some h, some pl =>
        let (r', o) := r.write w h pl
        match o with
        | .passed h pl => (some r', [s!"out w={w} {showPkt h pl}"])
        | .err e => (some r', [showErr e])
        | .badWriter => (s, ["bad-op"])
      | _, _, _ => (s, ["bad-op"])
    | "nack" :: rest, some r =>
      let fs := fields rest
      match getBounded fs "ssrc" 4294967296, (lookup fs "pairs").bind parsePairs with
      | some ssrc, some pairs =>
        if pairs.isEmpty then (s, ["bad-op"]) else
        if r.hold && r.pending.isSome then (s, ["busy"]) else
        let (r', outs) := r.nack ssrc pairs
        (some r', showOuts "rtx" outs)
      | _, _ => (s, ["bad-op"])
    | "unbind" :: rest, some r =>
      match getBounded (fields rest) "ssrc" 4294967296 with
      | some ssrc => (some (r.unbind ssrc), [])
      | none => (s, ["bad-op"])
    | ["close"], some r =>
      if r.closeWaiting then (s, ["busy"])
      else if r.pending.isSome then (some r.close, ["close-blocked"])   -- Close waits for the held resend
      else (some r.close, [])
    | ["hold"], some r => (some { r with hold := true }, [])
    | ["resume"], some r =>
      let (r', outs) := r.resume
      (some r', showOuts "rtx" outs ++ (if r.closeWaiting then ["close-waited=true late=0"] else []))
    | _, _ => (s, ["bad-op"])

/-- write-fault injection (`fail rtx=K out=J`): the next K retransmission writes and the next J
original writes reaching a bottom writer return an error.  A failed write changes nothing in the
responder (the packet stays buffered, the resend loop goes on): only the observation differs —
the attempt is shown as `rtx!` / `out!`, a failed original write also returns `err:write`. -/
structure RState where
  r : Option Resp := none
  failRtx : Nat := 0
  failOut : Nat := 0

def markFails : Nat → Nat → List String → Nat × Nat × List String
  | fr, fo, [] => (fr, fo, [])
  | fr, fo, l :: ls =>
    if l.startsWith "rtx " && fr > 0 then
      let (a, b, rest) := markFails (fr - 1) fo ls
      (a, b, ("rtx!" ++ (l.drop 3).toString) :: rest)
    else if l.startsWith "out " && fo > 0 then
      let (a, b, rest) := markFails fr (fo - 1) ls
      (a, b, "err:write" :: ("out!" ++ (l.drop 3).toString) :: rest)
    else
      let (a, b, rest) := markFails fr fo ls
      (a, b, l :: rest)

def responderComponent : Component where
  σ := RState
  init := {}
  step := fun s ts =>
    match ts with
    | "fail" :: rest =>
      let fs := fields rest
      match s.r, getBounded fs "rtx" 1000, getBounded fs "out" 1000 with
      | some _, some a, some b => ({ s with failRtx := a, failOut := b }, [])
      | _, _, _ => (s, ["bad-op"])
    | _ =>
      let (r', outs) := respStep s.r ts
      let s := if ts.head? == some "new" then { s with failRtx := 0, failOut := 0 } else s
      let (fr, fo, outs') := markFails s.failRtx s.failOut outs
      ({ r := r', failRtx := fr, failOut := fo }, outs')

def components : List (String × Component) :=
  [("rtpbuffer", rtpbufferComponent), ("pktfactory", pktfactoryComponent), ("responder", responderComponent)]

end Interceptor.Driver.Responder

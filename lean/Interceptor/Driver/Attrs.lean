import Interceptor.Driver.Util
import Interceptor.Model.AttrCache
namespace Interceptor.Driver.Attrs
open Interceptor.Driver Interceptor.Model.AttrCache

/-- one `interceptor.Attributes` map: the two parse caches and the application's own keys -/
structure St where
  rtp : Attrs Nat := {}
  rtcp : Attrs Nat := {}
  user : List (Int × Int) := []

/-- ops: `new` | `rtp p=<0|1> h=<n>` (GetRTPHeader of bytes whose parse fails / yields header n) |
`rtcp p= h=` (GetRTCPPackets) | `set k= v=` | `getk k=`.  The parsers are parameters: the op says what
they answer for the bytes of this call. -/
def attrsComponent : Component where
  σ := St
  init := {}
  step := fun s ts =>
    let fs := fields ts
    match ts with
    | ["new"] => ({}, [])
    | "rtp" :: _ =>
      match getNat fs "p", getNat fs "h" with
      | some p, some h =>
        if p > 1 || h ≥ 65536 then (s, ["bad-op"]) else
        let r := look (fun (_ : Unit) => if p == 1 then some h else none) s.rtp ()
        ({ s with rtp := r.2 }, [match r.1 with | some x => s!"hdr {x}" | none => "err"])
      | _, _ => (s, ["bad-op"])
    | "rtcp" :: _ =>
      match getNat fs "p", getNat fs "h" with
      | some p, some h =>
        if p > 1 || h ≥ 65536 then (s, ["bad-op"]) else
        let r := look (fun (_ : Unit) => if p == 1 then some h else none) s.rtcp ()
        ({ s with rtcp := r.2 }, [match r.1 with | some x => s!"pkts {x}" | none => "err"])
      | _, _ => (s, ["bad-op"])
    | "set" :: _ =>
      match getInt fs "k", getInt fs "v" with
      | some k, some v => ({ s with user := (k, v) :: s.user.filter (·.1 != k) }, [])
      | _, _ => (s, ["bad-op"])
    | "getk" :: _ =>
      match getInt fs "k" with
      | some k => (s, [match s.user.find? (·.1 == k) with | some kv => s!"val {kv.2}" | none => "val -"])
      | none => (s, ["bad-op"])
    | _ => (s, ["bad-op"])

def components : List (String × Component) := [("attrs", attrsComponent)]

end Interceptor.Driver.Attrs

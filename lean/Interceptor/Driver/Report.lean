import Interceptor.Driver.Util
import Interceptor.Model.SenderReport
import Interceptor.Model.ReceiverReport
namespace Interceptor.Driver.Report
open Interceptor.Driver Interceptor.GoTime

/-! ### senderreport (C07) -/
namespace Sender
open Interceptor.SenderReport

structure St where
  now : Int := epoch2000
  latest : Option Bool := none        -- the interceptor exists once a stream was bound
  streams : Streams := []
  retired : List Nat := []            -- SSRCs with a stale handle (a binding that was unbound or replaced)

def showSR (r : SR) : String :=
  s!"sr ssrc={r.ssrc} ntp={r.ntp} rtp={r.rtp} pc={r.packetCount} oc={r.octetCount}"

def bound (st : St) (ssrc : Nat) : Bool := st.streams.any (·.ssrc == ssrc)

def step (st : St) (ts : List String) : St × List String :=
  let fs := fields ts
  match ts.head? with
  | some "bind" =>
    match getNat fs "ssrc", getNat fs "rate", getNat fs "latest" with
    | some ssrc, some rate, some l =>
      if ssrc < M32 ∧ rate < M32 ∧ l < 2 then
        let lb := l == 1
        match st.latest with
        | some l0 =>
          if l0 == lb then
            ({ st with streams := store st.streams (new ssrc rate lb),
                       retired := if bound st ssrc then ssrc :: st.retired else st.retired }, [])
          else (st, ["bad-op"])
        | none =>
          -- the interceptor is created here; `skew`: its configured clock (SenderNow) is that much ahead of the
          -- harness clock that times the ops (and whose value the ticker channel delivers)
          ({ st with now := st.now + (getInt fs "skew").getD 0, latest := some lb,
                     streams := store st.streams (new ssrc rate lb) }, [])
      else (st, ["bad-op"])
    | _, _, _ => (st, ["bad-op"])
  | some "write" =>
    match getNat fs "ssrc", getNat fs "seq", getNat fs "ts", getNat fs "len", getNat fs "dt" with
    | some ssrc, some seq, some t, some len, some dt =>
      if seq < 65536 ∧ t < M32 ∧ bound st ssrc then
        let now := st.now + dt
        let rep := (getNat fs "rep").getD 0
        let strs := update st.streams ssrc (processRTP · { now, seq, ts := t, len })
        -- rep=N: N further packets of the same frame with consecutive sequence numbers
        let strs := (List.range rep).foldl (fun acc i =>
          update acc ssrc (processRTP · { now, seq := (seq + i + 1) % 65536, ts := t, len })) strs
        ({ st with now, streams := strs }, [])
      else (st, ["bad-op"])
    | _, _, _, _, _ => (st, ["bad-op"])
  | some "tick" =>
    match getNat fs "dt" with
    | some dt =>
      let now := st.now + dt
      ({ st with now }, (tick st.streams now).map showSR)
    | none => (st, ["bad-op"])
  | some "step" =>
    -- the configured (wall) clock is stepped by `ns`: every later instant the interceptor reads is moved; the ticker
    -- is monotonic, so nothing else changes
    match getInt fs "ns" with
    | some ns => ({ st with now := st.now + ns }, [])
    | none => (st, ["bad-op"])
  | some "unbind" =>
    match getNat fs "ssrc" with
    | some ssrc =>
      if bound st ssrc then ({ st with streams := delete st.streams ssrc, retired := ssrc :: st.retired }, []) else (st, ["bad-op"])
    | none => (st, ["bad-op"])
  | some "stale" =>
    -- a packet written through the handle of an earlier binding: it is no packet of any current stream, so no
    -- stream's state changes; time passes
    match getNat fs "ssrc", getNat fs "k", getNat fs "seq", getNat fs "ts", getNat fs "len", getNat fs "dt" with
    | some ssrc, some _, some _, some _, some _, some dt =>
      if st.retired.contains ssrc then ({ st with now := st.now + dt }, []) else (st, ["bad-op"])
    | _, _, _, _, _, _ => (st, ["bad-op"])
  | _ => (st, ["bad-op"])

def component : Component := { σ := St, init := {}, step := step }
end Sender

/-! ### receiverreport (C06) -/
namespace Receiver
open Interceptor.ReceiverReport

structure St where
  now : Int := epoch2000
  interval : Int := 1000000000
  nextTick : Int := epoch2000 + 1000000000
  first : Bool := true                -- no op seen yet (`cfg` allowed)
  streams : Streams := []
  retired : List Nat := []            -- SSRCs with a stale reader (a binding that was unbound or replaced)

def showRR (r : RR) : String :=
  s!"rr ssrc={r.ssrc} ext={r.ext} frac={r.fraction} lost={r.totalLost} jit={r.jitter} lsr={r.lsr} dlsr={r.delay}"

def bound (st : St) (ssrc : Nat) : Bool := st.streams.any (·.ssrc == ssrc)

/-- advance the clock to `target`, firing every tick instant `≤ target` on the way (`fuel` bounds
the number of ticks; the generator keeps it far below). -/
def advTo (st : St) (target : Int) : Nat → St × List RR
  | 0 => ({ st with now := target }, [])
  | fuel + 1 =>
    if st.nextTick ≤ target then
      let (rs, ss) := tick st.streams st.nextTick
      let (st', out) := advTo { st with now := st.nextTick, nextTick := st.nextTick + st.interval, streams := ss } target fuel
      (st', rs ++ out)
    else ({ st with now := target }, [])

/-- advance the clock by `dt`; the reports of the ticks crossed. -/
def advRR (st : St) (dt : Nat) : St × List RR :=
  let target := st.now + dt
  advTo { st with first := false } target (((target - st.now) / st.interval).toNat + 2)

def adv (st : St) (dt : Nat) : St × List String :=
  let (st', rs) := advRR st dt
  (st', rs.map showRR)

/-- `jumprun`: `n` times [advance `dt`; one RTP packet; advance to the next tick instant].  Packet `i`
carries `seq + i·step` (mod 2^16) and `ts + i·tsstep` (mod 2^32).  All reports of the run, in order. -/
def jumpRun (st : St) (ssrc seq ts step tsstep dt : Nat) : Nat → Array RR → St × Array RR
  | 0, acc => (st, acc)
  | n + 1, acc =>
    let (st1, r1) := advRR st dt
    let st2 := { st1 with streams := update st1.streams ssrc (processRTP · st1.now seq ts) }
    let (st3, r2) := advRR st2 (st2.nextTick - st2.now).toNat
    jumpRun st3 ssrc ((seq + step) % 65536) ((ts + tsstep) % M32) step tsstep dt n ((acc ++ r1.toArray) ++ r2.toArray)

/-- digest of a run's reports: count, Σ cumulative-lost, Σ fraction, max cumulative-lost, Σ ext, Σ jitter
(sums modulo 2^32). -/
def digest (rs : Array RR) : String :=
  let f (g : RR → Nat) : Nat := rs.foldl (fun a r => (a + g r) % M32) 0
  let mx := rs.foldl (fun a r => if r.totalLost > a then r.totalLost else a) 0
  s!"run reports={rs.size} lostsum={f (·.totalLost)} fracsum={f (·.fraction)} lostmax={mx} extsum={f (·.ext)} jitsum={f (·.jitter)}"

def step (st : St) (ts : List String) : St × List String :=
  let fs := fields ts
  match ts.head? with
  | some "cfg" =>
    match getNat fs "interval" with
    | some iv =>
      -- `skew`: the configured clock (ReceiverNow) is that much ahead of the ticker's; every time of the model
      -- is the configured clock's, the ticker only decides WHEN (relative to the start) a report is made
      let now := st.now + (getInt fs "skew").getD 0
      if st.first ∧ 0 < iv then ({ st with now, interval := iv, nextTick := now + iv, first := false }, []) else (st, ["bad-op"])
    | none => (st, ["bad-op"])
  | some "bind" =>
    match getNat fs "ssrc", getNat fs "rate", getNat fs "dt" with
    | some ssrc, some rate, some dt =>
      if ssrc < M32 ∧ rate < M32 then
        let wasBound := bound st ssrc
        let (st, out) := adv st dt
        ({ st with streams := store st.streams (new ssrc rate),
                   retired := if wasBound then ssrc :: st.retired else st.retired }, out)
      else (st, ["bad-op"])
    | _, _, _ => (st, ["bad-op"])
  | some "rtp" =>
    match getNat fs "ssrc", getNat fs "seq", getNat fs "ts", getNat fs "dt" with
    | some ssrc, some seq, some t, some dt =>
      if seq < 65536 ∧ t < M32 ∧ bound st ssrc then
        let (st, out) := adv st dt
        ({ st with streams := update st.streams ssrc (processRTP · st.now seq t) }, out)
      else (st, ["bad-op"])
    | _, _, _, _ => (st, ["bad-op"])
  | some "sr" =>
    match getNat fs "ssrc", getNat fs "ntp", getNat fs "rtp", getNat fs "dt" with
    | some ssrc, some ntp, some r, some dt =>
      if ssrc < M32 ∧ ntp < 18446744073709551616 ∧ r < M32 then
        let (st, out) := adv st dt
        -- `pre`: sender reports of other SSRCs that come first in the same compound packet
        match (lookup fs "pre").map natList |>.getD (some []) with
        | none => (st, ["bad-op"])
        | some pre =>
          let strs := (pre.zipIdx).foldl (fun acc (p : Nat × Nat) =>
            update acc p.1 (processSR · st.now ((ntp + p.2 + 1) % 18446744073709551616))) st.streams
          ({ st with streams := update strs ssrc (processSR · st.now ntp) }, out)
      else (st, ["bad-op"])
    | _, _, _, _ => (st, ["bad-op"])
  | some "tick" =>
    match ts with
    | [_] => adv st (st.nextTick - st.now).toNat
    | _ => (st, ["bad-op"])
  | some "step" =>
    -- the configured (wall) clock is stepped by `ns`; the ticker is monotonic: the next tick is as far away as it was,
    -- and reads the stepped clock
    match getInt fs "ns" with
    | some ns => ({ st with now := st.now + ns, nextTick := st.nextTick + ns }, [])
    | none => (st, ["bad-op"])
  | some "jumprun" =>
    match getNat fs "ssrc", getNat fs "seq", getNat fs "ts", getNat fs "n", getNat fs "step", getNat fs "tsstep",
      getNat fs "dt", getNat fs "keep" with
    | some ssrc, some seq, some t, some n, some stp, some tsstep, some dt, some keep =>
      if seq < 65536 ∧ t < M32 ∧ stp < 65536 ∧ tsstep < M32 ∧ 0 < n ∧ n ≤ 100000 ∧ bound st ssrc then
        let (st', rs) := jumpRun { st with first := false } ssrc seq t stp tsstep dt n #[]
        (st', digest rs :: (rs.extract (rs.size - keep) rs.size).toList.map showRR)
      else (st, ["bad-op"])
    | _, _, _, _, _, _, _, _ => (st, ["bad-op"])
  | some "unbind" =>
    match getNat fs "ssrc", getNat fs "dt" with
    | some ssrc, some dt =>
      if bound st ssrc then
        let (st, out) := adv st dt
        ({ st with streams := delete st.streams ssrc, retired := ssrc :: st.retired }, out)
      else (st, ["bad-op"])
    | _, _ => (st, ["bad-op"])
  | some "stale" =>
    -- a packet read through the reader of an earlier binding: no packet of any current stream; time passes
    match getNat fs "ssrc", getNat fs "k", getNat fs "seq", getNat fs "ts", getNat fs "dt" with
    | some ssrc, some _, some _, some _, some dt =>
      if st.retired.contains ssrc then adv st dt else (st, ["bad-op"])
    | _, _, _, _, _ => (st, ["bad-op"])
  | _ => (st, ["bad-op"])

def component : Component :=
  { σ := St, init := {}, step := fun st ts => let (st', o) := step st ts; ({ st' with first := false }, o) }
end Receiver

def components : List (String × Component) :=
  [("senderreport", Sender.component), ("receiverreport", Receiver.component)]

end Interceptor.Driver.Report

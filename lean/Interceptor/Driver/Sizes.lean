/-
Driver for C12, component `sizes`: runs the size machine of `Model/Sizes.lean` on the same
operation lines as harness/corr/c12_test.go and prints the model's size vector after every
operation, exactly as the harness prints the `len` of the real containers.
-/
import Interceptor.Driver.Util
import Interceptor.Model.Sizes
namespace Interceptor.Driver.Sizes
open Interceptor.Driver Interceptor.Sizes

def showSize (v : List (String × Nat)) : String :=
  "sizes " ++ ",".intercalate (v.map fun p => s!"{p.1}={p.2}")

/-- decimal field of at most 9 digits (the harness rejects anything else). -/
def num (fs : List (String × String)) (k : String) : Option Nat :=
  match lookup fs k with
  | some s => if s.length > 9 ∨ s.isEmpty ∨ !s.all Char.isDigit then none else s.toNat?
  | none => none

def numD (fs : List (String × String)) (k : String) (d : Nat) : Option Nat :=
  match lookup fs k with
  | some _ => num fs k
  | none => some d

def kinds : List String :=
  ["nackgen", "nackresp", "rr", "sr", "twcc", "rfc8888", "rtpfb", "ccadapter", "stats", "jitter", "flexfec", "leaky", "pacing"]

def parseNew (fs : List (String × String)) : Option K := do
  let kind ← lookup fs "kind"
  if !kinds.contains kind then none
  -- every field except kind / mode must be a short decimal
  if fs.any (fun p => p.1 != "kind" && p.1 != "mode" && (num fs p.1).isNone) then none
  let ivl ← numD fs "ivl" 100
  let writer ← numD fs "writer" 1
  let size ← numD fs "size" 64
  let max ← numD fs "max" 0
  let media ← numD fs "media" 5
  let fec ← numD fs "fec" 2
  let rate ← numD fs "rate" 1
  if ivl < 1 ∨ size > 32768 ∨ media > 100 ∨ fec > 10 ∨ fec < 1 ∨ rate < 1 then none
  if size < 64 ∨ !(size &&& (size - 1) == 0) then none
  K.new { kind := kind, ivl := ivl, writer := writer == 1,
          size := (if (lookup fs "size").isSome then size else 0), max := max, media := media, fec := fec,
          rate := (if (lookup fs "rate").isSome then rate else 1000000),
          twccMode := lookup fs "mode" != some "ccfb" }

def parseWorkload : Option String → Option Workload
  | some "inorder" => some .inorder
  | some "loss" => some .loss
  | some "dup" => some .dup
  | some "reorder" => some .reorder
  | some "idle" => some .idle
  | _ => none

def step (st : Option M) (ts : List String) : Option M × List String :=
  let fs := fields ts
  let bad := (st, ["bad-op"])
  let ok (m : M) := (some m, [showSize m.size])
  match ts.head?, st with
  | some "new", none =>
    match parseNew fs with
    | some k => ok { k := k }
    | none => bad
  | some "bind", some m =>
    if m.closed then bad else
    match num fs "ssrc" with
    | none => bad
    | some s =>
      let seq0 : Option (Option Nat) :=
        match lookup fs "seq0" with
        | some _ => (num fs "seq0").map some
        | none => some none
      match seq0 with
      | none => bad
      | some q =>
        let next := match q with
          | some v => put m.next s (v % 65536)
          | none => if m.next.any (·.1 == s) then m.next else put m.next s 0
        let m1 := { m with next := next, bound := if m.bound.contains s then m.bound else s :: m.bound }
        ok (m1.ev (.bind s))
  | some "phase", some m =>
    if m.closed then bad else
    match num fs "ssrc", num fs "n", numD fs "p" 10, numD fs "fb" 0, numD fs "rr" 1, parseWorkload (lookup fs "workload") with
    | some s, some n, some p, some fb, some rr, some w =>
      if p < 2 ∨ rr < 1 ∨ rr > 1000 ∨ !(List.range rr).all (fun j => m.bound.contains (s + j)) then bad
      else ok (m.phase w s rr p fb n)
    | _, _, _, _, _, _ => bad
  | some "jump", some m =>
    if m.closed then bad else
    match num fs "ssrc", num fs "d" with
    | some s, some d => if !m.bound.contains s ∨ d > 65535 then bad else ok (m.jump s d)
    | _, _ => bad
  | some "unbind", some m =>
    if m.closed then bad else
    match num fs "ssrc" with
    | some s =>
      if !m.bound.contains s then bad else
      ok ({ m with bound := m.bound.filter (· != s) }.ev (.unbind s))
    | none => bad
  | some "close", some m =>
    if m.closed then bad else ok { (m.ev .close) with closed := true }
  | _, _ => bad

def components : List (String × Component) :=
  [("sizes", { σ := Option M, init := none, step := step })]

end Interceptor.Driver.Sizes

import Interceptor.Driver.Util
import Interceptor.Model.FeedbackAdapter
import Interceptor.Model.Rtpfb
/-!
Drivers of the components `fbadapter` (internal/cc FeedbackAdapter) and `rtpfb`
(pkg/rtpfb decoders + history + processFeedback). Feedback arrives in parsed form:
`base= cnt= ref= chunks=R<sym>x<run>/V<size>:<s.s.s>/X deltas=<µs,…>` and
`rts= ref=<Z-time> blocks=<ssrc>:<begin>:<r_e_a.r_e_a>/…`.
-/
namespace Interceptor.Driver.Feedback
open Interceptor Interceptor.Driver Interceptor.Feedback

def parseChunk (s : String) : Option Chunk :=
  if s == "X" then some .other
  else if s.startsWith "R" then
    match ((s.drop 1).toString.splitOn "x").map String.toNat? with
    | [some sym, some run] => if sym < 65536 ∧ run < 65536 then some (.rl sym run) else none
    | _ => none
  else if s.startsWith "V" then
    match (s.drop 1).toString.splitOn ":" with
    | [sz, l] =>
      match sz.toNat? with
      | none => none
      | some _ =>
        if l == "-" then some (.sv []) else
        ((l.splitOn ".").mapM String.toNat?).bind fun syms =>
          if syms.all (· < 65536) then some (.sv syms) else none
    | _ => none
  else none

def parseTwcc (fs : List (String × String)) : Option Twcc := do
  let base ← getNat fs "base"
  let cnt ← getNat fs "cnt"
  let ref ← getNat fs "ref"
  let ch ← lookup fs "chunks"
  let ds ← (lookup fs "deltas").bind intList
  let chunks ← if ch == "-" then some [] else (ch.splitOn "/").mapM parseChunk
  if base < 65536 ∧ cnt < 65536 ∧ ref < 2 ^ 32 then some ⟨base, cnt, ref, chunks, ds⟩ else none

def parseMetric (s : String) : Option Metric :=
  match (s.splitOn "_").map String.toNat? with
  | [some r, some e, some a] => if r ≤ 1 ∧ e < 256 ∧ a < 65536 then some ⟨r == 1, e, a⟩ else none
  | _ => none

def parseBlock (s : String) : Option Block :=
  match s.splitOn ":" with
  | [ssrc, b, ms] => do
    let ssrc ← ssrc.toNat?
    let b ← b.toNat?
    let ms ← if ms == "-" then some [] else (ms.splitOn ".").mapM parseMetric
    if ssrc < 2 ^ 32 ∧ b < 65536 then some ⟨ssrc, b, ms⟩ else none
  | _ => none

def parseCcfb (fs : List (String × String)) : Option Ccfb := do
  let _ ← getNat fs "rts"
  let ref ← getInt fs "ref"
  let bl ← lookup fs "blocks"
  let blocks ← if bl == "-" then some [] else (bl.splitOn "/").mapM parseBlock
  some ⟨ref, blocks⟩

/-! #### fbadapter -/
open Interceptor.FeedbackAdapter in
def showAcks (acks : List Ack) : List String :=
  s!"acks n={acks.length}" :: acks.map fun a =>
    s!"a seq={a.seq} ssrc={a.ssrc} size={a.size} dep={a.departure} arr={a.arrival} ecn={a.ecn}"

/-- `header.MarshalSize()` of the harness's header with the one TWCC extension (pion/rtp). -/
def hdrTwcc : Int := 20
def hdrPlain : Int := 12

open Interceptor.FeedbackAdapter in
def adapterComponent : Component where
  σ := Hist
  init := []
  step := fun h ts =>
    match ts with
    | "sent" :: rest =>
      let fs := fields rest
      match getInt fs "t", getInt fs "size" with
      | some t, some size =>
        match getNat fs "tw" with
        | some tw => if tw < 65536 then (onSentTWCC h t tw hdrTwcc size, []) else (h, ["bad-op"])
        | none =>
          match getNat fs "ssrc", getNat fs "seq" with
          | some ssrc, some seq =>
            if ssrc < 2 ^ 32 ∧ seq < 65536 then (onSentRFC8888 h t ssrc seq size, []) else (h, ["bad-op"])
          | _, _ => (h, ["bad-op"])
      | _, _ => (h, ["bad-op"])
    | "sentbad" :: _ => (h, ["err:missing-ext"])
    | "twcc" :: rest =>
      match parseTwcc (fields rest) with
      | none => (h, ["bad-op"])
      | some fb =>
        match onTWCC h fb with
        | .ok acks => (h, showAcks acks)
        | .err _ => (h, ["err:invalid"])
        | .panic s => (h, [s!"PANIC {s}"])
    | "ccfb" :: rest =>
      match parseCcfb (fields rest) with
      | none => (h, ["bad-op"])
      | some fb => (h, showAcks (onCCFB h fb))
    | ["len"] => (h, [s!"len list={h.length} map={h.length}"])
    | _ => (h, ["bad-op"])

/-! #### rtpfb -/
open Interceptor.Rtpfb

def b01 (b : Bool) : Nat := if b then 1 else 0

def showRAck (a : RAck) : String := s!"k seq={a.seq} arrived={b01 a.arrived} arr={a.arrival} ecn={a.ecn}"

def showPR (p : PR) : String :=
  s!"r ctr={p.ctr} ssrc={p.ssrc} seq={p.rtpSeq} istw={b01 p.isTwcc} tw={p.twSeq} size={p.size} dep={p.dep} arrived={b01 p.arrived} arr={p.arr} ecn={p.ecn}"

def insertSorted (e : Nat × List RAck) : List (Nat × List RAck) → List (Nat × List RAck)
  | [] => [e]
  | x :: xs => if e.1 ≤ x.1 then e :: x :: xs else x :: insertSorted e xs

structure RState where
  h : Hist := {}
  queue : List Pkt := []

def parseRAck (fs : List (String × String)) : Option RAck := do
  let seq ← getNat fs "seq"
  let ar ← getNat fs "arrived"
  let arr ← getInt fs "arr"
  let ecn ← getNat fs "ecn"
  if seq < 65536 ∧ ar ≤ 1 ∧ ecn < 256 then some ⟨seq, ar == 1, arr, ecn⟩ else none

def rtpfbComponent : Component where
  σ := RState
  init := {}
  step := fun st ts =>
    match ts with
    | "ctwcc" :: rest =>
      match parseTwcc (fields rest) with
      | none => (st, ["bad-op"])
      | some fb =>
        match convertTWCC fb with
        | .ok acks => (st, s!"acks n={acks.length}" :: acks.map showRAck)
        | .err e => (st, [s!"err:{e}"])
        | .panic s => (st, [s!"PANIC {s}"])
    | "cccfb" :: rest =>
      let fs := fields rest
      match parseCcfb fs, getInt fs "now" with
      | some fb, some _ =>
        match convertCCFB fb with
        | .ok (d, res) =>
          let sorted := res.foldl (fun acc e => insertSorted e acc) []
          (st, s!"delay={d} streams={res.length}" ::
            sorted.flatMap fun e => s!"ssrc={e.1} n={e.2.length}" :: e.2.map showRAck)
        | .err e => (st, [s!"err:{e}"])
        | .panic s => (st, [s!"PANIC {s}"])
      | _, _ => (st, ["bad-op"])
    | "send" :: rest =>
      let fs := fields rest
      match getNat fs "ssrc", getNat fs "seq", getNat fs "b", lookup fs "tw", getNat fs "pl", getInt fs "t" with
      | some ssrc, some seq, some b, some tw, some pl, some t =>
        if ssrc < 2 ^ 32 ∧ seq < 65536 ∧ b ≤ 1 then
          if tw == "-" then
            -- no extension in the header: CCFB stream, or TWCC stream falling back
            ({ st with h := addOutgoing st.h ssrc seq false 0 (hdrPlain + pl) t }, [])
          else
            match tw.toNat? with
            | some twn =>
              if twn < 65536 then
                if b == 1 then ({ st with h := addOutgoing st.h ssrc seq true twn (hdrTwcc + pl) t }, [])
                else ({ st with h := addOutgoing st.h ssrc seq false 0 (hdrTwcc + pl) t }, [])
              else (st, ["bad-op"])
            | none => (st, ["bad-op"])
        else (st, ["bad-op"])
      | _, _, _, _, _, _ => (st, ["bad-op"])
    | "q" :: "twcc" :: rest =>
      match parseTwcc (fields rest) with
      | some fb => ({ st with queue := st.queue ++ [.twcc fb] }, [])
      | none => (st, ["bad-op"])
    | "q" :: "ccfb" :: rest =>
      let fs := fields rest
      match parseCcfb fs, getInt fs "now" with
      | some fb, some _ => ({ st with queue := st.queue ++ [.ccfb fb] }, [])
      | _, _ => (st, ["bad-op"])
    | ["q", "other"] =>
      -- an RTCP packet of any other type (receiver report, PLI, …): no case of the type switch
      ({ st with queue := st.queue ++ [.other] }, [])
    | "fb" :: rest =>
      match getInt (fields rest) "now" with
      | none => (st, ["bad-op"])
      | some now =>
        match processFeedback st.h now st.queue with
        | .ok (h', rtt, prs) =>
          ({ h := h', queue := [] },
            if prs.isEmpty then ["report none"] else s!"report rtt={rtt} n={prs.length}" :: prs.map showPR)
        | .err e => ({ st with queue := [] }, [s!"err:{e}"])
        | .panic s => ({ st with queue := [] }, [s!"PANIC {s}"])
    | "hack" :: rest =>
      let fs := fields rest
      match parseRAck fs, getInt fs "now" with
      | some a, some now =>
        let (h', r) := match getNat fs "ssrc" with
          | some ssrc => onCCFBFeedback st.h now ssrc a
          | none => onTWCCFeedback st.h now a
        ({ st with h := h' }, [match r with | some rtt => s!"rtt={rtt}" | none => "unknown"])
      | _, _ => (st, ["bad-op"])
    | ["hbuild"] =>
      let (h', prs) := buildReport st.h
      ({ st with h := h' }, s!"built n={prs.length}" :: prs.map showPR)
    | ["hsizes"] =>
      (st, [s!"sizes packets={st.h.packets.length} twcc={st.h.twcc.length} ssrcseq={st.h.ss.length}"])
    | _ => (st, ["bad-op"])

def components : List (String × Component) :=
  [("fbadapter", adapterComponent), ("rtpfb", rtpfbComponent)]

end Interceptor.Driver.Feedback

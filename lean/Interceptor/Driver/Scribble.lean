import Interceptor.Driver.Util
import Interceptor.Driver.TwccHdr
import Interceptor.Model.Alias
import Interceptor.Model.FlexFec
import Interceptor.Model.JitterBuffer
import Interceptor.Model.SenderReport
import Interceptor.Model.ReceiverReport
/-
Driver for component `scribble` (C13).  Every harness op becomes a short run of the aliasing
model of `Model/Alias.lean`:

    call ids contents ; (mode=reuse: scribbles of every buffer the call named) ; call flush

with `ids` a fresh allocation per call (mode=fresh) or ONE allocation for every call
(mode=reuse), executed by `Alias.step` under the policy `Policy.copyAll` — the policy
`Facts/C13.lean` derives for every interceptor from the regenerated retention facts.  The
interceptors' logic is a `Machine String` per interceptor (below): simple emission functions over
the *contents* of the calls; the responder ring mirrors `rtpbuffer.Add/Get`, FlexFEC, the jitter
buffer and the RTCP reports reuse the models of C14, C18, C06 and C07.

Domain of the simple machines (kept by the generator, stated here): pacers run at 10^9 bit/s
with a 5 ms interval, so every tick releases the whole queue (timing is C17's subject); the
TWCC sender sees strictly increasing transport sequence numbers without wrap-around, so every
feedback interval reports exactly the numbers recorded since the previous feedback (the wire
form is C05's subject); one SSRC per direction (1000), RTX stream 2000/97.

ops: see harness/corr/c13_test.go.
-/
namespace Interceptor.Driver.Scribble
open Interceptor.Driver Interceptor.Rtp Interceptor.Alias
open Interceptor.Driver.TwccHdr (parseHeader showHdr)

abbrev mediaSSRC : Nat := 1000
abbrev rtxSSRC : Nat := 2000
abbrev rtxPT : Nat := 97
abbrev twccID : Nat := 5

/-! ### canonical lines -/

def pairsOf : Bytes → List (Nat × Nat)
  | k :: v :: r => (k, v) :: pairsOf r
  | _ => []

def showAt (a : Bytes) : String :=
  if a.isEmpty then "-" else ",".intercalate ((pairsOf a).map fun p => s!"{p.1}:{p.2}")

def outLine (h : Header) (pl att : Bytes) : String :=
  s!"out hdr={showHdr (some h)} pad={h.paddingSize} pl={showHex pl} at={showAt att}"

def sizeOf (c : Call) : Nat := marshalSize c.hdr + c.pl.length
def wLine (c : Call) : String := s!"w n={sizeOf c} err=nil pmod=0 hmod=0"
def wireOf (c : Call) : Bytes := (marshal c.hdr).getD [] ++ c.pl
def rLine (c : Call) : String := s!"r n={(wireOf c).length} err=nil b={showHex (wireOf c)}"

/-- the three small RTCP packets of `cr` / `cw` (`pl = [code, a, b]`). -/
def smallLine (pl : Bytes) : String :=
  let code := pl.getD 0 0
  let a := pl.getD 1 0
  let b := pl.getD 2 0
  if code = 0 then "raw " ++ showHex ([0x81, 0xce, 0, 2] ++ be32 a ++ be32 b)
  else if code = 1 then "raw " ++ showHex ([0x81, 0xcd, 0, 3] ++ be32 a ++ be32 mediaSSRC ++ be16 b ++ be16 a)
  else s!"rr {mediaSSRC}/{b % 4294967296}/{a % 1000}/0/{b % 777}/0/0"

def underscore (s : String) : String := s.map fun ch => if ch = ' ' then '_' else ch

def dumpRtp (c : Call) : String :=
  s!"dump rtp hdr={showHdr (some c.hdr)} pad={c.hdr.paddingSize} pl={showHex c.pl} at={showAt c.att}"

def dumpRtcp (c : Call) : String :=
  s!"dump rtcp n=1 {underscore (smallLine c.pl)} at={showAt c.att}"

/-- did a ticker of period `p` µs started at `base` fire in `(t, t']`? -/
def ticked (base p t t' : Nat) : Bool := decide ((t - base) / p < (t' - base) / p)

/-! ### the interceptors -/

/-- pass-through behaviour shared by all machines. -/
def passThrough (c : Call) : List String :=
  match c.kind with
  | .w => [outLine c.hdr c.pl c.att, wLine c]
  | .r => [rLine c]
  | .nack | .ack | .cr => ["cr err=nil"]
  | .cw => [s!"rtcp {smallLine c.pl}", "cw err=nil"]
  | _ => []

/-- NACK responder: `packetFactory.NewPacket` (copy; RTX form when negotiated) + `rtpbuffer`. -/
structure Resp where
  size : Nat
  rtx : Bool
  ring : List (Nat × Nat × Header × Bytes) := []   -- slot ↦ (seq, header, payload)
  highest : Nat := 0
  started : Bool := false
  pending : List Nat := []                        -- sequence numbers a resend goroutine will look up

def Resp.clearRange (ring : List (Nat × Nat × Header × Bytes)) (size from_ : Nat) : Nat → List (Nat × Nat × Header × Bytes)
  | 0 => ring
  | n + 1 => Resp.clearRange (ring.filter (·.1 ≠ from_ % size)) size ((from_ + 1) % 65536) n

def Resp.add (s : Resp) (seq : Nat) (h : Header) (pl : Bytes) : Resp :=
  let put (ring : List (Nat × Nat × Header × Bytes)) := (seq % s.size, seq, h, pl) :: ring.filter (·.1 ≠ seq % s.size)
  if !s.started then { s with ring := put s.ring, highest := seq, started := true }
  else
    let diff := (seq + 65536 - s.highest) % 65536
    if diff = 0 then s
    else if diff < 32768 then
      { s with ring := put (Resp.clearRange s.ring s.size ((s.highest + 1) % 65536) (diff - 1)), highest := seq }
    else if (s.highest + 65536 - seq) % 65536 ≥ s.size then s   -- too old: dropped (fix of F-04)
    else { s with ring := put s.ring }

def Resp.get (s : Resp) (seq : Nat) : Option (Header × Bytes) :=
  let diff := (s.highest + 65536 - seq) % 65536
  if diff ≥ 32768 ∨ diff ≥ s.size then none
  else match s.ring.find? (·.1 = seq % s.size) with
    | some (_, sq, h, pl) => if sq = seq then some (h, pl) else none
    | none => none

/-- `NackPair.Range`. -/
def nackRange (pid blp : Nat) : List Nat :=
  pid :: ((List.range 16).filter fun i => blp / 2 ^ i % 2 = 1).map fun i => (pid + i + 1) % 65536

def responder (size : Nat) (rtx : Bool) : Machine String where
  σ := Resp
  init := { size := size, rtx := rtx }
  step := fun s c =>
    match c.kind with
    | .w =>
      if c.hdr.ssrc ≠ mediaSSRC then (s, passThrough c)
      else
        let stored : Header × Bytes :=
          if rtx then
            ({ c.hdr with ssrc := rtxSSRC, pt := rtxPT, seq := 0, padding := false, paddingSize := 0 },
             be16 c.hdr.seq ++ c.pl)
          else (c.hdr, c.pl)
        (s.add c.hdr.seq stored.1 stored.2, passThrough c)
    | .nack => ({ s with pending := s.pending ++ (pairsOf c.pl).flatMap fun p => nackRange p.1 p.2 }, ["cr err=nil"])
    | .flush =>
      ({ s with pending := [] }, s.pending.filterMap fun seq => (s.get seq).map fun p => outLine p.1 p.2 [])
    | _ => (s, passThrough c)

/-- FlexFEC-03 encoder interceptor (model of C14). -/
def flexfec (n f : Nat) : Machine String where
  σ := FlexFec.Icpt
  init := FlexFec.Icpt.new n f mediaSSRC 49 7777
  step := fun s c =>
    match c.kind with
    | .w =>
      let (s', _, fecs) := s.write (wireOf c)
      (s', [outLine c.hdr c.pl c.att] ++
        (fecs.map fun q => outLine { pt := q.pt, seq := q.seq, ts := q.ts, ssrc := q.ssrc } q.payload c.att) ++ [wLine c])
    | _ => (s, passThrough c)

/-- both pacers at 10^9 bit/s, 5 ms: `Write` queues a copy, the first tick releases the queue. -/
structure Pacer where
  t : Nat := 0
  queue : List Call := []

def pacer : Machine String where
  σ := Pacer
  init := {}
  step := fun s c =>
    match c.kind with
    | .w => ({ s with queue := s.queue ++ [c] }, [wLine c])
    | .adv us =>
      if ticked 0 5000 s.t (s.t + us) then
        ({ t := s.t + us, queue := [] }, s.queue.map fun q => outLine q.hdr q.pl q.att)
      else ({ s with t := s.t + us }, [])
    | _ => (s, passThrough c)

/-- packet dumper (sender and receiver side): the logger goroutine formats what it was handed. -/
def dumper : Machine String where
  σ := List String
  init := []
  step := fun s c =>
    match c.kind with
    | .w => (s ++ [dumpRtp c], passThrough c)
    | .r => (s ++ [dumpRtp { c with att := [] }], passThrough c)
    | .cw => (s ++ [dumpRtcp c], passThrough c)
    | .cr => (s ++ [dumpRtcp { c with att := [] }], passThrough c)
    | .flush => ([], s)
    | _ => (s, passThrough c)

/-- stats: the six counters of stream 1000. -/
structure Stats where
  op : Nat := 0
  ob : Nat := 0
  oh : Nat := 0
  ip : Nat := 0
  ib : Nat := 0
  ih : Nat := 0

def stats : Machine String where
  σ := Stats
  init := {}
  step := fun s c =>
    match c.kind with
    | .w =>
      (if c.hdr.ssrc = mediaSSRC then { s with op := s.op + 1, ob := s.ob + sizeOf c, oh := s.oh + marshalSize c.hdr } else s,
       passThrough c)
    | .r =>
      (if c.hdr.ssrc = mediaSSRC then { s with ip := s.ip + 1, ib := s.ib + sizeOf c, ih := s.ih + marshalSize c.hdr } else s,
       passThrough c)
    | .get => (s, [s!"stats out={s.op},{s.ob},{s.oh} in={s.ip},{s.ib},{s.ih}"])
    | _ => (s, passThrough c)

/-- jitter buffer interceptor (model of C18): packets are identified by their index in `wires`. -/
structure Jit where
  jb : JitterBuffer.JB JitterBuffer.heapImpl := JitterBuffer.JB.new JitterBuffer.heapImpl none
  wires : List Bytes := []

def jitter : Machine String where
  σ := Jit
  init := {}
  step := fun s c =>
    match c.kind with
    | .r =>
      let w := wireOf c
      let p : JitterBuffer.Pkt := { seq := c.hdr.seq, ts := c.hdr.ts, obj := s.wires.length, size := w.length }
      let (jb', o) := JitterBuffer.intRead s.jb p w.length 1500 false
      let line :=
        if o.err = "-" then
          let b := (o.pkt.map fun q => (s.wires ++ [w]).getD q.obj []).getD []
          s!"r n={o.n} err=nil b={showHex b}"
        else if o.err = "buffering" then s!"r n={o.n} err=buffering b=-"
        else if o.err = "short" then s!"r n={o.n} err=short b=-"
        else s!"r n={o.n} err=other b=-"
      ({ jb := jb', wires := s.wires ++ [w] }, [line])
    | _ => (s, passThrough c)

/-- TWCC sender: transport sequence numbers recorded since the last feedback. -/
structure Twcc where
  t : Nat := 0
  t0 : Option Nat := none
  pending : List Nat := []

def twccsend : Machine String where
  σ := Twcc
  init := {}
  step := fun s c =>
    match c.kind with
    | .r =>
      match getExtension c.hdr twccID with
      | some (a :: b :: _) =>
        ({ s with t0 := some (s.t0.getD s.t), pending := s.pending ++ [a * 256 + b] }, passThrough c)
      | _ => (s, passThrough c)
    | .adv us =>
      let t' := s.t + us
      match s.t0 with
      | some b =>
        if ticked b 100000 s.t t' ∧ !s.pending.isEmpty then
          ({ s with t := t', pending := [] }, [s!"rtcp fb ssrc={mediaSSRC} recv={showNats s.pending}"])
        else ({ s with t := t' }, [])
      | none => ({ s with t := t' }, [])
    | _ => (s, passThrough c)

/-- rtpfb: `history` (addOutgoing / onCCFBFeedback / buildReport). -/
structure PR where
  ssrc : Nat
  ctr : Nat
  seq : Nat
  size : Nat
  arrived : Bool

structure Hist where
  counter : Nat := 0
  pkts : List PR := []
  s2c : List ((Nat × Nat) × Nat) := []
  acked : Bool := false            -- F-40 fix: set once a packet has been acknowledged as arrived
  highestAcked : Nat := 0
  nextReport : Nat := 0

def Hist.addOutgoing (h : Hist) (ssrc seq size : Nat) : Hist :=
  { h with
    s2c := ((ssrc, seq), h.counter) :: h.s2c.filter (·.1 ≠ (ssrc, seq))
    pkts := h.pkts ++ [{ ssrc := ssrc, ctr := h.counter, seq := seq, size := size, arrived := false }]
    counter := h.counter + 1 }

def Hist.onAck (h : Hist) (ssrc seq : Nat) (arrived : Bool) : Hist :=
  match h.s2c.find? (·.1 = (ssrc, seq)) with
  | none => h
  | some (_, ctr) =>
    if h.pkts.any (·.ctr = ctr) then
      { h with
        pkts := h.pkts.map fun p => if p.ctr = ctr then { p with arrived := arrived } else p
        acked := h.acked || arrived
        highestAcked := if arrived ∧ h.highestAcked < ctr then ctr else h.highestAcked }
    else h

/-- the loop of `buildReport` over the counters `i, i+1, …` (`n` of them). -/
def Hist.reportLoop (h : Hist) (i : Nat) : Nat → Hist × List PR
  | 0 => (h, [])
  | n + 1 =>
    match h.pkts.find? (·.ctr = i) with
    | none => Hist.reportLoop h (i + 1) n
    | some p =>
      let h1 : Hist := { h with
        s2c := h.s2c.filter (·.1 ≠ (p.ssrc, p.seq))
        pkts := h.pkts.filter (·.ctr ≠ i)
        nextReport := if p.ctr ≥ h.nextReport then p.ctr + 1 else h.nextReport }
      let (h2, rest) := Hist.reportLoop h1 (i + 1) n
      (h2, p :: rest)

def Hist.buildReport (h : Hist) : Hist × List PR :=
  if !h.acked || h.nextReport > h.highestAcked then (h, [])
  else Hist.reportLoop h h.nextReport (h.highestAcked - h.nextReport + 1)

def ackAll (h : Hist) (ssrc begin_ : Nat) : Nat → List Nat → Hist
  | _, [] => h
  | i, b :: bs => ackAll (h.onAck ssrc ((begin_ + i) % 65536) (b = 1)) ssrc begin_ (i + 1) bs

def rtpfb : Machine String where
  σ := Hist
  init := {}
  step := fun s c =>
    match c.kind with
    | .w => (s.addOutgoing c.hdr.ssrc c.hdr.seq (sizeOf c), passThrough c)
    | .ack =>
      let s1 := ackAll s (c.pl.getD 0 0) (c.pl.getD 1 0) 0 (c.pl.drop 2)
      let (s2, reps) := s1.buildReport
      (s2, (reps.map fun p => s!"rep ssrc={p.ssrc} seq={p.seq} size={p.size} arrived={if p.arrived then 1 else 0}") ++ ["cr err=nil"])
    | _ => (s, passThrough c)

/-- ticks of a 1 s ticker started at the epoch, in `(now, target]`. -/
def tickTimes (now target : Int) : List Int :=
  let e := GoTime.epoch2000
  let k0 := ((now - e) / 1000000000).toNat
  let k1 := ((target - e) / 1000000000).toNat
  (List.range (k1 - k0)).map fun i => e + ((k0 + i + 1 : Nat) : Int) * 1000000000

/-- sender reports (model of C07). -/
structure SRSt where
  now : Int := GoTime.epoch2000
  stream : SenderReport.Stream := SenderReport.new mediaSSRC 90000 false

def sr : Machine String where
  σ := SRSt
  init := {}
  step := fun s c =>
    match c.kind with
    | .w =>
      ({ s with stream := SenderReport.processRTP s.stream { now := s.now, seq := c.hdr.seq, ts := c.hdr.ts, len := c.pl.length } },
       passThrough c)
    | .adv us =>
      let target := s.now + (us : Int) * 1000
      ({ s with now := target }, (tickTimes s.now target).map fun t =>
        let r := SenderReport.generateReport s.stream t
        s!"rtcp sr ssrc={r.ssrc} ntp={r.ntp} rtp={r.rtp} pkts={r.packetCount} octets={r.octetCount}")
    | _ => (s, passThrough c)

/-- receiver reports (model of C06). -/
structure RRSt where
  now : Int := GoTime.epoch2000
  stream : ReceiverReport.Stream := ReceiverReport.new mediaSSRC 90000

def rrTicks (st : ReceiverReport.Stream) : List Int → ReceiverReport.Stream × List String
  | [] => (st, [])
  | t :: ts =>
    let (r, st') := ReceiverReport.generateReport st t
    let (st'', rest) := rrTicks st' ts
    (st'', s!"rtcp rr {r.ssrc}/{r.ext}/{r.totalLost}/{r.fraction}/{r.jitter}/{r.lsr}/{r.delay}" :: rest)

def rr : Machine String where
  σ := RRSt
  init := {}
  step := fun s c =>
    match c.kind with
    | .r => ({ s with stream := ReceiverReport.processRTP s.stream s.now c.hdr.seq c.hdr.ts }, passThrough c)
    | .adv us =>
      let target := s.now + (us : Int) * 1000
      let (st, out) := rrTicks s.stream (tickTimes s.now target)
      ({ now := target, stream := st }, out)
    | _ => (s, passThrough c)

/-! ### the component -/

structure Cfg where
  ic : String
  reuse : Bool
  a : Nat := 0      -- size / n
  b : Nat := 0      -- rtx / f

def machineOf (cfg : Cfg) : Machine String :=
  match cfg.ic with
  | "responder" => responder cfg.a (cfg.b = 1)
  | "flexfec" => flexfec cfg.a cfg.b
  | "leaky" | "pacing" => pacer
  | "pdsend" | "pdrecv" => dumper
  | "stats" => stats
  | "jitter" => jitter
  | "twccsend" => twccsend
  | "rtpfb" => rtpfb
  | "sr" => sr
  | _ => rr

def supported (ic op : String) : Bool :=
  let tbl : List (String × List String) := [
    ("responder", ["w", "nack", "adv", "close"]), ("flexfec", ["w", "adv", "close"]),
    ("leaky", ["w", "adv", "close"]), ("pacing", ["w", "adv", "close"]),
    ("pdsend", ["w", "cw", "adv", "close"]), ("pdrecv", ["r", "cr", "adv", "close"]),
    ("stats", ["w", "r", "get", "adv", "close"]), ("jitter", ["r", "adv", "close"]),
    ("twccsend", ["r", "adv", "close"]), ("rtpfb", ["w", "ack", "adv", "close"]),
    ("sr", ["w", "adv", "close"]), ("rr", ["r", "adv", "close"])]
  match tbl.find? (·.1 = ic) with
  | some (_, ops) => ops.contains op
  | none => false

structure St where
  cfg : Option Cfg := none
  closed : Bool := false
  k : Nat := 0
  world : Alias.St := {}

def distinct : List Nat → Bool
  | [] => true
  | x :: xs => !xs.contains x && distinct xs

def increasing : List Nat → Bool
  | a :: b :: r => decide (a < b) && increasing (b :: r)
  | _ => true

/-- the header and payload of a `w` / `r` op, with the harness's canonicity checks. -/
def parsePkt (fs : List (String × String)) : Option (Header × Bytes × Bytes) := do
  let h ← parseHeader fs
  let pl ← (lookup fs "pl").bind hexBytes
  let att ← match lookup fs "at" with
    | none => some []
    | some "-" => some []
    | some s => (s.splitOn ",").mapM fun e =>
        match e.splitOn ":" with
        | [k, v] => do
          let k ← k.toNat?
          let v ← v.toNat?
          pure (k, v)
        | _ => none
  let okExt := h.extensions.all fun e =>
    1 ≤ e.1 ∧ e.1 ≤ 255 ∧
    (h.profile ≠ profOneByte ∨ (e.1 ≤ 14 ∧ 1 ≤ e.2.length ∧ e.2.length ≤ 16)) ∧
    (h.profile ≠ profTwoByte ∨ e.2.length ≤ 255)
  if h.version = 2 ∧ h.pt ≤ 127 ∧ h.seq ≤ 65535 ∧ h.ts ≤ 4294967295 ∧ h.ssrc ≤ 4294967295 ∧
     h.csrc.length ≤ 15 ∧ h.csrc.all (· ≤ 4294967295) ∧ h.paddingSize ≤ 255 ∧
     (h.profile = 0 ∨ h.profile = profOneByte ∨ h.profile = profTwoByte) ∧
     okExt ∧ distinct (h.extensions.map (·.1)) ∧
     (h.extension = true ↔ h.profile ≠ 0) ∧ (h.extension = true ∨ h.extensions.isEmpty = true) ∧
     (h.padding = true ↔ h.paddingSize ≠ 0) ∧ pl.length ≤ 1400 ∧
     att.all (fun p => p.1 ≤ 200 ∧ p.2 ≤ 1000000) ∧ increasing (att.map (·.1)) then
    some (h, pl, att.flatMap fun p => [p.1, p.2])
  else none

def smallCode (k : String) : Option Nat :=
  if k = "pli" then some 0 else if k = "nack" then some 1 else if k = "rr" then some 2 else none

/-- the contents of one op line. -/
def parseCall (op : String) (fs : List (String × String)) : Option Call :=
  match op with
  | "w" => (parsePkt fs).map fun (h, pl, att) => { kind := .w, hdr := h, pl := pl, att := att }
  | "r" => (parsePkt fs).bind fun (h, pl, _) =>
      if h.padding then none else some { kind := .r, hdr := h, pl := pl }
  | "nack" => do
      let s ← lookup fs "pairs"
      let ps ← (s.splitOn ",").mapM fun e =>
        match e.splitOn ":" with
        | [a, b] => do
          let a ← a.toNat?
          let b ← b.toNat?
          if a ≤ 65535 ∧ b ≤ 65535 then pure [a, b] else none
        | _ => none
      if ps.length ≤ 8 then pure { kind := .nack, pl := ps.flatten } else none
  | "ack" => do
      let ssrc ← getNat fs "ssrc"
      let begin_ ← getNat fs "begin"
      let recv ← (lookup fs "recv").bind natList
      if ssrc ≤ 4294967295 ∧ begin_ ≤ 65535 ∧ 0 < recv.length ∧ recv.length ≤ 64 ∧ recv.all (· ≤ 1) then
        pure { kind := .ack, pl := ssrc :: begin_ :: recv }
      else none
  | "cr" | "cw" => do
      let code ← (lookup fs "kind").bind smallCode
      let a ← getNat fs "a"
      let b ← getNat fs "b"
      if a ≤ 4294967295 ∧ b ≤ 4294967295 then
        pure { kind := if op = "cr" then .cr else .cw, pl := [code, a, b],
               att := if op = "cw" then [7, a % 1000] else [] }
      else none
  | "adv" => (getNat fs "us").bind fun us => if us ≤ 60000000 then some { kind := .adv us } else none
  | "get" => some { kind := .get }
  | "close" => some { kind := .close }
  | _ => none

def scribblesOf (ids : Ids) (c : Call) : List Op :=
  let rec exts : BufId → List (Nat × Bytes) → List Op
    | _, [] => []
    | b, e :: r => Op.scribble b (List.replicate e.2.length 238) :: exts (b + 1) r
  [Op.scribble ids.pl (List.replicate c.pl.length 238),
   Op.scribble ids.csrc (List.replicate c.hdr.csrc.length 4008636142),
   Op.scribble ids.att [238, 238]] ++ exts ids.ext c.hdr.extensions

def runOps (M : Machine String) (w : Alias.St) (ops : List Op) : Alias.St × List String :=
  ops.foldl (fun (acc : Alias.St × List String) op =>
    let r := Alias.step Policy.copyAll M acc.1 op
    (r.1, acc.2 ++ r.2)) (w, [])

def parseCfg (fs : List (String × String)) : Option Cfg := do
  let ic ← lookup fs "ic"
  let mode ← lookup fs "mode"
  let reuse ← if mode = "fresh" then some false else if mode = "reuse" then some true else none
  match ic with
  | "responder" =>
    let size ← getNat fs "size"
    let rtx ← getNat fs "rtx"
    if rtx ≤ 1 ∧ [1, 2, 4, 8, 16, 32, 64, 128, 256, 512, 1024, 2048, 4096, 8192, 16384, 32768].contains size then
      some { ic, reuse, a := size, b := rtx } else none
  | "flexfec" =>
    let n ← getNat fs "n"
    let f ← getNat fs "f"
    if 1 ≤ n ∧ n ≤ 20 ∧ f ≤ 20 then some { ic, reuse, a := n, b := f } else none
  | _ => if supported ic "close" then some { ic, reuse } else none

def step (st : St) (ts : List String) : St × List String :=
  let bad := (st, ["bad-op"])
  match ts with
  | [] => bad
  | op :: rest =>
    let fs := fields rest
    if op = "new" then
      match st.cfg, parseCfg fs with
      | none, some cfg => ({ st with cfg := some cfg }, [])
      | _, _ => bad
    else
      match st.cfg with
      | none => bad
      | some cfg =>
        if st.closed ∨ !supported cfg.ic op then bad else
        match parseCall op fs with
        | none => bad
        | some c =>
          let ids := if cfg.reuse then idsAt 0 else idsAt (st.k + 1)
          let ops := [Op.call ids c] ++ (if cfg.reuse ∧ c.kind.carries then scribblesOf ids c else []) ++
            [Op.call ids { kind := .flush }]
          let (w, out) := runOps (machineOf cfg) st.world ops
          ({ st with world := w, k := st.k + 1, closed := c.kind = .close }, out)

def components : List (String × Component) :=
  [("scribble", { σ := St, init := {}, step := Scribble.step })]

end Interceptor.Driver.Scribble

/-
C12 — every container that grows after construction also has a site that shrinks or resets it,
checked on the facts regenerated from /repo (closed by `decide`), with the hand-written exception
table for containers that are bounded for another reason — or are recorded findings.
-/
import Interceptor.Facts.SizeTypes
import Interceptor.Gen.SizeFacts
namespace Interceptor.Facts.C12
open Interceptor.Facts Interceptor.Gen.SizeFacts

def exceptions : List (Name × SizeException) := [
  -- findings: per-stream state that no Unbind*Stream releases
  (nm! "rfc8888.Recorder.streams", .finding "F-C12a: rfc8888 has no UnbindRemoteStream; a streamLog per SSRC ever seen"),
  (nm! "stats.Interceptor.recorders", .finding "F-C12b: stats has no Unbind*Stream; a recorder (and goroutine) per SSRC ever seen"),
  (nm! "gcc.LeakyBucketPacer.ssrcToWriter", .finding "F-C12c: pacer has no RemoveStream; a writer per SSRC ever added (bounded by streams ever bound)"),
  (nm! "gcc.NoOpPacer.ssrcToWriter", .finding "F-C12c: pacer has no RemoveStream; a writer per SSRC ever added (bounded by streams ever bound)"),
  -- set-up time registration
  (nm! "jitterbuffer.JitterBuffer.listeners", .setupOnly [nm! "jitterbuffer.JitterBuffer.Listen"] "Listen is a set-up time registration"),
  -- objects created fresh per feedback report / per arrival group and dropped afterwards
  (nm! "twcc.feedback.chunks", .freshOwner "a feedback is built per report by newFeedback and dropped after getRTCP"),
  (nm! "gcc.arrivalGroup.packets", .freshOwner "an arrivalGroup is a value started fresh (newArrivalGroup) when the previous group is handed on"),
  -- hand-over channels: unbuffered, the receiving end is a parameter of the consumer goroutine
  (nm! "gcc.delayController.ackPipe", .channel "unbuffered; received by arrivalGroupAccumulator.run via its `in` parameter"),
  (nm! "gcc.delayController.ackRatePipe", .channel "unbuffered; received by rateCalculator.run via its `in` parameter"),
  -- work-in-progress FlexFEC decoder, not wired into any interceptor
  (nm! "flexfec.fecDecoder.", .freshOwner "work-in-progress decoder, not wired into any interceptor; the local is returned to the caller")
]

/-- ★ every container field (and goroutine-loop local) of the anchor packages that grows after
construction has a shrink/reset site, or a justified exception (regenerated facts). -/
theorem facts_ok : (containers.all (containerOk ctxNames exceptions)) = true := by decide +kernel

/-- the exception table is tight: every `finding` entry really is a container that grows and never
shrinks on the current facts (a fix of the finding makes this fail, so the table gets cleaned up). -/
theorem findings_real :
    ((containers.filter fun c => (exceptions.find? (fun e => e.1.isPrefixOf c.name)).any
        (fun e => match e.2 with | .finding _ => true | _ => false)).all
      fun c => c.grows && !c.shrinks) = true := by decide +kernel

end Interceptor.Facts.C12

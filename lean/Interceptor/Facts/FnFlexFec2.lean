/-
More generated translations of pkg/flexfec (flexfec_coverage.go; Gen/Fn_flexfec.lean, regenerated from /repo
on every run): the methods `ProtectionCoverage.ExtractMask1/2/3/3_03`, which index the array
`packetMasks [110]util.BitArray` and apply `extractMask1/2/3/3_03` (Facts/FnFlexFec.lean), against the model's
`mask1/2/3 (Coverage.row c i)` (Model/FlexFec.lean; `fecPayload` uses exactly these expressions).

Abstraction relation `covRel`: the Go array and the model's `masks` have the same length and are row by row
related by `FnFlexFec.baRel`.  Invariant `covWf`: every row of the model is two uint64 words (needed by the
two mask-3 functions only: `(lo<<46)|(hi>>18)` is then below 2^64).  Both are established by the array of
zero bit arrays `NewCoverage` starts from and preserved by replacing a row with related / well-formed bit
arrays (what `resetCoverage` and the `SetBit` loop of `UpdateCoverage` do — those two functions themselves
are not in extract/fn.list); `covWf` holds for the model's `buildMasks`, `Coverage.update`, `newCoverage`.

The index: the theorems hold for every `fecPacketIndex ≥ 0`.  For an index ≥ 110 the Go code panics (array
index out of range); the translation's `idxG` yields the zero bit array there and so does the model's
`Coverage.row` (`getD … BitArray.empty`), so the equation holds vacuously-in-Go there as well.
-/
import Interceptor.Facts.FnFlexFec
namespace Interceptor.Facts.FnFlexFec2
open Interceptor.Gen.Fn Interceptor.GoSem Interceptor.FlexFec
open Interceptor.Facts.FnFlexFec

/-- abstraction relation: the Go coverage table represents the model's, row by row. -/
structure covRel (p : S_flexfec_ProtectionCoverage) (c : Coverage) : Prop where
  len : p.packetMasks.length = c.masks.length
  rows : ∀ i, i < c.masks.length → baRel (p.packetMasks.getD i default) (c.masks.getD i BitArray.empty)

/-- invariant: every row consists of two uint64 words. -/
def covWf (c : Coverage) : Prop := ∀ i, wf (c.masks.getD i BitArray.empty)

theorem getD_ge {α : Type} (l : List α) (i : Nat) (d : α) (h : l.length ≤ i) : l.getD i d = d := by
  rw [List.getD_eq_getElem?_getD, List.getElem?_eq_none h]; rfl

/-- the row the Go code reads is related to the model's row, for every non-negative index. -/
theorem row_rel (p : S_flexfec_ProtectionCoverage) (c : Coverage) (r : covRel p c) (i : Int) (hi : 0 ≤ i) :
    baRel (idxG p.packetMasks i) (c.row i.toNat) := by
  unfold idxG Coverage.row
  rw [if_neg (by omega)]
  by_cases h : i.toNat < c.masks.length
  · exact r.rows _ h
  · rw [getD_ge _ _ _ (by rw [r.len]; omega), getD_ge _ _ _ (by omega)]
    exact ⟨rfl, rfl⟩

/-- ★ `ProtectionCoverage.ExtractMask1` as written in the source equals the model's `mask1` of the row. -/
theorem ExtractMask1_src_eq_model (p : S_flexfec_ProtectionCoverage) (c : Coverage) (r : covRel p c)
    (i : Int) (hi : 0 ≤ i) :
    flexfec_ProtectionCoverage_ExtractMask1 p i = (mask1 (c.row i.toNat) : Nat) := by
  unfold flexfec_ProtectionCoverage_ExtractMask1
  exact extractMask1_src_eq_model _ _ (row_rel p c r i hi)

/-- ★ `ProtectionCoverage.ExtractMask2` as written in the source equals the model's `mask2` of the row. -/
theorem ExtractMask2_src_eq_model (p : S_flexfec_ProtectionCoverage) (c : Coverage) (r : covRel p c)
    (i : Int) (hi : 0 ≤ i) :
    flexfec_ProtectionCoverage_ExtractMask2 p i = (mask2 (c.row i.toNat) : Nat) := by
  unfold flexfec_ProtectionCoverage_ExtractMask2
  exact extractMask2_src_eq_model _ _ (row_rel p c r i hi)

/-- ★ `ProtectionCoverage.ExtractMask3` (RFC 8627 layout) as written in the source equals the model
expression `(lo << 46) mod 2^64 ||| (hi >> 18)` of the row (`FnFlexFec.mask3raw`: `mask3` before the K-bit
shift; no model function of its own). -/
theorem ExtractMask3_src_eq_model (p : S_flexfec_ProtectionCoverage) (c : Coverage) (r : covRel p c)
    (w : covWf c) (i : Int) (hi : 0 ≤ i) :
    flexfec_ProtectionCoverage_ExtractMask3 p i = (mask3raw (c.row i.toNat) : Nat) := by
  unfold flexfec_ProtectionCoverage_ExtractMask3
  exact extractMask3_src_eq_model _ _ (row_rel p c r i hi) (w _)

/-- ★ `ProtectionCoverage.ExtractMask3_03` as written in the source equals the model's `mask3` of the row. -/
theorem ExtractMask3_03_src_eq_model (p : S_flexfec_ProtectionCoverage) (c : Coverage) (r : covRel p c)
    (w : covWf c) (i : Int) (hi : 0 ≤ i) :
    flexfec_ProtectionCoverage_ExtractMask3_03 p i = (mask3 (c.row i.toNat) : Nat) := by
  unfold flexfec_ProtectionCoverage_ExtractMask3_03
  exact extractMask3_03_src_eq_model _ _ (row_rel p c r i hi) (w _)

/-! ## the relation and the invariant: constructor and mutators -/

/-- the table `NewCoverage` starts from: 110 zero bit arrays (`var packetMasks [MaxFecPackets]util.BitArray`). -/
def goZeroMasks : List S_flexfec_util_BitArray := List.replicate 110 default

theorem getD_replicate {α : Type} (n i : Nat) (d : α) : (List.replicate n d).getD i d = d := by
  rw [List.getD_eq_getElem?_getD, List.getElem?_replicate]
  split <;> rfl

/-- ★ the constructor's table is related to the model's initial table. -/
theorem covRel_zero (nf nm : Nat) (media : List Bytes) (gm : List S_rtp_Packet) :
    covRel { packetMasks := goZeroMasks, numFecPackets := nf, numMediaPackets := nm, mediaPackets := gm }
      ⟨List.replicate maxFecPackets BitArray.empty, nf, nm, media⟩ := by
  refine ⟨by simp [goZeroMasks, maxFecPackets], fun i _ => ?_⟩
  show baRel (goZeroMasks.getD i default) ((List.replicate maxFecPackets BitArray.empty).getD i BitArray.empty)
  unfold goZeroMasks
  rw [getD_replicate, getD_replicate]
  exact ⟨rfl, rfl⟩

/-- ★ the constructor's table satisfies the invariant. -/
theorem covWf_zero (nf nm : Nat) (media : List Bytes) :
    covWf ⟨List.replicate maxFecPackets BitArray.empty, nf, nm, media⟩ := by
  intro i
  show wf ((List.replicate maxFecPackets BitArray.empty).getD i BitArray.empty)
  rw [getD_replicate]; exact wf_empty

theorem getD_set' {α : Type} (l : List α) (k i : Nat) (v d : α) :
    (l.set k v).getD i d = if k = i ∧ k < l.length then v else l.getD i d := by
  rw [List.getD_eq_getElem?_getD, List.getElem?_set, List.getD_eq_getElem?_getD]
  by_cases h : k = i
  · subst h
    by_cases h2 : k < l.length
    · simp [h2]
    · simp [h2]
  · simp [h]

/-- ★ replacing row `k` on both sides by related bit arrays (what `packetMasks[k].Reset()` and
`packetMasks[k].SetBit(j)` do, by `FnFlexFec.reset_src_eq_model` / `setBit_src_eq_model`) preserves the
relation. -/
theorem covRel_setRow (p : S_flexfec_ProtectionCoverage) (c : Coverage) (r : covRel p c) (k : Nat)
    (g : S_flexfec_util_BitArray) (m : BitArray) (h : baRel g m) :
    covRel { p with packetMasks := p.packetMasks.set k g } { c with masks := c.masks.set k m } := by
  refine ⟨by simp [r.len], fun i hi => ?_⟩
  show baRel ((p.packetMasks.set k g).getD i default) ((c.masks.set k m).getD i BitArray.empty)
  have hi' : i < c.masks.length := by simpa using hi
  rw [getD_set', getD_set', r.len]
  by_cases hk : k = i ∧ k < c.masks.length
  · rw [if_pos hk, if_pos hk]; exact h
  · rw [if_neg hk, if_neg hk]; exact r.rows i hi'

/-- ★ replacing a row by a well-formed bit array preserves the invariant. -/
theorem covWf_setRow (c : Coverage) (w : covWf c) (k : Nat) (m : BitArray) (h : wf m) :
    covWf { c with masks := c.masks.set k m } := by
  intro i
  show wf ((c.masks.set k m).getD i BitArray.empty)
  rw [getD_set']
  split
  · exact h
  · exact w i

theorem wf_fillRow (f n : Nat) : ∀ (fuel c : Nat) (b : BitArray), wf b → wf (fillRow f n fuel c b) := by
  intro fuel
  induction fuel with
  | zero => intro c b h; exact h
  | succ k ih =>
    intro c b h
    unfold fillRow
    split
    · exact ih _ _ (wf_setBit b h c)
    · exact h

/-- ★ the model's `buildMasks` (`resetCoverage` + the fill loops of `UpdateCoverage`) satisfies the invariant. -/
theorem covWf_buildMasks (c : Coverage) (n f : Nat) (hm : c.masks = buildMasks n f) : covWf c := by
  intro i
  rw [hm]
  unfold buildMasks
  rw [List.getD_eq_getElem?_getD, List.getElem?_map]
  cases h : (List.range maxFecPackets)[i]? with
  | none => exact wf_empty
  | some j =>
    simp only [Option.map_some, Option.getD_some]
    split
    · exact wf_fillRow _ _ _ _ _ wf_empty
    · exact wf_empty

/-- ★ the model's `UpdateCoverage` preserves the invariant. -/
theorem covWf_update (c : Coverage) (w : covWf c) (media : List Bytes) (f : Nat) :
    covWf (c.update media f) := by
  unfold Coverage.update
  dsimp only
  split
  · exact w
  · split
    · exact w
    · exact covWf_buildMasks _ _ _ rfl

/-- ★ the model's `NewCoverage` establishes the invariant. -/
theorem covWf_new (media : List Bytes) (f : Nat) (c : Coverage) (h : newCoverage media f = some c) : covWf c := by
  unfold newCoverage at h
  dsimp only at h
  split at h
  · cases h
  · simp only [Option.some.injEq] at h
    rw [← h]
    exact covWf_update _ (covWf_zero 0 0 []) media f

/-! satisfiability of the hypotheses on concrete non-trivial values -/

/-- a table whose row 1 protects media packets 1 and 65 (bit 62 of each word). -/
example :
    let p : S_flexfec_ProtectionCoverage :=
      { packetMasks := goZeroMasks.set 1 { Lo := 4611686018427387904, Hi := 4611686018427387904 },
        numFecPackets := 2, numMediaPackets := 66 }
    let c : Coverage :=
      ⟨(List.replicate maxFecPackets BitArray.empty).set 1 ⟨4611686018427387904, 4611686018427387904⟩, 2, 66, []⟩
    covRel p c ∧ covWf c :=
  ⟨covRel_setRow _ _ (covRel_zero 2 66 [] []) 1 _ _ ⟨rfl, rfl⟩,
   covWf_setRow _ (covWf_zero 2 66 []) 1 _ ⟨by decide, by decide⟩⟩

example : flexfec_ProtectionCoverage_ExtractMask1
    { packetMasks := goZeroMasks.set 1 { Lo := 4611686018427387904, Hi := 4611686018427387904 } } 1 = 8192 := by
  have := ExtractMask1_src_eq_model _ _
    (covRel_setRow _ _ (covRel_zero 0 0 [] []) 1 { Lo := 4611686018427387904, Hi := 4611686018427387904 }
      ⟨4611686018427387904, 4611686018427387904⟩ ⟨rfl, rfl⟩) 1 (by omega)
  exact Eq.trans this (by decide)

example : covWf (Coverage.update ⟨List.replicate maxFecPackets BitArray.empty, 0, 0, []⟩ [[1], [2], [3]] 2) :=
  covWf_update _ (covWf_zero 0 0 []) _ _

end Interceptor.Facts.FnFlexFec2

/- Types of the regenerated lifecycle facts (see /verif/extract/lifecycle.go). -/
import Interceptor.Facts.LockTypes
namespace Interceptor.Facts

/-- the syntactic lifecycle shape of one interceptor type. -/
structure LcType where
  label : String
  name : Name
  /-- every `go` statement in its methods: (function context, a WaitGroup.Add precedes it). -/
  goSites : List (Name × Bool)
  /-- Close waits on a WaitGroup. -/
  closeWaits : Bool
  /-- the `close(ch)` in Close happens while a mutex is held. -/
  closeLocked : Bool
  /-- Close closes a channel. -/
  closesChan : Bool
  /-- channel operations on fields of the type that are not a case of a select with a close-channel
  case or a default: "ctx|field|send/recv". -/
  bareChanOps : List Name
  bindLocal : List Name
  unbindLocal : List Name
  bindRemote : List Name
  unbindRemote : List Name
  closeReleases : List Name
  deriving Repr

def subset (xs ys : List Name) : Bool := xs.all fun x => ys.any (· == x)

/-- exceptions: (type-name prefix, rule, justification). -/
inductive LcRule where
  | untrackedGo | closeNoWait | closeUnlocked | bareChan | bindNotReleased
  deriving DecidableEq, Repr

def excused (ex : List (Name × LcRule × String)) (t : LcType) (r : LcRule) : Bool :=
  ex.any fun e => e.1.isPrefixOf t.name && e.2.1 == r

/-- the lifecycle discipline of one interceptor type:
 * every goroutine it starts is registered in a WaitGroup before it starts, and Close waits for it;
 * Close closes its channel only under its mutex (so that a concurrent Bind cannot register a goroutine
   that Close has already stopped waiting for);
 * no channel operation on its fields can wait forever (each is a select case next to the close channel);
 * whatever Bind stores per stream, the matching Unbind removes. -/
def lcOk (ex : List (Name × LcRule × String)) (t : LcType) : Bool :=
  (t.goSites.all (·.2) || excused ex t .untrackedGo) &&
  (t.goSites.isEmpty || t.closeWaits || excused ex t .closeNoWait) &&
  (!t.closesChan || t.closeLocked || excused ex t .closeUnlocked) &&
  (t.bareChanOps.isEmpty || excused ex t .bareChan) &&
  ((subset t.bindLocal t.unbindLocal && subset t.bindRemote t.unbindRemote) || excused ex t .bindNotReleased)

def badTypes (ex : List (Name × LcRule × String)) (ts : List LcType) : List String :=
  (ts.filter (fun t => !lcOk ex t)).map (·.label)

end Interceptor.Facts

/- Types of the regenerated container-size facts (see /verif/extract/sizes.go) and the check. -/
import Interceptor.Facts.LockTypes
namespace Interceptor.Facts

inductive CKind where
  | map | slice | list | syncMap | chan
  deriving DecidableEq, Repr

inductive SizeOp where
  | grow | shrink | reset
  deriving DecidableEq, Repr

inductive How where
  | mapSet | append | store | push | send            -- grow
  | delete | remove | reslice | recv                 -- shrink
  | assign | clear                                   -- reset
  deriving DecidableEq, Repr

/-- one (deduplicated) site at which a container's number of entries changes: the function
context, the operation, whether it is in a constructor (before publication), and whether it is
"hot" (inside a reader/writer closure or a loop body). -/
structure SizeSite where
  ctx : Nat
  op : SizeOp
  how : How
  ctor : Bool
  hot : Bool
  deriving Repr

/-- a struct field of container type, or a container-typed local of a goroutine loop
(`pkg.Func#name`). -/
structure Container where
  label : String
  name : Name
  kind : CKind
  sites : List SizeSite
  deriving Repr

def SizeSite.live (s : SizeSite) : Bool := !s.ctor

/-- the container gains entries after construction. -/
def Container.grows (c : Container) : Bool := c.sites.any fun s => s.live && s.op == .grow

/-- some site after construction removes entries or replaces the container. -/
def Container.shrinks (c : Container) : Bool := c.sites.any fun s => s.live && s.op != .grow

/-- why a container that grows without a shrink/reset site is nevertheless bounded — or that it is
a recorded finding. -/
inductive SizeException where
  /-- growth only in the listed function contexts (prefixes), which run at set-up time / once per
  object (checked on the facts). -/
  | setupOnly (ctxPrefixes : List Name) (reason : String)
  /-- the owning object is created fresh per report / per group and dropped afterwards (trusted). -/
  | freshOwner (reason : String)
  /-- unbuffered or fixed-capacity channel: `send` blocks, the receiver is not a field access (trusted). -/
  | channel (reason : String)
  /-- a recorded finding of C12: the container is not released (see known-findings.json). -/
  | finding (id : String)

def sizeExceptionOk (ctxNames : List Name) (e : SizeException) (c : Container) : Bool :=
  match e with
  | .setupOnly ps _ => c.sites.all fun s => s.ctor || s.op != .grow || ps.any (fun p => p.isPrefixOf (ctxNames.getD s.ctx (0, 0)))
  | .freshOwner _ => true
  | .channel _ => c.kind == .chan
  | .finding _ => true

def containerOk (ctxNames : List Name) (ex : List (Name × SizeException)) (c : Container) : Bool :=
  !c.grows || c.shrinks ||
    match ex.find? (fun e => e.1.isPrefixOf c.name) with
    | some e => sizeExceptionOk ctxNames e.2 c
    | none => false

def badContainers (ctxNames : List Name) (ex : List (Name × SizeException)) (cs : List Container) : List String :=
  (cs.filter (fun c => !containerOk ctxNames ex c)).map (·.label)

/-- containers that grow on a hot path (closure / loop), for the evidence. -/
def hotGrowers (cs : List Container) : List String :=
  (cs.filter (fun c => c.sites.any fun s => s.live && s.hot && s.op == .grow)).map (·.label)

end Interceptor.Facts

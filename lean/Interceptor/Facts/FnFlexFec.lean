/-
Generated translations of pkg/flexfec (util/bitarray.go, flexfec_coverage.go, flexfec_decoder_03.go;
Gen/Fn_flexfec.lean, Gen/Fn_flexfec_util.lean, regenerated from /repo on every run) against the hand-written
model Model/FlexFec.lean that the C14 theorems are about.

* `BitArray.SetBit/GetBit/Reset`, `extractMask1/2/3_03` have direct counterparts (`BitArray.setBit`,
  `BitArray.getBit`, `BitArray.empty`, `mask1`, `mask2`, `mask3`) and are proved equal to them for every
  related pair of bit arrays and every uint32 index (including indices ≥ 128, where the uint32 shift count
  `63 - hiBitIndex` wraps and the shifted bit falls off the word).
* `extractMask3` (the RFC 8627 variant without the K-bit shift) has no model function: it is stated against
  the sub-expression of `mask3` it computes.
* `seqDiff`, `abs`, `isNewerSeq` belong to the decoder, which Model/FlexFec.lean does not cover: they are
  stated against the closest model expressions — `sub16` of Base/Seq16.lean, `Int.natAbs`, and
  `Unwrapper.isNewer` of Model/Unwrapper.lean (the same function with the arguments swapped).
-/
import Interceptor.Gen.Fn_flexfec
import Interceptor.Model.FlexFec
import Interceptor.Model.Unwrapper
import Interceptor.Base.Seq16
namespace Interceptor.Facts.FnFlexFec
open Interceptor.Gen.Fn Interceptor.GoSem Interceptor.FlexFec

/-! ## util.BitArray -/

/-- abstraction relation: the Go struct represents the model bit array. -/
def baRel (g : S_flexfec_util_BitArray) (m : BitArray) : Prop := g.Lo = (m.lo : Int) ∧ g.Hi = (m.hi : Int)

/-- invariant: both words are in the uint64 range. -/
def wf (m : BitArray) : Prop := m.lo < 2 ^ 64 ∧ m.hi < 2 ^ 64

theorem u64_natCast (n : Nat) (h : n < 2 ^ 64) : u64 (n : Int) = (n : Int) := by
  unfold u64; omega

/-- `uint64(1) << k` for a shift count below 64. -/
theorem shl_one_small (k : Int) (h0 : 0 ≤ k) (h : k < 64) : u64 (shl 1 k) = ((2 ^ k.toNat : Nat) : Int) := by
  have hlt : 2 ^ k.toNat < 2 ^ 64 := Nat.pow_lt_pow_right (by omega) (by omega)
  have : shl 1 k = ((2 ^ k.toNat : Nat) : Int) := by unfold shl; simp
  rw [this, u64_natCast _ hlt]

/-- `uint64(1) << k` for a shift count of 64 or more: the bit falls off. -/
theorem shl_one_large (k : Int) (h : 64 ≤ k) : u64 (shl 1 k) = 0 := by
  unfold u64 shl
  rw [Int.one_mul]
  apply Int.emod_eq_zero_of_dvd
  have e1 : (18446744073709551616 : Int) = ((2 ^ 64 : Nat) : Int) := by decide
  have e2 : (2 : Int) ^ k.toNat = ((2 ^ k.toNat : Nat) : Int) := by push_cast; rfl
  rw [e1, e2]
  exact Int.natCast_dvd_natCast.mpr (Nat.pow_dvd_pow 2 (by omega))

theorem pow_lt_word (k : Nat) (h : k < 64) : 2 ^ k < 2 ^ 64 := Nat.pow_lt_pow_right (by omega) h

/-- `w |= 1 << k` on a uint64 word. -/
theorem or_bit (w : Nat) (hw : w < 2 ^ 64) (k : Nat) (hk : k < 64) :
    u64 (bor (w : Int) ((2 ^ k : Nat) : Int)) = ((w ||| 1 <<< k : Nat) : Int) := by
  rw [bor_ofNat, Nat.one_shiftLeft, u64_natCast _ (Nat.or_lt_two_pow hw (pow_lt_word k hk))]

/-- `w & (1 << k)` on a uint64 word. -/
theorem and_bit (w : Nat) (hw : w < 2 ^ 64) (k : Nat) :
    u64 (band (w : Int) ((2 ^ k : Nat) : Int)) = ((w &&& 1 <<< k : Nat) : Int) := by
  rw [band_ofNat, Nat.one_shiftLeft]
  exact u64_natCast _ (Nat.lt_of_le_of_lt Nat.and_le_left hw)

/-- ★ the invariant is established by the zero value / `Reset`. -/
theorem wf_empty : wf BitArray.empty := ⟨by decide, by decide⟩

/-- ★ the invariant is preserved by `SetBit`, for every index. -/
theorem wf_setBit (m : BitArray) (h : wf m) (i : Nat) : wf (m.setBit i) := by
  obtain ⟨h1, h2⟩ := h
  unfold BitArray.setBit wf
  split
  · refine ⟨?_, h2⟩
    rw [Nat.one_shiftLeft]; exact Nat.or_lt_two_pow h1 (pow_lt_word _ (by omega))
  · split
    · refine ⟨h1, ?_⟩
      rw [Nat.one_shiftLeft]; exact Nat.or_lt_two_pow h2 (pow_lt_word _ (by omega))
    · exact ⟨h1, h2⟩

/-- ★ `BitArray.Reset` as written in the source yields the model's empty bit array (whatever the receiver). -/
theorem reset_src_eq_model (g : S_flexfec_util_BitArray) :
    baRel (flexfec_util_BitArray_Reset g) BitArray.empty := ⟨rfl, rfl⟩

/-- ★ `BitArray.SetBit` as written in the source equals the model's, for every uint32 index. -/
theorem setBit_src_eq_model (g : S_flexfec_util_BitArray) (m : BitArray) (r : baRel g m) (hw : wf m)
    (i : Nat) (hi : i < 4294967296) :
    baRel (flexfec_util_BitArray_SetBit g (i : Int)) (m.setBit i) := by
  obtain ⟨rl, rh⟩ := r
  obtain ⟨wl, wh⟩ := hw
  unfold flexfec_util_BitArray_SetBit BitArray.setBit
  by_cases h1 : i < 64
  · have h1' : ((i : Int) < 64) := by omega
    have e : u32 (63 - (i : Int)) = ((63 - i : Nat) : Int) := by unfold u32; omega
    simp only [h1, h1', decide_true, if_true]
    refine ⟨?_, rh⟩
    show u64 (bor g.Lo (u64 (shl 1 (u32 (63 - (i : Int)))))) = _
    rw [e, shl_one_small _ (by omega) (by omega), rl, Int.toNat_natCast, or_bit _ wl _ (by omega)]
  · have h1' : ¬ ((i : Int) < 64) := by omega
    have eh : u32 ((i : Int) - 64) = ((i - 64 : Nat) : Int) := by unfold u32; omega
    simp only [h1, h1', decide_false, Bool.false_eq_true, if_false]
    by_cases h2 : i - 64 ≤ 63
    · have e : u32 (63 - u32 ((i : Int) - 64)) = ((63 - (i - 64) : Nat) : Int) := by rw [eh]; unfold u32; omega
      simp only [h2, if_true]
      refine ⟨rl, ?_⟩
      show u64 (bor g.Hi (u64 (shl 1 (u32 (63 - u32 ((i : Int) - 64)))))) = _
      rw [e, shl_one_small _ (by omega) (by omega), rh, Int.toNat_natCast, or_bit _ wh _ (by omega)]
    · have e : 64 ≤ u32 (63 - u32 ((i : Int) - 64)) := by rw [eh]; unfold u32; omega
      simp only [h2, if_false]
      refine ⟨rl, ?_⟩
      show u64 (bor g.Hi (u64 (shl 1 (u32 (63 - u32 ((i : Int) - 64)))))) = _
      rw [shl_one_large _ e, rh]
      have : bor (m.hi : Int) 0 = ((m.hi ||| 0 : Nat) : Int) := bor_ofNat m.hi 0
      rw [this, Nat.or_zero, u64_natCast _ wh]

theorem pos_iff (n : Nat) : (((n : Nat) : Int) > 0) ↔ n > 0 := by omega

/-- ★ `BitArray.GetBit` as written in the source equals the model's, for every uint32 index. -/
theorem getBit_src_eq_model (g : S_flexfec_util_BitArray) (m : BitArray) (r : baRel g m) (hw : wf m)
    (i : Nat) (hi : i < 4294967296) :
    flexfec_util_BitArray_GetBit g (i : Int) = (m.getBit i : Nat) := by
  obtain ⟨rl, rh⟩ := r
  obtain ⟨wl, wh⟩ := hw
  unfold flexfec_util_BitArray_GetBit BitArray.getBit
  by_cases h1 : i < 64
  · have h1' : ((i : Int) < 64) := by omega
    have e : u32 (63 - (i : Int)) = ((63 - i : Nat) : Int) := by unfold u32; omega
    simp only [h1, h1', decide_true, if_true]
    rw [e, shl_one_small _ (by omega) (by omega), rl, Int.toNat_natCast, and_bit _ wl]
    simp only [pos_iff]
    split <;> simp_all
  · have h1' : ¬ ((i : Int) < 64) := by omega
    have eh : u32 ((i : Int) - 64) = ((i - 64 : Nat) : Int) := by unfold u32; omega
    simp only [h1, h1', decide_false, Bool.false_eq_true, if_false]
    by_cases h2 : i - 64 ≤ 63
    · have e : u32 (63 - u32 ((i : Int) - 64)) = ((63 - (i - 64) : Nat) : Int) := by rw [eh]; unfold u32; omega
      simp only [h2, if_true]
      rw [e, shl_one_small _ (by omega) (by omega), rh, Int.toNat_natCast, and_bit _ wh]
      simp only [pos_iff]
      split <;> simp_all
    · have e : 64 ≤ u32 (63 - u32 ((i : Int) - 64)) := by rw [eh]; unfold u32; omega
      simp only [h2, if_false]
      rw [shl_one_large _ e, rh]
      have : band (m.hi : Int) 0 = ((m.hi &&& 0 : Nat) : Int) := band_ofNat m.hi 0
      rw [this, Nat.and_zero]
      have z : u64 ((0 : Nat) : Int) = 0 := by decide
      rw [z]; rfl

/-! ## flexfec_coverage.go: the three mask fields -/

theorem shr_natCast (n k : Nat) : shr (n : Int) (k : Int) = ((n >>> k : Nat) : Int) := by
  unfold shr
  rw [Nat.shiftRight_eq_div_pow, Int.toNat_natCast]
  push_cast; rfl

theorem shl_natCast_u64 (n k : Nat) : u64 (shl (n : Int) (k : Int)) = (((n <<< k) % two64 : Nat) : Int) := by
  unfold shl u64 two64
  rw [Nat.shiftLeft_eq, Int.toNat_natCast, Int.natCast_emod, Int.natCast_mul, Int.natCast_pow]
  rfl

/-- ★ `extractMask1` as written in the source equals the model's `mask1`. -/
theorem extractMask1_src_eq_model (g : S_flexfec_util_BitArray) (m : BitArray) (r : baRel g m) :
    flexfec_extractMask1 g = (mask1 m : Nat) := by
  unfold flexfec_extractMask1 mask1
  rw [r.1]
  have : shr (m.lo : Int) 49 = ((m.lo >>> 49 : Nat) : Int) := shr_natCast m.lo 49
  dsimp only
  rw [this]
  unfold u16
  generalize m.lo >>> 49 = a
  omega

/-- ★ `extractMask2` as written in the source equals the model's `mask2`. -/
theorem extractMask2_src_eq_model (g : S_flexfec_util_BitArray) (m : BitArray) (r : baRel g m) :
    flexfec_extractMask2 g = (mask2 m : Nat) := by
  unfold flexfec_extractMask2 mask2
  rw [r.1]
  have h1 : u64 (shl (m.lo : Int) 15) = (((m.lo <<< 15) % two64 : Nat) : Int) := shl_natCast_u64 m.lo 15
  have h2 : shr (((m.lo <<< 15) % two64 : Nat) : Int) 33 = ((((m.lo <<< 15) % two64) >>> 33 : Nat) : Int) :=
    shr_natCast ((m.lo <<< 15) % two64) 33
  dsimp only
  rw [h1, h2]
  unfold u32
  generalize (m.lo <<< 15 % two64) >>> 33 = a
  omega

/-- the expression `(mask.Lo << 46) | (mask.Hi >> 18)` of `extractMask3`/`extractMask3_03`. -/
def mask3raw (b : BitArray) : Nat := ((b.lo <<< 46) % two64) ||| (b.hi >>> 18)

theorem mask3_eq_raw (b : BitArray) : mask3 b = mask3raw b >>> 1 := rfl

theorem mask3raw_lt (m : BitArray) (hw : wf m) : mask3raw m < 2 ^ 64 := by
  unfold mask3raw
  apply Nat.or_lt_two_pow
  · unfold two64; omega
  · rw [Nat.shiftRight_eq_div_pow]
    have := hw.2
    exact Nat.lt_of_le_of_lt (Nat.div_le_self _ _) this

theorem mask3_core (g : S_flexfec_util_BitArray) (m : BitArray) (r : baRel g m) (hw : wf m) :
    u64 (bor (u64 (shl g.Lo 46)) (shr g.Hi 18)) = (mask3raw m : Nat) := by
  rw [r.1, r.2]
  have h1 : u64 (shl (m.lo : Int) 46) = (((m.lo <<< 46) % two64 : Nat) : Int) := shl_natCast_u64 m.lo 46
  have h2 : shr (m.hi : Int) 18 = ((m.hi >>> 18 : Nat) : Int) := shr_natCast m.hi 18
  rw [h1, h2, bor_ofNat]
  exact u64_natCast _ (mask3raw_lt m hw)

/-- ★ `extractMask3` (RFC 8627 layout) as written in the source equals the model expression
`(lo << 46) mod 2^64 ||| (hi >> 18)` (no model function of its own: it is `mask3` before the K-bit shift). -/
theorem extractMask3_src_eq_model (g : S_flexfec_util_BitArray) (m : BitArray) (r : baRel g m) (hw : wf m) :
    flexfec_extractMask3 g = (mask3raw m : Nat) := by
  unfold flexfec_extractMask3
  exact mask3_core g m r hw

/-- ★ `extractMask3_03` as written in the source equals the model's `mask3`. -/
theorem extractMask3_03_src_eq_model (g : S_flexfec_util_BitArray) (m : BitArray) (r : baRel g m) (hw : wf m) :
    flexfec_extractMask3_03 g = (mask3 m : Nat) := by
  unfold flexfec_extractMask3_03
  simp only [mask3_core g m r hw, mask3_eq_raw]
  exact shr_natCast (mask3raw m) 1

/-! ## flexfec_decoder_03.go: sequence-number helpers (no model; closest expressions) -/

/-- ★ `seqDiff` as written in the source is the smaller of the two uint16 differences (`sub16` of
Base/Seq16.lean), for all uint16 arguments. -/
theorem seqDiff_src_eq_model (a b : Nat) (ha : a < 65536) (hb : b < 65536) :
    flexfec_seqDiff (a : Int) (b : Int) = (min (sub16 a b) (sub16 b a) : Nat) := by
  unfold flexfec_seqDiff sub16 u16
  omega

/-- ★ `seqDiff` is the circular distance: at most 32768, symmetric, zero only on equal arguments. -/
theorem seqDiff_props (a b : Nat) (ha : a < 65536) (hb : b < 65536) :
    flexfec_seqDiff (a : Int) (b : Int) ≤ 32768 ∧
    flexfec_seqDiff (a : Int) (b : Int) = flexfec_seqDiff (b : Int) (a : Int) ∧
    (flexfec_seqDiff (a : Int) (b : Int) = 0 ↔ a = b) := by
  unfold flexfec_seqDiff u16
  omega

/-- ★ `abs` as written in the source is the absolute value for every int except the most negative one,
where `-x` overflows and the result is `x` itself (−2^63). -/
theorem abs_src_eq_model (x : Int) (h : -9223372036854775808 ≤ x ∧ x ≤ 9223372036854775807) :
    flexfec_abs x = if x = -9223372036854775808 then -9223372036854775808 else (x.natAbs : Int) := by
  unfold flexfec_abs
  by_cases h0 : 0 ≤ x
  · have : (x.natAbs : Int) = x := Int.natAbs_of_nonneg h0
    have hne : x ≠ -9223372036854775808 := by omega
    simp [h0, hne, this]
  · have : (x.natAbs : Int) = -x := Int.ofNat_natAbs_of_nonpos (by omega)
    have hge : ¬ (x ≥ 0) := h0
    simp only [hge, decide_false, Bool.false_eq_true, if_false, this]
    unfold s64
    split <;> omega

/-- ★ `isNewerSeq(prev, value)` as written in the source is the model's `Unwrapper.isNewer value prev`
(the decoder has no model of its own; Model/Unwrapper.lean has the same predicate). -/
theorem isNewerSeq_src_eq_model (p v : Nat) (hp : p < 65536) (hv : v < 65536) :
    flexfec_isNewerSeq (p : Int) (v : Int) = Unwrapper.isNewer v p := by
  unfold flexfec_isNewerSeq Unwrapper.isNewer u16
  have key : (((v + 65536 - p) % 65536 : Nat) : Int) = ((v : Int) - p) % 65536 := by omega
  have hr : 0 ≤ ((v : Int) - p) % 65536 ∧ ((v : Int) - p) % 65536 < 65536 := by omega
  have e1 : (((v : Int) - p) % 65536 = 32768) ↔ ((v + 65536 - p) % 65536 = 32768) := by omega
  have e2 : (((v : Int) - p) % 65536 < 32768) ↔ ((v + 65536 - p) % 65536 < 32768) := by omega
  have e3 : ((v : Int) > p) ↔ v > p := by omega
  have e4 : ((v : Int) ≠ p) ↔ v ≠ p := by omega
  simp only [e1, e2, e3, e4]
  split <;> simp_all

/-! satisfiability of the hypotheses on concrete non-trivial values -/

example : baRel { Lo := 9223372036854775808, Hi := 5 } ⟨9223372036854775808, 5⟩ ∧ wf ⟨9223372036854775808, 5⟩ :=
  ⟨⟨rfl, rfl⟩, ⟨by decide, by decide⟩⟩
example : flexfec_util_BitArray_GetBit { Lo := 9223372036854775808, Hi := 5 } 0 = 1 := by
  have := getBit_src_eq_model { Lo := 9223372036854775808, Hi := 5 } ⟨9223372036854775808, 5⟩ ⟨rfl, rfl⟩
    ⟨by decide, by decide⟩ 0 (by omega)
  rw [show ((0 : Nat) : Int) = 0 from rfl] at this
  rw [this]; decide
example : baRel (flexfec_util_BitArray_SetBit { Lo := 1, Hi := 0 } 4294967295) ((⟨1, 0⟩ : BitArray).setBit 4294967295) :=
  setBit_src_eq_model { Lo := 1, Hi := 0 } ⟨1, 0⟩ ⟨rfl, rfl⟩ ⟨by decide, by decide⟩ 4294967295 (by omega)
example : flexfec_seqDiff 65535 1 = 2 := by
  have := seqDiff_src_eq_model 65535 1 (by omega) (by omega)
  simpa [sub16] using this
example : flexfec_abs (-5) = 5 := by
  have := abs_src_eq_model (-5) (by omega); simpa using this
example : flexfec_isNewerSeq 65535 3 = Unwrapper.isNewer 3 65535 :=
  isNewerSeq_src_eq_model 65535 3 (by omega) (by omega)

end Interceptor.Facts.FnFlexFec

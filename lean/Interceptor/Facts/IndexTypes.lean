/- Types of the regenerated index facts (see /verif/extract/index.go). -/
import Interceptor.Facts.LockTypes
namespace Interceptor.Facts

/-- why an index / slice expression cannot go out of range, as far as syntax shows. -/
inductive IdxClass where
  | map      -- indexing a map
  | range    -- index is the key variable of an enclosing `for i := range base`
  | const    -- constant index / bounds within a fixed-size array, or `x[:]`
  | guarded  -- an enclosing or preceding condition relates the index to `len(base)`
  | open     -- none of the above: must be one of the reviewed sites
  deriving DecidableEq, Repr

structure IdxSite where
  label : String
  name : Name
  cls : IdxClass
  deriving Repr

/-- every syntactically unexplained site is one of the reviewed ones. -/
def openSitesReviewed (sites : List IdxSite) (reviewed : List Name) : Bool :=
  sites.all fun s => s.cls != .open || reviewed.any (· == s.name)

def unreviewed (sites : List IdxSite) (reviewed : List Name) : List String :=
  (sites.filter fun s => s.cls == .open && !reviewed.any (· == s.name)).map (·.label)

end Interceptor.Facts

/-
Constants (regenerated facts): the numeric constants of pion/interceptor that the Lean models
were written with.  A changed constant breaks `consts_ok` (and, independently, the
correspondence of the component that uses it).
-/
import Interceptor.Facts.LockTypes
import Interceptor.Gen.ConstFacts
namespace Interceptor.Facts.Consts
open Interceptor.Facts Interceptor.Gen.ConstFacts

/-- (constant, value the models assume, where it is used). -/
def expected : List (Name × Nat × String) := [
  (nm! "sequencenumber.maxSequenceNumberPlusOne", 65536, "Model/Unwrapper.lean"),
  (nm! "sequencenumber.breakpoint", 32768, "Model/Unwrapper.lean isNewer"),
  (nm! "rtpbuffer.Uint16SizeHalf", 32768, "Model/ReceiveLog.lean, Model/RtpBuffer.lean half-range tests"),
  (nm! "rtpbuffer.maxPayloadLen", 1460, "Model/RtpBuffer.lean pooled payload buffer"),
  (nm! "rtpbuffer.rtxSsrcByteLength", 2, "Model/RtpBuffer.lean RTX prefix"),
  (nm! "report.packetsPerHistoryEntry", 64, "Model/ReceiverReport.lean bitmap words (8192 positions)"),
  (nm! "rfc8888.maxReportsPerReportBlock", 16384, "Model/Rfc8888.lean"),
  (nm! "flexfec.BaseRTPHeaderSize", 12, "Model/FlexFec.lean"),
  (nm! "flexfec.BaseFec03HeaderSize", 20, "Model/FlexFec.lean"),
  (nm! "flexfec.maxFlexFec03MediaPackets", 109, "Model/FlexFec.lean (F-28 fix)"),
  (nm! "flexfec.maxRTPPacketSize", 1500, "Model/FlexFec.lean scratch buffer"),
  (nm! "flexfec.MaxMediaPackets", 110, "Model/FlexFec.lean coverage table"),
  (nm! "flexfec.MaxFecPackets", 110, "Model/FlexFec.lean coverage table"),
  (nm! "jitterbuffer.Buffering", 0, "Model/JitterBuffer.lean"),
  (nm! "jitterbuffer.Emitting", 1, "Model/JitterBuffer.lean"),
  (nm! "gcc.stateIncrease", 0, "Model/Gcc.lean"),
  (nm! "gcc.stateDecrease", 1, "Model/Gcc.lean"),
  (nm! "gcc.stateHold", 2, "Model/Gcc.lean"),
  (nm! "gcc.usageOver", 0, "Model/Gcc.lean"),
  (nm! "gcc.usageUnder", 1, "Model/Gcc.lean"),
  (nm! "gcc.usageNormal", 2, "Model/Gcc.lean"),
  (nm! "twcc.maxRunLengthCap", 8191, "TWCC packer (C05)"),
  (nm! "twcc.maxOneBitCap", 14, "TWCC packer (C05)"),
  (nm! "twcc.maxTwoBitCap", 7, "TWCC packer (C05)"),
  (nm! "twcc.maxMissingSequenceNumbers", 32766, "TWCC recorder (C05)"),
  (nm! "twcc.maxNumberOfPackets", 32768, "TWCC arrival map (C05, C12)"),
  (nm! "twcc.minCapacity", 128, "TWCC arrival map (C05, C12)"),
  (nm! "twcc.packetWindowMicroseconds", 500000, "TWCC recorder history window (C05)"),
  (nm! "twcc.maxDeltaBytes", 49152, "TWCC feedback size cap, Model/Twcc.lean addReceived (C05, F-37)")
]

def constOk (e : Name × Nat × String) : Bool := consts.any fun c => c.1 == e.1 && c.2 == e.2.1

def wrong : List Nat := (expected.zipIdx.filter fun e => !constOk e.1).map (·.2)

/-- ★ every constant the models rely on has the assumed value in the source. -/
theorem consts_ok : expected.all constOk = true := by decide +kernel

end Interceptor.Facts.Consts

/-
`receiverStream.processRTP` and `receiverStream.processSenderReport` as written in
pkg/report/receiver_stream.go (generated translation Gen/Fn_report.lean, regenerated from /repo on every
run) compute exactly the hand-written model `ReceiverReport.processRTP` / `processSR`
(Model/ReceiverReport.lean) that the C06 theorems are about — the whole of `processRTP`: the first-packet
branch, the `diff`/wrap-around case analysis, the cycle counter, the loop that clears the skipped
positions of the packed `[]uint64` history (terminates within 32767 iterations: any fuel ≥ 32768 suffices),
and the binary64 jitter update.

The relation `Rel` is field-by-field equality except for `packets` (`ReportBitmap.bitsRel`: position `p` of
the model's `Array Bool` is bit `p % 64` of word `p / 64`) and the two `time.Time` fields
(`FnSenderReport.timeRel`: `none` is the zero `time.Time`).  One hypothesis is needed beyond the ranges of
the Go types: Go's `Time.Sub` saturates at ±2^63 ns while the model subtracts exactly, so the instants must
be such that differences fit — `instant t : −2^62 ≤ t < 2^62` (Unix nanoseconds; years 1823..2116) for
`now` and, as the invariant `TimeOk`, for the stored `lastRTPTimeTime`.  `TimeOk` is established by the
constructor and preserved by both mutators; `Rel` likewise; `run_src_eq_model` chains them over arbitrary
call sequences.
-/
import Interceptor.Proofs.ReportBitmap
import Interceptor.Facts.FnSenderReport
namespace Interceptor.Facts.FnReceiverReport
open Interceptor.Gen.Fn Interceptor.GoSem Interceptor.ReceiverReport Interceptor.ReportBitmap
open Interceptor.Facts.FnSenderReport (goZeroTime timeRel timeSub_rel HeaderOk)

abbrev S := S_report_receiverStream

/-- abstraction relation: the Go struct represents the model state (`receiverSSRC`, random, is not in the
model). -/
structure Rel (g : S) (m : Stream) : Prop where
  ssrc : g.ssrc = (m.ssrc : Int)
  rate : g.clockRate = F64.ofInt (m.rate : Int)
  size : g.size = 128
  bits : bitsRel g.packets m.bits
  started : g.started = m.started
  cycles : g.seqnumCycles = (m.cycles : Int)
  last : g.lastSeqnum = (m.last : Int)
  lastReport : g.lastReportSeqnum = (m.lastReport : Int)
  lastTs : g.lastRTPTimeRTP = (m.lastTs : Int)
  lastTime : timeRel g.lastRTPTimeTime m.lastTime
  jitter : g.jitter = m.jitter
  lsr : g.lastSenderReport = (m.lsr : Int)
  lsrTime : timeRel g.lastSenderReportTime m.lsrTime
  totalLost : g.totalLost = (m.totalLost : Int)

/-- an instant whose differences with any other such instant fit a `time.Duration`. -/
def instant (t : Int) : Prop := -4611686018427387904 ≤ t ∧ t < 4611686018427387904

/-- invariant: the stored arrival time of the last packet, when there is one, is such an instant. -/
def TimeOk (m : Stream) : Prop := ∀ u, m.lastTime = some u → instant u

/-- the struct literal of `newReceiverStream(ssrc, clockRate)` (receiver_stream.go:42; a composite literal,
not in extract/fn.list; `r` is the value `rand.Uint32()` returned). -/
def goNew (ssrc rate r : Nat) : S :=
  { ssrc := ssrc, receiverSSRC := r, clockRate := F64.ofInt (rate : Int), size := 128, packets := mkSlice 128,
    lastRTPTimeTime := goZeroTime, lastSenderReportTime := goZeroTime }

/-- ★ the constructor establishes the relation. -/
theorem rel_new (ssrc rate r : Nat) : Rel (goNew ssrc rate r) (ReceiverReport.new ssrc rate) := by
  refine ⟨rfl, rfl, rfl, bitsRel_new, rfl, rfl, rfl, rfl, rfl, rfl, rfl, rfl, rfl, rfl⟩

/-- ★ the constructor establishes the invariant. -/
theorem timeOk_new (ssrc rate : Nat) : TimeOk (ReceiverReport.new ssrc rate) := by
  intro u hu; simp [ReceiverReport.new] at hu

/-! ## processSenderReport -/

/-- ★ `processSenderReport` as written in the source equals the model's `processSR`, for every uint64
NTP time and every instant. -/
theorem processSenderReport_src_eq_model (g : S) (m : Stream) (r : Rel g m) (now : Int)
    (sr : S_rtcp_SenderReport) (hn : 0 ≤ sr.NTPTime ∧ sr.NTPTime < 18446744073709551616) :
    Rel (report_receiverStream_processSenderReport g now sr) (processSR m now sr.NTPTime.toNat) := by
  have e : u32 (shr sr.NTPTime 16) = (((sr.NTPTime.toNat / 65536) % M32 : Nat) : Int) := by
    unfold shr u32 M32
    have : (2 : Int) ^ (16 : Int).toNat = 65536 := by decide
    rw [this]; omega
  unfold report_receiverStream_processSenderReport processSR
  exact ⟨r.ssrc, r.rate, r.size, r.bits, r.started, r.cycles, r.last, r.lastReport, r.lastTs, r.lastTime,
    r.jitter, e, rfl, r.totalLost⟩

/-- ★ `processSR` preserves the invariant. -/
theorem timeOk_processSR (m : Stream) (h : TimeOk m) (now : Int) (ntp : Nat) : TimeOk (processSR m now ntp) := h

/-! ## processRTP: the generated definition, restated with its pieces named -/

/-- `stream.jitter += (D - stream.jitter) / 16; lastRTPTimeRTP = ts; lastRTPTimeTime = now`. -/
def upd (st : S) (D : Rat) (ts now : Int) : S :=
  { st with jitter := F64.add st.jitter (F64.div (F64.sub D st.jitter) 16), lastRTPTimeRTP := ts,
            lastRTPTimeTime := now }

/-- `now.Sub(lastRTPTimeTime).Seconds()*clockRate - float64(int32(ts - lastRTPTimeRTP))`. -/
def dOf (st : S) (now ts : Int) : Rat :=
  F64.sub (F64.mul (durSeconds (timeSub now st.lastRTPTimeTime)) st.clockRate)
    (F64.ofInt (s32 (u32 (ts - st.lastRTPTimeRTP))))

/-- the jitter computation at the end of the `else` branch. -/
def tail (st : S) (now ts : Int) : Option S :=
  if decide (dOf st now ts < 0) then some (upd st (-(dOf st now ts)) ts now) else some (upd st (dOf st now ts) ts now)

/-- loop condition `i != pktHeader.SequenceNumber`. -/
def lcond (seq : Int) : Int × S → Bool := fun p => decide (p.1 ≠ seq)
/-- loop body `stream.delReceived(i); i++`. -/
def lbody : Int × S → Int × S := fun p => (u16 (p.1 + 1), report_receiverStream_delReceived p.2 p.1)

/-- the loop, `lastSeqnum = seq`, then the jitter computation. -/
def afterLoop (fuel : Nat) (st0 : S) (seq ts now : Int) : Option S :=
  match loop fuel (lcond seq) lbody (u16 (st0.lastSeqnum + 1), st0) with
  | none => none
  | some p => tail { p.2 with lastSeqnum := seq } now ts

/-- the first-packet branch. -/
def first (st : S) (now seq ts : Int) : S :=
  { report_receiverStream_setReceived { st with started := true } seq with
    lastSeqnum := seq, lastReportSeqnum := u16 (seq - 1), lastRTPTimeRTP := ts, lastRTPTimeTime := now }

def procRTP' (fuel : Nat) (st : S) (now seq ts : Int) : Option S :=
  if !st.started then some (first st now seq ts)
  else
    let st1 := report_receiverStream_setReceived st seq
    if decide (u16 (seq - st1.lastSeqnum) > 0) && decide (u16 (seq - st1.lastSeqnum) < 32768) then
      if decide (seq < st1.lastSeqnum) then
        afterLoop fuel { st1 with seqnumCycles := u16 (st1.seqnumCycles + 1) } seq ts now
      else afterLoop fuel st1 seq ts now
    else tail st1 now ts

/-- the generated `processRTP` IS `procRTP'` (same control structure, pieces named): by unfolding. -/
theorem gen_eq (fuel : Nat) (st : S) (now : Int) (h : S_rtp_Header) :
    report_receiverStream_processRTP fuel st now h = procRTP' fuel st now h.SequenceNumber h.Timestamp := by
  unfold report_receiverStream_processRTP procRTP'
  split
  · rfl
  · dsimp only
    split
    · split
      · unfold afterLoop lcond lbody
        generalize (loop fuel _ _ _) = o
        cases o <;> rfl
      · unfold afterLoop lcond lbody
        generalize (loop fuel _ _ _) = o
        cases o <;> rfl
    · rfl

/-! ## the model's `processRTP`, restated the same way -/

/-- the model state after the sequence-number part of the `else` branch. -/
def mid (m : Stream) (seq : Nat) : Stream :=
  let bits1 := setBit m.bits seq true
  let diff := sub16 seq m.last
  if 0 < diff ∧ diff < 32768 then
    { m with cycles := if seq < m.last then (m.cycles + 1) % 65536 else m.cycles,
             bits := clearRange bits1 (add16 m.last 1) (diff - 1),
             last := seq }
  else { m with bits := bits1 }

/-- the jitter part. -/
def jit (m1 : Stream) (now : Int) (ts : Nat) : Stream :=
  { m1 with jitter := jitterStep m1.jitter (jitterD m1.rate (GoTime.sub now m1.lastTime) ts m1.lastTs),
            lastTs := ts, lastTime := some now }

theorem model_started (m : Stream) (now : Int) (seq ts : Nat) (hs : m.started = true) :
    processRTP m now seq ts = jit (mid m seq) now ts := by
  unfold processRTP mid jit
  simp only [hs, Bool.not_true, Bool.false_eq_true, if_false]
  split <;> rfl

theorem model_first (m : Stream) (now : Int) (seq ts : Nat) (hs : m.started = false) :
    processRTP m now seq ts =
      { m with started := true, bits := setBit m.bits seq true, last := seq, lastReport := sub16 seq 1,
               lastTs := ts, lastTime := some now } := by
  unfold processRTP
  simp only [hs, Bool.not_false, if_true]

/-! ## the jitter update -/

theorem sdiff_eq (ts lastTs : Nat) (ht : ts < 4294967296) :
    s32 (u32 ((ts : Int) - (lastTs : Int))) = sdiff32 ts lastTs := by
  unfold s32 u32 sdiff32 M32
  simp only
  split <;> omega

/-- the jitter computation on related states (`g1`/`m1` are the states after the sequence-number part). -/
theorem tail_rel (g1 : S) (m1 : Stream) (r : Rel g1 m1) (tok : TimeOk m1) (now : Int) (ts : Nat)
    (hn : instant now) (ht : ts < 4294967296) :
    ∃ g', tail g1 now (ts : Int) = some g' ∧ Rel g' (jit m1 now ts) := by
  have hsub : timeSub now g1.lastRTPTimeTime = GoTime.sub now m1.lastTime := by
    refine timeSub_rel now _ _ r.lastTime (by unfold instant at hn; omega) (fun u hu => ?_)
    have := tok u hu
    unfold instant at hn this; omega
  have hd : dOf g1 now (ts : Int)
      = F64.sub (F64.mul (GoTime.seconds (GoTime.sub now m1.lastTime)) (F64.ofInt (m1.rate : Int)))
          (F64.ofInt (sdiff32 ts m1.lastTs)) := by
    unfold dOf
    rw [hsub, r.rate, r.lastTs, sdiff_eq ts m1.lastTs ht]
    rfl
  have hrel : ∀ D : Rat, D = jitterD m1.rate (GoTime.sub now m1.lastTime) ts m1.lastTs →
      Rel (upd g1 D (ts : Int) now) (jit m1 now ts) := by
    intro D hD
    unfold upd jit
    refine ⟨r.ssrc, r.rate, r.size, r.bits, r.started, r.cycles, r.last, r.lastReport, rfl, rfl, ?_, r.lsr,
      r.lsrTime, r.totalLost⟩
    show F64.add g1.jitter (F64.div (F64.sub D g1.jitter) 16) = jitterStep m1.jitter _
    rw [r.jitter, hD]; rfl
  unfold tail
  by_cases hneg : dOf g1 now (ts : Int) < 0
  · refine ⟨upd g1 (-(dOf g1 now (ts : Int))) (ts : Int) now, by simp only [hneg, decide_true, if_true], hrel _ ?_⟩
    unfold jitterD
    simp only [← hd, hneg, if_true]
  · refine ⟨upd g1 (dOf g1 now (ts : Int)) (ts : Int) now,
      by simp only [hneg, decide_false, Bool.false_eq_true, if_false], hrel _ ?_⟩
    unfold jitterD
    simp only [← hd, hneg, if_false]

/-! ## the loop -/

theorem loop_succ {σ : Type} (n : Nat) (c : σ → Bool) (b : σ → σ) (s : σ) :
    loop (n + 1) c b s = if c s then loop n c b (b s) else some s := rfl

/-- ★ the clearing loop terminates and computes the model's `clearRange`: started at `i` with `n` steps to
go to `seq` (`n < 65536`), any fuel above `n` suffices, the counter ends at `seq`, only `packets` changes
and it represents `clearRange b i n`. -/
theorem loop_clear (seq : Int) :
    ∀ (n : Nat) (i : Int) (st : S) (b : Array Bool), 0 ≤ i ∧ i < 65536 → st.size = 128 →
      bitsRel st.packets b → n < 65536 → (i + n) % 65536 = seq →
      ∀ fuel, n + 1 ≤ fuel →
        ∃ ws, loop fuel (lcond seq) lbody (i, st) = some (seq, { st with packets := ws }) ∧
          bitsRel ws (clearRange b i.toNat n) := by
  intro n
  induction n with
  | zero =>
    intro i st b hi hsz hb _ he fuel hf
    obtain ⟨f, rfl⟩ : ∃ f, fuel = f + 1 := ⟨fuel - 1, by omega⟩
    have : i = seq := by omega
    subst this
    refine ⟨st.packets, ?_, hb⟩
    rw [loop_succ]
    simp [lcond]
  | succ n ih =>
    intro i st b hi hsz hb hn he fuel hf
    obtain ⟨f, rfl⟩ : ∃ f, fuel = f + 1 := ⟨fuel - 1, by omega⟩
    have hne : i ≠ seq := by omega
    obtain ⟨ws1, hdel, hb1⟩ := delReceived_src_eq_model st b hsz hb i hi
    have hi' : 0 ≤ u16 (i + 1) ∧ u16 (i + 1) < 65536 := by unfold u16; omega
    have he' : (u16 (i + 1) + (n : Int)) % 65536 = seq := by unfold u16; omega
    obtain ⟨ws, hl, hbw⟩ := ih (u16 (i + 1)) { st with packets := ws1 } (setBit b i.toNat false) hi' hsz hb1
      (by omega) he' f (by omega)
    refine ⟨ws, ?_, ?_⟩
    · rw [loop_succ]
      have hc : lcond seq (i, st) = true := by simp [lcond, hne]
      have hbd : lbody (i, st) = (u16 (i + 1), { st with packets := ws1 }) := by
        simp only [lbody, hdel]
      rw [hc, if_pos rfl, hbd, hl]
    · have : (u16 (i + 1)).toNat = add16 i.toNat 1 := by unfold u16 add16; omega
      rw [this] at hbw
      exact hbw

/-! ## processRTP -/

theorem rel_packets (g : S) (m : Stream) (r : Rel g m) (ws : List Int) (b : Array Bool) (hb : bitsRel ws b) :
    Rel { g with packets := ws } { m with bits := b } :=
  ⟨r.ssrc, r.rate, r.size, hb, r.started, r.cycles, r.last, r.lastReport, r.lastTs, r.lastTime, r.jitter,
    r.lsr, r.lsrTime, r.totalLost⟩

theorem rel_last (g : S) (m : Stream) (r : Rel g m) (n : Nat) :
    Rel { g with lastSeqnum := (n : Int) } { m with last := n } :=
  ⟨r.ssrc, r.rate, r.size, r.bits, r.started, r.cycles, rfl, r.lastReport, r.lastTs, r.lastTime, r.jitter,
    r.lsr, r.lsrTime, r.totalLost⟩

theorem rel_cycles (g : S) (m : Stream) (r : Rel g m) (c : Int) (n : Nat) (h : c = (n : Int)) :
    Rel { g with seqnumCycles := c } { m with cycles := n } :=
  ⟨r.ssrc, r.rate, r.size, r.bits, r.started, h, r.last, r.lastReport, r.lastTs, r.lastTime, r.jitter,
    r.lsr, r.lsrTime, r.totalLost⟩

/-- the loop plus the jitter tail, on related states. -/
theorem afterLoop_rel (g0 : S) (m0 : Stream) (r : Rel g0 m0) (tok : TimeOk m0) (now : Int) (seq ts : Nat)
    (hs : seq < 65536) (ht : ts < 4294967296) (hn : instant now)
    (hd : 0 < sub16 seq m0.last ∧ sub16 seq m0.last < 32768) (fuel : Nat) (hf : 32768 ≤ fuel) :
    ∃ g', afterLoop fuel g0 (seq : Int) (ts : Int) now = some g' ∧
      Rel g' (jit { m0 with bits := clearRange m0.bits (add16 m0.last 1) (sub16 seq m0.last - 1), last := seq } now ts) := by
  have hi : 0 ≤ u16 (g0.lastSeqnum + 1) ∧ u16 (g0.lastSeqnum + 1) < 65536 := by unfold u16; omega
  have hi2 : (u16 (g0.lastSeqnum + 1)).toNat = add16 m0.last 1 := by rw [r.last]; unfold u16 add16; omega
  have he : (u16 (g0.lastSeqnum + 1) + ((sub16 seq m0.last - 1 : Nat) : Int)) % 65536 = (seq : Int) := by
    rw [r.last]; unfold u16; unfold sub16 at hd ⊢; omega
  obtain ⟨ws, hl, hb⟩ := loop_clear (seq : Int) (sub16 seq m0.last - 1) _ g0 m0.bits hi r.size r.bits (by omega) he
    fuel (by omega)
  rw [hi2] at hb
  have r1 := rel_last _ _ (rel_packets g0 m0 r ws _ hb) seq
  have tok1 : TimeOk { m0 with bits := clearRange m0.bits (add16 m0.last 1) (sub16 seq m0.last - 1), last := seq } := tok
  obtain ⟨g', hg, hr⟩ := tail_rel _ _ r1 tok1 now ts hn ht
  refine ⟨g', ?_, hr⟩
  unfold afterLoop
  rw [hl]
  exact hg

/-- ★ `receiverStream.processRTP` as written in the source terminates (any fuel ≥ 32768 suffices for the
clearing loop) and equals the model's step: it maps related states to related states, for every header in
the range of the Go types and every instant `now`. -/
theorem processRTP_src_eq_model (g : S) (m : Stream) (r : Rel g m) (tok : TimeOk m) (now : Int)
    (h : S_rtp_Header) (hh : HeaderOk h) (hn : instant now) :
    ∀ fuel, 32768 ≤ fuel →
      ∃ g', report_receiverStream_processRTP fuel g now h = some g' ∧
        Rel g' (processRTP m now h.SequenceNumber.toNat h.Timestamp.toNat) := by
  intro fuel hf
  obtain ⟨hs0, hs1⟩ := hh.seq
  obtain ⟨ht0, ht1⟩ := hh.ts
  have hseq : h.SequenceNumber = ((h.SequenceNumber.toNat : Nat) : Int) := by omega
  have hts : h.Timestamp = ((h.Timestamp.toNat : Nat) : Int) := by omega
  generalize h.SequenceNumber.toNat = seq at hseq
  generalize h.Timestamp.toNat = ts at hts
  have hsq : seq < 65536 := by omega
  have htq : ts < 4294967296 := by omega
  rw [gen_eq, hseq, hts]
  unfold procRTP'
  cases hst : m.started
  · -- first packet
    have hgs : g.started = false := by rw [r.started, hst]
    obtain ⟨ws, hset, hb⟩ := setReceived_src_eq_model { g with started := true } m.bits r.size r.bits (seq : Int)
      (by omega)
    rw [Int.toNat_natCast] at hb
    have hns : (!g.started) = true := by rw [hgs]; rfl
    refine ⟨first g now seq ts, by rw [if_pos hns], ?_⟩
    rw [model_first m now seq ts hst]
    unfold first
    rw [hset]
    refine ⟨r.ssrc, r.rate, r.size, hb, rfl, r.cycles, rfl, ?_, rfl, rfl, r.jitter, r.lsr, r.lsrTime, r.totalLost⟩
    show u16 ((seq : Int) - 1) = ((sub16 seq 1 : Nat) : Int)
    unfold u16 sub16; omega
  · -- following packets
    have hgs : g.started = true := by rw [r.started, hst]
    obtain ⟨ws, hset, hb⟩ := setReceived_src_eq_model g m.bits r.size r.bits (seq : Int) (by omega)
    rw [Int.toNat_natCast] at hb
    have r1 : Rel { g with packets := ws } { m with bits := setBit m.bits seq true } := rel_packets g m r ws _ hb
    have tok1 : TimeOk { m with bits := setBit m.bits seq true } := tok
    rw [model_started m now seq ts hst]
    have hns : ¬ ((!g.started) = true) := by rw [hgs]; decide
    rw [if_neg hns]
    simp only [hset]
    have hdiff : u16 ((seq : Int) - g.lastSeqnum) = ((sub16 seq m.last : Nat) : Int) := by
      rw [r.last]; unfold u16 sub16; omega
    rw [hdiff]
    by_cases hd : 0 < sub16 seq m.last ∧ sub16 seq m.last < 32768
    · have hc : (decide ((((sub16 seq m.last : Nat) : Int)) > 0) && decide (((sub16 seq m.last : Nat) : Int) < 32768)) = true := by
        have h1 : (((sub16 seq m.last : Nat) : Int)) > 0 := by omega
        have h2 : (((sub16 seq m.last : Nat) : Int)) < 32768 := by omega
        rw [decide_eq_true h1, decide_eq_true h2]; rfl
      simp only [hc, if_true]
      by_cases hw : seq < m.last
      · have hw' : ((seq : Int) < g.lastSeqnum) := by rw [r.last]; omega
        simp only [hw', decide_true, if_true]
        have r2 := rel_cycles _ _ r1 (u16 (g.seqnumCycles + 1)) ((m.cycles + 1) % 65536)
          (by rw [r.cycles]; unfold u16; omega)
        have tok2 : TimeOk { m with bits := setBit m.bits seq true, cycles := (m.cycles + 1) % 65536 } := tok
        obtain ⟨g', hg, hr⟩ := afterLoop_rel _ _ r2 tok2 now seq ts hsq htq hn hd fuel hf
        refine ⟨g', hg, ?_⟩
        have : mid m seq = { m with bits := clearRange (setBit m.bits seq true) (add16 m.last 1) (sub16 seq m.last - 1), cycles := (m.cycles + 1) % 65536, last := seq } := by
          unfold mid; simp only [hd, hw, and_self, if_true]
        rw [this]; exact hr
      · have hw' : ¬ ((seq : Int) < g.lastSeqnum) := by rw [r.last]; omega
        simp only [hw', decide_false, Bool.false_eq_true, if_false]
        obtain ⟨g', hg, hr⟩ := afterLoop_rel _ _ r1 tok1 now seq ts hsq htq hn hd fuel hf
        refine ⟨g', hg, ?_⟩
        have : mid m seq = { m with bits := clearRange (setBit m.bits seq true) (add16 m.last 1) (sub16 seq m.last - 1), last := seq } := by
          unfold mid; simp only [hd, hw, and_self, if_true, if_false]
        rw [this]; exact hr
    · have hc : (decide ((((sub16 seq m.last : Nat) : Int)) > 0) && decide (((sub16 seq m.last : Nat) : Int) < 32768)) = false := by
        by_cases h1 : (((sub16 seq m.last : Nat) : Int)) > 0
        · have h2 : ¬ ((((sub16 seq m.last : Nat) : Int)) < 32768) := by omega
          rw [decide_eq_false h2, Bool.and_false]
        · rw [decide_eq_false h1, Bool.false_and]
      simp only [hc, Bool.false_eq_true, if_false]
      obtain ⟨g', hg, hr⟩ := tail_rel _ _ r1 tok1 now ts hn htq
      refine ⟨g', hg, ?_⟩
      have : mid m seq = { m with bits := setBit m.bits seq true } := by
        unfold mid; simp only [hd, if_false]
      rw [this]; exact hr

/-- ★ `processRTP` (model) establishes/preserves the invariant `TimeOk` for every instant `now`. -/
theorem timeOk_processRTP (m : Stream) (now : Int) (seq ts : Nat) (hn : instant now) :
    TimeOk (processRTP m now seq ts) := by
  intro u hu
  cases hst : m.started
  · rw [model_first m now seq ts hst] at hu
    simp only [Option.some.injEq] at hu
    rw [← hu]; exact hn
  · rw [model_started m now seq ts hst] at hu
    simp only [jit, Option.some.injEq] at hu
    rw [← hu]; exact hn

/-! ## chaining over arbitrary call sequences -/

inductive Call where
  | rtp (now : Int) (h : S_rtp_Header)
  | sr (now : Int) (sr : S_rtcp_SenderReport)

/-- the arguments are in the ranges of their Go types, `now` of an RTP packet is an `instant`. -/
def Call.ok : Call → Prop
  | .rtp now h => HeaderOk h ∧ instant now
  | .sr _ rep => 0 ≤ rep.NTPTime ∧ rep.NTPTime < 18446744073709551616

def goStep (fuel : Nat) (g : S) : Call → Option S
  | .rtp now h => report_receiverStream_processRTP fuel g now h
  | .sr now rep => some (report_receiverStream_processSenderReport g now rep)

def modelStep (m : Stream) : Call → Stream
  | .rtp now h => processRTP m now h.SequenceNumber.toNat h.Timestamp.toNat
  | .sr now rep => processSR m now rep.NTPTime.toNat

def goRun (fuel : Nat) : S → List Call → Option S
  | g, [] => some g
  | g, c :: cs => match goStep fuel g c with
    | none => none
    | some g' => goRun fuel g' cs

/-- ★ the step theorems chain: any sequence of `processRTP` / `processSenderReport` calls with arguments in
range, run with fuel 32768 per call, terminates and ends in a state related to the model's — in particular
from the constructor (`rel_new`, `timeOk_new`). -/
theorem run_src_eq_model (fuel : Nat) (hf : 32768 ≤ fuel) (cs : List Call) (hok : ∀ c ∈ cs, c.ok) :
    ∀ (g : S) (m : Stream), Rel g m → TimeOk m →
      ∃ g', goRun fuel g cs = some g' ∧ Rel g' (cs.foldl modelStep m) ∧ TimeOk (cs.foldl modelStep m) := by
  induction cs with
  | nil => intro g m r t; exact ⟨g, rfl, r, t⟩
  | cons c cs ih =>
    intro g m r t
    have hc := hok c (by simp)
    have hrest : ∀ c' ∈ cs, c'.ok := fun c' h' => hok c' (by simp [h'])
    cases c with
    | rtp now h =>
      obtain ⟨hh, hn⟩ := hc
      obtain ⟨g1, hg1, r1⟩ := processRTP_src_eq_model g m r t now h hh hn fuel hf
      obtain ⟨g', hg', r', t'⟩ := ih hrest g1 _ r1 (timeOk_processRTP m now _ _ hn)
      exact ⟨g', by simp only [goRun, goStep, hg1, hg'], r', t'⟩
    | sr now rep =>
      have r1 := processSenderReport_src_eq_model g m r now rep hc
      obtain ⟨g', hg', r', t'⟩ := ih hrest _ _ r1 (timeOk_processSR m t now _)
      exact ⟨g', by simp only [goRun, goStep, hg'], r', t'⟩

/-! satisfiability of the hypotheses on concrete non-trivial states -/

example : Rel (goNew 7 90000 12345) (ReceiverReport.new 7 90000) ∧ TimeOk (ReceiverReport.new 7 90000) :=
  ⟨rel_new 7 90000 12345, timeOk_new 7 90000⟩

example : instant 946684800000000000 := by unfold instant; omega

/-- a started stream at sequence number 65535 receiving sequence number 2 (wrap-around, two positions to
clear): the hypotheses of the step theorem hold, so the generated code terminates on it. -/
example : ∃ g m, Rel g m ∧ TimeOk m ∧ m.started = true ∧ m.last = 65535 := by
  obtain ⟨g', _, r', t'⟩ := run_src_eq_model 32768 (by omega)
    [.rtp 946684800000000000 { SequenceNumber := 65535, Timestamp := 3000 }]
    (by
      intro c hc
      simp only [List.mem_singleton] at hc
      subst hc
      exact ⟨⟨by decide, by decide⟩, by unfold instant; omega⟩)
    (goNew 7 90000 12345) (ReceiverReport.new 7 90000) (rel_new _ _ _) (timeOk_new _ _)
  exact ⟨g', _, r', t', rfl, rfl⟩

/-- the clearing loop from counter 65535 to sequence number 2 on the fresh history: three iterations. -/
example : ∃ ws, loop 4 (lcond 2) lbody (65535, goNew 7 90000 1) = some (2, { goNew 7 90000 1 with packets := ws }) ∧
    bitsRel ws (clearRange (Array.replicate W false) 65535 3) :=
  loop_clear 2 3 65535 (goNew 7 90000 1) _ (by omega) rfl bitsRel_new (by omega) (by omega) 4 (by omega)

example : Call.ok (.sr 5 { NTPTime := 16755510599426244608 }) := ⟨by decide, by decide⟩

end Interceptor.Facts.FnReceiverReport

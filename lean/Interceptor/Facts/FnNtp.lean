/-
The generated translation of internal/ntp/ntp.go (regenerated from /repo on every run) computes exactly
the hand-written model the C20 theorems are about.
-/
import Interceptor.Gen.Fn_ntp
import Interceptor.Model.Ntp
namespace Interceptor.Facts.FnNtp
open Interceptor.Gen.Fn Interceptor.GoSem

theorem toUint32_cast (q : Rat) : ((F64.toUint32 q : Nat) : Int) = u32 (F64.toInt64 q) := by
  unfold F64.toUint32 u32; omega

/-- `a<<32 | b` for 32-bit halves. -/
theorem bor_shl32 (a b : Nat) (ha : a < 4294967296) (hb : b < 4294967296) :
    u64 (bor (u64 (shl (a : Int) 32)) (b : Int)) = ((a * 4294967296 + b : Nat) : Int) := by
  have h1 : shl (a : Int) 32 = ((a * 4294967296 : Nat) : Int) := by
    unfold shl; simp
  have h2 : u64 ((a * 4294967296 : Nat) : Int) = ((a * 4294967296 : Nat) : Int) := by unfold u64; omega
  rw [h1, h2, bor_ofNat]
  have h3 : a * 4294967296 ||| b = a * 4294967296 + b := by
    have := Nat.two_pow_add_eq_or_of_lt (i := 32) (b := b) (by simpa using hb) a
    rw [show (2 : Nat) ^ 32 = 4294967296 from rfl, Nat.mul_comm] at this
    omega
  rw [h3]; unfold u64; omega

/-- ★ `ToNTP` as written in the source equals the model. -/
theorem toNTP_src_eq_model (ns : Int) : ntp_ToNTP ns = (Ntp.toNTP ns : Int) := by
  unfold ntp_ToNTP Ntp.toNTP
  simp only [← toUint32_cast]
  rw [bor_shl32 _ _ (by unfold F64.toUint32; omega) (by unfold F64.toUint32; omega)]

end Interceptor.Facts.FnNtp

/-
The generated translation of pkg/rfc8888/stream_log.go (Gen/Fn_rfc8888.lean, regenerated from /repo on every
run: `newStreamLog`, `streamLog.add`, `streamLog.metricsAfter`) computes exactly the hand-written model
`Rfc8888.StreamLog` (Model/Rfc8888.lean: `StreamLog.new`, `add`, `metricsAfter`) that the C08 theorems are about.

The Go `map[int64]*packetReport` is translated to an association list (`List (Int × S_rfc8888_packetReport)`,
Base/GoSem.lean `mapGet/mapHas/mapSet/mapDel/mapLen/mapFilter`); the model's log is an association list of its own.
The abstraction relation `LogRel` says that both lists represent the same finite map (same key set, same
(arrivalTime, ecn) per key) and that the keys of the Go list are unique.
-/
import Interceptor.Gen.Fn_rfc8888
import Interceptor.Model.Rfc8888
import Interceptor.Facts.FnUnwrapper
import Interceptor.Facts.FnRfc8888
set_option linter.unusedVariables false
namespace Interceptor.Facts.FnStreamLog
open Interceptor.Gen.Fn Interceptor.GoSem Interceptor.Facts.FnUnwrapper Interceptor.Facts.FnRfc8888

/-! ### association lists as finite maps -/

/-- the finite map that a Go association list represents. -/
def glookup {α : Type} : List (Int × α) → Int → Option α
  | [], _ => none
  | (k, e) :: m, n => if k = n then some e else glookup m n

theorem mapHas_eq {α : Type} (gl : List (Int × α)) (k : Int) : mapHas gl k = (glookup gl k).isSome := by
  induction gl with
  | nil => rfl
  | cons p t ih =>
    obtain ⟨a, b⟩ := p
    unfold mapHas at ih ⊢
    simp only [List.any_cons, glookup, ih]
    by_cases h : a = k <;> simp [h]

theorem mapGet_eq {α : Type} [Inhabited α] (gl : List (Int × α)) (k : Int) :
    mapGet gl k = (glookup gl k).getD default := by
  induction gl with
  | nil => rfl
  | cons p t ih =>
    obtain ⟨a, b⟩ := p
    unfold mapGet at ih ⊢
    simp only [List.find?_cons, glookup]
    by_cases h : a = k
    · simp [h]
    · have : (a == k) = false := by simp [h]
      simp only [this, h, if_false]
      exact ih

theorem glookup_filter {α : Type} (keep : Int → Bool) (gl : List (Int × α)) (j : Int) :
    glookup (gl.filter (fun e => keep e.1)) j = if keep j then glookup gl j else none := by
  induction gl with
  | nil => simp [glookup]
  | cons p t ih =>
    obtain ⟨a, b⟩ := p
    by_cases hk : keep a = true
    · simp only [List.filter_cons, hk, if_true, glookup, ih]
      by_cases h : a = j
      · subst h; simp [hk]
      · simp [h]
    · simp only [List.filter_cons, hk, if_false, glookup, ih, Bool.false_eq_true]
      by_cases h : a = j
      · subst h; simp [hk]
      · simp [h]

theorem glookup_mapDel {α : Type} (gl : List (Int × α)) (k j : Int) :
    glookup (mapDel gl k) j = if j = k then none else glookup gl j := by
  have := glookup_filter (fun x => x != k) gl j
  unfold mapDel
  rw [this]
  by_cases h : j = k <;> simp [h]

theorem glookup_mapSet {α : Type} (gl : List (Int × α)) (k j : Int) (v : α) :
    glookup (mapSet gl k v) j = if j = k then some v else glookup gl j := by
  unfold mapSet
  simp only [glookup, glookup_mapDel]
  by_cases h : j = k
  · subst h; simp
  · have : ¬ k = j := fun e => h e.symm
    simp [h, this]

theorem glookup_mapFilter {α : Type} (keep : Int → Bool) (gl : List (Int × α)) (j : Int) :
    glookup (mapFilter keep gl) j = if keep j then glookup gl j else none := glookup_filter keep gl j

theorem lookup_filter (keep : Int → Bool) (ml : Rfc8888.Log) (j : Int) :
    Rfc8888.lookup (ml.filter (fun e => keep e.1)) j = if keep j then Rfc8888.lookup ml j else none := by
  induction ml with
  | nil => simp [Rfc8888.lookup]
  | cons p t ih =>
    obtain ⟨a, b⟩ := p
    by_cases hk : keep a = true
    · simp only [List.filter_cons, hk, if_true, Rfc8888.lookup, ih]
      by_cases h : a = j
      · subst h; simp [hk]
      · simp [h]
    · simp only [List.filter_cons, hk, if_false, Rfc8888.lookup, ih, Bool.false_eq_true]
      by_cases h : a = j
      · subst h; simp [hk]
      · simp [h]

theorem lookup_erase (ml : Rfc8888.Log) (k j : Int) :
    Rfc8888.lookup (Rfc8888.erase ml k) j = if j = k then none else Rfc8888.lookup ml j := by
  have := lookup_filter (fun x => !(decide (x = k))) ml j
  unfold Rfc8888.erase
  rw [this]
  by_cases h : j = k <;> simp [h]

theorem lookup_dropBelow (ml : Rfc8888.Log) (n j : Int) :
    Rfc8888.lookup (Rfc8888.dropBelow ml n) j = if j < n then none else Rfc8888.lookup ml j := by
  have := lookup_filter (fun x => !(decide (x < n))) ml j
  unfold Rfc8888.dropBelow
  rw [this]
  by_cases h : j < n <;> simp [h]

/-- the keys of a Go association list. -/
def keys {α : Type} (gl : List (Int × α)) : List Int := gl.map Prod.fst

theorem mem_keys_iff {α : Type} (gl : List (Int × α)) (k : Int) : k ∈ keys gl ↔ (glookup gl k).isSome = true := by
  induction gl with
  | nil => simp [keys, glookup]
  | cons p t ih =>
    obtain ⟨a, b⟩ := p
    unfold keys at ih ⊢
    simp only [List.map_cons, List.mem_cons, glookup, ih]
    by_cases h : a = k
    · simp [h]
    · have : ¬ k = a := fun e => h e.symm
      simp [h, this]

theorem keys_filter_nodup {α : Type} (p : Int × α → Bool) (gl : List (Int × α)) (h : (keys gl).Nodup) :
    (keys (gl.filter p)).Nodup :=
  List.Nodup.sublist (List.Sublist.map Prod.fst List.filter_sublist) h

theorem keys_mapDel_nodup {α : Type} (gl : List (Int × α)) (k : Int) (h : (keys gl).Nodup) :
    (keys (mapDel gl k)).Nodup := keys_filter_nodup _ gl h

theorem keys_mapFilter_nodup {α : Type} (keep : Int → Bool) (gl : List (Int × α)) (h : (keys gl).Nodup) :
    (keys (mapFilter keep gl)).Nodup := keys_filter_nodup _ gl h

theorem keys_mapSet_nodup {α : Type} (gl : List (Int × α)) (k : Int) (v : α) (h : (keys gl).Nodup) :
    (keys (mapSet gl k v)).Nodup := by
  unfold mapSet
  show (k :: keys (mapDel gl k)).Nodup
  refine List.nodup_cons.mpr ⟨?_, keys_mapDel_nodup gl k h⟩
  rw [mem_keys_iff, glookup_mapDel]
  simp

/-! ### the abstraction relation -/

/-- the Go `packetReport` of a model entry. -/
def toGoE (e : Rfc8888.Entry) : S_rfc8888_packetReport := { arrivalTime := e.arrival, ecn := (e.ecn : Int) }

/-- the Go association list and the model's log represent the same finite map (same key set, same arrival time
and ECN mark per key), and no key occurs twice in the Go list. -/
structure LogRel (gl : List (Int × S_rfc8888_packetReport)) (ml : Rfc8888.Log) : Prop where
  nodup : (keys gl).Nodup
  same : ∀ k, glookup gl k = (Rfc8888.lookup ml k).map toGoE

/-- the Go struct represents the model state. -/
structure Rel (g : S_rfc8888_streamLog) (m : Rfc8888.StreamLog) : Prop where
  ssrc : g.ssrc = (m.ssrc : Int)
  seq : absU g.sequence = m.seq
  init : g.init = m.init
  next : g.nextSequenceNumberToReport = m.next
  last : g.lastSequenceNumberReceived = m.last
  log : LogRel g.log m.log

theorem LogRel.nil : LogRel [] [] := ⟨List.nodup_nil, fun _ => rfl⟩

theorem LogRel.empty_iff {gl : List (Int × S_rfc8888_packetReport)} {ml : Rfc8888.Log} (h : LogRel gl ml) :
    gl = [] ↔ ml = [] := by
  constructor
  · intro e
    subst e
    cases ml with
    | nil => rfl
    | cons p t =>
      have := h.same p.1
      simp [glookup, Rfc8888.lookup] at this
  · intro e
    subst e
    cases gl with
    | nil => rfl
    | cons p t =>
      have := h.same p.1
      simp [glookup, Rfc8888.lookup] at this

theorem LogRel.del {gl : List (Int × S_rfc8888_packetReport)} {ml : Rfc8888.Log} (h : LogRel gl ml) (k : Int) :
    LogRel (mapDel gl k) (Rfc8888.erase ml k) := by
  refine ⟨keys_mapDel_nodup gl k h.nodup, fun j => ?_⟩
  rw [glookup_mapDel, lookup_erase, h.same]
  by_cases e : j = k <;> simp [e]

theorem LogRel.dropBelow {gl : List (Int × S_rfc8888_packetReport)} {ml : Rfc8888.Log} (h : LogRel gl ml) (n : Int) :
    LogRel (mapFilter (fun seq => !(decide (seq < n))) gl) (Rfc8888.dropBelow ml n) := by
  refine ⟨keys_mapFilter_nodup _ gl h.nodup, fun j => ?_⟩
  rw [glookup_mapFilter, lookup_dropBelow, h.same]
  by_cases e : j < n <;> simp [e]

theorem LogRel.set {gl : List (Int × S_rfc8888_packetReport)} {ml : Rfc8888.Log} (h : LogRel gl ml) (k : Int)
    (e : Rfc8888.Entry) : LogRel (mapSet gl k (toGoE e)) ((k, e) :: ml) := by
  refine ⟨keys_mapSet_nodup gl k _ h.nodup, fun j => ?_⟩
  rw [glookup_mapSet, h.same]
  simp only [Rfc8888.lookup]
  by_cases c : j = k
  · subst c; simp
  · have : ¬ k = j := fun x => c x.symm
    simp [c, this]

/-! ### newStreamLog -/

/-- ★ `newStreamLog(ssrc)` as written in the source is the model's `StreamLog.new ssrc` (for every uint32). -/
theorem newStreamLog_src_eq_model (ssrc : Nat) :
    Rel (rfc8888_newStreamLog (ssrc : Int)) (Rfc8888.StreamLog.new ssrc) :=
  ⟨rfl, rfl, rfl, rfl, rfl, LogRel.nil⟩

example : Rel (rfc8888_newStreamLog 4660) (Rfc8888.StreamLog.new 4660) := newStreamLog_src_eq_model 4660

/-! ### add -/

/-- ★ (a) `streamLog.add(ts, sequenceNumber, ecn)` as written in the source is the model's `add`: related states
stay related, for every time, every uint16 sequence number and every ECN value.  The only hypothesis is the int64
bound of the unwrapper (`|lastUnwrapped| ≤ 2^62`, Facts/FnUnwrapper.lean), which `Inv` below maintains. -/
theorem add_src_eq_model {g : S_rfc8888_streamLog} {m : Rfc8888.StreamLog} (h : Rel g m) (ts : Int) (sn : Nat)
    (hsn : sn < 65536) (ecn : Nat)
    (hb : -4611686018427387904 ≤ g.sequence.lastUnwrapped ∧ g.sequence.lastUnwrapped ≤ 4611686018427387904) :
    Rel (rfc8888_streamLog_add g ts (sn : Int) (ecn : Int)) (Rfc8888.add m ts sn ecn) := by
  have hu := unwrap_src_eq_model g.sequence sn hsn hb
  simp only at hu
  obtain ⟨h1, h2, h3, h4, h5, h6⟩ := h
  obtain ⟨gssrc, gseq, ginit, gnext, glast, glog⟩ := g
  obtain ⟨mssrc, mseq, minit, mnext, mlast, mlog⟩ := m
  simp only at h1 h2 h3 h4 h5 h6 hu
  subst h1 h3 h4 h5
  rw [h2] at hu
  have hu1 := congrArg Prod.fst hu
  have hu2 := congrArg Prod.snd hu
  simp only at hu1 hu2
  unfold rfc8888_streamLog_add Rfc8888.add
  simp only []
  rw [← hu1, ← hu2]
  generalize (sequencenumber_Unwrapper_Unwrap gseq (sn : Int)).1 = u
  generalize (sequencenumber_Unwrapper_Unwrap gseq (sn : Int)).2 = gseq'
  have hhas : mapHas glog u = (Rfc8888.lookup mlog u).isSome := by
    rw [mapHas_eq, h6.same]; simp
  have hset : LogRel (mapSet glog u { arrivalTime := ts, ecn := (ecn : Int) }) ((u, ⟨ts, ecn⟩) :: mlog) :=
    h6.set u ⟨ts, ecn⟩
  unfold Rfc8888.addU
  cases ginit
  · simp only [Bool.not_false, if_true, Bool.false_eq_true, if_false, Int.lt_irrefl, decide_false, hhas]
    cases hl : Rfc8888.lookup mlog u with
    | none =>
      simp only [Option.isSome_none, Bool.not_false, if_true]
      by_cases c : glast < u
      · simp only [c, decide_true, if_true]; exact ⟨rfl, rfl, rfl, rfl, rfl, hset⟩
      · simp only [c, decide_false, if_false, Bool.false_eq_true]; exact ⟨rfl, rfl, rfl, rfl, rfl, hset⟩
    | some e =>
      simp only [Option.isSome_some, Bool.not_true, Bool.false_eq_true, if_false]
      by_cases c : glast < u
      · simp only [c, decide_true, if_true]; exact ⟨rfl, rfl, rfl, rfl, rfl, h6⟩
      · simp only [c, decide_false, if_false, Bool.false_eq_true]; exact ⟨rfl, rfl, rfl, rfl, rfl, h6⟩
  · simp only [Bool.not_true, Bool.false_eq_true, if_false, if_true, hhas]
    by_cases c0 : u < gnext
    · simp only [c0, decide_true, if_true]; exact ⟨rfl, rfl, rfl, rfl, rfl, h6⟩
    · simp only [c0, decide_false, if_false, Bool.false_eq_true]
      cases hl : Rfc8888.lookup mlog u with
      | none =>
        simp only [Option.isSome_none, Bool.not_false, if_true]
        by_cases c : glast < u
        · simp only [c, decide_true, if_true]; exact ⟨rfl, rfl, rfl, rfl, rfl, hset⟩
        · simp only [c, decide_false, if_false, Bool.false_eq_true]; exact ⟨rfl, rfl, rfl, rfl, rfl, hset⟩
      | some e =>
        simp only [Option.isSome_some, Bool.not_true, Bool.false_eq_true, if_false]
        by_cases c : glast < u
        · simp only [c, decide_true, if_true]; exact ⟨rfl, rfl, rfl, rfl, rfl, h6⟩
        · simp only [c, decide_false, if_false, Bool.false_eq_true]; exact ⟨rfl, rfl, rfl, rfl, rfl, h6⟩

/-! ### metricsAfter: the generated function, restated with its loop condition and body named -/

/-- the state of the emit loop: (gapDetected, i, l, lastReceived, metricBlocks). -/
abbrev LoopSt := Bool × Int × S_rfc8888_streamLog × Int × List S_rtcp_CCFeedbackMetricBlock

/-- the loop condition `i <= l.lastSequenceNumberReceived`, verbatim from the generated definition. -/
def gCond : LoopSt → Bool :=
  fun (gapDetected, i, l, lastReceived, metricBlocks) => (decide (i ≤ l.lastSequenceNumberReceived))

/-- the loop body, verbatim from the generated definition (`metricsAfter_unfold` below is proved by `rfl`, so this
copy cannot drift from the generated text). -/
def gBody (reference offset : Int) : LoopSt → LoopSt :=
  fun (gapDetected, i, l, lastReceived, metricBlocks) =>
    let received : Bool := false
    let ecn : Int := (0 : Int)
    let ato : Int := (0 : Int)
    let report : S_rfc8888_packetReport := (mapGet l.log i)
    let ok : Bool := (mapHas l.log i)
    if ok then
      let received : Bool := true
      let ecn : Int := report.ecn
      let ato : Int := (rfc8888_getArrivalTimeOffset reference report.arrivalTime)
      let metricBlocks : (List S_rtcp_CCFeedbackMetricBlock) := (setG metricBlocks (s64 (i - offset)) ({ Received := received, ECN := ecn, ArrivalTimeOffset := ato } : S_rtcp_CCFeedbackMetricBlock))
      if (!gapDetected) then
        if (received && (decide (i = l.nextSequenceNumberToReport))) then
          let l : S_rfc8888_streamLog := { l with log := (mapDel l.log i) }
          let l : S_rfc8888_streamLog := { l with nextSequenceNumberToReport := (s64 (l.nextSequenceNumberToReport + 1)) }
          let lastReceived : Int := i
          if (decide (i > (s64 (lastReceived + (1 : Int))))) then
            let gapDetected : Bool := true
            let i : Int := (s64 (i + 1))
            (gapDetected, i, l, lastReceived, metricBlocks)
          else
            let i : Int := (s64 (i + 1))
            (gapDetected, i, l, lastReceived, metricBlocks)
        else
          if (decide (i > (s64 (lastReceived + (1 : Int))))) then
            let gapDetected : Bool := true
            let i : Int := (s64 (i + 1))
            (gapDetected, i, l, lastReceived, metricBlocks)
          else
            let i : Int := (s64 (i + 1))
            (gapDetected, i, l, lastReceived, metricBlocks)
      else
        let i : Int := (s64 (i + 1))
        (gapDetected, i, l, lastReceived, metricBlocks)
    else
      let metricBlocks : (List S_rtcp_CCFeedbackMetricBlock) := (setG metricBlocks (s64 (i - offset)) ({ Received := received, ECN := ecn, ArrivalTimeOffset := ato } : S_rtcp_CCFeedbackMetricBlock))
      if (!gapDetected) then
        if (received && (decide (i = l.nextSequenceNumberToReport))) then
          let l : S_rfc8888_streamLog := { l with log := (mapDel l.log i) }
          let l : S_rfc8888_streamLog := { l with nextSequenceNumberToReport := (s64 (l.nextSequenceNumberToReport + 1)) }
          let lastReceived : Int := i
          if (decide (i > (s64 (lastReceived + (1 : Int))))) then
            let gapDetected : Bool := true
            let i : Int := (s64 (i + 1))
            (gapDetected, i, l, lastReceived, metricBlocks)
          else
            let i : Int := (s64 (i + 1))
            (gapDetected, i, l, lastReceived, metricBlocks)
        else
          if (decide (i > (s64 (lastReceived + (1 : Int))))) then
            let gapDetected : Bool := true
            let i : Int := (s64 (i + 1))
            (gapDetected, i, l, lastReceived, metricBlocks)
          else
            let i : Int := (s64 (i + 1))
            (gapDetected, i, l, lastReceived, metricBlocks)
      else
        let i : Int := (s64 (i + 1))
        (gapDetected, i, l, lastReceived, metricBlocks)

/-- the part of `metricsAfter` after the truncation: allocate `numReports` metric blocks, run the loop, build
the report block. -/
def finish (fuel : Nat) (reference : Int) (l : S_rfc8888_streamLog) (numReports : Int) :
    Option (S_rtcp_CCFeedbackReportBlock × S_rfc8888_streamLog) :=
  match loop fuel gCond (gBody reference l.nextSequenceNumberToReport)
      (false, l.nextSequenceNumberToReport, l, l.nextSequenceNumberToReport,
        mkSliceG (α := S_rtcp_CCFeedbackMetricBlock) numReports) with
  | none => none
  | some (_, _, l', _, metricBlocks) =>
    some ({ MediaSSRC := l'.ssrc, BeginSequence := u16 l.nextSequenceNumberToReport, MetricBlocks := metricBlocks }, l')

/-- the truncation step `if numReports > maxReportBlocks { … }` on the struct. -/
def gTrunc (l : S_rfc8888_streamLog) (maxReportBlocks : Int) : S_rfc8888_streamLog :=
  let newNext : Int := s64 (s64 (l.lastSequenceNumberReceived - maxReportBlocks) + 1)
  { l with log := mapFilter (fun seq => !(decide (seq < newNext))) l.log, nextSequenceNumberToReport := newNext }

theorem metricsAfter_unfold (fuel : Nat) (l : S_rfc8888_streamLog) (reference maxReportBlocks : Int) :
    rfc8888_streamLog_metricsAfter fuel l reference maxReportBlocks =
      if mapLen l.log = 0 then
        some ({ MediaSSRC := l.ssrc, BeginSequence := u16 l.nextSequenceNumberToReport, MetricBlocks := [] }, l)
      else if s64 (s64 (l.lastSequenceNumberReceived - l.nextSequenceNumberToReport) + 1) > maxReportBlocks then
        finish fuel reference (gTrunc l maxReportBlocks) maxReportBlocks
      else
        finish fuel reference l (s64 (s64 (l.lastSequenceNumberReceived - l.nextSequenceNumberToReport) + 1)) := by
  unfold rfc8888_streamLog_metricsAfter
  by_cases h0 : mapLen l.log = 0
  · simp only [h0, decide_true, if_true]
  · simp only [h0, decide_false, if_false, Bool.false_eq_true]
    by_cases h1 : s64 (s64 (l.lastSequenceNumberReceived - l.nextSequenceNumberToReport) + 1) > maxReportBlocks
    · simp only [h1, decide_true, if_true]; rfl
    · simp only [h1, decide_false, if_false, Bool.false_eq_true]; rfl

/-- the loop body in a compact form. -/
theorem gBody_eq (ref off : Int) (gap : Bool) (i : Int) (l : S_rfc8888_streamLog) (lr : Int)
    (mbs : List S_rtcp_CCFeedbackMetricBlock) :
    gBody ref off (gap, i, l, lr, mbs) =
      (let mbs' := setG mbs (s64 (i - off))
          (if mapHas l.log i then
            ({ Received := true, ECN := (mapGet l.log i).ecn,
               ArrivalTimeOffset := rfc8888_getArrivalTimeOffset ref (mapGet l.log i).arrivalTime } :
                S_rtcp_CCFeedbackMetricBlock)
           else { Received := false, ECN := 0, ArrivalTimeOffset := 0 })
       if gap then (gap, s64 (i + 1), l, lr, mbs')
       else if mapHas l.log i && decide (i = l.nextSequenceNumberToReport) then
         (decide (i > s64 (i + 1)), s64 (i + 1),
           { l with log := mapDel l.log i, nextSequenceNumberToReport := s64 (l.nextSequenceNumberToReport + 1) },
           i, mbs')
       else (decide (i > s64 (lr + 1)), s64 (i + 1), l, lr, mbs')) := by
  unfold gBody
  simp only []
  cases h : mapHas l.log i <;> cases gap <;>
    simp only [Bool.false_and, Bool.true_and, Bool.false_eq_true, if_false, if_true, Bool.not_false, Bool.not_true]
  all_goals (repeat' split) <;> simp_all

/-! ### metricsAfter: one iteration of the loop against the model's `loopStep`/`mkMetric` -/

/-- the Go metric block of a model metric. -/
def toGoM (x : Rfc8888.Metric) : S_rtcp_CCFeedbackMetricBlock :=
  { Received := x.received, ECN := (x.ecn : Int), ArrivalTimeOffset := (x.ato : Int) }

/-- the Go report block of a model block. -/
def toGoB (b : Rfc8888.Block) : S_rtcp_CCFeedbackReportBlock :=
  { MediaSSRC := (b.ssrc : Int), BeginSequence := (b.begin : Int), MetricBlocks := b.metrics.map toGoM }

theorem metric_eq {gl : List (Int × S_rfc8888_packetReport)} {ml : Rfc8888.Log} (h : LogRel gl ml) (ref i : Int) :
    (if mapHas gl i then
        ({ Received := true, ECN := (mapGet gl i).ecn,
           ArrivalTimeOffset := rfc8888_getArrivalTimeOffset ref (mapGet gl i).arrivalTime } :
            S_rtcp_CCFeedbackMetricBlock)
      else { Received := false, ECN := 0, ArrivalTimeOffset := 0 })
      = toGoM (Rfc8888.mkMetric ref (Rfc8888.lookup ml i)) := by
  rw [mapHas_eq, mapGet_eq, h.same]
  cases Rfc8888.lookup ml i with
  | none => rfl
  | some e => simp [Rfc8888.mkMetric, toGoM, toGoE, getATO_src_eq_model]

theorem set_mid {α : Type} (pre : List α) (v d : α) (n : Nat) :
    (pre ++ List.replicate (n + 1) d).set pre.length v = (pre ++ [v]) ++ List.replicate n d := by
  induction pre with
  | nil => simp [List.replicate_succ]
  | cons a t ih => simp [List.replicate_succ] at ih ⊢

theorem setG_mid {α : Type} (pre : List α) (v d : α) (n : Nat) (k : Int) (hk : k = pre.length) :
    setG (pre ++ List.replicate (n + 1) d) k v = (pre ++ [v]) ++ List.replicate n d := by
  unfold setG
  have h0 : ¬ k < 0 := by omega
  have h1 : k.toNat = pre.length := by omega
  simp only [h0, if_false, h1]
  exact set_mid pre v d n

theorem s64_id' (x : Int) (h : -9223372036854775808 ≤ x ∧ x < 9223372036854775808) : s64 x = x := s64_id x h

/-- one iteration of the Go loop is the model's `loopStep` (on the mutable variables) and `mkMetric` (on the
metric written to `metricBlocks[i-offset]`), provided `i-offset`, `i+1`, `lastReceived+1` fit an int64. -/
theorem gBody_step (ref off i : Int) (gap : Bool) (l : S_rfc8888_streamLog) (lr : Int)
    (mbs : List S_rtcp_CCFeedbackMetricBlock) (st : Rfc8888.LoopSt)
    (hl : LogRel l.log st.log) (hn : l.nextSequenceNumberToReport = st.next) (hlr : lr = st.lastReceived)
    (hg : gap = st.gap)
    (hio : -9223372036854775808 ≤ i - off ∧ i - off < 9223372036854775808)
    (hi1 : -9223372036854775808 ≤ i + 1 ∧ i + 1 < 9223372036854775808)
    (hl1 : -9223372036854775808 ≤ lr + 1 ∧ lr + 1 < 9223372036854775808) :
    ∃ gl', gBody ref off (gap, i, l, lr, mbs) =
        ((Rfc8888.loopStep st i (Rfc8888.lookup st.log i).isSome).gap, i + 1,
          { l with log := gl',
                   nextSequenceNumberToReport := (Rfc8888.loopStep st i (Rfc8888.lookup st.log i).isSome).next },
          (Rfc8888.loopStep st i (Rfc8888.lookup st.log i).isSome).lastReceived,
          setG mbs (i - off) (toGoM (Rfc8888.mkMetric ref (Rfc8888.lookup st.log i)))) ∧
      LogRel gl' (Rfc8888.loopStep st i (Rfc8888.lookup st.log i).isSome).log := by
  rw [gBody_eq]
  simp only [s64_id' _ hio, s64_id' _ hi1, s64_id' _ hl1, metric_eq hl]
  have hhas : mapHas l.log i = (Rfc8888.lookup st.log i).isSome := by rw [mapHas_eq, hl.same]; simp
  rw [hhas]
  obtain ⟨slog, snext, slr, sgap⟩ := st
  obtain ⟨gssrc, gseq, ginit, gnext, glast, glog⟩ := l
  simp only at hl hn hlr hg hhas ⊢
  subst hn hlr hg
  unfold Rfc8888.loopStep
  cases gap
  · simp only [Bool.false_eq_true, if_false]
    by_cases c : (Rfc8888.lookup slog i).isSome = true ∧ i = gnext
    · obtain ⟨c1, c2⟩ := c
      subst c2
      have e1 : s64 (i + 1) = i + 1 := s64_id' _ hi1
      simp only [c1, decide_true, Bool.and_self, if_true, and_self, e1]
      have c3 : ¬ i > i + 1 := by omega
      simp only [c3, decide_false, if_false]
      exact ⟨mapDel glog i, rfl, hl.del i⟩
    · have c' : ((Rfc8888.lookup slog i).isSome && decide (i = gnext)) = false := by
        cases hh : (Rfc8888.lookup slog i).isSome <;> simp_all
      simp only [c', Bool.false_eq_true, if_false, c]
      by_cases c3 : i > lr + 1
      · simp only [c3, decide_true, if_true]
        exact ⟨glog, rfl, hl⟩
      · simp only [c3, decide_false, if_false]
        exact ⟨glog, rfl, hl⟩
  · simp only [if_true]
    exact ⟨glog, rfl, hl⟩

/-! ### metricsAfter: the loop invariant -/

theorem loopStep_lr (st : Rfc8888.LoopSt) (i : Int) (r : Bool) :
    (Rfc8888.loopStep st i r).lastReceived = st.lastReceived ∨ (Rfc8888.loopStep st i r).lastReceived = i := by
  unfold Rfc8888.loopStep
  by_cases h1 : st.gap = true
  · simp [h1]
  · by_cases h2 : r = true ∧ i = st.next
    · simp only [h1, h2, and_self, if_true, Bool.false_eq_true, if_false]
      split <;> simp
    · simp only [h1, h2, if_false, Bool.false_eq_true]
      split <;> simp

/-- The loop invariant that connects the Go loop to the model's recursive `Rfc8888.loop`.  `n` iterations before the
end (`i = last + 1 - n`), with `pre` the metric blocks already written (`len pre = i - offset`) followed by the `n`
still-zero blocks of `make`, and the mutable variables related to the model's `LoopSt`: the Go loop terminates
(`n + 1` units of fuel suffice), leaves `i = last + 1`, has filled exactly the remaining `n` blocks with the model's
metrics, and its final log / report pointer are the model's.  Int64 side conditions: `-2^62 ≤ offset`,
`last < 2^62`, `|lastReceived| ≤ 2^62`. -/
theorem emit_loop (ref off : Int) :
    ∀ (n : Nat) (i : Int) (gap : Bool) (l : S_rfc8888_streamLog) (lr : Int)
      (pre : List S_rtcp_CCFeedbackMetricBlock) (st : Rfc8888.LoopSt),
      LogRel l.log st.log → l.nextSequenceNumberToReport = st.next → lr = st.lastReceived → gap = st.gap →
      l.lastSequenceNumberReceived - i + 1 = (n : Int) → i - off = (pre.length : Int) →
      -4611686018427387904 ≤ off → l.lastSequenceNumberReceived < 4611686018427387904 →
      (-4611686018427387904 ≤ lr ∧ lr ≤ 4611686018427387904) →
      ∀ fuel, n + 1 ≤ fuel →
      ∃ gap' gl' lr',
        loop fuel gCond (gBody ref off) (gap, i, l, lr, pre ++ List.replicate n default) =
          some (gap', l.lastSequenceNumberReceived + 1,
            { l with log := gl', nextSequenceNumberToReport := (Rfc8888.loop ref n i st).1.next },
            lr', pre ++ (Rfc8888.loop ref n i st).2.map toGoM) ∧
        LogRel gl' (Rfc8888.loop ref n i st).1.log := by
  intro n
  induction n with
  | zero =>
    intro i gap l lr pre st hl hn hlr hg hi hpre hoff hlast hlrB fuel hf
    obtain ⟨f, rfl⟩ : ∃ f, fuel = f + 1 := ⟨fuel - 1, by omega⟩
    have hc : gCond (gap, i, l, lr, pre) = false := by
      show decide (i ≤ l.lastSequenceNumberReceived) = false
      simp; omega
    refine ⟨gap, l.log, lr, ?_, hl⟩
    simp only [List.replicate_zero, List.append_nil, Rfc8888.loop, List.map_nil]
    simp only [loop, hc, Bool.false_eq_true, if_false]
    have e : i = l.lastSequenceNumberReceived + 1 := by omega
    rw [← hn, e]
  | succ n ih =>
    intro i gap l lr pre st hl hn hlr hg hi hpre hoff hlast hlrB fuel hf
    obtain ⟨f, rfl⟩ : ∃ f, fuel = f + 1 := ⟨fuel - 1, by omega⟩
    have hc : gCond (gap, i, l, lr, pre ++ List.replicate (n + 1) default) = true := by
      show decide (i ≤ l.lastSequenceNumberReceived) = true
      simp; omega
    obtain ⟨gl1, hb, hl1⟩ := gBody_step ref off i gap l lr (pre ++ List.replicate (n + 1) default) st hl hn hlr hg
      (by omega) (by omega) (by omega)
    simp only [loop, hc, if_true, hb, Rfc8888.loop]
    rw [setG_mid pre _ default n (i - off) hpre]
    generalize hst' : Rfc8888.loopStep st i (Rfc8888.lookup st.log i).isSome = st' at hl1 ⊢
    have hlr' : -4611686018427387904 ≤ st'.lastReceived ∧ st'.lastReceived ≤ 4611686018427387904 := by
      rw [← hst']
      rcases loopStep_lr st i (Rfc8888.lookup st.log i).isSome with e | e <;> rw [e] <;> omega
    obtain ⟨gap', gl', lr', hloop, hl'⟩ := ih (i + 1) st'.gap
      { l with log := gl1, nextSequenceNumberToReport := st'.next } st'.lastReceived
      (pre ++ [toGoM (Rfc8888.mkMetric ref (Rfc8888.lookup st.log i))]) st' hl1 rfl rfl rfl
      (by simp only []; omega) (by simp only [List.length_append, List.length_singleton]; omega) hoff hlast hlr' f
      (by omega)
    refine ⟨gap', gl', lr', ?_, hl'⟩
    rw [hloop]
    simp only [List.map_cons, List.append_assoc, List.singleton_append]

/-! ### metricsAfter: the whole function -/

theorem u16_cast (x : Int) : ((Rfc8888.u16 x : Nat) : Int) = u16 x := by
  unfold Rfc8888.u16 u16; omega

theorem mapLen_eq_zero {α : Type} (gl : List (Int × α)) : mapLen gl = 0 ↔ gl = [] := by
  unfold mapLen
  cases gl with
  | nil => simp
  | cons p t => simp only [List.length_cons, reduceCtorEq, iff_false]; omega

/-- the allocate / loop / build part of `metricsAfter` on a state whose report pointer is at most one past the
highest received number: it is the model's emit loop started at the report pointer. -/
theorem finish_spec {l : S_rfc8888_streamLog} {ml : Rfc8888.StreamLog} (h : Rel l ml) (ref : Int)
    (hlo : -4611686018427387904 ≤ l.nextSequenceNumberToReport)
    (hnl : l.nextSequenceNumberToReport ≤ l.lastSequenceNumberReceived + 1)
    (hhi : l.lastSequenceNumberReceived < 4611686018427387904)
    (N : Int) (hN : N = l.lastSequenceNumberReceived - l.nextSequenceNumberToReport + 1)
    (fuel : Nat) (hf : N.toNat + 1 ≤ fuel) :
    ∃ gl', finish fuel ref l N =
        some (toGoB ⟨ml.ssrc, Rfc8888.u16 ml.next,
                (Rfc8888.loop ref (ml.last - ml.next + 1).toNat ml.next ⟨ml.log, ml.next, ml.next, false⟩).2⟩,
          { l with log := gl', nextSequenceNumberToReport :=
              (Rfc8888.loop ref (ml.last - ml.next + 1).toNat ml.next ⟨ml.log, ml.next, ml.next, false⟩).1.next }) ∧
      LogRel gl'
        (Rfc8888.loop ref (ml.last - ml.next + 1).toNat ml.next ⟨ml.log, ml.next, ml.next, false⟩).1.log := by
  obtain ⟨h1, h2, h3, h4, h5, h6⟩ := h
  obtain ⟨gssrc, gseq, ginit, gnext, glast, glog⟩ := l
  obtain ⟨mssrc, mseq, minit, mnext, mlast, mlog⟩ := ml
  simp only at h1 h2 h3 h4 h5 h6 hlo hnl hhi hN ⊢
  subst h1 h3 h4 h5
  have hn : (glast - gnext + 1).toNat = N.toNat := by rw [hN]
  rw [hn]
  obtain ⟨gap', gl', lr', hloop, hl'⟩ := emit_loop ref gnext N.toNat gnext false
    ⟨mssrc, gseq, ginit, gnext, glast, glog⟩ gnext [] ⟨mlog, gnext, gnext, false⟩
    h6 rfl rfl rfl (by simp only []; omega) (by simp) hlo hhi (by omega) fuel hf
  refine ⟨gl', ?_, hl'⟩
  unfold finish mkSliceG
  simp only [List.nil_append] at hloop
  simp only []
  rw [hloop]
  simp only [toGoB, u16_cast]

/-- ★ (b) `streamLog.metricsAfter(reference, maxReportBlocks)` as written in the source is the model's
`metricsAfter`: for every related pair, every reference time, every `maxReportBlocks` in `[0, 2^62)` (the caller
`Recorder.BuildReport` passes `int64(p - p%2)` with `p = max((maxSize-12-8k)/2, 0)/k`, `k ≥ 1` streams, which is in
that range for every `int` maxSize), the loop terminates — `lastSequenceNumberReceived − nextSequenceNumberToReport
+ 2` units of fuel suffice, the loop makes at most `last − next + 1` iterations — and the function returns the
model's report block field by field (MediaSSRC, BeginSequence, and every metric block: Received, ECN,
ArrivalTimeOffset — `toGoB` is the field-wise embedding) and a receiver that is related to the model's next state
and differs from the old one only in `log` and `nextSequenceNumberToReport`.  The int64 hypotheses
(`-2^62 < next ≤ last + 1`, `last < 2^62`) are part of the invariant `Inv` (established by `newStreamLog`, preserved
by `add` and `metricsAfter`); there is no bound on the distance `last − next` other than these. -/
theorem metricsAfter_src_eq_model {g : S_rfc8888_streamLog} {m : Rfc8888.StreamLog} (h : Rel g m)
    (ref maxBlocks : Int) (hmb : 0 ≤ maxBlocks ∧ maxBlocks < 4611686018427387904)
    (hlo : -4611686018427387904 < g.nextSequenceNumberToReport)
    (hnl : g.nextSequenceNumberToReport ≤ g.lastSequenceNumberReceived + 1)
    (hhi : g.lastSequenceNumberReceived < 4611686018427387904)
    (fuel : Nat) (hf : (g.lastSequenceNumberReceived - g.nextSequenceNumberToReport + 1).toNat + 1 ≤ fuel) :
    ∃ g', rfc8888_streamLog_metricsAfter fuel g ref maxBlocks
          = some (toGoB (Rfc8888.metricsAfter m ref maxBlocks).2, g') ∧
      Rel g' (Rfc8888.metricsAfter m ref maxBlocks).1 ∧
      g' = { g with log := g'.log, nextSequenceNumberToReport := g'.nextSequenceNumberToReport } := by
  rw [metricsAfter_unfold]
  unfold Rfc8888.metricsAfter
  by_cases he : g.log = []
  · have hme : m.log = [] := h.log.empty_iff.mp he
    have h0 : mapLen g.log = 0 := (mapLen_eq_zero _).mpr he
    simp only [h0, if_true, hme, List.isEmpty_nil]
    refine ⟨g, ?_, h, rfl⟩
    simp only [toGoB, u16_cast, h.ssrc, h.next, List.map_nil]
  · have hme : ¬ m.log = [] := fun e => he (h.log.empty_iff.mpr e)
    have h0 : ¬ mapLen g.log = 0 := fun e => he ((mapLen_eq_zero _).mp e)
    have hme' : m.log.isEmpty = false := by
      cases hm : m.log with
      | nil => exact absurd hm hme
      | cons _ _ => rfl
    simp only [h0, if_false, hme', Bool.false_eq_true]
    have e1 : s64 (g.lastSequenceNumberReceived - g.nextSequenceNumberToReport)
        = g.lastSequenceNumberReceived - g.nextSequenceNumberToReport := s64_id' _ (by omega)
    have e2 : s64 (g.lastSequenceNumberReceived - g.nextSequenceNumberToReport + 1)
        = g.lastSequenceNumberReceived - g.nextSequenceNumberToReport + 1 := s64_id' _ (by omega)
    rw [e1, e2]
    unfold Rfc8888.truncate
    by_cases ht : g.lastSequenceNumberReceived - g.nextSequenceNumberToReport + 1 > maxBlocks
    · have ht' : m.last - m.next + 1 > maxBlocks := by rw [← h.next, ← h.last]; exact ht
      simp only [ht, ht', if_true]
      have e3 : s64 (g.lastSequenceNumberReceived - maxBlocks) = g.lastSequenceNumberReceived - maxBlocks :=
        s64_id' _ (by omega)
      have e4 : s64 (g.lastSequenceNumberReceived - maxBlocks + 1) = g.lastSequenceNumberReceived - maxBlocks + 1 :=
        s64_id' _ (by omega)
      have hnx : (gTrunc g maxBlocks).nextSequenceNumberToReport = g.lastSequenceNumberReceived - maxBlocks + 1 := by
        unfold gTrunc; simp only [e3, e4]
      have hls : (gTrunc g maxBlocks).lastSequenceNumberReceived = g.lastSequenceNumberReceived := rfl
      have hrel : Rel (gTrunc g maxBlocks)
          { m with log := Rfc8888.dropBelow m.log (m.last - maxBlocks + 1), next := m.last - maxBlocks + 1 } := by
        refine ⟨h.ssrc, h.seq, h.init, by rw [hnx, h.last], h.last, ?_⟩
        unfold gTrunc
        simp only [e3, e4]
        rw [← h.last]
        exact h.log.dropBelow _
      obtain ⟨gl', hfin, hl'⟩ := finish_spec hrel ref (by rw [hnx]; omega) (by rw [hnx, hls]; omega)
        (by rw [hls]; exact hhi) maxBlocks (by rw [hnx, hls]; omega) fuel (by omega)
      rw [hfin]
      exact ⟨_, rfl, ⟨h.ssrc, h.seq, h.init, rfl, h.last, hl'⟩, rfl⟩
    · have ht' : ¬ m.last - m.next + 1 > maxBlocks := by rw [← h.next, ← h.last]; exact ht
      simp only [ht, ht', if_false]
      obtain ⟨gl', hfin, hl'⟩ := finish_spec h ref (by omega) hnl hhi _ rfl fuel hf
      rw [hfin]
      exact ⟨_, rfl, ⟨h.ssrc, h.seq, h.init, rfl, h.last, hl'⟩, rfl⟩

/-! ### the invariant: int64 room, pointer order, keys between the pointers -/

/-- `2^62` minus the room for `n` further `add` calls (each moves the unwrapper by less than 2^16). -/
def L (n : Nat) : Int := 4611686018427387904 - 65536 * (n : Int)

/-- The invariant of the Go struct under which no int64 operation of `add`/`metricsAfter` overflows during the
next `n` calls of `add` (and any number of `metricsAfter` calls), `make` gets a non-negative length and every
`metricBlocks[i-offset]` is in range:
the unwrapper is within `±L n` (this is `Room` of Props/C20Src.lean), the report pointer is in `(-L n, last + 1]`,
the highest received number is below `L n`, the log is empty before the first packet, and every key of the log lies
between the two pointers. -/
structure Inv (g : S_rfc8888_streamLog) (n : Nat) : Prop where
  room : -(L n) ≤ g.sequence.lastUnwrapped ∧ g.sequence.lastUnwrapped ≤ L n
  fresh : g.sequence.init = false → g.sequence.lastUnwrapped = 0
  nextLo : -(L n) < g.nextSequenceNumberToReport
  nextHi : g.nextSequenceNumberToReport ≤ g.lastSequenceNumberReceived + 1
  lastHi : g.lastSequenceNumberReceived < L n
  initEmpty : g.init = false → g.log = []
  keys : ∀ k, (glookup g.log k).isSome = true →
    g.nextSequenceNumberToReport ≤ k ∧ k ≤ g.lastSequenceNumberReceived

theorem L_succ (n : Nat) : L (n + 1) = L n - 65536 := by unfold L; omega

theorem L_le (n : Nat) : L n ≤ 4611686018427387904 := by unfold L; omega

theorem Inv.mono {g : S_rfc8888_streamLog} {n : Nat} (h : Inv g (n + 1)) : Inv g n := by
  obtain ⟨h1, h2, h3, h4, h5, h6, h7⟩ := h
  rw [L_succ] at h1 h3 h5
  exact ⟨by omega, h2, by omega, h4, by omega, h6, h7⟩

/-- what `metricsAfter_src_eq_model` needs of the invariant. -/
theorem Inv.bounds {g : S_rfc8888_streamLog} {n : Nat} (h : Inv g n) :
    -4611686018427387904 < g.nextSequenceNumberToReport ∧
      g.nextSequenceNumberToReport ≤ g.lastSequenceNumberReceived + 1 ∧
      g.lastSequenceNumberReceived < 4611686018427387904 ∧
      -4611686018427387904 ≤ g.sequence.lastUnwrapped ∧ g.sequence.lastUnwrapped ≤ 4611686018427387904 := by
  obtain ⟨h1, h2, h3, h4, h5, h6, h7⟩ := h
  have := L_le n
  omega

/-- with the invariant, a non-empty log has `next ≤ last`: the length `last - next + 1` that `metricsAfter` passes
to `make` (or `maxReportBlocks ≥ 0` after truncation) is not negative. -/
theorem Inv.nonempty {g : S_rfc8888_streamLog} {n : Nat} (h : Inv g n) (hne : g.log ≠ []) :
    g.nextSequenceNumberToReport ≤ g.lastSequenceNumberReceived := by
  cases hl : g.log with
  | nil => exact absurd hl hne
  | cons p t =>
    have := h.keys p.1 (by rw [hl]; simp [glookup])
    omega

/-- ★ `newStreamLog` establishes the invariant, with room for up to `2^46 - 1` calls of `add`. -/
theorem newStreamLog_inv (ssrc : Int) (n : Nat) (hn : n < 70368744177664) : Inv (rfc8888_newStreamLog ssrc) n := by
  unfold rfc8888_newStreamLog
  refine ⟨?_, fun _ => rfl, ?_, ?_, ?_, fun _ => rfl, ?_⟩
  · show -(L n) ≤ 0 ∧ (0 : Int) ≤ L n
    unfold L; omega
  · show -(L n) < 0
    unfold L; omega
  · show (0 : Int) ≤ 0 + 1
    omega
  · show (0 : Int) < L n
    unfold L; omega
  · intro k hk
    simp [glookup] at hk

example : Inv (rfc8888_newStreamLog 4660) 1000000 := newStreamLog_inv 4660 1000000 (by omega)

theorem step_near' (last : Int) (i : Nat) :
    last - 65535 ≤ Unwrapper.step last i ∧ Unwrapper.step last i ≤ last + 65535 := by
  unfold Unwrapper.step
  simp only []
  split
  · omega
  · split <;> omega

/-- the translated `Unwrap`: the new state is initialised and holds the result, which is the input on a fresh
unwrapper and within 65535 of the previous result otherwise. -/
theorem unwrap_facts (u : S_sequencenumber_Unwrapper) (i : Nat) (hi : i < 65536)
    (hb : -4611686018427387904 ≤ u.lastUnwrapped ∧ u.lastUnwrapped ≤ 4611686018427387904) :
    (sequencenumber_Unwrapper_Unwrap u i).2.init = true ∧
    (sequencenumber_Unwrapper_Unwrap u i).2.lastUnwrapped = (sequencenumber_Unwrapper_Unwrap u i).1 ∧
    (u.init = false → (sequencenumber_Unwrapper_Unwrap u i).1 = (i : Int)) ∧
    (u.init = true → u.lastUnwrapped - 65535 ≤ (sequencenumber_Unwrapper_Unwrap u i).1 ∧
      (sequencenumber_Unwrapper_Unwrap u i).1 ≤ u.lastUnwrapped + 65535) := by
  have e := unwrap_src_eq_model u i hi hb
  simp only at e
  obtain ⟨ini, last⟩ := u
  cases ini
  · simp [sequencenumber_Unwrapper_Unwrap]
  · simp only [absU, Unwrapper.unwrap, if_true] at e
    have e1 := congrArg Prod.fst e
    have e2 := congrArg Prod.snd e
    simp only at e1 e2
    have hs := step_near' last i
    split at e1
    · rename_i hini
      simp only [Option.some.injEq] at e1
      refine ⟨hini, by rw [e1, e2], by simp, fun _ => ?_⟩
      rw [e2]; exact hs
    · simp at e1

/-- ★ `add` preserves the invariant and uses up one unit of room: `Inv g (n+1) → Inv (add g …) n`, for every
time, every uint16 sequence number and every ECN value. -/
theorem add_inv {g : S_rfc8888_streamLog} {n : Nat} (h : Inv g (n + 1)) (ts : Int) (sn : Nat) (hsn : sn < 65536)
    (ecn : Int) : Inv (rfc8888_streamLog_add g ts (sn : Int) ecn) n := by
  obtain ⟨f1, f2, f3, f4⟩ := unwrap_facts g.sequence sn hsn (by have := h.bounds; omega)
  obtain ⟨h1, h2, h3, h4, h5, h6, h7⟩ := h
  rw [L_succ] at h1 h3 h5
  obtain ⟨gssrc, gseq, ginit, gnext, glast, glog⟩ := g
  simp only at h1 h2 h3 h4 h5 h6 h7 f1 f2 f3 f4
  unfold rfc8888_streamLog_add
  simp only []
  have hu : -(L n) < (sequencenumber_Unwrapper_Unwrap gseq (sn : Int)).1 ∧
      (sequencenumber_Unwrapper_Unwrap gseq (sn : Int)).1 < L n := by
    cases hi : gseq.init
    · have := f3 hi; omega
    · have := f4 hi; omega
  generalize (sequencenumber_Unwrapper_Unwrap gseq (sn : Int)).1 = u at f2 hu ⊢
  generalize (sequencenumber_Unwrapper_Unwrap gseq (sn : Int)).2 = s' at f1 f2 ⊢
  have hfresh : s'.init = false → s'.lastUnwrapped = 0 := fun c => by rw [f1] at c; cases c
  have hset : ∀ k, (glookup (mapSet glog u ({ arrivalTime := ts, ecn := ecn } : S_rfc8888_packetReport)) k).isSome = true →
      k = u ∨ (glookup glog k).isSome = true := by
    intro k hk
    rw [glookup_mapSet] at hk
    by_cases c : k = u
    · exact Or.inl c
    · simp only [c, if_false] at hk; exact Or.inr hk
  cases ginit
  · have hnil := h6 rfl
    subst hnil
    have hno : mapHas ([] : List (Int × S_rfc8888_packetReport)) u = false := rfl
    simp only [Bool.not_false, if_true, Int.lt_irrefl, decide_false, Bool.false_eq_true, if_false, hno]
    by_cases c : glast < u
    · simp only [c, decide_true, if_true]
      refine ⟨(by rw [f2]; omega), hfresh, hu.1, (by simp only []; omega), hu.2, (fun c => by cases c), ?_⟩
      intro k hk
      rcases hset k hk with e | e
      · subst e; simp only []; omega
      · simp [glookup] at e
    · simp only [c, decide_false, Bool.false_eq_true, if_false]
      refine ⟨(by rw [f2]; omega), hfresh, hu.1, (by simp only []; omega), (by simp only []; omega), (fun c => by cases c), ?_⟩
      intro k hk
      rcases hset k hk with e | e
      · subst e; simp only []; omega
      · simp [glookup] at e
  · simp only [Bool.not_true, Bool.false_eq_true, if_false]
    by_cases c0 : u < gnext
    · simp only [c0, decide_true, if_true]
      exact ⟨(by rw [f2]; omega), hfresh, (by simp only []; omega), h4, (by simp only []; omega), (fun c => by cases c), h7⟩
    · simp only [c0, decide_false, Bool.false_eq_true, if_false]
      cases mapHas glog u
      · simp only [Bool.not_false, if_true]
        by_cases c : glast < u
        · simp only [c, decide_true, if_true]
          refine ⟨(by rw [f2]; omega), hfresh, (by simp only []; omega), (by simp only []; omega), hu.2,
            (fun c => by cases c), ?_⟩
          intro k hk
          rcases hset k hk with e | e
          · subst e; simp only []; omega
          · have := h7 k e; simp only []; omega
        · simp only [c, decide_false, Bool.false_eq_true, if_false]
          refine ⟨(by rw [f2]; omega), hfresh, (by simp only []; omega), h4, (by simp only []; omega),
            (fun c => by cases c), ?_⟩
          intro k hk
          rcases hset k hk with e | e
          · subst e; simp only []; omega
          · exact h7 k e
      · simp only [Bool.not_true, Bool.false_eq_true, if_false]
        by_cases c : glast < u
        · simp only [c, decide_true, if_true]
          refine ⟨(by rw [f2]; omega), hfresh, (by simp only []; omega), (by simp only []; omega), hu.2,
            (fun c => by cases c), ?_⟩
          intro k hk
          have := h7 k hk; simp only []; omega
        · simp only [c, decide_false, Bool.false_eq_true, if_false]
          exact ⟨(by rw [f2]; omega), hfresh, (by simp only []; omega), h4, (by simp only []; omega),
            (fun c => by cases c), h7⟩

/-! ### metricsAfter preserves the invariant (shown on the model, transported along `Rel`) -/

/-- every key of the model log lies between the pointers. -/
def KS (log : Rfc8888.Log) (next last : Int) : Prop :=
  ∀ k, (Rfc8888.lookup log k).isSome = true → next ≤ k ∧ k ≤ last

theorem loopStep_cases (st : Rfc8888.LoopSt) (i : Int) (r : Bool) :
    ((Rfc8888.loopStep st i r).log = st.log ∧ (Rfc8888.loopStep st i r).next = st.next) ∨
    (i = st.next ∧ (Rfc8888.loopStep st i r).log = Rfc8888.erase st.log i ∧
      (Rfc8888.loopStep st i r).next = st.next + 1) := by
  unfold Rfc8888.loopStep
  by_cases h1 : st.gap = true
  · simp [h1]
  · by_cases h2 : r = true ∧ i = st.next
    · simp only [h1, h2, and_self, if_true, Bool.false_eq_true, if_false]
      right
      split <;> simp
    · simp only [h1, h2, if_false, Bool.false_eq_true]
      left
      split <;> simp

theorem loop_model_inv (ref last lo : Int) : ∀ (n : Nat) (i : Int) (st : Rfc8888.LoopSt),
    i + (n : Int) = last + 1 → KS st.log st.next last → lo ≤ st.next → st.next ≤ last + 1 →
    KS (Rfc8888.loop ref n i st).1.log (Rfc8888.loop ref n i st).1.next last ∧
      lo ≤ (Rfc8888.loop ref n i st).1.next ∧ (Rfc8888.loop ref n i st).1.next ≤ last + 1 := by
  intro n
  induction n with
  | zero => intro i st _ hk h1 h2; exact ⟨hk, h1, h2⟩
  | succ n ih =>
    intro i st hi hk h1 h2
    simp only [Rfc8888.loop]
    apply ih (i + 1) _ (by omega)
    · rcases loopStep_cases st i (Rfc8888.lookup st.log i).isSome with ⟨e1, e2⟩ | ⟨e0, e1, e2⟩
      · rw [e1, e2]; exact hk
      · rw [e1, e2]
        intro k hk'
        rw [lookup_erase] at hk'
        by_cases c : k = i
        · simp [c] at hk'
        · simp only [c, if_false] at hk'
          have := hk k hk'
          omega
    · rcases loopStep_cases st i (Rfc8888.lookup st.log i).isSome with ⟨e1, e2⟩ | ⟨e0, e1, e2⟩ <;> rw [e2] <;> omega
    · rcases loopStep_cases st i (Rfc8888.lookup st.log i).isSome with ⟨e1, e2⟩ | ⟨e0, e1, e2⟩ <;> rw [e2] <;> omega

/-- the model's `metricsAfter` keeps the keys between the pointers, only moves the report pointer forward, never
past `last + 1`, and changes nothing else. -/
theorem metricsAfter_model_inv (m : Rfc8888.StreamLog) (ref mb : Int) (hmb : 0 ≤ mb)
    (hk : KS m.log m.next m.last) (hnl : m.next ≤ m.last + 1) :
    KS (Rfc8888.metricsAfter m ref mb).1.log (Rfc8888.metricsAfter m ref mb).1.next m.last ∧
      m.next ≤ (Rfc8888.metricsAfter m ref mb).1.next ∧ (Rfc8888.metricsAfter m ref mb).1.next ≤ m.last + 1 ∧
      (m.log = [] → (Rfc8888.metricsAfter m ref mb).1.log = []) := by
  unfold Rfc8888.metricsAfter
  by_cases he : m.log.isEmpty = true
  · simp only [he, if_true]
    exact ⟨hk, by omega, hnl, fun e => e⟩
  · simp only [he, if_false, Bool.false_eq_true]
    have hne : ¬ m.log = [] := fun e => he (by rw [e]; rfl)
    unfold Rfc8888.truncate
    by_cases ht : m.last - m.next + 1 > mb
    · simp only [ht, if_true]
      have hk1 : KS (Rfc8888.dropBelow m.log (m.last - mb + 1)) (m.last - mb + 1) m.last := by
        intro k hk'
        rw [lookup_dropBelow] at hk'
        by_cases c : k < m.last - mb + 1
        · simp [c] at hk'
        · simp only [c, if_false] at hk'
          have := hk k hk'
          omega
      have := loop_model_inv ref m.last m.next (m.last - (m.last - mb + 1) + 1).toNat (m.last - mb + 1)
        ⟨Rfc8888.dropBelow m.log (m.last - mb + 1), m.last - mb + 1, m.last - mb + 1, false⟩
        (by omega) hk1 (by simp only []; omega) (by simp only []; omega)
      exact ⟨this.1, this.2.1, this.2.2, fun e => absurd e hne⟩
    · simp only [ht, if_false]
      have := loop_model_inv ref m.last m.next (m.last - m.next + 1).toNat m.next
        ⟨m.log, m.next, m.next, false⟩ (by omega) hk (by simp only []; omega) (by simp only []; omega)
      exact ⟨this.1, this.2.1, this.2.2, fun e => absurd e hne⟩

theorem LogRel.isSome_iff {gl : List (Int × S_rfc8888_packetReport)} {ml : Rfc8888.Log} (h : LogRel gl ml) (k : Int) :
    (glookup gl k).isSome = (Rfc8888.lookup ml k).isSome := by
  rw [h.same]; simp

/-- ★ `metricsAfter` preserves the relation AND the invariant (with the same room `n`): together with
`newStreamLog_src_eq_model`/`newStreamLog_inv` and `add_src_eq_model`/`add_inv` this lets the step theorems chain
over every sequence of `add` and `metricsAfter` calls (with fewer than 2^46 `add`s).  Same statement as
`metricsAfter_src_eq_model`, with the int64 hypotheses replaced by `Inv g n` and `Inv g' n` added to the
conclusion. -/
theorem metricsAfter_chain {g : S_rfc8888_streamLog} {m : Rfc8888.StreamLog} (h : Rel g m) {n : Nat} (hinv : Inv g n)
    (ref maxBlocks : Int) (hmb : 0 ≤ maxBlocks ∧ maxBlocks < 4611686018427387904)
    (fuel : Nat) (hf : (g.lastSequenceNumberReceived - g.nextSequenceNumberToReport + 1).toNat + 1 ≤ fuel) :
    ∃ g', rfc8888_streamLog_metricsAfter fuel g ref maxBlocks
          = some (toGoB (Rfc8888.metricsAfter m ref maxBlocks).2, g') ∧
      Rel g' (Rfc8888.metricsAfter m ref maxBlocks).1 ∧ Inv g' n := by
  have hb := hinv.bounds
  obtain ⟨g', h1, h2, h3⟩ := metricsAfter_src_eq_model h ref maxBlocks hmb hb.1 hb.2.1 hb.2.2.1 fuel hf
  refine ⟨g', h1, h2, ?_⟩
  have hk : KS m.log m.next m.last := by
    intro k hk
    rw [← h.next, ← h.last]
    exact hinv.keys k (by rw [h.log.isSome_iff]; exact hk)
  have hm := metricsAfter_model_inv m ref maxBlocks hmb.1 hk (by rw [← h.next, ← h.last]; exact hinv.nextHi)
  have e1 : g'.sequence = g.sequence := by rw [h3]
  have e2 : g'.init = g.init := by rw [h3]
  have e3 : g'.lastSequenceNumberReceived = g.lastSequenceNumberReceived := by rw [h3]
  have e4 : g'.nextSequenceNumberToReport = (Rfc8888.metricsAfter m ref maxBlocks).1.next := h2.next
  have e5 : g.nextSequenceNumberToReport = m.next := h.next
  have e6 : g.lastSequenceNumberReceived = m.last := h.last
  refine ⟨by rw [e1]; exact hinv.room, by rw [e1]; exact hinv.fresh, ?_, ?_, by rw [e3]; exact hinv.lastHi, ?_, ?_⟩
  · have := hinv.nextLo; omega
  · omega
  · intro c
    rw [e2] at c
    have : m.log = [] := h.log.empty_iff.mp (hinv.initEmpty c)
    exact h2.log.empty_iff.mpr (hm.2.2.2 this)
  · intro k hk'
    rw [h2.log.isSome_iff] at hk'
    have := hm.1 k hk'
    omega

/-! ### the report block, field by field -/

/-- ★ the fields of the returned block, spelled out: MediaSSRC and BeginSequence are the model's, there are as many
metric blocks as in the model's block, and the `j`-th metric block has the model's Received, ECN and
ArrivalTimeOffset. -/
theorem toGoB_fields (b : Rfc8888.Block) :
    (toGoB b).MediaSSRC = (b.ssrc : Int) ∧ (toGoB b).BeginSequence = (b.begin : Int) ∧
    (toGoB b).MetricBlocks.length = b.metrics.length ∧
    ∀ (j : Nat) (hj : j < b.metrics.length),
      ((toGoB b).MetricBlocks.getD j default).Received = (b.metrics[j]).received ∧
      ((toGoB b).MetricBlocks.getD j default).ECN = ((b.metrics[j]).ecn : Int) ∧
      ((toGoB b).MetricBlocks.getD j default).ArrivalTimeOffset = ((b.metrics[j]).ato : Int) := by
  refine ⟨rfl, rfl, by simp [toGoB], fun j hj => ?_⟩
  have : (toGoB b).MetricBlocks.getD j default = toGoM (b.metrics[j]) := by
    simp [toGoB, List.getD, hj]
  rw [this]
  exact ⟨rfl, rfl, rfl⟩

/-! ### chaining: any sequence of `add` and `metricsAfter` calls -/

/-- one call on a stream log. -/
inductive Op where
  | add (ts : Int) (sn : Nat) (ecn : Nat)
  | report (ref : Int) (maxBlocks : Int)

/-- the arguments are in the range of the Go types / of the caller. -/
def Op.ok : Op → Prop
  | .add _ sn _ => sn < 65536
  | .report _ mb => 0 ≤ mb ∧ mb < 4611686018427387904

/-- run the generated functions; each `metricsAfter` gets `last - next + 2` units of fuel. -/
def goRun : S_rfc8888_streamLog → List Op → Option (S_rfc8888_streamLog × List S_rtcp_CCFeedbackReportBlock)
  | g, [] => some (g, [])
  | g, .add ts sn ecn :: ops => goRun (rfc8888_streamLog_add g ts (sn : Int) (ecn : Int)) ops
  | g, .report ref mb :: ops =>
    match rfc8888_streamLog_metricsAfter
        ((g.lastSequenceNumberReceived - g.nextSequenceNumberToReport + 1).toNat + 1) g ref mb with
    | none => none
    | some (b, g') =>
      match goRun g' ops with
      | none => none
      | some (g'', bs) => some (g'', b :: bs)

/-- run the model. -/
def modelRun : Rfc8888.StreamLog → List Op → Rfc8888.StreamLog × List Rfc8888.Block
  | m, [] => (m, [])
  | m, .add ts sn ecn :: ops => modelRun (Rfc8888.add m ts sn ecn) ops
  | m, .report ref mb :: ops =>
    let r := Rfc8888.metricsAfter m ref mb
    let rs := modelRun r.1 ops
    (rs.1, r.2 :: rs.2)

theorem run_rel : ∀ (ops : List Op) (g : S_rfc8888_streamLog) (m : Rfc8888.StreamLog),
    (∀ o ∈ ops, o.ok) → Rel g m → Inv g ops.length →
    ∃ g', goRun g ops = some (g', (modelRun m ops).2.map toGoB) ∧ Rel g' (modelRun m ops).1 ∧ Inv g' 0 := by
  intro ops
  induction ops with
  | nil => intro g m _ h hi; exact ⟨g, rfl, h, hi⟩
  | cons o ops ih =>
    intro g m hok h hi
    have hok' : ∀ o ∈ ops, o.ok := fun o ho => hok o (by simp [ho])
    cases o with
    | add ts sn ecn =>
      have hsn : sn < 65536 := hok (.add ts sn ecn) (by simp)
      have hb := hi.bounds
      simp only [goRun, modelRun]
      exact ih _ _ hok' (add_src_eq_model h ts sn hsn ecn ⟨hb.2.2.2.1, hb.2.2.2.2⟩) (add_inv hi ts sn hsn ecn)
    | report ref mb =>
      have hmb : 0 ≤ mb ∧ mb < 4611686018427387904 := hok (.report ref mb) (by simp)
      obtain ⟨g1, e1, r1, i1⟩ := metricsAfter_chain h hi.mono ref mb hmb _ (Nat.le_refl _)
      obtain ⟨g2, e2, r2, i2⟩ := ih g1 _ hok' r1 i1
      simp only [goRun, modelRun, e1, e2, List.map_cons]
      exact ⟨g2, rfl, r2, i2⟩

/-- ★ end to end: starting from `newStreamLog(ssrc)`, every sequence of fewer than 2^46 calls of `add` (any time, any
uint16 sequence number, any ECN) and `metricsAfter` (any reference time, any `maxReportBlocks` in `[0, 2^62)`) on
the generated code terminates and returns exactly the report blocks of the model, and the final states are
related. -/
theorem run_src_eq_model (ssrc : Nat) (ops : List Op) (hok : ∀ o ∈ ops, o.ok) (hlen : ops.length < 70368744177664) :
    ∃ g', goRun (rfc8888_newStreamLog (ssrc : Int)) ops
        = some (g', (modelRun (Rfc8888.StreamLog.new ssrc) ops).2.map toGoB) ∧
      Rel g' (modelRun (Rfc8888.StreamLog.new ssrc) ops).1 := by
  obtain ⟨g', h1, h2, _⟩ := run_rel ops _ _ hok (newStreamLog_src_eq_model ssrc) (newStreamLog_inv _ _ hlen)
  exact ⟨g', h1, h2⟩

/-! ### the hypotheses are satisfiable: concrete non-trivial states -/

/-- a Go state with a gap: packets 10 and 12 received, 11 missing, report pointer at 10. -/
def gEx : S_rfc8888_streamLog :=
  { ssrc := 7, sequence := { init := true, lastUnwrapped := 12 }, init := true,
    nextSequenceNumberToReport := 10, lastSequenceNumberReceived := 12,
    log := [(12, { arrivalTime := 2000000, ecn := 0 }), (10, { arrivalTime := 1000000, ecn := 1 })] }

/-- the model state it represents (the entries are stored in another order). -/
def mEx : Rfc8888.StreamLog :=
  { ssrc := 7, seq := some 12, init := true, next := 10, last := 12,
    log := [(10, ⟨1000000, 1⟩), (12, ⟨2000000, 0⟩)] }

theorem relEx : Rel gEx mEx := by
  refine ⟨rfl, rfl, rfl, rfl, rfl, by decide, fun k => ?_⟩
  simp only [gEx, mEx, glookup, Rfc8888.lookup]
  by_cases h12 : (12 : Int) = k
  · subst h12; rfl
  · by_cases h10 : (10 : Int) = k
    · subst h10; rfl
    · simp [h12, h10]

theorem invEx : Inv gEx 1000 := by
  refine ⟨(by unfold L; decide), (fun c => by cases c), (by unfold L; decide), (by decide), (by unfold L; decide),
    (fun c => by cases c), fun k hk => ?_⟩
  simp only [gEx, glookup] at hk ⊢
  by_cases h12 : (12 : Int) = k
  · omega
  · by_cases h10 : (10 : Int) = k
    · omega
    · simp [h12, h10] at hk

example : Rel (rfc8888_streamLog_add gEx 3000000 11 2) (Rfc8888.add mEx 3000000 11 2) :=
  add_src_eq_model relEx 3000000 11 (by omega) 2 (by decide)

example : Inv (rfc8888_streamLog_add gEx 3000000 11 2) 999 := add_inv invEx 3000000 11 (by omega) 2

example : ∃ g', rfc8888_streamLog_metricsAfter 4 gEx 5000000 2
      = some (toGoB (Rfc8888.metricsAfter mEx 5000000 2).2, g') ∧
    Rel g' (Rfc8888.metricsAfter mEx 5000000 2).1 ∧
    g' = { gEx with log := g'.log, nextSequenceNumberToReport := g'.nextSequenceNumberToReport } :=
  metricsAfter_src_eq_model relEx 5000000 2 (by omega) (by decide) (by decide) (by decide) 4 (by decide)

example : ∃ g', rfc8888_streamLog_metricsAfter 4 gEx 5000000 100
      = some (toGoB (Rfc8888.metricsAfter mEx 5000000 100).2, g') ∧
    Rel g' (Rfc8888.metricsAfter mEx 5000000 100).1 ∧ Inv g' 1000 :=
  metricsAfter_chain relEx invEx 5000000 100 (by omega) 4 (by decide)

example : ∃ g', goRun (rfc8888_newStreamLog (7 : Nat))
      [.add 1000000 10 1, .add 2000000 12 0, .report 5000000 2, .add 3000000 11 2, .report 6000000 100]
      = some (g', (modelRun (Rfc8888.StreamLog.new 7)
          [.add 1000000 10 1, .add 2000000 12 0, .report 5000000 2, .add 3000000 11 2, .report 6000000 100]).2.map
            toGoB) ∧
      Rel g' (modelRun (Rfc8888.StreamLog.new 7)
          [.add 1000000 10 1, .add 2000000 12 0, .report 5000000 2, .add 3000000 11 2, .report 6000000 100]).1 :=
  run_src_eq_model 7 _ (by intro o ho; simp at ho; rcases ho with rfl | rfl | rfl | rfl | rfl <;> simp [Op.ok])
    (by decide)

end Interceptor.Facts.FnStreamLog

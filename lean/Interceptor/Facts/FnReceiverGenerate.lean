/-
`receiverStream.generateReport` as written in pkg/report/receiver_stream.go (generated translation
Gen/Fn_report.lean, regenerated from /repo on every run) computes exactly the hand-written model
`ReceiverReport.generateReport` (Model/ReceiverReport.lean) that the C06 theorems are about — the whole
function: the loss scan `for i := lastReportSeqnum+1; i != lastSeqnum; i++ { if !getReceived(i) { ret++ } }`
over the packed `[]uint64` history (terminates within 65534 iterations: any fuel ≥ 65535 suffices), the
`totalLost` accumulation (mod 2^32) and the two 24-bit clamps, FractionLost in binary64, the extended
highest sequence number `uint32(cycles)<<16 | uint32(lastSeqnum)`, LSR, DLSR with the `IsZero` test,
the jitter truncation, and the state update (`totalLost`, `lastReportSeqnum`).

The relation is `FnReceiverReport.Rel` (reused).  Hypotheses beyond it, each an invariant established by the
constructor and preserved by every mutator (`inv_new`, `inv_step`):
* `SeqOk`: `lastSeqnum`, `lastReportSeqnum` are in the range of their Go type uint16 (the model's fields are
  `Nat`); needed by the Go code itself: the uint16 loop counter can only reach a uint16 `lastSeqnum`;
* `LsrOk`: the stored `lastSenderReportTime`, when set, is an `instant` (−2^62 ≤ t < 2^62 Unix ns), and so
  is `now`: Go's `Time.Sub` saturates at ±2^63 ns while the model subtracts exactly, and an instant is not
  the zero `time.Time` (the model's `none`).
`run_src_eq_model` chains processRTP / processSenderReport / generateReport over arbitrary call sequences.
-/
import Interceptor.Proofs.ReportBitmap
import Interceptor.Facts.FnReceiverReport
import Interceptor.Base.GoBits
namespace Interceptor.Facts.FnReceiverGenerate
open Interceptor.Gen.Fn Interceptor.GoSem Interceptor.ReceiverReport Interceptor.ReportBitmap
open Interceptor.Facts.FnSenderReport (goZeroTime timeRel timeSub_rel HeaderOk)
open Interceptor.Facts.FnReceiverReport (S Rel TimeOk instant)

/-! ## the generated `generateReport`, restated with its pieces named -/

/-- the `Delay` closure. -/
def delayOf (st : S) (now : Int) : Int :=
  if decide (st.lastSenderReportTime = zeroTime) then 0
  else u32 (F64.toInt64 (F64.mul (durSeconds (max (timeSub now st.lastSenderReportTime) (0 : Int))) (65536 : Rat)))

/-- the composite literal and the final `lastReportSeqnum = lastSeqnum`, for a given `Delay`. -/
def mkRepWith (st : S) (lost total delay : Int) : S_rtcp_ReceiverReport × S :=
  ({ SSRC := st.receiverSSRC,
     Reports := [{ SSRC := st.ssrc,
                   LastSequenceNumber := u32 (bor (u32 (shl st.seqnumCycles 16)) st.lastSeqnum),
                   LastSenderReport := st.lastSenderReport,
                   FractionLost := u8 (F64.toInt64 (F64.div (F64.ofInt (u32 (lost * 256))) (F64.ofInt total))),
                   TotalLost := st.totalLost,
                   Delay := delay,
                   Jitter := u32 (F64.toInt64 st.jitter) }] },
   { st with lastReportSeqnum := st.lastSeqnum })

def mkRep (st : S) (now lost total : Int) : S_rtcp_ReceiverReport × S :=
  mkRepWith st lost total (delayOf st now)

/-- everything after the loss count: `totalLost += lost`, the two 24-bit clamps, the report. -/
def fin (st : S) (now lostRaw total : Int) : S_rtcp_ReceiverReport × S :=
  let st1 : S := { st with totalLost := u32 (st.totalLost + lostRaw) }
  mkRep (if decide (st1.totalLost > 16777215) then { st1 with totalLost := 16777215 } else st1) now
    (if decide (lostRaw > 16777215) then 16777215 else lostRaw) total

/-- loop condition `i != stream.lastSeqnum`. -/
def ccond (last : Int) : Int × Int → Bool := fun p => decide (p.1 ≠ last)
/-- loop body `if !stream.getReceived(i) { ret++ }; i++`. -/
def cbody (st : S) : Int × Int → Int × Int := fun p =>
  if !(report_receiverStream_getReceived st p.1) then (u16 (p.1 + 1), u32 (p.2 + 1)) else (u16 (p.1 + 1), p.2)

def genRep' (fuel : Nat) (st : S) (now : Int) : Option (S_rtcp_ReceiverReport × S) :=
  if decide (st.lastSeqnum = st.lastReportSeqnum) then
    some (fin st now 0 (u16 (st.lastSeqnum - st.lastReportSeqnum)))
  else
    match loop fuel (ccond st.lastSeqnum) (cbody st) (u16 (st.lastReportSeqnum + 1), 0) with
    | none => none
    | some p => some (fin st now p.2 (u16 (st.lastSeqnum - st.lastReportSeqnum)))

theorem fin_cases (st : S) (now lostRaw total : Int) :
    fin st now lostRaw total =
      (if decide (lostRaw > 16777215) then
        (if decide (u32 (st.totalLost + lostRaw) > 16777215) then
          mkRep { st with totalLost := 16777215 } now 16777215 total
         else mkRep { st with totalLost := u32 (st.totalLost + lostRaw) } now 16777215 total)
       else
        (if decide (u32 (st.totalLost + lostRaw) > 16777215) then
          mkRep { st with totalLost := 16777215 } now lostRaw total
         else mkRep { st with totalLost := u32 (st.totalLost + lostRaw) } now lostRaw total)) := by
  unfold fin
  dsimp only
  split <;> split <;> rfl

theorem mkRep_cases (st : S) (now lost total : Int) :
    mkRep st now lost total =
      (if decide (st.lastSenderReportTime = zeroTime) then mkRepWith st lost total 0
       else mkRepWith st lost total
         (u32 (F64.toInt64 (F64.mul (durSeconds (max (timeSub now st.lastSenderReportTime) (0 : Int))) (65536 : Rat))))) := by
  unfold mkRep delayOf
  split <;> rfl

/-- the generated `generateReport` IS `genRep'`. -/
theorem gen_eq (fuel : Nat) (st : S) (now : Int) :
    report_receiverStream_generateReport fuel st now = genRep' fuel st now := by
  unfold report_receiverStream_generateReport genRep'
  split
  · rw [fin_cases]
    simp only [mkRep_cases]
    split <;> split <;> split <;> rfl
  · unfold ccond cbody
    dsimp only
    generalize (loop fuel _ _ _) = o
    cases o with
    | none => rfl
    | some p =>
      obtain ⟨i, ret⟩ := p
      simp only []
      rw [fin_cases]
      simp only [mkRep_cases]
      split <;> split <;> split <;> rfl

/-! ## invariants needed beyond `Rel` -/

/-- the two sequence numbers are in the range of their Go type (uint16).  (The loop `for i := lastReportSeqnum+1;
i != lastSeqnum; i++` is over a uint16 counter: it reaches `lastSeqnum` because `lastSeqnum` is a uint16.) -/
structure SeqOk (m : Stream) : Prop where
  last : m.last < 65536
  lastReport : m.lastReport < 65536

/-- the stored arrival time of the last sender report, when there is one, is an `instant` (so that
`now.Sub(lastSenderReportTime)` does not saturate and the time is not the zero `time.Time`). -/
def LsrOk (m : Stream) : Prop := ∀ u, m.lsrTime = some u → instant u

/-! ## the loss-count loop -/

theorem countMissing_le (b : Array Bool) : ∀ (n start : Nat), countMissing b start n ≤ n := by
  intro n
  induction n with
  | zero => intro start; simp [countMissing]
  | succ n ih =>
    intro start
    have := ih (add16 start 1)
    unfold countMissing
    split <;> omega

/-- ★ the loss-count loop terminates and computes the model's `countMissing`: started at `i` with `n` steps
to go to `last` (`n < 65536`) and a count `ret` that cannot overflow, any fuel above `n` suffices, the
counter ends at `last` and the count is `ret + countMissing b i n`. -/
theorem loop_count (st : S) (b : Array Bool) (hsz : st.size = 128) (hb : bitsRel st.packets b) (last : Int) :
    ∀ (n : Nat) (i : Int) (ret : Nat), 0 ≤ i ∧ i < 65536 → n < 65536 → (i + n) % 65536 = last →
      ret + n < 4294967296 →
      ∀ fuel, n + 1 ≤ fuel →
        loop fuel (ccond last) (cbody st) (i, (ret : Int))
          = some (last, ((ret + countMissing b i.toNat n : Nat) : Int)) := by
  intro n
  induction n with
  | zero =>
    intro i ret hi _ he _ fuel hf
    obtain ⟨f, rfl⟩ : ∃ f, fuel = f + 1 := ⟨fuel - 1, by omega⟩
    have : i = last := by omega
    subst this
    rw [FnReceiverReport.loop_succ]
    simp [ccond, countMissing]
  | succ n ih =>
    intro i ret hi hn he hr fuel hf
    obtain ⟨f, rfl⟩ : ∃ f, fuel = f + 1 := ⟨fuel - 1, by omega⟩
    have hne : i ≠ last := by omega
    have hget := getReceived_src_eq_model st b hsz hb i hi
    have hi' : 0 ≤ u16 (i + 1) ∧ u16 (i + 1) < 65536 := by unfold u16; omega
    have he' : (u16 (i + 1) + (n : Int)) % 65536 = last := by unfold u16; omega
    have hnat : (u16 (i + 1)).toNat = add16 i.toNat 1 := by unfold u16 add16; omega
    have hc : ccond last (i, (ret : Int)) = true := by simp [ccond, hne]
    rw [FnReceiverReport.loop_succ, hc, if_pos rfl]
    cases hg : getBit b i.toNat
    · have hbd : cbody st (i, (ret : Int)) = (u16 (i + 1), ((ret + 1 : Nat) : Int)) := by
        have : u32 ((ret : Int) + 1) = ((ret + 1 : Nat) : Int) := by unfold u32; omega
        simp only [cbody, hget, hg, Bool.not_false, if_true, this]
      rw [hbd, ih (u16 (i + 1)) (ret + 1) hi' (by omega) he' (by omega) f (by omega), hnat]
      congr 3
      conv => rhs; unfold countMissing
      simp only [hg, Bool.false_eq_true, if_false]
      omega
    · have hbd : cbody st (i, (ret : Int)) = (u16 (i + 1), (ret : Int)) := by
        simp only [cbody, hget, hg, Bool.not_true, Bool.false_eq_true, if_false]
      rw [hbd, ih (u16 (i + 1)) ret hi' (by omega) he' (by omega) f (by omega), hnat]
      congr 3
      conv => rhs; unfold countMissing
      simp only [hg, if_true]
      omega

/-! ## the fields of the report -/

theorem toUint32_cast (q : Rat) : ((F64.toUint32 q : Nat) : Int) = u32 (F64.toInt64 q) := by
  unfold F64.toUint32 u32; omega

theorem toUint8_cast (q : Rat) : ((F64.toUint8 q : Nat) : Int) = u8 (F64.toInt64 q) := by
  unfold F64.toUint8 u8; omega

/-- `uint32(cycles)<<16 | uint32(lastSeqnum)` is `cycles·65536 + lastSeqnum` (mod 2^32) for a uint16
`lastSeqnum`. -/
theorem ext_eq (c l : Nat) (hl : l < 65536) :
    u32 (bor (u32 (shl (c : Int) 16)) (l : Int)) = (((c * 65536 + l) % M32 : Nat) : Int) := by
  have h1 : shl (c : Int) 16 = ((c * 65536 : Nat) : Int) := by unfold shl; simp
  have h2 : u32 ((c * 65536 : Nat) : Int) = (((c % 65536) * 2 ^ 16 : Nat) : Int) := by
    unfold u32; omega
  rw [h1, h2, bor_ofNat, or_field _ _ 16 (by omega)]
  unfold u32 M32; omega

theorem rne0 : F64.rne 0 = 0 := by unfold F64.rne; simp
theorem ofInt0 : F64.ofInt 0 = 0 := by unfold F64.ofInt; simp [rne0]
theorem q00 : (0 : Rat) / 0 = 0 := by rw [Rat.div_def, Rat.zero_mul]
theorem div0 : F64.div 0 0 = 0 := by unfold F64.div; rw [q00, rne0]
theorem fl0 : Rat.floor 0 = 0 := by decide
theorem toInt0 : F64.toInt64 0 = 0 := by unfold F64.toInt64 F64.trunc; simp [fl0]

/-- `uint8(float64(lost*256) / float64(total))`; for `total = 0` (then `lost = 0`) the translated
division `0/0` is `0`, as is the model's explicit case. -/
theorem fraction_eq (lost total : Nat) (h0 : total = 0 → lost = 0) :
    u8 (F64.toInt64 (F64.div (F64.ofInt (u32 ((lost : Int) * 256))) (F64.ofInt (total : Int))))
      = ((fractionLost lost total : Nat) : Int) := by
  have hu : u32 ((lost : Int) * 256) = ((lost * 256 % M32 : Nat) : Int) := by unfold u32 M32; omega
  unfold fractionLost
  by_cases ht : total = 0
  · have hl := h0 ht
    subst ht; subst hl
    rw [if_pos rfl]
    have : u32 (((0 : Nat) : Int) * 256) = 0 := by decide
    rw [this]
    simp only [Int.natCast_zero, ofInt0, div0, toInt0]
    decide
  · rw [if_neg ht, toUint8_cast, hu]

/-- the model's `Delay`. -/
def mDelay (m : Stream) (now : Int) : Nat :=
  match m.lsrTime with
  | none => 0
  | some t => F64.toUint32 (F64.mul (GoTime.seconds (max (now - t) 0)) 65536)

/-- the `Delay` closure: the `IsZero` test is the model's `none`, and `now.Sub` does not saturate. -/
theorem delay_eq (st : S) (m : Stream) (ht : timeRel st.lastSenderReportTime m.lsrTime) (lok : LsrOk m)
    (now : Int) (hn : instant now) : delayOf st now = ((mDelay m now : Nat) : Int) := by
  unfold delayOf mDelay
  cases hm : m.lsrTime with
  | none =>
    rw [hm] at ht
    have : st.lastSenderReportTime = zeroTime := ht
    simp only [this, decide_true, if_true]
    rfl
  | some t =>
    rw [hm] at ht
    have e : st.lastSenderReportTime = t := ht
    have hi := lok t hm
    unfold instant at hi hn
    have hz : ¬ (t = zeroTime) := by unfold zeroTime; omega
    have hs : timeSub now t = now - t := by
      unfold timeSub
      simp only
      split
      · omega
      · split
        · omega
        · rfl
    simp only [e, hz, decide_false, Bool.false_eq_true, if_false, hs]
    rw [toUint32_cast]
    rfl

/-- a model reception report as the Go struct. -/
def goRR (rr : RR) : S_rtcp_ReceptionReport :=
  { SSRC := rr.ssrc, FractionLost := rr.fraction, TotalLost := rr.totalLost, LastSequenceNumber := rr.ext,
    Jitter := rr.jitter, LastSenderReport := rr.lsr, Delay := rr.delay }

/-- the report literal and the state update on related states, for given (already clamped) `totalLost` and
`totalLostSinceReport`. -/
theorem mkRep_rel (g : S) (m : Stream) (r : Rel g m) (sok : SeqOk m) (lok : LsrOk m) (now : Int)
    (hn : instant now) (tl lost : Nat) (h0 : expectedInterval m = 0 → lost = 0) :
    (mkRep { g with totalLost := (tl : Int) } now (lost : Int) ((expectedInterval m : Nat) : Int)).1
        = { SSRC := g.receiverSSRC,
            Reports := [goRR { ssrc := m.ssrc, ext := (m.cycles * 65536 + m.last) % M32,
                               fraction := fractionLost lost (expectedInterval m), totalLost := tl,
                               jitter := F64.toUint32 m.jitter, lsr := m.lsr, delay := mDelay m now }] } ∧
      Rel (mkRep { g with totalLost := (tl : Int) } now (lost : Int) ((expectedInterval m : Nat) : Int)).2
        { m with totalLost := tl, lastReport := m.last } := by
  have hd := delay_eq { g with totalLost := (tl : Int) } m r.lsrTime lok now hn
  have hf := fraction_eq lost (expectedInterval m) h0
  have he := ext_eq m.cycles m.last sok.last
  constructor
  · unfold mkRep mkRepWith goRR
    rw [hd]
    simp only [hf, r.ssrc, r.cycles, r.last, he, r.lsr, r.jitter, toUint32_cast]
  · unfold mkRep mkRepWith
    exact ⟨r.ssrc, r.rate, r.size, r.bits, r.started, r.cycles, r.last, r.last, r.lastTs, r.lastTime, r.jitter,
      r.lsr, r.lsrTime, rfl⟩

/-- everything after the loss count, on related states. -/
theorem fin_rel (g : S) (m : Stream) (r : Rel g m) (sok : SeqOk m) (lok : LsrOk m) (now : Int)
    (hn : instant now) :
    (fin g now ((lostInterval m : Nat) : Int) ((expectedInterval m : Nat) : Int)).1
        = { SSRC := g.receiverSSRC, Reports := [goRR (generateReport m now).1] } ∧
      Rel (fin g now ((lostInterval m : Nat) : Int) ((expectedInterval m : Nat) : Int)).2 (generateReport m now).2 := by
  have h0 : expectedInterval m = 0 → lostInterval m = 0 := by
    intro h
    have hl : m.last = m.lastReport := by
      have := sok.last; have := sok.lastReport
      unfold expectedInterval sub16 at h; omega
    unfold lostInterval; rw [if_pos hl]
  have htl : u32 (g.totalLost + ((lostInterval m : Nat) : Int))
      = (((m.totalLost + lostInterval m) % M32 : Nat) : Int) := by
    rw [r.totalLost]; unfold u32 M32; omega
  have hfin : fin g now ((lostInterval m : Nat) : Int) ((expectedInterval m : Nat) : Int)
      = mkRep { g with totalLost :=
            ((if (m.totalLost + lostInterval m) % M32 > 16777215 then 16777215
              else (m.totalLost + lostInterval m) % M32 : Nat) : Int) } now
          ((if lostInterval m > 16777215 then 16777215 else lostInterval m : Nat) : Int)
          ((expectedInterval m : Nat) : Int) := by
    unfold fin
    dsimp only
    rw [htl]
    by_cases h1 : (m.totalLost + lostInterval m) % M32 > 16777215
    · have h1' : (((m.totalLost + lostInterval m) % M32 : Nat) : Int) > 16777215 := by omega
      by_cases h2 : lostInterval m > 16777215
      · have h2' : ((lostInterval m : Nat) : Int) > 16777215 := by omega
        simp only [h1, h1', h2, h2', decide_true, if_true]; rfl
      · have h2' : ¬ ((lostInterval m : Nat) : Int) > 16777215 := by omega
        simp only [h1, h1', h2, h2', decide_true, decide_false, if_true, if_false, Bool.false_eq_true]; rfl
    · have h1' : ¬ (((m.totalLost + lostInterval m) % M32 : Nat) : Int) > 16777215 := by omega
      by_cases h2 : lostInterval m > 16777215
      · have h2' : ((lostInterval m : Nat) : Int) > 16777215 := by omega
        simp only [h1, h1', h2, h2', decide_true, decide_false, if_true, if_false, Bool.false_eq_true]; rfl
      · have h2' : ¬ ((lostInterval m : Nat) : Int) > 16777215 := by omega
        simp only [h1, h1', h2, h2', decide_false, if_false, Bool.false_eq_true]
  rw [hfin]
  have h0' : expectedInterval m = 0 →
      (if lostInterval m > 16777215 then 16777215 else lostInterval m) = 0 := by
    intro h; rw [h0 h]; rfl
  exact mkRep_rel g m r sok lok now hn _ _ h0'

/-! ## generateReport -/

/-- ★ `receiverStream.generateReport` as written in the source terminates (the loss scan runs at most 65534
iterations: any fuel ≥ 65535 suffices) and equals the model's `generateReport`: for every related pair of
states satisfying the invariants and every instant `now`, it returns the receiver report whose single
reception report is the model's, field by field (`goRR`), and a state related to the model's next state. -/
theorem generateReport_src_eq_model (g : S) (m : Stream) (r : Rel g m) (sok : SeqOk m) (lok : LsrOk m)
    (now : Int) (hn : instant now) :
    ∀ fuel, 65535 ≤ fuel →
      ∃ g', report_receiverStream_generateReport fuel g now
          = some ({ SSRC := g.receiverSSRC, Reports := [goRR (generateReport m now).1] }, g') ∧
        Rel g' (generateReport m now).2 := by
  intro fuel hf
  have hl := sok.last
  have hlr := sok.lastReport
  have htot : u16 (g.lastSeqnum - g.lastReportSeqnum) = ((expectedInterval m : Nat) : Int) := by
    rw [r.last, r.lastReport]; unfold u16 expectedInterval sub16; omega
  obtain ⟨h1, h2⟩ := fin_rel g m r sok lok now hn
  rw [gen_eq]
  unfold genRep'
  rw [htot]
  by_cases he : m.last = m.lastReport
  · have hg : g.lastSeqnum = g.lastReportSeqnum := by rw [r.last, r.lastReport, he]
    have hlost : ((lostInterval m : Nat) : Int) = 0 := by unfold lostInterval; rw [if_pos he]; rfl
    rw [hlost] at h1 h2
    simp only [hg, decide_true, if_true]
    exact ⟨_, by rw [← h1], h2⟩
  · have hg : ¬ (g.lastSeqnum = g.lastReportSeqnum) := by rw [r.last, r.lastReport]; omega
    have hi : 0 ≤ u16 (g.lastReportSeqnum + 1) ∧ u16 (g.lastReportSeqnum + 1) < 65536 := by unfold u16; omega
    have hi2 : (u16 (g.lastReportSeqnum + 1)).toNat = add16 m.lastReport 1 := by
      rw [r.lastReport]; unfold u16 add16; omega
    have hen : (u16 (g.lastReportSeqnum + 1) + ((expectedInterval m - 1 : Nat) : Int)) % 65536 = g.lastSeqnum := by
      rw [r.last, r.lastReport]; unfold u16 expectedInterval sub16; omega
    have hlt' : expectedInterval m < 65536 := sub16_lt _ _
    have hlt : expectedInterval m - 1 < 65536 := by omega
    have hloop := loop_count g m.bits r.size r.bits g.lastSeqnum (expectedInterval m - 1) _ 0 hi hlt hen (by omega)
      fuel (by omega)
    have hlost : ((0 + countMissing m.bits (u16 (g.lastReportSeqnum + 1)).toNat (expectedInterval m - 1) : Nat) : Int)
        = ((lostInterval m : Nat) : Int) := by
      rw [hi2]; unfold lostInterval; rw [if_neg he, Nat.zero_add]
    simp only [hg, decide_false, Bool.false_eq_true, if_false]
    have h00 : ((0 : Nat) : Int) = 0 := rfl
    rw [h00] at hloop
    rw [hloop]
    simp only [hlost]
    exact ⟨_, by rw [← h1], h2⟩

/-- ★ the fields of the generated reception report, spelled out: SSRC, FractionLost, TotalLost,
LastSequenceNumber, Jitter, LastSenderReport, Delay are the model's. -/
theorem generateReport_fields (g : S) (m : Stream) (r : Rel g m) (sok : SeqOk m) (lok : LsrOk m)
    (now : Int) (hn : instant now) (fuel : Nat) (hf : 65535 ≤ fuel) :
    ∃ rr g', report_receiverStream_generateReport fuel g now
        = some ({ SSRC := g.receiverSSRC, Reports := [rr] }, g') ∧
      Rel g' (generateReport m now).2 ∧
      rr.SSRC = ((generateReport m now).1.ssrc : Int) ∧
      rr.FractionLost = ((generateReport m now).1.fraction : Int) ∧
      rr.TotalLost = ((generateReport m now).1.totalLost : Int) ∧
      rr.LastSequenceNumber = ((generateReport m now).1.ext : Int) ∧
      rr.Jitter = ((generateReport m now).1.jitter : Int) ∧
      rr.LastSenderReport = ((generateReport m now).1.lsr : Int) ∧
      rr.Delay = ((generateReport m now).1.delay : Int) := by
  obtain ⟨g', h, hr⟩ := generateReport_src_eq_model g m r sok lok now hn fuel hf
  exact ⟨_, g', h, hr, rfl, rfl, rfl, rfl, rfl, rfl, rfl⟩

/-! ## the invariants: established by the constructor, preserved by every mutator -/

/-- ★ the constructor establishes `SeqOk`. -/
theorem seqOk_new (ssrc rate : Nat) : SeqOk (ReceiverReport.new ssrc rate) :=
  ⟨by show (0 : Nat) < 65536; omega, by show (0 : Nat) < 65536; omega⟩

/-- ★ the constructor establishes `LsrOk`. -/
theorem lsrOk_new (ssrc rate : Nat) : LsrOk (ReceiverReport.new ssrc rate) := by
  intro u hu; simp [ReceiverReport.new] at hu

/-- ★ `processRTP` preserves `SeqOk` for every uint16 sequence number. -/
theorem seqOk_processRTP (m : Stream) (h : SeqOk m) (now : Int) (seq ts : Nat) (hs : seq < 65536) :
    SeqOk (processRTP m now seq ts) := by
  cases hst : m.started
  · rw [FnReceiverReport.model_first m now seq ts hst]
    exact ⟨hs, sub16_lt _ _⟩
  · rw [FnReceiverReport.model_started m now seq ts hst]
    unfold FnReceiverReport.jit FnReceiverReport.mid
    dsimp only
    split
    · exact ⟨hs, h.lastReport⟩
    · exact ⟨h.last, h.lastReport⟩

/-- ★ `processRTP` preserves `LsrOk`. -/
theorem lsrOk_processRTP (m : Stream) (h : LsrOk m) (now : Int) (seq ts : Nat) :
    LsrOk (processRTP m now seq ts) := by
  have : (processRTP m now seq ts).lsrTime = m.lsrTime := by
    cases hst : m.started
    · rw [FnReceiverReport.model_first m now seq ts hst]
    · rw [FnReceiverReport.model_started m now seq ts hst]
      unfold FnReceiverReport.jit FnReceiverReport.mid
      dsimp only
      split <;> rfl
  intro u hu
  rw [this] at hu
  exact h u hu

/-- ★ `processSR` preserves `SeqOk`. -/
theorem seqOk_processSR (m : Stream) (h : SeqOk m) (now : Int) (ntp : Nat) : SeqOk (processSR m now ntp) :=
  ⟨h.last, h.lastReport⟩

/-- ★ `processSR` establishes `LsrOk` for every instant `now`. -/
theorem lsrOk_processSR (m : Stream) (now : Int) (ntp : Nat) (hn : instant now) : LsrOk (processSR m now ntp) := by
  intro u hu
  simp only [processSR, Option.some.injEq] at hu
  rw [← hu]; exact hn

/-- ★ `generateReport` preserves `SeqOk`. -/
theorem seqOk_generateReport (m : Stream) (h : SeqOk m) (now : Int) : SeqOk (generateReport m now).2 :=
  ⟨h.last, h.last⟩

/-- ★ `generateReport` preserves `LsrOk`. -/
theorem lsrOk_generateReport (m : Stream) (h : LsrOk m) (now : Int) : LsrOk (generateReport m now).2 := h

/-- ★ `generateReport` preserves `TimeOk` (the invariant of `processRTP`). -/
theorem timeOk_generateReport (m : Stream) (h : TimeOk m) (now : Int) : TimeOk (generateReport m now).2 := h

/-! ## chaining over arbitrary call sequences (processRTP, processSenderReport, generateReport) -/

inductive Call where
  | rtp (now : Int) (h : S_rtp_Header)
  | sr (now : Int) (sr : S_rtcp_SenderReport)
  | gen (now : Int)

/-- the arguments are in the ranges of their Go types and every `now` is an `instant`. -/
def Call.ok : Call → Prop
  | .rtp now h => HeaderOk h ∧ instant now
  | .sr now rep => (0 ≤ rep.NTPTime ∧ rep.NTPTime < 18446744073709551616) ∧ instant now
  | .gen now => instant now

/-- one Go call: the new state and the reports produced. -/
def goStep (fuel : Nat) (g : S) : Call → Option (S × List S_rtcp_ReceiverReport)
  | .rtp now h => (report_receiverStream_processRTP fuel g now h).map fun g' => (g', [])
  | .sr now rep => some (report_receiverStream_processSenderReport g now rep, [])
  | .gen now => (report_receiverStream_generateReport fuel g now).map fun p => (p.2, [p.1])

def modelStep (m : Stream) : Call → Stream × List RR
  | .rtp now h => (processRTP m now h.SequenceNumber.toNat h.Timestamp.toNat, [])
  | .sr now rep => (processSR m now rep.NTPTime.toNat, [])
  | .gen now => ((generateReport m now).2, [(generateReport m now).1])

def goRun (fuel : Nat) : S → List Call → Option (S × List S_rtcp_ReceiverReport)
  | g, [] => some (g, [])
  | g, c :: cs => match goStep fuel g c with
    | none => none
    | some (g', out) => match goRun fuel g' cs with
      | none => none
      | some (g'', outs) => some (g'', out ++ outs)

def modelRun : Stream → List Call → Stream × List RR
  | m, [] => (m, [])
  | m, c :: cs => ((modelRun (modelStep m c).1 cs).1, (modelStep m c).2 ++ (modelRun (modelStep m c).1 cs).2)

/-- all invariants of the receiver stream. -/
structure Inv (m : Stream) : Prop where
  time : TimeOk m
  seq : SeqOk m
  lsr : LsrOk m

/-- ★ the constructor establishes all invariants. -/
theorem inv_new (ssrc rate : Nat) : Inv (ReceiverReport.new ssrc rate) :=
  ⟨FnReceiverReport.timeOk_new ssrc rate, seqOk_new ssrc rate, lsrOk_new ssrc rate⟩

/-- ★ every model step with arguments in range preserves all invariants. -/
theorem inv_step (m : Stream) (i : Inv m) (c : Call) (hc : c.ok) : Inv (modelStep m c).1 := by
  cases c with
  | rtp now h =>
    obtain ⟨hh, hn⟩ := hc
    have : h.SequenceNumber.toNat < 65536 := by have := hh.seq; omega
    exact ⟨FnReceiverReport.timeOk_processRTP m now _ _ hn, seqOk_processRTP m i.seq now _ _ this,
      lsrOk_processRTP m i.lsr now _ _⟩
  | sr now rep =>
    exact ⟨FnReceiverReport.timeOk_processSR m i.time now _, seqOk_processSR m i.seq now _,
      lsrOk_processSR m now _ hc.2⟩
  | gen now =>
    exact ⟨timeOk_generateReport m i.time now, seqOk_generateReport m i.seq now, lsrOk_generateReport m i.lsr now⟩

/-- ★ the step theorems chain: any sequence of `processRTP` / `processSenderReport` / `generateReport` calls
with arguments in range, run with fuel ≥ 65535 per call, terminates, ends in a state related to the model's
(with all invariants), and the reception reports produced along the way are the model's — in particular
from the constructor (`rel_new`, `inv_new`). -/
theorem run_src_eq_model (fuel : Nat) (hf : 65535 ≤ fuel) (cs : List Call) (hok : ∀ c ∈ cs, c.ok) :
    ∀ (g : S) (m : Stream), Rel g m → Inv m →
      ∃ g' outs, goRun fuel g cs = some (g', outs) ∧ Rel g' (modelRun m cs).1 ∧ Inv (modelRun m cs).1 ∧
        outs.map (·.Reports) = (modelRun m cs).2.map (fun rr => [goRR rr]) := by
  induction cs with
  | nil => intro g m r i; exact ⟨g, [], rfl, r, i, rfl⟩
  | cons c cs ih =>
    intro g m r i
    have hc := hok c (by simp)
    have hrest : ∀ c' ∈ cs, c'.ok := fun c' h' => hok c' (by simp [h'])
    have i1 := inv_step m i c hc
    cases c with
    | rtp now h =>
      obtain ⟨hh, hn⟩ := hc
      obtain ⟨g1, hg1, r1⟩ := FnReceiverReport.processRTP_src_eq_model g m r i.time now h hh hn fuel (by omega)
      obtain ⟨g', outs, hg', r', i', ho⟩ := ih hrest g1 _ r1 i1
      refine ⟨g', outs, ?_, r', i', ?_⟩
      · simp only [goRun, goStep, hg1, Option.map_some, hg', List.nil_append]
      · simpa [modelRun, modelStep] using ho
    | sr now rep =>
      have r1 := FnReceiverReport.processSenderReport_src_eq_model g m r now rep hc.1
      obtain ⟨g', outs, hg', r', i', ho⟩ := ih hrest _ _ r1 i1
      refine ⟨g', outs, ?_, r', i', ?_⟩
      · simp only [goRun, goStep, hg', List.nil_append]
      · simpa [modelRun, modelStep] using ho
    | gen now =>
      obtain ⟨g1, hg1, r1⟩ := generateReport_src_eq_model g m r i.seq i.lsr now hc fuel hf
      obtain ⟨g', outs, hg', r', i', ho⟩ := ih hrest g1 _ r1 i1
      refine ⟨g', ({ SSRC := g.receiverSSRC, Reports := [goRR (generateReport m now).1] } : S_rtcp_ReceiverReport) :: outs,
        ?_, r', i', ?_⟩
      · simp only [goRun, goStep, hg1, Option.map_some, hg', List.singleton_append]
      · simpa [modelRun, modelStep] using ho

/-! satisfiability of the hypotheses on concrete non-trivial states -/

example : Rel (FnReceiverReport.goNew 7 90000 12345) (ReceiverReport.new 7 90000) ∧
    Inv (ReceiverReport.new 7 90000) :=
  ⟨FnReceiverReport.rel_new 7 90000 12345, inv_new 7 90000⟩

/-- a started stream (first packet 65534, then 2: wrap-around with three skipped positions) that has seen a
sender report: all hypotheses of `generateReport_src_eq_model` hold with `last ≠ lastReport`, a stored
sender-report time, so the loss-scan loop and the DLSR branch are exercised. -/
example : ∃ g m, Rel g m ∧ SeqOk m ∧ LsrOk m ∧ m.last = 2 ∧ m.lastReport = 65533 ∧
    m.lsrTime = some 946684800500000000 ∧ instant 946684801000000000 := by
  obtain ⟨g', _, _, r', i', _⟩ := run_src_eq_model 65535 (by omega)
    [.rtp 946684800000000000 { SequenceNumber := 65534, Timestamp := 3000 },
     .rtp 946684800020000000 { SequenceNumber := 2, Timestamp := 6000 },
     .sr 946684800500000000 { NTPTime := 16755510599426244608 }]
    (by
      intro c hc
      simp only [List.mem_cons, List.not_mem_nil, or_false] at hc
      rcases hc with rfl | rfl | rfl
      · exact ⟨⟨by decide, by decide⟩, by unfold instant; omega⟩
      · exact ⟨⟨by decide, by decide⟩, by unfold instant; omega⟩
      · exact ⟨⟨by decide, by decide⟩, by unfold instant; omega⟩)
    (FnReceiverReport.goNew 7 90000 12345) (ReceiverReport.new 7 90000) (FnReceiverReport.rel_new _ _ _)
    (inv_new _ _)
  exact ⟨g', _, r', i'.seq, i'.lsr, rfl, rfl, rfl, by unfold instant; omega⟩

/-- the loss-count loop from counter 65534 to 2 on the fresh (all-missing) history: four iterations. -/
example : loop 5 (ccond 2) (cbody (FnReceiverReport.goNew 7 90000 1)) (65534, ((0 : Nat) : Int))
    = some (2, ((0 + countMissing (Array.replicate W false) (65534 : Int).toNat 4 : Nat) : Int)) :=
  loop_count (FnReceiverReport.goNew 7 90000 1) _ rfl bitsRel_new 2 4 65534 0 (by omega) (by omega) (by omega)
    (by omega) 5 (by omega)

/-- the extended highest sequence number at its maximum: `0xFFFF<<16 | 0xFFFF = 0xFFFFFFFF`. -/
example : u32 (bor (u32 (shl ((65535 : Nat) : Int) 16)) ((65535 : Nat) : Int)) = ((4294967295 : Nat) : Int) :=
  ext_eq 65535 65535 (by omega)

/-- the whole sequence constructor, two packets (wrap-around gap), a sender report, `generateReport`: the
generated code terminates and produces exactly one report, the model's. -/
example : ∃ g' rep, goRun 65535 (FnReceiverReport.goNew 7 90000 12345)
      [.rtp 946684800000000000 { SequenceNumber := 65534, Timestamp := 3000 },
       .rtp 946684800020000000 { SequenceNumber := 2, Timestamp := 6000 },
       .sr 946684800500000000 { NTPTime := 16755510599426244608 },
       .gen 946684801000000000] = some (g', [rep]) := by
  obtain ⟨g', outs, h, _, _, ho⟩ := run_src_eq_model 65535 (by omega)
    [.rtp 946684800000000000 { SequenceNumber := 65534, Timestamp := 3000 },
     .rtp 946684800020000000 { SequenceNumber := 2, Timestamp := 6000 },
     .sr 946684800500000000 { NTPTime := 16755510599426244608 },
     .gen 946684801000000000]
    (by
      intro c hc
      simp only [List.mem_cons, List.not_mem_nil, or_false] at hc
      rcases hc with rfl | rfl | rfl | rfl
      · exact ⟨⟨by decide, by decide⟩, by unfold instant; omega⟩
      · exact ⟨⟨by decide, by decide⟩, by unfold instant; omega⟩
      · exact ⟨⟨by decide, by decide⟩, by unfold instant; omega⟩
      · unfold Call.ok instant; omega)
    (FnReceiverReport.goNew 7 90000 12345) (ReceiverReport.new 7 90000) (FnReceiverReport.rel_new _ _ _)
    (inv_new _ _)
  have hl : outs.length = 1 := by
    have := congrArg List.length ho
    simpa [modelRun, modelStep] using this
  match outs, hl with
  | [rep], _ => exact ⟨g', rep, h⟩

example : Call.ok (.gen 946684801000000000) := by unfold Call.ok instant; omega

end Interceptor.Facts.FnReceiverGenerate

/- Types of the regenerated retention facts (see /verif/extract/retention.go). -/
import Interceptor.Facts.LockTypes
namespace Interceptor.Facts

/-- how a value derived from caller-owned memory leaves the call. -/
inductive SinkKind where
  /-- assignment to a struct field / map or slice element / captured variable / pointee, or
  insertion into a container (`list.PushBack`, `sync.Map.Store`, `sync.Pool.Put`) -/
  | store
  /-- channel send -/
  | send
  /-- `go` statement whose closure captures, or whose arguments contain, the value -/
  | goStmt
  deriving DecidableEq, Repr

/-- the wrapper through which the value passed before it was stored. -/
inductive Wrapper where
  /-- no wrapper: the stored value aliases caller-owned memory -/
  | none
  /-- `copy(dst, src)` into memory of the interceptor -/
  | copy
  /-- `append([]T(nil), src...)` with elements that carry no reference -/
  | appendNil
  /-- `append(dst, src...)` with elements that carry no reference -/
  | append
  /-- `append([]T(nil), src...)` with reference-carrying elements (fresh array, shared elements) -/
  | appendNilShallow
  /-- `Header.Clone()` / `Packet.Clone()` (deep in pion/rtp v1.10.5) -/
  | clone
  | bytesClone | slicesClone | mapsClone
  /-- `Marshal` / `MarshalTo`: a fresh serialisation -/
  | marshal
  /-- `PacketFactory.NewPacket`: a copy unless the responder was built with `DisableCopy` -/
  | factory
  deriving DecidableEq, Repr

/-- wrappers that always copy. -/
def Wrapper.copies : Wrapper → Bool
  | .none | .factory => false
  | _ => true

/-- origins (bit mask): 1 header, 2 byte slice (payload / read buffer), 4 attributes, 8 RTCP packet slice. -/
structure RSite where
  ctx : Name
  label : String
  kind : SinkKind
  wrapper : Wrapper
  origins : Nat
  deriving Repr

/-- a hand-written, justified exception: sites in function contexts starting with `ctx`, of the
given kind; `reason` goes into the evidence. -/
structure RException where
  ctx : Name
  kind : SinkKind
  reason : String

def RException.covers (e : RException) (s : RSite) : Bool := e.ctx.isPrefixOf s.ctx && e.kind == s.kind

def siteOk (ex : List RException) (s : RSite) : Bool := s.wrapper.copies || ex.any (·.covers s)

def badSites (ex : List RException) (ss : List RSite) : List String :=
  (ss.filter (fun s => !siteOk ex s)).map (·.label)

/-- exceptions that cover no site (stale entries of the table). -/
def staleExceptions (ex : List RException) (ss : List RSite) : List String :=
  (ex.filter fun e => !ss.any fun s => e.covers s && !s.wrapper.copies).map (·.reason)

end Interceptor.Facts

/-
`burst(rate, interval)` as written in pkg/pacing/interceptor.go (generated translation Gen/Fn_pacing.lean,
regenerated from /repo on every run) computes the model's `Pacing.burstOf` (Model/Pacing.lean) — for every
rate `0 ≤ rate < 2^53` (bit/s; `float64(rate)` is exact there) and every interval that is 0 or at least
1 ms (for `0 < interval < 1 ms` the Go code divides by `interval.Milliseconds() = 0` and panics).

The float part: `int(float64(n) / float64(k))` is the integer quotient `n / k` for ALL integers
`0 ≤ n < 2^53`, `1 ≤ k < 2^53` (`toInt64_div_exact`): the exact quotient is at least `1/k` below the next
integer and, being below `2^53/k`, is rounded by less than `1/k`.
-/
import Interceptor.Gen.Fn_pacing
import Interceptor.Model.Pacing
import Interceptor.Proofs.NtpRoundTrip
namespace Interceptor.Facts.FnPacing
open Interceptor.Gen.Fn Interceptor.GoSem Interceptor.F64

/-- every positive natural lies in a binade. -/
theorem binade (k : Nat) (hk : 1 ≤ k) : ∃ j : Nat, 2 ^ j ≤ k ∧ k < 2 ^ (j + 1) :=
  ⟨k.log2, Nat.log2_self_le (by omega), Nat.lt_log2_self⟩

theorem pow2_neg_nat (j : Nat) : pow2 (-(j : Int)) = 1 / ((2 ^ j : Nat) : ℚ) := by
  rw [pow2_eq, zpow_neg, zpow_natCast]; push_cast; rw [one_div]

/-- the rounded quotient of two integers below 2^53 stays in the unit interval of the exact one. -/
theorem rne_div_bracket (n k : Int) (hn0 : 0 ≤ n) (hn : n < 9007199254740992) (hk1 : 1 ≤ k)
    (hk : k < 9007199254740992) :
    ((n / k : Int) : ℚ) ≤ rne ((n : ℚ) / (k : ℚ)) ∧ rne ((n : ℚ) / (k : ℚ)) < ((n / k : Int) : ℚ) + 1 := by
  have hkq : (0 : ℚ) < (k : ℚ) := by exact_mod_cast (by omega : (0 : Int) < k)
  have hnq0 : (0 : ℚ) ≤ (n : ℚ) := by exact_mod_cast hn0
  have hq0 : (0 : ℚ) ≤ (n : ℚ) / (k : ℚ) := div_nonneg hnq0 hkq.le
  -- n = k * m + r
  have hdm : n = k * (n / k) + n % k := (Int.mul_ediv_add_emod n k).symm
  have hr0 : 0 ≤ n % k := Int.emod_nonneg _ (by omega)
  have hr1 : n % k ≤ k - 1 := by have := Int.emod_lt_of_pos n (by omega : 0 < k); omega
  have hm0 : 0 ≤ n / k := Int.ediv_nonneg hn0 (by omega)
  generalize n / k = m at hdm hm0 ⊢
  generalize n % k = r at hdm hr0 hr1
  have hnq : (n : ℚ) = (k : ℚ) * (m : ℚ) + (r : ℚ) := by exact_mod_cast hdm
  have hrq0 : (0 : ℚ) ≤ (r : ℚ) := by exact_mod_cast hr0
  have hrq1 : (r : ℚ) ≤ (k : ℚ) - 1 := by exact_mod_cast hr1
  have hlow : (m : ℚ) ≤ (n : ℚ) / (k : ℚ) := by
    rw [le_div_iff₀ hkq, hnq]; nlinarith
  have hup : (n : ℚ) / (k : ℚ) ≤ (m : ℚ) + 1 - 1 / (k : ℚ) := by
    rw [div_le_iff₀ hkq, hnq]
    have : ((m : ℚ) + 1 - 1 / (k : ℚ)) * (k : ℚ) = (m : ℚ) * (k : ℚ) + (k : ℚ) - 1 := by
      field_simp
    rw [this]; nlinarith
  have hlt53 : (n : ℚ) / (k : ℚ) < pow2 (0 + 53) := by
    rw [show (0 : Int) + 53 = 53 by rfl, pow2_53, div_lt_iff₀ hkq]
    have h1 : (n : ℚ) < 9007199254740992 := by exact_mod_cast hn
    have h2 : (1 : ℚ) ≤ (k : ℚ) := by exact_mod_cast hk1
    nlinarith
  constructor
  · have := Ntp.grid_le_rne ((n : ℚ) / (k : ℚ)) 0 m hq0 (by rw [pow2_zero, mul_one]; exact hlow) hlt53 (by omega)
    rwa [pow2_zero, mul_one] at this
  · obtain ⟨j, hj1, hj2⟩ := binade k.toNat (by omega)
    have hj1' : (((2 ^ j : Nat) : Int) : ℚ) ≤ (k : ℚ) := by
      have : ((2 ^ j : Nat) : Int) ≤ k := by omega
      exact_mod_cast this
    have hj2' : (k : ℚ) < (((2 ^ (j + 1) : Nat) : Int) : ℚ) := by
      have : k < ((2 ^ (j + 1) : Nat) : Int) := by omega
      exact_mod_cast this
    have hj53 : j < 53 := by
      have : 2 ^ j < 2 ^ 53 := by
        have : (2 : Nat) ^ 53 = 9007199254740992 := by norm_num
        omega
      exact (Nat.pow_lt_pow_iff_right (by norm_num)).mp this
    have hP : (0 : ℚ) < ((2 ^ j : Nat) : ℚ) := by positivity
    have hJ : pow2 (-(j : Int)) = 1 / ((2 ^ j : Nat) : ℚ) := pow2_neg_nat j
    -- the quotient is below 2^(53-j)
    have hlt : (n : ℚ) / (k : ℚ) < pow2 (-(j : Int) + 53) := by
      rw [pow2_add, pow2_53, hJ, div_lt_iff₀ hkq]
      have h1 : (n : ℚ) < 9007199254740992 := by exact_mod_cast hn
      have h2 : ((2 ^ j : Nat) : ℚ) ≤ (k : ℚ) := by exact_mod_cast hj1'
      have : 1 / ((2 ^ j : Nat) : ℚ) * 9007199254740992 * (k : ℚ)
          = 9007199254740992 * ((k : ℚ) / ((2 ^ j : Nat) : ℚ)) := by field_simp
      rw [this]
      have : (1 : ℚ) ≤ (k : ℚ) / ((2 ^ j : Nat) : ℚ) := by rw [le_div_iff₀ hP]; linarith
      nlinarith
    obtain ⟨he, _⟩ := rne_err ((n : ℚ) / (k : ℚ)) (-(j : Int)) hq0 hlt (by omega)
    -- half a unit is less than 1/k
    have hhalf : pow2 (-(j : Int)) / 2 < 1 / (k : ℚ) := by
      rw [hJ, div_div, one_div, one_div]
      apply inv_strictAnti₀ hkq
      have : ((2 ^ (j + 1) : Nat) : ℚ) = ((2 ^ j : Nat) : ℚ) * 2 := by push_cast; ring
      have h3 : (k : ℚ) < ((2 ^ (j + 1) : Nat) : ℚ) := by exact_mod_cast hj2'
      linarith
    linarith

/-- ★ `int(float64(n) / float64(k))` is the integer quotient, for all integers `0 ≤ n < 2^53`,
`1 ≤ k < 2^53`. -/
theorem toInt64_div_exact (n k : Int) (hn0 : 0 ≤ n) (hn : n < 9007199254740992) (hk1 : 1 ≤ k)
    (hk : k < 9007199254740992) :
    F64.toInt64 (F64.div (F64.ofInt n) (F64.ofInt k)) = n / k := by
  rw [ofInt_exact n hn0 hn, ofInt_exact k (by omega) hk]
  unfold F64.div
  obtain ⟨h1, h2⟩ := rne_div_bracket n k hn0 hn hk1 hk
  have hm0 : 0 ≤ n / k := Int.ediv_nonneg hn0 (by omega)
  have hm1 : n / k ≤ n := Int.ediv_le_self _ hn0
  generalize rne ((n : ℚ) / (k : ℚ)) = x at h1 h2
  have hx0 : (0 : ℚ) ≤ x := le_trans (by exact_mod_cast hm0) h1
  have hf1 : n / k ≤ x.floor := Rat.le_floor_iff.mpr h1
  have hf2 : x.floor < n / k + 1 := by
    have : (x.floor : ℚ) ≤ x := Rat.floor_le x
    have : (x.floor : ℚ) < ((n / k + 1 : Int) : ℚ) := by push_cast; linarith
    exact_mod_cast this
  unfold F64.toInt64 F64.trunc
  rw [if_neg (not_lt.mpr hx0)]
  have : ¬ (x.floor < -9223372036854775808 ∨ 9223372036854775807 < x.floor) := by omega
  simp only [this, if_false]
  omega

/-- division by the float zero in the translation (`F64.div` leaves it to the caller; Go yields ±Inf/NaN,
whose conversion to int is the most negative int64 on amd64): the conversion is below the `max` bound either
way. -/
theorem toInt64_div_zero (x : ℚ) : F64.toInt64 (F64.div x (F64.ofInt 0)) = 0 := by
  have : F64.ofInt 0 = 0 := by unfold F64.ofInt; simp [rne_zero]
  rw [this]
  unfold F64.div
  rw [div_zero, rne_zero]
  have hf : Rat.floor 0 = 0 := by decide
  unfold F64.toInt64 F64.trunc
  simp [hf]

/-- ★ `burst` as written in the source equals the model's `burstOf` (rate in bit/s below 2^53, interval in
ns, zero or at least one millisecond; the model takes the interval in µs). -/
theorem burst_src_eq_model (rate interval : Int) (hr : 0 ≤ rate ∧ rate < 9007199254740992)
    (hi : interval = 0 ∨ 1000000 ≤ interval) :
    pacing_burst rate interval = (Pacing.burstOf rate.toNat (interval / 1000).toNat : Nat) := by
  obtain ⟨hr0, hr1⟩ := hr
  -- both branches of the source compute the same expression on the effective interval
  have key : ∀ ms : Int, 1 ≤ ms →
      max 12000 (F64.toInt64 (F64.div (F64.ofInt rate) (F64.ofInt (s64 (quo (quo 1000000000 1000000) ms)))))
        = ((max 12000 (rate.toNat / (1000 / ms.toNat)) : Nat) : Int) := by
    intro ms hms
    have e1 : quo 1000000000 1000000 = 1000 := by decide
    have e2 : quo 1000 ms = 1000 / ms := quo_nonneg _ _ (by omega)
    have hk0 : 0 ≤ 1000 / ms := Int.ediv_nonneg (by omega) (by omega)
    have hk1 : 1000 / ms ≤ 1000 := Int.ediv_le_self _ (by omega)
    have e3 : s64 (1000 / ms) = 1000 / ms := by unfold s64; omega
    rw [e1, e2, e3]
    have hcast : ((1000 / ms.toNat : Nat) : Int) = 1000 / ms := by
      have : (ms.toNat : Int) = ms := by omega
      rw [Int.natCast_ediv, this]; rfl
    by_cases hz : 1000 / ms = 0
    · rw [hz, toInt64_div_zero]
      have : 1000 / ms.toNat = 0 := by omega
      rw [this]; simp
    · rw [toInt64_div_exact rate (1000 / ms) hr0 hr1 (by omega) (by omega)]
      have : ((rate.toNat / (1000 / ms.toNat) : Nat) : Int) = rate / (1000 / ms) := by
        rw [Int.natCast_ediv, hcast]
        have : (rate.toNat : Int) = rate := by omega
        rw [this]
      omega
  unfold pacing_burst Pacing.burstOf
  rcases hi with hi | hi
  · subst hi
    have := key 1 (by omega)
    have q1 : quo 1000000 1000000 = 1 := by decide
    simp only [decide_true, if_true, q1]
    rw [this]
    simp
  · have hne : interval ≠ 0 := by omega
    have hq : quo interval 1000000 = interval / 1000000 := quo_nonneg _ _ (by omega)
    have := key (interval / 1000000) (by omega)
    simp only [hne, decide_false, Bool.false_eq_true, if_false, hq]
    rw [this]
    have hne2 : (interval / 1000).toNat ≠ 0 := by omega
    have hms : (interval / 1000).toNat / 1000 = (interval / 1000000).toNat := by omega
    simp only [hne2, if_false, hms]

/-! satisfiability of the hypotheses on concrete non-trivial values -/

example : pacing_burst 10000000 5000000 = (Pacing.burstOf 10000000 5000 : Nat) :=
  burst_src_eq_model 10000000 5000000 (by omega) (by omega)
example : (Pacing.burstOf 10000000 5000 : Nat) = 50000 := by decide
example : F64.toInt64 (F64.div (F64.ofInt 9007199254740991) (F64.ofInt 1000)) = 9007199254740 :=
  toInt64_div_exact _ _ (by omega) (by omega) (by omega) (by omega)

end Interceptor.Facts.FnPacing

/-
Generated translations of pkg/gcc (gcc.go, state.go, arrival_group_accumulator.go, slope_estimator.go,
rate_controller.go; Gen/Fn_gcc.lean, regenerated from /repo on every run) against the hand-written model
Model/Gcc.lean that the C15/C01 theorems are about.

* `clampInt`, `state.transition` have direct counterparts in the model (`Gcc.clampInt`,
  `Gcc.State.transition`) and are proved equal to them for every argument.
* `clampDuration` has no counterpart of its own: it is stated against `Gcc.clampInt` (a `time.Duration`
  is an int64 and `int` is 64 bit).
* `interArrivalTimePkt`, `interGroupDelayVariationPkt`, `interGroupDelayVariation` belong to the stages the
  model treats as oracles ("arrival-group / Kalman / threshold / overuse stages collapse into some usage"):
  there is no model function.  They are stated against the closest model expression, the difference of
  instants `GoTime.sub t (some u) = t − u` of Model/GoTime.lean, under the exact condition the Go code
  needs (no `Sub` saturates, the int64 subtraction does not overflow).
* `rateController.onReceivedRate`, `rateController.updateRTT` assign fields (`latestReceivedRate`,
  `latestRTT`) the model does not have: they are stated as stutter steps of the model (the abstraction of the
  rate controller, `target`/`init`, is unchanged, as is every other field).
-/
import Interceptor.Gen.Fn_gcc
import Interceptor.Model.Gcc
import Interceptor.Model.GoTime
namespace Interceptor.Facts.FnGcc
open Interceptor.Gen.Fn Interceptor.GoSem Interceptor.Gcc

/-! ## clampInt / clampDuration -/

/-- ★ `clampInt` as written in the source equals the model's, for all integers. -/
theorem clampInt_src_eq_model (b lo hi : Int) : gcc_clampInt b lo hi = Gcc.clampInt b lo hi := rfl

/-- ★ `clampDuration` as written in the source is the model's `clampInt` on the nanosecond counts
(no model function of its own; the conversions `int(d)`/`time.Duration(…)` are between 64-bit types). -/
theorem clampDuration_src_eq_model (d lo hi : Int) : gcc_clampDuration d lo hi = Gcc.clampInt d lo hi := rfl

/-- the result of `clampInt` stays in the int64 range when the arguments are (no wrap is needed, and the
translator emits none). -/
theorem clampInt_range (b lo hi : Int) (B : Int) (hb : -B ≤ b ∧ b ≤ B) (hl : -B ≤ lo ∧ lo ≤ B)
    (hh : -B ≤ hi ∧ hi ≤ B) : -B ≤ gcc_clampInt b lo hi ∧ gcc_clampInt b lo hi ≤ B := by
  unfold gcc_clampInt; omega

/-! ## state.transition -/

/-- Go's `state` constants (state.go: `stateIncrease = iota`, `stateDecrease`, `stateHold`). -/
def stateCode : State → Int
  | .increase => 0
  | .decrease => 1
  | .hold => 2

/-- Go's `usage` constants (usage.go: `usageOver = iota`, `usageUnder`, `usageNormal`). -/
def usageCode : Usage → Int
  | .over => 0
  | .under => 1
  | .normal => 2

theorem stateCode_inj (a b : State) : stateCode a = stateCode b ↔ a = b := by
  cases a <;> cases b <;> simp [stateCode]

theorem usageCode_inj (a b : Usage) : usageCode a = usageCode b ↔ a = b := by
  cases a <;> cases b <;> simp [usageCode]

/-- ★ `state.transition` as written in the source equals the model's, for every state and usage. -/
theorem transition_src_eq_model (s : State) (u : Usage) :
    gcc_state_transition (stateCode s) (usageCode u) = stateCode (s.transition u) := by
  cases s <;> cases u <;> rfl

/-- ★ outside the declared constants (`state`/`usage` are plain `int`s) the source falls out of both
switches and returns `stateIncrease`; with the theorem above this determines the function on every pair
of int arguments. -/
theorem transition_default (s u : Int) (h : ¬ (0 ≤ s ∧ s ≤ 2) ∨ ¬ (0 ≤ u ∧ u ≤ 2)) :
    gcc_state_transition s u = stateCode .increase := by
  unfold gcc_state_transition stateCode
  rcases h with h | h
  · have h0 : s ≠ 0 := by omega
    have h1 : s ≠ 1 := by omega
    have h2 : s ≠ 2 := by omega
    simp [h0, h1, h2]
  · have h0 : u ≠ 0 := by omega
    have h1 : u ≠ 1 := by omega
    have h2 : u ≠ 2 := by omega
    simp only [h0, h1, h2, decide_false, Bool.false_eq_true, if_false]
    split
    · rfl
    · split
      · rfl
      · split <;> rfl

/-- every int in 0..2 is the code of a state (resp. usage): the two theorems above are exhaustive. -/
theorem code_surj (s : Int) (h : 0 ≤ s ∧ s ≤ 2) : (∃ st : State, stateCode st = s) ∧ (∃ us : Usage, usageCode us = s) := by
  have : s = 0 ∨ s = 1 ∨ s = 2 := by omega
  rcases this with rfl | rfl | rfl
  · exact ⟨⟨.increase, rfl⟩, ⟨.over, rfl⟩⟩
  · exact ⟨⟨.decrease, rfl⟩, ⟨.under, rfl⟩⟩
  · exact ⟨⟨.hold, rfl⟩, ⟨.normal, rfl⟩⟩

/-! ## differences of instants -/

/-- `t.Sub(u)` does not saturate: the true difference fits an int64. -/
def fits (d : Int) : Prop := -9223372036854775808 ≤ d ∧ d ≤ 9223372036854775807

theorem timeSub_exact (a b : Int) (h : fits (a - b)) : timeSub a b = GoTime.sub a (some b) := by
  unfold fits at h
  unfold timeSub GoTime.sub
  simp only
  split
  · omega
  · split
    · omega
    · rfl

theorem s64_id (x : Int) (h : fits x) : s64 x = x := by
  unfold fits at h; unfold s64; omega

/-- ★ `interArrivalTimePkt` as written in the source is the difference of the two arrival instants
(closest model expression: `GoTime.sub`; the model has no arrival-group stage), whenever that difference
fits an int64 — the only thing the Go code needs. -/
theorem interArrivalTimePkt_src_eq_model (g : S_gcc_arrivalGroup) (ack : S_cc_Acknowledgment)
    (h : fits (ack.Arrival - g.arrival)) :
    gcc_interArrivalTimePkt g ack = GoTime.sub ack.Arrival (some g.arrival) := by
  unfold gcc_interArrivalTimePkt; exact timeSub_exact _ _ h

/-- ★ `interGroupDelayVariationPkt` as written in the source is (arrival difference) − (departure
difference), whenever the two differences and their difference fit an int64. -/
theorem interGroupDelayVariationPkt_src_eq_model (g : S_gcc_arrivalGroup) (ack : S_cc_Acknowledgment)
    (ha : fits (ack.Arrival - g.arrival)) (hd : fits (ack.Departure - g.departure))
    (hv : fits ((ack.Arrival - g.arrival) - (ack.Departure - g.departure))) :
    gcc_interGroupDelayVariationPkt g ack
      = GoTime.sub ack.Arrival (some g.arrival) - GoTime.sub ack.Departure (some g.departure) := by
  unfold gcc_interGroupDelayVariationPkt
  rw [timeSub_exact _ _ ha, timeSub_exact _ _ hd]
  exact s64_id _ hv

/-- ★ `interGroupDelayVariation` as written in the source is (arrival difference) − (departure difference)
of the two groups, whenever the two differences and their difference fit an int64. -/
theorem interGroupDelayVariation_src_eq_model (a b : S_gcc_arrivalGroup)
    (ha : fits (b.arrival - a.arrival)) (hd : fits (b.departure - a.departure))
    (hv : fits ((b.arrival - a.arrival) - (b.departure - a.departure))) :
    gcc_interGroupDelayVariation a b
      = GoTime.sub b.arrival (some a.arrival) - GoTime.sub b.departure (some a.departure) := by
  unfold gcc_interGroupDelayVariation
  rw [timeSub_exact _ _ ha, timeSub_exact _ _ hd]
  exact s64_id _ hv

/-- a clock reading between the Unix epoch and 2^62 ns (year 2116). -/
def instant (t : Int) : Prop := 0 ≤ t ∧ t < 4611686018427387904

/-- ★ the three `fits` hypotheses hold for all instants below 2^62 ns: on clock readings
`interGroupDelayVariation` is exactly `(b.arrival − a.arrival) − (b.departure − a.departure)`. -/
theorem interGroupDelayVariation_instants (a b : S_gcc_arrivalGroup)
    (h1 : instant a.arrival) (h2 : instant b.arrival) (h3 : instant a.departure) (h4 : instant b.departure) :
    gcc_interGroupDelayVariation a b = (b.arrival - a.arrival) - (b.departure - a.departure) := by
  unfold instant at h1 h2 h3 h4
  rw [interGroupDelayVariation_src_eq_model a b (by unfold fits; omega) (by unfold fits; omega)
    (by unfold fits; omega)]
  rfl

/-- ★ the same for the per-packet variant. -/
theorem interGroupDelayVariationPkt_instants (g : S_gcc_arrivalGroup) (ack : S_cc_Acknowledgment)
    (h1 : instant g.arrival) (h2 : instant ack.Arrival) (h3 : instant g.departure) (h4 : instant ack.Departure) :
    gcc_interGroupDelayVariationPkt g ack = (ack.Arrival - g.arrival) - (ack.Departure - g.departure) := by
  unfold instant at h1 h2 h3 h4
  rw [interGroupDelayVariationPkt_src_eq_model g ack (by unfold fits; omega) (by unfold fits; omega)
    (by unfold fits; omega)]
  rfl

/-! ## rateController.onReceivedRate / updateRTT -/

/-- the Go rate controller represents the rate-controller part of the model state (`rcTarget`, `rcInit`). -/
def rcRel (c : S_gcc_rateController) (st : St) : Prop := c.target = st.rcTarget ∧ c.init = st.rcInit

/-- ★ `onReceivedRate` as written in the source is a stutter step of the model: it assigns
`latestReceivedRate` (not a model field: it only feeds the float oracle `raw` of the next `delayStats`
event) and changes nothing else — in particular the represented model state is the same. -/
theorem onReceivedRate_src_eq_model (c : S_gcc_rateController) (rate : Int) :
    gcc_rateController_onReceivedRate c rate = { c with latestReceivedRate := rate } ∧
    ∀ st, rcRel c st → rcRel (gcc_rateController_onReceivedRate c rate) st :=
  ⟨rfl, fun _ h => h⟩

/-- ★ `updateRTT` as written in the source is a stutter step of the model: it assigns `latestRTT` and
changes nothing else. -/
theorem updateRTT_src_eq_model (c : S_gcc_rateController) (rtt : Int) :
    gcc_rateController_updateRTT c rtt = { c with latestRTT := rtt } ∧
    ∀ st, rcRel c st → rcRel (gcc_rateController_updateRTT c rtt) st :=
  ⟨rfl, fun _ h => h⟩

/-- ★ `rcRel` is established by the constructor: `newRateController` sets `target = initialTargetBitrate`
and leaves `init` false, `St.init` does the same. -/
theorem rcRel_init (cfg : Cfg) :
    rcRel { initialTargetBitrate := cfg.init, minBitrate := cfg.min, maxBitrate := cfg.max, target := cfg.init }
      (St.init cfg) := ⟨rfl, rfl⟩

/-! satisfiability of the hypotheses on concrete non-trivial values -/

example : gcc_clampInt 5000000 100000 2000000 = Gcc.clampInt 5000000 100000 2000000 := clampInt_src_eq_model _ _ _
example : gcc_state_transition 1 2 = stateCode .hold := transition_src_eq_model .decrease .normal
example : gcc_state_transition 7 0 = 0 := transition_default 7 0 (by omega)
example : fits ((946684800123456789 : Int) - 946684800000000000) := by unfold fits; omega
example : gcc_interArrivalTimePkt { arrival := 946684800000000000 } { Arrival := 946684800005000000 } = 5000000 :=
  interArrivalTimePkt_src_eq_model _ _ (by unfold fits; decide)
example : instant 946684800000000000 := by unfold instant; omega
example :
    gcc_interGroupDelayVariation { arrival := 946684800000000000, departure := 946684799990000000 }
      { arrival := 946684800007000000, departure := 946684799995000000 } = 2000000 :=
  interGroupDelayVariation_instants _ _ (by unfold instant; decide) (by unfold instant; decide)
    (by unfold instant; decide) (by unfold instant; decide)
example :
    gcc_interGroupDelayVariationPkt { arrival := 946684800000000000, departure := 946684799990000000 }
      { Arrival := 946684800007000000, Departure := 946684799995000000 } = 2000000 :=
  interGroupDelayVariationPkt_instants _ _ (by unfold instant; decide) (by unfold instant; decide)
    (by unfold instant; decide) (by unfold instant; decide)
example : rcRel { target := 300000, init := true, latestRTT := 5 }
    { latest := 1, rcTarget := 300000, rcInit := true, lossBitrate := 2, stats := none, closed := false,
      receivers := true, pacer := [], cbs := [] } := ⟨rfl, rfl⟩

end Interceptor.Facts.FnGcc

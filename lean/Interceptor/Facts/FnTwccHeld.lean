/-
Generated translation (Gen/Fn_twcc.lean, regenerated from /repo on every run) of `Recorder.PacketsHeld`
(pkg/twcc/twcc.go) against `Recorder.held` of Model/Twcc.lean (the counter C12's bound and the sender
interceptor's "anything to report" test read).
-/
import Interceptor.Gen.Fn_twcc
import Interceptor.Model.Twcc
namespace Interceptor.Facts.FnTwccHeld
open Interceptor.Gen.Fn Interceptor.GoSem Interceptor

/-! ## twcc: Recorder.PacketsHeld -/

/-- ★ `PacketsHeld` as written in the source returns the counter the model calls `held`. -/
theorem packetsHeld_src_eq_model (g : S_twcc_Recorder) (m : Twcc.Recorder)
    (r : g.packetsHeld = (m.held : Int)) : twcc_Recorder_PacketsHeld g = (m.held : Int) := r

end Interceptor.Facts.FnTwccHeld

/-
Generated translation (Gen/Fn_twcc.lean, regenerated from /repo on every run) of `Recorder.PacketsHeld`
(pkg/twcc/twcc.go) against `Recorder.held` of Model/Twcc.lean (the counter C12's bound and the sender
interceptor's "anything to report" test read).
-/
import Interceptor.Gen.Fn_twcc
import Interceptor.Model.Twcc
import Interceptor.Facts.FnTwccMap
namespace Interceptor.Facts.FnTwccHeld
open Interceptor.Gen.Fn Interceptor.GoSem Interceptor

/-! ## twcc: Recorder.PacketsHeld -/

/-- ★ `PacketsHeld` as written in the source returns the counter the model calls `held`. -/
theorem packetsHeld_src_eq_model (g : S_twcc_Recorder) (m : Twcc.Recorder)
    (r : g.packetsHeld = (m.held : Int)) : twcc_Recorder_PacketsHeld g = (m.held : Int) := r

/-! ## twcc: NewRecorder -/

/-- ★ `NewRecorder` as written in the source is the model's `newRecorder`: the arrival-time map is the empty
map (related to the model's by `FnTwccMap.Rel`), the sender SSRC is stored, nothing is held and the feedback
packet count starts at 0. -/
theorem newRecorder_src_eq_model (sender : Nat) :
    let g := twcc_NewRecorder (sender : Int)
    let m := Twcc.newRecorder sender
    FnTwccMap.Rel g.arrivalTimeMap m.map ∧ g.senderSSRC = (m.sender : Int) ∧ g.mediaSSRC = (m.media : Int) ∧
      g.fbPktCnt = (m.fbCnt : Int) ∧ g.packetsHeld = (m.held : Int) ∧
      twcc_Recorder_PacketsHeld g = 0 := by
  refine ⟨⟨rfl, rfl, rfl⟩, rfl, rfl, rfl, rfl, rfl⟩

end Interceptor.Facts.FnTwccHeld

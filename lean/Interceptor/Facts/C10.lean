/-
C10 — the lock discipline holds on the facts regenerated from /repo (closed by `decide`),
with the hand-written exception table for fields that are protected by something other than
a lock, an atomic, or immutability.
-/
import Interceptor.Facts.LockDiscipline
import Interceptor.Gen.LockFacts
namespace Interceptor.Facts.C10
open Interceptor.Facts Interceptor.Gen.LockFacts

/-- Fields whose protection is not a lock / atomic / immutability.  `confined` entries are
checked (every live access site lies in a function that runs on the owning goroutine);
`trusted` entries are not checked and are listed in the evidence. -/
def exceptions : List (Name × Exception) := [
  -- twcc: the Recorder and everything below it is owned by SenderInterceptor.loop (packets are handed over by channel)
  (nm! "twcc.Recorder.", .confined [nm! "twcc.Recorder.", nm! "twcc.SenderInterceptor.loop"]),
  (nm! "twcc.feedback.", .confined [nm! "twcc.feedback.", nm! "twcc.Recorder.", nm! "twcc.chunk."]),
  (nm! "twcc.chunk.", .confined [nm! "twcc.chunk.", nm! "twcc.feedback."]),
  (nm! "twcc.packetArrivalTimeMap.", .confined [nm! "twcc.packetArrivalTimeMap.", nm! "twcc.Recorder."]),
  (nm! "twcc.SenderInterceptor.recorder", .trusted "written in BindRTCPWriter before `go loop` (happens-before by the go statement); BindRTCPWriter is called once per PeerConnection"),
  -- rfc8888: Recorder/streamLog are owned by the interceptor loop goroutine
  (nm! "rfc8888.Recorder.", .confined [nm! "rfc8888.Recorder.", nm! "rfc8888.Interceptor.loop", nm! "rfc8888.SenderInterceptor.loop"]),
  (nm! "rfc8888.streamLog.", .confined [nm! "rfc8888.streamLog.", nm! "rfc8888.Recorder."]),
  -- gcc delay pipeline: one goroutine per stage, hand-over by channel
  (nm! "gcc.kalman.", .confined [nm! "gcc.kalman."]),
  (nm! "gcc.overuseDetector.", .confined [nm! "gcc.overuseDetector."]),
  (nm! "gcc.slopeEstimator.", .confined [nm! "gcc.slopeEstimator."]),
  (nm! "gcc.adaptiveThreshold.", .confined [nm! "gcc.adaptiveThreshold."]),
  (nm! "gcc.arrivalGroup.", .confined [nm! "gcc.arrivalGroup.", nm! "gcc.arrivalGroupAccumulator.", nm! "gcc.slopeEstimator.", nm! "gcc.inter"]),
  (nm! "gcc.rateController.delayStats", .confined [nm! "gcc.rateController.onDelayStats"]),
  (nm! "gcc.rateController.init", .confined [nm! "gcc.rateController.onDelayStats"]),
  (nm! "gcc.DelayStats.", .trusted "plain value record copied between pipeline stages"),
  (nm! "gcc.SendSideBWE.onTargetBitrateChange", .trusted "set-up time callback setter (by convention registered before feedback flows; registering it later races with onDelayUpdate: observed, DESIGN §8)"),
  (nm! "gcc.delayController.onUpdateCallback", .trusted "set in the constructor of SendSideBWE before the pipeline goroutines see traffic"),
  (nm! "cc.Acknowledgment.", .trusted "plain value record; instances are copied out of the history under the adapter lock"),
  (nm! "cc.InterceptorFactory.addPeerConnection", .trusted "set-up time callback setter"),
  (nm! "stats.InterceptorFactory.addPeerConnection", .trusted "set-up time callback setter"),
  (nm! "interceptor.Registry.factories", .trusted "Registry is a set-up time builder, not shared during traffic"),
  -- stats: the *Stats structs are value records inside the recorder's state (guarded by recorder.ms) or copies
  (nm! "stats.InboundRTPStreamStats.", .trusted "value record inside recorder state / copies returned to callers"),
  (nm! "stats.OutboundRTPStreamStats.", .trusted "value record inside recorder state / copies returned to callers"),
  (nm! "stats.ReceivedRTPStreamStats.", .trusted "value record inside recorder state / copies returned to callers"),
  (nm! "stats.SentRTPStreamStats.", .trusted "value record inside recorder state / copies returned to callers"),
  (nm! "stats.RemoteInboundRTPStreamStats.", .trusted "value record inside recorder state / copies returned to callers"),
  (nm! "stats.RemoteOutboundRTPStreamStats.", .trusted "value record inside recorder state / copies returned to callers"),
  -- utility types that are documented not to be safe for concurrent use / are owned by their container
  (nm! "sequencenumber.Unwrapper.", .trusted "owned by its container (twcc.Recorder, rfc8888.streamLog, stats.recorder): protected by the container's protection"),
  (nm! "jitterbuffer.PriorityQueue.", .trusted "public non-thread-safe container; inside JitterBuffer it is only reached under JitterBuffer.mutex (the sites with that lock); direct use is the caller's responsibility"),
  (nm! "jitterbuffer.node.", .trusted "nodes of PriorityQueue, same protection"),
  (nm! "jitterbuffer.JitterBuffer.listeners", .trusted "Listen is a set-up time registration; emit reads under JitterBuffer.mutex"),
  (nm! "jitterbuffer.JitterBuffer.state", .trusted "the interceptor's private JitterBuffer: every access from ReceiverInterceptor holds ReceiverInterceptor.m, JitterBuffer's own methods hold JitterBuffer.mutex; the two lock sets never meet on different instances"),
  (nm! "flexfec.fecDecoder.", .trusted "work-in-progress decoder, not wired into any interceptor"),
  (nm! "flexfec.protectedPacket.", .trusted "work-in-progress decoder, not wired into any interceptor"),
  (nm! "rtpbuffer.RetainablePacket.header", .trusted "reference-counted: written by Release only when the count reaches zero (C04 refcount theorem)"),
  (nm! "rtpbuffer.RetainablePacket.payload", .trusted "reference-counted: written by Release only when the count reaches zero (C04 refcount theorem)")
]

/-- ★ every struct field of every interceptor is accessed under one protection (regenerated facts). -/
theorem facts_ok : (fields.all (fieldOk ctxNames exceptions)) = true := by decide +kernel

/-- ★ the lock-order graph extracted from the source is acyclic. -/
theorem lock_order_acyclic : acyclic lockOrder = true := by decide

/-- blocking operations performed while a lock is held, and why each cannot deadlock.  Both happen
under the `closeLock` of SendSideBWE, which the goroutines that are waited for never take. -/
def allowedBlocking : List (Name × Name × String) := [
  (nm! "gcc.delayController.updateDelayEstimate", nm! "gcc.SendSideBWE.closeLock", "chan send"),
  (nm! "gcc.delayController.Close", nm! "gcc.SendSideBWE.closeLock", "wg.Wait")
]

/-- ★ no other blocking operation (channel send/receive outside a select with an escape, select
without default, WaitGroup.Wait) happens while a lock is held (regenerated facts). -/
theorem blocking_under_lock_known :
    blockingUnderLock.all (fun b => allowedBlocking.any (fun a => a.1 == b.1 && a.2.1 == b.2.1 && a.2.2 == b.2.2)) = true := by
  decide +kernel

/-- callbacks (func-typed struct fields) that are invoked while a lock is held.  A callback supplied
by the application must never run under an interceptor lock (it may call back into the
interceptor: self-deadlock); the ones listed are clocks, factories and the pool-return hook. -/
def allowedCallbacks : List (Name × String) := [
  (nm! "rtpbuffer.RetainablePacket.onRelease", "internal pool-return hook set by the packet factory; takes no interceptor lock"),
  (nm! "gcc.rateController.now", "clock"),
  (nm! "stats.Interceptor.now", "clock (SetNowFunc)"),
  (nm! "pacing.Interceptor.pacerFactory", "factory invoked at construction time under the factory's own lock"),
  (nm! "stats.Interceptor.RecorderFactory", "recorder factory invoked at bind time; the recorder is created, not called back into")
]

/-- ★ no other callback runs while a lock is held (regenerated facts). -/
theorem no_user_callback_under_lock :
    callbackUnderLock.all (fun c => allowedCallbacks.any (fun a => a.1 == c.2.1)) = true := by decide +kernel

end Interceptor.Facts.C10

/-
Generated translations (Gen/Fn_flexfec_util.lean, regenerated from /repo on every run) of
`MediaPacketIterator.Reset` / `HasNext` (pkg/flexfec/util/media_packet_iterator.go): `Reset` rewinds to index 0
and keeps packets and coverage; `HasNext` is `nextIndex < len(coveredIndices)`, hence true after `Reset` exactly
when the coverage is non-empty — the condition under which `EncodeFec` emits a repair packet for that row (C14).
-/
import Interceptor.Gen.Fn_flexfec_util
namespace Interceptor.Facts.FnFecIter
open Interceptor.Gen.Fn Interceptor.GoSem Interceptor

/-! ## flexfec/util: MediaPacketIterator -/

/-- ★ `Reset` rewinds and keeps everything else; the value it returns is the rewound iterator. -/
theorem reset_src (m : S_flexfec_util_MediaPacketIterator) :
    flexfec_util_MediaPacketIterator_Reset m = ({ m with nextIndex := 0 }, { m with nextIndex := 0 }) := rfl

/-- ★ `HasNext` is false exactly from the end of the coverage on. -/
theorem hasNext_iff (m : S_flexfec_util_MediaPacketIterator) :
    flexfec_util_MediaPacketIterator_HasNext m = true ↔ m.nextIndex < (m.coveredIndices.length : Int) := by
  simp only [flexfec_util_MediaPacketIterator_HasNext, len]
  exact decide_eq_true_iff

/-- ★ `HasNext` after `Reset` holds exactly when the row covers at least one packet. -/
theorem hasNext_after_reset (m : S_flexfec_util_MediaPacketIterator) :
    flexfec_util_MediaPacketIterator_HasNext (flexfec_util_MediaPacketIterator_Reset m).2 = true ↔
      m.coveredIndices ≠ [] := by
  rw [hasNext_iff]
  show (0 : Int) < ((m.coveredIndices.length : Nat) : Int) ↔ _
  cases m.coveredIndices with
  | nil => simp
  | cons a t => simp

/-! ## NewMediaPacketIterator -/

/-- ★ the constructor as written in the source yields an iterator that is already rewound: `Reset` is the
identity on it. -/
theorem new_reset (ps : List S_rtp_Packet) (cov : List Int) :
    (flexfec_util_MediaPacketIterator_Reset (flexfec_util_NewMediaPacketIterator ps cov)).2 =
      flexfec_util_NewMediaPacketIterator ps cov := rfl

/-- ★ a fresh iterator has a next packet exactly when the row covers at least one. -/
theorem new_hasNext (ps : List S_rtp_Packet) (cov : List Int) :
    flexfec_util_MediaPacketIterator_HasNext (flexfec_util_NewMediaPacketIterator ps cov) = true ↔ cov ≠ [] := by
  rw [← new_reset, hasNext_after_reset]; rfl

end Interceptor.Facts.FnFecIter

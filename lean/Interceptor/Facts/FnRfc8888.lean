/-
The generated translation of rfc8888.getArrivalTimeOffset (regenerated from /repo on every run) computes
exactly the hand-written model Model/Rfc8888.lean `getATO` that the C08 theorems are about.
-/
import Interceptor.Gen.Fn_rfc8888
import Interceptor.Model.Rfc8888
namespace Interceptor.Facts.FnRfc8888
open Interceptor.Gen.Fn Interceptor.GoSem

theorem toUint16_cast (q : Rat) : ((F64.toUint16 q : Nat) : Int) = u16 (F64.toInt64 q) := by
  unfold F64.toUint16 u16; omega

theorem timeSub_eq (a b : Int) : timeSub a b = Rfc8888.subSat a b := rfl
theorem durSeconds_eq (d : Int) : durSeconds d = Rfc8888.seconds d := rfl

/-- ★ `getArrivalTimeOffset` as written in the source equals the model. -/
theorem getATO_src_eq_model (base arrival : Int) :
    rfc8888_getArrivalTimeOffset base arrival = (Rfc8888.getATO base arrival : Int) := by
  unfold rfc8888_getArrivalTimeOffset Rfc8888.getATO Rfc8888.atoFloat
  rw [timeSub_eq, durSeconds_eq]
  by_cases h : base < arrival
  · simp [h]
  · simp only [h, decide_false, Bool.false_eq_true, if_false]
    by_cases h2 : F64.mul (Rfc8888.seconds (Rfc8888.subSat base arrival)) 1024 ≥ 8190
    · simp [h2]
    · simp [h2, toUint16_cast]

end Interceptor.Facts.FnRfc8888

/-
More generated translations of pkg/gcc (arrival_group.go, arrival_group_accumulator.go; Gen/Fn_gcc.lean,
regenerated from /repo on every run): `newArrivalGroup`, `arrivalGroup.add`, `interDepartureTimePkt`.

The arrival-group stage is one of the stages Model/Gcc.lean treats as an oracle ("arrival-group / Kalman /
threshold / overuse stages collapse into some usage"): there is no model function.  The functions are
stated against the closest expressions:
* the group that `newArrivalGroup(a); add(b₁); …; add(bₙ)` builds is `groupOf a [b₁,…,bₙ]`: the packets in
  order, the departure time of the FIRST packet, the arrival time of the LAST one (`built_src_eq_model`);
* `interDepartureTimePkt` is the difference of instants `GoTime.sub ack.Departure (some group.departure)`
  of Model/GoTime.lean (as the three sibling functions in Facts/FnGcc.lean), under the exact condition the Go
  code needs (`Sub` does not saturate) and the invariant `NonEmpty` (the group has a packet — established
  by `newArrivalGroup`, preserved by `add`); on the zero value `arrivalGroup{}` it is 0.
-/
import Interceptor.Facts.FnGcc
namespace Interceptor.Facts.FnGcc2
open Interceptor.Gen.Fn Interceptor.GoSem Interceptor.Gcc
open Interceptor.Facts.FnGcc (fits timeSub_exact)

abbrev Ack := S_cc_Acknowledgment

/-- last element of a non-empty sequence given as head and tail. -/
def lastOf (a : Ack) : List Ack → Ack
  | [] => a
  | b :: bs => lastOf b bs

theorem lastOf_append (a : Ack) (bs : List Ack) (b : Ack) : lastOf a (bs ++ [b]) = b := by
  induction bs generalizing a with
  | nil => rfl
  | cons c cs ih => exact ih c

/-- the arrival group made of the packets `a :: bs` (in order of acknowledgment): the departure time is the
first packet's, the arrival time the last packet's. -/
def groupOf (a : Ack) (bs : List Ack) : S_gcc_arrivalGroup :=
  { packets := a :: bs, departure := a.Departure, arrival := (lastOf a bs).Arrival }

/-- ★ `newArrivalGroup` as written in the source builds the one-packet group, for every acknowledgment. -/
theorem newArrivalGroup_src_eq_model (a : Ack) : gcc_newArrivalGroup a = groupOf a [] := rfl

/-- ★ `arrivalGroup.add` as written in the source appends the packet and takes over its arrival time; the
departure time (and nothing else) is kept — for every group and acknowledgment. -/
theorem add_src_eq_model (g : S_gcc_arrivalGroup) (a : Ack) :
    gcc_arrivalGroup_add g a = { packets := g.packets ++ [a], departure := g.departure, arrival := a.Arrival } := rfl

/-- ★ `add` on the group of `a :: bs` gives the group of `a :: bs ++ [b]`. -/
theorem add_groupOf (a : Ack) (bs : List Ack) (b : Ack) :
    gcc_arrivalGroup_add (groupOf a bs) b = groupOf a (bs ++ [b]) := by
  unfold gcc_arrivalGroup_add groupOf
  simp only [lastOf_append, List.cons_append]

/-- ★ chaining: `newArrivalGroup(a)` followed by `add(b)` for each `b` of `bs` is `groupOf a bs`. -/
theorem built_src_eq_model (a : Ack) (bs : List Ack) :
    bs.foldl gcc_arrivalGroup_add (gcc_newArrivalGroup a) = groupOf a bs := by
  suffices h : ∀ (cs ds : List Ack), ds.foldl gcc_arrivalGroup_add (groupOf a cs) = groupOf a (cs ++ ds) by
    have := h [] bs
    rw [List.nil_append] at this
    exact this
  intro cs ds
  induction ds generalizing cs with
  | nil => simp
  | cons d ds ih =>
    rw [List.foldl_cons, add_groupOf, ih]
    simp

/-- invariant: the group holds at least one packet. -/
def NonEmpty (g : S_gcc_arrivalGroup) : Prop := g.packets ≠ []

/-- ★ `newArrivalGroup` establishes the invariant. -/
theorem nonEmpty_new (a : Ack) : NonEmpty (gcc_newArrivalGroup a) := by
  unfold NonEmpty gcc_newArrivalGroup; simp

/-- ★ `add` preserves (indeed establishes) the invariant. -/
theorem nonEmpty_add (g : S_gcc_arrivalGroup) (a : Ack) : NonEmpty (gcc_arrivalGroup_add g a) := by
  unfold NonEmpty gcc_arrivalGroup_add; simp

theorem lenG_eq_zero {α : Type} (l : List α) : (lenG l = 0) ↔ l = [] := by
  unfold lenG
  cases l with
  | nil => simp
  | cons a as => simp; omega

/-- ★ `interDepartureTimePkt` as written in the source, on a group that holds a packet, is the difference of
the two departure instants (closest model expression: `GoTime.sub`), whenever that difference fits an
int64 — the only thing the Go code needs. -/
theorem interDepartureTimePkt_src_eq_model (g : S_gcc_arrivalGroup) (ack : Ack) (hne : NonEmpty g)
    (h : fits (ack.Departure - g.departure)) :
    gcc_interDepartureTimePkt g ack = GoTime.sub ack.Departure (some g.departure) := by
  unfold gcc_interDepartureTimePkt
  have : ¬ (lenG g.packets = 0) := fun e => hne ((lenG_eq_zero _).mp e)
  simp only [this, decide_false, Bool.false_eq_true, if_false]
  exact timeSub_exact _ _ h

/-- ★ on a group without packets (the zero value `arrivalGroup{}`) `interDepartureTimePkt` is 0, whatever
the times. -/
theorem interDepartureTimePkt_empty (g : S_gcc_arrivalGroup) (ack : Ack) (he : g.packets = []) :
    gcc_interDepartureTimePkt g ack = 0 := by
  unfold gcc_interDepartureTimePkt
  have : lenG g.packets = 0 := (lenG_eq_zero _).mpr he
  simp only [this, decide_true, if_true]

/-- ★ on clock readings (`FnGcc.instant`: between the Unix epoch and 2^62 ns) the `fits` hypothesis holds:
for a group built by `newArrivalGroup`/`add` the result is exactly `ack.Departure − first.Departure`. -/
theorem interDepartureTimePkt_instants (a : Ack) (bs : List Ack) (ack : Ack)
    (h1 : FnGcc.instant a.Departure) (h2 : FnGcc.instant ack.Departure) :
    gcc_interDepartureTimePkt (bs.foldl gcc_arrivalGroup_add (gcc_newArrivalGroup a)) ack
      = ack.Departure - a.Departure := by
  rw [built_src_eq_model]
  unfold FnGcc.instant at h1 h2
  rw [interDepartureTimePkt_src_eq_model (groupOf a bs) ack (by unfold NonEmpty groupOf; simp)
    (by unfold fits groupOf; dsimp only; omega)]
  rfl

/-! satisfiability of the hypotheses on concrete non-trivial values -/

example : gcc_arrivalGroup_add (gcc_newArrivalGroup { SequenceNumber := 1, Departure := 10, Arrival := 20 })
      { SequenceNumber := 2, Departure := 12, Arrival := 25 }
    = groupOf { SequenceNumber := 1, Departure := 10, Arrival := 20 } [{ SequenceNumber := 2, Departure := 12, Arrival := 25 }] :=
  built_src_eq_model _ [_]

example : NonEmpty (gcc_newArrivalGroup { SequenceNumber := 1 }) := nonEmpty_new _

example : gcc_interDepartureTimePkt
      (gcc_newArrivalGroup { Departure := 946684800000000000, Arrival := 946684800020000000 })
      { Departure := 946684800003000000, Arrival := 946684800024000000 } = 3000000 := by
  have := interDepartureTimePkt_instants { Departure := 946684800000000000, Arrival := 946684800020000000 } []
    { Departure := 946684800003000000, Arrival := 946684800024000000 }
    (by unfold FnGcc.instant; decide) (by unfold FnGcc.instant; decide)
  simpa using this

example : gcc_interDepartureTimePkt {} { Departure := 946684800003000000 } = 0 :=
  interDepartureTimePkt_empty _ _ rfl

end Interceptor.Facts.FnGcc2

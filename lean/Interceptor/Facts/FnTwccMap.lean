/-
The generated translations of pkg/twcc/arrival_time_map.go (Gen/Fn_twcc.lean, regenerated from /repo on
every run) — capacity, index, get, HasReceived, setNotReceived, reallocate, adjustToSize, AddPacket,
RemoveOldPackets, FindNextAtOrAfter, EraseTo (Clamp is in Facts/FnTwcc.lean) — compute exactly what the
hand-written model `Interceptor.Twcc.ArrivalMap` (Model/Twcc.lean) computes.

* abstraction `Rel g m`: `arrivalTimes = buf.toList`, begin/end equal (`conc m` is the Go struct of `m`).
* bit level: `band_mask` — `sn & (2^k−1)` is the Euclidean remainder for every (also negative) `sn`.
* invariant `Inv g`: −2^62 < begin ≤ end ≤ 2^62, end − begin ≤ capacity, capacity = 0 or a power of two in
  [128, 32768]; established by the zero value (`inv_init`), the power-of-two capacity by the first
  `AddPacket`; preserved by every mutator (`*_preserves_inv`, and the `Inv g'` conjunct of
  AddPacket / RemoveOldPackets / EraseTo).
* loops: every theorem about a function with loops gives a fuel bound `n` and holds for all `fuel ≥ n`
  (the `_eq` lemmas give the concrete bound; 32770 for the public mutators).
* arrival times are never computed with, so they are unconstrained; sequence numbers |sn| < 2^62.
Core Lean only (no Mathlib).
-/
import Interceptor.Gen.Fn_twcc
import Interceptor.Model.Twcc
import Interceptor.Facts.FnTwcc
set_option linter.unusedVariables false
namespace Interceptor.Facts.FnTwccMap
open Interceptor.Gen.Fn Interceptor.GoSem Interceptor.Twcc

/-! ## the bit-level lemma: `sn & (2^k − 1)` on a two's-complement integer is the Euclidean remainder -/

theorem s64_id (x : Int) (h : -9223372036854775808 ≤ x ∧ x < 9223372036854775808) : s64 x = x := by
  unfold s64; omega

/-- complementing below `2^k`: `(2^k − 1) ^ x = 2^k − 1 − x` for `x < 2^k`. -/
theorem ones_xor (k x : Nat) (hx : x < 2 ^ k) : (2 ^ k - 1) ^^^ x = 2 ^ k - 1 - x := by
  apply Nat.eq_of_testBit_eq
  intro i
  have e : 2 ^ k - 1 - x = 2 ^ k - (x + 1) := by omega
  rw [e, Nat.testBit_xor, Nat.testBit_two_pow_sub_one, Nat.testBit_two_pow_sub_succ hx]
  by_cases h : i < k
  · simp [h]
  · have : x < 2 ^ i := Nat.lt_of_lt_of_le hx (Nat.pow_le_pow_right (by omega) (by omega))
    simp [h, Nat.testBit_lt_two_pow this]

/-- ★ `band` with the mask `2^k − 1` is the Euclidean remainder modulo `2^k`, for EVERY integer
(in particular a negative first argument, the `.negSucc` branch of `GoSem.band`). -/
theorem band_mask (sn : Int) (k : Nat) : band sn (((2 ^ k - 1 : Nat) : Nat) : Int) = sn % ((2 ^ k : Nat) : Int) := by
  have hpos : 0 < 2 ^ k := Nat.two_pow_pos k
  cases sn with
  | ofNat m =>
    show ((m &&& (2 ^ k - 1) : Nat) : Int) = _
    rw [Nat.and_two_pow_sub_one_eq_mod]
    simp
  | negSucc m =>
    show (((2 ^ k - 1) ^^^ ((2 ^ k - 1) &&& m) : Nat) : Int) = _
    rw [Nat.and_comm, Nat.and_two_pow_sub_one_eq_mod, ones_xor k _ (Nat.mod_lt _ hpos)]
    rw [Int.negSucc_emod m (by exact_mod_cast hpos)]
    have hlt : m % 2 ^ k < 2 ^ k := Nat.mod_lt _ hpos
    have hc : ((m % 2 ^ k : Nat) : Int) = (m : Int) % ((2 ^ k : Nat) : Int) := by omega
    generalize 2 ^ k = P at *
    omega

/-! ## abstraction relation and ranges -/

/-- abstraction: the Go struct represents the model map (`arrivalTimes` ↔ `buf`, begin/end equal). -/
def Rel (g : S_twcc_packetArrivalTimeMap) (m : ArrivalMap) : Prop :=
  g.arrivalTimes = m.buf.toList ∧ g.beginSequenceNumber = m.beginSN ∧ g.endSequenceNumber = m.endSN

/-- the Go struct that represents a model map. -/
def conc (m : ArrivalMap) : S_twcc_packetArrivalTimeMap :=
  { arrivalTimes := m.buf.toList, beginSequenceNumber := m.beginSN, endSequenceNumber := m.endSN }

theorem Rel.eq {g : S_twcc_packetArrivalTimeMap} {m : ArrivalMap} (h : Rel g m) : g = conc m := by
  obtain ⟨gl, gb, ge⟩ := g
  obtain ⟨h1, h2, h3⟩ := h
  simp only at h1 h2 h3
  simp [conc, h1, h2, h3]

theorem rel_conc (m : ArrivalMap) : Rel (conc m) m := ⟨rfl, rfl, rfl⟩

/-- the range of a Go `int64` / `int`. -/
def I64 (x : Int) : Prop := -9223372036854775808 ≤ x ∧ x < 9223372036854775808

def Pow2 (c : Nat) : Prop := ∃ k, c = 2 ^ k

/-- a power of two that an `int` can hold (with room for one doubling). -/
def P2 (c : Nat) : Prop := Pow2 c ∧ c ≤ 4611686018427387904

/-- the index computation `int(sn & int64(c-1))` for `c = 2^k`. -/
theorem mask_idx (sn : Int) (c : Nat) (hc : P2 c) :
    s64 (band sn (s64 ((c : Int) - 1))) = sn % (c : Int) := by
  obtain ⟨⟨k, rfl⟩, hle⟩ := hc
  have hpos : 0 < 2 ^ k := Nat.two_pow_pos k
  have e1 : (((2 ^ k : Nat) : Int) - 1) = (((2 ^ k - 1 : Nat) : Nat) : Int) := by omega
  have e2 : s64 (((2 ^ k : Nat) : Int) - 1) = ((2 ^ k : Nat) : Int) - 1 := s64_id _ (by omega)
  rw [e2, e1, band_mask]
  apply s64_id
  have := Int.emod_nonneg sn (b := ((2 ^ k : Nat) : Int)) (by omega)
  have := Int.emod_lt_of_pos sn (b := ((2 ^ k : Nat) : Int)) (by omega)
  omega

theorem slot_cast (c : Nat) (hc : 0 < c) (sn : Int) : ((ArrivalMap.slot c sn : Nat) : Int) = sn % (c : Int) := by
  unfold ArrivalMap.slot
  have := Int.emod_nonneg sn (b := (c : Int)) (by omega)
  omega

theorem P2_pos {c : Nat} (h : P2 c) : 0 < c := by
  obtain ⟨⟨k, rfl⟩, _⟩ := h; exact Nat.two_pow_pos k

/-! ## capacity, index, get, HasReceived -/

/-- ★ `capacity` as written in the source equals the model's `cap`. -/
theorem capacity_src_eq_model (g : S_twcc_packetArrivalTimeMap) (m : ArrivalMap) (h : Rel g m) :
    twcc_packetArrivalTimeMap_capacity g = (m.cap : Int) := by
  obtain ⟨h1, _, _⟩ := h
  simp [twcc_packetArrivalTimeMap_capacity, ArrivalMap.cap, len, h1]

/-- ★ `index` as written in the source (`sn & (cap-1)`) equals the model's `slot` (`sn % cap`), for every
int64 `sn` (negative ones included).  The Go code needs the capacity to be a power of two. -/
theorem index_src_eq_model (g : S_twcc_packetArrivalTimeMap) (m : ArrivalMap) (h : Rel g m)
    (hc : P2 m.cap) (sn : Int) :
    twcc_packetArrivalTimeMap_index g sn = (ArrivalMap.slot m.cap sn : Int) := by
  unfold twcc_packetArrivalTimeMap_index
  rw [capacity_src_eq_model g m h, mask_idx sn _ hc, slot_cast _ (P2_pos hc)]

/-- ★ `index` never leaves the buffer (no index-out-of-range panic in `get`, `AddPacket`, `setNotReceived`)
when the capacity is a power of two. -/
theorem index_in_bounds (g : S_twcc_packetArrivalTimeMap) (m : ArrivalMap) (h : Rel g m)
    (hc : P2 m.cap) (sn : Int) :
    0 ≤ twcc_packetArrivalTimeMap_index g sn ∧
      twcc_packetArrivalTimeMap_index g sn < twcc_packetArrivalTimeMap_capacity g := by
  rw [index_src_eq_model g m h hc, capacity_src_eq_model g m h, slot_cast _ (P2_pos hc)]
  have hpos := P2_pos hc
  exact ⟨Int.emod_nonneg _ (by omega), Int.emod_lt_of_pos _ (by omega)⟩

theorem idx_toList (a : Array Int) (i : Nat) : idx a.toList (i : Int) = a.getD i 0 := by
  unfold idx
  have : ¬ ((i : Int) < 0) := by omega
  simp [this]

/-- ★ `get` as written in the source equals the model's, for every int64 `sn`.  The capacity is 0 (the
zero value) or a power of two. -/
theorem get_src_eq_model (g : S_twcc_packetArrivalTimeMap) (m : ArrivalMap) (h : Rel g m)
    (hc : m.cap = 0 ∨ P2 m.cap) (sn : Int) :
    twcc_packetArrivalTimeMap_get g sn = m.get sn := by
  unfold twcc_packetArrivalTimeMap_get ArrivalMap.get
  obtain ⟨h1, h2, h3⟩ := h
  rw [h2, h3]
  by_cases hr : sn < m.beginSN ∨ sn ≥ m.endSN
  · simp [hr]
  · rw [if_neg hr, if_neg (by simpa using hr)]
    rcases hc with h0 | hp
    · have e : m.buf = #[] := by simpa [ArrivalMap.cap] using h0
      simp [h1, e, idx]
    · rw [index_src_eq_model g m ⟨h1, h2, h3⟩ hp, h1, idx_toList]

/-- ★ `HasReceived` as written in the source equals the model's. -/
theorem hasReceived_src_eq_model (g : S_twcc_packetArrivalTimeMap) (m : ArrivalMap) (h : Rel g m)
    (hc : m.cap = 0 ∨ P2 m.cap) (sn : Int) :
    twcc_packetArrivalTimeMap_HasReceived g sn = m.hasReceived sn := by
  unfold twcc_packetArrivalTimeMap_HasReceived ArrivalMap.hasReceived
  rw [get_src_eq_model g m h hc]

/-! ## setNotReceived -/

theorem set_toList (a : Array Int) (i : Nat) (v : Int) :
    GoSem.set a.toList (i : Int) v = (a.setIfInBounds i v).toList := by
  unfold GoSem.set
  have : ¬ ((i : Int) < 0) := by omega
  simp [this]

/-- the loop of `setNotReceived`, from any intermediate state. -/
theorem setNR_loop (c : Nat) (hc : P2 c) (b e eX : Int) (heX : I64 eX) :
    ∀ (n : Nat) (sn : Int) (a : Array Int), a.size = c → (eX - sn).toNat = n → I64 sn →
      ∀ fuel, n + 1 ≤ fuel →
      loop fuel (fun ((m, sn) : S_twcc_packetArrivalTimeMap × Int) => (decide (sn < eX)))
        (fun ((m, sn) : S_twcc_packetArrivalTimeMap × Int) =>
          let m := { m with arrivalTimes := (set m.arrivalTimes (twcc_packetArrivalTimeMap_index m sn) (-1)) }
          let sn := (s64 (sn + 1))
          (m, sn))
        (({ arrivalTimes := a.toList, beginSequenceNumber := b, endSequenceNumber := e } : S_twcc_packetArrivalTimeMap), sn)
      = some (({ arrivalTimes := (ArrivalMap.setNRLoop c n sn a).toList, beginSequenceNumber := b,
                 endSequenceNumber := e } : S_twcc_packetArrivalTimeMap), max sn eX) := by
  intro n
  induction n with
  | zero =>
    intro sn a ha hn hsn fuel hf
    obtain ⟨f, rfl⟩ : ∃ f, fuel = f + 1 := ⟨fuel - 1, by omega⟩
    have h1 : ¬ (sn < eX) := by omega
    have h2 : max sn eX = sn := by omega
    simp [loop, h1, h2, ArrivalMap.setNRLoop]
  | succ n ih =>
    intro sn a ha hn hsn fuel hf
    obtain ⟨f, rfl⟩ : ∃ f, fuel = f + 1 := ⟨fuel - 1, by omega⟩
    have h1 : sn < eX := by omega
    unfold I64 at heX hsn
    have h2 : s64 (sn + 1) = sn + 1 := s64_id _ (by omega)
    have hrel : Rel { arrivalTimes := a.toList, beginSequenceNumber := b, endSequenceNumber := e }
        { buf := a, beginSN := b, endSN := e } := ⟨rfl, rfl, rfl⟩
    have hidx := index_src_eq_model _ _ hrel (by simpa [ArrivalMap.cap, ha] using hc) sn
    simp only [ArrivalMap.cap, ha] at hidx
    have h3 : max sn eX = max (sn + 1) eX := by omega
    simp only [loop, h1, decide_true, if_true, h2, hidx, set_toList, ArrivalMap.setNRLoop, h3]
    exact ih (sn + 1) _ (by simp [ha]) (by omega) (by unfold I64; omega) f (by omega)

/-- `setNotReceived`, concrete fuel bound. -/
theorem setNR_eq (m : ArrivalMap) (hc : P2 m.cap) (s e : Int) (hs : I64 s) (he : I64 e)
    (fuel : Nat) (hf : (e - s).toNat + 1 ≤ fuel) :
    twcc_packetArrivalTimeMap_setNotReceived fuel (conc m) s e = some (conc (m.setNotReceived s e)) := by
  unfold twcc_packetArrivalTimeMap_setNotReceived
  have := setNR_loop _ hc m.beginSN m.endSN e he (e - s).toNat s m.buf rfl rfl hs fuel hf
  simp only [ArrivalMap.cap, conc] at this ⊢
  rw [this]
  rfl

/-- ★ `setNotReceived` as written in the source terminates (fuel `(e − s) + 1` suffices) and equals the
model's, for every int64 range `[s, e)`.  The Go code needs the capacity to be a power of two. -/
theorem setNotReceived_src_eq_model (g : S_twcc_packetArrivalTimeMap) (m : ArrivalMap) (h : Rel g m)
    (hc : P2 m.cap) (s e : Int) (hs : I64 s) (he : I64 e) :
    ∃ n, ∀ fuel, n ≤ fuel → ∃ g', twcc_packetArrivalTimeMap_setNotReceived fuel g s e = some g' ∧
      Rel g' (m.setNotReceived s e) := by
  obtain rfl := h.eq
  exact ⟨(e - s).toNat + 1, fun fuel hf => ⟨_, setNR_eq m hc s e hs he fuel hf, rel_conc _⟩⟩

/-! ## reallocate -/

/-- the copy loop of `reallocate`, from any intermediate state. -/
theorem realloc_loop (m : ArrivalMap) (hc : m.cap = 0 ∨ P2 m.cap) (c : Nat) (hcn : P2 c) (hE : I64 m.endSN) :
    ∀ (n : Nat) (sn : Int) (nb : Array Int), nb.size = c → (m.endSN - sn).toNat = n → I64 sn →
      ∀ fuel, n + 1 ≤ fuel →
      loop fuel (fun ((newBuffer, sn) : List Int × Int) => (decide (sn < (conc m).endSequenceNumber)))
        (fun ((newBuffer, sn) : List Int × Int) =>
          let newBuffer := (GoSem.set newBuffer (s64 (band sn (s64 ((c : Int) - 1)))) (twcc_packetArrivalTimeMap_get (conc m) sn))
          let sn := (s64 (sn + 1))
          (newBuffer, sn))
        (nb.toList, sn)
      = some ((ArrivalMap.reallocLoop m c n sn nb).toList, max sn m.endSN) := by
  intro n
  induction n with
  | zero =>
    intro sn nb hnb hn hsn fuel hf
    obtain ⟨f, rfl⟩ : ∃ f, fuel = f + 1 := ⟨fuel - 1, by omega⟩
    have h1 : ¬ (sn < m.endSN) := by omega
    have h2 : max sn m.endSN = sn := by omega
    simp [loop, conc, h1, h2, ArrivalMap.reallocLoop]
  | succ n ih =>
    intro sn nb hnb hn hsn fuel hf
    obtain ⟨f, rfl⟩ : ∃ f, fuel = f + 1 := ⟨fuel - 1, by omega⟩
    have h1 : sn < m.endSN := by omega
    unfold I64 at hE hsn
    have h2 : s64 (sn + 1) = sn + 1 := s64_id _ (by omega)
    have hget := get_src_eq_model _ _ (rel_conc m) hc sn
    have hidx : s64 (band sn (s64 ((c : Int) - 1))) = ((ArrivalMap.slot c sn : Nat) : Int) := by
      rw [mask_idx sn c hcn, slot_cast _ (P2_pos hcn)]
    have h3 : max sn m.endSN = max (sn + 1) m.endSN := by omega
    have h4 : sn < (conc m).endSequenceNumber := h1
    simp only [loop, h4, decide_true, if_true, h2, hidx, hget, set_toList, ArrivalMap.reallocLoop, h3]
    exact ih (sn + 1) _ (by simp [hnb]) (by omega) (by unfold I64; omega) f (by omega)

theorem reallocLoop_size (m : ArrivalMap) (c : Nat) : ∀ (n : Nat) (sn : Int) (nb : Array Int),
    (ArrivalMap.reallocLoop m c n sn nb).size = nb.size := by
  intro n
  induction n with
  | zero => intro sn nb; rfl
  | succ n ih => intro sn nb; simp [ArrivalMap.reallocLoop, ih]

theorem reallocate_cap (m : ArrivalMap) (c : Nat) : (m.reallocate c).cap = c := by
  simp [ArrivalMap.reallocate, ArrivalMap.cap, reallocLoop_size]

/-- `reallocate`, concrete fuel bound. -/
theorem reallocate_eq (g : S_twcc_packetArrivalTimeMap) (m : ArrivalMap) (h : Rel g m)
    (hc : m.cap = 0 ∨ P2 m.cap) (c : Nat) (hcn : P2 c) (hB : I64 m.beginSN) (hE : I64 m.endSN) :
    ∀ fuel, (m.endSN - m.beginSN).toNat + 1 ≤ fuel →
      twcc_packetArrivalTimeMap_reallocate fuel g (c : Int) = some (conc (m.reallocate c)) := by
  intro fuel hf
  obtain rfl := h.eq
  unfold twcc_packetArrivalTimeMap_reallocate
  have := realloc_loop m hc c hcn hE (m.endSN - m.beginSN).toNat m.beginSN (Array.replicate c 0) (by simp) rfl hB fuel hf
  have e : mkSlice (c : Int) = (Array.replicate c 0).toList := by simp [mkSlice]
  simp only [e]
  have e2 : (conc m).beginSequenceNumber = m.beginSN := rfl
  rw [e2, this]
  rfl

/-! ## adjustToSize -/

/-- the doubling loop: terminates within `f` iterations when `n ≤ c·2^f`, result = the model's `growCap`. -/
theorem grow_loop (n : Int) (hn : n ≤ 2305843009213693952) :
    ∀ (f : Nat) (c : Nat), 0 < c → n ≤ (c : Int) * ((2 ^ f : Nat) : Int) →
      ∀ fuel, f + 1 ≤ fuel →
      loop fuel (fun newCapacity => (decide (newCapacity < n))) (fun newCapacity =>
          let newCapacity := (s64 (newCapacity * 2))
          newCapacity) (c : Int)
      = some ((ArrivalMap.growCap f c n : Nat) : Int) := by
  intro f
  induction f with
  | zero =>
    intro c hc hle fuel hf
    obtain ⟨f', rfl⟩ : ∃ f', fuel = f' + 1 := ⟨fuel - 1, by omega⟩
    have h1 : ¬ ((c : Int) < n) := by simp at hle; omega
    simp [loop, h1, ArrivalMap.growCap]
  | succ f ih =>
    intro c hc hle fuel hf
    obtain ⟨f', rfl⟩ : ∃ f', fuel = f' + 1 := ⟨fuel - 1, by omega⟩
    by_cases h1 : (c : Int) < n
    · have h2 : s64 ((c : Int) * 2) = ((c * 2 : Nat) : Int) := by
        rw [s64_id _ (by omega)]; omega
      simp only [loop, h1, decide_true, if_true, h2, ArrivalMap.growCap]
      refine ih (c * 2) (by omega) ?_ f' (by omega)
      have e : ((2 ^ (f + 1) : Nat) : Int) = 2 * ((2 ^ f : Nat) : Int) := by
        rw [Nat.pow_succ]; omega
      rw [e] at hle
      have e2 : ((c * 2 : Nat) : Int) * ((2 ^ f : Nat) : Int) = (c : Int) * (2 * ((2 ^ f : Nat) : Int)) := by
        rw [Int.natCast_mul, Int.mul_assoc]; rfl
      rw [e2]; exact hle
    · simp [loop, h1, ArrivalMap.growCap]

theorem pow2_double {c : Nat} (h : Pow2 c) : Pow2 (c * 2) := by
  obtain ⟨k, rfl⟩ := h; exact ⟨k + 1, by rw [Nat.pow_succ]⟩

theorem pow2_half {c : Nat} (h : Pow2 c) (h2 : 2 ≤ c) : Pow2 (c / 2) := by
  obtain ⟨k, rfl⟩ := h
  cases k with
  | zero => simp at h2
  | succ k => exact ⟨k, by rw [Nat.pow_succ]; omega⟩

/-- what `growCap` returns: a power of two ≥ `n`, either the old capacity or below `2n`. -/
theorem growCap_spec (n : Int) : ∀ (f : Nat) (c : Nat), Pow2 c → n ≤ (c : Int) * ((2 ^ f : Nat) : Int) →
    Pow2 (ArrivalMap.growCap f c n) ∧ n ≤ (ArrivalMap.growCap f c n : Int) ∧ c ≤ ArrivalMap.growCap f c n ∧
      (ArrivalMap.growCap f c n = c ∨ (ArrivalMap.growCap f c n : Int) < 2 * n) := by
  intro f
  induction f with
  | zero =>
    intro c hp hle
    simp at hle
    simp [ArrivalMap.growCap, hp, hle]
  | succ f ih =>
    intro c hp hle
    by_cases h1 : (c : Int) < n
    · simp only [ArrivalMap.growCap, h1, if_true]
      have e : ((2 ^ (f + 1) : Nat) : Int) = 2 * ((2 ^ f : Nat) : Int) := by
        rw [Nat.pow_succ]; omega
      rw [e] at hle
      have e2 : ((c * 2 : Nat) : Int) * ((2 ^ f : Nat) : Int) = (c : Int) * (2 * ((2 ^ f : Nat) : Int)) := by
        rw [Int.natCast_mul, Int.mul_assoc]; rfl
      obtain ⟨a1, a2, a3, a4⟩ := ih (c * 2) (pow2_double hp) (by rw [e2]; exact hle)
      refine ⟨a1, a2, by omega, ?_⟩
      rcases a4 with a4 | a4
      · right; rw [a4]; omega
      · right; exact a4
    · simp only [ArrivalMap.growCap, h1, if_false]
      exact ⟨hp, by omega, by omega, by simp⟩

/-- the halving loop: terminates within `f` iterations when `c < 2^f`, result = the model's `shrinkCap`. -/
theorem shrink_loop (n : Int) (hn : -2305843009213693952 ≤ n ∧ n ≤ 2305843009213693952) :
    ∀ (f : Nat) (c : Nat), c < 2 ^ f → c ≤ 4611686018427387904 →
      ∀ fuel, f + 1 ≤ fuel →
      loop fuel (fun newCapacity_1 => (decide (newCapacity_1 ≥ (s64 (2 * (max n 128)))))) (fun newCapacity_1 =>
          let newCapacity_1 := (s64 (quo newCapacity_1 2))
          newCapacity_1) (c : Int)
      = some ((ArrivalMap.shrinkCap f c n : Nat) : Int) := by
  have hs : s64 (2 * (max n 128)) = 2 * (max n 128) := s64_id _ (by omega)
  rw [hs]
  intro f
  induction f with
  | zero =>
    intro c hc hle fuel hf
    obtain ⟨f', rfl⟩ : ∃ f', fuel = f' + 1 := ⟨fuel - 1, by omega⟩
    have h1 : ¬ ((c : Int) ≥ 2 * max n 128) := by simp at hc; omega
    simp [loop, h1, ArrivalMap.shrinkCap]
  | succ f ih =>
    intro c hc hle fuel hf
    obtain ⟨f', rfl⟩ : ∃ f', fuel = f' + 1 := ⟨fuel - 1, by omega⟩
    by_cases h1 : (c : Int) ≥ 2 * max n 128
    · have h2 : s64 (quo (c : Int) 2) = ((c / 2 : Nat) : Int) := by
        rw [quo_nonneg _ _ (by omega), s64_id _ (by omega)]; omega
      have h1' : (c : Int) ≥ 2 * max n ((minCapacity : Nat) : Int) := h1
      simp only [loop, h1, decide_true, if_true, h2, ArrivalMap.shrinkCap, h1']
      refine ih (c / 2) ?_ (by omega) f' (by omega)
      rw [Nat.pow_succ] at hc; omega
    · have h1' : ¬ ((c : Int) ≥ 2 * max n ((minCapacity : Nat) : Int)) := h1
      simp [loop, h1, ArrivalMap.shrinkCap, h1']

/-- `shrinkCap` returns a power of two, not larger than before. -/
theorem shrinkCap_pow2 (n : Int) : ∀ (f : Nat) (c : Nat), Pow2 c →
    Pow2 (ArrivalMap.shrinkCap f c n) ∧ ArrivalMap.shrinkCap f c n ≤ c := by
  intro f
  induction f with
  | zero => intro c hp; simp [ArrivalMap.shrinkCap, hp]
  | succ f ih =>
    intro c hp
    by_cases h : (c : Int) ≥ 2 * max n ((minCapacity : Nat) : Int)
    · simp only [ArrivalMap.shrinkCap, h, if_true]
      have hm : ((minCapacity : Nat) : Int) = 128 := rfl
      rw [hm] at h
      obtain ⟨a1, a2⟩ := ih (c / 2) (pow2_half hp (by omega))
      exact ⟨a1, by omega⟩
    · simp only [ArrivalMap.shrinkCap, h, if_false]
      exact ⟨hp, Nat.le_refl _⟩

/-- `shrinkCap` stays ≥ `max n 128`. -/
theorem shrinkCap_ge (n : Int) : ∀ (f : Nat) (c : Nat), 128 ≤ c → n ≤ (c : Int) →
    128 ≤ ArrivalMap.shrinkCap f c n ∧ n ≤ (ArrivalMap.shrinkCap f c n : Int) := by
  intro f
  induction f with
  | zero => intro c h1 h2; simp [ArrivalMap.shrinkCap, h1, h2]
  | succ f ih =>
    intro c h1 h2
    by_cases h : (c : Int) ≥ 2 * max n ((minCapacity : Nat) : Int)
    · simp only [ArrivalMap.shrinkCap, h, if_true]
      have hm : ((minCapacity : Nat) : Int) = 128 := rfl
      rw [hm] at h
      exact ih (c / 2) (by omega) (by omega)
    · simp only [ArrivalMap.shrinkCap, h, if_false]
      exact ⟨h1, h2⟩

theorem cap_conc (m : ArrivalMap) : twcc_packetArrivalTimeMap_capacity (conc m) = (m.cap : Int) :=
  capacity_src_eq_model _ _ (rel_conc m)

/-- the range of `newSize` for which `newSize*4`, `2*max(newSize,128)` and the doubling do not overflow. -/
def SizeOK (n : Int) : Prop := -1152921504606846976 ≤ n ∧ n ≤ 1152921504606846976

/-- the second half of `adjustToSize` (shrinking). -/
theorem shrink_phase (m : ArrivalMap) (hc : m.cap = 0 ∨ P2 m.cap) (n : Int) (hn : SizeOK n)
    (hB : I64 m.beginSN) (hE : I64 m.endSN) (fuel : Nat) (h65 : 65 ≤ fuel)
    (hf : (m.endSN - m.beginSN).toNat + 1 ≤ fuel) :
    (if (decide ((twcc_packetArrivalTimeMap_capacity (conc m)) > (max 128 (s64 (n * 4))))) then
      let newCapacity_1 := (twcc_packetArrivalTimeMap_capacity (conc m))
      match loop fuel (fun newCapacity_1 => (decide (newCapacity_1 ≥ (s64 (2 * (max n 128)))))) (fun newCapacity_1 =>
          let newCapacity_1 := (s64 (quo newCapacity_1 2))
          newCapacity_1
        ) newCapacity_1 with
      | none => none
      | some newCapacity_1 =>
        match (twcc_packetArrivalTimeMap_reallocate fuel (conc m) newCapacity_1) with
        | none => none
        | some __c =>
          let m := __c
          some (m)
    else
      some (conc m))
    = some (conc (if (m.cap : Int) > max ((minCapacity : Nat) : Int) (n * 4)
        then m.reallocate (ArrivalMap.shrinkCap 64 m.cap n) else m)) := by
  unfold SizeOK at hn
  have e4 : s64 (n * 4) = n * 4 := s64_id _ (by omega)
  have hm : ((minCapacity : Nat) : Int) = 128 := rfl
  rw [cap_conc, e4, hm]
  by_cases h : (m.cap : Int) > max 128 (n * 4)
  · have hp : P2 m.cap := by
      rcases hc with h0 | hp
      · rw [h0] at h; omega
      · exact hp
    have hlt : m.cap < 2 ^ 64 := by
      have : m.cap ≤ 4611686018427387904 := hp.2
      have e : (2 : Nat) ^ 64 = 18446744073709551616 := by decide
      omega
    have hl := shrink_loop n (by omega) 64 m.cap hlt hp.2 fuel (by omega)
    have hsp := shrinkCap_pow2 n 64 m.cap hp.1
    have hr := reallocate_eq (conc m) m (rel_conc m) hc (ArrivalMap.shrinkCap 64 m.cap n)
      ⟨hsp.1, Nat.le_trans hsp.2 hp.2⟩ hB hE fuel hf
    simp only [h, decide_true, if_true, hl, hr]
  · simp only [h, decide_false, if_false, Bool.false_eq_true]

/-- `adjustToSize`, concrete fuel bound. -/
theorem adjust_eq (m : ArrivalMap) (n : Int) (hc : (m.cap = 0 ∧ n ≤ 0) ∨ P2 m.cap) (hn : SizeOK n)
    (hB : I64 m.beginSN) (hE : I64 m.endSN) (fuel : Nat) (h65 : 65 ≤ fuel)
    (hf : (m.endSN - m.beginSN).toNat + 1 ≤ fuel) :
    twcc_packetArrivalTimeMap_adjustToSize fuel (conc m) n = some (conc (m.adjustToSize n)) := by
  have hc' : m.cap = 0 ∨ P2 m.cap := by
    rcases hc with h | h
    · exact Or.inl h.1
    · exact Or.inr h
  unfold twcc_packetArrivalTimeMap_adjustToSize ArrivalMap.adjustToSize
  by_cases h : n > (m.cap : Int)
  · have hp : P2 m.cap := by
      rcases hc with h0 | hp
      · omega
      · exact hp
    have hn' := hn
    unfold SizeOK at hn'
    have hpos := P2_pos hp
    have hle : n ≤ (m.cap : Int) * ((2 ^ 64 : Nat) : Int) := by
      have e : ((2 ^ 64 : Nat) : Int) = 18446744073709551616 := by decide
      rw [e]; omega
    have hl := grow_loop n (by omega) 64 m.cap hpos hle fuel (by omega)
    obtain ⟨g1, g2, g3, g4⟩ := growCap_spec n 64 m.cap hp.1 hle
    have hp2 : P2 (ArrivalMap.growCap 64 m.cap n) := by
      refine ⟨g1, ?_⟩
      rcases g4 with g4 | g4
      · rw [g4]; exact hp.2
      · omega
    have hr := reallocate_eq (conc m) m (rel_conc m) hc' _ hp2 hB hE fuel hf
    have hcc : twcc_packetArrivalTimeMap_capacity (conc m) = (m.cap : Int) := cap_conc m
    simp only [hcc, h, decide_true, if_true, hl, hr]
    exact shrink_phase (m.reallocate (ArrivalMap.growCap 64 m.cap n))
      (Or.inr (by rw [reallocate_cap]; exact hp2)) n hn hB hE fuel h65 hf
  · have hcc : twcc_packetArrivalTimeMap_capacity (conc m) = (m.cap : Int) := cap_conc m
    rw [hcc]
    simp only [h, decide_false, if_false, Bool.false_eq_true]
    exact shrink_phase m hc' n hn hB hE fuel h65 hf

/-! ## the invariant -/

/-- the invariant of `packetArrivalTimeMap`: sequence numbers within ±2^62, `begin ≤ end`, the window fits
the buffer, and the capacity is 0 (before the first packet) or a power of two in `[128, 32768]`. -/
def Inv (g : S_twcc_packetArrivalTimeMap) : Prop :=
  -4611686018427387904 < g.beginSequenceNumber ∧ g.beginSequenceNumber ≤ g.endSequenceNumber ∧
  g.endSequenceNumber ≤ 4611686018427387904 ∧
  g.endSequenceNumber - g.beginSequenceNumber ≤ (g.arrivalTimes.length : Int) ∧
  (g.arrivalTimes.length = 0 ∨
    (Pow2 g.arrivalTimes.length ∧ 128 ≤ g.arrivalTimes.length ∧ g.arrivalTimes.length ≤ 32768))

/-- ★ the invariant is established by the constructor (the zero value `&packetArrivalTimeMap{}` of
`NewRecorder`), which represents the model's empty map. -/
theorem inv_init : Inv {} ∧ Rel {} {} := by
  simp [Inv, Rel]

theorem conc_begin (m : ArrivalMap) (b : Int) :
    { conc m with beginSequenceNumber := b } = conc { m with beginSN := b } := rfl
theorem conc_end (m : ArrivalMap) (e : Int) :
    { conc m with endSequenceNumber := e } = conc { m with endSN := e } := rfl

/-- the store `m.arrivalTimes[m.index(sn)] = t`. -/
theorem conc_set (m : ArrivalMap) (hp : P2 m.cap) (sn t : Int) :
    { conc m with arrivalTimes := (GoSem.set (conc m).arrivalTimes (twcc_packetArrivalTimeMap_index (conc m) sn) t) }
      = conc (m.set sn t) := by
  rw [index_src_eq_model _ _ (rel_conc m) hp]
  show ({ arrivalTimes := GoSem.set m.buf.toList _ t, beginSequenceNumber := m.beginSN, endSequenceNumber := m.endSN } : S_twcc_packetArrivalTimeMap) = _
  rw [set_toList]
  rfl

/-! ## model-side facts about the capacity -/

theorem set_cap (m : ArrivalMap) (sn t : Int) : (m.set sn t).cap = m.cap := by
  simp [ArrivalMap.set, ArrivalMap.cap]

theorem setNRLoop_size (c : Nat) : ∀ (n : Nat) (sn : Int) (b : Array Int),
    (ArrivalMap.setNRLoop c n sn b).size = b.size := by
  intro n
  induction n with
  | zero => intro sn b; rfl
  | succ n ih => intro sn b; simp [ArrivalMap.setNRLoop, ih]

theorem setNR_cap (m : ArrivalMap) (s e : Int) : (m.setNotReceived s e).cap = m.cap := by
  simp [ArrivalMap.setNotReceived, ArrivalMap.cap, setNRLoop_size]

theorem adjust_begin (m : ArrivalMap) (n : Int) : (m.adjustToSize n).beginSN = m.beginSN := by
  simp only [ArrivalMap.adjustToSize]
  split <;> split <;> rfl

theorem adjust_end (m : ArrivalMap) (n : Int) : (m.adjustToSize n).endSN = m.endSN := by
  simp only [ArrivalMap.adjustToSize]
  split <;> split <;> rfl

theorem pow2_lt_65536 {c : Nat} (h : Pow2 c) (hlt : c < 65536) : c ≤ 32768 := by
  obtain ⟨k, rfl⟩ := h
  by_cases hk : k ≤ 15
  · have := Nat.pow_le_pow_right (n := 2) (by omega) hk
    have e : (2 : Nat) ^ 15 = 32768 := by decide
    omega
  · have := Nat.pow_le_pow_right (n := 2) (by omega) (show 16 ≤ k by omega)
    have e : (2 : Nat) ^ 16 = 65536 := by decide
    omega

/-- a capacity the invariant allows once the first packet has arrived. -/
def CapOK (c : Nat) : Prop := Pow2 c ∧ 128 ≤ c ∧ c ≤ 32768

theorem CapOK.p2 {c : Nat} (h : CapOK c) : P2 c := ⟨h.1, by have := h.2.2; omega⟩

/-- `adjustToSize n` (0 ≤ n ≤ 32768) keeps the capacity a power of two in [128, 32768] and makes it ≥ n. -/
theorem adjust_cap (m : ArrivalMap) (n : Int) (hc : CapOK m.cap) (hn : n ≤ 32768) :
    CapOK (m.adjustToSize n).cap ∧ n ≤ ((m.adjustToSize n).cap : Int) := by
  obtain ⟨hp, h128, h32⟩ := hc
  unfold ArrivalMap.adjustToSize
  have hm : ((minCapacity : Nat) : Int) = 128 := rfl
  -- phase 1
  have h1 : ∃ m1 : ArrivalMap, (if n > (m.cap : Int) then m.reallocate (ArrivalMap.growCap 64 m.cap n) else m) = m1 ∧
      CapOK m1.cap ∧ n ≤ (m1.cap : Int) := by
    by_cases h : n > (m.cap : Int)
    · rw [if_pos h]
      refine ⟨_, rfl, ?_⟩
      rw [reallocate_cap]
      have hle : n ≤ (m.cap : Int) * ((2 ^ 64 : Nat) : Int) := by
        have e : ((2 ^ 64 : Nat) : Int) = 18446744073709551616 := by decide
        rw [e]; omega
      obtain ⟨g1, g2, g3, g4⟩ := growCap_spec n 64 m.cap hp hle
      refine ⟨⟨g1, by omega, ?_⟩, g2⟩
      rcases g4 with g4 | g4
      · omega
      · exact pow2_lt_65536 g1 (by omega)
    · rw [if_neg h]
      exact ⟨_, rfl, ⟨hp, h128, h32⟩, by omega⟩
  obtain ⟨m1, e1, ⟨hp1, h1281, h321⟩, hn1⟩ := h1
  simp only [e1]
  split
  · rw [reallocate_cap]
    obtain ⟨a1, a2⟩ := shrinkCap_pow2 n 64 m1.cap hp1
    obtain ⟨a3, a4⟩ := shrinkCap_ge n 64 m1.cap h1281 hn1
    exact ⟨⟨a1, a3, by omega⟩, a4⟩
  · exact ⟨⟨hp1, h1281, h321⟩, hn1⟩

/-- with capacity 0 and nothing to hold, `adjustToSize` does nothing. -/
theorem adjust_zero (m : ArrivalMap) (n : Int) (h0 : m.cap = 0) (hn : n ≤ 0) : m.adjustToSize n = m := by
  unfold ArrivalMap.adjustToSize
  have hm : ((minCapacity : Nat) : Int) = 128 := rfl
  have h1 : ¬ (n > (m.cap : Int)) := by omega
  rw [if_neg h1]
  have h2 : ¬ ((m.cap : Int) > max ((minCapacity : Nat) : Int) (n * 4)) := by omega
  simp only [h2, if_false]

/-- the invariant, read on the model side. -/
def MInv (m : ArrivalMap) : Prop :=
  -4611686018427387904 < m.beginSN ∧ m.beginSN ≤ m.endSN ∧ m.endSN ≤ 4611686018427387904 ∧
    m.endSN - m.beginSN ≤ (m.cap : Int) ∧ (m.cap = 0 ∨ CapOK m.cap)

theorem inv_conc (m : ArrivalMap) : Inv (conc m) ↔ MInv m := by
  simp [Inv, MInv, conc, ArrivalMap.cap, CapOK]

theorem Rel.inv {g : S_twcc_packetArrivalTimeMap} {m : ArrivalMap} (h : Rel g m) : Inv g ↔ MInv m := by
  obtain rfl := h.eq; exact inv_conc m

/-! ## AddPacket -/

/-- the common tail of `AddPacket` when the packet goes after the buffer (after `begin` may have been moved):
adjustToSize, fill the gap with "not received", move `end`, store. -/
theorem add_tail (m : ArrivalMap) (hc : CapOK m.cap) (sn t : Int)
    (hB : -4611686018427387904 ≤ m.beginSN) (hbe : m.beginSN ≤ m.endSN) (hes : m.endSN ≤ sn)
    (hsn : sn < 4611686018427387904) (hsz : sn + 1 - m.beginSN ≤ 32768)
    (fuel : Nat) (hf : 32770 ≤ fuel) :
    (match (twcc_packetArrivalTimeMap_adjustToSize fuel (conc m) (s64 ((s64 (sn + 1)) - (conc m).beginSequenceNumber))) with
      | none => none
      | some __c =>
        let m := __c
        match (twcc_packetArrivalTimeMap_setNotReceived fuel m m.endSequenceNumber sn) with
        | none => none
        | some __c =>
          let m := __c
          let m := { m with endSequenceNumber := (s64 (sn + 1)) }
          let m := { m with arrivalTimes := (GoSem.set m.arrivalTimes (twcc_packetArrivalTimeMap_index m sn) t) }
          some (m))
    = some (conc (({ (m.adjustToSize (sn + 1 - m.beginSN)).setNotReceived
          (m.adjustToSize (sn + 1 - m.beginSN)).endSN sn with endSN := sn + 1 } : ArrivalMap).set sn t)) := by
  have e1 : s64 (sn + 1) = sn + 1 := s64_id _ (by omega)
  have e2 : (conc m).beginSequenceNumber = m.beginSN := rfl
  have e3 : s64 (sn + 1 - m.beginSN) = sn + 1 - m.beginSN := s64_id _ (by omega)
  have hadj := adjust_eq m (sn + 1 - m.beginSN) (Or.inr hc.p2) (by unfold SizeOK; omega)
    (by unfold I64; omega) (by unfold I64; omega) fuel (by omega) (by omega)
  obtain ⟨hc1, hn1⟩ := adjust_cap m (sn + 1 - m.beginSN) hc hsz
  have hnr := setNR_eq (m.adjustToSize (sn + 1 - m.beginSN)) hc1.p2 (m.adjustToSize (sn + 1 - m.beginSN)).endSN sn
    (by rw [adjust_end]; unfold I64; omega) (by unfold I64; omega) fuel (by rw [adjust_end]; omega)
  have e4 : (conc (m.adjustToSize (sn + 1 - m.beginSN))).endSequenceNumber = (m.adjustToSize (sn + 1 - m.beginSN)).endSN := rfl
  simp only [e1, e2, e3, hadj, e4, hnr]
  exact congrArg some (conc_set ({ (m.adjustToSize (sn + 1 - m.beginSN)).setNotReceived
          (m.adjustToSize (sn + 1 - m.beginSN)).endSN sn with endSN := sn + 1 } : ArrivalMap)
          (by show P2 ((m.adjustToSize (sn + 1 - m.beginSN)).setNotReceived _ sn).cap
              rw [setNR_cap]; exact hc1.p2) sn t)

theorem len_conc (m : ArrivalMap) : len (conc m).arrivalTimes = (m.cap : Int) := cap_conc m

/-- `AddPacket`, concrete fuel bound. -/
theorem addPacket_eq (m : ArrivalMap) (hi : Inv (conc m)) (sn t : Int)
    (hsn : -4611686018427387904 < sn ∧ sn < 4611686018427387904) (fuel : Nat) (hf : 32770 ≤ fuel) :
    twcc_packetArrivalTimeMap_AddPacket fuel (conc m) sn t = some (conc (m.addPacket sn t)) := by
  obtain ⟨hB, hbe, hE, hsz, hcap⟩ := (inv_conc m).1 hi
  have e1 : s64 (sn + 1) = sn + 1 := s64_id _ (by omega)
  have eb : (conc m).beginSequenceNumber = m.beginSN := rfl
  have ee : (conc m).endSequenceNumber = m.endSN := rfl
  have hmx : maxNumberOfPackets = 32768 := rfl
  unfold twcc_packetArrivalTimeMap_AddPacket ArrivalMap.addPacket
  rw [len_conc]
  by_cases h0 : m.cap = 0
  · -- first packet
    have hp : P2 128 := ⟨⟨7, rfl⟩, by omega⟩
    have hr : twcc_packetArrivalTimeMap_reallocate fuel (conc m) 128 = some (conc (m.reallocate 128)) :=
      reallocate_eq (conc m) m (rel_conc m) (Or.inl h0) 128 hp (by unfold I64; omega)
        (by unfold I64; omega) fuel (by omega)
    have h0' : ((m.cap : Nat) : Int) = 0 := by omega
    simp only [h0, if_true, hr, e1]
    exact congrArg some (conc_set ({ m.reallocate minCapacity with beginSN := sn, endSN := sn + 1 } : ArrivalMap)
      (by show P2 (m.reallocate minCapacity).cap
          rw [reallocate_cap]; exact hp) sn t)
  · have hc : CapOK m.cap := by
      rcases hcap with h | h
      · exact absurd h h0
      · exact h
    have h0' : ¬ (((m.cap : Nat) : Int) = 0) := by omega
    simp only [h0, h0', decide_false, if_false, Bool.false_eq_true, eb, ee]
    by_cases hin : sn ≥ m.beginSN ∧ sn < m.endSN
    · -- inside the window
      simp only [hin, decide_true, Bool.and_self, if_true, and_self]
      exact congrArg some (conc_set m hc.p2 sn t)
    · have hin' : ¬ ((decide (sn ≥ m.beginSN) && decide (sn < m.endSN)) = true) := by simpa using hin
      simp only [hin, hin', if_false, Bool.false_eq_true]
      by_cases hlt : sn < m.beginSN
      · -- before the window
        have e2 : s64 (m.endSN - sn) = m.endSN - sn := s64_id _ (by omega)
        simp only [hlt, decide_true, if_true, e2, hmx]
        by_cases hbig : m.endSN - sn > 32768
        · simp only [hbig, decide_true, if_true]
        · simp only [hbig, decide_false, if_false, Bool.false_eq_true]
          have hadj := adjust_eq m (m.endSN - sn) (Or.inr hc.p2) (by unfold SizeOK; omega)
            (by unfold I64; omega) (by unfold I64; omega) fuel (by omega) (by omega)
          obtain ⟨hc1, hn1⟩ := adjust_cap m (m.endSN - sn) hc (by omega)
          rw [hadj]
          simp only []
          rw [conc_set _ hc1.p2]
          have hnr := setNR_eq ((m.adjustToSize (m.endSN - sn)).set sn t)
            (by rw [set_cap]; exact hc1.p2) (sn + 1) ((m.adjustToSize (m.endSN - sn)).set sn t).beginSN
            (by unfold I64; omega)
            (by show I64 (m.adjustToSize (m.endSN - sn)).beginSN
                rw [adjust_begin]; unfold I64; omega) fuel
            (by show ((m.adjustToSize (m.endSN - sn)).beginSN - (sn + 1)).toNat + 1 ≤ fuel
                rw [adjust_begin]; omega)
          have e5 : (conc (m.adjustToSize (m.endSN - sn))).beginSequenceNumber
              = ((m.adjustToSize (m.endSN - sn)).set sn t).beginSN := rfl
          rw [e1, e5, hnr]
          rfl
      · -- after the window
        simp only [hlt, decide_false, if_false, Bool.false_eq_true, e1, hmx]
        have e3 : s64 (m.endSN + 32768) = m.endSN + 32768 := s64_id _ (by omega)
        have e4 : s64 (sn + 1 - 32768) = sn + 1 - 32768 := s64_id _ (by omega)
        rw [e3, e4]
        by_cases hfar : sn + 1 ≥ m.endSN + 32768
        · simp only [hfar, decide_true, if_true]
          exact congrArg some (conc_set ({ m with beginSN := sn, endSN := sn + 1 } : ArrivalMap) hc.p2 sn t)
        · simp only [hfar, decide_false, if_false, Bool.false_eq_true]
          by_cases hbump : m.beginSN < sn + 1 - 32768
          · simp only [hbump, decide_true, if_true]
            have := add_tail ({ m with beginSN := sn + 1 - 32768 } : ArrivalMap) hc sn t (by simp only; omega)
              (by simp only; omega) (by simp only; omega) hsn.2 (by simp only; omega) fuel hf
            rw [e1] at this
            exact this
          · simp only [hbump, decide_false, if_false, Bool.false_eq_true]
            have := add_tail m hc sn t (by omega) hbe (by omega) hsn.2 (by omega) fuel hf
            rw [e1] at this
            exact this

theorem capOK_128 : CapOK 128 := ⟨⟨7, rfl⟩, by omega, by omega⟩

/-- the model's `addPacket` preserves the invariant, and afterwards the capacity is a power of two ≥ 128. -/
theorem addPacket_inv (m : ArrivalMap) (hi : Inv (conc m)) (sn t : Int)
    (hsn : -4611686018427387904 < sn ∧ sn < 4611686018427387904) :
    Inv (conc (m.addPacket sn t)) ∧ CapOK (m.addPacket sn t).cap := by
  obtain ⟨hB, hbe, hE, hsz, hcap⟩ := (inv_conc m).1 hi
  rw [inv_conc]
  have hmx : maxNumberOfPackets = 32768 := rfl
  unfold MInv ArrivalMap.addPacket
  by_cases h0 : m.cap = 0
  · simp only [h0, if_true]
    have hcp : (({ m.reallocate minCapacity with beginSN := sn, endSN := sn + 1 } : ArrivalMap).set sn t).cap = 128 := by
      rw [set_cap]; exact reallocate_cap m 128
    rw [hcp]
    refine ⟨⟨?_, ?_, ?_, ?_, Or.inr capOK_128⟩, capOK_128⟩
    · exact hsn.1
    · show sn ≤ sn + 1; omega
    · show sn + 1 ≤ _; omega
    · show sn + 1 - sn ≤ _; omega
  · have hc : CapOK m.cap := by
      rcases hcap with h | h
      · exact absurd h h0
      · exact h
    simp only [h0, if_false]
    by_cases hin : sn ≥ m.beginSN ∧ sn < m.endSN
    · simp only [hin, and_self, if_true]
      rw [set_cap]
      exact ⟨⟨hB, hbe, hE, hsz, Or.inr hc⟩, hc⟩
    · simp only [hin, if_false]
      by_cases hlt : sn < m.beginSN
      · simp only [hlt, if_true, hmx]
        by_cases hbig : m.endSN - sn > 32768
        · simp only [hbig, if_true]
          exact ⟨⟨hB, hbe, hE, hsz, Or.inr hc⟩, hc⟩
        · simp only [hbig, if_false]
          obtain ⟨hc1, hn1⟩ := adjust_cap m (m.endSN - sn) hc (by omega)
          have hcp : ({ ((m.adjustToSize (m.endSN - sn)).set sn t).setNotReceived (sn + 1)
              ((m.adjustToSize (m.endSN - sn)).set sn t).beginSN with beginSN := sn } : ArrivalMap).cap
              = (m.adjustToSize (m.endSN - sn)).cap := by
            show (((m.adjustToSize (m.endSN - sn)).set sn t).setNotReceived _ _).cap = _
            rw [setNR_cap, set_cap]
          rw [hcp]
          have hen : ({ ((m.adjustToSize (m.endSN - sn)).set sn t).setNotReceived (sn + 1)
              ((m.adjustToSize (m.endSN - sn)).set sn t).beginSN with beginSN := sn } : ArrivalMap).endSN
              = m.endSN := adjust_end m _
          rw [hen]
          refine ⟨⟨?_, ?_, hE, ?_, Or.inr hc1⟩, hc1⟩
          · exact hsn.1
          · show sn ≤ _; omega
          · show m.endSN - sn ≤ _; exact hn1
      · simp only [hlt, if_false, hmx]
        by_cases hfar : sn + 1 ≥ m.endSN + 32768
        · simp only [hfar, if_true]
          rw [set_cap]
          refine ⟨⟨?_, ?_, ?_, ?_, Or.inr hc⟩, hc⟩
          · exact hsn.1
          · show sn ≤ sn + 1; omega
          · show sn + 1 ≤ _; omega
          · show sn + 1 - sn ≤ ((m.cap : Nat) : Int)
            have := hc.2.1; omega
        · simp only [hfar, if_false]
          -- the map after `begin` may have been moved
          have key : ∀ m0 : ArrivalMap, CapOK m0.cap → -4611686018427387904 < m0.beginSN → m0.beginSN ≤ sn →
              sn + 1 - m0.beginSN ≤ 32768 →
              MInv (({ (m0.adjustToSize (sn + 1 - m0.beginSN)).setNotReceived
                  (m0.adjustToSize (sn + 1 - m0.beginSN)).endSN sn with endSN := sn + 1 } : ArrivalMap).set sn t) ∧
              CapOK (({ (m0.adjustToSize (sn + 1 - m0.beginSN)).setNotReceived
                  (m0.adjustToSize (sn + 1 - m0.beginSN)).endSN sn with endSN := sn + 1 } : ArrivalMap).set sn t).cap := by
            intro m0 hc0 hb0 hbs hsz0
            obtain ⟨hc1, hn1⟩ := adjust_cap m0 (sn + 1 - m0.beginSN) hc0 hsz0
            have hcp : (({ (m0.adjustToSize (sn + 1 - m0.beginSN)).setNotReceived
                  (m0.adjustToSize (sn + 1 - m0.beginSN)).endSN sn with endSN := sn + 1 } : ArrivalMap).set sn t).cap
                = (m0.adjustToSize (sn + 1 - m0.beginSN)).cap := by
              rw [set_cap]
              show ((m0.adjustToSize (sn + 1 - m0.beginSN)).setNotReceived _ _).cap = _
              rw [setNR_cap]
            have hbg : (({ (m0.adjustToSize (sn + 1 - m0.beginSN)).setNotReceived
                  (m0.adjustToSize (sn + 1 - m0.beginSN)).endSN sn with endSN := sn + 1 } : ArrivalMap).set sn t).beginSN
                = m0.beginSN := adjust_begin m0 _
            have hen : (({ (m0.adjustToSize (sn + 1 - m0.beginSN)).setNotReceived
                  (m0.adjustToSize (sn + 1 - m0.beginSN)).endSN sn with endSN := sn + 1 } : ArrivalMap).set sn t).endSN
                = sn + 1 := rfl
            unfold MInv
            rw [hcp, hbg, hen]
            exact ⟨⟨hb0, by omega, by omega, hn1, Or.inr hc1⟩, hc1⟩
          by_cases hbump : m.beginSN < sn + 1 - 32768
          · simp only [hbump, if_true]
            exact key { m with beginSN := sn + 1 - 32768 } hc (by show _ < sn + 1 - 32768; omega)
              (by show sn + 1 - 32768 ≤ sn; omega) (by show sn + 1 - (sn + 1 - 32768) ≤ 32768; omega)
          · simp only [hbump, if_false]
            exact key m hc hB (by omega) (by omega)

/-! ## RemoveOldPackets -/

/-- the loop of `RemoveOldPackets`, from any intermediate state. -/
theorem remove_loop (checkTo limit : Int) (hck : I64 checkTo) :
    ∀ (n : Nat) (m : ArrivalMap), (m.cap = 0 ∨ P2 m.cap) → (checkTo - m.beginSN).toNat = n → I64 m.beginSN →
      ∀ fuel, n + 1 ≤ fuel →
      loop fuel (fun m => ((decide (m.beginSequenceNumber < checkTo)) && (decide ((twcc_packetArrivalTimeMap_get m m.beginSequenceNumber) ≤ limit)))) (fun m =>
          let m := { m with beginSequenceNumber := (s64 (m.beginSequenceNumber + 1)) }
          m) (conc m)
      = some (conc (ArrivalMap.removeLoop n m checkTo limit)) := by
  intro n
  induction n with
  | zero =>
    intro m hc hn hb fuel hf
    obtain ⟨f, rfl⟩ : ∃ f, fuel = f + 1 := ⟨fuel - 1, by omega⟩
    have eb : (conc m).beginSequenceNumber = m.beginSN := rfl
    have h1 : ¬ (m.beginSN < checkTo) := by omega
    simp [loop, eb, h1, ArrivalMap.removeLoop]
  | succ n ih =>
    intro m hc hn hb fuel hf
    obtain ⟨f, rfl⟩ : ∃ f, fuel = f + 1 := ⟨fuel - 1, by omega⟩
    have eb : (conc m).beginSequenceNumber = m.beginSN := rfl
    have h1 : m.beginSN < checkTo := by omega
    unfold I64 at hck hb
    have h2 : s64 (m.beginSN + 1) = m.beginSN + 1 := s64_id _ (by omega)
    have hget := get_src_eq_model _ _ (rel_conc m) hc m.beginSN
    by_cases h3 : m.get m.beginSN ≤ limit
    · simp only [loop, eb, hget, h1, h3, decide_true, Bool.and_self, if_true, and_self, h2,
        ArrivalMap.removeLoop]
      exact ih { m with beginSN := m.beginSN + 1 } hc (by show (checkTo - (m.beginSN + 1)).toNat = n; omega)
        (by show I64 (m.beginSN + 1); unfold I64; omega) f (by omega)
    · simp [loop, eb, hget, h1, h3, ArrivalMap.removeLoop]

theorem removeLoop_spec (c l : Int) : ∀ (n : Nat) (m : ArrivalMap),
    (ArrivalMap.removeLoop n m c l).buf = m.buf ∧ (ArrivalMap.removeLoop n m c l).endSN = m.endSN ∧
    m.beginSN ≤ (ArrivalMap.removeLoop n m c l).beginSN ∧
    (ArrivalMap.removeLoop n m c l).beginSN ≤ max m.beginSN c := by
  intro n
  induction n with
  | zero => intro m; simp [ArrivalMap.removeLoop]; omega
  | succ n ih =>
    intro m
    unfold ArrivalMap.removeLoop
    split
    · rename_i h
      obtain ⟨a1, a2, a3, a4⟩ := ih { m with beginSN := m.beginSN + 1 }
      refine ⟨a1, a2, ?_, ?_⟩
      · have : m.beginSN + 1 ≤ _ := a3; omega
      · have : _ ≤ max (m.beginSN + 1) c := a4; omega
    · exact ⟨rfl, rfl, by omega, by omega⟩

/-- `RemoveOldPackets`, concrete fuel bound. -/
theorem removeOld_eq (m : ArrivalMap) (hi : MInv m) (sn limit : Int) (hsn : I64 sn) (fuel : Nat)
    (hf : 32770 ≤ fuel) :
    twcc_packetArrivalTimeMap_RemoveOldPackets fuel (conc m) sn limit = some (conc (m.removeOld sn limit)) ∧
      MInv (m.removeOld sn limit) := by
  obtain ⟨hB, hbe, hE, hsz, hcap⟩ := hi
  have hc' : m.cap = 0 ∨ P2 m.cap := hcap.imp id CapOK.p2
  have h32 : (m.cap : Int) ≤ 32768 := by
    rcases hcap with h | h
    · omega
    · have := h.2.2; omega
  have ee : (conc m).endSequenceNumber = m.endSN := rfl
  simp only [twcc_packetArrivalTimeMap_RemoveOldPackets, ArrivalMap.removeOld, ee]
  have hl := remove_loop (min sn m.endSN) limit (by unfold I64 at *; omega) (min sn m.endSN - m.beginSN).toNat m hc' rfl
    (by unfold I64; omega) fuel (by omega)
  obtain ⟨s1, s2, s3, s4⟩ := removeLoop_spec (min sn m.endSN) limit (min sn m.endSN - m.beginSN).toNat m
  generalize ArrivalMap.removeLoop (min sn m.endSN - m.beginSN).toNat m (min sn m.endSN) limit = r at *
  have hcr : r.cap = m.cap := by unfold ArrivalMap.cap; rw [s1]
  have e1 : (conc r).endSequenceNumber = r.endSN := rfl
  have e2 : (conc r).beginSequenceNumber = r.beginSN := rfl
  have e3 : s64 (r.endSN - r.beginSN) = r.endSN - r.beginSN := s64_id _ (by omega)
  have hadj := adjust_eq r (r.endSN - r.beginSN)
    (by rw [hcr]
        rcases hcap with h | h
        · exact Or.inl ⟨h, by omega⟩
        · exact Or.inr h.p2)
    (by unfold SizeOK; omega) (by unfold I64; omega) (by unfold I64; omega) fuel (by omega) (by omega)
  simp only [hl, e1, e2, e3, hadj]
  refine ⟨trivial, ?_⟩
  unfold MInv
  rw [adjust_begin, adjust_end]
  rcases hcap with h | h
  · rw [adjust_zero r _ (by rw [hcr]; exact h) (by omega), hcr]
    exact ⟨by omega, by omega, by omega, by omega, Or.inl h⟩
  · obtain ⟨hc1, hn1⟩ := adjust_cap r (r.endSN - r.beginSN) (by rw [hcr]; exact h) (by omega)
    exact ⟨by omega, by omega, by omega, hn1, Or.inr hc1⟩

/-! ## FindNextAtOrAfter -/

/-- the Go result triple `(seq, time, ok)` of a model result. -/
def findRes : Option (Int × Int) → Int × Int × Bool
  | some (s, t) => (s, t, true)
  | none => (-1, -1, false)

/-- the loop of `FindNextAtOrAfter`, from any intermediate sequence number. -/
theorem find_loop (m : ArrivalMap) (hc : m.cap = 0 ∨ P2 m.cap) (hE : I64 m.endSN) :
    ∀ (n : Nat) (seq : Int), (m.endSN - seq).toNat = n → I64 seq →
      ∀ fuel, n + 2 ≤ fuel →
      ∃ seq', loop fuel (fun ((__ret, seq) : Option (Int × Int × Bool) × Int) => (__ret.isNone && (decide (seq < (conc m).endSequenceNumber))))
        (fun ((__ret, seq) : Option (Int × Int × Bool) × Int) =>
          let arrivalTime := (twcc_packetArrivalTimeMap_get (conc m) seq)
          if (decide (arrivalTime ≥ 0)) then
            let __ret : Option ((Int × Int × Bool)) := some (seq, arrivalTime, true)
            (__ret, seq)
          else
            let seq := (s64 (seq + 1))
            (__ret, seq))
        (none, seq)
      = some ((ArrivalMap.findLoop m n seq).map (fun p => (p.1, p.2, true)), seq') := by
  have ee : (conc m).endSequenceNumber = m.endSN := rfl
  rw [ee]
  intro n
  induction n with
  | zero =>
    intro seq hn hs fuel hf
    obtain ⟨f, rfl⟩ : ∃ f, fuel = f + 1 := ⟨fuel - 1, by omega⟩
    have h1 : ¬ (seq < m.endSN) := by omega
    exact ⟨seq, by simp [loop, h1, ArrivalMap.findLoop]⟩
  | succ n ih =>
    intro seq hn hs fuel hf
    obtain ⟨f, rfl⟩ : ∃ f, fuel = f + 1 := ⟨fuel - 1, by omega⟩
    have h1 : seq < m.endSN := by omega
    unfold I64 at hE hs
    have h2 : s64 (seq + 1) = seq + 1 := s64_id _ (by omega)
    have hget := get_src_eq_model _ _ (rel_conc m) hc seq
    by_cases h3 : m.get seq ≥ 0
    · obtain ⟨f', rfl⟩ : ∃ f', f = f' + 1 := ⟨f - 1, by omega⟩
      exact ⟨seq, by simp [loop, h1, h3, hget, ArrivalMap.findLoop]⟩
    · obtain ⟨seq', hl⟩ := ih (seq + 1) (by omega) (by unfold I64; omega) f (by omega)
      refine ⟨seq', ?_⟩
      simp only [loop, h1, h3, hget, h2, decide_true, decide_false, Option.isNone_none, Bool.and_self, if_true,
        if_false, Bool.false_eq_true, ArrivalMap.findLoop]
      exact hl

/-- `FindNextAtOrAfter`, concrete fuel bound. -/
theorem findNext_eq (m : ArrivalMap) (hc : m.cap = 0 ∨ P2 m.cap) (hB : I64 m.beginSN) (hE : I64 m.endSN)
    (sn : Int) (hsn : I64 sn) (fuel : Nat) (hf : (m.endSN - m.clamp sn).toNat + 2 ≤ fuel) :
    twcc_packetArrivalTimeMap_FindNextAtOrAfter fuel (conc m) sn = some (findRes (m.findNext sn)) := by
  have hcl := FnTwcc.clamp_src_eq_model (conc m) m rfl rfl sn
  have hcI : I64 (m.clamp sn) := by
    unfold ArrivalMap.clamp; split
    · exact hB
    · split
      · exact hE
      · exact hsn
  obtain ⟨seq', hl⟩ := find_loop m hc hE (m.endSN - m.clamp sn).toNat (m.clamp sn) rfl hcI fuel hf
  simp only [twcc_packetArrivalTimeMap_FindNextAtOrAfter, ArrivalMap.findNext, hcl, hl]
  cases ArrivalMap.findLoop m (m.endSN - m.clamp sn).toNat (m.clamp sn) with
  | none => rfl
  | some p => rfl

/-! ## EraseTo (the model has no counterpart: the Recorder never calls it; the obvious one is defined here) -/

/-- model of `EraseTo`, transcribed branch by branch. -/
def eraseTo (m : ArrivalMap) (sn : Int) : ArrivalMap :=
  if sn < m.beginSN then m
  else if sn ≥ m.endSN then { m with beginSN := m.endSN }
  else ({ m with beginSN := sn } : ArrivalMap).adjustToSize (m.endSN - sn)

/-- `EraseTo`, concrete fuel bound, and the invariant is preserved. -/
theorem eraseTo_eq (m : ArrivalMap) (hi : MInv m) (sn : Int) (fuel : Nat) (hf : 32770 ≤ fuel) :
    twcc_packetArrivalTimeMap_EraseTo fuel (conc m) sn = some (conc (eraseTo m sn)) ∧ MInv (eraseTo m sn) := by
  obtain ⟨hB, hbe, hE, hsz, hcap⟩ := hi
  have h32 : (m.cap : Int) ≤ 32768 := by
    rcases hcap with h | h
    · omega
    · have := h.2.2; omega
  have eb : (conc m).beginSequenceNumber = m.beginSN := rfl
  have ee : (conc m).endSequenceNumber = m.endSN := rfl
  simp only [twcc_packetArrivalTimeMap_EraseTo, eraseTo, eb, ee]
  by_cases h1 : sn < m.beginSN
  · simp only [h1, decide_true, if_true]
    exact ⟨trivial, hB, hbe, hE, hsz, hcap⟩
  · simp only [h1, decide_false, if_false, Bool.false_eq_true]
    by_cases h2 : sn ≥ m.endSN
    · simp only [h2, decide_true, if_true]
      refine ⟨rfl, ?_⟩
      unfold MInv
      exact ⟨by show _ < m.endSN; omega, by show m.endSN ≤ m.endSN; omega, hE,
        by show m.endSN - m.endSN ≤ ((m.cap : Nat) : Int); omega, hcap⟩
    · simp only [h2, decide_false, if_false, Bool.false_eq_true]
      have hc : CapOK m.cap := by
        rcases hcap with h | h
        · rw [h] at hsz; omega
        · exact h
      have e3 : s64 (m.endSN - sn) = m.endSN - sn := s64_id _ (by omega)
      have hadj := adjust_eq ({ m with beginSN := sn } : ArrivalMap) (m.endSN - sn) (Or.inr hc.p2)
        (by unfold SizeOK; omega) (by show I64 sn; unfold I64; omega) (by show I64 m.endSN; unfold I64; omega) fuel
        (by omega) (by show (m.endSN - sn).toNat + 1 ≤ fuel; omega)
      have hadj' : twcc_packetArrivalTimeMap_adjustToSize fuel
          { arrivalTimes := (conc m).arrivalTimes, beginSequenceNumber := sn, endSequenceNumber := m.endSN }
          (m.endSN - sn) = _ := hadj
      simp only [e3, hadj']
      refine ⟨trivial, ?_⟩
      obtain ⟨hc1, hn1⟩ := adjust_cap ({ m with beginSN := sn } : ArrivalMap) (m.endSN - sn) hc (by omega)
      unfold MInv
      rw [adjust_begin, adjust_end]
      exact ⟨by show _ < sn; omega, by show sn ≤ m.endSN; omega, hE, hn1, Or.inr hc1⟩

/-! ## the property-level statements: for every related pair of states -/

/-- under the invariant the capacity is 0 or a power of two (what `index`/`get` need). -/
theorem Rel.cap_ok {g : S_twcc_packetArrivalTimeMap} {m : ArrivalMap} (h : Rel g m) (hi : Inv g) :
    m.cap = 0 ∨ P2 m.cap := by
  have := (h.inv.1 hi).2.2.2.2
  exact this.imp id CapOK.p2

/-- ★ `reallocate` as written in the source terminates and equals the model's.  The Go code needs the old
capacity to be 0 or a power of two and the new one a power of two (≤ 2^62); begin/end are any int64. -/
theorem reallocate_src_eq_model (g : S_twcc_packetArrivalTimeMap) (m : ArrivalMap) (h : Rel g m)
    (hc : m.cap = 0 ∨ P2 m.cap) (c : Nat) (hcn : P2 c) (hB : I64 m.beginSN) (hE : I64 m.endSN) :
    ∃ n, ∀ fuel, n ≤ fuel → ∃ g', twcc_packetArrivalTimeMap_reallocate fuel g (c : Int) = some g' ∧
      Rel g' (m.reallocate c) :=
  ⟨(m.endSN - m.beginSN).toNat + 1, fun fuel hf =>
    ⟨_, reallocate_eq g m h hc c hcn hB hE fuel hf, rel_conc _⟩⟩

/-- ★ `reallocate` to an allowed capacity that holds the window preserves the invariant. -/
theorem reallocate_preserves_inv (g g' : S_twcc_packetArrivalTimeMap) (m : ArrivalMap) (h : Rel g m)
    (hi : Inv g) (c : Nat) (hc : CapOK c) (hsz : m.endSN - m.beginSN ≤ (c : Int))
    (h' : Rel g' (m.reallocate c)) : Inv g' := by
  obtain ⟨hB, hbe, hE, _, _⟩ := h.inv.1 hi
  rw [h'.inv]
  unfold MInv
  rw [reallocate_cap]
  exact ⟨hB, hbe, hE, hsz, Or.inr hc⟩

/-- ★ `setNotReceived` preserves the invariant (it only overwrites slots). -/
theorem setNotReceived_preserves_inv (g g' : S_twcc_packetArrivalTimeMap) (m : ArrivalMap) (h : Rel g m)
    (hi : Inv g) (s e : Int) (h' : Rel g' (m.setNotReceived s e)) : Inv g' := by
  have := h.inv.1 hi
  rw [h'.inv]
  unfold MInv at this ⊢
  rw [setNR_cap]
  exact this

/-- ★ `adjustToSize` as written in the source terminates (both capacity loops and both copies) and equals
the model's (whose loops have fuel 64).  The Go code needs a power-of-two capacity (or capacity 0 with
nothing to hold: doubling 0 never terminates) and `|newSize| ≤ 2^60` (no overflow of `newSize*4`). -/
theorem adjustToSize_src_eq_model (g : S_twcc_packetArrivalTimeMap) (m : ArrivalMap) (h : Rel g m) (n : Int)
    (hc : (m.cap = 0 ∧ n ≤ 0) ∨ P2 m.cap) (hn : SizeOK n) (hB : I64 m.beginSN) (hE : I64 m.endSN) :
    ∃ N, ∀ fuel, N ≤ fuel → ∃ g', twcc_packetArrivalTimeMap_adjustToSize fuel g n = some g' ∧
      Rel g' (m.adjustToSize n) := by
  obtain rfl := h.eq
  exact ⟨65 + (m.endSN - m.beginSN).toNat + 1, fun fuel hf =>
    ⟨_, adjust_eq m n hc hn hB hE fuel (by omega) (by omega), rel_conc _⟩⟩

/-- ★ `adjustToSize n` with `end − begin ≤ n ≤ 32768` preserves the invariant, and the capacity becomes ≥ n
when it was not 0. -/
theorem adjustToSize_preserves_inv (g g' : S_twcc_packetArrivalTimeMap) (m : ArrivalMap) (h : Rel g m)
    (hi : Inv g) (n : Int) (h1 : m.endSN - m.beginSN ≤ n) (h2 : n ≤ 32768) (h0 : m.cap = 0 → n ≤ 0)
    (h' : Rel g' (m.adjustToSize n)) : Inv g' ∧ (m.cap ≠ 0 → n ≤ ((m.adjustToSize n).cap : Int)) := by
  obtain ⟨hB, hbe, hE, hsz, hcap⟩ := h.inv.1 hi
  rw [h'.inv]
  unfold MInv
  rw [adjust_begin, adjust_end]
  rcases hcap with hz | hc
  · rw [adjust_zero m n hz (h0 hz)]
    exact ⟨⟨hB, hbe, hE, hsz, Or.inl hz⟩, fun hne => absurd hz hne⟩
  · obtain ⟨hc1, hn1⟩ := adjust_cap m n hc h2
    exact ⟨⟨hB, hbe, hE, by omega, Or.inr hc1⟩, fun _ => hn1⟩

/-- ★ `AddPacket` as written in the source terminates (fuel 32770 suffices for all its loops) and equals the
model's `addPacket`, for every state satisfying the invariant and every `|sn| < 2^62`, every `t`; the
invariant is preserved and afterwards the capacity is a power of two in [128, 32768] (so the first
`AddPacket` establishes the power-of-two capacity). -/
theorem addPacket_src_eq_model (g : S_twcc_packetArrivalTimeMap) (m : ArrivalMap) (h : Rel g m) (hi : Inv g)
    (sn t : Int) (hsn : -4611686018427387904 < sn ∧ sn < 4611686018427387904) :
    ∃ n, ∀ fuel, n ≤ fuel → ∃ g', twcc_packetArrivalTimeMap_AddPacket fuel g sn t = some g' ∧
      Rel g' (m.addPacket sn t) ∧ Inv g' ∧ CapOK g'.arrivalTimes.length := by
  obtain rfl := h.eq
  obtain ⟨i1, i2⟩ := addPacket_inv m hi sn t hsn
  exact ⟨32770, fun fuel hf => ⟨_, addPacket_eq m hi sn t hsn fuel hf, rel_conc _, i1, by
    simpa [conc, ArrivalMap.cap] using i2⟩⟩

/-- ★ `RemoveOldPackets` as written in the source terminates and equals the model's `removeOld`, for every
state satisfying the invariant, every int64 `sn` and `limit`; the invariant is preserved. -/
theorem removeOldPackets_src_eq_model (g : S_twcc_packetArrivalTimeMap) (m : ArrivalMap) (h : Rel g m)
    (hi : Inv g) (sn limit : Int) (hsn : I64 sn) :
    ∃ n, ∀ fuel, n ≤ fuel → ∃ g', twcc_packetArrivalTimeMap_RemoveOldPackets fuel g sn limit = some g' ∧
      Rel g' (m.removeOld sn limit) ∧ Inv g' := by
  obtain rfl := h.eq
  have hm := (inv_conc m).1 hi
  exact ⟨32770, fun fuel hf => ⟨_, (removeOld_eq m hm sn limit hsn fuel hf).1, rel_conc _,
    (inv_conc _).2 (removeOld_eq m hm sn limit hsn fuel hf).2⟩⟩

/-- ★ `FindNextAtOrAfter` as written in the source terminates and returns the model's `findNext`
(`none` ↔ `(-1, -1, false)`), for every int64 `sn`; needs only a capacity that is 0 or a power of two and
begin/end in int64 range. -/
theorem findNextAtOrAfter_src_eq_model (g : S_twcc_packetArrivalTimeMap) (m : ArrivalMap) (h : Rel g m)
    (hc : m.cap = 0 ∨ P2 m.cap) (hB : I64 m.beginSN) (hE : I64 m.endSN) (sn : Int) (hsn : I64 sn) :
    ∃ n, ∀ fuel, n ≤ fuel →
      twcc_packetArrivalTimeMap_FindNextAtOrAfter fuel g sn = some (findRes (m.findNext sn)) := by
  obtain rfl := h.eq
  exact ⟨(m.endSN - m.clamp sn).toNat + 2, fun fuel hf => findNext_eq m hc hB hE sn hsn fuel hf⟩

/-- ★ `EraseTo` as written in the source terminates and equals `eraseTo` (defined above: Model/Twcc.lean has
no counterpart), for every state satisfying the invariant and every `sn`; the invariant is preserved. -/
theorem eraseTo_src_eq_model (g : S_twcc_packetArrivalTimeMap) (m : ArrivalMap) (h : Rel g m) (hi : Inv g)
    (sn : Int) :
    ∃ n, ∀ fuel, n ≤ fuel → ∃ g', twcc_packetArrivalTimeMap_EraseTo fuel g sn = some g' ∧
      Rel g' (eraseTo m sn) ∧ Inv g' := by
  obtain rfl := h.eq
  have hm := (inv_conc m).1 hi
  exact ⟨32770, fun fuel hf => ⟨_, (eraseTo_eq m hm sn fuel hf).1, rel_conc _,
    (inv_conc _).2 (eraseTo_eq m hm sn fuel hf).2⟩⟩

/-! ## the hypotheses are satisfiable: a concrete non-trivial state -/

/-- window [-3, 2) in a 128-slot buffer: packets -3 and 1 received, -2..0 marked "not received";
slot of -3 is 125 (negative sequence number). -/
def mEx : ArrivalMap := (({} : ArrivalMap).addPacket (-3) 1000).addPacket 1 2000

theorem mEx_inv : Inv (conc mEx) ∧ CapOK mEx.cap :=
  addPacket_inv _ (addPacket_inv ({} : ArrivalMap) inv_init.1 (-3) 1000 (by omega)).1 1 2000 (by omega)

theorem mEx_p2 : P2 mEx.cap := mEx_inv.2.p2
theorem mEx_b : I64 mEx.beginSN := by
  have := ((inv_conc _).1 mEx_inv.1); unfold MInv at this; unfold I64; omega
theorem mEx_e : I64 mEx.endSN := by
  have := ((inv_conc _).1 mEx_inv.1); unfold MInv at this; unfold I64; omega

example := band_mask (-3) 7
example := capacity_src_eq_model (conc mEx) mEx (rel_conc _)
example := index_src_eq_model (conc mEx) mEx (rel_conc _) mEx_p2 (-3)
example := index_in_bounds (conc mEx) mEx (rel_conc _) mEx_p2 (-3)
example := get_src_eq_model (conc mEx) mEx (rel_conc _) (Or.inr mEx_p2) (-3)
example := hasReceived_src_eq_model (conc mEx) mEx (rel_conc _) (Or.inr mEx_p2) (-2)
example := setNotReceived_src_eq_model (conc mEx) mEx (rel_conc _) mEx_p2 (-10) (-3) (by unfold I64; omega)
  (by unfold I64; omega)
example := reallocate_src_eq_model (conc mEx) mEx (rel_conc _) (Or.inr mEx_p2) 256 ⟨⟨8, rfl⟩, by omega⟩ mEx_b mEx_e
example := fun g' => reallocate_preserves_inv (conc mEx) g' mEx (rel_conc _) mEx_inv.1 32768
  ⟨⟨15, rfl⟩, by omega, by omega⟩
  (by have := ((inv_conc _).1 mEx_inv.1); unfold MInv at this; have := mEx_inv.2.2.2; omega)
example := fun g' => setNotReceived_preserves_inv (conc mEx) g' mEx (rel_conc _) mEx_inv.1 (-10) (-3)
example := adjustToSize_src_eq_model (conc mEx) mEx (rel_conc _) 1000 (Or.inr mEx_p2) (by unfold SizeOK; omega)
  mEx_b mEx_e
example := fun g' => adjustToSize_preserves_inv (conc mEx) g' mEx (rel_conc _) mEx_inv.1 32768
  (by have := ((inv_conc _).1 mEx_inv.1); unfold MInv at this; have := mEx_inv.2.2.2; omega) (by omega)
  (fun h => by have := mEx_inv.2.2.1; omega)
example := addPacket_src_eq_model (conc mEx) mEx (rel_conc _) mEx_inv.1 (-40) 3000 (by omega)
example := addPacket_src_eq_model {} {} inv_init.2 inv_init.1 (-40) 3000 (by omega)
example := removeOldPackets_src_eq_model (conc mEx) mEx (rel_conc _) mEx_inv.1 0 1500 (by unfold I64; omega)
example := findNextAtOrAfter_src_eq_model (conc mEx) mEx (rel_conc _) (Or.inr mEx_p2) mEx_b mEx_e (-2)
  (by unfold I64; omega)
example := eraseTo_src_eq_model (conc mEx) mEx (rel_conc _) mEx_inv.1 0

end Interceptor.Facts.FnTwccMap

/-
Generated translations of pkg/twcc/twcc.go (chunk.canAdd, chunk.add, feedback.setBase) and of
arrival_time_map.go (Clamp) equal the hand-written model Model/Twcc.lean on the abstraction.
-/
import Interceptor.Gen.Fn_twcc
import Interceptor.Model.Twcc
namespace Interceptor.Facts.FnTwcc
open Interceptor.Gen.Fn Interceptor.GoSem Interceptor.Twcc

/-- the Go status symbol of a model symbol. -/
def code (s : Sym) : Int := (s.code : Int)

theorem code_inj (a b : Sym) : code a = code b ↔ a = b := by
  cases a <;> cases b <;> simp [code, Sym.code]

/-- abstraction: the Go chunk represents the model chunk state. -/
def chunkRel (c : S_twcc_chunk) (m : ChunkSt) : Prop :=
  c.hasLargeDelta = m.hasLarge ∧ c.hasDifferentTypes = m.hasDiff ∧ c.deltas = m.deltas.toList.map code

theorem idx0 (m : ChunkSt) : idx (m.deltas.toList.map code) 0 = (if m.deltas.size = 0 then 0 else code m.first) := by
  unfold idx ChunkSt.first
  rcases m with ⟨hl, hd, ⟨ds⟩⟩
  cases ds <;> simp [code, Sym.code]

/-- ★ `chunk.canAdd` as written in the source equals the model's. -/
theorem canAdd_src_eq_model (c : S_twcc_chunk) (m : ChunkSt) (h : chunkRel c m) (d : Sym) :
    twcc_chunk_canAdd c (code d) = m.canAdd d := by
  obtain ⟨h1, h2, h3⟩ := h
  unfold twcc_chunk_canAdd ChunkSt.canAdd maxTwoBitCap maxOneBitCap maxRunLengthCap
  have hlen : len c.deltas = (m.deltas.size : Int) := by rw [h3]; simp [len]
  have hlarge : (code d ≠ 2) ↔ d ≠ .large := by
    have := code_inj d .large; simp [code, Sym.code] at this ⊢; exact not_congr this
  rw [hlen, h1, h2, h3, idx0]
  by_cases a1 : m.deltas.size < 7
  · have : ((m.deltas.size : Int) < 7) := by omega
    simp [a1, this]
  · have n1 : ¬ ((m.deltas.size : Int) < 7) := by omega
    have n0 : m.deltas.size ≠ 0 := by omega
    simp only [a1, n1, n0, decide_false, Bool.false_eq_true, if_false]
    have e14 : ((m.deltas.size : Int) < 14) ↔ m.deltas.size < 14 := by omega
    have e8191 : ((m.deltas.size : Int) < 8191) ↔ m.deltas.size < 8191 := by omega
    have efirst : (code d = code m.first) ↔ d = m.first := code_inj _ _
    simp only [e14, e8191, hlarge, efirst]
    cases m.hasLarge <;> cases m.hasDiff <;> simp <;> (repeat' split) <;> simp_all

/-- ★ `chunk.add` as written in the source equals the model's. -/
theorem add_src_eq_model (c : S_twcc_chunk) (m : ChunkSt) (h : chunkRel c m) (d : Sym) :
    chunkRel (twcc_chunk_add c (code d)) (m.add d) := by
  obtain ⟨h1, h2, h3⟩ := h
  unfold twcc_chunk_add ChunkSt.add chunkRel
  have hlarge : (code d = 2) ↔ d = .large := by
    have := code_inj d .large; simpa [code, Sym.code] using this
  refine ⟨?_, ?_, ?_⟩
  · simp [h1, hlarge]
  · simp only [h2, h3]
    congr 1
    rcases m with ⟨hl, hd, ⟨ds⟩⟩
    cases ds with
    | nil => simp [idx]
    | cons x xs => simp [idx, code_inj]
  · simp [h3]

/-- ★ `feedback.setBase` as written in the source equals the model's (for `|timeUS| < 2^62`). -/
theorem setBase_src_eq_model (f : S_twcc_feedback) (m : Feedback) (seq : Nat) (t : Int)
    (ht : -4611686018427387904 ≤ t ∧ t ≤ 4611686018427387904) :
    let f' := twcc_feedback_setBase f seq t
    let m' := m.setBase seq t
    f'.baseSequenceNumber = m'.base ∧ f'.nextSequenceNumber = m'.nextSeq ∧
    f'.refTimestamp64MS = m'.ref64 ∧ f'.lastTimestampUS = m'.lastUS := by
  have hq : -4611686018427387904 ≤ Int.tdiv t 64000 ∧ Int.tdiv t 64000 ≤ 4611686018427387904 ∧
      -4611686018427387904 ≤ Int.tdiv t 64000 * 64000 ∧ Int.tdiv t 64000 * 64000 ≤ 4611686018427387904 := by
    by_cases h0 : 0 ≤ t
    · rw [Int.tdiv_eq_ediv_of_nonneg h0]; omega
    · have e : Int.tdiv t 64000 = -((-t) / 64000) := by
        have := Int.neg_tdiv (a := -t) (b := 64000)
        rw [Int.neg_neg] at this
        rw [this, Int.tdiv_eq_ediv_of_nonneg (by omega)]
      rw [e]; omega
  simp only [twcc_feedback_setBase, Feedback.setBase, quo]
  have e1 : s64 (Int.tdiv t 64000) = Int.tdiv t 64000 := by unfold s64; omega
  have e2 : s64 (Int.tdiv t 64000 * 64000) = Int.tdiv t 64000 * 64000 := by unfold s64; omega
  simp [e1, e2]

/-- ★ `Clamp` as written in the source equals the model's. -/
theorem clamp_src_eq_model (g : S_twcc_packetArrivalTimeMap) (m : ArrivalMap)
    (hb : g.beginSequenceNumber = m.beginSN) (he : g.endSequenceNumber = m.endSN) (sn : Int) :
    twcc_packetArrivalTimeMap_Clamp g sn = m.clamp sn := by
  unfold twcc_packetArrivalTimeMap_Clamp ArrivalMap.clamp
  rw [hb, he]
  split <;> simp_all <;> omega

/-- ★ `chunk.reset` as written in the source yields the model's empty chunk state (the `{}` that `encode` leaves behind). -/
theorem reset_src_eq_model (c : S_twcc_chunk) : chunkRel (twcc_chunk_reset c) {} := by
  simp [twcc_chunk_reset, chunkRel]

/-- ★ `BeginSequenceNumber` / `EndSequenceNumber` as written in the source return the model's window bounds. -/
theorem bounds_src_eq_model (g : S_twcc_packetArrivalTimeMap) (m : ArrivalMap)
    (hb : g.beginSequenceNumber = m.beginSN) (he : g.endSequenceNumber = m.endSN) :
    twcc_packetArrivalTimeMap_BeginSequenceNumber g = m.beginSN ∧
    twcc_packetArrivalTimeMap_EndSequenceNumber g = m.endSN := by
  simp [twcc_packetArrivalTimeMap_BeginSequenceNumber, twcc_packetArrivalTimeMap_EndSequenceNumber, hb, he]

end Interceptor.Facts.FnTwcc

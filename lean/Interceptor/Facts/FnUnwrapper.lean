/-
The generated translation of internal/sequencenumber/unwrapper.go (Gen/FnDefs.lean, regenerated from
/repo on every run) computes exactly the hand-written model Model/Unwrapper.lean that the C20, C05,
C08 and C19 theorems are about — for every 16-bit input and every state whose last result is within
±2^62 (int64 overflow needs more than 2^46 sequence-number cycles).
-/
import Interceptor.Gen.Fn_sequencenumber
import Interceptor.Model.Unwrapper
namespace Interceptor.Facts.FnUnwrapper
open Interceptor.Gen.Fn Interceptor.GoSem

/-- abstraction of the Go struct to the model state. -/
def absU (u : S_sequencenumber_Unwrapper) : Unwrapper.State :=
  if u.init then some u.lastUnwrapped else none

/-- ★ `isNewer` as written in the source equals the model's. -/
theorem isNewer_src_eq_model (v p : Nat) (hv : v < 65536) (hp : p < 65536) :
    sequencenumber_isNewer v p = Unwrapper.isNewer v p := by
  unfold sequencenumber_isNewer Unwrapper.isNewer u16
  have key : ((v + 65536 - p) % 65536 : Nat) = (((v : Int) - p) % 65536).toNat := by omega
  simp only [key]
  have hr : 0 ≤ ((v : Int) - p) % 65536 ∧ ((v : Int) - p) % 65536 < 65536 := by omega
  generalize ((v : Int) - p) % 65536 = e at hr
  by_cases h1 : e = 32768
  · have : e.toNat = 32768 := by omega
    simp [h1]
  · have : e.toNat ≠ 32768 := by omega
    simp only [h1, this, decide_false, if_false, Bool.false_eq_true]
    congr 1
    · simp; omega
    · have : (e.toNat < 32768) ↔ (e < 32768) := by omega
      simp [this]

theorem s64_id (x : Int) (h : -9223372036854775808 ≤ x ∧ x < 9223372036854775808) : s64 x = x := by
  unfold s64; omega

/-- ★ `Unwrap` as written in the source equals the model's step, on the abstraction. -/
theorem unwrap_src_eq_model (u : S_sequencenumber_Unwrapper) (i : Nat) (hi : i < 65536)
    (hb : -4611686018427387904 ≤ u.lastUnwrapped ∧ u.lastUnwrapped ≤ 4611686018427387904) :
    let r := sequencenumber_Unwrapper_Unwrap u i
    (absU r.2, r.1) = Unwrapper.unwrap (absU u) i := by
  obtain ⟨ini, last⟩ := u
  simp only at hb
  cases ini
  · simp [sequencenumber_Unwrapper_Unwrap, absU, Unwrapper.unwrap]
  · have hlw : 0 ≤ last % 65536 ∧ last % 65536 < 65536 := by omega
    have hnew := isNewer_src_eq_model i (last % 65536).toNat hi (by omega)
    have hcast : (((last % 65536).toNat : Nat) : Int) = last % 65536 := by omega
    rw [hcast] at hnew
    -- the model's delta, as an integer
    have hdm : (((i + 65536 - (last % 65536).toNat) % 65536 : Nat) : Int) = ((i : Int) - last % 65536) % 65536 := by
      omega
    have hd : 0 ≤ ((i : Int) - last % 65536) % 65536 ∧ ((i : Int) - last % 65536) % 65536 < 65536 := by omega
    simp only [sequencenumber_Unwrapper_Unwrap, absU, Unwrapper.unwrap, Unwrapper.step, u16, hnew, hdm,
      Bool.not_true, Bool.false_eq_true, if_false, if_true]
    have e1 : s64 (last + ((i : Int) - last % 65536) % 65536) = last + ((i : Int) - last % 65536) % 65536 :=
      s64_id _ (by omega)
    have e2 : s64 (((i : Int) - last % 65536) % 65536 - 65536) = ((i : Int) - last % 65536) % 65536 - 65536 :=
      s64_id _ (by omega)
    have e3 : s64 (last + ((i : Int) - last % 65536) % 65536 - 65536) = last + ((i : Int) - last % 65536) % 65536 - 65536 :=
      s64_id _ (by omega)
    have e4 : s64 (last + (((i : Int) - last % 65536) % 65536 - 65536)) = last + (((i : Int) - last % 65536) % 65536 - 65536) :=
      s64_id _ (by omega)
    simp only [e1, e2, e3, e4]
    cases Unwrapper.isNewer i (last % 65536).toNat
    · simp only [Bool.false_eq_true, if_false]
      split <;> rename_i h <;> simp at h ⊢ <;> (try split) <;> simp_all <;> omega
    · have hn2 : ¬ (((i : Int) - last) % 65536 < 0) := by omega
      simp [hn2]

end Interceptor.Facts.FnUnwrapper

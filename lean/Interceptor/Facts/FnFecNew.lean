/-
Generated translations (Gen/Fn_flexfec.lean, regenerated from /repo on every run) of the encoder constructors
`NewFlexEncoder03` / `NewFlexEncoder` (pkg/flexfec) against `Encoder.new` of Model/FlexFec.lean: payload type and
SSRC as given, the repair sequence number starts at 1000 (the coverage is a pointer field, nil = the model's `none`,
outside the translated part).
-/
import Interceptor.Gen.Fn_flexfec
import Interceptor.Model.FlexFec
namespace Interceptor.Facts.FnFecNew
open Interceptor.Gen.Fn Interceptor.GoSem Interceptor

/-- ★ `NewFlexEncoder03` as written in the source is the model's `Encoder.new` on the translated fields. -/
theorem newFlexEncoder03_src_eq_model (pt ssrc : Nat) :
    let g := flexfec_NewFlexEncoder03 (pt : Int) (ssrc : Int)
    let m := FlexFec.Encoder.new pt ssrc
    g.payloadType = (m.pt : Int) ∧ g.ssrc = (m.ssrc : Int) ∧ g.fecBaseSn = (m.fecSn : Int) := ⟨rfl, rfl, rfl⟩

/-- ★ the draft-20 constructor starts from the same numbers. -/
theorem newFlexEncoder_src_eq_model (pt ssrc : Nat) :
    let g := flexfec_NewFlexEncoder (pt : Int) (ssrc : Int)
    let m := FlexFec.Encoder.new pt ssrc
    g.payloadType = (m.pt : Int) ∧ g.ssrc = (m.ssrc : Int) ∧ g.fecBaseSn = (m.fecSn : Int) := ⟨rfl, rfl, rfl⟩

end Interceptor.Facts.FnFecNew

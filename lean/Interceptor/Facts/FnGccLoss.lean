/-
Generated translation (Gen/Fn_gcc.lean, regenerated from /repo on every run) of
`lossBasedBandwidthEstimator.getEstimate` (pkg/gcc/loss_based_bwe.go) against `Gcc.lossEstimate` of
Model/Gcc.lean — the function whose result `onDelayUpdate` combines with the delay target, and whose reset
branch (`bitrate ≤ 0`) is where F-20 (target below the configured minimum) came from.  The model fixes the
loss controller's own bounds to the constants the constructor passes (`lossMin`, `lossMax`); the theorem
is for every estimator whose `minBitrate`/`maxBitrate` fields hold those constants, every stored bitrate and
every wanted rate.  Consequences used by C16: the new bitrate never exceeds the wanted rate, and it is
positive whenever the wanted rate is.
-/
import Interceptor.Gen.Fn_gcc
import Interceptor.Model.Gcc
import Interceptor.Facts.FnGcc
namespace Interceptor.Facts.FnGccLoss
open Interceptor.Gen.Fn Interceptor.GoSem Interceptor

/-! ## gcc: lossBasedBandwidthEstimator.getEstimate -/

/-- the estimator's own bounds are the constants `newLossBasedBWE` is given (100 kbit/s, 100 Mbit/s). -/
def LossCfg (e : S_gcc_lossBasedBandwidthEstimator) : Prop :=
  e.minBitrate = Gcc.lossMin ∧ e.maxBitrate = Gcc.lossMax

/-- ★ `getEstimate` as written in the source stores and reports the model's `lossEstimate`, for every
stored bitrate and every wanted rate; the average loss is passed through and no other field changes. -/
theorem getEstimate_src_eq_model (e : S_gcc_lossBasedBandwidthEstimator) (h : LossCfg e) (wanted : Int) :
    let r := gcc_lossBasedBandwidthEstimator_getEstimate e wanted
    r.2 = { e with bitrate := Gcc.lossEstimate e.bitrate wanted } ∧
    r.1 = { TargetBitrate := Gcc.lossEstimate e.bitrate wanted, AverageLoss := e.averageLoss } := by
  obtain ⟨hmin, hmax⟩ := h
  simp only [gcc_lossBasedBandwidthEstimator_getEstimate, Gcc.lossEstimate,
    FnGcc.clampInt_src_eq_model, hmin, hmax]
  by_cases hb : e.bitrate ≤ 0 <;> simp [hb]

/-- the configuration is preserved, so the step theorem chains over any sequence of calls. -/
theorem getEstimate_cfg (e : S_gcc_lossBasedBandwidthEstimator) (h : LossCfg e) (wanted : Int) :
    LossCfg (gcc_lossBasedBandwidthEstimator_getEstimate e wanted).2 := by
  rw [(getEstimate_src_eq_model e h wanted).1]; exact h

/-- ★ the loss target never exceeds the wanted (delay-based) rate — whatever the bounds stored in the struct. -/
theorem getEstimate_le_wanted (e : S_gcc_lossBasedBandwidthEstimator) (wanted : Int) :
    (gcc_lossBasedBandwidthEstimator_getEstimate e wanted).1.TargetBitrate ≤ wanted ∧
    (gcc_lossBasedBandwidthEstimator_getEstimate e wanted).2.bitrate ≤ wanted := by
  simp only [gcc_lossBasedBandwidthEstimator_getEstimate]
  by_cases hb : e.bitrate ≤ 0 <;> simp [hb] <;> omega

/-- ★ with a positive wanted rate the stored bitrate is positive afterwards, so the reset branch is taken at
most on the first call. -/
theorem getEstimate_pos (e : S_gcc_lossBasedBandwidthEstimator) (h : LossCfg e) (wanted : Int)
    (hw : 0 < wanted) : 0 < (gcc_lossBasedBandwidthEstimator_getEstimate e wanted).2.bitrate := by
  rw [(getEstimate_src_eq_model e h wanted).1]
  simp only [Gcc.lossEstimate, Gcc.clampInt, Gcc.lossMin, Gcc.lossMax]
  by_cases hb : e.bitrate ≤ 0 <;> simp [hb] <;> (repeat' split) <;> omega

/-- the hypotheses are satisfiable and the reset branch is reachable: the zero-bitrate estimator. -/
example : LossCfg { minBitrate := 100000, maxBitrate := 100000000, bitrate := 0 } ∧
    (gcc_lossBasedBandwidthEstimator_getEstimate
      { minBitrate := 100000, maxBitrate := 100000000, bitrate := 0 } 50000).1.TargetBitrate = 50000 :=
  ⟨⟨rfl, rfl⟩, by decide⟩

/-! ## the scalar accessors around the estimator -/

/-- ★ `SendSideBWE.GetTargetBitrate` as written in the source returns the field the model calls `latest`. -/
theorem getTargetBitrate_src_eq_model (g : S_gcc_SendSideBWE) (m : Gcc.St) (r : g.latestBitrate = m.latest) :
    gcc_SendSideBWE_GetTargetBitrate g = m.latest := r

/-- ★ `LeakyBucketPacer.SetTargetBitrate` as written in the source stores `int(f * float64(rate))` (binary64
product, truncated) and touches no other field; `getTargetBitrate` reads it back.  That the product is
`3 * rate / 2` for `f = 1.5` (Model/Pacing.lean `leakyTarget`) is NOT proved here (no rounding lemmas for
Base/F64): it is tied by the bwepacer correspondence run. -/
theorem setTargetBitrate_frame (p : S_gcc_LeakyBucketPacer) (rate : Int) :
    gcc_LeakyBucketPacer_SetTargetBitrate p rate =
      { p with targetBitrate := F64.toInt64 (F64.mul p.f (F64.ofInt rate)) } := rfl

theorem getTargetBitrate_set (p : S_gcc_LeakyBucketPacer) (rate : Int) :
    gcc_LeakyBucketPacer_getTargetBitrate (gcc_LeakyBucketPacer_SetTargetBitrate p rate) =
      F64.toInt64 (F64.mul p.f (F64.ofInt rate)) := rfl

/-! ## constructors of the stages in front of the estimator -/

/-- ★ `newRateCalculator` stores the window it is given (the `window` parameter of Model/RateCalc.lean's `step`). -/
theorem newRateCalculator_src (w : Int) : (gcc_newRateCalculator w).window = w := rfl

/-- ★ `newArrivalGroupAccumulator`: burst thresholds of 5 ms for departure and arrival, 0 for the delay variation. -/
theorem newArrivalGroupAccumulator_src :
    gcc_newArrivalGroupAccumulator.interDepartureThreshold = 5000000 ∧
    gcc_newArrivalGroupAccumulator.interArrivalThreshold = 5000000 ∧
    gcc_newArrivalGroupAccumulator.interGroupDelayVariationTreshold = 0 := ⟨rfl, rfl, rfl⟩

end Interceptor.Facts.FnGccLoss

/-
`senderStream.generateReport` as written in pkg/report/sender_stream.go (generated translation
Gen/Fn_report.lean, regenerated from /repo on every run; it calls the translated `ntp.ToNTP`) computes exactly
the hand-written model `SenderReport.generateReport` (Model/SenderReport.lean) that the C07 theorems are
about: SSRC, the NTP timestamp, `RTPTime = lastRTPTimeRTP + uint32(now.Sub(lastRTPTimeTime).Seconds()*clockRate)`
(binary64, truncation, mod 2^32), the packet and octet counts.

The relation is `FnSenderReport.Rel` (reused).  The only hypothesis beyond it is about `Time.Sub`: Go's
saturates at ±2^63 ns while the model subtracts exactly, so the true difference `now − lastRTPTimeTime` must
fit an int64 (when the stored time is the zero `time.Time`, the model's `none`, Go saturates at the maximal
duration, which is what the model says, for every int64 `now`).  `generateReport_src_eq_model` states exactly
that; `generateReport_src_eq_model_instant` derives it from the invariant `TimeOk` (the stored time is an
`instant`, −2^62 ≤ t < 2^62 Unix ns), which the constructor establishes and `processRTP` preserves for every
instant `now`; `generateReport_after_run` chains it behind arbitrary packet sequences.
-/
import Interceptor.Facts.FnSenderReport
import Interceptor.Facts.FnNtp
namespace Interceptor.Facts.FnSenderGenerate
open Interceptor.Gen.Fn Interceptor.GoSem Interceptor.SenderReport
open Interceptor.Facts.FnSenderReport

/-- a model sender report as the Go struct (no reception reports, no profile extensions). -/
def goSR (sr : SR) : S_rtcp_SenderReport :=
  { SSRC := sr.ssrc, NTPTime := sr.ntp, RTPTime := sr.rtp, PacketCount := sr.packetCount,
    OctetCount := sr.octetCount }

/-- ★ `senderStream.generateReport` as written in the source equals the model's `generateReport`, field by
field, for every related pair of states and every int64 `now` such that `now − lastRTPTimeTime` fits a
`time.Duration` (no condition when the stored time is the zero time). -/
theorem generateReport_src_eq_model (g : S_report_senderStream) (m : Stream) (r : Rel g m) (now : Int)
    (hn : -9223372036854775808 ≤ now)
    (hd : ∀ u, m.lastTime = some u → -9223372036854775808 ≤ now - u ∧ now - u ≤ 9223372036854775807) :
    report_senderStream_generateReport g now = goSR (SenderReport.generateReport m now) := by
  have hsub := timeSub_rel now g.lastRTPTimeTime m.lastTime r.lastTime hn hd
  have hrtp : u32 (g.lastRTPTimeRTP + u32 (F64.toInt64 (F64.mul (durSeconds (timeSub now g.lastRTPTimeTime)) g.clockRate)))
      = (((m.lastTs + elapsedTicks m.rate (GoTime.sub now m.lastTime)) % M32 : Nat) : Int) := by
    rw [hsub, r.rate, r.lastTs, ← FnNtp.toUint32_cast]
    have : F64.toUint32 (F64.mul (durSeconds (GoTime.sub now m.lastTime)) (F64.ofInt (m.rate : Int)))
        = elapsedTicks m.rate (GoTime.sub now m.lastTime) := rfl
    rw [this]
    unfold u32 M32; omega
  unfold report_senderStream_generateReport SenderReport.generateReport goSR
  simp only [hrtp, r.ssrc, r.packetCount, r.octetCount, FnNtp.toNTP_src_eq_model]

/-- an instant whose differences with any other such instant fit a `time.Duration`. -/
def instant (t : Int) : Prop := -4611686018427387904 ≤ t ∧ t < 4611686018427387904

/-- invariant: the stored time of the reference packet, when there is one, is an instant. -/
def TimeOk (m : Stream) : Prop := ∀ u, m.lastTime = some u → instant u

/-- ★ the same with the hypothesis as an invariant: for every instant `now` and every related pair whose
stored time is an instant (or the zero time). -/
theorem generateReport_src_eq_model_instant (g : S_report_senderStream) (m : Stream) (r : Rel g m)
    (tok : TimeOk m) (now : Int) (hn : instant now) :
    report_senderStream_generateReport g now = goSR (SenderReport.generateReport m now) := by
  unfold instant at hn
  refine generateReport_src_eq_model g m r now (by omega) (fun u hu => ?_)
  have := tok u hu
  unfold instant at this
  omega

/-- ★ the fields of the generated sender report, spelled out. -/
theorem generateReport_fields (g : S_report_senderStream) (m : Stream) (r : Rel g m) (tok : TimeOk m)
    (now : Int) (hn : instant now) :
    (report_senderStream_generateReport g now).SSRC = ((SenderReport.generateReport m now).ssrc : Int) ∧
    (report_senderStream_generateReport g now).NTPTime = ((SenderReport.generateReport m now).ntp : Int) ∧
    (report_senderStream_generateReport g now).RTPTime = ((SenderReport.generateReport m now).rtp : Int) ∧
    (report_senderStream_generateReport g now).PacketCount = ((SenderReport.generateReport m now).packetCount : Int) ∧
    (report_senderStream_generateReport g now).OctetCount = ((SenderReport.generateReport m now).octetCount : Int) ∧
    (report_senderStream_generateReport g now).Reports = [] := by
  rw [generateReport_src_eq_model_instant g m r tok now hn]
  exact ⟨rfl, rfl, rfl, rfl, rfl, rfl⟩

/-- ★ the constructor establishes the invariant. -/
theorem timeOk_new (ssrc rate : Nat) (useLatest : Bool) : TimeOk (SenderReport.new ssrc rate useLatest) := by
  intro u hu; simp [SenderReport.new] at hu

/-- ★ `processRTP` preserves the invariant for every packet processed at an instant. -/
theorem timeOk_processRTP (m : Stream) (tok : TimeOk m) (p : Pkt) (hn : instant p.now) :
    TimeOk (SenderReport.processRTP m p) := by
  intro u hu
  unfold SenderReport.processRTP at hu
  dsimp only at hu
  split at hu
  · split at hu
    · simp only [Option.some.injEq] at hu
      rw [← hu]; exact hn
    · exact tok u hu
  · exact tok u hu

/-- ★ the invariant holds after any packet sequence processed at instants. -/
theorem timeOk_run (ps : List Pkt) (hp : ∀ p ∈ ps, instant p.now) :
    ∀ m : Stream, TimeOk m → TimeOk (SenderReport.run m ps) := by
  induction ps with
  | nil => intro m t; exact t
  | cons p ps ih =>
    intro m t
    have := ih (fun q hq => hp q (by simp [hq])) _ (timeOk_processRTP m t p (hp p (by simp)))
    simpa [SenderReport.run] using this

/-- ★ chaining: after any sequence of `processRTP` calls (headers in range, processed at instants) from
related states, `generateReport` at any instant returns the model's report. -/
theorem generateReport_after_run (cs : List Call) (hh : ∀ c ∈ cs, HeaderOk c.2.1) (ht : ∀ c ∈ cs, instant c.1)
    (g : S_report_senderStream) (m : Stream) (r : Rel g m) (tok : TimeOk m) (now : Int) (hn : instant now) :
    report_senderStream_generateReport (goRun g cs) now
      = goSR (SenderReport.generateReport (SenderReport.run m (cs.map fun c => pktOf c.1 c.2.1 c.2.2)) now) := by
  refine generateReport_src_eq_model_instant _ _ (run_src_eq_model cs hh g m r) (timeOk_run _ ?_ m tok) now hn
  intro p hp
  simp only [List.mem_map] at hp
  obtain ⟨c, hc, rfl⟩ := hp
  exact ht c hc

/-! satisfiability of the hypotheses on concrete non-trivial states -/

example : Rel (goNew 7 90000 false) (SenderReport.new 7 90000 false) ∧ TimeOk (SenderReport.new 7 90000 false) :=
  ⟨rel_new 7 90000 false, timeOk_new 7 90000 false⟩

/-- a started stream and a report half a second after the reference packet. -/
example :
    let g : S_report_senderStream :=
      { ssrc := 7, clockRate := F64.ofInt 90000, useLatestPacket := false, lastRTPTimeRTP := 4294967000,
        lastRTPTimeTime := 946684800000000000, lastRTPSN := 65535, packetCount := 3, octetCount := 3600 }
    let m : Stream :=
      { ssrc := 7, rate := 90000, useLatest := false, lastTs := 4294967000, lastTime := some 946684800000000000,
        lastSN := 65535, packetCount := 3, octetCount := 3600 }
    Rel g m ∧ TimeOk m ∧ instant 946684800500000000 :=
  ⟨⟨rfl, rfl, rfl, rfl, rfl, rfl, rfl, rfl⟩,
   fun u hu => by simp only [Option.some.injEq] at hu; rw [← hu]; unfold instant; omega,
   by unfold instant; omega⟩

/-- the hypotheses of the general theorem on the freshly constructed stream (zero stored time). -/
example : ∀ u, (SenderReport.new 7 90000 false).lastTime = some u →
    -9223372036854775808 ≤ 946684800500000000 - u ∧ 946684800500000000 - u ≤ 9223372036854775807 := by
  intro u hu; simp [SenderReport.new] at hu

end Interceptor.Facts.FnSenderGenerate

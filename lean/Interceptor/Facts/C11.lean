/-
C11 — the lifecycle discipline holds on the facts regenerated from /repo (closed by `decide`).
The parameters of the lifecycle skeleton (Model/Lifecycle.lean) rest on exactly these shapes:
`hasLoop` interceptors start their goroutine under the mutex after `wg.Add` and Close waits;
hand-off sends and immediate-report requests are select cases next to the close channel
(`readHandoff`, `immediateOnBind`: released by Close); Unbind removes what Bind stored.
-/
import Interceptor.Facts.LifecycleTypes
import Interceptor.Gen.LifecycleFacts
namespace Interceptor.Facts.C11
open Interceptor.Facts Interceptor.Gen.LifecycleFacts

def exceptions : List (Name × LcRule × String) := [
  (nm! "pacing.Interceptor", .closeUnlocked, "Close closes `closed` without a mutex: a second Close would panic; a second Close is outside io.Closer's contract and outside C11's quantifier (recorded in DESIGN.md)")
]

/-- ★ every interceptor type follows the lifecycle discipline (regenerated facts). -/
theorem facts_ok : types.all (lcOk exceptions) = true := by decide +kernel

/-- the interceptors that start a goroutine from BindRTCPWriter are exactly those the lifecycle
model gives `hasLoop := true` (plus the NACK responder's per-NACK goroutines and the stats recorders). -/
theorem loop_types :
    (types.filter (fun t => !t.goSites.isEmpty)).map (·.label) =
      ["intervalpli.GeneratorInterceptor", "nack.GeneratorInterceptor", "nack.ResponderInterceptor",
       "report.ReceiverInterceptor", "report.SenderInterceptor", "rfc8888.SenderInterceptor",
       "stats.Interceptor", "twcc.SenderInterceptor"] := by decide +kernel

end Interceptor.Facts.C11

/-
The lock discipline checked on the regenerated facts, and the hand-written exception table.
`fieldOk` is the decidable statement "every access site of this field conforms to one
protection"; `facts_ok` (Facts/C10.lean) closes it over the generated table with `decide`.
-/
import Interceptor.Facts.LockTypes
namespace Interceptor.Facts

def Site.live (s : Site) : Bool := !s.ctor

def Site.holds (s : Site) (l : Nat) : Bool := s.locks.any (fun p => p.1 == l)
def Site.holdsW (s : Site) (l : Nat) : Bool := s.locks.any (fun p => p.1 == l && p.2 == .w)

/-- a site that modifies the location (an atomic read-modify-write counts as a modification). -/
def Site.writes (s : Site) : Bool := s.kind == .write || s.kind == .atomic

/-- rule 1: no modification after construction. -/
def immutableOk (sites : List Site) : Bool := sites.all fun s => s.ctor || !s.writes

/-- rule 2: only atomic operations after construction. -/
def atomicOk (sites : List Site) : Bool := sites.all fun s => s.ctor || s.kind == .atomic

/-- rule 3: lock `l` guards the field: modifications hold it exclusively, reads hold it in some mode. -/
def guardedOk (l : Nat) (sites : List Site) : Bool :=
  sites.all fun s => s.ctor || (if s.writes then s.holdsW l else s.holds l)

/-- candidate guards: the locks held at the first live site. -/
def candidates (sites : List Site) : List Nat :=
  match sites.find? (·.live) with
  | some s => s.locks.map (·.1)
  | none => []

def autoOk (sites : List Site) : Bool :=
  immutableOk sites || atomicOk sites || (candidates sites).any (fun l => guardedOk l sites)

/-- hand-written protections for fields the automatic rules cannot justify. -/
inductive Exception where
  /-- every live access happens in a function context whose name starts with one of the prefixes:
  the functions that run on the single goroutine owning the object (checked). -/
  | confined (ctxPrefixes : List Name)
  /-- trusted, not checked: the reason is reported in the evidence. -/
  | trusted (reason : String)

def startsWith (p s : Name) : Bool := p.isPrefixOf s

def nth (xs : List Name) (i : Nat) : Name := xs.getD i (0, 0)

def exceptionOk (ctxNames : List Name) (e : Exception) (sites : List Site) : Bool :=
  match e with
  | .confined ps => sites.all fun s => s.ctor || ps.any (fun p => startsWith p (nth ctxNames s.ctx))
  | .trusted _ => true

def fieldOk (ctxNames : List Name) (ex : List (Name × Exception)) (f : FieldSites) : Bool :=
  autoOk f.sites ||
    match ex.find? (fun e => startsWith e.1 f.name) with
    | some e => exceptionOk ctxNames e.2 f.sites
    | none => false

def badFields (ctxNames : List Name) (ex : List (Name × Exception)) (fs : List FieldSites) : List String :=
  (fs.filter (fun f => !fieldOk ctxNames ex f)).map (·.label)

/-- lock-order graph: no edge closes a cycle (checked by repeatedly removing sink-free nodes:
`n` rounds of "delete every edge whose target has no outgoing edge"). -/
def pruneOnce (es : List (Nat × Nat)) : List (Nat × Nat) :=
  es.filter fun e => es.any (fun e' => e'.1 == e.2)

def acyclic (es : List (Nat × Nat)) : Bool :=
  ((List.range (es.length + 1)).foldl (fun acc _ => pruneOnce acc) es).isEmpty

end Interceptor.Facts

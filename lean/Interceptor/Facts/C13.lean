/-
C13 — the retention facts regenerated from /repo: every statement through which a value derived
from a caller-owned parameter (`header *rtp.Header`, `payload/b []byte`, `attributes`,
`pkts []rtcp.Packet`) of an RTP/RTCP reader or writer function leaves the call (store into a
field / element / container, channel send, `go`) passes through a copying wrapper, or is listed
in the exception table below.  Closed by `decide`; a source change that adds an aliasing store
makes it fail (checked on the trees before the fixes of F-25, F-26 and F-33).
-/
import Interceptor.Facts.RetentionTypes
import Interceptor.Gen.RetentionFacts
import Interceptor.Props.C13
namespace Interceptor.Facts.C13
open Interceptor.Facts Interceptor.Gen.RetentionFacts Interceptor.Alias

/-- Sites that are not copies, with the reason why they are outside the property (all trusted,
listed in the evidence). -/
def exceptions : List RException := [
  { ctx := nm! "rtpbuffer.RTPBuffer.Add", kind := .store,
    reason := "the RetainablePacket comes from PacketFactory.NewPacket: PacketFactoryCopy copies header (Clone) and payload (copy into a pooled buffer); PacketFactoryNoOp is installed only by nack.DisableCopy, the documented exception of C13" },
  { ctx := nm! "interceptor.Attributes.GetRTPHeader", kind := .store,
    reason := "parse cache: the header parsed from the read buffer is stored in the attributes map that travels with this very Read and is returned to the caller; the map is the caller's, nothing is kept by the interceptor (attributes are outside the wording of C13)" },
  { ctx := nm! "interceptor.Attributes.GetRTCPPackets", kind := .store,
    reason := "parse cache: as GetRTPHeader, for the RTCP packets parsed from the read buffer" },
  { ctx := nm! "nack.ResponderInterceptor.BindRTCPReader", kind := .goStmt,
    reason := "the resend goroutine captures the parsed *rtcp.TransportLayerNack: pion/rtcp unmarshals NACK pairs into a fresh []NackPair of integers, no reference into the read buffer (trusted: pion/rtcp); the correspondence run overwrites the buffer before the goroutine runs" },
  { ctx := nm! "twcc.SenderInterceptor.BindRemoteStream", kind := .send,
    reason := "twcc.packet.hdr (the header parsed from the read buffer) is sent to the loop goroutine but never read there: only ssrc, sequenceNumber and arrivalTime are used and the value is dropped when Record returns" }
]

/-- ★ every retention site of every RTP/RTCP reader/writer function is a copy or a justified exception. -/
theorem facts_ok : sites.all (siteOk exceptions) = true := by decide +kernel

/-- no entry of the exception table is stale. -/
theorem exceptions_used : staleExceptions exceptions sites = [] := by decide +kernel

/-- the translator found the reader/writer functions (a refactoring that hides them from the
pass would empty the fact file and make `facts_ok` vacuous). -/
theorem roots_found : 25 ≤ roots.length ∧ 10 ≤ sites.length := by decide +kernel

/-- the storing policy of an interceptor as the facts say: all-copy iff every site in its
packages is a copy or excepted. -/
def policyOf (pkgs : List Name) : Policy :=
  if (sites.filter fun s => pkgs.any (·.isPrefixOf s.ctx)).all (siteOk exceptions) then Policy.copyAll
  else ⟨false, false, false, false⟩

/-- the interceptors of the correspondence run with the packages their calls reach. -/
def interceptors : List (String × List Name) := [
  ("responder", [nm! "nack.", nm! "rtpbuffer.", nm! "interceptor."]),
  ("flexfec", [nm! "flexfec."]),
  ("leaky", [nm! "gcc.", nm! "cc."]),
  ("pacing", [nm! "pacing."]),
  ("pdsend", [nm! "packetdump."]),
  ("pdrecv", [nm! "packetdump.", nm! "interceptor."]),
  ("stats", [nm! "stats.", nm! "interceptor."]),
  ("jitter", [nm! "jitterbuffer."]),
  ("twccsend", [nm! "twcc.", nm! "interceptor."]),
  ("rtpfb", [nm! "rtpfb.", nm! "interceptor."]),
  ("sr", [nm! "report."]),
  ("rr", [nm! "report.", nm! "interceptor."])]

theorem policies_copy : interceptors.all (fun i => (policyOf i.2).allCopy) = true := by decide +kernel

/-- ★ `noninterference` instantiated from the facts: for every interceptor of the run, with the
storing policy the regenerated facts give it, and whatever its logic is, inserting scribbles
after returned calls does not change a single emission. -/
theorem noninterference_per_interceptor {ε} (M : Machine ε) {ops ops' : List Op} (h : Scribbled ops ops') :
    ∀ i ∈ interceptors, emissions (policyOf i.2) M ops = emissions (policyOf i.2) M ops' := by
  intro i hi
  have := List.all_eq_true.mp policies_copy i hi
  exact noninterference this M h

end Interceptor.Facts.C13

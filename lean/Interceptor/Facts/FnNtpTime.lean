/-
ToTime / ToNTP32 / ToTime32 as written in the source (generated translation) equal the models of
Model/Ntp.lean, for every 64-bit (resp. 32-bit) argument.
-/
import Interceptor.Facts.FnNtp
import Interceptor.Base.GoBits
import Interceptor.Proofs.NtpRoundTrip
import Interceptor.Props.C20Ntp
namespace Interceptor.Facts.FnNtp
open Interceptor.Gen.Fn Interceptor.GoSem Interceptor.Ntp

theorem s64_id (x : Int) (h : -9223372036854775808 ≤ x ∧ x < 9223372036854775808) : s64 x = x := by
  unfold s64; omega

theorem u64_id (x : Int) (h : 0 ≤ x ∧ x < 18446744073709551616) : u64 x = x := by
  unfold u64; omega

/-- the nanosecond part of `ToTime` is between −1 and 10^9. -/
theorem nanos_range (fp : Nat) (hfp : fp < 4294967296) :
    -1 ≤ F64.toInt64 (F64.mul (F64.div (F64.ofInt (fp : Int)) 4294967295) 1000000000) ∧
    F64.toInt64 (F64.mul (F64.div (F64.ofInt (fp : Int)) 4294967295) 1000000000) ≤ 1000000000 := by
  obtain ⟨w, hw, h1, h2⟩ := nanos_bounds fp hfp
  rw [hw]
  have hfq : (fp : ℚ) ≤ 4294967295 := by
    have : fp ≤ 4294967295 := by omega
    exact_mod_cast this
  have hg0 : 0 ≤ (fp : ℚ) / 4294967295 * 1000000000 := by positivity
  have hg1 : (fp : ℚ) / 4294967295 * 1000000000 ≤ 1000000000 := by
    have : (fp : ℚ) / 4294967295 ≤ 1 := by rw [div_le_iff₀ (by norm_num)]; linarith
    linarith
  constructor
  · have : (-2 : ℚ) < (w : ℚ) := by linarith
    have : (-2 : Int) < w := by exact_mod_cast this
    omega
  · have : (w : ℚ) < 1000000001 := by linarith
    have : w < 1000000001 := by exact_mod_cast this
    omega

/-- ★ `ToTime` as written in the source equals the model, for every uint64. -/
theorem toTime_src_eq_model (t : Nat) (ht : t < 18446744073709551616) :
    ntp_ToTime (t : Int) = Ntp.toTime t := by
  have hi : (18446744069414584320 : Int) = ((2 ^ 64 - 2 ^ 32 : Nat) : Int) := by norm_num
  have lo : (4294967295 : Int) = ((2 ^ 32 - 1 : Nat) : Int) := by norm_num
  have e1 : band (t : Int) 18446744069414584320 = ((t / 4294967296 * 4294967296 : Nat) : Int) := by
    rw [hi, band_ofNat, and_mask t 64 32 (by omega)]
    have : t % 2 ^ 64 = t := Nat.mod_eq_of_lt (by simpa using ht)
    rw [this]
  have e2 : band (t : Int) 4294967295 = ((t % 4294967296 : Nat) : Int) := by
    rw [lo, band_ofNat, Nat.and_two_pow_sub_one_eq_mod]
  have hs : t / 4294967296 < 4294967296 := by omega
  have hf : t % 4294967296 < 4294967296 := by omega
  obtain ⟨n1, n2⟩ := nanos_range (t % 4294967296) hf
  unfold ntp_ToTime Ntp.toTime timeAdd
  rw [e1, e2]
  rw [u64_id _ (by omega), u64_id _ (by omega)]
  have e3 : shr ((t / 4294967296 * 4294967296 : Nat) : Int) 32 = ((t / 4294967296 : Nat) : Int) := by
    unfold shr; simp
  rw [e3]
  dsimp only
  generalize F64.toInt64 (F64.mul (F64.div (F64.ofInt ((t % 4294967296 : Nat) : Int)) 4294967295) 1000000000) = w at n1 n2
  rw [s64_id ((t / 4294967296 : Nat) : Int) (by omega)]
  rw [s64_id (((t / 4294967296 : Nat) : Int) * 1000000000) (by omega)]
  rw [s64_id (w * 1) (by omega)]
  rw [s64_id (((t / 4294967296 : Nat) : Int) * 1000000000 + w * 1) (by omega)]
  rw [s64_id (0 * 1000000000 + 0) (by omega)]
  omega

/-- ★ `ToNTP32` as written in the source equals the model. -/
theorem toNTP32_src_eq_model (ns : Int) : ntp_ToNTP32 ns = (Ntp.toNTP32 ns : Int) := by
  unfold ntp_ToNTP32 Ntp.toNTP32
  rw [toNTP_src_eq_model]
  unfold shr u32; simp

/-- ★ `ToTime32` as written in the source equals the model, for every uint32 and every reference. -/
theorem toTime32_src_eq_model (t : Nat) (ht : t < 4294967296) (ref : Int) :
    ntp_ToTime32 (t : Int) ref = Ntp.toTime32 t ref := by
  have hN := toNTP_lt ref
  have m1 : (18446462598732840960 : Int) = ((2 ^ 64 - 2 ^ 48 : Nat) : Int) := by norm_num
  have m2 : (281474976645120 : Int) = ((2 ^ 48 - 2 ^ 16 : Nat) : Int) := by norm_num
  unfold ntp_ToTime32 Ntp.toTime32
  rw [toNTP_src_eq_model]
  generalize Ntp.toNTP ref = N at hN
  have e1 : band (N : Int) 18446462598732840960 = ((N / 281474976710656 * 281474976710656 : Nat) : Int) := by
    rw [m1, band_ofNat, and_mask N 64 48 (by omega)]
    have : N % 2 ^ 64 = N := Nat.mod_eq_of_lt (by simpa using hN)
    rw [this]
  have e2 : shl (t : Int) 16 = ((t * 65536 : Nat) : Int) := by unfold shl; simp
  have e3 : band ((t * 65536 : Nat) : Int) 281474976645120 = ((t * 65536 % 281474976710656 : Nat) : Int) := by
    rw [m2, band_ofNat, and_mask _ 48 16 (by omega)]
    have : (t * 65536 % 2 ^ 48) / 2 ^ 16 * 2 ^ 16 = t * 65536 % 281474976710656 := by omega
    rw [this]
  dsimp only
  rw [e1, e2, u64_id ((t * 65536 : Nat) : Int) (by omega), e3,
    u64_id ((t * 65536 % 281474976710656 : Nat) : Int) (by omega),
    u64_id ((N / 281474976710656 * 281474976710656 : Nat) : Int) (by omega), bor_ofNat]
  have e4 : t * 65536 % 281474976710656 ||| N / 281474976710656 * 281474976710656
      = t * 65536 % 281474976710656 + N / 281474976710656 * 281474976710656 := by
    rw [Nat.or_comm]
    have := or_field (N / 281474976710656) (t * 65536 % 281474976710656) 48 (by omega)
    rw [show (2 : Nat) ^ 48 = 281474976710656 from rfl] at this
    omega
  rw [e4, u64_id _ (by omega)]
  exact toTime_src_eq_model _ (by omega)

end Interceptor.Facts.FnNtp

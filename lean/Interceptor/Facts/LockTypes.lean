/- Types of the regenerated lock facts (see /verif/extract/locks.go). -/
namespace Interceptor.Facts

inductive Kind where
  | read | write | atomic | syncUse
  deriving DecidableEq, Repr

inductive Mode where
  | r | w
  deriving DecidableEq, Repr

/-- one (deduplicated) access site of a struct field: the function context it occurs in, the kind
of access, whether it is in a constructor / on a fresh unpublished object, and the locks that
are syntactically held there (own critical sections ∪ locks held at every call site). -/
structure Site where
  ctx : Nat
  kind : Kind
  ctor : Bool
  locks : List (Nat × Mode)
  deriving Repr

/-- a qualified name as (byte length, big-endian base-256 value): taking a `String` apart is
expensive in the kernel, numerals are not. -/
abbrev Name := Nat × Nat

/-- `p` is a (byte-wise) prefix of `s`. -/
def Name.isPrefixOf (p s : Name) : Bool := p.1 ≤ s.1 && s.2 / 256 ^ (s.1 - p.1) == p.2

/-- `name` identifies the field for the kernel; `label` is the same name for humans. -/
structure FieldSites where
  label : String
  name : Name
  sites : List Site
  deriving Repr

open Lean in
/-- `nm! "abc"` is the `Name` of the string, produced at elaboration time: `(3, 0x616263)`. -/
macro "nm!" s:str : term => do
  let bs := s.getString.toUTF8.toList
  let v := bs.foldl (fun (acc : Nat) (c : UInt8) => acc * 256 + c.toNat) 0
  `((($(Syntax.mkNumLit (toString bs.length)), $(Syntax.mkNumLit (toString v))) : Name))

example : (nm! "abc") = (3, 0x616263) := rfl
example : Name.isPrefixOf (nm! "twcc.Rec") (nm! "twcc.Recorder.x") = true := by decide
example : Name.isPrefixOf (nm! "twcc.Rex") (nm! "twcc.Recorder.x") = false := by decide

end Interceptor.Facts

/-
C01 — wrapper shapes (regenerated facts).  Every RTP/RTCP reader / writer wrapper returned by a
Bind* method has the pass-through shape that the per-interceptor models of Props/C01.lean
(`local_transparent`, `remote_transparent`, `rtcp_*_transparent`) were written from, except the
buffering / injecting ones listed here, which other properties cover.
-/
import Interceptor.Facts.WrapperTypes
import Interceptor.Gen.WrapperFacts
namespace Interceptor.Facts.C01
open Interceptor.Facts Interceptor.Gen.WrapperFacts

def exceptions : List (Name × String) := [
  (nm! "flexfec.FecInterceptor.BindLocalStream#1", "forwards the media packet with its own arguments first, then writes the repair packets it built (C14 interceptor_order)"),
  (nm! "jitterbuffer.ReceiverInterceptor.BindRemoteStream#1", "buffering interceptor: reads into its own buffer and returns the packet at the playout head (C18; outside C01 by its wording)"),
  (nm! "pacing.Interceptor.BindLocalStream#1", "buffering interceptor: queues a copy, the loop writes later (C17; outside C01 by its wording)")
]

/-- ★ every other wrapper has the pass-through shape. -/
theorem wrappers_pass_through : wrappersOk exceptions wrappers = true := by decide +kernel

end Interceptor.Facts.C01

/-
The generated translations of pkg/nack/receive_log.go (Gen/Fn_nack.lean, regenerated from /repo on every
run) compute exactly what the hand-written model Model/ReceiveLog.lean computes, on the abstraction
"packed `[]uint64` bitmap ↔ `Array Bool` with one entry per slot".
-/
import Interceptor.Gen.Fn_nack
import Interceptor.Model.ReceiveLog
import Interceptor.Base.GoBitmap
set_option linter.unusedSimpArgs false
namespace Interceptor.Facts.FnNack
open Interceptor Interceptor.Gen.Fn Interceptor.GoSem Interceptor.ReceiveLog

/-! ### the abstraction relation -/

/-- the Go `receiveLog` `g` represents the model state `m`: equal scalar fields (the `uint16` ones in
range), a size accepted by `newReceiveLog`, one model bit per slot, and the packed words hold these bits
(`Packed`: `len(packets)·64 = len(bits)`, every word `< 2^64`, bit `p%64` of word `p/64` = `bits[p]`). -/
structure Rel (g : S_nack_receiveLog) (m : Log) : Prop where
  size : g.size = (m.size : Int)
  valid : validSize m.size = true
  end_ : g.end_ = (m.end_ : Int)
  lc : g.lastConsecutive = (m.lc : Int)
  started : g.started = m.started
  endLt : m.end_ < 65536
  lcLt : m.lc < 65536
  nbits : m.bits.size = m.size
  packed : Packed g.packets m.bits

theorem validSize_cases (n : Nat) (h : validSize n = true) :
    n = 64 ∨ n = 128 ∨ n = 256 ∨ n = 512 ∨ n = 1024 ∨ n = 2048 ∨ n = 4096 ∨ n = 8192 ∨ n = 16384 ∨ n = 32768 := by
  simpa [validSize] using h

theorem validSize_bounds (n : Nat) (h : validSize n = true) : 64 ≤ n ∧ n ≤ 32768 ∧ n % 64 = 0 := by
  have := validSize_cases n h; omega

theorem Rel.pos {g : S_nack_receiveLog} {m : Log} (h : Rel g m) : 0 < m.size := by
  have := validSize_bounds _ h.valid; omega

/-- `packets` has `size/64` words. -/
theorem Rel.words {g : S_nack_receiveLog} {m : Log} (h : Rel g m) : g.packets.length = m.size / 64 := by
  have h1 := h.packed.size
  have h2 := h.nbits
  omega

/-- every word is a `uint64`. -/
theorem Rel.word_range {g : S_nack_receiveLog} {m : Log} (h : Rel g m) (i : Nat) (hi : i < m.size / 64) :
    0 ≤ idx g.packets (i : Int) ∧ idx g.packets (i : Int) < 18446744073709551616 :=
  h.packed.word i (by rw [h.words]; exact hi)

/-- bit `pos%64` of word `pos/64` is `bits[pos]`. -/
theorem Rel.bit {g : S_nack_receiveLog} {m : Log} (h : Rel g m) (pos : Nat) (hp : pos < m.size) :
    (idx g.packets ((pos / 64 : Nat) : Int)).toNat.testBit (pos % 64) = m.bits.getD pos false :=
  h.packed.bit pos (by rw [h.nbits]; exact hp)

/-- no Go index panic: the word index of every slot is inside `packets`. -/
theorem Rel.index_lt {g : S_nack_receiveLog} {m : Log} (h : Rel g m) (q : Nat) :
    (q % m.size) / 64 < g.packets.length := by
  have := Nat.mod_lt q h.pos
  have := validSize_bounds _ h.valid
  rw [h.words]; omega

/-- the relation is exactly: equal scalars (uint16 ones in range), a valid size, one model bit per slot,
`size/64` words, each a uint64, and bit `pos%64` of word `pos/64` equal to `bits[pos]` for `pos < size`. -/
theorem Rel.of_words {g : S_nack_receiveLog} {m : Log} (hsize : g.size = (m.size : Int))
    (hv : validSize m.size = true) (hend : g.end_ = (m.end_ : Int)) (hlc : g.lastConsecutive = (m.lc : Int))
    (hst : g.started = m.started) (he : m.end_ < 65536) (hl : m.lc < 65536) (hb : m.bits.size = m.size)
    (hlen : g.packets.length = m.size / 64)
    (hw : ∀ i : Nat, i < m.size / 64 → 0 ≤ idx g.packets (i : Int) ∧ idx g.packets (i : Int) < 18446744073709551616)
    (hbit : ∀ pos : Nat, pos < m.size →
      (idx g.packets ((pos / 64 : Nat) : Int)).toNat.testBit (pos % 64) = m.bits.getD pos false) :
    Rel g m := by
  have := validSize_bounds _ hv
  refine ⟨hsize, hv, hend, hlc, hst, he, hl, hb, ?_, ?_, ?_⟩
  · rw [hb, hlen]; omega
  · intro i hi; exact hw i (by rw [← hlen]; exact hi)
  · intro p hp; exact hbit p (by rw [← hb]; exact hp)

theorem Rel.slot {g : S_nack_receiveLog} {m : Log} (h : Rel g m) (q : Nat) :
    (q : Int) % g.size = ((q % m.size : Nat) : Int) := by
  rw [h.size]; exact (Int.natCast_emod q m.size).symm

theorem Rel.slot_lt {g : S_nack_receiveLog} {m : Log} (h : Rel g m) (q : Nat) : q % m.size < m.bits.size := by
  rw [h.nbits]; exact Nat.mod_lt _ h.pos

/-! ### the constructor -/

/-- the state `newReceiveLog(size)` returns for an accepted size (`&receiveLog{packets: make([]uint64,
size/64), size: size}`; the function itself is not translated: it builds an error value with `fmt`). -/
def newGo (size : Nat) : S_nack_receiveLog := { packets := mkSlice ((size : Int) / 64), size := (size : Int) }

/-- ★ constructor: for every size `newReceiveLog` accepts (64, 128, …, 32768) the Go state it builds
(all-zero words) represents the model's `new size` (`Array.replicate size false`). -/
theorem new_rel (size : Nat) (hv : validSize size = true) : Rel (newGo size) (ReceiveLog.new size) := by
  have hb := validSize_bounds size hv
  have e1 : (size : Int) / 64 = ((size / 64 : Nat) : Int) := by omega
  have e2 : size = 64 * (size / 64) := by omega
  refine ⟨rfl, hv, rfl, rfl, rfl, by simp [ReceiveLog.new], by simp [ReceiveLog.new], by simp [ReceiveLog.new], ?_⟩
  show Packed (mkSlice ((size : Int) / 64)) (Array.replicate size false)
  rw [e1]
  have := Packed.zero (size / 64)
  rw [← e2] at this
  exact this

example : Rel (newGo 512) (ReceiveLog.new 512) := new_rel 512 (by decide)

/-! ### setReceived / delReceived / getReceived -/

/-- ★ `setReceived(seq)` is the model's `setBit · seq true` and preserves the relation (every `seq`). -/
theorem setReceived_src_eq_model {g : S_nack_receiveLog} {m : Log} (h : Rel g m) (q : Nat) :
    Rel (nack_receiveLog_setReceived g (q : Int)) (setBit m q true) := by
  have hp := h.packed.setBit (q % m.size) (h.slot_lt q)
  rw [← h.slot q] at hp
  exact ⟨h.size, h.valid, h.end_, h.lc, h.started, h.endLt, h.lcLt, by simp [setBit, h.nbits], hp⟩

/-- ★ `delReceived(seq)` is the model's `setBit · seq false` and preserves the relation (every `seq`). -/
theorem delReceived_src_eq_model {g : S_nack_receiveLog} {m : Log} (h : Rel g m) (q : Nat) :
    Rel (nack_receiveLog_delReceived g (q : Int)) (setBit m q false) := by
  have hp := h.packed.clearBit (q % m.size) (h.slot_lt q)
  rw [← h.slot q] at hp
  exact ⟨h.size, h.valid, h.end_, h.lc, h.started, h.endLt, h.lcLt, by simp [setBit, h.nbits], hp⟩

/-- ★ `getReceived(seq)` is the model's `getBit` (every `seq`). -/
theorem getReceived_src_eq_model {g : S_nack_receiveLog} {m : Log} (h : Rel g m) (q : Nat) :
    nack_receiveLog_getReceived g (q : Int) = getBit m q := by
  have hp := h.packed.getBit (q % m.size) (h.slot_lt q)
  rw [← h.slot q] at hp
  exact hp

/-! ### uint16 arithmetic of the translation vs. `add16`/`sub16` of the model -/

theorem u16_add_one (a : Nat) : u16 ((a : Int) + 1) = ((add16 a 1 : Nat) : Int) := by
  unfold u16 add16; omega

theorem u16_sub (a b : Nat) : u16 ((a : Int) - (b : Int)) = ((sub16 a b : Nat) : Int) := by
  unfold u16 sub16; omega

theorem u16_sub_one (a : Nat) : u16 ((a : Int) - 1) = ((sub16 a 1 : Nat) : Int) := by
  unfold u16 sub16; omega

/-! ### fixLastConsecutive -/

/-- the scan loop of `fixLastConsecutive`, started `n` steps before `end+1`, stops where the model's
`fixScan` stops; `n+1` units of fuel suffice. -/
theorem fix_loop {g : S_nack_receiveLog} {m : Log} (h : Rel g m) (cond : Int → Bool) (body : Int → Int)
    (hc : ∀ i, cond i = (decide (i ≠ u16 (g.end_ + 1)) && nack_receiveLog_getReceived g i))
    (hb : ∀ i, body i = u16 (i + 1)) :
    ∀ (n i : Nat), i < 65536 → sub16 (add16 m.end_ 1) i = n → ∀ fuel, n + 1 ≤ fuel →
      loop fuel cond body (i : Int) = some ((fixScan m i n : Nat) : Int) := by
  have hend : u16 (g.end_ + 1) = ((add16 m.end_ 1 : Nat) : Int) := by rw [h.end_, u16_add_one]
  have hel := h.endLt
  intro n
  induction n with
  | zero =>
    intro i hi hd fuel hf
    obtain ⟨f, rfl⟩ : ∃ f, fuel = f + 1 := ⟨fuel - 1, by omega⟩
    have : i = add16 m.end_ 1 := by unfold sub16 add16 at *; omega
    simp [loop, hc, hend, this, fixScan]
  | succ n ih =>
    intro i hi hd fuel hf
    obtain ⟨f, rfl⟩ : ∃ f, fuel = f + 1 := ⟨fuel - 1, by omega⟩
    have hne : ((i : Int) ≠ ((add16 m.end_ 1 : Nat) : Int)) := by unfold sub16 add16 at *; omega
    have hcond : cond (i : Int) = getBit m i := by
      rw [hc, hend, getReceived_src_eq_model h]; simp [hne]
    simp only [loop, hcond, fixScan]
    cases getBit m i
    · simp
    · simp only [if_true]
      rw [hb, u16_add_one]
      exact ih (add16 i 1) (add16_lt _ _) (by unfold sub16 add16 at *; omega) f (by omega)

/-- ★ `fixLastConsecutive()` terminates (fuel 65536 suffices: the scan makes at most 65535 steps), its
result represents the model's `fixLastConsecutive`, for every related pair. -/
theorem fixLastConsecutive_src_eq_model {g : S_nack_receiveLog} {m : Log} (h : Rel g m) (fuel : Nat)
    (hf : 65536 ≤ fuel) :
    ∃ g', nack_receiveLog_fixLastConsecutive fuel g = some g' ∧ Rel g' (fixLastConsecutive m) := by
  have hel := h.endLt
  have hll := h.lcLt
  have hd : sub16 (add16 m.end_ 1) (add16 m.lc 1) = sub16 m.end_ m.lc := by unfold sub16 add16; omega
  have hfu : sub16 m.end_ m.lc + 1 ≤ fuel := by have := sub16_lt m.end_ m.lc; omega
  have hl := fix_loop h _ _ (fun _ => rfl) (fun _ => rfl) (sub16 m.end_ m.lc) (add16 m.lc 1) (add16_lt _ _) hd fuel hfu
  simp only [nack_receiveLog_fixLastConsecutive]
  rw [h.lc, u16_add_one, hl]
  refine ⟨_, rfl, ?_⟩
  simp only [fixLastConsecutive]
  exact ⟨h.size, h.valid, h.end_, u16_sub_one _, h.started, h.endLt, sub16_lt _ _, h.nbits, h.packed⟩

/-! ### add -/

/-- the Go clearing loop of `add`, `n` iterations from `i`. -/
def clearGo (g : S_nack_receiveLog) (i : Int) : Nat → S_nack_receiveLog
  | 0 => g
  | n + 1 => clearGo (nack_receiveLog_delReceived g i) (u16 (i + 1)) n

theorem clearGo_rel : ∀ (n : Nat) {g : S_nack_receiveLog} {m : Log} (_ : Rel g m) (i : Nat),
    Rel (clearGo g (i : Int) n) (clearFrom m i n) := by
  intro n
  induction n with
  | zero => intro g m h i; exact h
  | succ n ih =>
    intro g m h i
    simp only [clearGo, clearFrom]
    rw [u16_add_one]
    exact ih (delReceived_src_eq_model h i) _

/-- the loop `for i := end+1; i != seq; i++ { delReceived(i) }` started `n` steps before `seq` runs `n`
times; `n+1` units of fuel suffice. -/
theorem clear_loop (seq : Nat) (hs : seq < 65536) (cond : Int × S_nack_receiveLog → Bool)
    (body : Int × S_nack_receiveLog → Int × S_nack_receiveLog)
    (hc : ∀ i s, cond (i, s) = decide (i ≠ (seq : Int)))
    (hb : ∀ i s, body (i, s) = (u16 (i + 1), nack_receiveLog_delReceived s i)) :
    ∀ (n i : Nat) (g : S_nack_receiveLog), i < 65536 → sub16 seq i = n → ∀ fuel, n + 1 ≤ fuel →
      loop fuel cond body ((i : Int), g) = some ((seq : Int), clearGo g (i : Int) n) := by
  intro n
  induction n with
  | zero =>
    intro i g hi hd fuel hf
    obtain ⟨f, rfl⟩ : ∃ f, fuel = f + 1 := ⟨fuel - 1, by omega⟩
    have : i = seq := by unfold sub16 at hd; omega
    simp [loop, hc, this, clearGo]
  | succ n ih =>
    intro i g hi hd fuel hf
    obtain ⟨f, rfl⟩ : ∃ f, fuel = f + 1 := ⟨fuel - 1, by omega⟩
    have hne : ((i : Int) ≠ (seq : Int)) := by unfold sub16 at hd; omega
    simp only [loop, hc, hb, clearGo, hne, ne_eq, not_false_eq_true, decide_true, if_true]
    rw [u16_add_one]
    exact ih (add16 i 1) _ (add16_lt _ _) (by unfold sub16 add16 at *; omega) f (by omega)

/-- replacing scalar fields by related values keeps the relation. -/
theorem Rel.withFields {g : S_nack_receiveLog} {m : Log} (h : Rel g m) (e l : Nat)
    (he : e < 65536) (hl : l < 65536) :
    Rel { g with end_ := (e : Int), lastConsecutive := (l : Int) } { m with end_ := e, lc := l } :=
  ⟨h.size, h.valid, rfl, rfl, h.started, he, hl, h.nbits, h.packed⟩

theorem Rel.withEnd {g : S_nack_receiveLog} {m : Log} (h : Rel g m) (e : Nat) (he : e < 65536) :
    Rel { g with end_ := (e : Int) } { m with end_ := e } :=
  ⟨h.size, h.valid, rfl, h.lc, h.started, he, h.lcLt, h.nbits, h.packed⟩

theorem Rel.start {g : S_nack_receiveLog} {m : Log} (h : Rel g m) (e l : Nat)
    (he : e < 65536) (hl : l < 65536) :
    Rel { g with end_ := (e : Int), started := true, lastConsecutive := (l : Int) }
      { m with end_ := e, started := true, lc := l } :=
  ⟨h.size, h.valid, rfl, rfl, rfl, he, hl, h.nbits, h.packed⟩

/-- the part of `add` after the clearing loop in the branch `0 < seq-end < 32768`. -/
theorem add_forward_tail {g : S_nack_receiveLog} {m : Log} (h : Rel g m) (q : Nat) (hq : q < 65536)
    (fuel : Nat) (hf : 65536 ≤ fuel) :
    ∃ g',
      (if decide (u16 (g.lastConsecutive + 1) = (q : Int)) then
          some (nack_receiveLog_setReceived { g with end_ := (q : Int), lastConsecutive := (q : Int) } (q : Int))
        else if decide (u16 ((q : Int) - g.lastConsecutive) > g.size) then
          match nack_receiveLog_fixLastConsecutive fuel
              { g with end_ := (q : Int), lastConsecutive := u16 ((q : Int) - g.size) } with
          | none => none
          | some c => some (nack_receiveLog_setReceived c (q : Int))
        else some (nack_receiveLog_setReceived { g with end_ := (q : Int) } (q : Int))) = some g' ∧
      Rel g' (setBit
        (if add16 m.lc 1 = q then { m with end_ := q, lc := q }
         else if sub16 q m.lc > m.size then fixLastConsecutive { m with end_ := q, lc := sub16 q m.size }
         else { m with end_ := q }) q true) := by
  have hll := h.lcLt
  have e1 : u16 (g.lastConsecutive + 1) = ((add16 m.lc 1 : Nat) : Int) := by rw [h.lc, u16_add_one]
  have e2 : u16 ((q : Int) - g.lastConsecutive) = ((sub16 q m.lc : Nat) : Int) := by rw [h.lc, u16_sub]
  have e3 : u16 ((q : Int) - g.size) = ((sub16 q m.size : Nat) : Int) := by rw [h.size, u16_sub]
  have hsz := h.size
  rw [e1, e2, e3]
  by_cases c1 : add16 m.lc 1 = q
  · have c1' : ((add16 m.lc 1 : Nat) : Int) = (q : Int) := by omega
    simp only [c1, decide_true, if_true]
    refine ⟨_, rfl, ?_⟩
    exact setReceived_src_eq_model (h.withFields q q hq hq) q
  · have c1' : ¬ ((add16 m.lc 1 : Nat) : Int) = (q : Int) := by omega
    simp only [c1, c1', decide_false, if_false, Bool.false_eq_true]
    by_cases c2 : sub16 q m.lc > m.size
    · have c2' : ((sub16 q m.lc : Nat) : Int) > g.size := by omega
      simp only [c2, c2', decide_true, if_true]
      have hr : Rel { g with end_ := (q : Int), lastConsecutive := ((sub16 q m.size : Nat) : Int) }
          { m with end_ := q, lc := sub16 q m.size } := h.withFields q _ hq (sub16_lt _ _)
      obtain ⟨g1, e1, r1⟩ := fixLastConsecutive_src_eq_model hr fuel hf
      rw [e1]
      exact ⟨_, rfl, setReceived_src_eq_model r1 q⟩
    · have c2' : ¬ ((sub16 q m.lc : Nat) : Int) > g.size := by omega
      simp only [c2, c2', decide_false, if_false, Bool.false_eq_true]
      refine ⟨_, rfl, ?_⟩
      exact setReceived_src_eq_model (h.withEnd q hq) q

/-- related states, field by field; scalar fields can be replaced by related values. -/
theorem Rel.fields {pk : List Int} {sz : Nat} {mb : Array Bool} {e l : Nat} {st : Bool}
    (h : Rel ⟨pk, (sz : Int), (e : Int), st, (l : Int)⟩ ⟨sz, mb, e, l, st⟩) (e' l' : Nat) (st' : Bool)
    (he : e' < 65536) (hl : l' < 65536) :
    Rel ⟨pk, (sz : Int), (e' : Int), st', (l' : Int)⟩ ⟨sz, mb, e', l', st'⟩ :=
  ⟨rfl, h.valid, rfl, rfl, rfl, he, hl, h.nbits, h.packed⟩

/-- ★ `add(seq)` terminates (fuel 65536 suffices: the clearing loop makes fewer than 32768 steps, the
scan of `fixLastConsecutive` at most 65535) and its result represents the model's `add`, for every related
pair and every `uint16` sequence number. -/
theorem add_src_eq_model {g : S_nack_receiveLog} {m : Log} (h : Rel g m) (q : Nat) (hq : q < 65536)
    (fuel : Nat) (hf : 65536 ≤ fuel) :
    ∃ g', nack_receiveLog_add fuel g (q : Int) = some g' ∧ Rel g' (ReceiveLog.add m q) := by
  have hel := h.endLt
  have hll := h.lcLt
  have hvb := validSize_bounds _ h.valid
  obtain ⟨pk, sz, en, st, lcg⟩ := g
  obtain ⟨msz, mb, me, mlc, mst⟩ := m
  have h1 := h.size; have h2 := h.end_; have h3 := h.lc; have h4 := h.started
  simp only at h1 h2 h3 h4 hel hll hvb
  subst h1 h2 h3 h4
  simp only [nack_receiveLog_add, ReceiveLog.add]
  cases st
  · -- first packet
    simp only [Bool.not_false, if_true]
    refine ⟨_, rfl, ?_⟩
    exact (setReceived_src_eq_model h q).start q q hq hq
  · simp only [Bool.not_true, Bool.false_eq_true, if_false, u16_sub, u16_add_one]
    by_cases c0 : sub16 q me = 0
    · have c0' : ((sub16 q me : Nat) : Int) = 0 := by omega
      simp only [c0, c0', decide_true, if_true]
      exact ⟨_, rfl, h⟩
    · have c0' : ¬ ((sub16 q me : Nat) : Int) = 0 := by omega
      simp only [c0, c0', decide_false, if_false, Bool.false_eq_true]
      by_cases c1 : sub16 q me < 32768
      · have c1' : ((sub16 q me : Nat) : Int) < 32768 := by omega
        simp only [c1, c1', decide_true, if_true]
        rw [clear_loop q hq _ _ (fun _ _ => rfl) (fun _ _ => rfl) (sub16 q me - 1) (add16 me 1) _
          (add16_lt _ _) (by unfold sub16 add16 at *; omega) fuel (by omega)]
        simp only []
        have hr := clearGo_rel (sub16 q me - 1) h (add16 me 1)
        generalize clearGo _ _ _ = g1 at hr ⊢
        generalize clearFrom _ _ _ = m1 at hr ⊢
        exact add_forward_tail hr q hq fuel hf
      · have c1' : ¬ ((sub16 q me : Nat) : Int) < 32768 := by omega
        simp only [c1, c1', decide_false, if_false, Bool.false_eq_true]
        by_cases c2 : sub16 me q ≥ msz
        · have c2' : ((sub16 me q : Nat) : Int) ≥ (msz : Int) := by omega
          simp only [c2, c2', decide_true, if_true]
          exact ⟨_, rfl, h⟩
        · have c2' : ¬ ((sub16 me q : Nat) : Int) ≥ (msz : Int) := by omega
          simp only [c2, c2', decide_false, if_false, Bool.false_eq_true]
          by_cases c3 : add16 mlc 1 = q
          · have c3' : ((add16 mlc 1 : Nat) : Int) = (q : Int) := by omega
            simp only [c3, c3', decide_true, if_true]
            obtain ⟨g1, e1, r1⟩ := fixLastConsecutive_src_eq_model (h.fields me q true hel hq) fuel hf
            rw [e1]
            exact ⟨_, rfl, setReceived_src_eq_model r1 q⟩
          · have c3' : ¬ ((add16 mlc 1 : Nat) : Int) = (q : Int) := by omega
            simp only [c3, c3', decide_false, if_false, Bool.false_eq_true]
            exact ⟨_, rfl, setReceived_src_eq_model h q⟩

/-! ### get -/

/-- the model-side `get` (Model/ReceiveLog.lean has none): window test, then `getBit`. -/
def getM (l : Log) (q : Nat) : Bool :=
  if sub16 l.end_ q ≥ 32768 then false
  else if sub16 l.end_ q ≥ l.size then false
  else getBit l q

/-- ★ `get(seq)` is the model-side window test followed by `getBit`, for every related pair and every
`uint16` sequence number. -/
theorem get_src_eq_model {g : S_nack_receiveLog} {m : Log} (h : Rel g m) (q : Nat) :
    nack_receiveLog_get g (q : Int) = getM m q := by
  have hsz := h.size
  simp only [nack_receiveLog_get, getM]
  rw [h.end_, u16_sub, getReceived_src_eq_model h]
  by_cases c1 : sub16 m.end_ q ≥ 32768
  · have c1' : ((sub16 m.end_ q : Nat) : Int) ≥ 32768 := by omega
    simp only [c1, c1', decide_true, if_true]
  · have c1' : ¬ ((sub16 m.end_ q : Nat) : Int) ≥ 32768 := by omega
    simp only [c1, c1', decide_false, if_false, Bool.false_eq_true]
    by_cases c2 : sub16 m.end_ q ≥ m.size
    · have c2' : ((sub16 m.end_ q : Nat) : Int) ≥ g.size := by omega
      simp only [c2, c2', decide_true, if_true]
    · have c2' : ¬ ((sub16 m.end_ q : Nat) : Int) ≥ g.size := by omega
      simp only [c2, c2', decide_false, if_false, Bool.false_eq_true]

/-! ### missingSeqNumbers -/

/-- the model's list of missing numbers among `i, i+1, …` (`n` of them), as a recursion. -/
def scanM (m : Log) (i : Nat) : Nat → List Nat
  | 0 => []
  | n + 1 => if getBit m i then scanM m (add16 i 1) n else i :: scanM m (add16 i 1) n

theorem scanM_eq (m : Log) : ∀ (n i : Nat), i < 65536 →
    ((List.range n).map (fun j => add16 i j)).filter (fun x => !getBit m x) = scanM m i n := by
  intro n
  induction n with
  | zero => intro i _; rfl
  | succ n ih =>
    intro i hi
    have e0 : add16 i 0 = i := by unfold add16; omega
    have es : ∀ j, add16 i (Nat.succ j) = add16 (add16 i 1) j := by intro j; unfold add16; omega
    rw [List.range_succ_eq_map, List.map_cons, List.map_map, List.filter_cons, e0]
    have : ((fun j => add16 i j) ∘ Nat.succ) = (fun j => add16 (add16 i 1) j) := by
      funext j; exact es j
    rw [this, ih (add16 i 1) (add16_lt _ _)]
    simp only [scanM]
    cases getBit m i <;> simp

theorem scanM_length (m : Log) : ∀ (n i : Nat), (scanM m i n).length ≤ n := by
  intro n
  induction n with
  | zero => intro i; simp [scanM]
  | succ n ih =>
    intro i
    simp only [scanM]
    have := ih (add16 i 1)
    split <;> simp <;> omega

/-- the Go loop of `missingSeqNumbers`, `n` iterations from `(c, i, buf)`. -/
def missGo (g : S_nack_receiveLog) : Nat → Int → Int → List Int → Int × Int × List Int
  | 0, c, i, buf => (c, i, buf)
  | n + 1, c, i, buf =>
    if !nack_receiveLog_getReceived g i then missGo g n (s64 (c + 1)) (u16 (i + 1)) (set buf c i)
    else missGo g n c (u16 (i + 1)) buf

/-- the loop `for i := lc+1; i != until+1; i++ {…}` started `n` steps before its stop value runs `n` times;
`n+1` units of fuel suffice. -/
theorem miss_loop (g : S_nack_receiveLog) (stop : Nat) (hs : stop < 65536)
    (cond : Int × Int × List Int → Bool) (body : Int × Int × List Int → Int × Int × List Int)
    (hc : ∀ c i b, cond (c, i, b) = decide (i ≠ (stop : Int)))
    (hb : ∀ c i b, body (c, i, b) =
      if !nack_receiveLog_getReceived g i then (s64 (c + 1), u16 (i + 1), set b c i) else (c, u16 (i + 1), b)) :
    ∀ (n i : Nat) (c : Int) (buf : List Int), i < 65536 → sub16 stop i = n → ∀ fuel, n + 1 ≤ fuel →
      loop fuel cond body (c, (i : Int), buf) = some (missGo g n c (i : Int) buf) := by
  intro n
  induction n with
  | zero =>
    intro i c buf hi hd fuel hf
    obtain ⟨f, rfl⟩ : ∃ f, fuel = f + 1 := ⟨fuel - 1, by omega⟩
    have : i = stop := by unfold sub16 at hd; omega
    simp [loop, hc, this, missGo]
  | succ n ih =>
    intro i c buf hi hd fuel hf
    obtain ⟨f, rfl⟩ : ∃ f, fuel = f + 1 := ⟨fuel - 1, by omega⟩
    have hne : ((i : Int) ≠ (stop : Int)) := by unfold sub16 at hd; omega
    have hd' : sub16 stop (add16 i 1) = n := by unfold sub16 add16 at *; omega
    simp only [loop, hc, hb, missGo, hne, ne_eq, not_false_eq_true, decide_true, if_true]
    rw [u16_add_one]
    cases nack_receiveLog_getReceived g (i : Int)
    · simp only [Bool.not_false, if_true]
      exact ih (add16 i 1) _ _ (add16_lt _ _) hd' f (by omega)
    · simp only [Bool.not_true, Bool.false_eq_true, if_false]
      exact ih (add16 i 1) _ _ (add16_lt _ _) hd' f (by omega)

theorem take_set_succ (l : List Int) (c : Nat) (v : Int) (h : c < l.length) :
    take (set l (c : Int) v) ((c + 1 : Nat) : Int) = take l (c : Int) ++ [v] := by
  have hn : ¬ ((c : Int) < 0) := by omega
  unfold take GoSem.set
  simp only [hn, if_false, Int.toNat_natCast]
  rw [List.take_add_one, List.take_set_of_le (Nat.le_refl _)]
  simp [h]

/-- what the Go loop leaves in the scratch slice: the first `c` entries are kept, the missing numbers
are appended after them — provided they fit (a Go write past the end would panic). -/
theorem missGo_spec {g : S_nack_receiveLog} {m : Log} (h : Rel g m) :
    ∀ (n i c : Nat) (buf : List Int), c + (scanM m i n).length ≤ buf.length → c + n < 2 ^ 62 →
      take (missGo g n (c : Int) (i : Int) buf).2.2 (missGo g n (c : Int) (i : Int) buf).1 =
        take buf (c : Int) ++ (scanM m i n).map (fun (x : Nat) => (x : Int)) := by
  intro n
  induction n with
  | zero => intro i c buf _ _; simp [missGo, scanM]
  | succ n ih =>
    intro i c buf hlen hc
    simp only [missGo, scanM, getReceived_src_eq_model h, u16_add_one] at hlen ⊢
    cases hb : getBit m i
    · simp only [hb, Bool.not_false, if_true, Bool.false_eq_true, if_false, List.length_cons] at hlen ⊢
      have e : s64 ((c : Int) + 1) = ((c + 1 : Nat) : Int) := by unfold s64; omega
      rw [e, ih (add16 i 1) (c + 1) _ (by rw [len_set]; omega) (by omega),
        take_set_succ _ _ _ (by omega)]
      simp
    · simp only [hb, Bool.not_true, Bool.false_eq_true, if_false, if_true] at hlen ⊢
      exact ih (add16 i 1) c buf hlen (by omega)

/-- ★ `missingSeqNumbers(skipLastN, scratch)` terminates (fuel 65536 suffices) and returns exactly the
model's `missing` list, for every related pair and every `uint16` `skipLastN`.  The only requirement on
the scratch slice is that the missing numbers fit into it: `len(scratch) ≥ |missing|` (in Go the write
`scratch[c] = i` with `c = len(scratch)` panics); its contents are irrelevant. -/
theorem missingSeqNumbers_src_eq_model {g : S_nack_receiveLog} {m : Log} (h : Rel g m) (skip : Nat)
    (buf : List Int) (hbuf : (missing m skip).length ≤ buf.length)
    (fuel : Nat) (hf : 65536 ≤ fuel) :
    nack_receiveLog_missingSeqNumbers fuel g (skip : Int) buf =
      some ((missing m skip).map (fun (x : Nat) => (x : Int))) := by
  have hel := h.endLt
  have hll := h.lcLt
  simp only [nack_receiveLog_missingSeqNumbers, missing] at hbuf ⊢
  rw [h.end_, h.lc]
  simp only [u16_sub, u16_add_one]
  by_cases c1 : skip > sub16 m.end_ m.lc
  · have c1' : (skip : Int) > ((sub16 m.end_ m.lc : Nat) : Int) := by omega
    simp only [c1, c1', decide_true, if_true, List.map_nil]
  · have c1' : ¬ (skip : Int) > ((sub16 m.end_ m.lc : Nat) : Int) := by omega
    simp only [c1, c1', decide_false, if_false, Bool.false_eq_true] at hbuf ⊢
    have hn : sub16 (add16 (sub16 m.end_ skip) 1) (add16 m.lc 1) = sub16 (sub16 m.end_ skip) m.lc := by
      unfold sub16 add16; omega
    have hnlt := sub16_lt (sub16 m.end_ skip) m.lc
    rw [scanM_eq m _ _ (add16_lt _ _)] at hbuf ⊢
    rw [miss_loop g (add16 (sub16 m.end_ skip) 1) (add16_lt _ _) _ _ (fun _ _ _ => rfl) (fun _ _ _ => rfl)
      (sub16 (sub16 m.end_ skip) m.lc) (add16 m.lc 1) 0 buf (add16_lt _ _) hn fuel (by omega)]
    simp only []
    have := missGo_spec h (sub16 (sub16 m.end_ skip) m.lc) (add16 m.lc 1) 0 buf (by omega) (by omega)
    simp only [Int.natCast_zero] at this
    rw [this]
    simp [take]

/-! ### the scratch slice of the Go caller

`GeneratorInterceptor.loop` passes `make([]uint16, n.size)`.  That is long enough because the cursor is
never more than `size` behind `end` — an invariant of the model that `new` establishes and every mutator
preserves. -/

/-- window invariant: `lastConsecutive` is at most `size` behind `end`. -/
def Win (m : Log) : Prop := sub16 m.end_ m.lc ≤ m.size

theorem fixScan_range (l : Log) : ∀ (n i : Nat), i < 65536 → ∃ k, k ≤ n ∧ fixScan l i n = add16 i k := by
  intro n
  induction n with
  | zero => intro i hi; exact ⟨0, Nat.le_refl _, by simp only [fixScan]; unfold add16; omega⟩
  | succ n ih =>
    intro i hi
    simp only [fixScan]
    split
    · obtain ⟨k, hk, e⟩ := ih (add16 i 1) (add16_lt _ _)
      exact ⟨k + 1, by omega, by rw [e]; unfold add16; omega⟩
    · exact ⟨0, by omega, by unfold add16; omega⟩

theorem fix_dist_arith (e lc k : Nat) (he : e < 65536) (hk : k ≤ sub16 e lc) :
    sub16 e (sub16 (add16 (add16 lc 1) k) 1) ≤ sub16 e lc := by
  have a1 : add16 (add16 lc 1) k = (lc + 1 + k) % 65536 := by unfold add16; omega
  have a2 : sub16 ((lc + 1 + k) % 65536) 1 = (lc + k) % 65536 := by unfold sub16; omega
  rw [a1, a2]
  unfold sub16 at *; omega

theorem fixLastConsecutive_eq (l : Log) : fixLastConsecutive l =
    { l with lc := sub16 (fixScan l (add16 l.lc 1) (sub16 l.end_ l.lc)) 1 } := rfl

theorem fix_dist (l : Log) (he : l.end_ < 65536) :
    (fixLastConsecutive l).size = l.size ∧ (fixLastConsecutive l).end_ = l.end_ ∧
    sub16 l.end_ (fixLastConsecutive l).lc ≤ sub16 l.end_ l.lc := by
  rw [fixLastConsecutive_eq]
  obtain ⟨k, hk, e⟩ := fixScan_range l (sub16 l.end_ l.lc) (add16 l.lc 1) (add16_lt _ _)
  refine ⟨rfl, rfl, ?_⟩
  show sub16 l.end_ (sub16 (fixScan l (add16 l.lc 1) (sub16 l.end_ l.lc)) 1) ≤ sub16 l.end_ l.lc
  rw [e]
  exact fix_dist_arith _ _ _ he hk

theorem clearFrom_fields : ∀ (n : Nat) (l : Log) (i : Nat),
    (clearFrom l i n).size = l.size ∧ (clearFrom l i n).end_ = l.end_ ∧ (clearFrom l i n).lc = l.lc := by
  intro n
  induction n with
  | zero => intro l i; exact ⟨rfl, rfl, rfl⟩
  | succ n ih => intro l i; simp only [clearFrom]; exact ih (setBit l i false) _

/-- ★ the constructor establishes the window invariant. -/
theorem win_new (size : Nat) : Win (ReceiveLog.new size) := by
  simp only [Win, ReceiveLog.new]; unfold sub16; omega

/-- ★ `fixLastConsecutive` preserves the window invariant (on related pairs). -/
theorem win_fixLastConsecutive {g : S_nack_receiveLog} {m : Log} (h : Rel g m) (hw : Win m) :
    Win (fixLastConsecutive m) := by
  obtain ⟨h1, h2, h3⟩ := fix_dist m h.endLt
  unfold Win at *
  rw [h1, h2]; omega

/-- ★ `add` preserves the window invariant (on related pairs, every `uint16` sequence number). -/
theorem win_add {g : S_nack_receiveLog} {m : Log} (h : Rel g m) (hw : Win m) (q : Nat) (hq : q < 65536) :
    Win (ReceiveLog.add m q) := by
  have hel := h.endLt
  have hll := h.lcLt
  have hvb := validSize_bounds _ h.valid
  unfold Win at *
  suffices key : ∀ r, r = ReceiveLog.add m q → sub16 r.end_ r.lc ≤ r.size from key _ rfl
  intro r hr
  simp only [ReceiveLog.add] at hr
  split at hr
  · subst hr; simp only [setBit]; unfold sub16; omega
  · split at hr
    · subst hr; exact hw
    · split at hr
      · obtain ⟨f1, _, f3⟩ := clearFrom_fields (sub16 q m.end_ - 1) m (add16 m.end_ 1)
        generalize clearFrom m (add16 m.end_ 1) (sub16 q m.end_ - 1) = l1 at f1 f3 hr
        simp only [setBit, f1, f3] at hr
        split at hr
        · subst hr; simp only []; unfold sub16; omega
        · split at hr
          · obtain ⟨h1, h2, h3⟩ := fix_dist ⟨m.size, l1.bits, q, sub16 q m.size, l1.started⟩ hq
            subst hr
            simp only [] at h1 h2 h3 ⊢
            rw [h1, h2]
            generalize (fixLastConsecutive _).lc = x at h3 ⊢
            unfold sub16 at *; omega
          · subst hr; simp only []; omega
      · split at hr
        · subst hr; exact hw
        · split at hr
          · obtain ⟨h1, h2, h3⟩ := fix_dist { m with lc := q } hel
            subst hr
            simp only [setBit] at h1 h2 h3 ⊢
            rw [h1, h2]
            omega
          · subst hr; simp only [setBit]; exact hw

theorem missing_length_le (m : Log) (skip : Nat) (he : m.end_ < 65536) :
    (missing m skip).length ≤ sub16 m.end_ m.lc := by
  simp only [missing]
  split
  · simp
  · refine Nat.le_trans (List.length_filter_le _ _) ?_
    simp only [List.length_map, List.length_range]
    unfold sub16 at *; omega

/-- ★ `missingSeqNumbers` with the scratch slice of the Go caller: for related pairs that satisfy the
window invariant any scratch slice of length ≥ `size` is long enough, and the result is the model's. -/
theorem missingSeqNumbers_src_eq_model_of_window {g : S_nack_receiveLog} {m : Log} (h : Rel g m) (hw : Win m)
    (skip : Nat) (buf : List Int) (hbuf : m.size ≤ buf.length) (fuel : Nat) (hf : 65536 ≤ fuel) :
    nack_receiveLog_missingSeqNumbers fuel g (skip : Int) buf =
      some ((missing m skip).map (fun (x : Nat) => (x : Int))) := by
  have := missing_length_le m skip h.endLt
  unfold Win at hw
  exact missingSeqNumbers_src_eq_model h skip buf (by omega) fuel hf


/-! ### the hypotheses are satisfiable: a concrete related pair

size 64, packets 0 and 2 received (word 0 = 0b101), end = 2, lastConsecutive = 0. -/

def gEx : S_nack_receiveLog := { packets := [5], size := 64, end_ := 2, started := true, lastConsecutive := 0 }
def mEx : Log :=
  { size := 64, bits := (Array.replicate 64 false).set! 0 true |>.set! 2 true, end_ := 2, lc := 0, started := true }

theorem rel_ex : Rel gEx mEx := by
  refine ⟨rfl, by decide, rfl, rfl, rfl, by decide, by decide, by decide, ?_⟩
  refine ⟨by decide, ?_, ?_⟩
  · intro i hi
    have : i = 0 := by simp [gEx] at hi; omega
    subst this; decide
  · decide

theorem win_ex : Win mEx := by unfold Win; decide

example : Rel (nack_receiveLog_setReceived gEx (7 : Nat)) (setBit mEx 7 true) := setReceived_src_eq_model rel_ex 7
example : Rel (nack_receiveLog_delReceived gEx (2 : Nat)) (setBit mEx 2 false) := delReceived_src_eq_model rel_ex 2
example : nack_receiveLog_getReceived gEx (66 : Nat) = getBit mEx 66 := getReceived_src_eq_model rel_ex 66
example : ∃ g', nack_receiveLog_fixLastConsecutive 65536 gEx = some g' ∧ Rel g' (fixLastConsecutive mEx) :=
  fixLastConsecutive_src_eq_model rel_ex 65536 (Nat.le_refl _)
example : ∃ g', nack_receiveLog_add 65536 gEx (70 : Nat) = some g' ∧ Rel g' (ReceiveLog.add mEx 70) :=
  add_src_eq_model rel_ex 70 (by decide) 65536 (Nat.le_refl _)
example : nack_receiveLog_get gEx (1 : Nat) = getM mEx 1 := get_src_eq_model rel_ex 1
example : nack_receiveLog_missingSeqNumbers 65536 gEx (0 : Nat) [9, 9, 9] =
    some ((missing mEx 0).map (fun (x : Nat) => (x : Int))) :=
  missingSeqNumbers_src_eq_model rel_ex 0 [9, 9, 9] (by decide) 65536 (Nat.le_refl _)
example : nack_receiveLog_missingSeqNumbers 65536 gEx (1 : Nat) (mkSlice 64) =
    some ((missing mEx 1).map (fun (x : Nat) => (x : Int))) :=
  missingSeqNumbers_src_eq_model_of_window rel_ex win_ex 1 (mkSlice 64) (by decide) 65536 (Nat.le_refl _)
example : Win (fixLastConsecutive mEx) := win_fixLastConsecutive rel_ex win_ex
example : Win (ReceiveLog.add mEx 70) := win_add rel_ex win_ex 70 (by decide)
example : Win (ReceiveLog.new 512) := win_new 512
/-- the step theorems chain over operation sequences, starting from the constructor. -/
example : ∃ g, Rel g (ReceiveLog.add (ReceiveLog.add (ReceiveLog.new 512) 65535) 3) ∧
    Win (ReceiveLog.add (ReceiveLog.add (ReceiveLog.new 512) 65535) 3) := by
  have r0 := new_rel 512 (by decide)
  obtain ⟨g1, _, r1⟩ := add_src_eq_model r0 65535 (by decide) 65536 (Nat.le_refl _)
  obtain ⟨g2, _, r2⟩ := add_src_eq_model r1 3 (by decide) 65536 (Nat.le_refl _)
  exact ⟨g2, r2, win_add r1 (win_add r0 (win_new 512) 65535 (by decide)) 3 (by decide)⟩

end Interceptor.Facts.FnNack

/-
`senderStream.processRTP` as written in pkg/report/sender_stream.go (generated translation
Gen/Fn_report.lean, regenerated from /repo on every run) computes exactly the hand-written model
`SenderReport.processRTP` (Model/SenderReport.lean) that the C07 theorems are about — for every pair of
related states, every header whose fields are in the range of their Go types, every payload.

No invariant is needed: the relation `Rel` is a field-by-field equality (the model's `Nat` fields are
the Go unsigned fields, the model's `Option Int` time is the Go `time.Time`, `none` standing for the
zero `time.Time`), it is established by the constructor (`rel_new`) and preserved by `processRTP`
(the step theorem itself), so the step theorem chains over arbitrary packet sequences (`run_src_eq_model`).
-/
import Interceptor.Gen.Fn_report
import Interceptor.Model.SenderReport
namespace Interceptor.Facts.FnSenderReport
open Interceptor.Gen.Fn Interceptor.GoSem Interceptor.SenderReport

/-- UnixNano of Go's zero `time.Time` (January 1, year 1, 00:00 UTC) as an unbounded integer:
−62135596800 s.  (It does not fit an int64; `Time.Sub` against it saturates.) -/
def goZeroTime : Int := -62135596800000000000

/-- a Go `time.Time` (Int nanoseconds) represents the model's `Option Int` (`none` = the zero time). -/
def timeRel (g : Int) (m : Option Int) : Prop :=
  match m with
  | none => g = goZeroTime
  | some u => g = u

/-- abstraction relation: the Go struct represents the model state, field by field. -/
structure Rel (g : S_report_senderStream) (m : Stream) : Prop where
  ssrc : g.ssrc = (m.ssrc : Int)
  rate : g.clockRate = F64.ofInt (m.rate : Int)
  useLatest : g.useLatestPacket = m.useLatest
  lastTs : g.lastRTPTimeRTP = (m.lastTs : Int)
  lastTime : timeRel g.lastRTPTimeTime m.lastTime
  lastSN : g.lastRTPSN = (m.lastSN : Int)
  packetCount : g.packetCount = (m.packetCount : Int)
  octetCount : g.octetCount = (m.octetCount : Int)

/-- the header fields `processRTP` reads are in the range of their Go types (uint16, uint32). -/
structure HeaderOk (h : S_rtp_Header) : Prop where
  seq : 0 ≤ h.SequenceNumber ∧ h.SequenceNumber < 65536
  ts : 0 ≤ h.Timestamp ∧ h.Timestamp < 4294967296

/-- the model packet a Go call `processRTP(now, header, payload)` stands for. -/
def pktOf (now : Int) (h : S_rtp_Header) (payload : List Int) : Pkt :=
  { now := now, seq := h.SequenceNumber.toNat, ts := h.Timestamp.toNat, len := payload.length }

/-- the struct literal of `newSenderStream(ssrc, clockRate, useLatestPacket)` (sender_stream.go:29; the
constructor is a composite literal and not in extract/fn.list, this is its transcription: every field not
named is the zero value, the zero `time.Time` being `goZeroTime`). -/
def goNew (ssrc rate : Nat) (useLatest : Bool) : S_report_senderStream :=
  { ssrc := ssrc, clockRate := F64.ofInt (rate : Int), useLatestPacket := useLatest,
    lastRTPTimeTime := goZeroTime }

/-- ★ the constructor establishes the relation. -/
theorem rel_new (ssrc rate : Nat) (useLatest : Bool) :
    Rel (goNew ssrc rate useLatest) (SenderReport.new ssrc rate useLatest) := by
  constructor <;> simp [goNew, SenderReport.new, timeRel]

theorem accepts_eq (g : S_report_senderStream) (m : Stream) (r : Rel g m) (seq : Int)
    (hs : 0 ≤ seq ∧ seq < 65536) :
    ((g.useLatestPacket || decide (g.packetCount = 0)) ||
        (decide (u16 (seq - g.lastRTPSN) > 0) && decide (u16 (seq - g.lastRTPSN) < 32768)))
      = accepts m seq.toNat := by
  unfold accepts sub16 u16
  rw [r.useLatest, r.packetCount, r.lastSN]
  have e : (((seq.toNat + 65536 - m.lastSN % 65536) % 65536 : Nat) : Int) = (seq - (m.lastSN : Int)) % 65536 := by
    omega
  have e1 : ((seq - (m.lastSN : Int)) % 65536 > 0) ↔ (0 < (seq.toNat + 65536 - m.lastSN % 65536) % 65536) := by
    omega
  have e2 : ((seq - (m.lastSN : Int)) % 65536 < 32768) ↔ ((seq.toNat + 65536 - m.lastSN % 65536) % 65536 < 32768) := by
    omega
  have e3 : ((m.packetCount : Int) = 0) ↔ m.packetCount = 0 := by omega
  have e4 : (m.packetCount == 0) = decide (m.packetCount = 0) := by
    by_cases h : m.packetCount = 0 <;> simp [h]
  simp only [e1, e2, e3, e4]

/-- ★ `senderStream.processRTP` as written in the source equals the model's step: it maps related states
to related states, for every header in the range of the Go types, every instant, every payload. -/
theorem processRTP_src_eq_model (g : S_report_senderStream) (m : Stream) (r : Rel g m)
    (now : Int) (h : S_rtp_Header) (payload : List Int) (hh : HeaderOk h) :
    Rel (report_senderStream_processRTP g now h payload) (SenderReport.processRTP m (pktOf now h payload)) := by
  have hacc := accepts_eq g m r h.SequenceNumber hh.seq
  obtain ⟨hs0, hs1⟩ := hh.seq
  obtain ⟨ht0, ht1⟩ := hh.ts
  have hpc : u32 (g.packetCount + 1) = (((m.packetCount + 1) % M32 : Nat) : Int) := by
    rw [r.packetCount]; unfold u32 M32; omega
  have hoc : u32 (g.octetCount + u32 (len payload)) = (((m.octetCount + payload.length) % M32 : Nat) : Int) := by
    rw [r.octetCount]; unfold u32 M32 len; omega
  have hts : (h.Timestamp ≠ g.lastRTPTimeRTP) ↔ (h.Timestamp.toNat ≠ m.lastTs) := by
    rw [r.lastTs]; omega
  have hp0 : (g.packetCount = 0) ↔ (m.packetCount = 0) := by rw [r.packetCount]; omega
  have hsn : h.SequenceNumber = ((h.SequenceNumber.toNat : Nat) : Int) := by omega
  have htn : h.Timestamp = ((h.Timestamp.toNat : Nat) : Int) := by omega
  unfold report_senderStream_processRTP SenderReport.processRTP pktOf
  simp only [hacc]
  cases ha : accepts m h.SequenceNumber.toNat
  · -- not accepted: only the counters move
    simp only [Bool.false_eq_true, if_false]
    exact ⟨r.ssrc, r.rate, r.useLatest, r.lastTs, r.lastTime, r.lastSN, hpc, hoc⟩
  · simp only [if_true]
    by_cases hc : h.Timestamp.toNat ≠ m.lastTs ∨ m.packetCount = 0
    · have hc' : (decide (h.Timestamp ≠ g.lastRTPTimeRTP) || decide (g.packetCount = 0)) = true := by
        rcases hc with hc | hc
        · simp [hts.mpr hc]
        · simp [hp0.mpr hc]
      simp only [hc', hc, if_true]
      exact ⟨r.ssrc, r.rate, r.useLatest, htn, rfl, hsn, hpc, hoc⟩
    · have hc' : (decide (h.Timestamp ≠ g.lastRTPTimeRTP) || decide (g.packetCount = 0)) = false := by
        have h1 : ¬ (h.Timestamp ≠ g.lastRTPTimeRTP) := fun x => hc (Or.inl (hts.mp x))
        have h2 : ¬ (g.packetCount = 0) := fun x => hc (Or.inr (hp0.mp x))
        simp [h1, h2]
      simp only [hc', hc, if_false, Bool.false_eq_true]
      exact ⟨r.ssrc, r.rate, r.useLatest, r.lastTs, r.lastTime, hsn, hpc, hoc⟩

/-- a Go call sequence: `(now, header, payload)` per packet. -/
abbrev Call := Int × S_rtp_Header × List Int

/-- the Go stream after a sequence of `processRTP` calls. -/
def goRun (g : S_report_senderStream) (cs : List Call) : S_report_senderStream :=
  cs.foldl (fun g c => report_senderStream_processRTP g c.1 c.2.1 c.2.2) g

/-- ★ the step theorem chains: any sequence of `processRTP` calls (headers in range) on related states
ends in related states — in particular from the constructor. -/
theorem run_src_eq_model (cs : List Call) (hh : ∀ c ∈ cs, HeaderOk c.2.1) :
    ∀ (g : S_report_senderStream) (m : Stream), Rel g m →
      Rel (goRun g cs) (SenderReport.run m (cs.map fun c => pktOf c.1 c.2.1 c.2.2)) := by
  induction cs with
  | nil => intro g m r; exact r
  | cons c cs ih =>
    intro g m r
    have h1 := processRTP_src_eq_model g m r c.1 c.2.1 c.2.2 (hh c (by simp))
    have := ih (fun c' hc' => hh c' (by simp [hc'])) _ _ h1
    simpa [goRun, SenderReport.run] using this

/-- the zero `time.Time` of the relation behaves like the model's `none` under `Sub`: for every int64
instant `now ≥ −2^63 + …` (any real clock reading), `now.Sub(time.Time{})` saturates at the maximal
duration, which is what `GoTime.sub now none` says. -/
theorem timeSub_zero (now : Int) (h : -9223372036854775808 ≤ now) :
    timeSub now goZeroTime = GoTime.sub now none := by
  unfold timeSub goZeroTime GoTime.sub GoTime.maxDuration
  simp only
  split
  · rfl
  · omega

/-- ★ `now.Sub(lastRTPTimeTime)` on related times: the Go saturating subtraction equals the model's
`GoTime.sub` whenever the true difference fits an int64 (`|now − t| < 2^63`; always the case for two
clock readings) or the stored time is the zero time. -/
theorem timeSub_rel (now g : Int) (m : Option Int) (r : timeRel g m) (hn : -9223372036854775808 ≤ now)
    (hd : ∀ u, m = some u → -9223372036854775808 ≤ now - u ∧ now - u ≤ 9223372036854775807) :
    timeSub now g = GoTime.sub now m := by
  cases m with
  | none => simp only [timeRel] at r; rw [r]; exact timeSub_zero now hn
  | some u =>
    simp only [timeRel] at r
    have := hd u rfl
    unfold timeSub GoTime.sub
    simp only [r]
    split
    · omega
    · split
      · omega
      · rfl

/-! satisfiability of the hypotheses on concrete non-trivial states -/

example : Rel (goNew 7 90000 false) (SenderReport.new 7 90000 false) := rel_new 7 90000 false

example : HeaderOk { SequenceNumber := 65535, Timestamp := 4294967295 } := ⟨by decide, by decide⟩

/-- a started stream (3 packets sent, last sequence number 65535) and a wrapping in-order packet. -/
example :
    let g : S_report_senderStream :=
      { ssrc := 7, clockRate := F64.ofInt 90000, useLatestPacket := false, lastRTPTimeRTP := 3000,
        lastRTPTimeTime := 946684800000000000, lastRTPSN := 65535, packetCount := 3, octetCount := 3600 }
    let m : Stream :=
      { ssrc := 7, rate := 90000, useLatest := false, lastTs := 3000, lastTime := some 946684800000000000,
        lastSN := 65535, packetCount := 3, octetCount := 3600 }
    Rel g m ∧ HeaderOk { SequenceNumber := 0, Timestamp := 6000 } :=
  ⟨⟨rfl, rfl, rfl, rfl, rfl, rfl, rfl, rfl⟩, ⟨by decide, by decide⟩⟩

example : timeRel goZeroTime none ∧ timeRel 5 (some 5) := ⟨rfl, rfl⟩

/-- two packets (the second wraps the sequence number) from the constructor. -/
example : Rel (goRun (goNew 7 90000 false)
      [(946684800000000000, { SequenceNumber := 65535, Timestamp := 3000 }, [1, 2, 3]),
       (946684800020000000, { SequenceNumber := 0, Timestamp := 6000 }, [4, 5])])
    (SenderReport.run (SenderReport.new 7 90000 false)
      [⟨946684800000000000, 65535, 3000, 3⟩, ⟨946684800020000000, 0, 6000, 2⟩]) :=
  run_src_eq_model _ (by
    intro c hc
    simp only [List.mem_cons, List.not_mem_nil, or_false] at hc
    rcases hc with rfl | rfl <;> exact ⟨by decide, by decide⟩) _ _ (rel_new 7 90000 false)

example : timeSub 946684800020000000 946684800000000000 = GoTime.sub 946684800020000000 (some 946684800000000000) :=
  timeSub_rel _ _ _ rfl (by omega) (fun u hu => by cases hu; omega)

end Interceptor.Facts.FnSenderReport

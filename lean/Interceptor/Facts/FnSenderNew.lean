/-
Generated translation (Gen/Fn_report.lean, regenerated from /repo on every run) of `newSenderStream`
(pkg/report/sender_stream.go) against the transcription `goNew` that Facts/FnSenderReport.lean's `rel_new`
starts from: the constructor as written in the source IS that literal, so
`Rel (newSenderStream …) (SenderReport.new …)` holds for the regenerated definition and the chain
constructor → processRTP* → generateReport is about source-derived definitions from the first step on.
-/
import Interceptor.Gen.Fn_report
import Interceptor.Facts.FnSenderReport
namespace Interceptor.Facts.FnSenderNew
open Interceptor.Gen.Fn Interceptor.GoSem Interceptor

/-! ## report: newSenderStream -/

/-- ★ the constructor as written in the source is the literal `rel_new` is about (the zero `time.Time` is the
default of the generated structure). -/
theorem newSenderStream_src_eq_goNew (ssrc rate : Nat) (useLatest : Bool) :
    report_newSenderStream ssrc rate useLatest = FnSenderReport.goNew ssrc rate useLatest := rfl

/-- ★ the constructor as written in the source establishes the abstraction relation of FnSenderReport. -/
theorem newSenderStream_rel (ssrc rate : Nat) (useLatest : Bool) :
    FnSenderReport.Rel (report_newSenderStream ssrc rate useLatest) (SenderReport.new ssrc rate useLatest) := by
  rw [newSenderStream_src_eq_goNew]; exact FnSenderReport.rel_new ssrc rate useLatest

end Interceptor.Facts.FnSenderNew

/-
Generated translations (Gen/Fn_jitterbuffer.lean, regenerated from /repo on every run) of the scalar accessors
of pkg/jitterbuffer the hand-written model mirrors:

* `JitterBuffer.PlayoutHead` / `SetPlayoutHead` (jitter_buffer.go) against `JB.head` / `JB.setPlayoutHead` of
  Model/JitterBuffer.lean (C18's "pops at the playout head"): under the field-by-field relation `RelJB` on the
  scalar part of the struct (the queue is a pointer structure, outside the translator's subset, and is tied by
  the correspondence run), the getter returns the model's head and the setter is the model's setter — it moves
  the head and nothing else (not the state, not `playoutReady`, not the counters).
* `PriorityQueue.Length` returns the `length` field (what `updateState`/`Push` compare with the thresholds).
-/
import Interceptor.Gen.Fn_jitterbuffer
import Interceptor.Model.JitterBuffer
namespace Interceptor.Facts.FnJitterAcc
open Interceptor.Gen.Fn Interceptor.GoSem Interceptor

/-! ## jitterbuffer -/

/-- `State` as the Go constant (`Buffering = iota`, `Emitting`). -/
def stCode : JitterBuffer.St → Int
  | .buffering => 0
  | .emitting => 1

/-- the scalar part of the Go struct represents the model state, field by field. -/
structure RelJB {I : JitterBuffer.QImpl} (g : S_jitterbuffer_JitterBuffer) (m : JitterBuffer.JB I) : Prop where
  minStart : g.minStartCount = (m.minStart : Int)
  overflowLen : g.overflowLen = (m.overflowLen : Int)
  lastSeq : g.lastSequence = (m.lastSeq : Int)
  head : g.playoutHead = (m.head : Int)
  ready : g.playoutReady = m.ready
  state : g.state = stCode m.state

/-- ★ `PlayoutHead` as written in the source returns the model's head. -/
theorem playoutHead_src_eq_model {I : JitterBuffer.QImpl} (g : S_jitterbuffer_JitterBuffer)
    (m : JitterBuffer.JB I) (r : RelJB g m) : jitterbuffer_JitterBuffer_PlayoutHead g = (m.head : Int) := r.head

/-- ★ `SetPlayoutHead` as written in the source is the model's setter: related states stay related, for
every uint16 argument. -/
theorem setPlayoutHead_src_eq_model {I : JitterBuffer.QImpl} (g : S_jitterbuffer_JitterBuffer)
    (m : JitterBuffer.JB I) (r : RelJB g m) (h : Nat) :
    RelJB (jitterbuffer_JitterBuffer_SetPlayoutHead g (h : Int)) (m.setPlayoutHead h) := by
  constructor <;> simp [jitterbuffer_JitterBuffer_SetPlayoutHead, JitterBuffer.JB.setPlayoutHead,
    r.minStart, r.overflowLen, r.lastSeq, r.ready, r.state]

/-- ★ and it touches nothing but the head (statistics included, which the model does not carry). -/
theorem setPlayoutHead_frame (g : S_jitterbuffer_JitterBuffer) (h : Int) :
    jitterbuffer_JitterBuffer_SetPlayoutHead g h = { g with playoutHead := h } := rfl

/-- ★ get-after-set. -/
theorem playoutHead_set (g : S_jitterbuffer_JitterBuffer) (h : Int) :
    jitterbuffer_JitterBuffer_PlayoutHead (jitterbuffer_JitterBuffer_SetPlayoutHead g h) = h := rfl

/-- ★ `PriorityQueue.Length` reads the counter field. -/
theorem length_src (q : S_jitterbuffer_PriorityQueue) : jitterbuffer_PriorityQueue_Length q = q.length := rfl

/-- the relation is inhabited: the zero struct with the constructor's thresholds and the model's initial state. -/
example : RelJB (I := JitterBuffer.heapImpl) { minStartCount := 50, overflowLen := 100 } { q := {} } := by
  constructor <;> rfl

end Interceptor.Facts.FnJitterAcc

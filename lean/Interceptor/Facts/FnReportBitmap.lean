/-
The generated translations of the three bitmap helpers of pkg/report/receiver_stream.go
(setReceived / delReceived / getReceived, Gen/Fn_report.lean) compute exactly the model's
`setBit` / `getBit` of Model/ReceiverReport.lean, on the abstraction "packed `[]uint64` of 128 words ↔
`Array Bool` of 8192 positions" (Base/GoBitmap.lean).
-/
import Interceptor.Gen.Fn_report
import Interceptor.Model.ReceiverReport
import Interceptor.Base.GoBitmap
namespace Interceptor.Facts.FnReportBitmap
open Interceptor Interceptor.Gen.Fn Interceptor.GoSem Interceptor.ReceiverReport

/-- the history of the Go `receiverStream` `g` represents the model bit vector `bits`: `size` is the 128
of `newReceiverStream` (no method assigns it), the model has one bit per position (`W = 128·64`), and the
packed words hold these bits (`Packed`: `len(packets)·64 = len(bits)`, every word `< 2^64`, bit `p%64` of
word `p/64` = `bits[p]`). -/
structure BRel (g : S_report_receiverStream) (bits : Array Bool) : Prop where
  size : g.size = 128
  nbits : bits.size = W
  packed : Packed g.packets bits

/-- `packets` has 128 words. -/
theorem BRel.words {g : S_report_receiverStream} {bits : Array Bool} (h : BRel g bits) :
    g.packets.length = 128 := by
  have h1 := h.packed.size
  have h2 := h.nbits
  unfold W at h2
  omega

theorem BRel.slot {g : S_report_receiverStream} {bits : Array Bool} (h : BRel g bits) (q : Nat) :
    (q : Int) % u16 (g.size * 64) = ((q % W : Nat) : Int) := by
  have e : u16 (128 * 64) = 8192 := by decide
  rw [h.size, e]; unfold W; omega

theorem BRel.slot_lt {g : S_report_receiverStream} {bits : Array Bool} (h : BRel g bits) (q : Nat) :
    q % W < bits.size := by
  rw [h.nbits]; unfold W; omega

/-- the history part of the state `newReceiverStream` builds: `size: 128, packets: make([]uint64, 128)`
(the function itself draws a random SSRC and is not translated). -/
def newGo (ssrc receiverSSRC : Int) (clockRate : Rat) : S_report_receiverStream :=
  { ssrc := ssrc, receiverSSRC := receiverSSRC, clockRate := clockRate, size := 128, packets := mkSlice 128 }

/-- ★ constructor: the all-zero history of `newReceiverStream` represents the model's initial bit vector
(`Array.replicate W false`, the default of `Stream.bits`). -/
theorem new_rel (ssrc receiverSSRC : Int) (clockRate : Rat) (s r : Nat) :
    BRel (newGo ssrc receiverSSRC clockRate) (ReceiverReport.new s r).bits := by
  refine ⟨rfl, by simp [ReceiverReport.new], ?_⟩
  exact Packed.zero 128

/-- ★ `setReceived(seq)` changes only `packets`, and the new history represents the model's
`setBit · seq true` (every related pair, every `seq`). -/
theorem setReceived_src_eq_model {g : S_report_receiverStream} {bits : Array Bool} (h : BRel g bits) (q : Nat) :
    BRel (report_receiverStream_setReceived g (q : Int)) (setBit bits q true) ∧
    report_receiverStream_setReceived g (q : Int) =
      { g with packets := (report_receiverStream_setReceived g (q : Int)).packets } := by
  have hp := h.packed.setBit (q % W) (h.slot_lt q)
  rw [← h.slot q] at hp
  exact ⟨⟨h.size, by simp [setBit, h.nbits], hp⟩, rfl⟩

/-- ★ `delReceived(seq)` changes only `packets`, and the new history represents the model's
`setBit · seq false` (every related pair, every `seq`). -/
theorem delReceived_src_eq_model {g : S_report_receiverStream} {bits : Array Bool} (h : BRel g bits) (q : Nat) :
    BRel (report_receiverStream_delReceived g (q : Int)) (setBit bits q false) ∧
    report_receiverStream_delReceived g (q : Int) =
      { g with packets := (report_receiverStream_delReceived g (q : Int)).packets } := by
  have hp := h.packed.clearBit (q % W) (h.slot_lt q)
  rw [← h.slot q] at hp
  exact ⟨⟨h.size, by simp [setBit, h.nbits], hp⟩, rfl⟩

/-- ★ `getReceived(seq)` is the model's `getBit` (every related pair, every `seq`). -/
theorem getReceived_src_eq_model {g : S_report_receiverStream} {bits : Array Bool} (h : BRel g bits) (q : Nat) :
    report_receiverStream_getReceived g (q : Int) = getBit bits q := by
  have hp := h.packed.getBit (q % W) (h.slot_lt q)
  rw [← h.slot q] at hp
  exact hp

/-- the relation only looks at `size` and `packets`: every other field may change. -/
theorem BRel.frame {g g' : S_report_receiverStream} {bits : Array Bool} (h : BRel g bits)
    (hs : g'.size = g.size) (hp : g'.packets = g.packets) : BRel g' bits :=
  ⟨by rw [hs]; exact h.size, h.nbits, by rw [hp]; exact h.packed⟩

/-! ### the hypotheses are satisfiable -/

example : BRel (report_receiverStream_setReceived (newGo 1 2 90000) (8200 : Nat))
    (setBit (ReceiverReport.new 1 90000).bits 8200 true) :=
  (setReceived_src_eq_model (new_rel 1 2 90000 1 90000) 8200).1
example : BRel (report_receiverStream_delReceived (report_receiverStream_setReceived (newGo 1 2 90000) (8200 : Nat)) (8 : Nat))
    (setBit (setBit (ReceiverReport.new 1 90000).bits 8200 true) 8 false) :=
  (delReceived_src_eq_model (setReceived_src_eq_model (new_rel 1 2 90000 1 90000) 8200).1 8).1
example : report_receiverStream_getReceived (report_receiverStream_setReceived (newGo 1 2 90000) (8200 : Nat)) (8 : Nat) =
    getBit (setBit (ReceiverReport.new 1 90000).bits 8200 true) 8 :=
  getReceived_src_eq_model (setReceived_src_eq_model (new_rel 1 2 90000 1 90000) 8200).1 8

end Interceptor.Facts.FnReportBitmap

/- Types of the regenerated wrapper-shape facts (see /verif/extract/wrapper.go). -/
import Interceptor.Facts.LockTypes
namespace Interceptor.Facts

/-- syntactic shape of one reader/writer wrapper returned by a Bind* method. -/
structure WrapperShape where
  label : String
  name : Name
  kind : String
  /-- call sites of the wrapped reader / writer inside the wrapper -/
  inner : Nat
  /-- how many of them pass exactly the wrapper's own parameters -/
  ownArgs : Nat
  /-- later assignments to the variable holding the inner call's byte count -/
  nMutated : Nat
  /-- every `return` under `if err != nil` hands the error on -/
  errZero : Bool
  deriving Repr

/-- the pass-through shape: the wrapped object is called, always with the wrapper's own arguments, the
byte count it returns is never modified, and its error is handed on. -/
def passThrough (w : WrapperShape) : Bool :=
  w.inner ≥ 1 && w.ownArgs == w.inner && w.nMutated == 0 && w.errZero

def wrappersOk (ex : List (Name × String)) (ws : List WrapperShape) : Bool :=
  ws.all fun w => passThrough w || ex.any (fun e => e.1 == w.name)

def notPassThrough (ex : List (Name × String)) (ws : List WrapperShape) : List String :=
  (ws.filter fun w => !(passThrough w || ex.any (fun e => e.1 == w.name))).map (·.label)

end Interceptor.Facts

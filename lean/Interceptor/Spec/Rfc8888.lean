/-
Abstract description of RFC 8888 reporting for one stream, over histories of events on
*unwrapped* sequence numbers.  A history is a list, NEWEST event first.
-/
import Interceptor.Model.Rfc8888
namespace Interceptor.Rfc8888

/-- one event of a stream: an arrival (after unwrapping) or a report build with its budget. -/
inductive Ev where
  | add (ts : Int) (u : Int) (ecn : Nat)
  | report (ref : Int) (budget : Int)

/-- `firstArrival h n`: arrival record of the FIRST copy of number `n` in the history. -/
def firstArrival : List Ev → Int → Option Entry
  | [], _ => none
  | .add ts u ecn :: h, n =>
    match firstArrival h n with
    | some e => some e
    | none => if u = n then some ⟨ts, ecn⟩ else none
  | .report _ _ :: h, n => firstArrival h n

/-- the stream log after a history (model run). -/
def exec (ssrc : Nat) : List Ev → StreamLog
  | [] => StreamLog.new ssrc
  | .add ts u ecn :: h => addU (exec ssrc h) ts u ecn
  | .report ref b :: h => (metricsAfter (exec ssrc h) ref b).1

/-- the report block built after history `h`. -/
def reportAfter (ssrc : Nat) (h : List Ev) (ref b : Int) : Block := (metricsAfter (exec ssrc h) ref b).2

/-- all arrivals of a history carry non-negative numbers (what the unwrapper produces: C20). -/
def NonNeg : List Ev → Prop
  | [] => True
  | .add _ u _ :: h => 0 ≤ u ∧ NonNeg h
  | .report _ b :: h => 0 ≤ b ∧ NonNeg h

/-- `emit ref m n i`: the metric blocks for the numbers `i, i+1, …, i+n-1` read from map `m`. -/
def emit (ref : Int) (m : Log) : Nat → Int → List Metric
  | 0, _ => []
  | n + 1, i => mkMetric ref (lookup m i) :: emit ref m n (i + 1)

/-- acknowledge the gap-free received prefix starting at `i` (at most `n` numbers):
the map without it, and the new cursor. -/
def ack (m : Log) : Nat → Int → Log × Int
  | 0, i => (m, i)
  | n + 1, i => if (lookup m i).isSome then ack (erase m i) n (i + 1) else (m, i)

/-- first number of the range a report with budget `b` lists. -/
def rangeBegin (l : StreamLog) (b : Int) : Int := max l.next (l.last - b + 1)

/-- how a report describes number `n`: `none` when outside the listed range. -/
def reportedAs (blk : Block) (beginU : Int) (n : Int) : Option Metric :=
  if beginU ≤ n then blk.metrics[(n - beginU).toNat]? else none

/-- the exact value the arrival time offset encodes: `⌊1024·(ref − arr)⌋` with ref, arr in ns,
`0x1FFE` when too large, `0x1FFF` when the arrival is after the report time. -/
def atoSpec (ref arr : Int) : Nat :=
  if ref < arr then 0x1FFF else min ((2 * (ref - arr)) / 1953125).toNat 0x1FFE

end Interceptor.Rfc8888

/-
Abstract specification for C03 over *unwrapped* sequence numbers (`Int`).

Per stream: `first` = the first number ever received, `hi` = the highest number received,
`recv` = the numbers received while inside the window `(hi − size, hi]` (an arrival outside
the window is ignored; when `hi` advances, members that fall out are dropped).  A 16-bit
arrival `q` denotes the unwrapped number congruent to `q` in `[hi − 32768, hi + 32767]`
(a jump of 2^15 or more is by definition a late packet).

`missing` = the numbers after the first packet, inside the window, at most `hi − skip`, not received.
-/
import Interceptor.Model.ReceiveLog
namespace Interceptor.NackSpec

structure Stream where
  first : Int
  hi : Int
  recv : List Int

/-- the unwrapped number denoted by the 16-bit value `q` when the highest number is `hi`. -/
def unwrapAt (hi : Int) (q : Nat) : Int :=
  let d := ((q : Int) - hi) % 65536
  if d < 32768 then hi + d else hi + d - 65536

def arrive (size : Nat) (s : Option Stream) (q : Nat) : Option Stream :=
  match s with
  | none => some { first := q, hi := q, recv := [(q : Int)] }
  | some a =>
    let x := unwrapAt a.hi q
    let hi' := if a.hi < x then x else a.hi
    if hi' - size < x then
      some { a with hi := hi', recv := (x :: a.recv).filter (fun y => hi' - size < y) }
    else some a

/-- missing numbers, unwrapped, ascending. -/
def missingU (size : Nat) (a : Stream) (skip : Nat) : List Int :=
  let lo := if a.first < a.hi - size then a.hi - size else a.first
  ((List.range (a.hi - skip - lo).toNat).map (fun (j : Nat) => lo + 1 + (j : Int))).filter
    (fun x => !a.recv.contains x)

/-- as 16-bit numbers. -/
def missing (size : Nat) (s : Option Stream) (skip : Nat) : List Nat :=
  match s with
  | none => []
  | some a => (missingU size a skip).map (fun x => (x % 65536).toNat)

/-- generator level: the stream spec plus, per 16-bit number, how often it has been requested
while missing. -/
structure GStream where
  s : Option Stream
  counts : ReceiveLog.Counts

/-- Tick for one bound SSRC: request every missing number that has been requested fewer than
`max` times (`max = 0`: no limit); remember one more request for each of them; forget the
numbers that are no longer missing.  No packet when nothing is to be requested. -/
def tickCounts (max : Nat) (m : List Nat) (c : ReceiveLog.Counts) : ReceiveLog.Counts × Option (List Nat) :=
  let req := if max = 0 then m else m.filter (fun x => ReceiveLog.cnt c x < max)
  let c' : ReceiveLog.Counts := m.foldl (fun acc x =>
    let n := ReceiveLog.cnt c x
    acc.insert x (if max = 0 ∨ n < max then n + 1 else n)) ∅
  (c', if req.isEmpty then none else some req)

def tickStream (cfg : ReceiveLog.Cfg) (st : GStream) : GStream × Option (List Nat) :=
  let r := tickCounts cfg.max (missing cfg.size st.s cfg.skip) st.counts
  ({ st with counts := r.1 }, r.2)

end Interceptor.NackSpec

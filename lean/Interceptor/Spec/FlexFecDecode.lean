/-
Spec: an independent FlexFEC-03 single-loss recovery, written from
draft-ietf-payload-flexible-fec-scheme-03 (§4.2 FEC header, §6.3 "Recovery Procedures").
It does not import the encoder model and does not follow the package's own decoder.

FEC header (the RTP payload of a repair packet), flexible-mask variant (R = F = 0):

    0                   1                   2                   3
    0 1 2 3 4 5 6 7 8 9 0 1 2 3 4 5 6 7 8 9 0 1 2 3 4 5 6 7 8 9 0 1
   |R|F|P|X|  CC   |M| PT recovery |         length recovery       |
   |                          TS recovery                          |
   |   SSRCCount   |                    reserved                   |
   |                             SSRC_i                            |
   |           SN base_i           |k|          Mask [0-14]        |
   |k|                   Mask [15-45] (optional)                   |
   |k|                                                             |
   +-+                   Mask [46-108] (optional)                  |

k = 1: last mask block.  Mask bit `j` set ⇔ the packet with sequence number `SN base + j` is
protected.

Recovery (§6.3.2): the bit string of a received source packet is its first 64 header bits followed
by the 16-bit value (length − 12); the FEC bit string is the first 64 bits of the FEC header, whose
fields are (flags, length recovery, TS recovery).  Field by field the xor gives: P, X, CC, M, PT
(first two bits skipped, version set to 2), the length Y, the timestamp.  SN = SN base + mask
position, SSRC = SSRC_i.  The payload (everything after the 12-byte header: CSRC list, extension,
payload, padding) is the xor of the repair payload with the received packets' post-header bytes,
each zero-extended, truncated to Y bytes.
-/
namespace Interceptor.FlexFecSpec

abbrev Bytes := List Nat

/-- xor of two byte strings, the shorter one zero-extended. -/
def xorBytes : Bytes → Bytes → Bytes
  | a :: as, b :: bs => (a ^^^ b) :: xorBytes as bs
  | as, [] => as
  | [], bs => bs

/-- big-endian value of a byte string. -/
def beVal (bs : Bytes) : Nat := bs.foldl (fun a b => a * 256 + b) 0

def slice (bs : Bytes) (off len : Nat) : Bytes := (bs.drop off).take len

structure FecHeader where
  size : Nat            -- 20, 24 or 32
  ssrc : Bytes          -- 4 bytes
  snBase : Nat
  positions : List Nat  -- protected offsets from snBase, ascending
deriving Repr

/-- the positions named by a mask field of `width` bits with value `v` (bit 0 of the field = its
most significant bit), the first bit naming position `first`. -/
def maskBits (v width first : Nat) : List Nat :=
  ((List.range width).filter fun t => (v / 2 ^ (width - 1 - t)) % 2 == 1).map (first + ·)

/-- parse the FEC header; `none` if truncated or not a single-SSRC flexible-mask header.
Each mask block is a big-endian word whose top bit is `k` and whose remaining bits are the mask. -/
def parseHeader (fec : Bytes) : Option FecHeader :=
  if fec.length < 20 then none
  else if fec.getD 0 0 / 64 ≠ 0 then none                 -- R, F must be 0
  else if fec.getD 8 0 ≠ 1 then none                      -- SSRCCount
  else
    let ssrc := slice fec 12 4
    let snBase := beVal (slice fec 16 2)
    let w1 := beVal (slice fec 18 2)                      -- k | Mask [0-14]
    let p1 := maskBits (w1 % 2 ^ 15) 15 0
    if w1 / 2 ^ 15 = 1 then some ⟨20, ssrc, snBase, p1⟩
    else if fec.length < 24 then none
    else
      let w2 := beVal (slice fec 20 4)                    -- k | Mask [15-45]
      let p2 := maskBits (w2 % 2 ^ 31) 31 15
      if w2 / 2 ^ 31 = 1 then some ⟨24, ssrc, snBase, p1 ++ p2⟩
      else if fec.length < 32 then none
      else
        let w3 := beVal (slice fec 24 8)                  -- k | Mask [46-108]
        some ⟨32, ssrc, snBase, p1 ++ p2 ++ maskBits (w3 % 2 ^ 63) 63 46⟩

/-- the 64-bit string of a source packet arranged as the FEC header's first 64 bits:
(first 16 header bits, length − 12, timestamp). -/
def bitString (p : Bytes) : Bytes :=
  let y := p.length - 12
  slice p 0 2 ++ [y / 256 % 256, y % 256] ++ slice p 4 4

/-- §6.3.2/§6.3.3 for one repair packet `fec`, the packet at mask position `pos` missing and
`others` the received packets it protects. -/
def recoverAt (fec : Bytes) (h : FecHeader) (pos : Nat) (others : List Bytes) : Option Bytes :=
  let r := others.foldl (fun acc p => xorBytes acc (bitString p)) (slice fec 0 8)
  let y := beVal (slice r 2 2)
  let body := others.foldl (fun acc p => xorBytes acc (p.drop 12)) (fec.drop h.size)
  let sn := (h.snBase + pos) % 65536
  if body.length < y then none
  else some ([128 ||| (r.getD 0 0 &&& 63), r.getD 1 0, sn / 256, sn % 256]
             ++ slice r 4 4 ++ h.ssrc ++ body.take y)

def seqOf (p : Bytes) : Nat := beVal (slice p 2 2)

/-- a received packet with this SSRC and sequence number. -/
def findPacket (received : List Bytes) (ssrc : Bytes) (sn : Nat) : Option Bytes :=
  received.find? fun p => slice p 8 4 == ssrc && seqOf p == sn

/-- full decoder step: given a repair packet's payload and the received source packets, recover
the unique missing protected packet (`none` when none or more than one is missing). -/
def recover (fec : Bytes) (received : List Bytes) : Option Bytes :=
  match parseHeader fec with
  | none => none
  | some h =>
    let look := h.positions.map fun pos => (pos, findPacket received h.ssrc ((h.snBase + pos) % 65536))
    match look.filter (fun x => x.2.isNone) with
    | [(pos, _)] => recoverAt fec h pos (look.filterMap (·.2))
    | _ => none

end Interceptor.FlexFecSpec

/-
Spec for C06: RFC 3550 quantities recounted from the reception history (a list of events),
written without the stream's bitmap / cycle counter / modular state.

Extended sequence numbers are `Nat` offset by 2^16 (the first packet `s` gets `s + 65536`), so
that packets older than the first one still have a non-negative extended number.
-/
import Interceptor.Model.ReceiverReport
namespace Interceptor.ReceiverReport
open Interceptor Interceptor.F64 Interceptor.GoTime

/-- what a bound remote stream sees. -/
inductive Ev where
  | rtp (now : Int) (seq ts : Nat)
  | sr (now : Int) (ntp : Nat)
  | report (now : Int)
  deriving Repr, DecidableEq

/-- one event on the model. -/
def stepEv (s : Stream) : Ev → Stream × Option RR
  | .rtp now seq ts => (processRTP s now seq ts, none)
  | .sr now ntp => (processSR s now ntp, none)
  | .report now => let (r, s') := generateReport s now; (s', some r)

/-- the reports the model emits over a history. -/
def runEv : Stream → List Ev → List RR
  | _, [] => []
  | s, e :: es =>
    match stepEv s e with
    | (s', some r) => r :: runEv s' es
    | (s', none) => runEv s' es

/-- the interval losses the model computes at each report of a history. -/
def intervalLosses : Stream → List Ev → List Nat
  | _, [] => []
  | s, e :: es =>
    match e with
    | .report _ => lostInterval s :: intervalLosses (stepEv s e).1 es
    | _ => intervalLosses (stepEv s e).1 es

namespace Spec

/-- `seq` is ahead of the highest `h` (extended) in half-range order. -/
def ahead (h seq : Nat) : Bool :=
  decide (0 < sub16 seq (h % 65536)) && decide (sub16 seq (h % 65536) < 32768)

/-- the extended number of `seq` relative to the highest `h`: ahead of it by the forward
distance, otherwise behind it by the backward distance (RFC 3550 A.1 without probation). -/
def extend (h seq : Nat) : Nat :=
  if ahead h seq then h + sub16 seq (h % 65536) else h - sub16 (h % 65536) seq

/-- extended highest sequence number after a packet (`none`: nothing received yet). -/
def highest (h : Option Nat) (seq : Nat) : Nat :=
  match h with
  | none => seq + 65536
  | some h => if ahead h seq then extend h seq else h

/-- the 32-bit extended highest sequence number: cycles in the upper 16 bits; 0 before any packet. -/
def extOf : Option Nat → Nat
  | none => 0
  | some h => (h - 65536) % M32

/-- T1 spec: the `LastSequenceNumber` of every report: extended highest (cycles in the upper
16 bits), modulo 2^32; 0 before any packet. -/
def extReports : Option Nat → List Ev → List Nat
  | _, [] => []
  | h, .rtp _ seq _ :: es => extReports (some (highest h seq)) es
  | h, .sr _ _ :: es => extReports h es
  | h, .report _ :: es => extOf h :: extReports h es

/-- reception history for the loss accounting. -/
structure Loss where
  h : Nat              -- extended highest received
  h0 : Nat             -- extended highest at the previous report (first − 1 before any report)
  recv : List Nat      -- extended numbers received so far
  total : Nat          -- cumulative lost (saturated)

/-- numbers in `(h0, h]` not received so far. -/
def lostIn (h0 h : Nat) (recv : List Nat) : Nat :=
  ((List.range (h - h0)).filter fun k => decide (h0 + 1 + k ∉ recv)).length

def lossRtp (l : Option Loss) (seq : Nat) : Loss :=
  match l with
  | none => { h := seq + 65536, h0 := seq + 65535, recv := [seq + 65536], total := 0 }
  | some l => { l with h := highest (some l.h) seq, recv := extend l.h seq :: l.recv }

/-- T2/T3/T4 spec: per report `(expected, lost, fraction, cumulative)` with
`expected = h − h0`, `lost` = numbers of the interval not received so far,
`fraction = ⌊256·lost/expected⌋` (0 for an empty interval), cumulative = saturating sum. -/
def lossReports : Option Loss → List Ev → List (Nat × Nat × Nat × Nat)
  | _, [] => []
  | l, .rtp _ seq _ :: es => lossReports (some (lossRtp l seq)) es
  | l, .sr _ _ :: es => lossReports l es
  | none, .report _ :: es => (0, 0, 0, 0) :: lossReports none es
  | some l, .report _ :: es =>
    let e := l.h - l.h0
    let lost := lostIn l.h0 l.h l.recv
    let total := min 16777215 (l.total + lost)
    (e, lost, (if e = 0 then 0 else lost * 256 / e), total) :: lossReports (some { l with h0 := l.h, total }) es

/-- the hypothesis the 8192-position bitmap forces (F-08): every packet ahead of the highest keeps
the open report interval within 8192 numbers, every other packet is less than 8192 behind it. -/
def H8192 : Option Loss → List Ev → Prop
  | _, [] => True
  | none, .rtp _ seq _ :: es => H8192 (some (lossRtp none seq)) es
  | some l, .rtp _ seq _ :: es =>
    (if ahead l.h seq then extend l.h seq - l.h0 ≤ 8192 else sub16 (l.h % 65536) seq < 8192) ∧
    H8192 (some (lossRtp (some l) seq)) es
  | l, .sr _ _ :: es => H8192 l es
  | none, .report _ :: es => H8192 none es
  | some l, .report _ :: es => H8192 (some { l with h0 := l.h, total := min 16777215 (l.total + lostIn l.h0 l.h l.recv) }) es

/-- T4 spec: saturating prefix sums. -/
def satSums (t : Nat) : List Nat → List Nat
  | [] => []
  | l :: ls => min 16777215 (t + l) :: satSums (min 16777215 (t + l)) ls

/-- T6 spec: `(LSR, DLSR)` of every report: middle 32 bits of the NTP time of the last sender
report and the binary64 value of (seconds since its arrival) · 65536 truncated to uint32;
`(0, 0)` before any. -/
def lsrReports : Option (Nat × Int) → List Ev → List (Nat × Nat)
  | _, [] => []
  | o, .rtp _ _ _ :: es => lsrReports o es
  | _, .sr now ntp :: es => lsrReports (some (ntp, now)) es
  | o, .report now :: es =>
    (match o with
     | none => (0, 0)
     | some (ntp, t) => ((ntp / 65536) % M32, toUint32 (mul (seconds (max (now - t) 0)) 65536))) :: lsrReports o es

/-- T5 spec: the jitter after a history: RFC 3550 A.8 recurrence `J += (|D| − J)/16` in binary64,
with `D = Δarrival·rate − (ts − ts')`, the timestamp difference modulo 2^32 as a signed value. -/
def jitterAfter (rate : Nat) : Option (Int × Nat) → Rat → List Ev → Rat
  | _, j, [] => j
  | none, j, .rtp now _ ts :: es => jitterAfter rate (some (now, ts)) j es
  | some (t, ts'), j, .rtp now _ ts :: es =>
    jitterAfter rate (some (now, ts)) (jitterStep j (jitterD rate (now - t) ts ts')) es
  | o, j, _ :: es => jitterAfter rate o j es

/-- T5 spec at the observable: the jitter field of every report. -/
def jitterReports (rate : Nat) : Option (Int × Nat) → Rat → List Ev → List Nat
  | _, _, [] => []
  | none, j, .rtp now _ ts :: es => jitterReports rate (some (now, ts)) j es
  | some (t, ts'), j, .rtp now _ ts :: es =>
    jitterReports rate (some (now, ts)) (jitterStep j (jitterD rate (now - t) ts ts')) es
  | o, j, .sr _ _ :: es => jitterReports rate o j es
  | o, j, .report _ :: es => toUint32 j :: jitterReports rate o j es

end Spec
end Interceptor.ReceiverReport

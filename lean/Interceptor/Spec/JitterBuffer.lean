/-
Abstract (list-level) specification of the PriorityQueue: the buffered `(priority, packet)`
entries in queue order.  `listImpl` packages it as a queue implementation, so the very same
JitterBuffer code (`Model/JitterBuffer.lean`) runs on top of it; the driver runs the heap-level
model and this spec side by side and prints `SPEC-DIFF` when they disagree.
-/
import Interceptor.Model.JitterBuffer
namespace Interceptor.JitterBuffer

abbrev Entry := Nat × Pkt

/-- ordered insert: before the first entry whose priority is `≥` the new one. -/
def insertL : List Entry → Entry → List Entry
  | [], e => [e]
  | x :: t, e => if e.1 ≤ x.1 then e :: x :: t else x :: insertL t e

def findL (l : List Entry) (sq : Nat) : Res (Option Pkt) :=
  match l.find? (fun e => e.1 == sq) with
  | some e => .ok (some e.2)
  | none => .err "notfound"

/-- remove the first entry satisfying `pred`. -/
def popByL (l : List Entry) (pred : Entry → Bool) : Res (Option Pkt × List Entry) :=
  match l with
  | [] => .err "invalid"
  | _ =>
    match l.find? pred with
    | some e => .ok (some e.2, l.eraseP pred)
    | none => .err "notfound"

def popL (l : List Entry) : Res (Option Pkt × List Entry) :=
  match l with
  | [] => .err "invalid"
  | e :: t => .ok (some e.2, t)

@[reducible] def listImpl : QImpl where
  Q := List Entry
  empty := []
  length := fun l => l.length % 65536
  push := fun l p s => .ok (insertL l (s, p))
  find := findL
  popAt := fun l sq => popByL l (fun e => e.1 == sq)
  popAtTs := fun l ts => popByL l (fun e => e.2.ts == ts)
  clear := fun _ => .ok []


/-- the list-level queue with a cached entry count, so that `length` is O(1).  The driver uses it
for histories that buffer a full sequence-number cycle (65536 packets and more); it refines the
list-level queue (`fastRefines` in Proofs/JitterBufferList.lean), hence behaves exactly like
`listImpl` and, by `heapRefines`, like the heap-level queue. -/
@[reducible] def fastImpl : QImpl where
  Q := List Entry × Nat
  empty := ([], 0)
  length := fun q => q.2 % 65536
  push := fun q p s => .ok (insertL q.1 (s, p), q.2 + 1)
  find := fun q sq => findL q.1 sq
  popAt := fun q sq =>
    match popByL q.1 (fun e => e.1 == sq) with
    | .ok (v, l') => .ok (v, (l', q.2 - 1))
    | .err e => .err e
    | .panic x => .panic x
  popAtTs := fun q ts =>
    match popByL q.1 (fun e => e.2.ts == ts) with
    | .ok (v, l') => .ok (v, (l', q.2 - 1))
    | .err e => .err e
    | .panic x => .panic x
  clear := fun _ => .ok ([], 0)

/-! ### operations of the JitterBuffer as data, and histories -/

inductive Op where
  | push (p : Pkt)
  | pop
  | popSeq (sq : Nat)
  | popTs (ts : Nat)
  | peek (playoutHead : Bool)
  | peekSeq (sq : Nat)
  | setHead (h : Nat)
  | getHead
  | clear (reset : Bool)
  deriving Repr, DecidableEq

def JB.step {I : QImpl} (jb : JB I) : Op → JB I × Out
  | .push p => jb.push p
  | .pop => jb.pop
  | .popSeq sq => jb.popAtSequence sq
  | .popTs ts => jb.popAtTimestamp ts
  | .peek b => (jb, jb.peek b)
  | .peekSeq sq => (jb, jb.peekAtSequence sq)
  | .setHead h => (jb.setPlayoutHead h, { ret := .ok none })
  | .getHead => (jb, { ret := .ok none })
  | .clear r => jb.clear r

/-- one record of a history: the playout head and `playoutReady` before the call, the call, its result. -/
structure Rec where
  head : Nat
  ready : Bool
  op : Op
  out : Out

/-- run a history; returns the final state and the records. -/
def JB.run {I : QImpl} (jb : JB I) : List Op → JB I × List Rec
  | [] => (jb, [])
  | op :: ops =>
    let (jb', o) := jb.step op
    let (jb'', tr) := JB.run jb' ops
    (jb'', { head := jb.head, ready := jb.ready, op := op, out := o } :: tr)

/-! ### vocabulary for statements about histories -/

abbrev LJB := JB listImpl

def pkts (l : List Entry) : List Pkt := l.map (·.2)

/-- the packet returned by a call (pop, peek or find), if any. -/
def Rec.pkt? (r : Rec) : Option Pkt :=
  match r.out.ret with
  | .ok (some p) => some p
  | _ => none

/-- packets pushed by a history. -/
def pushedOf : List Op → List Pkt
  | [] => []
  | .push p :: ops => p :: pushedOf ops
  | _ :: ops => pushedOf ops

def Op.removes : Op → Bool
  | .pop | .popSeq _ | .popTs _ => true
  | _ => false

/-- packets handed out by the removing calls (Pop, PopAtSequence, PopAtTimestamp) of a history. -/
def poppedOf : List Rec → List Pkt
  | [] => []
  | r :: tr => if r.op.removes then (match r.pkt? with | some p => p :: poppedOf tr | none => poppedOf tr) else poppedOf tr

def Op.atHead : Op → Bool
  | .pop | .popSeq _ => true
  | _ => false

/-- sequence numbers returned by the successful pops at the playout head (Pop, PopAtSequence). -/
def headPops : List Rec → List Nat
  | [] => []
  | r :: tr => if r.op.atHead then (match r.pkt? with | some p => p.seq :: headPops tr | none => headPops tr) else headPops tr

/-- `h, h+1, h+2, …` modulo 2^16. -/
def Consec : Nat → List Nat → Prop
  | _, [] => True
  | h, x :: xs => x = h ∧ Consec ((h + 1) % 65536) xs

/-- a call that does not move the playout head by other means than popping at it: no
`SetPlayoutHead`, no `Clear(true)`, no `Clear(false)` before playback ever started, and no
*successful* `PopAtSequence(sq)` with `sq` different from the playout head (which advances the
head although the packet at the head stays buffered). -/
def Rec.Quiet (r : Rec) : Prop :=
  match r.op with
  | .setHead _ => False
  | .clear true => False
  | .clear false => r.ready = true
  | .popSeq sq => r.pkt? = none ∨ sq = r.head
  | _ => True

/-- every buffered entry is keyed by the sequence number of its packet. -/
def PrioOk (l : List Entry) : Prop := ∀ e ∈ l, e.1 = e.2.seq

/-! ### what it means for a queue implementation to refine the list-level queue -/

/-- relation between the result of a pop-like operation of an implementation and of the spec. -/
def PopRel {Q : Type} (Rep : Q → List Entry → Prop) :
    Res (Option Pkt × Q) → Res (Option Pkt × List Entry) → Prop
  | .ok (v, q'), .ok (v', l') => v = v' ∧ Rep q' l'
  | .err e, .err e' => e = e'
  | _, _ => False

/-- `Rep q l`: the (well-formed) implementation state `q` represents the entry list `l`;
every operation of the implementation acts on `l` as the list-level operation does. -/
structure Refines (I : QImpl) where
  Rep : I.Q → List Entry → Prop
  empty : Rep I.empty []
  length : ∀ {q l}, Rep q l → I.length q = l.length % 65536
  push : ∀ {q l} (p : Pkt) (s : Nat), Rep q l → ∃ q', I.push q p s = .ok q' ∧ Rep q' (insertL l (s, p))
  find : ∀ {q l} (s : Nat), Rep q l → I.find q s = findL l s
  popAt : ∀ {q l} (s : Nat), Rep q l → PopRel Rep (I.popAt q s) (popByL l (fun e => e.1 == s))
  popAtTs : ∀ {q l} (t : Nat), Rep q l → PopRel Rep (I.popAtTs q t) (popByL l (fun e => e.2.ts == t))
  clear : ∀ {q l}, Rep q l → ∃ q', I.clear q = .ok q' ∧ Rep q' []

end Interceptor.JitterBuffer

/-
Independent specification decoders for C09: what a TWCC feedback / an RFC 8888 report SAYS
about each sequence number, without any sender history.  Written over the flat symbol list
(not chunk by chunk, no delta index): the status of the j-th symbol belongs to sequence number
`(base + j) mod 2^16`; the k-th *timed* symbol owns the k-th receive delta.
-/
import Interceptor.Model.FeedbackTypes
namespace Interceptor.Feedback.Spec
open Interceptor.Feedback

/-- what the feedback says about one sequence number. -/
inductive St where
  | lost
  | recvAt (t : Int)
  | recvNoTime
  | reserved          -- a symbol value the draft does not define: nothing is said
  deriving Repr, DecidableEq

def St.time : St → Option Int
  | .recvAt t => some t
  | _ => none

/-- symbols of one chunk; a chunk of unknown type says nothing. -/
def expand : Chunk → List Nat
  | .rl sym run => List.replicate run sym
  | .sv syms => syms
  | .other => []

def symbols (cs : List Chunk) : List Nat := cs.flatMap expand

/-- statuses of a symbol list: (statuses, reference time after the last delta, deltas used);
`none` when there are fewer deltas than timed symbols (inconsistent feedback). -/
def walk : Int → List Nat → List Int → Option (List St × Int × Nat)
  | ref, [], _ => some ([], ref, 0)
  | ref, s :: ss, ds =>
    if s = symNotReceived then (walk ref ss ds).map fun r => (St.lost :: r.1, r.2.1, r.2.2)
    else if s = symSmall ∨ s = symLarge then
      match ds with
      | [] => none
      | d :: ds' => (walk (ref + d * 1000) ss ds').map fun r => (St.recvAt (ref + d * 1000) :: r.1, r.2.1, r.2.2 + 1)
    else if s = symNoDelta then (walk ref ss ds).map fun r => (St.recvNoTime :: r.1, r.2.1, r.2.2)
    else (walk ref ss ds).map fun r => (St.reserved :: r.1, r.2.1, r.2.2)

/-- attach sequence numbers: the j-th status belongs to `(i + j) mod 2^16`. -/
def number : Nat → List St → List (Nat × St)
  | _, [] => []
  | i, s :: ss => (i % 65536, s) :: number (i + 1) ss

/-- ★ the TWCC spec decoder: statuses of the numbers in `[base, base + count)`. -/
def decodeTWCC (fb : Twcc) : Option (List (Nat × St)) :=
  (walk (refTime fb.ref) ((symbols fb.chunks).take fb.count) fb.deltas).map fun r => number fb.base r.1

/-- the same without the bound by `PacketStatusCount` (what the internal/cc adapter
implements, F-15). -/
def decodeTWCCAll (fb : Twcc) : Option (List (Nat × St)) :=
  (walk (refTime fb.ref) (symbols fb.chunks) fb.deltas).map fun r => number fb.base r.1

/-- what an RFC 8888 metric block says: lost, or received with ECN and (unless the offset is
the "unavailable" value 0x1FFF) an arrival time. -/
structure CSt where
  received : Bool
  arrival : Option Int
  ecn : Nat
  deriving Repr, DecidableEq

def metricSt (ref : Int) (m : Metric) : CSt :=
  if m.received then ⟨true, if m.ato = 0x1FFF then none else some (ref - atoNs m.ato), m.ecn⟩
  else ⟨false, none, 0⟩

def numberC (ref : Int) : Nat → List Metric → List (Nat × CSt)
  | _, [] => []
  | i, m :: ms => (i % 65536, metricSt ref m) :: numberC ref (i + 1) ms

/-- ★ the RFC 8888 spec decoder: per report block (SSRC), the status of each number. -/
def decodeCCFB (fb : Ccfb) : List (Nat × List (Nat × CSt)) :=
  fb.blocks.map fun b => (b.ssrc, numberC fb.ref b.begin b.metrics)

end Interceptor.Feedback.Spec

/-
Spec for C19: the statistics of a stream as a *recount* of the history of what passed through
the interceptor.  Everything here is a count / sum / "last element" over the event list — no
running state.  (Executable: the driver checks model = spec at every `get`.)
-/
import Interceptor.Model.Stats
namespace Interceptor.Stats.Spec
open Interceptor.F64

def isBind (s : Nat) : Event → Bool
  | .bind s' _ => s' == s
  | _ => false

def isClose : Event → Bool
  | .close => true
  | _ => false

/-- the activation of the recorder of `s`: the clock rate of the first `Bind*Stream` for `s`
and the part of the history during which that recorder is active (after that bind, until the
interceptor is closed).  `none`: no recorder for `s`, `Get` returns nil. -/
def activation (s : Nat) (evs : List Event) : Option (Nat × List Event) :=
  match evs.dropWhile (fun e => !isBind s e) with
  | .bind _ rate :: rest => some (rate, rest.takeWhile (fun e => !isClose e))
  | _ => none

def window (s : Nat) (evs : List Event) : Option (List Event) := (activation s evs).map (·.2)

/-- the clock rate the recorder was created with (first bind). -/
def rateOf (s : Nat) (evs : List Event) : Option Nat := (activation s evs).map (·.1)

/-- incoming RTP packets of stream `s` (travelling on its stream, carrying its SSRC). -/
def received (s : Nat) (w : List Event) : List Rtp :=
  w.filterMap fun e => match e with
    | .rtpIn _ via p => if via = s ∧ p.ssrc = s then some p else none
    | _ => none

def sent (s : Nat) (w : List Event) : List Rtp :=
  w.filterMap fun e => match e with
    | .rtpOut via p => if via = s ∧ p.ssrc = s then some p else none
    | _ => none

/-- all RTCP packets received, compound packets flattened, in order. -/
def rtcpInPkts (w : List Event) : List Rtcp :=
  w.flatMap fun e => match e with
    | .rtcpIn _ pkts => pkts
    | _ => []

def rtcpOutPkts (w : List Event) : List Rtcp :=
  w.flatMap fun e => match e with
    | .rtcpOut pkts => pkts
    | _ => []

def isNackFor (s : Nat) : Rtcp → Bool
  | .nack _ m => m == s
  | _ => false

def isPliFor (s : Nat) : Rtcp → Bool
  | .pli _ m => m == s
  | _ => false

/-- outgoing FIR: addressed through its FCI entries. -/
def isFirOutFor (s : Nat) : Rtcp → Bool
  | .fir _ _ es => es.contains s
  | _ => false

/-- incoming FIR: addressed through its FCI entries as well (RFC 5104: the media SSRC of the
header is unused). -/
def isFirInFor (s : Nat) : Rtcp → Bool
  | .fir _ _ es => es.contains s
  | _ => false

/-- incoming SR that names `s` (as sender or in a report block). -/
def isSrFor (s : Nat) : Rtcp → Bool
  | .sr ssrc _ _ _ rs => ssrc == s || rs.any (·.ssrc == s)
  | _ => false

/-- the additive counters of `stats.Stats`. -/
structure Counters where
  inPR : Nat
  inHB : Nat
  inB : Nat
  inFIR : Nat
  inPLI : Nat
  inNACK : Nat
  outPS : Nat
  outBS : Nat
  outHB : Nat
  outNACK : Nat
  outFIR : Nat
  outPLI : Nat
  roReports : Nat
  deriving DecidableEq, Repr

def countersOf (st : IStats) : Counters :=
  { inPR := st.inPR, inHB := st.inHB, inB := st.inB, inFIR := st.inFIR, inPLI := st.inPLI,
    inNACK := st.inNACK, outPS := st.outPS, outBS := st.outBS, outHB := st.outHB,
    outNACK := st.outNACK, outFIR := st.outFIR, outPLI := st.outPLI, roReports := st.roReports }

/-- the recount over an active window. -/
def recountW (s : Nat) (w : List Event) : Counters :=
  { inPR := (received s w).length
    inHB := ((received s w).map (·.hs)).sum
    inB := ((received s w).map (·.len)).sum
    inFIR := (rtcpOutPkts w).countP (isFirOutFor s)
    inPLI := (rtcpOutPkts w).countP (isPliFor s)
    inNACK := (rtcpOutPkts w).countP (isNackFor s)
    outPS := (sent s w).length
    outBS := ((sent s w).map (fun p => p.hs + p.len)).sum
    outHB := ((sent s w).map (·.hs)).sum
    outNACK := (rtcpInPkts w).countP (isNackFor s)
    outFIR := (rtcpInPkts w).countP (isFirInFor s)
    outPLI := (rtcpInPkts w).countP (isPliFor s)
    roReports := (rtcpInPkts w).countP (isSrFor s) }

/-- ★ the recount of stream `s` over a whole history (`none`: `Get` returns nil). -/
def recount (s : Nat) (evs : List Event) : Option Counters := (window s evs).map (recountW s)

/-! ### loss -/

/-- unwrapped sequence numbers of the packets received on stream `s`. -/
def unwrapped (s : Nat) (w : List Event) : List Int :=
  Unwrapper.unwrapAll none ((received s w).map (·.seq))

/-- expected − received over the unwrapped range (`0` before the first packet). -/
def lostOf (us : List Int) : Int :=
  match us with
  | [] => 0
  | first :: _ => (us.foldl max 0 - first + 1) - us.length

/-! ### remote figures -/

/-- the reception report blocks carried by a packet. -/
def reportsOfPkt : Rtcp → List Report
  | .sr _ _ _ _ rs => rs
  | .rr _ rs => rs
  | _ => []

/-- reception report blocks about `s` in incoming SR/RR packets, in order of arrival. -/
def reportsFor (s : Nat) (w : List Event) : List Report :=
  ((rtcpInPkts w).flatMap reportsOfPkt).filter (·.ssrc == s)

/-- WebRTC-stats figures taken from one report block. -/
structure RemoteLoss where
  lost : Int
  jitter : Rat
  fractionLost : Rat
  deriving DecidableEq

def remoteOf (rate : Rat) : Option Report → RemoteLoss
  | none => { lost := 0, jitter := 0, fractionLost := 0 }
  | some r => { lost := r.tl, jitter := div (ofInt r.jit) rate, fractionLost := div (ofInt r.fl) 256 }

def remoteLossOf (st : IStats) : RemoteLoss :=
  { lost := st.riLost, jitter := st.riJitter, fractionLost := st.riFL }

/-- NTP times of the SRs sent that name `s`, oldest first (the recorder remembers the last 5). -/
def srTimes (s : Nat) (w : List Event) : List Nat :=
  (rtcpOutPkts w).filterMap fun p => match p with
    | .sr ssrc ntp _ _ rs => if ssrc == s || rs.any (·.ssrc == s) then some ntp else none
    | _ => none

/-- NTP times of all receiver-reference-time blocks sent. -/
def rrtrTimes (w : List Event) : List Nat :=
  (rtcpOutPkts w).flatMap fun p => match p with
    | .xr _ blocks => blocks.filterMap fun b => match b with
      | .rrtr ntp => some ntp
      | .dlrr _ => none
    | _ => []

def lastN (n : Nat) (l : List Nat) : List Nat := l.drop (l.length - n)

/-- round-trip time per RFC 3550 §6.4.1: `now − DLSR − T(LSR)`. -/
def rttOf (now : Int) (delay : Nat) (ntp : Nat) : Int := (now - delayNs delay) - Ntp.toTime ntp

/-! ### round-trip time as a function of the history -/

/-- the RTT measurements a list of report blocks (all about the stream, all arriving at `now`)
yields against the remembered sender-report times `mem` (oldest first): a block with non-zero
LSR and DLSR whose LSR equals the middle 32 bits of a remembered time — the most recent such
time — yields `now − DLSR − ToTime(that time)`; other blocks yield nothing. -/
def hitsAt (now : Int) (mem : List Nat) (rs : List Report) : List Int :=
  rs.filterMap fun r =>
    if r.dlsr ≠ 0 ∧ r.lsr ≠ 0 then ((searchOrder mem).find? (midMatches r.lsr)).map (rttOf now r.dlsr) else none

/-- the measurements one event yields for `s`, given the history `pre` before it: the report
blocks about `s` of an incoming compound packet, judged against the last five sender reports
sent for `s` in `pre`. -/
def rttHitsOfEvent (s : Nat) (pre : List Event) : Event → List Int
  | .rtcpIn now pkts => hitsAt now (lastN 5 (srTimes s pre)) ((pkts.flatMap reportsOfPkt).filter (·.ssrc == s))
  | _ => []

/-- all RTT measurements of stream `s` over `w`, in order, `pre` being the history before `w`. -/
def rttHitsFrom (s : Nat) (pre : List Event) : List Event → List Int
  | [] => []
  | e :: w => rttHitsOfEvent s pre e ++ rttHitsFrom s (pre ++ [e]) w

def rttHits (s : Nat) (w : List Event) : List Int := rttHitsFrom s [] w

/-- `RoundTripTime`, `TotalRoundTripTime` (int64 wrap-around), `RoundTripTimeMeasurements`. -/
structure RttFigures where
  rtt : Int
  total : Int
  n : Nat
  deriving DecidableEq, Repr

def rttFiguresOf (hits : List Int) : RttFigures :=
  { rtt := hits.getLast?.getD 0, total := hits.foldl (fun a x => wrap64 (a + x)) 0, n := hits.length }

def remoteInboundRtt (st : IStats) : RttFigures := { rtt := st.riRTT, total := st.riTotRTT, n := st.riN }

/-- the same for DLRR: a sub-report about `s` with non-zero LastRR and DLRR yields one measurement
for *every* remembered receiver-reference time (most recent first) whose middle bits match. -/
def dlrrHitsAt (s : Nat) (now : Int) (mem : List Nat) (subs : List DlrrSub) : List Int :=
  subs.flatMap fun x =>
    if x.lrr ≠ 0 ∧ x.dlrr ≠ 0 ∧ x.ssrc = s then
      ((searchOrder mem).filter (midMatches x.lrr)).map (rttOf now x.dlrr)
    else []

/-- the DLRR sub-reports carried by a packet. -/
def dlrrSubsOfPkt : Rtcp → List DlrrSub
  | .xr _ blocks => (blocks.flatMap fun b => match b with
      | .dlrr subs => subs
      | .rrtr _ => [])
  | _ => []

def dlrrHitsOfEvent (s : Nat) (pre : List Event) : Event → List Int
  | .rtcpIn now pkts => dlrrHitsAt s now (lastN 5 (rrtrTimes pre)) (pkts.flatMap dlrrSubsOfPkt)
  | _ => []

def dlrrHitsFrom (s : Nat) (pre : List Event) : List Event → List Int
  | [] => []
  | e :: w => dlrrHitsOfEvent s pre e ++ dlrrHitsFrom s (pre ++ [e]) w

def dlrrHits (s : Nat) (w : List Event) : List Int := dlrrHitsFrom s [] w

def remoteOutboundRtt (st : IStats) : RttFigures := { rtt := st.roRTT, total := st.roTotRTT, n := st.roN }

/-! ### isolation: what concerns stream `s` -/

/-- an incoming RTCP packet concerns `s` iff `s` is among its destination SSRCs. -/
def keepIn (s : Nat) (p : Rtcp) : Bool := p.dest.contains s

/-- an outgoing RTCP packet concerns `s` iff it is a FIR/PLI/NACK/SR naming `s`, or an XR
(receiver-reference-time blocks carry no destination). -/
def keepOut (s : Nat) : Rtcp → Bool
  | .xr _ _ => true
  | .rr _ _ => false
  | .other _ => false
  | .sr ssrc ntp pc oc rs => (Rtcp.sr ssrc ntp pc oc rs).dest.contains s
  | .nack a m => (Rtcp.nack a m).dest.contains s
  | .pli a m => (Rtcp.pli a m).dest.contains s
  | .fir a m es => (Rtcp.fir a m es).dest.contains s

/-- the part of an event that concerns `s` (`none`: nothing of it does). -/
def restrictEvent (s : Nat) : Event → Option Event
  | .bind s' r => if s' = s then some (.bind s' r) else none
  | .rtpIn now via p => if via = s ∧ p.ssrc = s then some (.rtpIn now via p) else none
  | .rtpOut via p => if via = s ∧ p.ssrc = s then some (.rtpOut via p) else none
  | .rtcpIn now pkts => some (.rtcpIn now (pkts.filter (keepIn s)))
  | .rtcpOut pkts => some (.rtcpOut (pkts.filter (keepOut s)))
  | .close => some .close

/-- the sub-history that concerns `s`: all traffic of other streams, bindings of other streams
and RTCP packets not addressed to `s` erased. -/
def restrict (s : Nat) (evs : List Event) : List Event := evs.filterMap (restrictEvent s)

end Interceptor.Stats.Spec

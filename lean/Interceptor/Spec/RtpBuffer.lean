/-
Abstract spec of the retransmission buffer: no ring, no slot aliasing.
`SBuf` is the history of sends reduced to what the property calls retransmittable: the packets
whose number has stayed among the most recent `size` numbers up to the highest one sent, newest
first.  `SBuf.get x` = "the last packet sent with number x, provided x is within the most recent
`size` numbers up to the highest" (all arithmetic mod 2^16, "higher" = forward half range).
A repeat of the current highest number is ignored (the first one is kept) and a late send that is
already outside the window is ignored; both as the (fixed) code does.
Executable: the driver runs it next to the ring model as an oracle.
-/
import Interceptor.Base.Seq16
namespace Interceptor.RtpBuffer
open Interceptor

structure SBuf (α : Type) where
  size : Nat
  started : Bool
  hi : Nat
  m : List α            -- accepted sends still inside the window, newest first

def SBuf.new {α : Type} (size : Nat) : SBuf α := { size := size, started := false, hi := 0, m := [] }

/-- `x` is within the most recent `size` numbers up to `hi`. -/
def inWin (size hi x : Nat) : Bool := sub16 hi x < size

def SBuf.send {α : Type} (seqOf : α → Nat) (s : SBuf α) (p : α) : SBuf α :=
  let seq := seqOf p
  if s.started = false then { s with started := true, hi := seq, m := [p] }
  else
    let d := sub16 seq s.hi
    if d = 0 then s                                       -- repeat of the highest: first one kept
    else if d < 32768 then                                -- new highest: window slides
      { s with hi := seq, m := p :: s.m.filter (fun q => inWin s.size seq (seqOf q)) }
    else if inWin s.size s.hi seq then { s with m := p :: s.m }   -- late, still inside the window
    else s                                                -- late, outside the window

/-- the retransmittable packet for number `x`. -/
def SBuf.get {α : Type} (seqOf : α → Nat) (s : SBuf α) (x : Nat) : Option α :=
  if inWin s.size s.hi x then s.m.find? (fun q => seqOf q = x) else none

def SBuf.clear {α : Type} (s : SBuf α) : SBuf α := { s with started := false, m := [] }

/-- the spec state after a whole send history. -/
def SBuf.sendAll {α : Type} (seqOf : α → Nat) (s : SBuf α) (ps : List α) : SBuf α :=
  ps.foldl (SBuf.send seqOf) s

end Interceptor.RtpBuffer

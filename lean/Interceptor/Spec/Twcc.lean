/-
Specification side of C05, written from draft-holmer-rmcat-transport-wide-cc-extensions-01 §3.1
and from the property text — NOT from the Go code and not importing the model:

* `decode`: an independent decoder of one transport-wide feedback message
  (FCI fields + the bytes that follow them) into `(sequence number, status, arrival time)`.
* `Arr` / `St`: the abstract arrival history `number ⇀ first arrival time` restricted to the
  window the property talks about (500 ms after everything was reported / 2^15 numbers), the
  cursor `start`, and what one `build` has to report.

Only the sequence-number unwrapper is shared with the model side (it is C20's verified model).
-/
import Interceptor.Model.Unwrapper
namespace Interceptor.TwccSpec

/-! ## decoder -/

/-- a packet status chunk as read from its 16-bit word (draft §3.1.3 / §3.1.4). -/
inductive WChunk where
  | run (sym len : Nat)
  | vec (twoBit : Bool) (syms : List Nat)
  deriving DecidableEq, Repr, Inhabited

/-- bit 0 (MSB) = chunk type; run length: 2-bit symbol, 13-bit length; status vector: bit 1 =
symbol size, then 14 one-bit or 7 two-bit symbols, first symbol in the most significant bits. -/
def parseWord (w : Nat) : WChunk :=
  if w / 32768 % 2 = 0 then .run (w / 8192 % 4) (w % 8192)
  else if w / 16384 % 2 = 0 then .vec false ((List.range 14).map fun i => w / 2 ^ (13 - i) % 2)
  else .vec true ((List.range 7).map fun i => w / 4 ^ (6 - i) % 4)

/-- the statuses a chunk stands for (0 not received, 1 small delta, 2 large delta, 3 reserved). -/
def WChunk.expand : WChunk → List Nat
  | .run s n => List.replicate n s
  | .vec _ l => l

/-- the fields of one feedback message after the common RTCP header and the two SSRCs. -/
structure Wire where
  base : Nat
  count : Nat
  ref : Nat            -- 24 bits, multiples of 64 ms
  fbCount : Nat
  body : List Nat      -- bytes after `fb pkt count`: chunks, deltas, padding
  deriving Repr, Inhabited

/-- read chunks until `count` statuses are covered; returns the chunks and the remaining bytes. -/
def parseChunks : Nat → Nat → List Nat → List WChunk → Option (List WChunk × List Nat)
  | 0, _, _, _ => none
  | fuel + 1, need, bytes, acc =>
    if need = 0 then some (acc.reverse, bytes)
    else match bytes with
      | b0 :: b1 :: rest =>
        let ch := parseWord (b0 * 256 + b1)
        let n := ch.expand.length
        if n = 0 then none else parseChunks fuel (need - n) rest (ch :: acc)
      | _ => none

/-- a recv delta in 250 µs ticks: one unsigned byte for status 1, two bytes big-endian two's
complement for status 2 (draft §3.1.5). -/
def readDeltas : List Nat → List Nat → Option (List (Nat × Option Int))
  | [], _ => some []
  | 0 :: ss, bytes => (readDeltas ss bytes).map ((0, none) :: ·)
  | 1 :: ss, b :: bytes => (readDeltas ss bytes).map ((1, some (b : Int)) :: ·)
  | 2 :: ss, b0 :: b1 :: bytes =>
    let v := b0 * 256 + b1
    let d : Int := if v ≥ 32768 then (v : Int) - 65536 else v
    (readDeltas ss bytes).map ((2, some d) :: ·)
  | _, _ => none

/-- one decoded status: sequence number (16 bit), status symbol, arrival time in µs if received. -/
structure Entry where
  seq : Nat
  status : Nat
  time : Option Int
  deriving DecidableEq, Repr, Inhabited

/-- statuses with times: `time = ref·64 ms + 250 µs · Σ deltas so far`. -/
def timed : Nat → Int → List (Nat × Option Int) → List Entry
  | _, _, [] => []
  | seq, acc, (s, none) :: rest => ⟨seq % 65536, s, none⟩ :: timed (seq + 1) acc rest
  | seq, acc, (s, some d) :: rest => ⟨seq % 65536, s, some (acc + 250 * d)⟩ :: timed (seq + 1) (acc + 250 * d) rest

/-- result of the two parsing stages. -/
structure Parsed where
  chunks : List WChunk
  statuses : List (Nat × Option Int)     -- exactly `count` of them, with the delta ticks
  deriving Repr, Inhabited

def parse (w : Wire) : Option Parsed :=
  match parseChunks (w.body.length + 1) w.count w.body [] with
  | none => none
  | some (chunks, rest) =>
    let st := (chunks.flatMap WChunk.expand).take w.count
    match readDeltas st rest with
    | none => none
    | some ds => some ⟨chunks, ds⟩

/-- the decoder: `none` = not a well-formed feedback message. -/
def decode (w : Wire) : Option (List Entry) :=
  (parse w).map fun p => timed w.base ((w.ref : Int) * 64000) p.statuses

/-! ## abstract arrival history -/

/-- `ents` = the recorded first arrivals (number, time), highest number first, all inside
`[lo, hi)`. `live = false` until the first record. -/
structure Arr where
  ents : List (Int × Int) := []
  lo : Int := 0
  hi : Int := 0
  live : Bool := false
  deriving Repr, Inhabited

/-- lookup in a list sorted by descending number. -/
def findDesc (sn : Int) : List (Int × Int) → Option Int
  | [] => none
  | (k, v) :: rest => if k = sn then some v else if k < sn then none else findDesc sn rest

def Arr.find (a : Arr) (sn : Int) : Option Int :=
  if a.lo ≤ sn ∧ sn < a.hi then findDesc sn a.ents else none

def insertDesc (sn t : Int) : List (Int × Int) → List (Int × Int)
  | [] => [(sn, t)]
  | (k, v) :: rest =>
    if sn > k then (sn, t) :: (k, v) :: rest
    else if sn = k then (sn, t) :: rest
    else (k, v) :: insertDesc sn t rest

/-- a first arrival of `sn` at `t`; the window keeps at most 2^15 consecutive numbers ending at
the highest one, and a number more than 2^15 below the highest is ignored. -/
def Arr.add (a : Arr) (sn t : Int) : Arr :=
  if !a.live then { ents := [(sn, t)], lo := sn, hi := sn + 1, live := true }
  else if a.lo ≤ sn ∧ sn < a.hi then { a with ents := insertDesc sn t a.ents }
  else if sn < a.lo then
    if a.hi - sn > 32768 then a else { a with ents := a.ents ++ [(sn, t)], lo := sn }
  else if sn + 1 ≥ a.hi + 32768 then { ents := [(sn, t)], lo := sn, hi := sn + 1, live := true }
  else
    let lo := max a.lo (sn + 1 - 32768)
    let kept := if lo = a.lo then a.ents else a.ents.filter (fun e => decide (e.1 ≥ lo))
    { ents := (sn, t) :: kept, lo := lo, hi := sn + 1, live := true }

/-- forget, from the low end and below `upTo`, everything up to the first entry younger than
`limit` (numbers without an entry go with them). -/
def Arr.cull (a : Arr) (upTo limit : Int) : Arr :=
  let checkTo := min upTo a.hi
  -- the lowest number whose entry is younger than `limit` (the list is descending)
  let young := (a.ents.reverse.find? (fun e => decide (e.2 > limit))).map (·.1)
  let stop := match young with
    | some k => min k checkTo
    | none => checkTo
  let lo := max a.lo stop
  { a with lo := lo, ents := a.ents.filter (fun e => decide (e.1 ≥ lo)) }

/-- specification state of the recorder. -/
structure St where
  arr : Arr := {}
  unw : Unwrapper.State := none
  start : Option Int := none
  fbCnt : Nat := 0
  inDomain : Bool := true     -- false once a negative arrival time was recorded
  deriving Inhabited

def St.record (s : St) (seq : Nat) (t : Int) : St :=
  let (u, sn) := Unwrapper.unwrap s.unw seq
  let s := { s with unw := u, inDomain := s.inDomain && decide (t ≥ 0) }
  -- history older than 500 ms is dropped only once everything in it has been reported
  let s := match s.start with
    | some st => if st ≥ s.arr.hi ∧ t ≥ 500000 then { s with arr := s.arr.cull sn (t - 500000) } else s
    | none => s
  let s := match s.start with
    | none => { s with start := some sn }
    | some st => if sn < st then { s with start := some sn } else s
  -- only the first arrival of a number counts
  if (s.arr.find sn).isSome then s else
  let s := { s with arr := s.arr.add sn t }
  match s.start with
  | some st => if st < s.arr.lo then { s with start := some s.arr.lo } else s
  | none => s

/-- what the next build has to report: every recorded number from the cursor on, in order. -/
def St.expected (s : St) : List (Int × Int) :=
  match s.start with
  | none => []
  | some st => (s.arr.ents.filter (fun e => decide (e.1 ≥ st))).reverse

/-- state after a build that produced `k` packets. -/
def St.built (s : St) (k : Nat) : St :=
  match s.start with
  | none => s
  | some st => { s with start := some (max st s.arr.hi), fbCnt := (s.fbCnt + k) % 256 }

/-- modulus of the reference time: 2^24 · 64 ms in µs. -/
def refRange : Int := 16777216 * 64000

/-- `τ` is within 125 µs of `t` modulo the reference-time range. -/
def closeMod (τ t : Int) : Bool :=
  let d := (τ - t) % refRange
  decide (d ≤ 125 ∨ d ≥ refRange - 125)

/-- check one build: `pkts` are the decoded packets `(wire, entries)`. Returns the list of
complaints (empty = the build reports exactly what was received). -/
def St.checkBuild (s : St) (pkts : List (Wire × Option (List Entry))) : List String :=
  match s.start with
  | none => if pkts.isEmpty then [] else ["packets-before-any-record"]
  | some st => Id.run do
    let mut errs : List String := []
    let mut cursor := st
    let mut cnt := s.fbCnt
    let mut got : List (Int × Int) := []
    for (w, d) in pkts do
      match d with
      | none => errs := errs ++ ["undecodable"]
      | some es =>
        if w.fbCount ≠ cnt then errs := errs ++ [s!"fbcount {w.fbCount} want {cnt}"]
        cnt := (cnt + 1) % 256
        if es.length ≠ w.count then errs := errs ++ ["status-count"]
        if w.count = 0 then errs := errs ++ ["empty-packet"]
        -- ranges are consecutive: the base is at or after the cursor (less than 2^16 ahead)
        let bn := cursor + ((w.base + 65536 - (cursor % 65536).toNat) % 65536 : Nat)
        let mut i : Int := 0
        for e in es do
          if e.seq ≠ ((bn + i) % 65536).toNat then errs := errs ++ ["seq-order"]
          match e.time with
          | some τ => got := (bn + i, τ) :: got
          | none => if e.status ≠ 0 then errs := errs ++ ["status-without-time"]
          i := i + 1
        cursor := bn + w.count
    got := got.reverse
    let want := s.expected
    if got.length ≠ want.length then
      errs := errs ++ [s!"reported {got.length} want {want.length}"]
    for (g, e) in got.zip want do
      if g.1 ≠ e.1 then errs := errs ++ [s!"number {g.1} want {e.1}"]
      else if !closeMod g.2 e.2 then errs := errs ++ [s!"time {g.2} want {e.2} for {g.1}"]
    if cursor > max st s.arr.hi then errs := errs ++ ["beyond-end"]
    return errs.take 4

end Interceptor.TwccSpec

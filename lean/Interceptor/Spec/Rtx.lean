/-
Spec of the retransmission form of a packet (RFC 4588) as the property states it.
-/
import Interceptor.Model.RtpBuffer
namespace Interceptor.RtpBuffer

/-- the payload without padding: with `Header.PaddingSize` set the payload never contained the
padding; in the legacy form (padding flag, `PaddingSize = 0`) the last payload byte is the count. -/
def dropPadding (h : Hdr) (pl : List Nat) : List Nat :=
  if h.padding = true ∧ h.paddingSize = 0 then pl.take (pl.length - pl.getLastD 0) else pl

/-- RTX form: RTX SSRC and payload type, fresh RTX sequence number `k`, padding removed, the
original sequence number as a 2-byte prefix of the unpadded payload. -/
def rtxForm (h : Hdr) (pl : List Nat) (rtxSsrc rtxPt k : Nat) : Pkt :=
  { seq := h.seq,
    hdr := { h with ssrc := rtxSsrc, pt := rtxPt, seq := k, padding := false,
                    paddingSize := if h.padding then 0 else h.paddingSize },
    payload := be16 h.seq ++ dropPadding h pl }

/-- the legacy padding count (last payload byte; none for an empty payload) does not exceed the
payload it is part of.  A packet violating this is not a valid RTP packet; `NewPacket` refuses it. -/
def PaddingFits (h : Hdr) (pl : List Nat) : Prop :=
  h.padding = true → h.paddingSize = 0 → pl.getLastD 0 ≤ pl.length

end Interceptor.RtpBuffer

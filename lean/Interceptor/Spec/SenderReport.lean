/-
Spec for C07: recounts over the send history (a list of `Pkt`), written without the stream state.
-/
import Interceptor.Model.SenderReport
namespace Interceptor.SenderReport.Spec
open Interceptor Interceptor.SenderReport

/-- `a` is newer than `b` in half-range order on uint16. -/
def isNewer16 (a b : Nat) : Bool := decide (0 < sub16 a b) && decide (sub16 a b < 32768)

/-- reference candidates after the first packet: every packet with `useLatest`, otherwise the
packets newer than the newest candidate so far. -/
def acceptedFrom (useLatest : Bool) (lastSN : Nat) : List Pkt → List Pkt
  | [] => []
  | p :: ps =>
    if useLatest || isNewer16 p.seq lastSN then p :: acceptedFrom useLatest p.seq ps
    else acceptedFrom useLatest lastSN ps

/-- reference candidates of a history: the first packet always. -/
def accepted (useLatest : Bool) : List Pkt → List Pkt
  | [] => []
  | p :: ps => p :: acceptedFrom useLatest p.seq ps

/-- packet count of a history (uint32). -/
def packetCount (ps : List Pkt) : Nat := ps.length % M32
/-- octet count of a history (uint32). -/
def octetCount (ps : List Pkt) : Nat := (ps.map (·.len)).sum % M32

end Interceptor.SenderReport.Spec

/-
Vocabulary for the C03 statements: running a history on the model and on the specification.
-/
import Interceptor.Model.ReceiveLog
import Interceptor.Spec.Nack
namespace Interceptor.ReceiveLog
open Interceptor

/-- the log after a history of arrivals. -/
def runLog (size : Nat) (qs : List Nat) : Log := qs.foldl add (new size)
/-- the specification state after the same history. -/
def runSpec (size : Nat) (qs : List Nat) : Option NackSpec.Stream := qs.foldl (NackSpec.arrive size) none

/-- what happens to one bound stream: an arrival or a tick. -/
inductive SOp where
  | arrive (q : Nat)
  | tick

def sstep (cfg : Cfg) (st : Stream) : SOp → Stream × Option (List Nat)
  | .arrive q => ({ st with log := add st.log q }, none)
  | .tick => tickStream cfg st

/-- number of ticks of the run whose NACK contains `y`. -/
def reqCount (cfg : Cfg) (y : Nat) : Stream → List SOp → Nat
  | _, [] => 0
  | st, op :: ops =>
    (if y ∈ ((sstep cfg st op).2).getD [] then 1 else 0) + reqCount cfg y (sstep cfg st op).1 ops

/-- `y` is in the missing list at every tick of the run. -/
def missingAtEveryTick (cfg : Cfg) (y : Nat) : Stream → List SOp → Prop
  | _, [] => True
  | st, .tick :: ops => y ∈ missing st.log cfg.skip ∧ missingAtEveryTick cfg y (tickStream cfg st).1 ops
  | st, .arrive q :: ops => missingAtEveryTick cfg y { st with log := add st.log q } ops

/-- the packet `x` can never (again) be missing. -/
def Gone (size : Nat) (a : NackSpec.Stream) (x : Int) : Prop :=
  x ≤ a.first ∨ x ≤ a.hi - size ∨ x ∈ a.recv

/-- the packet `x` is missing (the specification's missing set, element-wise). -/
def MissingU (size skip : Nat) (a : NackSpec.Stream) (x : Int) : Prop :=
  a.first < x ∧ a.hi - size < x ∧ x ≤ a.hi - skip ∧ x ∉ a.recv

/-- the packet with unwrapped number `x` lies in the window `(hi − size, hi]` of the specification state. -/
def inWindowB (size : Nat) : Option NackSpec.Stream → Int → Bool
  | none, _ => false
  | some a, x => decide (a.hi - size < x) && decide (x ≤ a.hi)

/-- number of ticks of the run at which the PACKET `x` (unwrapped number under the specification's
unwrapping, run alongside the model) is requested: `x` is inside the window at that tick and its 16-bit
value is in the NACK written at that tick. -/
def reqCountU (cfg : Cfg) (x : Int) : Stream → Option NackSpec.Stream → List SOp → Nat
  | _, _, [] => 0
  | st, s, .arrive q :: ops =>
    reqCountU cfg x { st with log := add st.log q } (NackSpec.arrive cfg.size s q) ops
  | st, s, .tick :: ops =>
    (if inWindowB cfg.size s x && ((tickStream cfg st).2.getD []).contains (x % 65536).toNat then 1 else 0)
      + reqCountU cfg x (tickStream cfg st).1 s ops

end Interceptor.ReceiveLog

/-
Vocabulary for the C03 statements: running a history on the model and on the specification.
-/
import Interceptor.Model.ReceiveLog
import Interceptor.Spec.Nack
namespace Interceptor.ReceiveLog
open Interceptor

/-- the log after a history of arrivals. -/
def runLog (size : Nat) (qs : List Nat) : Log := qs.foldl add (new size)
/-- the specification state after the same history. -/
def runSpec (size : Nat) (qs : List Nat) : Option NackSpec.Stream := qs.foldl (NackSpec.arrive size) none

/-- what happens to one bound stream: an arrival or a tick. -/
inductive SOp where
  | arrive (q : Nat)
  | tick

def sstep (cfg : Cfg) (st : Stream) : SOp → Stream × Option (List Nat)
  | .arrive q => ({ st with log := add st.log q }, none)
  | .tick => tickStream cfg st

/-- number of ticks of the run whose NACK contains `y`. -/
def reqCount (cfg : Cfg) (y : Nat) : Stream → List SOp → Nat
  | _, [] => 0
  | st, op :: ops =>
    (if y ∈ ((sstep cfg st op).2).getD [] then 1 else 0) + reqCount cfg y (sstep cfg st op).1 ops

/-- `y` is in the missing list at every tick of the run. -/
def missingAtEveryTick (cfg : Cfg) (y : Nat) : Stream → List SOp → Prop
  | _, [] => True
  | st, .tick :: ops => y ∈ missing st.log cfg.skip ∧ missingAtEveryTick cfg y (tickStream cfg st).1 ops
  | st, .arrive q :: ops => missingAtEveryTick cfg y { st with log := add st.log q } ops

end Interceptor.ReceiveLog

import Interceptor.Driver.Util
import Interceptor.Driver.Unwrapper
open Interceptor.Driver

def components : List (String × Component) :=
  [ ("unwrapper", unwrapperComponent) ]

partial def readAll (h : IO.FS.Stream) (acc : Array String) : IO (Array String) := do
  let line ← h.getLine
  if line.isEmpty then return acc else readAll h (acc.push line)

def main (args : List String) : IO UInt32 := do
  match args with
  | [name] =>
    match components.find? (·.1 == name) with
    | some (_, c) =>
      let lines ← readAll (← IO.getStdin) #[]
      let out ← IO.getStdout
      for l in runLines c lines.toList do out.putStrLn l
      out.flush
      return 0
    | none => IO.eprintln s!"unknown component {name}"; return 2
  | _ => IO.eprintln "usage: driver <component> < ops"; return 2

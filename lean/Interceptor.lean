-- Root of the library: every property module (and through them models, specs, proofs).
import Interceptor.Props.C20
import Interceptor.Driver.Unwrapper

package corr

import (
	"fmt"
	"testing"

	"github.com/pion/interceptor/pkg/verifhooks"
)

func init() {
	register("unwrapper", &Comp{
		N: func(tier string) int {
			if tier == "thorough" {
				return 200000
			}
			return 4000
		},
		Gen: func(r *Rng, tier string, idx int) Case {
			classes := []string{"walk", "halfstep", "jumps", "nearzero", "epoch", "uniform", "highstate", "highstate"}
			cl := classes[idx%len(classes)]
			n := r.Range(2, 60)
			ops := []string{}
			cur := r.Intn(65536)
			switch cl {
			case "nearzero":
				cur = r.Pick(0, 1, 2, 32767, 32768, 32769, 65535, 65534)
			case "epoch":
				cur = r.Pick(65535, 65534, 0, 1)
			}
			if cl == "highstate" {
				// representative larger states: around multiples of 2^16 up to 2^47, in particular around 2^32
				base := int64(1) << uint(r.Pick(17, 20, 31, 32, 32, 33, 40, 47))
				if r.Bool() {
					base = base*int64(r.Range(1, 3)) + int64(r.Pick(0, 65536, -65536))
				}
				start := base + int64(r.Range(-40000, 40000))
				if start < 0 {
					start = 0
				}
				ops = append(ops, fmt.Sprintf("set %d", start))
				cur = int(start & 0xFFFF)
				cur += r.Range(-32767, 32767)
			}
			for i := 0; i < n; i++ {
				ops = append(ops, fmt.Sprintf("u %d", cur&0xFFFF))
				switch cl {
				case "walk", "nearzero", "epoch", "highstate":
					cur += r.Range(-32767, 32767)
				case "halfstep":
					cur += r.Pick(32768, -32768, 32767, -32767, 1, -1, 0)
				case "jumps":
					cur += r.Pick(1, 2, 100, 40000, -40000, 65535, -65535, 32768)
				case "uniform":
					cur = r.Intn(65536)
				}
				if cur < 0 {
					cur += 1 << 20
				}
			}
			return Case{Class: cl, Ops: ops}
		},
		Run: func(t *testing.T, ops []string, o *Out) {
			u := &verifhooks.Unwrapper{}
			for _, op := range ops {
				var n int
				var n64 int64
				if _, err := fmt.Sscanf(op, "u %d", &n); err == nil && n >= 0 && n < 65536 {
					o.P("%d", u.Unwrap(uint16(n)))
				} else if _, err := fmt.Sscanf(op, "set %d", &n64); err == nil && n64 >= 0 {
					u = &verifhooks.Unwrapper{}
					u.VerifSet(n64)
				} else if op == "new" {
					u = &verifhooks.Unwrapper{}
				} else {
					o.P("bad-op")
				}
			}
		},
	})
}

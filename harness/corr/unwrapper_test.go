package corr

import (
	"fmt"
	"testing"

	"github.com/pion/interceptor/pkg/verifhooks"
)

func init() {
	register("unwrapper", &Comp{
		N: func(tier string) int {
			if tier == "thorough" {
				return 200000
			}
			return 4000
		},
		Gen: func(r *Rng, tier string, idx int) Case {
			classes := []string{"walk", "halfstep", "jumps", "nearzero", "epoch", "uniform"}
			cl := classes[idx%len(classes)]
			n := r.Range(2, 60)
			ops := []string{}
			cur := r.Intn(65536)
			switch cl {
			case "nearzero":
				cur = r.Pick(0, 1, 2, 32767, 32768, 32769, 65535, 65534)
			case "epoch":
				cur = r.Pick(65535, 65534, 0, 1)
			}
			for i := 0; i < n; i++ {
				ops = append(ops, fmt.Sprintf("u %d", cur&0xFFFF))
				switch cl {
				case "walk", "nearzero", "epoch":
					cur += r.Range(-32767, 32767)
				case "halfstep":
					cur += r.Pick(32768, -32768, 32767, -32767, 1, -1, 0)
				case "jumps":
					cur += r.Pick(1, 2, 100, 40000, -40000, 65535, -65535, 32768)
				case "uniform":
					cur = r.Intn(65536)
				}
				if cur < 0 {
					cur += 1 << 20
				}
			}
			return Case{Class: cl, Ops: ops}
		},
		Run: func(t *testing.T, ops []string, o *Out) {
			u := &verifhooks.Unwrapper{}
			for _, op := range ops {
				var n int
				if _, err := fmt.Sscanf(op, "u %d", &n); err == nil && n >= 0 && n < 65536 {
					o.P("%d", u.Unwrap(uint16(n)))
				} else if op == "new" {
					u = &verifhooks.Unwrapper{}
				} else {
					o.P("bad-op")
				}
			}
		},
	})
}

// Package corr is the correspondence harness: it generates operation sequences, executes
// them against the real pion/interceptor code in-process and prints canonical observables.
// It is built as a test binary (go test -c) because testing/synctest needs a *testing.T.
package corr

import (
	"bufio"
	"flag"
	"fmt"
	"os"
	"runtime"
	"sort"
	"strings"
	"sync"
	"sync/atomic"
	"testing"
	"time"
)

// Rng is splitmix64; every random choice of a case derives from (seed, case index).
type Rng struct{ s uint64 }

func NewRng(seed uint64) *Rng { return &Rng{s: seed} }
func (r *Rng) U64() uint64 {
	r.s += 0x9E3779B97F4A7C15
	z := r.s
	z = (z ^ (z >> 30)) * 0xBF58476D1CE4E5B9
	z = (z ^ (z >> 27)) * 0x94D049BB133111EB
	return z ^ (z >> 31)
}
func (r *Rng) Intn(n int) int {
	if n <= 0 {
		return 0
	}
	return int(r.U64() % uint64(n))
}
func (r *Rng) Range(lo, hi int) int     { return lo + r.Intn(hi-lo+1) } // inclusive
func (r *Rng) Bool() bool               { return r.U64()&1 == 1 }
func (r *Rng) Chance(num, den int) bool { return r.Intn(den) < num }
func (r *Rng) Pick(xs ...int) int       { return xs[r.Intn(len(xs))] }

// mixSeed derives the PRNG state of case i; the multiplier differs from splitmix64's increment so that
// neighbouring cases do not get shifted copies of one stream.
func mixSeed(seed, i uint64) uint64 {
	z := (seed+1)*0xD6E8FEB86659FD93 ^ (i+1)*0xA0761D6478BD642F
	z ^= z >> 32
	z *= 0xE7037ED1A0B428DB
	z ^= z >> 29
	z *= 0x94D049BB133111EB
	return z ^ (z >> 32)
}

// Case is one generated operation sequence.
type Case struct {
	ID    string
	Class string
	Ops   []string
}

// Out collects the canonical observable lines of one case (and carries the case's ambient, see ambient_test.go).
type Out struct {
	lines []string
	Amb   *Amb
}

func (o *Out) P(format string, a ...any) { o.lines = append(o.lines, fmt.Sprintf(format, a...)) }

// Comp is one component of the harness.
type Comp struct {
	// Gen produces the idx-th case of the given tier from rng.
	Gen func(r *Rng, tier string, idx int) Case
	// N returns the number of cases for a tier.
	N func(tier string) int
	// Run executes one case against the real implementation.
	Run func(t *testing.T, ops []string, o *Out)
	// Serial: cases must not run in parallel (e.g. they measure goroutines).
	Serial bool
	// Timeout is the real-time watchdog per case (default 60 s).
	Timeout time.Duration
}

var comps = map[string]*Comp{}

func register(name string, c *Comp) { comps[name] = c }

var (
	fComp  = flag.String("comp", "", "component")
	fMode  = flag.String("mode", "", "gen | run")
	fSeed  = flag.Uint64("seed", 1, "seed")
	fTier  = flag.String("tier", "quick", "quick | thorough")
	fIn    = flag.String("in", "", "ops file (run)")
	fOut   = flag.String("out", "", "output file")
	fSeq   = flag.Bool("seq", false, "sequential, flush per case")
	fCaseTO = flag.Int("casetimeout", 60, "seconds of wall time after which a case counts as hung (HANG line, exit status 3)")
	fScale = flag.Float64("scale", 1, "multiply the number of cases")
)

// parseCases splits an ops file into cases (lines starting with "case ").
func parseCases(lines []string) []Case {
	var cs []Case
	for _, l := range lines {
		l = strings.TrimSpace(l)
		if l == "" || strings.HasPrefix(l, "#") {
			continue
		}
		if strings.HasPrefix(l, "case ") || l == "case" {
			f := strings.Fields(l)
			c := Case{}
			if len(f) > 1 {
				c.ID = f[1]
			}
			if len(f) > 2 {
				c.Class = f[2]
			}
			cs = append(cs, c)
			continue
		}
		if len(cs) == 0 {
			cs = append(cs, Case{ID: "0"})
		}
		cs[len(cs)-1].Ops = append(cs[len(cs)-1].Ops, l)
	}
	return cs
}

func caseHeader(c Case) string {
	s := "case " + c.ID
	if c.Class != "" {
		s += " " + c.Class
	}
	return s
}

// runOne runs a case with panic capture and a real-time watchdog.
func runOne(t *testing.T, c *Comp, cs Case) []string {
	done := make(chan []string, 1)
	go func() {
		o := &Out{}
		defer func() {
			if r := recover(); r != nil {
				msg := fmt.Sprint(r)
				if i := strings.IndexByte(msg, '\n'); i >= 0 {
					msg = msg[:i]
				}
				o.P("PANIC %s", msg)
			}
			done <- o.lines
		}()
		ops := cs.Ops
		if len(ops) > 0 && strings.HasPrefix(ops[0], "amb ") {
			a := parseAmb(ops[0])
			o.Amb = &a
			ops = ops[1:]
		}
		c.Run(t, ops, o)
	}()
	select {
	case l := <-done:
		return l
	case <-time.After(timeoutOf(c)):
		return []string{"HANG"}
	}
}

func TestHarness(t *testing.T) {
	if *fComp == "" {
		t.Skip("no -comp")
	}
	c, ok := comps[*fComp]
	if !ok {
		names := []string{}
		for k := range comps {
			names = append(names, k)
		}
		sort.Strings(names)
		t.Fatalf("unknown component %q (have %v)", *fComp, names)
	}
	out := os.Stdout
	if *fOut != "" {
		f, err := os.Create(*fOut)
		if err != nil {
			t.Fatal(err)
		}
		defer f.Close()
		out = f
	}
	w := bufio.NewWriterSize(out, 1<<20)
	defer w.Flush()
	switch *fMode {
	case "gen":
		n := int(float64(c.N(*fTier)) * *fScale)
		if n < 1 {
			n = 1
		}
		for i := 0; i < n; i++ {
			r := NewRng(mixSeed(*fSeed, uint64(i)))
			cs := c.Gen(r, *fTier, i)
			if cs.ID == "" {
				cs.ID = fmt.Sprintf("s%d-%d", *fSeed, i)
			}
			fmt.Fprintln(w, caseHeader(cs))
			for _, op := range cs.Ops {
				fmt.Fprintln(w, op)
			}
		}
	case "run":
		var lines []string
		in := os.Stdin
		if *fIn != "" {
			f, err := os.Open(*fIn)
			if err != nil {
				t.Fatal(err)
			}
			defer f.Close()
			in = f
		}
		sc := bufio.NewScanner(in)
		sc.Buffer(make([]byte, 1<<20), 1<<26)
		for sc.Scan() {
			lines = append(lines, sc.Text())
		}
		cases := parseCases(lines)
		results := make([][]string, len(cases))
		var hung atomic.Int32
		// a case that does not come back (an endless loop in the implementation) is reported as HANG;
		// its goroutine cannot be stopped, so the process exits with status 3 once the output is written
		guarded := func(cs Case) []string {
			ch := make(chan []string, 1)
			go func() { ch <- runOne(t, c, cs) }()
			select {
			case r := <-ch:
				return r
			case <-time.After(max(time.Duration(*fCaseTO)*time.Second, timeoutOf(c)+5*time.Second)):
				hung.Add(1)
				return []string{fmt.Sprintf("HANG the case did not finish within %d s of wall time", *fCaseTO)}
			}
		}
		if *fSeq || c.Serial {
			for i, cs := range cases {
				fmt.Fprintln(w, caseHeader(cs))
				w.Flush()
				results[i] = guarded(cs)
				for _, l := range results[i] {
					fmt.Fprintln(w, l)
				}
				w.Flush()
			}
			if hung.Load() > 0 {
				w.Flush()
				os.Exit(3)
			}
			return
		}
		var wg sync.WaitGroup
		sem := make(chan struct{}, runtime.NumCPU())
		for i := range cases {
			wg.Add(1)
			sem <- struct{}{}
			go func(i int) {
				defer wg.Done()
				defer func() { <-sem }()
				results[i] = guarded(cases[i])
			}(i)
		}
		wg.Wait()
		for i, cs := range cases {
			fmt.Fprintln(w, caseHeader(cs))
			for _, l := range results[i] {
				fmt.Fprintln(w, l)
			}
		}
		if hung.Load() > 0 {
			w.Flush()
			os.Exit(3)
		}
	default:
		t.Fatalf("unknown -mode %q", *fMode)
	}
}

// helpers for op parsing

func kv(op string) (string, map[string]string) {
	f := strings.Fields(op)
	m := map[string]string{}
	for _, x := range f[1:] {
		if i := strings.IndexByte(x, '='); i > 0 {
			m[x[:i]] = x[i+1:]
		}
	}
	return f[0], m
}

func atoi(s string) int {
	var n int
	neg := false
	for i, ch := range s {
		if i == 0 && ch == '-' {
			neg = true
			continue
		}
		if ch < '0' || ch > '9' {
			panic("bad int " + s)
		}
		n = n*10 + int(ch-'0')
	}
	if neg {
		return -n
	}
	return n
}

func joinInts[T ~int | ~uint16 | ~uint32 | ~int64 | ~uint64 | ~uint8](xs []T) string {
	if len(xs) == 0 {
		return "-"
	}
	var sb strings.Builder
	for i, x := range xs {
		if i > 0 {
			sb.WriteByte(',')
		}
		fmt.Fprintf(&sb, "%d", x)
	}
	return sb.String()
}

func parseInts(s string) []int {
	if s == "-" || s == "" {
		return nil
	}
	var r []int
	for _, p := range strings.Split(s, ",") {
		r = append(r, atoi(p))
	}
	return r
}

func hexs(b []byte) string {
	if len(b) == 0 {
		return "-"
	}
	return fmt.Sprintf("%x", b)
}

func timeoutOf(c *Comp) time.Duration {
	if c.Timeout > 0 {
		return c.Timeout
	}
	return 60 * time.Second
}
